import SqlProofs.IdentShape.Contexts2
/-! skeleton table (second context list), context `ctxSubAsFrom`: 30 reference spellings, decided by kernel evaluation of the real lexer rules,
`groupStatement` and `parseIdent` (three chunks of ten) -/
namespace Sql
namespace Acc

set_option maxRecDepth 1000000 in
theorem ctxSubAsFrom_a : ((skelsOf ctxSubAsFrom).take 10).all skelCheck = true := by decide +kernel
set_option maxRecDepth 1000000 in
theorem ctxSubAsFrom_b : (((skelsOf ctxSubAsFrom).drop 10).take 10).all skelCheck = true := by decide +kernel
set_option maxRecDepth 1000000 in
theorem ctxSubAsFrom_c : ((skelsOf ctxSubAsFrom).drop 20).all skelCheck = true := by decide +kernel

theorem ctxSubAsFrom_ok : (skelsOf ctxSubAsFrom).all skelCheck = true := all_of_chunks _ ctxSubAsFrom_a ctxSubAsFrom_b ctxSubAsFrom_c

end Acc
end Sql
