import SqlProofs.IdentShape.Contexts2
/-! skeleton table (second context list), context `ctxSubAsSel`: 30 reference spellings, decided by kernel evaluation of the real lexer rules,
`groupStatement` and `parseIdent` (three chunks of ten) -/
namespace Sql
namespace Acc

set_option maxRecDepth 1000000 in
theorem ctxSubAsSel_a : ((skelsOf ctxSubAsSel).take 10).all skelCheck = true := by decide +kernel
set_option maxRecDepth 1000000 in
theorem ctxSubAsSel_b : (((skelsOf ctxSubAsSel).drop 10).take 10).all skelCheck = true := by decide +kernel
set_option maxRecDepth 1000000 in
theorem ctxSubAsSel_c : ((skelsOf ctxSubAsSel).drop 20).all skelCheck = true := by decide +kernel

theorem ctxSubAsSel_ok : (skelsOf ctxSubAsSel).all skelCheck = true := all_of_chunks _ ctxSubAsSel_a ctxSubAsSel_b ctxSubAsSel_c

end Acc
end Sql
