import SqlProofs.IdentShape.Contexts2
import SqlProofs.IdentShape.Table2.SubAsJoin  -- build-order only: the decided lemmas need ~4 GB each, at most four run at a time
/-! skeleton table (second context list), context `ctxSubAsJoinFrom`: 30 reference spellings, decided by kernel evaluation of the real lexer rules,
`groupStatement` and `parseIdent` (three chunks of ten) -/
namespace Sql
namespace Acc

set_option maxRecDepth 1000000 in
theorem ctxSubAsJoinFrom_a : ((skelsOf ctxSubAsJoinFrom).take 10).all skelCheck = true := by decide +kernel
set_option maxRecDepth 1000000 in
theorem ctxSubAsJoinFrom_b : (((skelsOf ctxSubAsJoinFrom).drop 10).take 10).all skelCheck = true := by decide +kernel
set_option maxRecDepth 1000000 in
theorem ctxSubAsJoinFrom_c : ((skelsOf ctxSubAsJoinFrom).drop 20).all skelCheck = true := by decide +kernel

theorem ctxSubAsJoinFrom_ok : (skelsOf ctxSubAsJoinFrom).all skelCheck = true := all_of_chunks _ ctxSubAsJoinFrom_a ctxSubAsJoinFrom_b ctxSubAsJoinFrom_c

end Acc
end Sql
