import SqlProofs.IdentShape.Contexts2
/-! skeleton table (second context list), context `ctxSubAsJoin`: 30 reference spellings, decided by kernel evaluation of the real lexer rules,
`groupStatement` and `parseIdent` (three chunks of ten) -/
namespace Sql
namespace Acc

set_option maxRecDepth 1000000 in
theorem ctxSubAsJoin_a : ((skelsOf ctxSubAsJoin).take 10).all skelCheck = true := by decide +kernel
set_option maxRecDepth 1000000 in
theorem ctxSubAsJoin_b : (((skelsOf ctxSubAsJoin).drop 10).take 10).all skelCheck = true := by decide +kernel
set_option maxRecDepth 1000000 in
theorem ctxSubAsJoin_c : ((skelsOf ctxSubAsJoin).drop 20).all skelCheck = true := by decide +kernel

theorem ctxSubAsJoin_ok : (skelsOf ctxSubAsJoin).all skelCheck = true := all_of_chunks _ ctxSubAsJoin_a ctxSubAsJoin_b ctxSubAsJoin_c

end Acc
end Sql
