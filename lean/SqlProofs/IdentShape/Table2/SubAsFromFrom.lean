import SqlProofs.IdentShape.Contexts2
import SqlProofs.IdentShape.Table2.SubAsFrom  -- build-order only: the decided lemmas need ~4 GB each, at most four run at a time
/-! skeleton table (second context list), context `ctxSubAsFromFrom`: 30 reference spellings, decided by kernel evaluation of the real lexer rules,
`groupStatement` and `parseIdent` (three chunks of ten) -/
namespace Sql
namespace Acc

set_option maxRecDepth 1000000 in
theorem ctxSubAsFromFrom_a : ((skelsOf ctxSubAsFromFrom).take 10).all skelCheck = true := by decide +kernel
set_option maxRecDepth 1000000 in
theorem ctxSubAsFromFrom_b : (((skelsOf ctxSubAsFromFrom).drop 10).take 10).all skelCheck = true := by decide +kernel
set_option maxRecDepth 1000000 in
theorem ctxSubAsFromFrom_c : ((skelsOf ctxSubAsFromFrom).drop 20).all skelCheck = true := by decide +kernel

theorem ctxSubAsFromFrom_ok : (skelsOf ctxSubAsFromFrom).all skelCheck = true := all_of_chunks _ ctxSubAsFromFrom_a ctxSubAsFromFrom_b ctxSubAsFromFrom_c

end Acc
end Sql
