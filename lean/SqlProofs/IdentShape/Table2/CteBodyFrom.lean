import SqlProofs.IdentShape.Contexts2
import SqlProofs.IdentShape.Table2.SubAsSel  -- build-order only: the decided lemmas need ~4 GB each, at most four run at a time
/-! skeleton table (second context list), context `ctxCteBodyFrom`: 30 reference spellings, decided by kernel evaluation of the real lexer rules,
`groupStatement` and `parseIdent` (three chunks of ten) -/
namespace Sql
namespace Acc

set_option maxRecDepth 1000000 in
theorem ctxCteBodyFrom_a : ((skelsOf ctxCteBodyFrom).take 10).all skelCheck = true := by decide +kernel
set_option maxRecDepth 1000000 in
theorem ctxCteBodyFrom_b : (((skelsOf ctxCteBodyFrom).drop 10).take 10).all skelCheck = true := by decide +kernel
set_option maxRecDepth 1000000 in
theorem ctxCteBodyFrom_c : ((skelsOf ctxCteBodyFrom).drop 20).all skelCheck = true := by decide +kernel

theorem ctxCteBodyFrom_ok : (skelsOf ctxCteBodyFrom).all skelCheck = true := all_of_chunks _ ctxCteBodyFrom_a ctxCteBodyFrom_b ctxCteBodyFrom_c

end Acc
end Sql
