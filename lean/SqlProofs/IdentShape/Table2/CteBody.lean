import SqlProofs.IdentShape.Contexts2
/-! skeleton table (second context list), context `ctxCteBody`: 30 reference spellings, decided by kernel evaluation of the real lexer rules,
`groupStatement` and `parseIdent` (three chunks of ten) -/
namespace Sql
namespace Acc

set_option maxRecDepth 1000000 in
theorem ctxCteBody_a : ((skelsOf ctxCteBody).take 10).all skelCheck = true := by decide +kernel
set_option maxRecDepth 1000000 in
theorem ctxCteBody_b : (((skelsOf ctxCteBody).drop 10).take 10).all skelCheck = true := by decide +kernel
set_option maxRecDepth 1000000 in
theorem ctxCteBody_c : ((skelsOf ctxCteBody).drop 20).all skelCheck = true := by decide +kernel

theorem ctxCteBody_ok : (skelsOf ctxCteBody).all skelCheck = true := all_of_chunks _ ctxCteBody_a ctxCteBody_b ctxCteBody_c

end Acc
end Sql
