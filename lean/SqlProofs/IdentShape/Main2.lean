import SqlProofs.IdentShape.Table2
import SqlProofs.IdentShape.Main
/-!
# SqlProofs.IdentShape.Main2 — the in-context theorem for the second context list (`contexts2`)

Same statement and same universal part as `identifier_accessors_in_context` / `identifier_accessors_renamed`, for references
inside a subquery or CTE body that an earlier pass has already wrapped into an `Identifier`.
-/
namespace Sql
namespace Acc

theorem identifier_accessors_in_context2 (c : Ctx) (hc : c ∈ contexts2) (r : RefSpec) (hr : r ∈ refSpecs)
    (f : TType → Text → Text) (ha : AdmissibleNames kwNorm f) (fuel : Nat) (hfuel : skelFuel ≤ fuel) :
    ∃ (ts : List Tok) (tree : Node) (K : List Node) (qual : Option Node) (name : Node) (alias : Option Node),
      lex defaultCfg (c.pre ++ r.text ++ c.post).toArray = .ok ts ∧
      groupStatement fuel (ts.map fun t => ⟨t.tt, f t.tt t.val⟩) = .ok tree ∧
      K ∈ identKids tree ∧
      qual.map Node.value = r.qualText ∧ name.value = r.nameText ∧ alias.map Node.value = r.aliasText ∧
      RefAccessors f K qual name alias :=
  accessors_of_skelCheck (mkSkel c r) (table2_ok c hc r hr) f ha fuel hfuel

end Acc
end Sql
