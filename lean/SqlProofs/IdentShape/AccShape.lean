import SqlProofs.AccessorSpec
/-!
# SqlProofs.IdentShape.AccShape — the name accessors on the identifier shapes `parse` really builds

`parse` wraps a bare name in its own `Identifier` before `group_as`/`group_aliased` attach an alias, so the children of
an aliased reference are `Identifier[name] ws [AS ws] Identifier[alias]`, while the parts of a dotted name stay tokens
(`group_period` runs before `group_identifier`): `q . n ws AS ws Identifier[alias]`.  The canonical-shape theorems of
`AccessorSpec.lean` (parts = name *tokens*) are generalised here to parts that are a name token **or** a singleton
`Identifier` around one (`IsPart`); `Node.value` of either is the written text, so the statements are unchanged.
-/
namespace Sql
namespace Acc

/-- a written name: a name token, or the singleton `Identifier` `group_identifier` wraps around it -/
def IsPart (k : Node) : Prop := IsNameTok k ∨ ∃ t, IsNameTok t ∧ k = .grp .Identifier [t]

def AliasPart.WFP (up : Text → Text) : AliasPart → Prop
  | .none => True
  | .implicit ws a => ws ≠ [] ∧ (∀ k ∈ ws, IsWsTok k) ∧ IsPart a
  | .explicit ws1 as ws2 a =>
    ws1 ≠ [] ∧ (∀ k ∈ ws1, IsWsTok k) ∧ IsAsTok up as ∧ ws2 ≠ [] ∧ (∀ k ∈ ws2, IsWsTok k) ∧ IsPart a

section PartFacts
variable (up : Text → Text)

theorem grp_imt_none (c : Cls) (ks : List Node) (m : List MPat) (t : TArg) :
    imt up (.grp c ks) [] m t = false := by
  have hm : m.any (Node.matchP up (.grp c ks)) = false := by
    induction m with
    | nil => rfl
    | cons p m ih => simp [Node.matchP, Node.match, ih]
  unfold imt
  rw [hm]
  cases t <;> simp [Node.isInstAny, Node.ttIn, Node.ttEqAny]

theorem part_not_dot {k : Node} (h : IsPart k) : imt up k [] [mDot] .none = false := by
  rcases h with h | ⟨t, _, rfl⟩
  · exact name_not_dot up h
  · exact grp_imt_none up _ _ _ _
theorem part_not_as {k : Node} (h : IsPart k) : imt up k [] [mAS] .none = false := by
  rcases h with h | ⟨t, _, rfl⟩
  · exact name_not_as up h
  · exact grp_imt_none up _ _ _ _
theorem part_not_ws {k : Node} (h : IsPart k) : imt up k [] [] (.hier [T.Whitespace]) = false := by
  rcases h with h | ⟨t, _, rfl⟩
  · exact name_not_ws up h
  · exact grp_imt_none up _ _ _ _
theorem part_not_skipped {k : Node} (h : IsPart k) : skipMatcher true false k = true := by
  rcases h with h | ⟨t, _, rfl⟩
  · exact name_not_skipped h
  · rfl

theorem value_single (t : Node) : Node.value (.grp .Identifier [t]) = t.value := by
  simp [Node.value, Node.text, Node.textL]

theorem nameInfo_grp (c : Cls) (ks : List Node) :
    nameInfo up (.grp c ks) = ⟨getRealName up c ks, getName up c ks⟩ := by
  simp [nameInfo, getRealName, getName, withInfo]

/-- a singleton `Identifier[name]` answers both `get_real_name()` and `get_name()` with the unquoted name -/
theorem nameInfo_single {t : Node} (ht : IsNameTok t) :
    (nameInfo up (.grp .Identifier [t])).real = (removeQuotes t.value).map some ∧
    (nameInfo up (.grp .Identifier [t])).name = (removeQuotes t.value).map some := by
  rw [nameInfo_grp]
  have h1 := getRealName_identShape up .Identifier rfl none t .none (by intro q hq; cases hq) ht trivial
  have h2 := getName_identShape up .Identifier rfl none t .none (by intro q hq; cases hq) ht trivial
  simp only [identShape, qualRender, AliasPart.render, List.nil_append, unquoted, AliasPart.alias?, pyOrName] at h1 h2
  exact ⟨h1, h2⟩

theorem withInfo_mem (ks : List Node) : ∀ p ∈ withInfo up ks, p.2 = nameInfo up p.1 := by
  unfold withInfo
  induction ks with
  | nil => intro p hp; simp [nameInfoL] at hp
  | cons k ks ih =>
    intro p hp
    simp only [nameInfoL, List.zip_cons_cons, List.mem_cons] at hp
    rcases hp with rfl | hp
    · rfl
    · exact ih p hp

theorem firstNameLoop_hitP (types : List TType) (hN : types.contains T.Name = true)
    (hS : types.contains T.StringSymbol = true) (rn : Bool) (l : List (Node × NameInfo))
    (hinfo : ∀ p ∈ l, p.2 = nameInfo up p.1) (pre : List Node) (x : Node) (rest : List Node)
    (hl : l.map (·.1) = pre ++ x :: rest) (hpre : ∀ k ∈ pre, PassedOver types k) (hx : IsPart x) :
    firstNameLoop types rn l = (removeQuotes x.value).map some := by
  induction pre generalizing l with
  | nil =>
    cases l with
    | nil => simp at hl
    | cons p l =>
      obtain ⟨k, info⟩ := p
      have hi := hinfo (k, info) (by simp)
      simp only [List.map_cons, List.nil_append, List.cons.injEq] at hl
      obtain ⟨rfl, _⟩ := hl
      rcases hx with hx | ⟨t, ht, rfl⟩
      · have : k.ttEqAny types = true := by
          obtain ⟨v, rfl | rfl⟩ := hx
          · exact hN
          · exact hS
        simp [firstNameLoop, this]
      · simp only at hi
        have hs := nameInfo_single up ht
        have h1 : (Node.grp Cls.Identifier [t]).ttEqAny types = false := rfl
        have h2 : (Node.grp Cls.Identifier [t]).isInstAny [.Identifier, .Function] = true := rfl
        simp only [firstNameLoop, h1, h2, Bool.false_eq_true, if_false, if_true, hi, value_single]
        cases rn
        · simpa using hs.2
        · simpa using hs.1
  | cons a pre ih =>
    cases l with
    | nil => simp at hl
    | cons p l =>
      obtain ⟨k, info⟩ := p
      simp only [List.map_cons, List.cons_append, List.cons.injEq] at hl
      obtain ⟨rfl, hl⟩ := hl
      have ha := hpre k (by simp)
      simp only [firstNameLoop, ha.1, ha.2, Bool.false_eq_true, if_false]
      exact ih l (fun q hq => hinfo q (by simp [hq])) hl (fun k' hk' => hpre k' (by simp [hk']))

theorem getFirstName_hitP (ks : List Node) (idx : Option Nat) (rev kw rn : Bool)
    (pre : List Node) (x : Node) (rest : List Node) (hs : sliceOf ks idx rev = pre ++ x :: rest)
    (hpre : ∀ k ∈ pre, PassedOver (nameTypes kw) k) (hx : IsPart x) :
    getFirstName up ks idx rev kw rn = (removeQuotes x.value).map some := by
  unfold getFirstName firstNameK
  have hsub : ∀ (l : List (Node × NameInfo)), (∀ p ∈ l, p ∈ withInfo up ks) → ∀ p ∈ l, p.2 = nameInfo up p.1 :=
    fun l hl p hp => withInfo_mem up ks p (hl p hp)
  apply firstNameLoop_hitP up _ (by cases kw <;> decide) (by cases kw <;> decide) _ _ _ pre x rest _ hpre hx
  · intro p hp
    apply withInfo_mem up ks p
    cases rev <;> cases idx with
    | none => simpa using hp
    | some i =>
      by_cases hi : (i == 0) = true
      · simpa [hi] using hp
      · simp only [hi] at hp
        first
          | exact List.mem_of_mem_drop (by simpa using hp)
          | exact List.mem_of_mem_drop (List.mem_reverse.1 (by simpa using hp))
  · rw [← hs]
    unfold sliceOf
    cases rev <;> cases idx with
    | none => simp [withInfo_map_fst]
    | some i =>
      by_cases hi : (i == 0) = true
      · simp [hi, withInfo_map_fst]
      · simp [hi, withInfo_map_fst, List.map_drop]

end PartFacts

section IdentShapeP
variable (up : Text → Text)

theorem alias_render_not_dotP {al : AliasPart} (h : al.WFP up) : ∀ k ∈ al.render, imt up k [] [mDot] .none = false := by
  cases al with
  | none => intro k hk; cases hk
  | implicit ws a =>
    obtain ⟨_, hws, ha⟩ := h
    intro k hk
    simp only [AliasPart.render, List.mem_append, List.mem_singleton] at hk
    rcases hk with hk | rfl
    · exact ws_not_dot up (hws k hk)
    · exact part_not_dot up ha
  | explicit ws1 as ws2 a =>
    obtain ⟨_, hws1, has, _, hws2, ha⟩ := h
    intro k hk
    simp only [AliasPart.render, List.mem_append, List.mem_cons, List.not_mem_nil, or_false] at hk
    rcases hk with hk | rfl | hk | rfl
    · exact ws_not_dot up (hws1 k hk)
    · exact as_not_dot up has
    · exact ws_not_dot up (hws2 k hk)
    · exact part_not_dot up ha

/-- **`get_real_name()`** of a canonical identifier is its name token with quotes removed -/
theorem getRealName_identShapeP (c : Cls) (hc : isMixin c = true) (qual : Option Node) (name : Node) (al : AliasPart)
    (hq : ∀ q, qual = some q → IsPart q) (hn : IsPart name) (hal : al.WFP up) :
    getRealName up c (identShape qual name al) = unquoted (some name) := by
  have hrest : ∀ k ∈ name :: al.render, imt up k [] [mDot] .none = false := by
    intro k hk
    rcases List.mem_cons.1 hk with rfl | hk
    · exact part_not_dot up hn
    · exact alias_render_not_dotP up hal k hk
  show realNameK up c (withInfo up _) = _
  simp only [realNameK, hc, if_true, mixinRealNameK, withInfo_map_fst]
  cases qual with
  | none =>
    have hnone : tokenNextBy up (identShape none name al) [] [mDot] .none = none :=
      tokenNextBy_none_of_forall up _ _ _ _ (by simpa [identShape, qualRender] using hrest)
    rw [hnone]
    exact getFirstName_hitP up _ none false false true [] name al.render (by simp [sliceOf, identShape, qualRender])
      (by intro k hk; cases hk) hn
  | some q =>
    have hqn := hq q rfl
    have hdot : tokenNextBy up (identShape (some q) name al) [] [mDot] .none = some (1, dotTok) := by
      have := tokenNextBy_hit up [q] dotTok (name :: al.render) [] [mDot] .none
        (by intro k hk; simp at hk; subst hk; exact part_not_dot up hqn) (dot_is_dot up)
      simpa [identShape, qualRender] using this
    rw [hdot]
    exact getFirstName_hitP up _ (some 1) false false true [dotTok] name al.render
      (by simp [sliceOf, identShape, qualRender])
      (by intro k hk; simp at hk; subst hk; exact dot_passed false) hn

/-- **`get_parent_name()`**: the qualifier with quotes removed, `None` without one -/
theorem getParentName_identShapeP (qual : Option Node) (name : Node) (al : AliasPart)
    (hq : ∀ q, qual = some q → IsPart q) (hn : IsPart name) (hal : al.WFP up) :
    getParentName up (identShape qual name al) = unquoted qual := by
  have hrest : ∀ k ∈ name :: al.render, imt up k [] [mDot] .none = false := by
    intro k hk
    rcases List.mem_cons.1 hk with rfl | hk
    · exact part_not_dot up hn
    · exact alias_render_not_dotP up hal k hk
  unfold getParentName
  cases qual with
  | none =>
    have hnone : tokenNextBy up (identShape none name al) [] [mDot] .none = none :=
      tokenNextBy_none_of_forall up _ _ _ _ (by simpa [identShape, qualRender] using hrest)
    rw [hnone]; rfl
  | some q =>
    have hqn := hq q rfl
    have hdot : tokenNextBy up (identShape (some q) name al) [] [mDot] .none = some (1, dotTok) := by
      have := tokenNextBy_hit up [q] dotTok (name :: al.render) [] [mDot] .none
        (by intro k hk; simp at hk; subst hk; exact part_not_dot up hqn) (dot_is_dot up)
      simpa [identShape, qualRender] using this
    rw [hdot]
    have hprev : tokenPrev (identShape (some q) name al) 1 = some (0, q) := by
      rw [(tokenPrev_spec _ 1 true false).1]
      refine ⟨by omega, by simp [identShape, qualRender], ?_, fun j k' h1 h2 => by omega⟩
      unfold Skipped; rw [part_not_skipped hqn]; simp
    simp only [hprev]
    rfl

/-- **`get_alias()`**: the alias token with quotes removed, `None` without one -/
theorem getAlias_identShapeP (c : Cls) (hc : isMixin c = true) (qual : Option Node) (name : Node) (al : AliasPart)
    (hq : ∀ q, qual = some q → IsPart q) (hn : IsPart name) (hal : al.WFP up) :
    getAlias up c (identShape qual name al) = unquoted al.alias? := by
  have hhead_as : ∀ k ∈ qualRender qual ++ [name], imt up k [] [mAS] .none = false := by
    intro k hk
    cases qual with
    | none => simp [qualRender] at hk; subst hk; exact part_not_as up hn
    | some q =>
      simp [qualRender] at hk
      rcases hk with rfl | rfl | rfl
      · exact part_not_as up (hq _ rfl)
      · exact dot_not_as up
      · exact part_not_as up hn
  have hhead_ws : ∀ k ∈ qualRender qual ++ [name], imt up k [] [] (.hier [T.Whitespace]) = false := by
    intro k hk
    cases qual with
    | none => simp [qualRender] at hk; subst hk; exact part_not_ws up hn
    | some q =>
      simp [qualRender] at hk
      rcases hk with rfl | rfl | rfl
      · exact part_not_ws up (hq _ rfl)
      · exact dot_not_ws up
      · exact part_not_ws up hn
  show aliasK up c (withInfo up _) = _
  simp only [aliasK, hc, if_true, mixinAliasK, withInfo_map_fst]
  cases al with
  | none =>
    have hks : identShape qual name .none = qualRender qual ++ [name] := by simp [identShape, AliasPart.render]
    rw [hks, tokenNextBy_none_of_forall up _ _ _ _ hhead_as, tokenNextBy_none_of_forall up _ _ _ _ hhead_ws]
    rfl
  | implicit ws a =>
    obtain ⟨hne, hws, ha⟩ := hal
    have hks : identShape qual name (.implicit ws a) = (qualRender qual ++ [name]) ++ (ws ++ [a]) := by
      simp [identShape, AliasPart.render]
    have hno_as : tokenNextBy up (identShape qual name (.implicit ws a)) [] [mAS] .none = none := by
      apply tokenNextBy_none_of_forall
      intro k hk
      rw [hks] at hk
      simp only [List.mem_append, List.mem_singleton] at hk
      rcases hk with hk | hk | rfl
      · exact hhead_as k (by simpa using hk)
      · exact ws_not_as up (hws k hk)
      · exact part_not_as up ha
    obtain ⟨w, ws', rfl⟩ := List.exists_cons_of_ne_nil hne
    have hws_hit : tokenNextBy up (identShape qual name (.implicit (w :: ws') a)) [] [] (.hier [T.Whitespace]) =
        some ((qualRender qual ++ [name]).length, w) := by
      rw [hks]
      exact tokenNextBy_hit up _ w (ws' ++ [a]) _ _ _ hhead_ws (ws_is_ws up (hws w (by simp)))
    rw [hno_as, hws_hit]
    have hlen : (identShape qual name (.implicit (w :: ws') a)).length > 2 := by
      rw [hks]; simp; omega
    simp only [hlen, if_true]
    exact getFirstName_hitP up _ none true false false [] a ((qualRender qual ++ [name] ++ (w :: ws')).reverse)
      (by simp [sliceOf, hks]) (by intro k hk; cases hk) ha
  | explicit ws1 as ws2 a =>
    obtain ⟨_, hws1, has, _, hws2, ha⟩ := hal
    have hks : identShape qual name (.explicit ws1 as ws2 a) =
        (qualRender qual ++ [name] ++ ws1) ++ as :: (ws2 ++ [a]) := by
      simp [identShape, AliasPart.render]
    have has_hit : tokenNextBy up (identShape qual name (.explicit ws1 as ws2 a)) [] [mAS] .none =
        some ((qualRender qual ++ [name] ++ ws1).length, as) := by
      rw [hks]
      apply tokenNextBy_hit up _ as (ws2 ++ [a]) _ _ _ _ (as_is_as up has)
      intro k hk
      rcases List.mem_append.1 hk with hk | hk
      · exact hhead_as k hk
      · exact ws_not_as up (hws1 k hk)
    rw [has_hit]
    exact getFirstName_hitP up _ (some ((qualRender qual ++ [name] ++ ws1).length + 1)) false true false ws2 a []
      (by
        have : ((qualRender qual ++ [name] ++ ws1).length + 1 == 0) = false := by simp
        simp only [sliceOf, this, Bool.false_eq_true, if_false, hks]
        rw [drop_length_succ])
      (fun k hk => ws_passed (hws2 k hk) true) ha

/-- **`get_name()`** is `alias or real_name`, **`has_alias()`** tells whether an alias is written
(on values that `remove_quotes` accepts, i.e. non-empty token values). -/
theorem getName_identShapeP (c : Cls) (hc : isMixin c = true) (qual : Option Node) (name : Node) (al : AliasPart)
    (hq : ∀ q, qual = some q → IsPart q) (hn : IsPart name) (hal : al.WFP up) :
    getName up c (identShape qual name al) = pyOrName (unquoted al.alias?) (unquoted (some name)) := by
  have h1 := getRealName_identShapeP up c hc qual name al hq hn hal
  have h2 := getAlias_identShapeP up c hc qual name al hq hn hal
  unfold getRealName at h1
  unfold getAlias at h2
  unfold getName nameK
  rw [h1, h2]

theorem hasAlias_identShapeP (c : Cls) (hc : isMixin c = true) (qual : Option Node) (name : Node) (al : AliasPart)
    (hq : ∀ q, qual = some q → IsPart q) (hn : IsPart name) (hal : al.WFP up)
    (hv : ∀ a, al.alias? = some a → a.value ≠ []) :
    hasAlias up c (identShape qual name al) = .ok al.alias?.isSome := by
  unfold hasAlias
  rw [getAlias_identShapeP up c hc qual name al hq hn hal]
  cases h : al.alias? with
  | none => rfl
  | some a =>
    obtain ⟨r, hr⟩ := removeQuotes_ok_of_ne (hv a h)
    simp [unquoted, hr, Except.map]

end IdentShapeP

end Acc
end Sql
