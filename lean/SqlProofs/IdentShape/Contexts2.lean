import SqlProofs.IdentShape.Contexts
/-!
# SqlProofs.IdentShape.Contexts2 — second context list of the C12 skeleton table: references inside a subquery that an
earlier pass has already wrapped into an `Identifier`

`(select R from v) AS y` in a FROM list, in a JOIN and in the select list; a CTE body `WITH y AS (select R from v) …`; and `R`
in the FROM list of such a subquery / CTE body.  (The passes that build Identifiers do not descend into an existing
Identifier — `_group(…, cls=Identifier)` skips instances of its class, `@recurse(sql.Identifier)` skips them too — so what
happens to `R` here depends on the order of `group_as`/`group_aliased` relative to the passes that make `R` an Identifier.)
-/
namespace Sql
namespace Acc

def ctxSubAsFrom : Ctx := ⟨"select x from (select R from v) as y", txt "select x from (select ", txt " from v) as y"⟩
def ctxSubAsJoin : Ctx :=
  ⟨"select x from w join (select R from v) as y on w.u = 1", txt "select x from w join (select ", txt " from v) as y on w.u = 1"⟩
def ctxSubAsSel : Ctx := ⟨"select (select R from v) as y, x from u", txt "select (select ", txt " from v) as y, x from u"⟩
def ctxCteBody : Ctx := ⟨"with y as (select R from v) select x from y", txt "with y as (select ", txt " from v) select x from y"⟩
def ctxSubAsFromFrom : Ctx := ⟨"select x from (select z from R) as y", txt "select x from (select z from ", txt ") as y"⟩
def ctxSubAsJoinFrom : Ctx :=
  ⟨"select x from w join (select z from R) as y on w.u = 1", txt "select x from w join (select z from ", txt ") as y on w.u = 1"⟩
def ctxCteBodyFrom : Ctx := ⟨"with y as (select z from R) select x from y", txt "with y as (select z from ", txt ") select x from y"⟩

def contexts2 : List Ctx :=
  [ctxSubAsFrom, ctxSubAsJoin, ctxSubAsSel, ctxCteBody, ctxSubAsFromFrom, ctxSubAsJoinFrom, ctxCteBodyFrom]

end Acc
end Sql
