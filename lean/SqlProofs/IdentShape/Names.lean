import SqlProofs.Respell.KwNormWs
/-!
# SqlProofs.IdentShape.Names — discharging `AdmissibleNames kwNorm f` for re-spellings that rename identifiers

Clause `value` of `AdmissibleNames` (forced by `group_functions`, which compares the upper-cased *text* of every child,
groups included, with `CREATE`, `TABLE`, `AS`) cannot hold for arbitrary renamings: `x` ↦ `create` changes the test.
A name is harmless when it is `Blocked`: it contains a character whose upper-case image has a non-space character
outside the letters of the three words — any digit, `_`, quote, back-tick, or letter other than a b c e l r s t.
A text containing a blocked name never normalises to one of the three words, whatever surrounds it, so replacing one
blocked name by another is invisible.  The same holds for a name that, upper-cased, is a non-empty whitespace-free
string that is not a contiguous piece of `CREATE`, `TABLE` or `AS` (`NameSafe`): only the 35 pieces of these words
(`a`, `b`, `c`, `e`, `l`, `r`, `s`, `t`, `ab`, `as`, `at`, `tab`, `eat`, `rea`, …) are neither.  `admissibleNames_of_leaf`: keyword and whitespace leaves re-spelled up to
contextual equivalence, identifier leaves re-spelled up to contextual equivalence *or* blocked-to-blocked.
-/
namespace Sql

/-- the letters of `CREATE`, `TABLE`, `AS` -/
def skipLetters : List Nat := [67, 82, 69, 65, 84, 66, 76, 83]

/-- upper-casing `c` yields a non-space character that occurs in none of the three words -/
def blockingCp (c : Nat) : Bool := (strUpper1 c).any (fun d => !isSpace d && !skipLetters.contains d)

/-- the value contains a blocking character -/
def Blocked (v : Text) : Prop := ∃ c ∈ v, blockingCp c = true

/-- no text around `a` normalises to one of the three words -/
def CtxBlocked (a : Text) : Prop := ∀ (l r w : Text), w ∈ skipWords → (kwNorm (l ++ a ++ r) == w) = false

theorem splitAux_mem (sp : Cp → Bool) (d : Cp) (hd : sp d = false) (s cur : Text) (h : d ∈ cur ∨ d ∈ s) :
    ∃ word ∈ splitAux sp s cur, d ∈ word := by
  induction s generalizing cur with
  | nil =>
    rcases h with h | h
    · have : cur.isEmpty = false := by cases cur with | nil => cases h | cons _ _ => rfl
      exact ⟨cur, by simp [splitAux, flushWord, this], h⟩
    · cases h
  | cons c cs ih =>
    by_cases hc : sp c = true
    · simp only [splitAux, hc, if_true]
      rcases h with h | h
      · have : cur.isEmpty = false := by cases cur with | nil => cases h | cons _ _ => rfl
        exact ⟨cur, by simp [flushWord, this], h⟩
      · have hcs : d ∈ cs := by
          rcases List.mem_cons.1 h with rfl | h
          · rw [hd] at hc; cases hc
          · exact h
        obtain ⟨word, hw, hdw⟩ := ih [] (Or.inr hcs)
        refine ⟨word, ?_, hdw⟩
        unfold flushWord
        split
        · exact hw
        · exact List.mem_cons_of_mem _ hw
    · simp only [splitAux, hc]
      apply ih
      rcases h with h | h
      · exact Or.inl (List.mem_append_left _ h)
      · rcases List.mem_cons.1 h with rfl | h
        · exact Or.inl (List.mem_append_right _ (by simp))
        · exact Or.inr h

theorem mem_intercalate {sep : Text} {ws : List Text} {word : Text} {d : Cp} (hw : word ∈ ws) (hd : d ∈ word) :
    d ∈ sep.intercalate ws := by
  induction ws with
  | nil => cases hw
  | cons a rest ih =>
    cases rest with
    | nil =>
      rcases List.mem_cons.1 hw with rfl | h
      · simpa [List.intercalate, List.intersperse] using hd
      · cases h
    | cons b rest' =>
      have e : sep.intercalate (a :: b :: rest') = a ++ sep ++ sep.intercalate (b :: rest') := by
        simp [List.intercalate, List.intersperse]
      rw [e]
      rcases List.mem_cons.1 hw with rfl | h
      · simp [hd]
      · simp [ih h]

theorem mem_pyUpper_of_blocking {c : Nat} {v : Text} (hc : c ∈ v) {d : Nat} (hd : d ∈ strUpper1 c) :
    d ∈ pyUpper v := by
  simp only [pyUpper, upperText, List.mem_flatMap]
  exact ⟨c, hc, hd⟩

/-- a text containing a blocked value never normalises to `CREATE`, `TABLE` or `AS` -/
theorem ctxBlocked_of_blocked {a : Text} (h : Blocked a) : CtxBlocked a := by
  obtain ⟨c, hc, hb⟩ := h
  simp only [blockingCp, List.any_eq_true, Bool.and_eq_true, Bool.not_eq_true'] at hb
  obtain ⟨d, hd, hsp, hnl⟩ := hb
  intro l r w hw
  have hmem : d ∈ pyUpper (l ++ a ++ r) :=
    mem_pyUpper_of_blocking (c := c) (by simp [hc]) hd
  obtain ⟨word, hword, hdw⟩ := splitAux_mem isSpace d hsp (pyUpper (l ++ a ++ r)) [] (Or.inr hmem)
  have hk : d ∈ kwNorm (l ++ a ++ r) := by
    rw [kwNorm_eq_splitAux]; exact mem_intercalate hword hdw
  have hnw : d ∉ w := by
    have hletters : ∀ w ∈ skipWords, ∀ x ∈ w, skipLetters.contains x = true := by decide
    intro hdw'
    have := hletters w hw d hdw'
    rw [hnl] at this; cases this
  cases hbeq : kwNorm (l ++ a ++ r) == w with
  | false => rfl
  | true =>
    have : kwNorm (l ++ a ++ r) = w := by simpa using hbeq
    rw [this] at hk
    exact absurd hk hnw

theorem CtxBlocked.append_left {a : Text} (h : CtxBlocked a) (b : Text) : CtxBlocked (a ++ b) := by
  intro l r w hw
  have := h l (b ++ r) w hw
  simpa [List.append_assoc] using this

theorem CtxBlocked.append_right {b : Text} (h : CtxBlocked b) (a : Text) : CtxBlocked (a ++ b) := by
  intro l r w hw
  have := h (l ++ a) r w hw
  simpa [List.append_assoc] using this

/-! ### names that are not a piece of `CREATE`, `TABLE`, `AS` -/

theorem prefix_append_sep {α : Type} [DecidableEq α] {u a b : List α} {c : α} (hc : c ∉ u)
    (h : u <+: a ++ c :: b) : u <+: a := by
  induction a generalizing u with
  | nil =>
    rcases List.prefix_cons_iff.1 h with rfl | ⟨t, rfl, _⟩
    · exact List.nil_prefix
    · exact absurd (by simp) hc
  | cons x a ih =>
    rcases List.prefix_cons_iff.1 h with rfl | ⟨t, rfl, ht⟩
    · exact List.nil_prefix
    · have := ih (u := t) (fun hm => hc (List.mem_cons_of_mem _ hm)) ht
      exact List.prefix_cons_iff.2 (Or.inr ⟨t, rfl, this⟩)

theorem infix_append_sep {α : Type} [DecidableEq α] {u a b : List α} {c : α} (hc : c ∉ u)
    (h : u <:+: a ++ c :: b) : u <:+: a ∨ u <:+: b := by
  induction a with
  | nil =>
    rcases List.infix_cons_iff.1 h with hp | hi
    · rcases List.prefix_cons_iff.1 hp with rfl | ⟨t, rfl, _⟩
      · exact Or.inl (List.nil_infix)
      · exact absurd (by simp) hc
    · exact Or.inr hi
  | cons x a ih =>
    rcases List.infix_cons_iff.1 h with hp | hi
    · exact Or.inl (prefix_append_sep (a := x :: a) hc hp).isInfix
    · rcases ih hi with h1 | h2
      · exact Or.inl (List.infix_cons_iff.2 (Or.inr h1))
      · exact Or.inr h2

/-- a space-free piece of the text lies inside one of its words -/
theorem splitAux_infix (sp : Cp → Bool) (u : Text) (hu : u ≠ []) (husp : ∀ c ∈ u, sp c = false) (s cur : Text)
    (h : u <:+: cur ++ s) : ∃ word ∈ splitAux sp s cur, u <:+: word := by
  induction s generalizing cur with
  | nil =>
    simp only [List.append_nil] at h
    have : cur.isEmpty = false := by
      cases cur with
      | nil => exact absurd (List.infix_nil.1 h) hu
      | cons _ _ => rfl
    exact ⟨cur, by simp [splitAux, flushWord, this], h⟩
  | cons c cs ih =>
    by_cases hc : sp c = true
    · simp only [splitAux, hc, if_true]
      have hcu : c ∉ u := fun hm => by rw [husp c hm] at hc; cases hc
      rcases infix_append_sep hcu h with h1 | h2
      · have : cur.isEmpty = false := by
          cases cur with
          | nil => exact absurd (List.infix_nil.1 h1) hu
          | cons _ _ => rfl
        exact ⟨cur, by simp [flushWord, this], h1⟩
      · obtain ⟨word, hw, hi⟩ := ih [] (by simpa using h2)
        refine ⟨word, ?_, hi⟩
        unfold flushWord
        split
        · exact hw
        · exact List.mem_cons_of_mem _ hw
    · simp only [splitAux, hc]
      exact ih (cur ++ [c]) (by simpa [List.append_assoc] using h)

/-- a join of two or more words contains the separator -/
theorem intercalate_single {sep w : Text} {ws : List Text} (hsep : ∀ c ∈ sep, c ∉ w) (hs : sep ≠ [])
    (h : sep.intercalate ws = w) (hw : w ≠ []) : ws = [w] := by
  cases ws with
  | nil =>
    simp [List.intercalate] at h
    exact absurd h.symm (by simpa using hw)
  | cons a rest =>
    cases rest with
    | nil => simp [List.intercalate, List.intersperse] at h; rw [h]
    | cons b rest' =>
      exfalso
      have e : sep.intercalate (a :: b :: rest') = a ++ sep ++ sep.intercalate (b :: rest') := by
        simp [List.intercalate, List.intersperse]
      cases sep with
      | nil => exact hs rfl
      | cons c sep' =>
        have : c ∈ w := by rw [← h, e]; simp
        exact hsep c (by simp) this

/-- the name, upper-cased, is non-empty, has no whitespace, and is not a contiguous piece of `CREATE`, `TABLE` or `AS`
(only the 35 pieces of these words — `a`, `t`, `ab`, `tab`, `eat`, … — fail the last test) -/
def NameSafe (v : Text) : Prop :=
  pyUpper v ≠ [] ∧ (∀ c ∈ pyUpper v, isSpace c = false) ∧ ∀ w ∈ skipWords, ¬ (pyUpper v <:+: w)

theorem ctxBlocked_of_nameSafe {v : Text} (h : NameSafe v) : CtxBlocked v := by
  obtain ⟨hne, hsp, hinf⟩ := h
  intro l r w hw
  cases hbeq : kwNorm (l ++ v ++ r) == w with
  | false => rfl
  | true =>
    exfalso
    have hk : kwNorm (l ++ v ++ r) = w := by simpa using hbeq
    rw [kwNorm_eq_splitAux] at hk
    have hwfacts : ∀ w ∈ skipWords, w ≠ [] ∧ (32 : Nat) ∉ w := by decide
    have hsingle := intercalate_single (sep := [32]) (by
      intro c hc; simp at hc; subst hc; exact (hwfacts w hw).2) (by simp) hk (hwfacts w hw).1
    have hinfix : pyUpper v <:+: [] ++ pyUpper (l ++ v ++ r) := by
      simp only [List.nil_append, pyUpper_append]
      exact ⟨pyUpper l, pyUpper r, by simp⟩
    obtain ⟨word, hword, hi⟩ := splitAux_infix isSpace (pyUpper v) hne hsp _ [] hinfix
    rw [hsingle] at hword
    simp at hword
    subst hword
    exact hinf _ hw hi

/-- a name `group_functions` cannot confuse with its three words inside any text: it contains a blocking character, or
it is not a contiguous piece of one of them -/
def NameOk (v : Text) : Prop := Blocked v ∨ NameSafe v

theorem ctxBlocked_of_nameOk {v : Text} (h : NameOk v) : CtxBlocked v := by
  rcases h with h | h
  · exact ctxBlocked_of_blocked h
  · exact ctxBlocked_of_nameSafe h

/-- interchangeable as far as `group_functions` can tell -/
def SkipRel (a b : Text) : Prop := CtxEq kwNorm a b ∨ (CtxBlocked a ∧ CtxBlocked b)

theorem SkipRel.refl (a : Text) : SkipRel a a := Or.inl (CtxEq.refl _ _)

theorem SkipRel.append {a a' b b' : Text} (h1 : SkipRel a a') (h2 : SkipRel b b') : SkipRel (a ++ b) (a' ++ b') := by
  rcases h1 with h1 | ⟨h1, h1'⟩
  · rcases h2 with h2 | ⟨h2, h2'⟩
    · exact Or.inl (h1.append h2)
    · exact Or.inr ⟨h2.append_right a, h2'.append_right a'⟩
  · exact Or.inr ⟨h1.append_left b, h1'.append_left b'⟩

mutual
theorem skipRel_text {f : TType → Text → Text} (h : ∀ tt v, SkipRel (f tt v) v) :
    (n : Node) → SkipRel (respell f n).text n.text
  | .tok tt v => by simpa [Node.text] using h tt v
  | .grp c ks => by
    have := skipRel_textL h ks
    simpa [Node.text, respell, respellL_eq_map] using this
theorem skipRel_textL {f : TType → Text → Text} (h : ∀ tt v, SkipRel (f tt v) v) :
    (ks : List Node) → SkipRel (Node.textL (ks.map (respell f))) (Node.textL ks)
  | [] => SkipRel.refl _
  | k :: ks => by
    simp only [List.map_cons, Node.textL]
    exact (skipRel_text h k).append (skipRel_textL h ks)
end

/-- **criterion for renamings**: keyword leaves keep their `kwNorm` in every context, identifier and whitespace leaves
are re-spelled up to contextual equivalence or from a blocked value to a blocked value, other leaves are untouched -/
theorem admissibleNames_of_leaf {f : TType → Text → Text}
    (hkw : ∀ tt v, TType.isIn tt T.Keyword = true → CtxEq kwNorm (f tt v) v)
    (hfree : ∀ tt v, freeTT tt = true → CtxEq kwNorm (f tt v) v ∨ (CtxBlocked (f tt v) ∧ CtxBlocked v))
    (hplain : ∀ tt v, TType.isIn tt T.Keyword = false → freeTT tt = false → f tt v = v) :
    AdmissibleNames kwNorm f := by
  have hleaf : ∀ tt v, SkipRel (f tt v) v := by
    intro tt v
    by_cases hk : TType.isIn tt T.Keyword = true
    · exact Or.inl (hkw tt v hk)
    · by_cases hf : freeTT tt = true
      · rcases hfree tt v hf with h | ⟨h1, h2⟩
        · exact Or.inl h
        · exact Or.inr ⟨h1, h2⟩
      · rw [hplain tt v (by simpa using hk) (by simpa using hf)]; exact SkipRel.refl _
  exact
    { kw := fun tt v hk => (hkw tt v hk).eq
      plain := hplain
      value := fun n w hw => by
        simp only [Node.value]
        rcases skipRel_text hleaf n with h | ⟨h1, h2⟩
        · rw [h.eq]
        · have e1 := h1 [] [] w hw
          have e2 := h2 [] [] w hw
          simp only [List.nil_append, List.append_nil] at e1 e2
          rw [e1, e2] }

/-- rename identifier leaves with `σ`, re-spell keyword leaves with `kwMap` and whitespace leaves with `wsMap` -/
def renameRespell (σ kwMap wsMap : Text → Text) (tt : TType) (v : Text) : Text :=
  if TType.isIn tt T.Keyword then kwMap v
  else if TType.isIn tt T.Whitespace then wsMap v
  else if tt == T.Name || tt == T.StringSymbol then σ v
  else v

/-- **renaming + keyword case + whitespace values**: admissible when every renamed name and its replacement are `NameOk` -/
theorem admissible_renameRespell (σ kwMap wsMap : Text → Text)
    (hσ : ∀ v, σ v = v ∨ (NameOk (σ v) ∧ NameOk v)) (hk : ∀ v, CtxEq kwNorm (kwMap v) v)
    (hw : ∀ v, CtxEq kwNorm (wsMap v) v) : AdmissibleNames kwNorm (renameRespell σ kwMap wsMap) := by
  apply admissibleNames_of_leaf
  · intro tt v hkw; simp only [renameRespell, hkw, if_true]; exact hk v
  · intro tt v hf
    simp only [renameRespell]
    split
    · exact Or.inl (hk v)
    · split
      · exact Or.inl (hw v)
      · split
        · rcases hσ v with h | h
          · rw [h]; exact Or.inl (CtxEq.refl _ _)
          · exact Or.inr ⟨ctxBlocked_of_nameOk h.1, ctxBlocked_of_nameOk h.2⟩
        · exact Or.inl (CtxEq.refl _ _)
  · intro tt v hkw hf
    rcases (freeTT_false_iff tt).1 hf with rfl | rfl | rfl | rfl <;> rfl

/-- re-spell every free leaf: keywords by `kwMap`, whitespace by `wsMap`, every other free type (names, literals,
built-ins, comparison operators, comments, …) by `σ tt` -/
def valueRespell (σ : TType → Text → Text) (kwMap wsMap : Text → Text) (tt : TType) (v : Text) : Text :=
  if TType.isIn tt T.Keyword then kwMap v
  else if TType.isIn tt T.Whitespace then wsMap v
  else if freeTT tt then σ tt v
  else v

/-- **names, literals and all other free values + keyword case + whitespace values** -/
theorem admissible_valueRespell (σ : TType → Text → Text) (kwMap wsMap : Text → Text)
    (hσ : ∀ tt v, σ tt v = v ∨ (NameOk (σ tt v) ∧ NameOk v)) (hk : ∀ v, CtxEq kwNorm (kwMap v) v)
    (hw : ∀ v, CtxEq kwNorm (wsMap v) v) : AdmissibleNames kwNorm (valueRespell σ kwMap wsMap) := by
  apply admissibleNames_of_leaf
  · intro tt v hkw; simp only [valueRespell, hkw, if_true]; exact hk v
  · intro tt v hf
    simp only [valueRespell, hf, if_true]
    split
    · exact Or.inl (hk v)
    · split
      · exact Or.inl (hw v)
      · rcases hσ tt v with h | h
        · rw [h]; exact Or.inl (CtxEq.refl _ _)
        · exact Or.inr ⟨ctxBlocked_of_nameOk h.1, ctxBlocked_of_nameOk h.2⟩
  · intro tt v hkw hf
    rcases (freeTT_false_iff tt).1 hf with rfl | rfl | rfl | rfl <;> rfl

/-- quoted names are always blocked (`"` and the back-tick are not letters) -/
theorem blocked_of_dquote (body : Text) : Blocked ([34] ++ body ++ [34]) :=
  ⟨34, by simp, by decide +kernel⟩

theorem blocked_of_backtick (body : Text) : Blocked ([96] ++ body ++ [96]) :=
  ⟨96, by simp, by decide +kernel⟩

/-- a name containing an ASCII digit, `_`, or an ASCII letter other than `a b c e l r s t` (either case) is blocked -/
theorem blocked_of_ascii {v : Text} {c : Nat} (hc : c ∈ v)
    (h : ((List.range 128).filter blockingCp).contains c = true) : Blocked v := by
  refine ⟨c, hc, ?_⟩
  have := List.mem_filter.1 (List.contains_iff_mem.1 h)
  exact this.2

end Sql
