import SqlProofs.LexCase
import SqlModel.Filters.Tokens
/-!
# SqlProofs.CaseRelex — the text produced by `keyword_case` / `identifier_case` lexes to exactly the filtered tokens

The filters are maps on token values (`kwcase_spec`, `idcase_spec` in SqlProofs/FilterSpec.lean).  Whenever the mapped value differs from the original only in the case
of ASCII letters — true for every ASCII value and each of `upper`, `lower`, `capitalize` (`caseConv_ascii`) — `relex_case_mapped` applies:
lexing the concatenated output gives back the filtered token list: nothing fused, nothing split, no type changed.
-/
namespace Sql

/-- ASCII lower-casing of one code point -/
def asciiLo (c : Nat) : Nat := if 65 ≤ c ∧ c ≤ 90 then c + 32 else c

theorem strLower1_ascii : ∀ c, c < 128 → strLower1 c = [asciiLo c] := by decide +kernel
theorem strTitle1_ascii : ∀ c, c < 128 → strTitle1 c = [asciiFold c] := by decide +kernel

theorem fold_asciiLo (c : Nat) : asciiFold (asciiLo c) = asciiFold c := by
  unfold asciiFold asciiLo
  by_cases h1 : 65 ≤ c ∧ c ≤ 90
  · have h2 : 97 ≤ c + 32 ∧ c + 32 ≤ 122 := by omega
    have h3 : ¬ (97 ≤ c ∧ c ≤ 122) := by omega
    simp [h1, h2, h3]
  · simp [h1]

theorem ne_sigma_of_ascii (n : Nat) (h : n < 128) : (n == 0x3A3) = false := by
  have : n ≠ 0x3A3 := by omega
  exact beq_false_of_ne this

theorem lowerGo_ascii : ∀ (rest rb : List Cp), (∀ x ∈ rest, x < 128) → (lowerGo rb rest).map asciiFold = rest.map asciiFold := by
  intro rest
  induction rest with
  | nil => intro rb _; rfl
  | cons c t ih =>
    intro rb h
    have hc : c < 128 := h c (by simp)
    have hne : (c == 0x3A3) = false := ne_sigma_of_ascii c hc
    simp only [lowerGo, lowerAt, hne, Bool.false_eq_true, if_false, strLower1_ascii c hc, List.map_append, List.map_cons,
      List.map_nil, fold_asciiLo, ih (c :: rb) (fun x hx => h x (by simp [hx]))]
    rfl

/-- on ASCII text the three case conversions change only the case of letters -/
theorem caseConv_ascii (c : CaseConv) (v : Text) (h : ∀ x ∈ v, x < 128) : (c.apply v).map asciiFold = v.map asciiFold := by
  cases c with
  | upper =>
    show (pyUpper v).map asciiFold = _
    unfold pyUpper
    rw [upperText_ascii v h]
    simp [List.map_map, Function.comp_def, asciiFold_idem]
  | lower => exact lowerGo_ascii v [] h
  | capitalize =>
    cases v with
    | nil => rfl
    | cons x t =>
      show (strTitle1 x ++ lowerGo [x] t).map asciiFold = _
      rw [strTitle1_ascii x (h x (by simp)), List.map_append, lowerGo_ascii t [x] (fun y hy => h y (by simp [hy]))]
      simp [asciiFold_idem]

/-! ## keyword_case -/

theorem kwcase_caseRel (c : CaseConv) : ∀ ts : List Tok,
    (∀ t ∈ ts, (kwCaseTok c t).val.map asciiFold = t.val.map asciiFold) → CaseRel (keywordCaseFilter c ts) ts := by
  intro ts
  induction ts with
  | nil => intro _; trivial
  | cons t ts ih =>
    intro h
    refine ⟨?_, h t (by simp), ih (fun x hx => h x (by simp [hx]))⟩
    simp only [kwCaseTok]; split <;> rfl

theorem kwCaseTok_ascii (c : CaseConv) (t : Tok) (h : ∀ x ∈ t.val, x < 128) :
    (kwCaseTok c t).val.map asciiFold = t.val.map asciiFold := by
  simp only [kwCaseTok]
  split
  · exact caseConv_ascii c t.val h
  · rfl

/-- **`keyword_case` output re-lexes to the filtered tokens** -/
theorem kwcase_relex (c : CaseConv) (s : Array Cp) (ts : List Tok) (hl : lex defaultCfg s = .ok ts)
    (hcase : ∀ t ∈ ts, (kwCaseTok c t).val.map asciiFold = t.val.map asciiFold) :
    lex defaultCfg (stmtText (keywordCaseFilter c ts)).toArray = .ok (keywordCaseFilter c ts) :=
  relex_case_mapped s ts _ hl (kwcase_caseRel c ts hcase)

theorem kwcase_idem' (c : CaseConv) (hc : ∀ v, c.apply (c.apply v) = c.apply v) (ts : List Tok) :
    keywordCaseFilter c (keywordCaseFilter c ts) = keywordCaseFilter c ts := by
  simp only [keywordCaseFilter, List.map_map]
  congr 1
  funext t
  simp only [Function.comp, kwCaseTok]
  by_cases h : ttInArg t.tt Gen.kwCaseTT = true
  · simp [h, hc]
  · simp [h]

/-- text-level idempotence of `keyword_case` alone -/
theorem kwcase_text_idem (c : CaseConv) (hc : ∀ v, c.apply (c.apply v) = c.apply v) (s : Array Cp) (ts : List Tok)
    (hl : lex defaultCfg s = .ok ts)
    (hcase : ∀ t ∈ ts, (kwCaseTok c t).val.map asciiFold = t.val.map asciiFold) :
    ∃ ts1, lex defaultCfg (stmtText (keywordCaseFilter c ts)).toArray = .ok ts1 ∧
      stmtText (keywordCaseFilter c ts1) = stmtText (keywordCaseFilter c ts) :=
  ⟨_, kwcase_relex c s ts hl hcase, by rw [kwcase_idem' c hc ts]⟩

/-! ## identifier_case -/

theorem idcase_caseRel (c : CaseConv) : ∀ (ts ts' : List Tok), identifierCaseFilter c ts = .ok ts' →
    (∀ t ∈ ts, ∀ t', idCaseTok c t = .ok t' → t'.val.map asciiFold = t.val.map asciiFold) → CaseRel ts' ts := by
  intro ts
  induction ts with
  | nil => intro ts' h _; simp [identifierCaseFilter] at h; subst h; trivial
  | cons t ts ih =>
    intro ts' h hv
    unfold identifierCaseFilter at h
    cases h1 : idCaseTok c t with
    | error e => rw [h1] at h; cases h
    | ok t1 =>
      rw [h1] at h
      cases h2 : identifierCaseFilter c ts with
      | error e => rw [h2] at h; cases h
      | ok ts1 =>
        rw [h2] at h
        simp only [Except.map] at h
        injection h with h; subst h
        refine ⟨?_, hv t (by simp) t1 h1, ih ts1 h2 (fun x hx => hv x (by simp [hx]))⟩
        simp only [idCaseTok] at h1
        split at h1
        · split at h1
          · cases h1
          · injection h1 with h1; subst h1; split <;> rfl
        · injection h1 with h1; subst h1; rfl

theorem idCaseTok_ascii (c : CaseConv) (t t' : Tok) (h : ∀ x ∈ t.val, x < 128) (ht : idCaseTok c t = .ok t') :
    t'.val.map asciiFold = t.val.map asciiFold := by
  simp only [idCaseTok] at ht
  split at ht
  · split at ht
    · cases ht
    · injection ht with ht; subst ht
      split
      · exact caseConv_ascii c t.val h
      · rfl
  · injection ht with ht; subst ht; rfl

/-- **`identifier_case` output re-lexes to the filtered tokens** -/
theorem idcase_relex (c : CaseConv) (s : Array Cp) (ts ts' : List Tok) (hl : lex defaultCfg s = .ok ts)
    (hf : identifierCaseFilter c ts = .ok ts')
    (hcase : ∀ t ∈ ts, ∀ t', idCaseTok c t = .ok t' → t'.val.map asciiFold = t.val.map asciiFold) :
    lex defaultCfg (stmtText ts').toArray = .ok ts' :=
  relex_case_mapped s ts ts' hl (idcase_caseRel c ts ts' hf hcase)

/-- for ASCII text both hypotheses hold -/
theorem ascii_tokens (s : Array Cp) (ts : List Tok) (hl : lex defaultCfg s = .ok ts) (h : ∀ x ∈ s.toList, x < 128) :
    ∀ t ∈ ts, ∀ x ∈ t.val, x < 128 := by
  obtain ⟨ts0, h0, hflat, _⟩ := lex_ok defaultCfg defaultRulesOK (by decide +kernel) s
  rw [hl] at h0; injection h0 with h0; subst h0
  intro t ht x hx
  apply h x
  rw [← hflat]
  simp only [List.mem_flatten, List.mem_map]
  exact ⟨t.val, ⟨t, ht, rfl⟩, hx⟩

end Sql
