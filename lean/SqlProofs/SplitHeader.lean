import SqlProofs.SplitBlock
/-!
# The header of a CREATE statement (everything before BEGIN)

`create_block_quiet` / `C17.create_one_statement` take the header as a token list with *semantic* hypotheses (it is quiet, it leaves
the splitter at level 0 with `is_create` set and no block open).  This file discharges them from a *syntactic*, decidable
description of the header: a token of kind `create` (a DDL keyword whose unified spelling starts with CREATE) followed by
any token sequence in which the parentheses are balanced, no token changes the flags (kind `other`: names, types, literals,
blanks, comments, keywords without effect such as PROCEDURE/FUNCTION/TRIGGER/RETURNS/AS/IS/ON/EACH/ROW, …; or an IF/FOR/WHILE/CASE
keyword, which `_change_splitlevel` ignores while no BEGIN is open — `FOR EACH ROW`), no `;` stands
outside every parenthesis, and no token trips the GO rule.  Nothing else is assumed about spelling, layout or length.
-/
namespace Sql

/-- the tail of a header, read left to right with the number `d` of open parentheses -/
def hdrOK (cfg : SplitCfg) : Nat → List Tok → Bool
  | d, [] => d == 0
  | d, t :: ts =>
    noGo cfg t &&
    (match tkind cfg t with
     | .lparen => hdrOK cfg (d + 1) ts
     | .rparen => decide (0 < d) && hdrOK cfg (d - 1) ts
     | .other => !(d == 0 && isSemi t) && hdrOK cfg d ts
     | .opener _ => hdrOK cfg d ts     -- IF/FOR/WHILE/CASE count only inside a BEGIN block (`FOR EACH ROW` of a trigger header)
     | _ => false)

/-- a header tail is quiet, does not touch the flags and comes back to level 0 -/
theorem hdr_quiet (cfg : SplitCfg) : ∀ (ts : List Tok) (d : Nat) (f : SplitFlags), f.beginDepth = 0 → hdrOK cfg d ts = true →
    quiet cfg f (d : Int) ts = true ∧ runFL cfg f (d : Int) ts = (f, 0) := by
  intro ts
  induction ts with
  | nil =>
    intro d f _ h
    simp only [hdrOK, beq_iff_eq] at h
    subst h
    simp [quiet, runFL]
  | cons t ts ih =>
    intro d f hbd h
    have hstep : changeSplitLevel cfg f t.tt t.val = kindStep f (tkind cfg t) := rfl
    simp only [hdrOK, Bool.and_eq_true] at h
    obtain ⟨hg, hm⟩ := h
    cases hk : tkind cfg t with
    | lparen =>
      rw [hk] at hm
      obtain ⟨q, r⟩ := ih (d + 1) f hbd hm
      have ns : isSemi t = false := by
        cases h : isSemi t
        · rfl
        · have := semi_kind cfg t h; rw [hk] at this; cases this
      have e : (d : Int) + 1 = ((d + 1 : Nat) : Int) := by omega
      refine ⟨?_, ?_⟩
      · simp only [quiet, hstep, hk, kindStep, ns, hg, e, q]; simp
      · simp only [runFL, hstep, hk, kindStep, e, r]
    | rparen =>
      rw [hk] at hm
      simp only [Bool.and_eq_true, decide_eq_true_eq] at hm
      obtain ⟨hd, hm⟩ := hm
      obtain ⟨q, r⟩ := ih (d - 1) f hbd hm
      have ns : isSemi t = false := by
        cases h : isSemi t
        · rfl
        · have := semi_kind cfg t h; rw [hk] at this; cases this
      have e : (d : Int) + -1 = ((d - 1 : Nat) : Int) := by omega
      refine ⟨?_, ?_⟩
      · simp only [quiet, hstep, hk, kindStep, ns, hg, e, q]; simp
      · simp only [runFL, hstep, hk, kindStep, e, r]
    | other =>
      rw [hk] at hm
      simp only [Bool.and_eq_true, Bool.not_eq_true', Bool.and_eq_false_iff, beq_eq_false_iff_ne] at hm
      obtain ⟨hs, hm⟩ := hm
      obtain ⟨q, r⟩ := ih d f hbd hm
      have e : (d : Int) + 0 = (d : Int) := by omega
      refine ⟨?_, ?_⟩
      · simp only [quiet, hstep, hk, kindStep, hg, e, q, Bool.and_true, Bool.not_eq_true', Bool.and_eq_false_iff,
          decide_eq_false_iff_not]
        rcases hs with hs | hs
        · left; omega
        · right; exact hs
      · simp only [runFL, hstep, hk, kindStep, e, r]
    | create => rw [hk] at hm; simp at hm
    | declare => rw [hk] at hm; simp at hm
    | begin_ => rw [hk] at hm; simp at hm
    | end_ => rw [hk] at hm; simp at hm
    | opener b =>
      rw [hk] at hm
      obtain ⟨q, r⟩ := ih d f hbd hm
      have ns : isSemi t = false := by
        cases h : isSemi t
        · rfl
        · have := semi_kind cfg t h; rw [hk] at this; cases this
      have hs0 : kindStep f (.opener b) = (0, f) := by
        simp [kindStep, hbd]
      have e : (d : Int) + 0 = (d : Int) := by omega
      refine ⟨?_, ?_⟩
      · simp only [quiet, hstep, hk, hs0, ns, hg, e, q]; simp
      · simp only [runFL, hstep, hk, hs0, e, r]
    | closer => rw [hk] at hm; simp at hm

/-- a token of kind `create` is a DDL keyword -/
theorem create_kind_is_ddl (cfg : SplitCfg) (t : Tok) (h : tkind cfg t = .create) : t.tt = T.DDL := by
  unfold tkind kindOf at h
  split at h
  · cases h
  · split at h
    · cases h
    · split at h
      · cases h
      · simp only at h
        split at h
        · rename_i hc; simp only [Bool.and_eq_true, beq_iff_eq] at hc; exact hc.1
        · repeat (first | (split at h) | cases h)

/-- **the header hypotheses of `create_block_quiet`, discharged**: `c :: hs` with `c` of kind `create` and `hs` a header tail
is quiet and leaves the splitter at level 0 with exactly `is_create` set. -/
theorem create_header (cfg : SplitCfg) (c : Tok) (hs : List Tok)
    (hc : kindIs cfg c .create = true) (hh : hdrOK cfg 0 hs = true) :
    quiet cfg {} 0 (c :: hs) = true ∧ runFL cfg {} 0 (c :: hs) = ({ isCreate := true }, 0) := by
  simp only [kindIs, Bool.and_eq_true, beq_iff_eq] at hc
  have hstep : changeSplitLevel cfg {} c.tt c.val = kindStep {} (tkind cfg c) := rfl
  obtain ⟨q, r⟩ := hdr_quiet cfg hs 0 { isCreate := true } rfl hh
  have ns : isSemi c = false := by
    cases h : isSemi c
    · rfl
    · have := semi_kind cfg c h; rw [hc.1] at this; cases this
  refine ⟨?_, ?_⟩
  · simp only [quiet, hstep, hc.1, kindStep, ns, hc.2]
    simpa using q
  · simp only [runFL, hstep, hc.1, kindStep]
    simpa using r

end Sql
