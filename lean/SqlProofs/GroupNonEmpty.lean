import SqlModel.Grouping
import SqlProofs.Group.GoodAdHoc
import SqlProofs.Group.GoodDriverPasses
/-!
# SqlProofs.GroupNonEmpty — grouping never creates an empty group

`group_good`: `grouping.group` preserves the well-formedness invariant `goodL` of `SqlProofs/Group/Good.lean`
(no empty group; the last child of a Parenthesis/SquareBrackets is not a `Keyword` leaf), for any pass list.
`group_nonempty`: hence no group of the result has an empty child list.  A flat statement (leaves only)
satisfies the invariant trivially (`groupStatement_nonempty`).
-/
namespace Sql

/-! ### the plain "no empty group" predicate -/
mutual
def Node.noEmpty : Node → Bool
  | .tok _ _ => true
  | .grp _ ks => !ks.isEmpty && noEmptyL ks
def noEmptyL : List Node → Bool
  | [] => true
  | k :: ks => k.noEmpty && noEmptyL ks
end

mutual
theorem Node.noEmpty_of_good : (n : Node) → n.good = true → n.noEmpty = true
  | .tok _ _, _ => by simp [Node.noEmpty]
  | .grp c ks, h => by
    simp only [good_grp, Bool.and_eq_true] at h
    simp only [Node.noEmpty, Bool.and_eq_true]
    exact ⟨h.1.1, noEmptyL_of_goodL ks h.2⟩
theorem noEmptyL_of_goodL : (ks : List Node) → goodL ks = true → noEmptyL ks = true
  | [], _ => by simp [noEmptyL]
  | k :: ks, h => by
    simp only [goodL_cons, Bool.and_eq_true] at h
    simp only [noEmptyL, Bool.and_eq_true]
    exact ⟨Node.noEmpty_of_good k h.1, noEmptyL_of_goodL ks h.2⟩
end

/-! ### every pass keeps the invariant -/
theorem unknownPass_good : PassGood unknownPass := by
  intro fuel c ks ks' h
  simp [unknownPass] at h

theorem matchingPassOf_good (u : Text → Text) (c : Cls) : PassGood (matchingPassOf u c) := by
  intro fuel
  cases c <;> first
    | exact unknownPass_good fuel
    | exact groupMatching_good (by decide) fuel

theorem driverPass_good_idx {cfg : DrvCfg} (hp : PostIdx cfg) : PassGood (driverPass cfg) :=
  fun fuel => groupDriver_good_idx hp fuel

theorem driverPass_good_al {cfg : DrvCfg} (hp : PostAl cfg) : PassGood (driverPass cfg) :=
  fun fuel => groupDriver_good_al hp fuel

theorem adHocPass_good (skip : Option (List Cls)) {body} (hb : KidsGood body) : PassGood (adHocPass skip body) := by
  unfold adHocPass
  split
  · exact recursePass_good hb
  · exact fun _ => hb

theorem typedLiteralPass_good (u : Text → Text) : PassGood (typedLiteralPass u) := by
  intro fuel c ks ks' h hk
  unfold typedLiteralPass at h
  split at h
  · cases h
  · rename_i ks1 h1
    obtain ⟨g1, n1⟩ := groupDriver_good_idx (postIdx_typedLiteral0 u) fuel c ks ks1 h1 hk
    obtain ⟨g2, n2⟩ := groupDriver_good_idx (postIdx_typedLiteral1 u) fuel c ks1 ks' h g1
    exact ⟨g2, fun hne => n2 (n1 hne)⟩

theorem kidsGood_of_tri {body : Cls → List Node → Except PyErr (List Node)}
    (h : ∀ c ks ks', body c ks = .ok ks' → Tri ks ks') : KidsGood body :=
  fun c ks ks' hb hk => (h c ks ks' hb).goodKids hk

theorem groupWhereBody_good (u : Text → Text) : KidsGood (groupWhereBody u) :=
  fun _ _ _ hb hk => (groupWhereBody_tri hb hk.2).goodKids hk

theorem PassGood.ite {c : Prop} [Decidable c] {a b : Pass} (ha : PassGood a) (hb : PassGood b) :
    PassGood (if c then a else b) := by
  by_cases h : c
  · rw [if_pos h]; exact ha
  · rw [if_neg h]; exact hb

theorem passByName_good (u : Text → Text) (name : String) : PassGood (passByName u name) := by
  unfold passByName
  repeat' apply PassGood.ite
  all_goals first
    | exact unknownPass_good
    | exact matchingPassOf_good _ _
    | exact typedLiteralPass_good _
    | exact adHocPass_good _ (kidsGood_of_tri fun _ _ _ h => groupCommentsBody_tri h)
    | exact adHocPass_good _ (kidsGood_of_tri fun _ _ _ h => overLoop_tri _ _ _ _ h)
    | exact adHocPass_good _ (kidsGood_of_tri fun _ _ _ h => groupFunctionsBody_tri h)
    | exact adHocPass_good _ (groupWhereBody_good u)
    | exact adHocPass_good _ (kidsGood_of_tri fun _ _ _ h => identifierLoop_tri _ _ _ _ h)
    | exact adHocPass_good _ (kidsGood_of_tri fun _ _ _ h => orderLoop_tri _ _ _ _ h)
    | exact adHocPass_good _ (kidsGood_of_tri fun _ _ _ h => aliasedLoop_tri _ _ _ _ h)
    | exact adHocPass_good _ (kidsGood_of_tri fun _ _ _ h => alignCommentsBody_tri h)
    | exact adHocPass_good _ (kidsGood_of_tri fun _ _ _ h => groupValuesBody_tri h)
    | exact driverPass_good_idx (postIdx_period u)
    | exact driverPass_good_idx (postIdx_arrays u)
    | exact driverPass_good_idx (postIdx_typecasts u)
    | exact driverPass_good_idx (postIdx_tzcasts u)
    | exact driverPass_good_al (postAl_operator u)
    | exact driverPass_good_al (postAl_comparison u)
    | exact driverPass_good_idx (postIdx_as u)
    | exact driverPass_good_idx (postIdx_assignment u)
    | exact driverPass_good_idx (postIdx_identifierList u)

theorem runPasses_good (u : Text → Text) (fuel : Nat) (c : Cls) :
    ∀ (names : List String) (ks ks' : List Node), runPasses u fuel c names ks = .ok ks' → GoodKids c ks →
      GoodKids c ks' ∧ (ks ≠ [] → ks' ≠ []) := by
  intro names
  induction names with
  | nil => intro ks ks' h hk; simp [runPasses] at h; subst h; exact ⟨hk, id⟩
  | cons p ps ih =>
    intro ks ks' h hk
    simp only [runPasses] at h
    cases hp : passByName u p fuel c ks with
    | error e => simp [hp] at h
    | ok ks1 =>
      simp only [hp] at h
      obtain ⟨g1, n1⟩ := passByName_good u p fuel c ks ks1 hp hk
      obtain ⟨g2, n2⟩ := ih _ _ h g1
      exact ⟨g2, fun hne => n2 (n1 hne)⟩

theorem groupWith_good {u : Text → Text} {fuel : Nat} {ks ks' : List Node} (h : groupWith u fuel ks = .ok ks')
    (hg : goodL ks = true) : goodL ks' = true ∧ (ks ≠ [] → ks' ≠ []) := by
  have hk : GoodKids .Statement ks := ⟨hg, fun hi => by cases hi⟩
  obtain ⟨g, n⟩ := runPasses_good u fuel .Statement Gen.passOrder ks ks' h hk
  exact ⟨g.1, n⟩

/-- `grouping.group` preserves the well-formedness invariant (and non-emptiness of the statement) -/
theorem group_good {fuel : Nat} {ks ks' : List Node} (h : group fuel ks = .ok ks') (hg : goodL ks = true) :
    goodL ks' = true ∧ (ks ≠ [] → ks' ≠ []) :=
  groupWith_good h hg

/-- **no group of the grouped statement has an empty child list** (given a well-formed input; a flat
statement is one) -/
theorem group_nonempty {fuel : Nat} {ks ks' : List Node} (h : group fuel ks = .ok ks') (hg : goodL ks = true) :
    noEmptyL ks' = true :=
  noEmptyL_of_goodL ks' (group_good h hg).1

theorem goodL_flat (st : List Tok) : goodL (st.map fun t => Node.tok t.tt t.val) = true := by
  induction st with
  | nil => simp
  | cons t st ih => simp [ih]

/-- the tree `parse()` builds from a non-empty flat statement has no empty group, the `Statement` included -/
theorem groupStatement_nonempty {fuel : Nat} {st : List Tok} {n : Node} (h : groupStatement fuel st = .ok n)
    (hne : st ≠ []) : n.noEmpty = true := by
  unfold groupStatement at h
  split at h
  · cases h
  · rename_i ks hk
    cases h
    obtain ⟨g, nn⟩ := group_good hk (goodL_flat st)
    have hne' : ks ≠ [] := nn (by simpa using hne)
    simp only [Node.noEmpty, Bool.and_eq_true, Bool.not_eq_true', List.isEmpty_eq_false_iff]
    exact ⟨hne', noEmptyL_of_goodL ks g⟩

end Sql
