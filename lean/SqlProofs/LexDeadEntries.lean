import SqlProofs.LexDictWords
/-!
# SqlProofs.LexDeadEntries — dictionary keys that `is_keyword` can never be asked for (known finding KF-C14-1 as a theorem)

Only the generic word rule has the action `PROCESS_AS_KEYWORD` (`only_word_rule_is_kw`); every value it matches consists of `[$#\w]`
characters (`kw_value_wordchars`); `str.upper()` of such a value contains neither a blank nor a hyphen (`upper_no_blank_hyphen`, from
the generated `str.upper` table).  Hence a dictionary key containing a blank or a hyphen — `BIT VARYING`, `CHARACTER VARYING`,
`DOUBLE PRECISION`, `END-EXEC` — is never the result of `value.upper()` for any value the lexer passes to `is_keyword`: the entry is dead,
for every input (`dead_entries`).  (`DOUBLE PRECISION` nevertheless occurs as a token value, through its dedicated rule.)
-/
namespace Sql

/-- table obligation: the generic word rule is the only rule with action `PROCESS_AS_KEYWORD` -/
theorem only_word_rule_is_kw : (defaultCfg.rules.all fun r => r.act != .kw || r == wordRule) = true := by decide +kernel

/-- table obligation: no entry of the generated `str.upper` table produces a blank or a hyphen -/
theorem upperTab_no_blank_hyphen : (Gen.upperTab.toList.all fun e => e.2.all fun y => y != 32 && y != 45) = true := by
  decide +kernel

theorem tabFind_go_mem {α : Type} (tab : Array (Nat × α)) (c : Nat) : ∀ (fuel lo hi : Nat) (v : α),
    tabFind.go tab c lo hi fuel = some v → ∃ k, (k, v) ∈ tab.toList := by
  intro fuel
  induction fuel with
  | zero => intro lo hi v h; simp [tabFind.go] at h
  | succ fuel ih =>
    intro lo hi v h
    simp only [tabFind.go] at h
    split at h
    · simp at h
    · split at h
      · simp at h
      · rename_i k v' hget
        split at h
        · injection h with h; subst h
          exact ⟨k, by
            have := Array.getElem?_eq_some_iff.mp hget
            obtain ⟨hlt, hv⟩ := this
            rw [← hv]; simp⟩
        · split at h
          · exact ih _ _ v h
          · exact ih _ _ v h

theorem tabFind_mem {α : Type} (tab : Array (Nat × α)) (c : Nat) (v : α) (h : tabFind tab c = some v) :
    ∃ k, (k, v) ∈ tab.toList := tabFind_go_mem tab c 32 0 tab.size v h

/-- `str.upper()` of a character other than blank and hyphen contains neither -/
theorem strUpper1_no_blank_hyphen (x : Cp) (hx : x ≠ 32 ∧ x ≠ 45) : ∀ y ∈ strUpper1 x, y ≠ 32 ∧ y ≠ 45 := by
  intro y hy
  unfold strUpper1 at hy
  cases hf : tabFind Gen.upperTab x with
  | none => rw [hf] at hy; simp at hy; subst hy; exact hx
  | some v =>
    rw [hf] at hy
    simp only [Option.getD_some] at hy
    obtain ⟨k, hk⟩ := tabFind_mem _ _ _ hf
    have := upperTab_no_blank_hyphen
    simp only [List.all_eq_true, Bool.and_eq_true, bne_iff_ne] at this
    exact this (k, v) hk y hy

theorem wordTail_not_blank_hyphen : wordTailSet.mem 32 = false ∧ wordTailSet.mem 45 = false := by
  constructor <;> decide +kernel

theorem upper_no_blank_hyphen (v : Text) (hv : ∀ x ∈ v, wordTailSet.mem x = true) : ∀ y ∈ pyUpper v, y ≠ 32 ∧ y ≠ 45 := by
  intro y hy
  simp only [pyUpper, upperText, List.mem_flatMap] at hy
  obtain ⟨x, hx, hyx⟩ := hy
  have hm := hv x hx
  refine strUpper1_no_blank_hyphen x ⟨?_, ?_⟩ y hyx
  · intro e; rw [e, wordTail_not_blank_hyphen.1] at hm; exact absurd hm (by simp)
  · intro e; rw [e, wordTail_not_blank_hyphen.2] at hm; exact absurd hm (by simp)

/-! ## what the word rule consumes -/

theorem rep_set_chars (E : Env) (T : CpSet) (g : Bool) : ∀ (fuel lo : Nat) (hi : Option Nat) (st st' : St),
    st' ∈ repAux (derivs E (.set T)) g fuel lo hi st →
    ∀ i, st.pos ≤ i → i < st'.pos → ∃ x, E.s[i]? = some x ∧ T.mem x = true := by
  intro fuel
  induction fuel with
  | zero =>
    intro lo hi st st' h i h1 h2
    simp only [repAux] at h
    split at h
    · simp at h; subst h; omega
    · simp at h
  | succ fuel ih =>
    intro lo hi st st' h i h1 h2
    have stopCase : st' ∈ (if lo = 0 then [st] else []) → ∃ x, E.s[i]? = some x ∧ T.mem x = true := by
      intro hs
      split at hs
      · simp at hs; subst hs; omega
      · simp at hs
    have moreCase : st' ∈ ((derivs E (.set T) st).filter (fun s' => st.pos < s'.pos)).flatMap
        (fun s' => repAux (derivs E (.set T)) g fuel (lo - 1) (hi.map (· - 1)) s') →
        ∃ x, E.s[i]? = some x ∧ T.mem x = true := by
      intro hm
      simp only [List.mem_flatMap, List.mem_filter] at hm
      obtain ⟨mid, ⟨hmid, _⟩, hrest⟩ := hm
      simp only [derivs] at hmid
      split at hmid
      · rename_i x hx
        split at hmid
        · rename_i hmem
          simp only [List.mem_singleton] at hmid
          subst hmid
          by_cases hi0 : i = st.pos
          · subst hi0; exact ⟨x, hx, hmem⟩
          · exact ih _ _ _ st' hrest i (by simp; omega) h2
        · simp at hmid
      · simp at hmid
    rw [repAux] at h
    split at h
    · exact stopCase h
    · simp only at h
      split at h
      · rcases List.mem_append.mp h with h | h
        · exact moreCase h
        · exact stopCase h
      · rcases List.mem_append.mp h with h | h
        · exact stopCase h
        · exact moreCase h

/-- every character of a match of the word rule is a `[$#\w]` character -/
theorem wordRule_chars (E : Env) (p : Nat) (st' : St) (h : st' ∈ derivs E wordRule.re ⟨p, []⟩) :
    ∀ i, p ≤ i → i < st'.pos → ∃ x, E.s[i]? = some x ∧ wordTailSet.mem x = true := by
  intro i h1 h2
  have hre : wordRule.re = .cat (.set Gen.wordSet) (.rep 0 none true (.set wordTailSet)) := rfl
  rw [hre, derivs_cat] at h
  simp only [List.mem_flatMap] at h
  obtain ⟨mid, hmid, hrest⟩ := h
  simp only [derivs] at hmid
  split at hmid
  · rename_i x hx
    split at hmid
    · rename_i hmem
      simp only [List.mem_singleton] at hmid
      subst hmid
      by_cases hi0 : i = p
      · subst hi0
        refine ⟨x, hx, ?_⟩
        cases ht : wordTailSet.mem x with
        | true => rfl
        | false => rw [CpSet.subsetOf_sound _ _ wordSet_sub_tail x ht] at hmem; exact absurd hmem (by simp)
      · rw [derivs_rep] at hrest
        exact rep_set_chars E wordTailSet true _ 0 none _ st' hrest i (by simp; omega) h2
    · simp at hmid
  · simp at hmid

/-- **a value passed to `is_keyword` consists of `[$#\w]` characters** -/
theorem kw_value_wordchars (s : Array Cp) (p e : Nat)
    (h : firstMatch (defaultCfg.env s) defaultCfg.rules p = some (.kw, e)) :
    ∀ x ∈ (s.extract p e).toList, wordTailSet.mem x = true := by
  obtain ⟨r, hr, hact, st, hst, hpos⟩ := firstMatch_some _ _ _ _ _ h
  have hw : r = wordRule := by
    have := only_word_rule_is_kw
    simp only [List.all_eq_true, Bool.or_eq_true, bne_iff_ne, beq_iff_eq] at this
    rcases this r hr with h1 | h1
    · exact absurd hact.symm h1
    · exact h1
  subst hw
  intro x hx
  rw [extract_toList] at hx
  obtain ⟨k, hk, hkx⟩ := List.mem_iff_getElem.mp hx
  have hk' : k < e - p := by
    have := List.length_take_le (e - p) (s.toList.drop p)
    omega
  have hget : s.toList[p + k]? = some x := by
    have : ((s.toList.drop p).take (e - p))[k]? = some x := by rw [List.getElem?_eq_getElem hk, hkx]
    rw [List.getElem?_take, if_pos hk', List.getElem?_drop] at this
    exact this
  obtain ⟨y, hy, hm⟩ := wordRule_chars _ p st hst (p + k) (by omega) (by omega)
  have : (defaultCfg.env s).s[p + k]? = s.toList[p + k]? := by
    show s[p + k]? = _
    rw [Array.getElem?_toList]
  rw [this, hget] at hy
  injection hy with hy
  subst hy; exact hm

/-- the dictionary keys that contain a blank or a hyphen -/
def deadEntries : List Text := dictWords.filter fun w => w.any fun c => c == 32 || c == 45

/-- these are exactly the four entries `BIT VARYING`, `CHARACTER VARYING`, `DOUBLE PRECISION`, `END-EXEC` -/
theorem deadEntries_eq :
    deadEntries = [txt "BIT VARYING", txt "CHARACTER VARYING", txt "DOUBLE PRECISION", txt "END-EXEC"] := by decide +kernel

/-- **KF-C14-1 as a theorem.** For every text and every scan step whose action is `PROCESS_AS_KEYWORD` (the only place `is_keyword` is
called), `value.upper()` is none of the dictionary keys containing a blank or a hyphen: those entries can never be the answer of the
lookup, whatever the input. -/
theorem dead_entries (s : Array Cp) (p e : Nat)
    (h : firstMatch (defaultCfg.env s) defaultCfg.rules p = some (.kw, e)) :
    ∀ ent ∈ deadEntries, pyUpper (s.extract p e).toList ≠ ent := by
  intro ent hent heq
  simp only [deadEntries, List.mem_filter, List.any_eq_true, Bool.or_eq_true, beq_iff_eq] at hent
  obtain ⟨_, y, hy, hy2⟩ := hent
  have := upper_no_blank_hyphen _ (kw_value_wordchars s p e h) y (by rw [heq]; exact hy)
  rcases hy2 with rfl | rfl
  · exact this.1 rfl
  · exact this.2 rfl

/-- executing the model on the three entries without a dedicated rule: each lexes to several tokens, none with the entry as its value -/
theorem dead_entries_lex :
    ([txt "BIT VARYING", txt "CHARACTER VARYING", txt "END-EXEC"].map fun w =>
      (lex defaultCfg w.toArray).toOption.map fun ts => ts.map fun t => (t.tt, t.val.length)) =
    [some [(T.Builtin, 3), (T.Whitespace, 1), (T.Builtin, 7)],
     some [(T.Keyword, 9), (T.Whitespace, 1), (T.Builtin, 7)],
     some [(T.Keyword, 3), (T.Operator, 1), (T.Keyword, 4)]] := by decide +kernel

end Sql
