import SqlModel.LexCost
import SqlProofs.RegexCost
import SqlProofs.StrTemplate
/-!
# SqlProofs.LexCost — the work of the whole lexer is polynomial in the input length

Every match attempt is bounded by the rule's certificate (`cert_sound`) or the quoted-string template bound (`isStrTemplate_linear`);
a scan step tries at most all rules (`firstMatchWork_le`); every step advances the position, so there are at most `|s|` steps
(`lexWorkLoop_le`).  The resulting bound `lexPB rules` is computed from the table.
-/
namespace Sql

/-- every rule has a certificate or is a quoted-string template -/
def RulesCosted (rules : List Rule) : Bool := rules.all fun r => (cert r.re).isSome || isStrTemplate r.re

theorem rule_work_le (E : Env) (r : Rule) (h : ((cert r.re).isSome || isStrTemplate r.re) = true) (st : St) :
    work E r.re st ≤ (rulePB r).eval (E.s.size + 1) := by
  unfold rulePB
  cases hc : cert r.re with
  | some c => exact (cert_sound E r.re c hc st).2.1
  | none =>
    simp only [hc, Option.isSome_none, Bool.false_or] at h
    have := (isStrTemplate_linear E r.re h st).2
    simp only [PB.eval, Nat.pow_one]
    omega

theorem firstMatchWork_le (E : Env) : ∀ (rules : List Rule), RulesCosted rules = true → ∀ p,
    firstMatchWork E rules p ≤ (stepPB rules).eval (E.s.size + 1) := by
  intro rules
  induction rules with
  | nil => intro _ p; simp [firstMatchWork]
  | cons r rs ih =>
    intro h p
    simp only [RulesCosted, List.all_cons, Bool.and_eq_true] at h
    have h1 := rule_work_le E r h.1 ⟨p, []⟩
    have h2 := ih h.2 p
    have hN : 1 ≤ E.s.size + 1 := by omega
    have hrest : (match matchAt E r.re p with
        | some _ => 0
        | none => firstMatchWork E rs p) ≤ (stepPB rs).eval (E.s.size + 1) := by
      split
      · exact Nat.zero_le _
      · exact h2
    simp only [firstMatchWork, stepPB, List.foldr_cons]
    exact PB.add_le _ _ _ _ _ hN h1 hrest

theorem lexWorkLoop_le (cfg : LexCfg) (E : Env) (B : Nat) (hB : ∀ p, firstMatchWork E cfg.rules p ≤ B) :
    ∀ (fuel pos : Nat), lexWorkLoop cfg E fuel pos ≤ (E.s.size - pos) * B := by
  intro fuel
  induction fuel with
  | zero => intro pos; simp [lexWorkLoop]
  | succ fuel ih =>
    intro pos
    simp only [lexWorkLoop]
    cases hget : E.s[pos]? with
    | none => simp
    | some c =>
      have hlt : pos < E.s.size := (Array.getElem?_eq_some_iff.mp hget).1
      have hb := hB pos
      simp only
      have key : ∀ next, pos < next → lexWorkLoop cfg E fuel next ≤ (E.s.size - pos - 1) * B := by
        intro next hn
        exact Nat.le_trans (ih next) (Nat.mul_le_mul_right _ (by omega))
      have hsplit : (E.s.size - pos) * B = B + (E.s.size - pos - 1) * B := by
        have : E.s.size - pos = (E.s.size - pos - 1) + 1 := by omega
        rw [this, Nat.add_mul, Nat.one_mul, Nat.add_comm]; simp
      rw [hsplit]
      apply Nat.add_le_add hb
      split
      · exact key _ (by omega)
      · split
        · exact Nat.zero_le _
        · rename_i hle
          exact key _ (by omega)

/-- **the work of the whole scan is bounded by `lexPB`**, for every table whose rules are all costed -/
theorem lexWork_le (cfg : LexCfg) (hc : RulesCosted cfg.rules = true) (s : Array Cp) :
    lexWork cfg s ≤ (lexPB cfg.rules).eval (s.size + 1) := by
  have hsz : (cfg.env s).s.size = s.size := rfl
  have h1 := lexWorkLoop_le cfg (cfg.env s) ((stepPB cfg.rules).eval (s.size + 1))
    (fun p => by have := firstMatchWork_le (cfg.env s) cfg.rules hc p; rw [hsz] at this; exact this) (s.size + 1) 0
  rw [hsz] at h1
  unfold lexWork
  refine Nat.le_trans h1 ?_
  simp only [lexPB, PB.eval, Nat.sub_zero]
  calc s.size * ((stepPB cfg.rules).c * (s.size + 1) ^ (stepPB cfg.rules).d)
      ≤ (s.size + 1) * ((stepPB cfg.rules).c * (s.size + 1) ^ (stepPB cfg.rules).d) := Nat.mul_le_mul_right _ (by omega)
    _ = (stepPB cfg.rules).c * (s.size + 1) ^ ((stepPB cfg.rules).d + 1) := by
      rw [Nat.pow_succ, Nat.mul_left_comm, Nat.mul_comm ((s.size + 1) ^ _) (s.size + 1)]

end Sql
