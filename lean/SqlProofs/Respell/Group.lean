import SqlProofs.Respell.Matching
import SqlProofs.Respell.DriverPasses
import SqlProofs.Respell.Operator
import SqlProofs.Respell.AdHoc
/-!
# SqlProofs.Respell.Group — `grouping.group` commutes with every admissible re-spelling

`respell_groupWith`: for every `upper`, every admissible `f`, every fuel and every input forest
`groupWith upper fuel (ks.map (respell f)) = (groupWith upper fuel ks).map (List.map (respell f))`:
the grouped tree of the re-spelled tokens is the re-spelling of the grouped tree — same classes, same shape, same leaf
types, same error if any.  It holds for *any* pass list (every name `passByName` knows maps to a commuting pass, every
other name to the failing pass), in particular for the generated `Gen.passOrder`.
-/
namespace Sql

variable {upper : Text → Text} {f : TType → Text → Text}

theorem adHocPass_respell (skip : Option (List Cls)) {body : Cls → List Node → Except PyErr (List Node)}
    (hb : KidsComm f body) : PassComm f (adHocPass skip body) := by
  unfold adHocPass
  split
  · exact recursePass_respell hb
  · exact fun _ c ks => hb c ks

theorem PassComm.ite {c : Prop} [Decidable c] {a b : Pass} (ha : PassComm f a) (hb : PassComm f b) :
    PassComm f (if c then a else b) := by
  by_cases h : c
  · rw [if_pos h]; exact ha
  · rw [if_neg h]; exact hb

/-- every pass `passByName` can return commutes with re-spelling -/
theorem passByName_respell (ha : AdmissibleNames upper f) (name : String) : PassComm f (passByName upper name) := by
  unfold passByName
  repeat' apply PassComm.ite
  all_goals first
    | exact unknownPass_respell
    | exact matchingPassOf_respell ha _
    | exact typedLiteralPass_respell ha
    | exact adHocPass_respell _ (groupCommentsBody_respell ha)
    | exact adHocPass_respell _ (groupOverBody_respell ha)
    | exact adHocPass_respell _ (groupFunctionsBody_respell ha)
    | exact adHocPass_respell _ (groupWhereBody_respell ha)
    | exact adHocPass_respell _ (groupIdentifierBody_respell ha)
    | exact adHocPass_respell _ (groupOrderBody_respell ha)
    | exact adHocPass_respell _ (groupAliasedBody_respell ha)
    | exact adHocPass_respell _ (alignCommentsBody_respell ha)
    | exact adHocPass_respell _ (groupValuesBody_respell ha)
    | exact driverPass_respell (cfgPeriod_respell ha)
    | exact driverPass_respell (cfgArrays_respell ha)
    | exact driverPass_respell (cfgTypecasts_respell ha)
    | exact driverPass_respell (cfgTzcasts_respell ha)
    | exact driverPass_respell (cfgOperator_respell ha)
    | exact driverPass_respell (cfgComparison_respell ha)
    | exact driverPass_respell (cfgAs_respell ha)
    | exact driverPass_respell (cfgAssignment_respell ha)
    | exact driverPass_respell (cfgIdentifierList_respell ha)

theorem runPasses_respell (ha : AdmissibleNames upper f) (fuel : Nat) (c : Cls) (names : List String) (ks : List Node) :
    runPasses upper fuel c names (ks.map (respell f)) =
      (runPasses upper fuel c names ks).map (List.map (respell f)) := by
  induction names generalizing ks with
  | nil => rfl
  | cons p ps ih =>
    simp only [runPasses, passByName_respell ha p fuel c ks]
    cases passByName upper p fuel c ks with
    | error e => rfl
    | ok ks' => exact ih ks'

/-- **re-spelling commutes with grouping** (any `upper`), identifier-typed leaves included -/
theorem respell_groupWith_names (ha : AdmissibleNames upper f) (fuel : Nat) (ks : List Node) :
    groupWith upper fuel (ks.map (respell f)) = (groupWith upper fuel ks).map (List.map (respell f)) :=
  runPasses_respell ha fuel .Statement Gen.passOrder ks

/-- **re-spelling names, keywords and whitespace values commutes with `grouping.group`** -/
theorem respell_group_names (ha : AdmissibleNames kwNorm f) (fuel : Nat) (ks : List Node) :
    group fuel (ks.map (respell f)) = (group fuel ks).map (List.map (respell f)) :=
  respell_groupWith_names ha fuel ks

theorem respell_groupStatement_names (ha : AdmissibleNames kwNorm f) (fuel : Nat) (st : List Tok) :
    groupStatement fuel (st.map fun t => ⟨t.tt, f t.tt t.val⟩) = (groupStatement fuel st).map (respell f) := by
  unfold groupStatement
  have hmap : ((st.map fun t => (⟨t.tt, f t.tt t.val⟩ : Tok)).map fun t => Node.tok t.tt t.val) =
      (st.map fun t => Node.tok t.tt t.val).map (respell f) := by
    simp [List.map_map, Function.comp_def]
  rw [hmap, respell_group_names ha]
  cases group fuel (st.map fun t => Node.tok t.tt t.val) with
  | error e => rfl
  | ok ks => simp

/-- **re-spelling commutes with grouping** (any `upper`) -/
theorem respell_groupWith (ha : Admissible upper f) (fuel : Nat) (ks : List Node) :
    groupWith upper fuel (ks.map (respell f)) = (groupWith upper fuel ks).map (List.map (respell f)) :=
  respell_groupWith_names ha.toNames fuel ks

/-- **re-spelling commutes with `grouping.group`** (`upper := kwNorm`, all 25 passes, every input, every fuel) -/
theorem respell_group (ha : Admissible kwNorm f) (fuel : Nat) (ks : List Node) :
    group fuel (ks.map (respell f)) = (group fuel ks).map (List.map (respell f)) :=
  respell_groupWith ha fuel ks

/-- the same for a flat statement of the splitter: re-spell the tokens, group — or group, re-spell the tree -/
theorem respell_groupStatement (ha : Admissible kwNorm f) (fuel : Nat) (st : List Tok) :
    groupStatement fuel (st.map fun t => ⟨t.tt, f t.tt t.val⟩) = (groupStatement fuel st).map (respell f) :=
  respell_groupStatement_names ha.toNames fuel st

/-- consequences read off the equation: success/failure, classes and shape do not depend on the spelling -/
theorem respell_group_ok (ha : Admissible kwNorm f) {fuel : Nat} {ks ks' : List Node} (h : group fuel ks = .ok ks') :
    group fuel (ks.map (respell f)) = .ok (ks'.map (respell f)) := by
  rw [respell_group ha, h]; rfl

theorem respell_group_error (ha : Admissible kwNorm f) {fuel : Nat} {ks : List Node} {e : PyErr}
    (h : group fuel ks = .error e) : group fuel (ks.map (respell f)) = .error e := by
  rw [respell_group ha, h]; rfl

end Sql
