import SqlProofs.Respell.Lift
/-!
# SqlProofs.Respell.Driver — the generic `_group` driver commutes with re-spelling

`CfgComm f cfg Inv`: the three closures of the configuration do not see the re-spelling, and `post` commutes with
it at every `(tlist, tidx)` the loop can reach with a matching token.  Reachability is an arbitrary loop invariant
`Inv` of the *original* run (trivial for every configuration except `group_operator`, whose `post` re-types
`tlist[tidx]`: there the invariant says that this element is the matched token itself).
-/
namespace Sql

variable {f : TType → Text → Text}

def DrvSt.respell (f : TType → Text → Text) (st : DrvSt) : DrvSt :=
  { st with cur := st.cur.map (Sql.respell f), prev := st.prev.map (rp f) }

/-- `post(tlist, pidx, tidx, nidx)` commutes with re-spelling at this list and this `tidx` -/
def PostCommAt (f : TType → Text → Text) (cfg : DrvCfg) (cur : List Node) (t : Nat) : Prop :=
  ∀ p n, cfg.post (cur.map (respell f)) p t n =
    (cfg.post cur p t n).map (fun x => (x.1.map (respell f), x.2))

structure CfgComm (f : TType → Text → Text) (cfg : DrvCfg) (Inv : List Node → Nat → DrvSt → Prop) : Prop where
  isMatch : ∀ k, cfg.isMatch (respell f k) = cfg.isMatch k
  validPrev : ∀ k, cfg.validPrev (respell f k) = cfg.validPrev k
  validNext : ∀ o : Option Node, cfg.validNext (o.map (respell f)) = cfg.validNext o
  init : ∀ ks, Inv ks 0 (drvInit ks)
  step : ∀ token tl idx st st', Inv (token :: tl) idx st → drvStep cfg st idx token = .ok st' → Inv tl (idx + 1) st'
  post : ∀ token tl idx st, Inv (token :: tl) idx st → ¬ ((idx : Int) - st.off < 0) → token.isWhitespace = false →
    cfg.isMatch token = true → PostCommAt f cfg st.cur ((idx : Int) - st.off).toNat

theorem drvStep_recurse (cfg : DrvCfg) (b : Bool) : drvStep { cfg with recurse := b } = drvStep cfg := rfl

theorem drvLoop_recurse (cfg : DrvCfg) (b : Bool) (snap : List Node) (idx : Nat) (st : DrvSt) :
    drvLoop { cfg with recurse := b } snap idx st = drvLoop cfg snap idx st := by
  induction snap generalizing idx st with
  | nil => rfl
  | cons t snap ih =>
    simp only [drvLoop, drvStep_recurse]
    cases drvStep cfg st idx t with
    | error e => rfl
    | ok st' => exact ih (idx + 1) st'

theorem CfgComm.withRecurse {cfg : DrvCfg} {Inv} (h : CfgComm f cfg Inv) (b : Bool) :
    CfgComm f { cfg with recurse := b } Inv :=
  { isMatch := h.isMatch, validPrev := h.validPrev, validNext := h.validNext, init := h.init,
    step := fun token tl idx st st' hi hs => h.step token tl idx st st' hi (by rw [← drvStep_recurse cfg b]; exact hs),
    post := fun token tl idx st hi hn hw hm => h.post token tl idx st hi hn hw hm }

theorem drvStep_respell {cfg : DrvCfg} (hm : ∀ k, cfg.isMatch (respell f k) = cfg.isMatch k)
    (hvp : ∀ k, cfg.validPrev (respell f k) = cfg.validPrev k)
    (hvn : ∀ o : Option Node, cfg.validNext (o.map (respell f)) = cfg.validNext o)
    (st : DrvSt) (idx : Nat) (token : Node)
    (hpost : ¬ ((idx : Int) - st.off < 0) → token.isWhitespace = false → cfg.isMatch token = true →
      PostCommAt f cfg st.cur ((idx : Int) - st.off).toNat) :
    drvStep cfg (st.respell f) idx (respell f token) = (drvStep cfg st idx token).map (DrvSt.respell f) := by
  unfold drvStep
  by_cases hneg : (idx : Int) - st.off < 0
  · simp [DrvSt.respell, hneg]
  have hoff : (st.respell f).off = st.off := rfl
  simp only [hoff, hneg, if_false, respell_isWhitespace, hm]
  by_cases hws : token.isWhitespace = true
  · simp [hws, DrvSt.respell]
  simp only [hws]
  by_cases hmt : cfg.isMatch token = true
  · simp only [hmt, if_true]
    have hcur : (st.respell f).cur = st.cur.map (respell f) := rfl
    have hprev : (st.respell f).prev = st.prev.map (rp f) := rfl
    simp only [hcur, hprev, tokenNext_respell]
    cases hp : st.prev with
    | none => simp [DrvSt.respell, hp, rp]
    | some q =>
      obtain ⟨pidx, prev⟩ := q
      simp only [Option.map_some, rp]
      have h2 : Option.map (fun x : Nat × Node => x.2) (Option.map (rp f) (tokenNext st.cur ((idx : Int) - st.off).toNat))
          = Option.map (respell f) (Option.map (fun x : Nat × Node => x.2) (tokenNext st.cur ((idx : Int) - st.off).toNat)) := by
        cases tokenNext st.cur ((idx : Int) - st.off).toNat <;> rfl
      have h1 : Option.map (fun x : Nat × Node => x.1) (Option.map (rp f) (tokenNext st.cur ((idx : Int) - st.off).toNat))
          = Option.map (fun x : Nat × Node => x.1) (tokenNext st.cur ((idx : Int) - st.off).toNat) := by
        cases tokenNext st.cur ((idx : Int) - st.off).toNat <;> rfl
      rw [h2, h1, hvp, hvn]
      by_cases hv : (cfg.validPrev prev &&
          cfg.validNext (Option.map (fun x : Nat × Node => x.2) (tokenNext st.cur ((idx : Int) - st.off).toNat))) = true
      · simp only [hv, if_true]
        have hws' : token.isWhitespace = false := by simpa using hws
        rw [hpost hneg hws' hmt pidx _]
        cases cfg.post st.cur pidx ((idx : Int) - st.off).toNat
            (Option.map (fun x : Nat × Node => x.1) (tokenNext st.cur ((idx : Int) - st.off).toNat)) with
        | error e => rfl
        | ok r =>
          obtain ⟨cur1, fromIdx, toIdx⟩ := r
          simp only [Except.map_ok', groupTokens'_respell]
          cases groupTokens' cur1 cfg.cls fromIdx toIdx true cfg.extend with
          | error e => rfl
          | ok r2 => obtain ⟨cur2, grp⟩ := r2; simp [DrvSt.respell, rp]
      · simp [hv, DrvSt.respell, rp]
  · simp [hmt, DrvSt.respell, rp]

theorem drvLoop_respell {cfg : DrvCfg} {Inv} (hc : CfgComm f cfg Inv) (snap : List Node) (idx : Nat) (st : DrvSt)
    (hinv : Inv snap idx st) :
    drvLoop cfg (snap.map (respell f)) idx (st.respell f) = (drvLoop cfg snap idx st).map (DrvSt.respell f) := by
  induction snap generalizing idx st with
  | nil => rfl
  | cons token snap ih =>
    simp only [List.map_cons, drvLoop]
    rw [drvStep_respell hc.isMatch hc.validPrev hc.validNext st idx token
      (fun hn hw hm => hc.post token snap idx st hinv hn hw hm)]
    cases hs : drvStep cfg st idx token with
    | error e => rfl
    | ok st' =>
      simp only [Except.map_ok']
      exact ih (idx + 1) st' (hc.step token snap idx st st' hinv hs)

theorem drvInit_respell (ks : List Node) : drvInit (ks.map (respell f)) = (drvInit ks).respell f := rfl

theorem drvEligible_respell (cls : Cls) (bs : List Bool) (ks : List Node) :
    drvEligible cls bs (ks.map (respell f)) = drvEligible cls bs ks := by
  induction ks generalizing bs with
  | nil => cases bs <;> rfl
  | cons k ks ih =>
    cases bs with
    | nil => rfl
    | cons b bs => simp [drvEligible, ih]

theorem groupDriver_respell (fuel : Nat) : ∀ {cfg : DrvCfg} {Inv}, CfgComm f cfg Inv → ∀ ks,
    groupDriver cfg fuel (ks.map (respell f)) = (groupDriver cfg fuel ks).map (List.map (respell f)) := by
  induction fuel with
  | zero => intro cfg Inv hc ks; rfl
  | succ n ih =>
    intro cfg Inv hc ks
    simp only [groupDriver]
    by_cases hr : cfg.recurse = true
    · simp only [hr, if_true]
      rw [drvInit_respell, drvLoop_respell hc ks 0 _ (hc.init ks)]
      cases drvLoop cfg ks 0 (drvInit ks) with
      | error e => rfl
      | ok dry =>
        simp only [Except.map_ok']
        have hreached : (dry.respell f).reached = dry.reached := rfl
        rw [hreached, drvEligible_respell,
          mapGroupsWhere_respell (fun _ kids => ih (hc.withRecurse true) kids)]
        cases mapGroupsWhere (fun _ kids => groupDriver { cfg with recurse := true } n kids)
            (drvEligible cfg.cls dry.reached.reverse ks) ks with
        | error e => rfl
        | ok ks' =>
          simp only [Except.map_ok']
          rw [drvInit_respell, drvLoop_respell hc ks' 0 _ (hc.init ks')]
          cases drvLoop cfg ks' 0 (drvInit ks') <;> rfl
    · simp only [hr]
      rw [drvInit_respell, drvLoop_respell hc ks 0 _ (hc.init ks)]
      cases drvLoop cfg ks 0 (drvInit ks) <;> rfl

theorem driverPass_respell {cfg : DrvCfg} {Inv} (hc : CfgComm f cfg Inv) : PassComm f (driverPass cfg) :=
  fun fuel _ ks => groupDriver_respell fuel hc ks

end Sql
