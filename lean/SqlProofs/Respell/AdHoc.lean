import SqlProofs.Respell.Lift
/-!
# SqlProofs.Respell.AdHoc — the nine `while token:` passes commute with re-spelling

Each loop is run on the re-spelled list with the re-spelled pending `(tidx, token)`; every test it makes is one of
the invariant primitives of `Respell/Basic.lean`.  `group_functions` additionally reads `token.value` of every child
(`functionsSkip`): that is clause `value` of `Admissible`.
-/
namespace Sql

variable {upper : Text → Text} {f : TType → Text → Text}

local notation "R" => respell f

theorem loopBound_respell (ks : List Node) : loopBound (ks.map (respell f)) = loopBound ks := by simp [loopBound]

/-! ### group_identifier -/
theorem identifierLoop_respell (ha : AdmissibleNames upper f) (n : Nat) (ks : List Node) (pend : Option (Nat × Node)) :
    identifierLoop upper n (ks.map (respell f)) (pend.map (rp f)) =
      (identifierLoop upper n ks pend).map (List.map (respell f)) := by
  induction n generalizing ks pend with
  | zero => cases pend <;> simp [identifierLoop]
  | succ n ih =>
    cases pend with
    | none => simp [identifierLoop]
    | some p =>
      obtain ⟨tidx, tok⟩ := p
      simp only [Option.map_some, rp, identifierLoop, groupTokens_respell]
      cases groupTokens ks Gen.group_identifier_group_tokens0_cls tidx tidx true
          Gen.group_identifier_group_tokens0_extend with
      | error e => rfl
      | ok ks' =>
        simp only [Except.map_ok', tokenNextBy_respell ha ks' [] [] _ rfl]
        exact ih ks' _

theorem groupIdentifierBody_respell (ha : AdmissibleNames upper f) : KidsComm f (groupIdentifierBody upper) := by
  intro c ks
  simp only [groupIdentifierBody, loopBound_respell, tokenNextBy_respell ha ks [] [] _ rfl]
  exact identifierLoop_respell ha _ ks _

/-! ### group_over -/
theorem overLoop_respell (ha : AdmissibleNames upper f) (n : Nat) (ks : List Node) (pend : Option (Nat × Node)) :
    overLoop upper n (ks.map (respell f)) (pend.map (rp f)) =
      (overLoop upper n ks pend).map (List.map (respell f)) := by
  induction n generalizing ks pend with
  | zero => cases pend <;> simp [overLoop]
  | succ n ih =>
    cases pend with
    | none => simp [overLoop]
    | some p =>
      obtain ⟨tidx, tok⟩ := p
      simp only [Option.map_some, rp, overLoop, tokenNext_respell]
      cases tokenNext ks tidx with
      | none =>
        simp only [Option.map_none, tokenNextBy_respell ha ks [] Gen.group_over_token_next_by1_m .none (by decide)]
        exact ih ks _
      | some q =>
        obtain ⟨nidx, next⟩ := q
        simp only [Option.map_some, rp, respell_imt ha next Gen.group_over_imt0_i [] Gen.group_over_imt0_t rfl]
        by_cases hi : imt upper next Gen.group_over_imt0_i [] Gen.group_over_imt0_t = true
        · simp only [hi, if_true, groupTokens_respell]
          cases groupTokens ks Gen.group_over_group_tokens0_cls tidx nidx true Gen.group_over_group_tokens0_extend with
          | error e => rfl
          | ok ks' =>
            simp only [Except.map_ok',
              tokenNextBy_respell ha ks' [] Gen.group_over_token_next_by1_m .none (by decide)]
            exact ih ks' _
        · simp only [hi, tokenNextBy_respell ha ks [] Gen.group_over_token_next_by1_m .none (by decide)]
          exact ih ks _

theorem groupOverBody_respell (ha : AdmissibleNames upper f) : KidsComm f (groupOverBody upper) := by
  intro c ks
  simp only [groupOverBody, loopBound_respell,
    tokenNextBy_respell ha ks [] Gen.group_over_token_next_by0_m .none (by decide)]
  exact overLoop_respell ha _ ks _

/-! ### group_comments -/
theorem commentsLoop_respell (ha : AdmissibleNames upper f) (n : Nat) (ks : List Node) (pend : Option (Nat × Node)) :
    commentsLoop upper n (ks.map (respell f)) (pend.map (rp f)) =
      (commentsLoop upper n ks pend).map (List.map (respell f)) := by
  induction n generalizing ks pend with
  | zero => cases pend <;> simp [commentsLoop]
  | succ n ih =>
    cases pend with
    | none => simp [commentsLoop]
    | some p =>
      obtain ⟨tidx, tok⟩ := p
      simp only [Option.map_some, rp, commentsLoop]
      rw [tokenMatchingFwd_respell (f := f) _ (fun tk => !(imt upper tk [] [] Gen.group_comments_imt0_t || tk.isNewline))
        (fun k => by simp only [respell_imt ha k [] [] _ rfl, respell_isNewline]) ks tidx none]
      cases tokenMatchingFwd ks (fun tk => !(imt upper tk [] [] Gen.group_comments_imt0_t || tk.isNewline)) tidx with
      | none =>
        simp only [Option.map_none, tokenNextBy_respell ha ks [] [] _ rfl]
        exact ih ks _
      | some q =>
        obtain ⟨eidx, e⟩ := q
        simp only [Option.map_some, rp, tokenPrev_respell]
        cases tokenPrev ks eidx false with
        | none => rfl
        | some q2 =>
          obtain ⟨pe, x⟩ := q2
          simp only [Option.map_some, rp, groupTokens_respell]
          cases groupTokens ks Gen.group_comments_group_tokens0_cls tidx pe true
              Gen.group_comments_group_tokens0_extend with
          | error e => rfl
          | ok ks' =>
            simp only [Except.map_ok', tokenNextBy_respell ha ks' [] [] _ rfl]
            exact ih ks' _

theorem groupCommentsBody_respell (ha : AdmissibleNames upper f) : KidsComm f (groupCommentsBody upper) := by
  intro c ks
  simp only [groupCommentsBody, loopBound_respell, tokenNextBy_respell ha ks [] [] _ rfl]
  exact commentsLoop_respell ha _ ks _

/-! ### group_where -/
theorem groupableLastIdx_respell (c : Cls) (ks : List Node) :
    groupableLastIdx c (ks.map (respell f)) = groupableLastIdx c ks := by simp [groupableLastIdx]

theorem whereEnd_respell (ha : AdmissibleNames upper f) (c : Cls) (ks : List Node) (tidx : Nat) :
    whereEnd upper c (ks.map (respell f)) tidx = whereEnd upper c ks tidx := by
  simp only [whereEnd, tokenNextBy_respell ha ks [] Gen.group_where_token_next_by1_m .none (by decide),
    groupableLastIdx_respell, List.length_map]
  cases tokenNextBy upper ks [] Gen.group_where_token_next_by1_m .none (tidx + 1) with
  | none => rfl
  | some q => rfl

theorem whereLoop_respell (ha : AdmissibleNames upper f) (c : Cls) (n : Nat) (ks : List Node)
    (pend : Option (Nat × Node)) :
    whereLoop upper c n (ks.map (respell f)) (pend.map (rp f)) =
      (whereLoop upper c n ks pend).map (List.map (respell f)) := by
  induction n generalizing ks pend with
  | zero => cases pend <;> simp [whereLoop]
  | succ n ih =>
    cases pend with
    | none => simp [whereLoop]
    | some p =>
      obtain ⟨tidx, tok⟩ := p
      simp only [Option.map_some, rp, whereLoop, whereEnd_respell ha]
      cases whereEnd upper c ks tidx with
      | error e => rfl
      | ok eidx =>
        simp only [groupTokens_respell]
        cases groupTokens ks Gen.group_where_group_tokens0_cls tidx eidx true Gen.group_where_group_tokens0_extend with
        | error e => rfl
        | ok ks' =>
          simp only [Except.map_ok',
            tokenNextBy_respell ha ks' [] Gen.group_where_token_next_by2_m .none (by decide)]
          exact ih ks' _

theorem groupWhereBody_respell (ha : AdmissibleNames upper f) : KidsComm f (groupWhereBody upper) := by
  intro c ks
  simp only [groupWhereBody, loopBound_respell,
    tokenNextBy_respell ha ks [] Gen.group_where_token_next_by0_m .none (by decide)]
  exact whereLoop_respell ha c _ ks _

/-! ### group_aliased -/
theorem aliasedLoop_respell (ha : AdmissibleNames upper f) (n : Nat) (ks : List Node) (pend : Option (Nat × Node)) :
    aliasedLoop upper n (ks.map (respell f)) (pend.map (rp f)) =
      (aliasedLoop upper n ks pend).map (List.map (respell f)) := by
  induction n generalizing ks pend with
  | zero => cases pend <;> simp [aliasedLoop]
  | succ n ih =>
    cases pend with
    | none => simp [aliasedLoop]
    | some p =>
      obtain ⟨tidx, tok⟩ := p
      simp only [Option.map_some, rp, aliasedLoop, tokenNext_respell]
      cases tokenNext ks tidx with
      | none =>
        simp only [Option.map_none, tokenNextBy_respell ha ks Gen.group_aliased_I_ALIAS [] _ rfl]
        exact ih ks _
      | some q =>
        obtain ⟨nidx, next⟩ := q
        simp only [Option.map_some, rp, respell_isInstAny]
        by_cases hi : next.isInstAny Gen.group_aliased_isinstance0 = true
        · simp only [hi, if_true, groupTokens_respell]
          cases groupTokens ks Gen.group_aliased_group_tokens0_cls tidx nidx true
              Gen.group_aliased_group_tokens0_extend with
          | error e => rfl
          | ok ks' =>
            simp only [Except.map_ok', tokenNextBy_respell ha ks' Gen.group_aliased_I_ALIAS [] _ rfl]
            exact ih ks' _
        · simp only [hi, tokenNextBy_respell ha ks Gen.group_aliased_I_ALIAS [] _ rfl]
          exact ih ks _

theorem groupAliasedBody_respell (ha : AdmissibleNames upper f) : KidsComm f (groupAliasedBody upper) := by
  intro c ks
  simp only [groupAliasedBody, loopBound_respell, tokenNextBy_respell ha ks Gen.group_aliased_I_ALIAS [] _ rfl]
  exact aliasedLoop_respell ha _ ks _

/-! ### group_functions -/
theorem functionsSkip_respell (ha : AdmissibleNames upper f) (ks : List Node) :
    functionsSkip upper (ks.map (respell f)) = functionsSkip upper ks := by
  have h : ∀ w ∈ skipWords, (ks.map (respell f)).any (fun k => upper k.value == w) =
      ks.any (fun k => upper k.value == w) := by
    intro w hw
    rw [List.any_map]
    congr 1
    funext k
    exact ha.value k w hw
  simp only [functionsSkip, h _ (by simp [skipWords] : txt "CREATE" ∈ skipWords),
    h _ (by simp [skipWords] : txt "TABLE" ∈ skipWords), h _ (by simp [skipWords] : txt "AS" ∈ skipWords)]

theorem functionsLoop_respell (ha : AdmissibleNames upper f) (n : Nat) (ks : List Node) (pend : Option (Nat × Node)) :
    functionsLoop upper n (ks.map (respell f)) (pend.map (rp f)) =
      (functionsLoop upper n ks pend).map (List.map (respell f)) := by
  induction n generalizing ks pend with
  | zero => cases pend <;> simp [functionsLoop]
  | succ n ih =>
    cases pend with
    | none => simp [functionsLoop]
    | some p =>
      obtain ⟨tidx, tok⟩ := p
      simp only [Option.map_some, rp, functionsLoop, tokenNext_respell]
      cases tokenNext ks tidx with
      | none =>
        simp only [Option.map_none, tokenNextBy_respell ha ks [] [] _ rfl]
        exact ih ks _
      | some q =>
        obtain ⟨nidx, next⟩ := q
        simp only [Option.map_some, rp, respell_isInstAny]
        by_cases hi : next.isInstAny Gen.group_functions_isinstance0 = true
        · simp only [hi, if_true]
          have fin : ∀ eidx, (match groupTokens (ks.map (respell f)) Gen.group_functions_group_tokens0_cls tidx eidx true
                Gen.group_functions_group_tokens0_extend with
              | .error e => .error e
              | .ok ks' => functionsLoop upper n ks'
                  (tokenNextBy upper ks' [] [] Gen.group_functions_token_next_by1_t (tidx + 1))) =
              Except.map (List.map (respell f))
                (match groupTokens ks Gen.group_functions_group_tokens0_cls tidx eidx true
                  Gen.group_functions_group_tokens0_extend with
                | .error e => .error e
                | .ok ks' => functionsLoop upper n ks'
                    (tokenNextBy upper ks' [] [] Gen.group_functions_token_next_by1_t (tidx + 1))) := by
            intro eidx
            rw [groupTokens_respell]
            cases groupTokens ks Gen.group_functions_group_tokens0_cls tidx eidx true
                Gen.group_functions_group_tokens0_extend with
            | error e => rfl
            | ok ks' =>
              simp only [Except.map_ok', tokenNextBy_respell ha ks' [] [] _ rfl]
              exact ih ks' _
          cases tokenNext ks nidx with
          | none => exact fin nidx
          | some q2 =>
            obtain ⟨oidx, over⟩ := q2
            simp only [Option.map_some, rp, respell_isInstAny]
            exact fin _
        · simp only [hi, tokenNextBy_respell ha ks [] [] _ rfl]
          exact ih ks _

theorem groupFunctionsBody_respell (ha : AdmissibleNames upper f) : KidsComm f (groupFunctionsBody upper) := by
  intro c ks
  simp only [groupFunctionsBody, functionsSkip_respell ha, loopBound_respell, tokenNextBy_respell ha ks [] [] _ rfl]
  split
  · rfl
  · exact functionsLoop_respell ha _ ks _

/-! ### group_order -/
theorem orderLoop_respell (ha : AdmissibleNames upper f) (n : Nat) (ks : List Node) (pend : Option (Nat × Node)) :
    orderLoop upper n (ks.map (respell f)) (pend.map (rp f)) =
      (orderLoop upper n ks pend).map (List.map (respell f)) := by
  induction n generalizing ks pend with
  | zero => cases pend <;> simp [orderLoop]
  | succ n ih =>
    cases pend with
    | none => simp [orderLoop]
    | some p =>
      obtain ⟨tidx, tok⟩ := p
      simp only [Option.map_some, rp, orderLoop, tokenPrev_respell]
      cases tokenPrev ks tidx with
      | none =>
        simp only [Option.map_none, tokenNextBy_respell ha ks [] [] _ rfl]
        exact ih ks _
      | some q =>
        obtain ⟨pidx, prev⟩ := q
        simp only [Option.map_some, rp, respell_imt ha prev Gen.group_order_imt0_i [] Gen.group_order_imt0_t rfl]
        by_cases hi : imt upper prev Gen.group_order_imt0_i [] Gen.group_order_imt0_t = true
        · simp only [hi, if_true, groupTokens_respell]
          cases groupTokens ks Gen.group_order_group_tokens0_cls pidx tidx true Gen.group_order_group_tokens0_extend with
          | error e => rfl
          | ok ks' =>
            simp only [Except.map_ok', tokenNextBy_respell ha ks' [] [] _ rfl]
            exact ih ks' _
        · simp only [hi, tokenNextBy_respell ha ks [] [] _ rfl]
          exact ih ks _

theorem groupOrderBody_respell (ha : AdmissibleNames upper f) : KidsComm f (groupOrderBody upper) := by
  intro c ks
  simp only [groupOrderBody, loopBound_respell, tokenNextBy_respell ha ks [] [] _ rfl]
  exact orderLoop_respell ha _ ks _

/-! ### align_comments -/
theorem alignLoop_respell (ha : AdmissibleNames upper f) (n : Nat) (ks : List Node) (pend : Option (Nat × Node)) :
    alignLoop upper n (ks.map (respell f)) (pend.map (rp f)) =
      (alignLoop upper n ks pend).map (List.map (respell f)) := by
  induction n generalizing ks pend with
  | zero => cases pend <;> simp [alignLoop]
  | succ n ih =>
    cases pend with
    | none => simp [alignLoop]
    | some p =>
      obtain ⟨tidx, tok⟩ := p
      simp only [Option.map_some, rp, alignLoop, tokenPrev_respell]
      cases tokenPrev ks tidx with
      | none =>
        simp only [Option.map_none, tokenNextBy_respell ha ks Gen.align_comments_token_next_by1_i [] .none rfl]
        exact ih ks _
      | some q =>
        obtain ⟨pidx, prev⟩ := q
        simp only [Option.map_some, rp, respell_isInstAny]
        by_cases hi : prev.isInstAny Gen.align_comments_isinstance0 = true
        · simp only [hi, if_true, groupTokens_respell]
          cases groupTokens ks Gen.align_comments_group_tokens0_cls pidx tidx true
              Gen.align_comments_group_tokens0_extend with
          | error e => rfl
          | ok ks' =>
            simp only [Except.map_ok',
              tokenNextBy_respell ha ks' Gen.align_comments_token_next_by1_i [] .none rfl]
            exact ih ks' _
        · simp only [hi, tokenNextBy_respell ha ks Gen.align_comments_token_next_by1_i [] .none rfl]
          exact ih ks _

theorem alignCommentsBody_respell (ha : AdmissibleNames upper f) : KidsComm f (alignCommentsBody upper) := by
  intro c ks
  simp only [alignCommentsBody, loopBound_respell,
    tokenNextBy_respell ha ks Gen.align_comments_token_next_by0_i [] .none rfl]
  exact alignLoop_respell ha _ ks _

/-! ### group_values -/
theorem valuesLoop_respell (n : Nat) (ks : List Node) (pend : Option (Nat × Node)) (e : Option Nat) :
    valuesLoop n (ks.map (respell f)) (pend.map (rp f)) e = valuesLoop n ks pend e := by
  induction n generalizing pend e with
  | zero => cases pend <;> simp [valuesLoop]
  | succ n ih =>
    cases pend with
    | none => simp [valuesLoop]
    | some p =>
      obtain ⟨tidx, tok⟩ := p
      simp only [Option.map_some, rp, valuesLoop, tokenNext_respell, respell_isInstAny]
      exact ih _ _

theorem groupValuesBody_respell (ha : AdmissibleNames upper f) : KidsComm f (groupValuesBody upper) := by
  intro c ks
  simp only [groupValuesBody, tokenNextBy_respell ha ks [] Gen.group_values_token_next_by0_m .none (by decide)]
  cases tokenNextBy upper ks [] Gen.group_values_token_next_by0_m .none 0 with
  | none => rfl
  | some q =>
    obtain ⟨startIdx, token⟩ := q
    have := valuesLoop_respell (f := f) (loopBound ks) ks (some (startIdx, token)) none
    simp only [Option.map_some, rp] at this
    simp only [Option.map_some, rp, loopBound_respell, this]
    cases valuesLoop (loopBound ks) ks (some (startIdx, token)) none with
    | error e => rfl
    | ok r =>
      cases r with
      | none => rfl
      | some endIdx => exact groupTokens_respell ks _ _ _ _ _

end Sql
