import SqlProofs.Respell.Group
import SqlProofs.Respell.KwNormWs
/-!
# SqlProofs.Respell.All — the re-spelling theorem instantiated for the two re-spellings of property C11

* `respell_group`            (Respell/Group.lean)  any `f` with `Admissible kwNorm f`
* `respell_group_case`       keyword letter case: `caseMap` any map undone by `str.upper`
* `respell_group_kwWs`       keyword values and whitespace-token values replaced by contextually equivalent ones
                             (`ctxEq_of_pyUpper`, `ctxEq_ws`, `ctxEq_twoWords`, `CtxEq.append`)
-/
namespace Sql

/-- **keyword letter case does not influence the grouped tree** -/
theorem respell_group_case (caseMap : Text → Text) (hcm : ∀ v, pyUpper (caseMap v) = pyUpper v) (fuel : Nat)
    (ks : List Node) :
    group fuel (ks.map (respell (caseRespell caseMap))) =
      (group fuel ks).map (List.map (respell (caseRespell caseMap))) :=
  respell_group (admissible_caseRespell caseMap hcm) fuel ks

/-- **neither do the whitespace inside multi-word keywords and the values of whitespace tokens** -/
theorem respell_group_kwWs (kwMap wsMap : Text → Text) (hk : ∀ v, CtxEq kwNorm (kwMap v) v)
    (hw : ∀ v, CtxEq kwNorm (wsMap v) v) (fuel : Nat) (ks : List Node) :
    group fuel (ks.map (respell (kwWsRespell kwMap wsMap))) =
      (group fuel ks).map (List.map (respell (kwWsRespell kwMap wsMap))) :=
  respell_group (admissible_kwWs kwMap wsMap hk hw) fuel ks

/-- instance: lower-case every keyword token's ASCII letters -/
theorem respell_group_asciiLower (fuel : Nat) (ks : List Node) :
    group fuel (ks.map (respell (caseRespell (List.map asciiLower)))) =
      (group fuel ks).map (List.map (respell (caseRespell (List.map asciiLower)))) :=
  respell_group admissible_asciiLower fuel ks

/-- `END  IF` (two blanks, upper case) and `end\tif` are interchangeable keyword values -/
example : CtxEq kwNorm (txt "END  IF") (txt "end\tif") :=
  ctxEq_twoWords (w1 := txt "END") (w1' := txt "end") (s := txt "  ") (s' := txt "\t") (w2 := txt "IF") (w2' := txt "if")
    (by decide +kernel) (by decide +kernel) (by decide) (by decide) (by decide +kernel) (by decide +kernel)

end Sql
