import SqlProofs.Respell.Lift
/-!
# SqlProofs.Respell.Matching — `_group_matching` commutes with re-spelling
-/
namespace Sql

variable {upper : Text → Text} {f : TType → Text → Text}

/-- the loop state over the re-spelled list -/
def MatchSt.respell (f : TType → Text → Text) (st : MatchSt) : MatchSt :=
  { st with cur := st.cur.map (Sql.respell f) }

theorem matchStep_respell (ha : AdmissibleNames upper f) (cls : Cls) (o cl : List MPat) (ho : SafePats o = true)
    (hc : SafePats cl = true) (st : MatchSt) (idx : Nat) (token : Node) :
    matchStep upper cls o cl (st.respell f) idx (respell f token) =
      (matchStep upper cls o cl st idx token).map (MatchSt.respell f) := by
  unfold matchStep
  simp only [respell_isWhitespace, respell_isGroup, respell_isInst, respell_matchAny ha token o ho,
    respell_matchAny ha token cl hc]
  by_cases h1 : token.isWhitespace = true
  · simp [h1]
  simp only [h1]
  by_cases h2 : (token.isGroup && !token.isInst cls) = true
  · simp [h2]
  simp only [h2]
  by_cases h3 : o.any (token.matchP upper) = true
  · simp [h3, MatchSt.respell]
  simp only [h3]
  by_cases h4 : cl.any (token.matchP upper) = true
  · simp only [h4, if_true]
    cases hop : st.opens with
    | nil => simp [MatchSt.respell, hop]
    | cons a rest =>
      simp only [MatchSt.respell, hop, groupTokens_respell]
      cases groupTokens st.cur cls a (idx - st.off) <;> simp [MatchSt.respell]
  · simp [h4]

theorem matchLoop_respell (ha : AdmissibleNames upper f) (cls : Cls) (o cl : List MPat) (ho : SafePats o = true)
    (hc : SafePats cl = true) (snap : List Node) (idx : Nat) (st : MatchSt) :
    matchLoop upper cls o cl (snap.map (respell f)) idx (st.respell f) =
      (matchLoop upper cls o cl snap idx st).map (MatchSt.respell f) := by
  induction snap generalizing idx st with
  | nil => rfl
  | cons token snap ih =>
    simp only [List.map_cons, matchLoop, matchStep_respell ha cls o cl ho hc]
    cases matchStep upper cls o cl st idx token with
    | error e => rfl
    | ok st' => simp only [Except.map_ok']; exact ih (idx + 1) st'

theorem groupMatching_respell (ha : AdmissibleNames upper f) (cls : Cls) (o cl : List MPat) (ho : SafePats o = true)
    (hc : SafePats cl = true) (fuel : Nat) (ks : List Node) :
    groupMatching upper cls o cl fuel (ks.map (respell f)) =
      (groupMatching upper cls o cl fuel ks).map (List.map (respell f)) := by
  induction fuel generalizing ks with
  | zero => rfl
  | succ n ih =>
    simp only [groupMatching]
    rw [mapGroups_respell (fun k => by simp) (fun _ kids => ih kids)]
    cases mapGroups (fun k => !k.isInst cls) (fun _ kids => groupMatching upper cls o cl n kids) ks with
    | error e => rfl
    | ok ks' =>
      simp only [Except.map_ok']
      have := matchLoop_respell ha cls o cl ho hc ks' 0 { cur := ks', opens := [], off := 0 }
      simp only [MatchSt.respell] at this
      rw [this]
      cases matchLoop upper cls o cl ks' 0 { cur := ks', opens := [], off := 0 } <;> rfl

theorem matchingPass_respell (ha : AdmissibleNames upper f) (cls : Cls) (o cl : List MPat) (ho : SafePats o = true)
    (hc : SafePats cl = true) : PassComm f (matchingPass upper cls o cl) :=
  fun fuel _ ks => groupMatching_respell ha cls o cl ho hc fuel ks

theorem unknownPass_respell : PassComm f unknownPass := fun _ _ _ => rfl

theorem matchingPassOf_respell (ha : AdmissibleNames upper f) (c : Cls) : PassComm f (matchingPassOf upper c) := by
  unfold matchingPassOf
  cases c <;> simp only [matchingTables] <;>
    first
    | exact unknownPass_respell
    | exact matchingPass_respell ha _ _ _ (by decide) (by decide)

end Sql
