import SqlModel.Grouping
/-!
# SqlProofs.Respell.Basic — leaf-wise re-spelling of a token tree, and the primitives that do not see it

`respell f` maps every leaf `.tok tt v` to `.tok tt (f tt v)` and keeps classes, shape and leaf types.
`Admissible upper f` says which re-spellings the grouping engine cannot observe:

* `kw`     a keyword-typed leaf keeps its `upper` image (`upper` is the normalisation the engine applies to keyword
           values and pattern constants: `kwNorm` at top level);
* `plain`  a leaf that is neither keyword- nor whitespace-typed keeps its value;
* `value`  (forced by `group_functions`, the only place that reads `token.value` of arbitrary children — including
           whitespace leaves and whole groups, whose value is their text): for every node `n`,
           `upper n.value == w` is unchanged for the three words `CREATE`, `TABLE`, `AS` it tests.
           Whitespace-typed leaves are otherwise unconstrained.

Everything here is about a single node or a single list operation; the passes are in the sibling files.
-/
namespace Sql

mutual
/-- re-spell every leaf with `f` (by type and value), keep everything else -/
def respell (f : TType → Text → Text) : Node → Node
  | .tok tt v => .tok tt (f tt v)
  | .grp c ks => .grp c (respellL f ks)
def respellL (f : TType → Text → Text) : List Node → List Node
  | [] => []
  | k :: ks => respell f k :: respellL f ks
end

theorem respellL_eq_map (f : TType → Text → Text) (ks : List Node) : respellL f ks = ks.map (respell f) := by
  induction ks with
  | nil => rfl
  | cons k ks ih => simp [respellL, ih]

@[simp] theorem respell_tok (f : TType → Text → Text) (tt : TType) (v : Text) :
    respell f (.tok tt v) = .tok tt (f tt v) := by simp [respell]

@[simp] theorem respell_grp (f : TType → Text → Text) (c : Cls) (ks : List Node) :
    respell f (.grp c ks) = .grp c (ks.map (respell f)) := by simp [respell, respellL_eq_map]

/-- the words `group_functions` compares `token.value.upper()` with -/
def skipWords : List Text := [txt "CREATE", txt "TABLE", txt "AS"]

structure Admissible (upper : Text → Text) (f : TType → Text → Text) : Prop where
  kw : ∀ tt v, TType.isIn tt T.Keyword = true → upper (f tt v) = upper v
  plain : ∀ tt v, TType.isIn tt T.Keyword = false → TType.isIn tt T.Whitespace = false → f tt v = v
  value : ∀ (n : Node) (w : Text), w ∈ skipWords → (upper (respell f n).value == w) = (upper n.value == w)

/-- the leaf types whose values the engine never reads (outside `group_functions`' `value` test and the `upper`-image of
keywords): every type except the four that occur, with concrete values, in a non-keyword pattern of the generated
tables — `Punctuation`, `Operator` (`->`, `->>`), `Assignment` (`:=`) — or are re-typed by `group_operator`
(`Operator`, `Wildcard`).  Free are in particular whitespace, `Name`, `Name.Builtin`, `Name.Placeholder`, every
`Literal.*` (numbers, `String.Single`, `String.Symbol`), `Operator.Comparison`, comments. -/
def freeTT (tt : TType) : Bool := !(tt == T.Punctuation || tt == T.Operator || tt == T.Wildcard || tt == T.Assignment)

theorem freeTT_false_iff (tt : TType) :
    freeTT tt = false ↔ tt = T.Punctuation ∨ tt = T.Operator ∨ tt = T.Wildcard ∨ tt = T.Assignment := by
  simp only [freeTT, Bool.not_eq_false', Bool.or_eq_true, beq_iff_eq, or_assoc]

/-- like `Admissible`, but the leaves of every free type (names, literals, …) may be re-spelled too: `plain` is only
required of `Punctuation`, `Operator`, `Wildcard` and `Assignment` leaves -/
structure AdmissibleNames (upper : Text → Text) (f : TType → Text → Text) : Prop where
  kw : ∀ tt v, TType.isIn tt T.Keyword = true → upper (f tt v) = upper v
  plain : ∀ tt v, TType.isIn tt T.Keyword = false → freeTT tt = false → f tt v = v
  value : ∀ (n : Node) (w : Text), w ∈ skipWords → (upper (respell f n).value == w) = (upper n.value == w)

theorem Admissible.toNames {upper : Text → Text} {f : TType → Text → Text} (h : Admissible upper f) :
    AdmissibleNames upper f :=
  { kw := h.kw
    plain := fun tt v hk hf => h.plain tt v hk (by
      rcases (freeTT_false_iff tt).1 hf with rfl | rfl | rfl | rfl <;> decide)
    value := h.value }

/-- no pattern of a `match`/`m=` argument has a free non-keyword type together with concrete values (decided for
every generated table at its point of use): such a pattern would read the value of a free leaf -/
def SafePats (ps : List MPat) : Bool := ps.all (fun p => !freeTT p.tt || p.values.isNone || TType.isIn p.tt T.Keyword)

section Prim
variable {upper : Text → Text} {f : TType → Text → Text}

@[simp] theorem respell_isGroup (n : Node) : (respell f n).isGroup = n.isGroup := by cases n <;> simp [Node.isGroup]
@[simp] theorem respell_ttype? (n : Node) : (respell f n).ttype? = n.ttype? := by cases n <;> simp [Node.ttype?]
@[simp] theorem respell_isInst (n : Node) (c : Cls) : (respell f n).isInst c = n.isInst c := by
  cases n <;> simp [Node.isInst]
theorem respell_isInst_fun (n : Node) : (respell f n).isInst = n.isInst := funext (respell_isInst n)
@[simp] theorem respell_isInstAny (n : Node) (cs : List Cls) : (respell f n).isInstAny cs = n.isInstAny cs := by
  simp [Node.isInstAny, respell_isInst_fun]
@[simp] theorem respell_isKeyword (n : Node) : (respell f n).isKeyword = n.isKeyword := by
  cases n <;> simp [Node.isKeyword]
@[simp] theorem respell_isWhitespace (n : Node) : (respell f n).isWhitespace = n.isWhitespace := by
  cases n <;> simp [Node.isWhitespace]
@[simp] theorem respell_isNewline (n : Node) : (respell f n).isNewline = n.isNewline := by
  cases n <;> simp [Node.isNewline]
@[simp] theorem respell_ttIn (n : Node) (tt : TType) : (respell f n).ttIn tt = n.ttIn tt := by
  cases n <;> simp [Node.ttIn]
theorem respell_ttIn_fun (n : Node) : (respell f n).ttIn = n.ttIn := funext (respell_ttIn n)
@[simp] theorem respell_ttEqAny (n : Node) (tts : List TType) : (respell f n).ttEqAny tts = n.ttEqAny tts := by
  cases n <;> simp [Node.ttEqAny]

/-- `Token.match` does not see an admissible re-spelling, for a pattern whose type is not a whitespace type -/
theorem respell_matchP (ha : AdmissibleNames upper f) (n : Node) (p : MPat)
    (hp : (!freeTT p.tt || p.values.isNone || TType.isIn p.tt T.Keyword) = true) :
    (respell f n).matchP upper p = n.matchP upper p := by
  cases n with
  | grp c ks => simp [Node.matchP, Node.match]
  | tok t v =>
    simp only [respell_tok, Node.matchP, Node.match]
    by_cases ht : (t != p.tt) = true
    · simp [ht]
    · have hteq : t = p.tt := by simpa using ht
      simp only [ht]
      cases hv : p.values with
      | none => rfl
      | some vs =>
        simp only
        cases hk : TType.isIn t T.Keyword with
        | true => simp only [if_true]; rw [ha.kw t v hk]
        | false =>
          simp only [Bool.false_eq_true, if_false]
          rw [ha.plain t v hk (by rw [hteq] at hk ⊢; simpa [hv, hk] using hp)]

theorem respell_matchAny (ha : AdmissibleNames upper f) (n : Node) (ps : List MPat) (hp : SafePats ps = true) :
    ps.any ((respell f n).matchP upper) = ps.any (n.matchP upper) := by
  induction ps with
  | nil => rfl
  | cons p ps ih =>
    simp only [SafePats, List.all_cons, Bool.and_eq_true] at hp
    simp only [List.any_cons]
    rw [respell_matchP ha n p hp.1, ih (by simpa [SafePats] using hp.2)]

theorem respell_matchAny' (ha : AdmissibleNames upper f) (n : Node) (ps : List MPat) (hp : SafePats ps = true) :
    (respell f n).matchAny upper ps = n.matchAny upper ps := respell_matchAny ha n ps hp

theorem respell_imt (ha : AdmissibleNames upper f) (n : Node) (i : List Cls) (m : List MPat) (t : TArg)
    (hp : SafePats m = true) : imt upper (respell f n) i m t = imt upper n i m t := by
  unfold imt
  rw [respell_matchAny ha n m hp]
  cases t <;> simp [respell_ttIn_fun]

theorem respell_imtOpt (ha : AdmissibleNames upper f) (o : Option Node) (i : List Cls) (m : List MPat) (t : TArg)
    (hp : SafePats m = true) : imtOpt upper (o.map (respell f)) i m t = imtOpt upper o i m t := by
  cases o with
  | none => rfl
  | some n => exact respell_imt ha n i m t hp

/-- `token.is_keyword and token.normalized == w` -/
theorem respell_kwNormalized (ha : AdmissibleNames upper f) (n : Node) (w : Text) :
    ((respell f n).isKeyword && (respell f n).normalized upper == w) = (n.isKeyword && n.normalized upper == w) := by
  cases n with
  | grp c ks => simp [Node.isKeyword]
  | tok t v =>
    simp only [respell_tok, Node.isKeyword, Node.normalized]
    cases hk : TType.isIn t T.Keyword with
    | true => simp only [if_true, Bool.true_and]; rw [ha.kw t v hk]
    | false => simp

/-- `token.normalized == w or not token.is_keyword` -/
theorem respell_normalizedOrNotKw (ha : AdmissibleNames upper f) (n : Node) (w : Text) :
    ((respell f n).normalized upper == w || !(respell f n).isKeyword) = (n.normalized upper == w || !n.isKeyword) := by
  cases n with
  | grp c ks => simp [Node.isKeyword]
  | tok t v =>
    simp only [respell_tok, Node.isKeyword, Node.normalized]
    cases hk : TType.isIn t T.Keyword with
    | true => simp only [if_true]; rw [ha.kw t v hk]
    | false => simp

end Prim

/-! ## lists: indexing, slices, `group_tokens` -/
section Lists
variable {f : TType → Text → Text}

/-- `(index, node)` results of the navigation helpers under re-spelling -/
def rp (f : TType → Text → Text) (p : Nat × Node) : Nat × Node := (p.1, respell f p.2)

@[simp] theorem rp_fst (p : Nat × Node) : (rp f p).1 = p.1 := rfl
@[simp] theorem rp_snd (p : Nat × Node) : (rp f p).2 = respell f p.2 := rfl

theorem pySlice_map {α β : Type} (g : α → β) (l : List α) (a b : Nat) :
    pySlice (l.map g) a b = (pySlice l a b).map g := by
  simp [pySlice, List.map_drop, List.map_take]

theorem groupTokens'_respell (ks : List Node) (cls : Cls) (s e : Nat) (ie ext : Bool) :
    groupTokens' (ks.map (respell f)) cls s e ie ext =
      (groupTokens' ks cls s e ie ext).map (fun r => (r.1.map (respell f), respell f r.2)) := by
  unfold groupTokens'
  simp only [List.getElem?_map]
  cases hs : ks[s]? with
  | none => rfl
  | some st =>
    cases st with
    | tok t v =>
      simp [Except.map, pySlice_map, List.map_take, List.map_drop]
    | grp c kids =>
      simp only [Option.map_some, respell_grp]
      have hinst : (Node.grp c (kids.map (respell f))).isInst cls = (Node.grp c kids).isInst cls := by
        simp [Node.isInst]
      rw [hinst]
      by_cases hc : (ext && (Node.grp c kids).isInst cls) = true
      · simp [hc, Except.map, pySlice_map, List.map_take, List.map_drop]
      · simp [hc, Except.map, pySlice_map, List.map_take, List.map_drop]

theorem groupTokens_respell (ks : List Node) (cls : Cls) (s e : Nat) (ie ext : Bool) :
    groupTokens (ks.map (respell f)) cls s e ie ext =
      (groupTokens ks cls s e ie ext).map (List.map (respell f)) := by
  unfold groupTokens
  rw [groupTokens'_respell]
  cases groupTokens' ks cls s e ie ext <;> rfl

end Lists

/-! ## navigation -/
section Nav
variable {f : TType → Text → Text}

theorem fwdGo_respell (g g' : Node → Bool) (hg : ∀ k, g (respell f k) = g' k) (stop : Nat) (l : List Node) (i : Nat) :
    tokenMatchingFwd.go g stop (l.map (respell f)) i = (tokenMatchingFwd.go g' stop l i).map (rp f) := by
  induction l generalizing i with
  | nil => rfl
  | cons k l ih =>
    simp only [List.map_cons, tokenMatchingFwd.go, hg]
    by_cases h1 : i ≥ stop
    · simp [h1]
    · simp only [h1, if_false]
      by_cases h2 : g' k = true
      · simp [h2, rp]
      · simp only [h2]; exact ih (i + 1)

theorem tokenMatchingFwd_respell (g g' : Node → Bool) (hg : ∀ k, g (respell f k) = g' k) (ks : List Node)
    (start : Nat) (stop : Option Nat) :
    tokenMatchingFwd (ks.map (respell f)) g start stop = (tokenMatchingFwd ks g' start stop).map (rp f) := by
  unfold tokenMatchingFwd
  simp only [List.length_map, ← List.map_drop]
  exact fwdGo_respell g g' hg _ _ _

theorem revGo_respell (g g' : Node → Bool) (hg : ∀ k, g (respell f k) = g' k) (ks : List Node) (n : Nat) :
    tokenMatchingRev.go (ks.map (respell f)) g n = (tokenMatchingRev.go ks g' n).map (rp f) := by
  induction n with
  | zero => rfl
  | succ n ih =>
    simp only [tokenMatchingRev.go, List.getElem?_map]
    cases hk : ks[n]? with
    | none => simpa using ih
    | some k =>
      simp only [Option.map_some, hg]
      by_cases h2 : g' k = true
      · simp [h2, rp]
      · simp only [h2]; exact ih

theorem tokenMatchingRev_respell (g g' : Node → Bool) (hg : ∀ k, g (respell f k) = g' k) (ks : List Node)
    (start : Nat) :
    tokenMatchingRev (ks.map (respell f)) g start = (tokenMatchingRev ks g' start).map (rp f) :=
  revGo_respell g g' hg ks _

theorem skipMatcher_respell (w m : Bool) (k : Node) : skipMatcher w m (respell f k) = skipMatcher w m k := by
  simp [skipMatcher]

theorem tokenNext_respell (ks : List Node) (idx : Nat) (w m : Bool) :
    tokenNext (ks.map (respell f)) idx w m = (tokenNext ks idx w m).map (rp f) :=
  tokenMatchingFwd_respell _ _ (skipMatcher_respell w m) ks _ _

theorem tokenPrev_respell (ks : List Node) (idx : Nat) (w m : Bool) :
    tokenPrev (ks.map (respell f)) idx w m = (tokenPrev ks idx w m).map (rp f) :=
  tokenMatchingRev_respell _ _ (skipMatcher_respell w m) ks _

theorem tokenNextBy_respell {upper : Text → Text} (ha : AdmissibleNames upper f) (ks : List Node) (i : List Cls)
    (m : List MPat) (t : TArg) (hp : SafePats m = true) (start : Nat) (stop : Option Nat) :
    tokenNextBy upper (ks.map (respell f)) i m t start stop = (tokenNextBy upper ks i m t start stop).map (rp f) :=
  tokenMatchingFwd_respell _ _ (fun k => respell_imt ha k i m t hp) ks _ _

end Nav

/-! ## `Except` plumbing -/

@[simp] theorem Except.map_ok' {ε α β : Type} (g : α → β) (a : α) : Except.map (ε := ε) g (.ok a) = .ok (g a) := rfl
@[simp] theorem Except.map_error' {ε α β : Type} (g : α → β) (e : ε) :
    Except.map (ε := ε) g (.error e : Except ε α) = .error e := rfl

end Sql
