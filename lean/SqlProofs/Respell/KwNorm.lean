import SqlProofs.Respell.Basic
/-!
# SqlProofs.Respell.KwNorm — discharging `Admissible kwNorm f`

`CtxEq upper a b`: `a` and `b` are interchangeable inside any text as far as `upper` can tell.  It is a congruence for
`++`, so a leaf-wise condition lifts to the text of every node — which is what clause `value` of `Admissible` asks for.

For `kwNorm` (`' '.join(value.upper().split())`) two base facts generate the re-spellings property C11 names:
* `ctxEq_of_pyUpper`  texts with the same `str.upper` image (letter case);
* `ctxEq_ws`          two non-empty runs of whitespace characters (amount of whitespace, inside a multi-word keyword or
                      in a whitespace token).
-/
namespace Sql

/-- interchangeable in every context, as seen through `upper` -/
def CtxEq (upper : Text → Text) (a b : Text) : Prop := ∀ l r : Text, upper (l ++ a ++ r) = upper (l ++ b ++ r)

theorem CtxEq.refl (upper : Text → Text) (a : Text) : CtxEq upper a a := fun _ _ => rfl

theorem CtxEq.symm {upper : Text → Text} {a b : Text} (h : CtxEq upper a b) : CtxEq upper b a :=
  fun l r => (h l r).symm

theorem CtxEq.trans {upper : Text → Text} {a b c : Text} (h1 : CtxEq upper a b) (h2 : CtxEq upper b c) :
    CtxEq upper a c := fun l r => (h1 l r).trans (h2 l r)

theorem CtxEq.append {upper : Text → Text} {a a' b b' : Text} (h1 : CtxEq upper a a') (h2 : CtxEq upper b b') :
    CtxEq upper (a ++ b) (a' ++ b') := by
  intro l r
  have e1 := h1 l (b ++ r)
  have e2 := h2 (l ++ a') r
  simp only [List.append_assoc] at e1 e2 ⊢
  exact e1.trans e2

theorem CtxEq.eq {upper : Text → Text} {a b : Text} (h : CtxEq upper a b) : upper a = upper b := by
  simpa using h [] []

mutual
theorem ctxEq_text {upper : Text → Text} {f : TType → Text → Text} (h : ∀ tt v, CtxEq upper (f tt v) v) :
    (n : Node) → CtxEq upper (respell f n).text n.text
  | .tok tt v => by simpa [Node.text] using h tt v
  | .grp c ks => by
    have := ctxEq_textL h ks
    simpa [Node.text, respell, respellL_eq_map] using this
theorem ctxEq_textL {upper : Text → Text} {f : TType → Text → Text} (h : ∀ tt v, CtxEq upper (f tt v) v) :
    (ks : List Node) → CtxEq upper (Node.textL (ks.map (respell f))) (Node.textL ks)
  | [] => CtxEq.refl _ _
  | k :: ks => by
    simp only [List.map_cons, Node.textL]
    exact (ctxEq_text h k).append (ctxEq_textL h ks)
end

/-- **leaf-wise criterion**: every leaf is re-spelled to something contextually equivalent, and leaves that are
neither keywords nor whitespace are left alone -/
theorem admissible_of_ctxEq {upper : Text → Text} {f : TType → Text → Text}
    (h : ∀ tt v, CtxEq upper (f tt v) v)
    (hplain : ∀ tt v, TType.isIn tt T.Keyword = false → TType.isIn tt T.Whitespace = false → f tt v = v) :
    Admissible upper f :=
  { kw := fun tt v _ => (h tt v).eq
    plain := hplain
    value := fun n w _ => by
      have := (ctxEq_text h n).eq
      simp only [Node.value, this] }

/-! ## `kwNorm`: letter case -/

theorem pyUpper_append (a b : Text) : pyUpper (a ++ b) = pyUpper a ++ pyUpper b := by
  simp [pyUpper, upperText, List.flatMap_append]

theorem ctxEq_of_pyUpper {a b : Text} (h : pyUpper a = pyUpper b) : CtxEq kwNorm a b := by
  intro l r
  have : pyUpper (l ++ a ++ r) = pyUpper (l ++ b ++ r) := by simp only [pyUpper_append, h]
  simp only [kwNorm, this]

/-- change the letter case of keyword leaves only (`caseMap` any map that `str.upper` undoes) -/
def caseRespell (caseMap : Text → Text) (tt : TType) (v : Text) : Text :=
  if TType.isIn tt T.Keyword then caseMap v else v

/-- **(a) keyword letter case**: re-casing keyword tokens is admissible -/
theorem admissible_caseRespell (caseMap : Text → Text) (hcm : ∀ v, pyUpper (caseMap v) = pyUpper v) :
    Admissible kwNorm (caseRespell caseMap) :=
  admissible_of_ctxEq
    (fun tt v => by
      unfold caseRespell
      split
      · exact ctxEq_of_pyUpper (hcm v)
      · exact CtxEq.refl _ _)
    (fun tt v hk _ => by simp [caseRespell, hk])

/-- ASCII lower-casing of one code point -/
def asciiLower (c : Nat) : Nat := if 65 ≤ c ∧ c ≤ 90 then c + 32 else c
/-- ASCII upper-casing of one code point -/
def asciiUpper (c : Nat) : Nat := if 97 ≤ c ∧ c ≤ 122 then c - 32 else c

theorem strUpper1_ascii_letters :
    (List.range 26).all (fun i => strUpper1 (97 + i) == [65 + i] && strUpper1 (65 + i) == [65 + i]) = true := by
  decide +kernel

theorem strUpper1_lower (c : Nat) (h1 : 65 ≤ c) (h2 : c ≤ 90) : strUpper1 (c + 32) = strUpper1 c := by
  have := List.all_eq_true.1 strUpper1_ascii_letters (c - 65) (by simp; omega)
  simp only [Bool.and_eq_true, beq_iff_eq] at this
  rw [show 97 + (c - 65) = c + 32 by omega, show 65 + (c - 65) = c by omega] at this
  rw [this.1, this.2]

theorem strUpper1_asciiLower (c : Nat) : strUpper1 (asciiLower c) = strUpper1 c := by
  unfold asciiLower
  split
  · rename_i h; exact strUpper1_lower c h.1 h.2
  · rfl

theorem strUpper1_asciiUpper (c : Nat) : strUpper1 (asciiUpper c) = strUpper1 c := by
  unfold asciiUpper
  split
  · rename_i h
    have := strUpper1_lower (c - 32) (by omega) (by omega)
    rw [show c - 32 + 32 = c by omega] at this
    exact this.symm
  · rfl

theorem pyUpper_map (g : Nat → Nat) (hg : ∀ c, strUpper1 (g c) = strUpper1 c) (v : Text) :
    pyUpper (v.map g) = pyUpper v := by
  induction v with
  | nil => rfl
  | cons c v ih =>
    simp only [pyUpper, upperText, List.map_cons, List.flatMap_cons, hg] at ih ⊢
    rw [ih]

/-- lower-casing, upper-casing, or any per-token mixture of the two, of the ASCII letters of keyword tokens -/
theorem admissible_asciiLower : Admissible kwNorm (caseRespell (List.map asciiLower)) :=
  admissible_caseRespell _ (pyUpper_map _ strUpper1_asciiLower)

theorem admissible_asciiUpper : Admissible kwNorm (caseRespell (List.map asciiUpper)) :=
  admissible_caseRespell _ (pyUpper_map _ strUpper1_asciiUpper)

end Sql
