import SqlProofs.Respell.Driver
/-!
# SqlProofs.Respell.DriverPasses — the `_group` configurations (all but `group_operator`) commute with re-spelling
-/
namespace Sql

variable {upper : Text → Text} {f : TType → Text → Text}

/-- the trivial loop invariant -/
def NoInv : List Node → Nat → DrvSt → Prop := fun _ _ _ => True

/-- a configuration whose closures do not see the re-spelling and whose `post` commutes everywhere -/
theorem cfgComm_of {cfg : DrvCfg} (hm : ∀ k, cfg.isMatch (respell f k) = cfg.isMatch k)
    (hvp : ∀ k, cfg.validPrev (respell f k) = cfg.validPrev k)
    (hvn : ∀ o : Option Node, cfg.validNext (o.map (respell f)) = cfg.validNext o)
    (hpost : ∀ cur t, PostCommAt f cfg cur t) : CfgComm f cfg NoInv :=
  { isMatch := hm, validPrev := hvp, validNext := hvn, init := fun _ => trivial,
    step := fun _ _ _ _ _ _ _ => trivial, post := fun _ _ _ st _ _ _ _ => hpost st.cur _ }

theorem postPrevNext_respell (cur : List Node) (p t : Nat) (n : Option Nat) :
    postPrevNext (cur.map (respell f)) p t n = (postPrevNext cur p t n).map (fun x => (x.1.map (respell f), x.2)) := by
  cases n <;> rfl

theorem postTokNext_respell (cur : List Node) (p t : Nat) (n : Option Nat) :
    postTokNext (cur.map (respell f)) p t n = (postTokNext cur p t n).map (fun x => (x.1.map (respell f), x.2)) := by
  cases n <;> rfl

theorem postPrevTok_respell (cur : List Node) (p t : Nat) (n : Option Nat) :
    postPrevTok (cur.map (respell f)) p t n = (postPrevTok cur p t n).map (fun x => (x.1.map (respell f), x.2)) := rfl

theorem postPeriod_respell (ha : AdmissibleNames upper f) (cur : List Node) (p t : Nat) (n : Option Nat) :
    postPeriod upper (cur.map (respell f)) p t n =
      (postPeriod upper cur p t n).map (fun x => (x.1.map (respell f), x.2)) := by
  cases n with
  | none => rfl
  | some n =>
    simp only [postPeriod, List.getElem?_map]
    cases cur[n]? with
    | none => rfl
    | some nx =>
      simp only [Option.map_some, respell_imt ha nx _ [] _ rfl]
      split <;> rfl

theorem postAssignment_respell (ha : AdmissibleNames upper f) (cur : List Node) (p t : Nat) (n : Option Nat) :
    postAssignment upper (cur.map (respell f)) p t n =
      (postAssignment upper cur p t n).map (fun x => (x.1.map (respell f), x.2)) := by
  cases n with
  | none => rfl
  | some n =>
    simp only [postAssignment, tokenNextBy_respell ha cur [] Gen.group_assignment_post_m_semicolon .none (by decide)]
    cases tokenNextBy upper cur [] Gen.group_assignment_post_m_semicolon .none (n + 1) with
    | none => rfl
    | some r => rfl

theorem isSomeTok_respell (o : Option Node) : isSomeTok (o.map (respell f)) = isSomeTok o := by
  cases o <;> rfl

theorem cfgTypecasts_respell (ha : AdmissibleNames upper f) : CfgComm f (cfgTypecasts upper) NoInv :=
  cfgComm_of (fun k => respell_matchAny' ha k _ (by decide)) (fun _ => rfl) isSomeTok_respell
    (fun cur t p n => postPrevNext_respell cur p t n)

theorem cfgTzcasts_respell (ha : AdmissibleNames upper f) : CfgComm f (cfgTzcasts upper) NoInv :=
  cfgComm_of (fun k => by simp [cfgTzcasts]) (fun _ => rfl)
    (fun o => by
      cases o with
      | none => rfl
      | some t =>
        simp only [cfgTzcasts, Option.map_some, respell_isWhitespace,
          respell_matchAny' ha t Gen.group_tzcasts_match0 (by decide),
          respell_matchAny' ha t Gen.group_tzcasts_match1 (by decide)])
    (fun cur t p n => postPrevNext_respell cur p t n)

theorem cfgTypedLiteral0_respell (ha : AdmissibleNames upper f) : CfgComm f (cfgTypedLiteral0 upper) NoInv :=
  cfgComm_of (fun k => respell_imt ha k [] Gen.group_typed_literal_imt0_m .none (by decide)) (fun _ => rfl)
    (fun o => by
      cases o with
      | none => rfl
      | some t =>
        simp only [cfgTypedLiteral0, Option.map_some,
          respell_matchAny' ha t Gen.group_typed_literal_match0 (by decide)])
    (fun cur t p n => postTokNext_respell cur p t n)

theorem cfgTypedLiteral1_respell (ha : AdmissibleNames upper f) : CfgComm f (cfgTypedLiteral1 upper) NoInv :=
  cfgComm_of (fun k => by simp [cfgTypedLiteral1]) (fun _ => rfl)
    (fun o => by
      cases o with
      | none => rfl
      | some t =>
        simp only [cfgTypedLiteral1, Option.map_some,
          respell_matchAny' ha t Gen.group_typed_literal_match1 (by decide)])
    (fun cur t p n => postTokNext_respell cur p t n)

theorem cfgPeriod_respell (ha : AdmissibleNames upper f) : CfgComm f (cfgPeriod upper) NoInv :=
  cfgComm_of (fun k => respell_matchAny' ha k _ (by decide)) (fun k => respell_imt ha k Gen.group_period_valid_prev_sqlcls [] Gen.group_period_valid_prev_ttypes rfl) (fun _ => rfl)
    (fun cur t p n => postPeriod_respell ha cur p t n)

theorem cfgAs_respell (ha : AdmissibleNames upper f) : CfgComm f (cfgAs upper) NoInv :=
  cfgComm_of (fun k => respell_kwNormalized ha k _) (fun k => respell_normalizedOrNotKw ha k _)
    (fun o => by
      simp only [cfgAs, respell_imtOpt ha o [] [] _ rfl]
      cases o <;> rfl)
    (fun cur t p n => postPrevNext_respell cur p t n)

theorem validAssignment_respell (ha : AdmissibleNames upper f) (o : Option Node) :
    validAssignment upper (o.map (respell f)) = validAssignment upper o := by
  cases o with
  | none => rfl
  | some t => simp only [validAssignment, Option.map_some, respell_imt ha t [] [] _ rfl]

theorem cfgAssignment_respell (ha : AdmissibleNames upper f) : CfgComm f (cfgAssignment upper) NoInv :=
  cfgComm_of (fun k => respell_matchAny' ha k _ (by decide)) (fun k => validAssignment_respell ha (some k))
    (validAssignment_respell ha) (fun cur t p n => postAssignment_respell ha cur p t n)

theorem validComparison_respell (ha : AdmissibleNames upper f) (o : Option Node) :
    validComparison upper (o.map (respell f)) = validComparison upper o := by
  cases o with
  | none => rfl
  | some t =>
    simp only [validComparison, Option.map_some, respell_imt ha t _ [] _ rfl, respell_kwNormalized ha t]

theorem cfgComparison_respell (ha : AdmissibleNames upper f) : CfgComm f (cfgComparison upper) NoInv :=
  cfgComm_of (fun k => by simp [cfgComparison]) (fun k => validComparison_respell ha (some k))
    (validComparison_respell ha) (fun cur t p n => postPrevNext_respell cur p t n)

theorem cfgArrays_respell (ha : AdmissibleNames upper f) : CfgComm f (cfgArrays upper) NoInv :=
  cfgComm_of (fun k => by simp [cfgArrays]) (fun k => respell_imt ha k Gen.group_arrays_sqlcls [] Gen.group_arrays_ttypes rfl) (fun _ => rfl)
    (fun cur t p n => postPrevTok_respell cur p t n)

theorem validIdentifierList_respell (ha : AdmissibleNames upper f) (o : Option Node) :
    validIdentifierList upper (o.map (respell f)) = validIdentifierList upper o :=
  respell_imtOpt ha o _ _ _ (by decide)

theorem cfgIdentifierList_respell (ha : AdmissibleNames upper f) : CfgComm f (cfgIdentifierList upper) NoInv :=
  cfgComm_of (fun k => respell_matchAny' ha k _ (by decide)) (fun k => validIdentifierList_respell ha (some k))
    (validIdentifierList_respell ha) (fun cur t p n => postPrevNext_respell cur p t n)

theorem typedLiteralPass_respell (ha : AdmissibleNames upper f) : PassComm f (typedLiteralPass upper) := by
  intro fuel c ks
  simp only [typedLiteralPass]
  rw [groupDriver_respell fuel (cfgTypedLiteral0_respell ha) ks]
  cases groupDriver (cfgTypedLiteral0 upper) fuel ks with
  | error e => rfl
  | ok ks' => exact groupDriver_respell fuel (cfgTypedLiteral1_respell ha) ks'

end Sql
