import SqlProofs.Respell.Basic
/-!
# SqlProofs.Respell.Lift — recursion into sub-groups commutes with re-spelling
-/
namespace Sql

/-- a function on child lists commutes with re-spelling -/
def KidsComm (f : TType → Text → Text) (F : Cls → List Node → Except PyErr (List Node)) : Prop :=
  ∀ c ks, F c (ks.map (respell f)) = (F c ks).map (List.map (respell f))

/-- a pass commutes with re-spelling, for every fuel and owner class -/
def PassComm (f : TType → Text → Text) (p : Pass) : Prop :=
  ∀ fuel c ks, p fuel c (ks.map (respell f)) = (p fuel c ks).map (List.map (respell f))

variable {f : TType → Text → Text}

theorem mapGroups_respell {elig : Node → Bool} (he : ∀ k, elig (respell f k) = elig k)
    {F : Cls → List Node → Except PyErr (List Node)} (hF : KidsComm f F) (ks : List Node) :
    mapGroups elig F (ks.map (respell f)) = (mapGroups elig F ks).map (List.map (respell f)) := by
  induction ks with
  | nil => rfl
  | cons k rest ih =>
    cases k with
    | tok tt v =>
      simp only [List.map_cons, respell_tok, mapGroups, ih]
      cases mapGroups elig F rest <;> simp
    | grp c kids =>
      have hel := he (.grp c kids)
      simp only [respell_grp] at hel
      simp only [List.map_cons, respell_grp, mapGroups, hel, ih, hF c kids]
      by_cases h : elig (.grp c kids) = true
      · simp only [h, if_true]
        cases F c kids with
        | error e => rfl
        | ok kids' =>
          simp only [Except.map_ok']
          cases mapGroups elig F rest <;> simp
      · simp only [h]
        cases mapGroups elig F rest <;> simp

theorem mapGroupsWhere_respell {F : Cls → List Node → Except PyErr (List Node)} (hF : KidsComm f F)
    (bs : List Bool) (ks : List Node) :
    mapGroupsWhere F bs (ks.map (respell f)) = (mapGroupsWhere F bs ks).map (List.map (respell f)) := by
  induction ks generalizing bs with
  | nil => cases bs <;> rfl
  | cons k rest ih =>
    cases bs with
    | nil => simp [mapGroupsWhere]
    | cons b bs =>
      cases k with
      | tok tt v =>
        simp only [List.map_cons, respell_tok, mapGroupsWhere, ih]
        cases mapGroupsWhere F bs rest <;> simp
      | grp c kids =>
        simp only [List.map_cons, respell_grp, mapGroupsWhere, ih, hF c kids]
        cases b with
        | true =>
          simp only [if_true]
          cases F c kids with
          | error e => rfl
          | ok kids' =>
            simp only [Except.map_ok']
            cases mapGroupsWhere F bs rest <;> simp
        | false =>
          simp only [Bool.false_eq_true, if_false]
          cases mapGroupsWhere F bs rest <;> simp

theorem recursePass_respell {skip : List Cls} {F : Cls → List Node → Except PyErr (List Node)}
    (hF : KidsComm f F) : PassComm f (recursePass skip F) := by
  intro fuel
  induction fuel with
  | zero => intro c ks; rfl
  | succ n ih =>
    intro c ks
    simp only [recursePass]
    rw [mapGroups_respell (fun k => by simp) (fun c ks => ih c ks)]
    cases mapGroups (fun k => !k.isInstAny skip) (recursePass skip F n) ks with
    | error e => rfl
    | ok ks' => simp only [Except.map_ok']; exact hF c ks'

end Sql
