import SqlProofs.Respell.DriverPasses
import SqlProofs.Group.TotalDriverPasses
/-!
# SqlProofs.Respell.Operator — `group_operator` commutes with re-spelling

`post` of `group_operator` re-types `tlist[tidx]` to `Operator`.  Re-typing commutes with re-spelling only for a leaf
whose value the re-spelling leaves alone both under its old and its new type — true for the matched token
(`Operator`/`Wildcard`), false for a keyword or whitespace leaf.  The loop runs over a snapshot while the list shrinks,
so that `tlist[tidx]` *is* the matched token has to be proved: `MatchAligned` — every matching snapshot element that
can be reached from the current one through whitespace sits at its own `tidx` — is a loop invariant (next to the
alignment invariant `AInv2` of `Group/TotalDriver.lean`), because the only stale non-whitespace element after a
grouping is `next_`, which satisfies `valid_next` and therefore does not match.
-/
namespace Sql

variable {upper : Text → Text} {f : TType → Text → Text}

/-- every matching element reachable from the head of the snapshot through whitespace is aligned with `cur` -/
def MatchAligned (cfg : DrvCfg) (snap : List Node) (idx : Nat) (st : DrvSt) : Prop :=
  ∀ j x, (∀ y ∈ snap.take j, y.isWhitespace = true) → snap[j]? = some x → cfg.isMatch x = true →
    st.off ≤ (idx : Int) + (j : Int) ∧ st.cur[((idx : Int) + (j : Int) - st.off).toNat]? = some x

def OpInv (cfg : DrvCfg) (snap : List Node) (idx : Nat) (st : DrvSt) : Prop :=
  AInv2 snap idx st ∧ MatchAligned cfg snap idx st

/-- what the invariant needs of the configuration -/
structure OpCfg (cfg : DrvCfg) : Prop where
  al : PostAl2 cfg
  matchNotWs : ∀ x, cfg.isMatch x = true → x.isWhitespace = false
  matchNotNext : ∀ x, cfg.isMatch x = true → cfg.validNext (some x) = false
  postNext : ∀ cur p t n r, cfg.post cur p t n = .ok r → ∃ n', n = some n' ∧ r.2.2 = n'

theorem tokenNext_not_ws {ks : List Node} {idx n : Nat} {k : Node} (h : tokenNext ks idx = some (n, k)) :
    k.isWhitespace = false := by
  unfold tokenNext at h
  obtain ⟨_, _, h3, _⟩ := tokenMatchingFwd_hit h
  simpa [skipMatcher] using h3

theorem matchAligned_init (cfg : DrvCfg) (ks : List Node) : MatchAligned cfg ks 0 (drvInit ks) := by
  intro j x _ hx _
  simp only [drvInit, Int.natCast_zero, Int.zero_add, Int.sub_zero, Int.toNat_natCast]
  exact ⟨by omega, hx⟩

/-- the state is unchanged but for `reached`, and the visited element is whitespace -/
theorem matchAligned_skip {cfg : DrvCfg} {token : Node} {tl : List Node} {idx : Nat} {st : DrvSt} (r : List Bool)
    (hws : token.isWhitespace = true) (h : MatchAligned cfg (token :: tl) idx st) :
    MatchAligned cfg tl (idx + 1) { st with reached := r } := by
  intro j x hj hx hm
  have := h (j + 1) x (by
    intro y hy
    simp only [List.take_succ_cons, List.mem_cons] at hy
    rcases hy with rfl | hy
    · exact hws
    · exact hj y hy) (by simpa using hx) hm
  simp only
  push_cast at this ⊢
  have e : (idx : Int) + 1 + (j : Int) - st.off = (idx : Int) + ((j : Int) + 1) - st.off := by omega
  rw [e]
  exact ⟨by omega, this.2⟩

theorem drvStep_matchAligned {cfg : DrvCfg} (hc : OpCfg cfg) {st st' : DrvSt} {idx : Nat} {token : Node}
    {tl : List Node} (hinv : AInv2 (token :: tl) idx st) (hma : MatchAligned cfg (token :: tl) idx st)
    (h : drvStep cfg st idx token = .ok st') : MatchAligned cfg tl (idx + 1) st' := by
  obtain ⟨m, hws, hoff, hal, hprev, hrange⟩ := hinv
  cases m with
  | succ k =>
    have htw := hws token (by simp)
    obtain ⟨r, hr⟩ := drvStep_ws (cfg := cfg) (st := st) (idx := idx) htw
    rw [hr] at h
    cases h
    exact matchAligned_skip r htw hma
  | zero =>
    simp only [Int.natCast_zero, Int.add_zero, List.drop_succ_cons, List.drop_zero] at hoff hal
    unfold drvStep at h
    split at h
    · rename_i hneg; omega
    · simp only at h
      have htid : ((((idx : Int) - st.off).toNat : Nat) : Int) = (idx : Int) - st.off := by omega
      generalize ((idx : Int) - st.off).toNat = tidx at h htid hal
      -- later snapshot elements are aligned as long as the list and the offset do not change
      have hsame : ∀ (pv : Option (Nat × Node)) (r : List Bool),
          MatchAligned cfg tl (idx + 1) { st with reached := r, prev := pv } := by
        intro pv r j x _ hx _
        simp only
        have e : (((idx + 1 : Nat) : Int) + (j : Int) - st.off).toNat = tidx + 1 + j := by push_cast; omega
        refine ⟨by push_cast; omega, ?_⟩
        rw [e]
        rw [hal, List.getElem?_drop] at hx
        exact hx
      split at h
      · cases h; exact hsame st.prev _
      · rename_i hnws
        split at h
        · rename_i hmt
          cases hpv : st.prev with
          | none => simp only [hpv] at h; cases h; exact hsame _ _
          | some q =>
            obtain ⟨pidx, prev⟩ := q
            simp only [hpv] at h
            split at h
            · rename_i hv
              simp only [Bool.and_eq_true] at hv
              cases hpost : cfg.post st.cur pidx tidx (Option.map (·.1) (tokenNext st.cur tidx)) with
              | error e => simp [hpost] at h
              | ok r =>
                obtain ⟨n', hn', _⟩ := hc.postNext _ _ _ _ _ hpost
                cases hnx : tokenNext st.cur tidx with
                | none => rw [hnx] at hn'; cases hn'
                | some q2 =>
                  obtain ⟨nidx, next⟩ := q2
                  obtain ⟨hlt, hnext, hbetween⟩ := tokenNext_hit hnx
                  have hnws := tokenNext_not_ws hnx
                  have hvn : cfg.validNext (some next) = true := by simpa [hnx] using hv.2
                  -- every element of `tl` up to `next_` is whitespace or `next_` itself: nothing reachable matches
                  intro j x hj hx hm
                  exfalso
                  have htl : ∀ i, tl[i]? = st.cur[tidx + 1 + i]? := by
                    intro i; rw [hal, List.getElem?_drop]
                  have hxc : st.cur[tidx + 1 + j]? = some x := by rw [← htl]; exact hx
                  by_cases hjk : tidx + 1 + j < nidx
                  · have := hbetween (tidx + 1 + j) x (by omega) hjk hxc
                    rw [hc.matchNotWs x hm] at this; cases this
                  · by_cases hje : tidx + 1 + j = nidx
                    · rw [hje, hnext] at hxc
                      cases hxc
                      rw [hc.matchNotNext _ hm] at hvn; cases hvn
                    · -- `next_` is among the first `j` elements of `tl`, which are all whitespace
                      have hk : tl[nidx - (tidx + 1)]? = some next := by
                        rw [htl]; rw [show tidx + 1 + (nidx - (tidx + 1)) = nidx by omega]; exact hnext
                      have hmem : next ∈ tl.take j := by
                        rw [List.mem_iff_getElem?]
                        refine ⟨nidx - (tidx + 1), ?_⟩
                        rw [List.getElem?_take_of_lt (by omega)]
                        exact hk
                      rw [hj next hmem] at hnws; cases hnws
            · cases h; exact hsame _ _
        · cases h; exact hsame _ _

/-! ### the configuration of `group_operator` -/

theorem operator_isMatch_cases {x : Node} (h : (cfgOperator upper).isMatch x = true) :
    ∃ v, x = .tok ["Operator"] v ∨ x = .tok ["Wildcard"] v := by
  cases x with
  | grp c ks => simp [cfgOperator, imt, Node.isInstAny, Node.ttEqAny, Gen.group_operator_imt0_t] at h
  | tok t v =>
    refine ⟨v, ?_⟩
    simp only [cfgOperator, imt, Node.isInstAny, List.any_nil, Gen.group_operator_imt0_t, Node.ttEqAny,
      Bool.false_or, List.contains_cons, List.contains_nil, Bool.or_false, Bool.or_eq_true, beq_iff_eq] at h
    rcases h with rfl | rfl
    · exact Or.inl rfl
    · exact Or.inr rfl

theorem opCfg_operator (upper : Text → Text) : OpCfg (cfgOperator upper) :=
  { al := postAl2_operator upper
    matchNotWs := fun x h => by
      obtain ⟨v, rfl | rfl⟩ := operator_isMatch_cases h
      · show TType.isIn ["Operator"] T.Whitespace = false; decide
      · show TType.isIn ["Wildcard"] T.Whitespace = false; decide
    matchNotNext := fun x h => by
      obtain ⟨v, rfl | rfl⟩ := operator_isMatch_cases h
      · have h1 : (["Operator"] : TType) != ["Keyword"] := by decide
        simp [cfgOperator, validOperator, imt, Node.isInstAny, Node.isInst, Node.ttEqAny, Node.matchAny, Node.matchP,
          Node.match, Gen.group_operator_ttypes, Gen.group_operator_match0, h1]
      · have h1 : (["Wildcard"] : TType) != ["Keyword"] := by decide
        simp [cfgOperator, validOperator, imt, Node.isInstAny, Node.isInst, Node.ttEqAny, Node.matchAny, Node.matchP,
          Node.match, Gen.group_operator_ttypes, Gen.group_operator_match0, h1]
    postNext := fun cur p t n r h => by
      change postOperator cur p t n = .ok r at h
      unfold postOperator at h
      cases hx : cur[t]? with
      | none => simp [hx] at h
      | some x =>
        simp only [hx] at h
        cases n with
        | none => cases h
        | some n' => cases h; exact ⟨n', rfl, rfl⟩ }

theorem setTType_respell_of_match (ha : AdmissibleNames upper f) {x : Node} (h : (cfgOperator upper).isMatch x = true) :
    respell f (x.setTType Gen.group_operator_ttype_set0) = (respell f x).setTType Gen.group_operator_ttype_set0 := by
  have hop : f ["Operator"] = fun v => v := by
    funext v; exact ha.plain ["Operator"] v (by decide) (by decide)
  obtain ⟨v, rfl | rfl⟩ := operator_isMatch_cases h
  · simp [Node.setTType, Gen.group_operator_ttype_set0, hop]
  · have hw : f ["Wildcard"] v = v := ha.plain ["Wildcard"] v (by decide) (by decide)
    simp [Node.setTType, Gen.group_operator_ttype_set0, hop, hw]

theorem postOperator_respell_at (cur : List Node) (t : Nat)
    (hx : ∀ x, cur[t]? = some x →
      respell f (x.setTType Gen.group_operator_ttype_set0) = (respell f x).setTType Gen.group_operator_ttype_set0) :
    PostCommAt f (cfgOperator upper) cur t := by
  intro p n
  change postOperator (cur.map (respell f)) p t n = (postOperator cur p t n).map _
  simp only [postOperator, List.getElem?_map]
  cases hc : cur[t]? with
  | none => rfl
  | some x =>
    cases n with
    | none => rfl
    | some n' => simp [List.map_set, hx x hc]

theorem cfgOperator_respell (ha : AdmissibleNames upper f) :
    CfgComm f (cfgOperator upper) (OpInv (cfgOperator upper)) :=
  { isMatch := fun k => respell_imt ha k [] [] Gen.group_operator_imt0_t rfl
    validPrev := fun k => by
      simp only [cfgOperator, validOperator, respell_imt ha k Gen.group_operator_sqlcls [] Gen.group_operator_ttypes rfl,
        respell_matchAny' ha k Gen.group_operator_match0 (by decide)]
    validNext := fun o => by
      cases o with
      | none => rfl
      | some k =>
        simp only [cfgOperator, validOperator, Option.map_some,
          respell_imt ha k Gen.group_operator_sqlcls [] Gen.group_operator_ttypes rfl,
          respell_matchAny' ha k Gen.group_operator_match0 (by decide)]
    init := fun ks => ⟨aInv2_init ks, matchAligned_init _ ks⟩
    step := fun token tl idx st st' hi hs =>
      ⟨drvStep_A2 (postAl2_operator upper) hi.1 hs, drvStep_matchAligned (opCfg_operator upper) hi.1 hi.2 hs⟩
    post := fun token tl idx st hi hn _ hm => by
      apply postOperator_respell_at
      intro x hx
      have := hi.2 0 token (by simp) (by simp) hm
      simp only [Int.natCast_zero, Int.add_zero] at this
      rw [this.2] at hx
      cases hx
      exact setTType_respell_of_match ha hm }

end Sql
