import SqlProofs.Respell.KwNorm
/-!
# SqlProofs.Respell.KwNormWs — `kwNorm` does not see the amount of whitespace

`str.split()` (`pySplitWs`, fuel-recursive in the model) is shown equal to a one-pass splitter `splitAux`, for which
replacing one non-empty run of whitespace characters by another, anywhere in a text, visibly changes nothing.
Hence `ctxEq_ws`, and with `CtxEq.append` every re-spelling that changes whitespace runs inside multi-word keywords
or the value of whitespace tokens; `admissible_kwWs` packages the two kinds of leaves.
-/
namespace Sql

/-- emit the pending word, if any -/
def flushWord (cur : Text) (l : List Text) : List Text := if cur.isEmpty then l else cur :: l

/-- one-pass `str.split()`: `cur` is the word being read -/
def splitAux (sp : Cp → Bool) : Text → Text → List Text
  | [], cur => flushWord cur []
  | c :: cs, cur => if sp c then flushWord cur (splitAux sp cs []) else splitAux sp cs (cur ++ [c])

theorem splitAux_takeDrop (sp : Cp → Bool) (v cur : Text) :
    splitAux sp v cur =
      flushWord (cur ++ v.takeWhile (fun c => !sp c)) (splitAux sp (v.dropWhile (fun c => !sp c)) []) := by
  induction v generalizing cur with
  | nil => simp [splitAux, flushWord]
  | cons c cs ih =>
    by_cases h : sp c = true
    · simp [splitAux, h, flushWord]
    · have h' : sp c = false := by simpa using h
      simp only [splitAux, h', Bool.false_eq_true, if_false, List.takeWhile_cons, List.dropWhile_cons, Bool.not_false,
        if_true]
      rw [ih]
      simp

theorem splitAux_dropSpaces (sp : Cp → Bool) (v : Text) : splitAux sp v [] = splitAux sp (v.dropWhile sp) [] := by
  induction v with
  | nil => rfl
  | cons c cs ih =>
    by_cases h : sp c = true
    · simp only [List.dropWhile_cons, h, if_true]
      rw [← ih]
      simp [splitAux, h, flushWord]
    · simp [h]

theorem length_dropWhile_le {α : Type} (p : α → Bool) (l : List α) : (l.dropWhile p).length ≤ l.length := by
  induction l with
  | nil => simp
  | cons a l ih =>
    simp only [List.dropWhile_cons]
    split
    · simp; omega
    · simp

theorem dropWhile_head_false {α : Type} (p : α → Bool) (l : List α) {c : α} {w : List α}
    (h : l.dropWhile p = c :: w) : p c = false := by
  induction l with
  | nil => simp at h
  | cons a l ih =>
    simp only [List.dropWhile_cons] at h
    split at h
    · exact ih h
    · rename_i hp
      cases h
      simpa using hp

/-- `str.split()` of the model, with enough fuel, is the one-pass splitter -/
theorem pySplitWs_eq_splitAux (sp : Cp → Bool) (fuel : Nat) (v : Text) (h : v.length < fuel) :
    pySplitWs sp fuel v = splitAux sp v [] := by
  induction fuel generalizing v with
  | zero => omega
  | succ n ih =>
    rw [splitAux_dropSpaces]
    simp only [pySplitWs]
    have hle := length_dropWhile_le sp v
    cases hw : v.dropWhile sp with
    | nil => simp [splitAux, flushWord]
    | cons c w =>
      simp only
      rw [hw] at hle
      have hc : sp c = false := dropWhile_head_false sp v hw
      rw [splitAux_takeDrop sp (c :: w) []]
      have htw : (c :: w).takeWhile (fun c => !sp c) = c :: w.takeWhile (fun c => !sp c) := by
        simp [hc]
      simp only [flushWord, List.nil_append, htw, List.isEmpty_cons, Bool.false_eq_true, if_false]
      congr 1
      apply ih
      have := length_dropWhile_le (fun c => !sp c) (c :: w)
      have h2 : ((c :: w).dropWhile (fun c => !sp c)).length ≤ w.length := by
        simp only [List.dropWhile_cons, hc, Bool.not_false, if_true]
        exact length_dropWhile_le _ w
      simp only [List.length_cons] at hle
      omega

/-- a non-empty run of spaces ends the pending word and leaves no trace -/
theorem splitAux_spaces (sp : Cp → Bool) (a : Text) (ha : a ≠ []) (hsp : ∀ c ∈ a, sp c = true) (r cur : Text) :
    splitAux sp (a ++ r) cur = flushWord cur (splitAux sp r []) := by
  induction a generalizing cur with
  | nil => exact absurd rfl ha
  | cons s a ih =>
    have hs : sp s = true := hsp s (by simp)
    simp only [List.cons_append, splitAux, hs, if_true]
    cases a with
    | nil => rfl
    | cons s' a' =>
      rw [ih (by simp) (fun c hc => hsp c (by simp [hc])) []]
      simp [flushWord]

theorem splitAux_ws_ctx (sp : Cp → Bool) (a b : Text) (ha : a ≠ []) (hb : b ≠ []) (hsa : ∀ c ∈ a, sp c = true)
    (hsb : ∀ c ∈ b, sp c = true) (l r cur : Text) :
    splitAux sp (l ++ a ++ r) cur = splitAux sp (l ++ b ++ r) cur := by
  induction l generalizing cur with
  | nil =>
    simp only [List.nil_append]
    rw [splitAux_spaces sp a ha hsa, splitAux_spaces sp b hb hsb]
  | cons c l ih =>
    simp only [List.cons_append, splitAux]
    split
    · rw [ih]
    · exact ih _

/-! ### `kwNorm` -/

theorem kwNorm_eq_splitAux (v : Text) : kwNorm v = [32].intercalate (splitAux isSpace (pyUpper v) []) := by
  simp only [kwNorm]
  rw [pySplitWs_eq_splitAux isSpace _ _ (Nat.lt_succ_self _)]

/-- `kwNorm v = kwNorm v'` whenever the upper-cased values split into the same words -/
theorem kwNorm_eq_of_words {v v' : Text}
    (h : splitAux isSpace (pyUpper v) [] = splitAux isSpace (pyUpper v') []) : kwNorm v = kwNorm v' := by
  rw [kwNorm_eq_splitAux, kwNorm_eq_splitAux, h]

theorem kwNorm_eq_of_pySplitWs {v v' : Text}
    (h : pySplitWs isSpace ((pyUpper v).length + 1) (pyUpper v) =
      pySplitWs isSpace ((pyUpper v').length + 1) (pyUpper v')) : kwNorm v = kwNorm v' := by
  simp only [kwNorm, h]

/-- `str.upper` maps every whitespace character to itself -/
theorem strUpper1_spaces :
    Gen.spaceSet.ranges.all (fun r => (List.range (r.2 - r.1 + 1)).all (fun i => strUpper1 (r.1 + i) == [r.1 + i]))
      = true := by decide +kernel

theorem strUpper1_space (c : Nat) (h : isSpace c = true) : strUpper1 c = [c] := by
  simp only [isSpace, CpSet.mem, List.any_eq_true, Bool.and_eq_true, decide_eq_true_eq] at h
  obtain ⟨⟨lo, hi⟩, hr, h1, h2⟩ := h
  have h1' : (lo : Nat) ≤ c := h1
  have h2' : (c : Nat) ≤ hi := h2
  have hmem : c - lo ∈ List.range (hi - lo + 1) := List.mem_range.2 (by omega)
  have := List.all_eq_true.1 (List.all_eq_true.1 strUpper1_spaces (lo, hi) hr) (c - lo) hmem
  simp only [beq_iff_eq] at this
  rwa [show lo + (c - lo) = c by omega] at this

theorem pyUpper_spaces (a : Text) (h : ∀ c ∈ a, isSpace c = true) : pyUpper a = a := by
  induction a with
  | nil => rfl
  | cons c a ih =>
    have := ih (fun d hd => h d (by simp [hd]))
    simp only [pyUpper, upperText, List.flatMap_cons] at this ⊢
    rw [this, strUpper1_space c (h c (by simp))]
    rfl

/-- **two non-empty runs of whitespace characters are interchangeable anywhere** -/
theorem ctxEq_ws {a b : Text} (ha : a ≠ []) (hb : b ≠ []) (hsa : ∀ c ∈ a, isSpace c = true)
    (hsb : ∀ c ∈ b, isSpace c = true) : CtxEq kwNorm a b := by
  intro l r
  rw [kwNorm_eq_splitAux, kwNorm_eq_splitAux]
  simp only [pyUpper_append, pyUpper_spaces a hsa, pyUpper_spaces b hsb]
  rw [splitAux_ws_ctx isSpace a b ha hb hsa hsb]

/-- a multi-word keyword with its inner whitespace run replaced, in any letter case:
`END  IF` ~ `end\tif`, `ORDER BY` ~ `Order\n\nby` -/
theorem ctxEq_twoWords {w1 w1' s s' w2 w2' : Text} (h1 : pyUpper w1 = pyUpper w1') (h2 : pyUpper w2 = pyUpper w2')
    (hs : s ≠ []) (hs' : s' ≠ []) (hsp : ∀ c ∈ s, isSpace c = true) (hsp' : ∀ c ∈ s', isSpace c = true) :
    CtxEq kwNorm (w1 ++ s ++ w2) (w1' ++ s' ++ w2') :=
  ((ctxEq_of_pyUpper h1).append (ctxEq_ws hs hs' hsp hsp')).append (ctxEq_of_pyUpper h2)

/-- re-spell keyword leaves with `kwMap`, whitespace leaves with `wsMap`, nothing else -/
def kwWsRespell (kwMap wsMap : Text → Text) (tt : TType) (v : Text) : Text :=
  if TType.isIn tt T.Keyword then kwMap v else if TType.isIn tt T.Whitespace then wsMap v else v

/-- **(b) whitespace and case together**: any re-spelling of keyword and whitespace leaves by contextually equivalent
values is admissible (use `ctxEq_of_pyUpper`, `ctxEq_ws`, `ctxEq_twoWords`, `CtxEq.append/refl/trans` per value) -/
theorem admissible_kwWs (kwMap wsMap : Text → Text) (hk : ∀ v, CtxEq kwNorm (kwMap v) v)
    (hw : ∀ v, CtxEq kwNorm (wsMap v) v) : Admissible kwNorm (kwWsRespell kwMap wsMap) :=
  admissible_of_ctxEq
    (fun tt v => by
      unfold kwWsRespell
      split
      · exact hk v
      · split
        · exact hw v
        · exact CtxEq.refl _ _)
    (fun tt v hk' hw' => by simp [kwWsRespell, hk', hw'])

/-- whitespace tokens: a non-empty whitespace value may become any other non-empty whitespace value -/
theorem ctxEq_wsMap (wsMap : Text → Text)
    (h : ∀ v, wsMap v = v ∨ (v ≠ [] ∧ wsMap v ≠ [] ∧ (∀ c ∈ v, isSpace c = true) ∧ ∀ c ∈ wsMap v, isSpace c = true)) :
    ∀ v, CtxEq kwNorm (wsMap v) v := by
  intro v
  rcases h v with he | ⟨h1, h2, h3, h4⟩
  · rw [he]; exact CtxEq.refl _ _
  · exact ctxEq_ws h2 h1 h4 h3

end Sql
