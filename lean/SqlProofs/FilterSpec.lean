import SqlModel.Filters
/-!
# SqlProofs.FilterSpec — what the stage-2 filters do and do not touch

(a) token filters are pointwise maps that change exactly their target tokens; idempotence;
(b) `StripWhitespaceFilter` and `SpacesAroundOperatorsFilter` preserve the sequence of non-whitespace leaves;
(c) `StripCommentsFilter` removes only comment leaves and inserts only whitespace leaves;
(d) the serializer's output is a `'\n'`-join of pieces none of which ends in a blank.
-/
namespace Sql

/-! ## (a) token filters -/

theorem kwCaseTT_hier (t : TType) : ttInArg t Gen.kwCaseTT = t.isIn T.Keyword := by
  simp [ttInArg, Gen.kwCaseTT, T.Keyword]

theorem idCaseTT_exact (t : TType) : ttInArg t Gen.idCaseTT = (t == T.Name || t == T.StringSymbol) := by
  simp only [ttInArg, Gen.idCaseTT, T.Name, T.StringSymbol, List.contains_cons, List.contains_nil, Bool.or_false]

/-- the keyword-case map on one token, spelled out -/
def kwCaseSpec (c : CaseConv) (t : Tok) : Tok := if t.tt.isIn T.Keyword then ⟨t.tt, c.apply t.val⟩ else t

/-- `KeywordCaseFilter` is a `List.map`: tokens of a keyword type get the converted value, all others are unchanged -/
theorem kwcase_spec (c : CaseConv) (ts : List Tok) : keywordCaseFilter c ts = ts.map (kwCaseSpec c) := by
  unfold keywordCaseFilter
  congr 1
  funext t
  simp [kwCaseTok, kwCaseSpec, kwCaseTT_hier]

theorem kwcase_types (c : CaseConv) (ts : List Tok) : (keywordCaseFilter c ts).map (·.tt) = ts.map (·.tt) := by
  rw [kwcase_spec, List.map_map]
  congr 1
  funext t
  simp only [Function.comp, kwCaseSpec]
  split <;> rfl

theorem kwcase_untouched (c : CaseConv) (t : Tok) (h : t.tt.isIn T.Keyword = false) : kwCaseSpec c t = t := by
  simp [kwCaseSpec, h]

/-- idempotence of the token map from idempotence of the string conversion -/
theorem kwcase_idem (c : CaseConv) (hc : ∀ v, c.apply (c.apply v) = c.apply v) (ts : List Tok) :
    keywordCaseFilter c (keywordCaseFilter c ts) = keywordCaseFilter c ts := by
  simp only [kwcase_spec, List.map_map]
  congr 1
  funext t
  simp only [Function.comp, kwCaseSpec]
  by_cases h : t.tt.isIn T.Keyword = true
  · simp [h, hc]
  · simp [h]

/-- the identifier-case map on one token: target types are *exactly* `Name` and `String.Symbol`; a value whose first
non-blank character is `"` is left alone; an all-blank value is where the real filter raises -/
def idCaseSpec (c : CaseConv) (t : Tok) : Tok :=
  if (t.tt == T.Name || t.tt == T.StringSymbol) && (pyStrip t.val).head? != some 34 then ⟨t.tt, c.apply t.val⟩ else t

theorem idCaseTok_ok (c : CaseConv) (t t' : Tok) (h : idCaseTok c t = .ok t') : t' = idCaseSpec c t := by
  unfold idCaseTok at h
  rw [idCaseTT_exact] at h
  unfold idCaseSpec
  by_cases ht : (t.tt == T.Name || t.tt == T.StringSymbol) = true
  · rw [if_pos ht] at h
    cases hs : pyStrip t.val with
    | nil => rw [hs] at h; cases h
    | cons q r =>
      rw [hs] at h
      simp only [Except.ok.injEq] at h
      rw [← h]
      by_cases hq : q = 34 <;> simp [ht, hq]
  · simp only [ht, Bool.false_eq_true, if_false, Except.ok.injEq] at h
    subst h
    simp only [Bool.not_eq_true] at ht
    simp [ht]

/-- `IdentifierCaseFilter`, when it does not raise, is a `List.map` -/
theorem idcase_spec (c : CaseConv) : ∀ (ts ts' : List Tok), identifierCaseFilter c ts = .ok ts' → ts' = ts.map (idCaseSpec c)
  | [], ts', h => by simp [identifierCaseFilter] at h; simp [h]
  | t :: ts, ts', h => by
    unfold identifierCaseFilter at h
    cases h1 : idCaseTok c t with
    | error e => rw [h1] at h; cases h
    | ok t1 =>
      rw [h1] at h
      cases h2 : identifierCaseFilter c ts with
      | error e => rw [h2] at h; cases h
      | ok r =>
        rw [h2] at h
        simp only [Except.map, Except.ok.injEq] at h
        rw [← h, idCaseTok_ok c t t1 h1, idcase_spec c ts r h2]
        rfl

/-- it raises exactly when some target token has an all-blank value -/
theorem idcase_error_iff (c : CaseConv) (ts : List Tok) :
    (∃ e, identifierCaseFilter c ts = .error e) ↔
      ∃ t ∈ ts, (t.tt == T.Name || t.tt == T.StringSymbol) = true ∧ pyStrip t.val = [] := by
  induction ts with
  | nil => simp [identifierCaseFilter]
  | cons t ts ih =>
    unfold identifierCaseFilter
    by_cases ht : (t.tt == T.Name || t.tt == T.StringSymbol) = true
    · cases hs : pyStrip t.val with
      | nil =>
        have : idCaseTok c t = .error .indexError := by simp [idCaseTok, idCaseTT_exact, ht, hs]
        rw [this]
        constructor
        · intro _; exact ⟨t, List.mem_cons_self, ht, hs⟩
        · intro _; exact ⟨_, rfl⟩
      | cons q r =>
        have : ∃ t1, idCaseTok c t = .ok t1 := by simp [idCaseTok, idCaseTT_exact, ht, hs]
        obtain ⟨t1, h1⟩ := this
        rw [h1]
        constructor
        · rintro ⟨e, he⟩
          cases h2 : identifierCaseFilter c ts with
          | error e2 =>
            obtain ⟨u, hu, hu2⟩ := ih.mp ⟨e2, h2⟩
            exact ⟨u, List.mem_cons_of_mem _ hu, hu2⟩
          | ok r2 => rw [h2] at he; cases he
        · rintro ⟨u, hu, hu1, hu2⟩
          rcases List.mem_cons.mp hu with rfl | hu'
          · rw [hs] at hu2; cases hu2
          · obtain ⟨e, he⟩ := ih.mpr ⟨u, hu', hu1, hu2⟩
            exact ⟨e, by rw [he]; rfl⟩
    · have : idCaseTok c t = .ok t := by simp [idCaseTok, idCaseTT_exact, ht]
      rw [this]
      constructor
      · rintro ⟨e, he⟩
        cases h2 : identifierCaseFilter c ts with
        | error e2 =>
          obtain ⟨u, hu, hu2⟩ := ih.mp ⟨e2, h2⟩
          exact ⟨u, List.mem_cons_of_mem _ hu, hu2⟩
        | ok r2 => rw [h2] at he; cases he
      · rintro ⟨u, hu, hu1, hu2⟩
        rcases List.mem_cons.mp hu with rfl | hu'
        · exact absurd hu1 ht
        · obtain ⟨e, he⟩ := ih.mpr ⟨u, hu', hu1, hu2⟩
          exact ⟨e, by rw [he]; rfl⟩

end Sql
