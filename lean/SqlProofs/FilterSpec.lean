import SqlModel.Filters
/-!
# SqlProofs.FilterSpec — what the stage-2 filters do and do not touch

(a) token filters are pointwise maps that change exactly their target tokens; idempotence;
(b) `StripWhitespaceFilter` and `SpacesAroundOperatorsFilter` preserve the sequence of non-whitespace leaves;
(c) `StripCommentsFilter` removes only comment leaves and inserts only whitespace leaves;
(d) the serializer's output is a `'\n'`-join of pieces none of which ends in a blank.
-/
namespace Sql

/-! ## (a) token filters -/

theorem kwCaseTT_hier (t : TType) : ttInArg t Gen.kwCaseTT = t.isIn T.Keyword := by
  simp [ttInArg, Gen.kwCaseTT, T.Keyword]

theorem idCaseTT_exact (t : TType) : ttInArg t Gen.idCaseTT = (t == T.Name || t == T.StringSymbol) := by
  simp only [ttInArg, Gen.idCaseTT, T.Name, T.StringSymbol, List.contains_cons, List.contains_nil, Bool.or_false]

/-- the keyword-case map on one token, spelled out -/
def kwCaseSpec (c : CaseConv) (t : Tok) : Tok := if t.tt.isIn T.Keyword then ⟨t.tt, c.apply t.val⟩ else t

/-- `KeywordCaseFilter` is a `List.map`: tokens of a keyword type get the converted value, all others are unchanged -/
theorem kwcase_spec (c : CaseConv) (ts : List Tok) : keywordCaseFilter c ts = ts.map (kwCaseSpec c) := by
  unfold keywordCaseFilter
  congr 1
  funext t
  simp [kwCaseTok, kwCaseSpec, kwCaseTT_hier]

theorem kwcase_types (c : CaseConv) (ts : List Tok) : (keywordCaseFilter c ts).map (·.tt) = ts.map (·.tt) := by
  rw [kwcase_spec, List.map_map]
  congr 1
  funext t
  simp only [Function.comp, kwCaseSpec]
  split <;> rfl

theorem kwcase_untouched (c : CaseConv) (t : Tok) (h : t.tt.isIn T.Keyword = false) : kwCaseSpec c t = t := by
  simp [kwCaseSpec, h]

/-- idempotence of the token map from idempotence of the string conversion -/
theorem kwcase_idem (c : CaseConv) (hc : ∀ v, c.apply (c.apply v) = c.apply v) (ts : List Tok) :
    keywordCaseFilter c (keywordCaseFilter c ts) = keywordCaseFilter c ts := by
  simp only [kwcase_spec, List.map_map]
  congr 1
  funext t
  simp only [Function.comp, kwCaseSpec]
  by_cases h : t.tt.isIn T.Keyword = true
  · simp [h, hc]
  · simp [h]

/-- the identifier-case map on one token: target types are *exactly* `Name` and `String.Symbol`; a value whose first
non-blank character is `"` is left alone; an all-blank value is where the real filter raises -/
def idCaseSpec (c : CaseConv) (t : Tok) : Tok :=
  if (t.tt == T.Name || t.tt == T.StringSymbol) && (pyStrip t.val).head? != some 34 then ⟨t.tt, c.apply t.val⟩ else t

theorem idcase_untouched (c : CaseConv) (t : Tok) (h1 : t.tt ≠ T.Name) (h2 : t.tt ≠ T.StringSymbol) : idCaseSpec c t = t := by
  simp [idCaseSpec, h1, h2]

theorem idcase_types (c : CaseConv) (ts : List Tok) : (ts.map (idCaseSpec c)).map (·.tt) = ts.map (·.tt) := by
  rw [List.map_map]
  congr 1
  funext t
  simp only [Function.comp, idCaseSpec]
  split <;> rfl

theorem idCaseTok_ok (c : CaseConv) (t t' : Tok) (h : idCaseTok c t = .ok t') : t' = idCaseSpec c t := by
  unfold idCaseTok at h
  rw [idCaseTT_exact] at h
  unfold idCaseSpec
  by_cases ht : (t.tt == T.Name || t.tt == T.StringSymbol) = true
  · rw [if_pos ht] at h
    cases hs : pyStrip t.val with
    | nil => rw [hs] at h; cases h
    | cons q r =>
      rw [hs] at h
      simp only [Except.ok.injEq] at h
      rw [← h]
      by_cases hq : q = 34 <;> simp [ht, hq]
  · simp only [ht, Bool.false_eq_true, if_false, Except.ok.injEq] at h
    subst h
    simp only [Bool.not_eq_true] at ht
    simp [ht]

/-- `IdentifierCaseFilter`, when it does not raise, is a `List.map` -/
theorem idcase_spec (c : CaseConv) : ∀ (ts ts' : List Tok), identifierCaseFilter c ts = .ok ts' → ts' = ts.map (idCaseSpec c)
  | [], ts', h => by simp [identifierCaseFilter] at h; simp [h]
  | t :: ts, ts', h => by
    unfold identifierCaseFilter at h
    cases h1 : idCaseTok c t with
    | error e => rw [h1] at h; cases h
    | ok t1 =>
      rw [h1] at h
      cases h2 : identifierCaseFilter c ts with
      | error e => rw [h2] at h; cases h
      | ok r =>
        rw [h2] at h
        simp only [Except.map, Except.ok.injEq] at h
        rw [← h, idCaseTok_ok c t t1 h1, idcase_spec c ts r h2]
        rfl

/-- it raises exactly when some target token has an all-blank value -/
theorem idcase_error_iff (c : CaseConv) (ts : List Tok) :
    (∃ e, identifierCaseFilter c ts = .error e) ↔
      ∃ t ∈ ts, (t.tt == T.Name || t.tt == T.StringSymbol) = true ∧ pyStrip t.val = [] := by
  induction ts with
  | nil => simp [identifierCaseFilter]
  | cons t ts ih =>
    unfold identifierCaseFilter
    by_cases ht : (t.tt == T.Name || t.tt == T.StringSymbol) = true
    · cases hs : pyStrip t.val with
      | nil =>
        have : idCaseTok c t = .error .indexError := by simp [idCaseTok, idCaseTT_exact, ht, hs]
        rw [this]
        constructor
        · intro _; exact ⟨t, List.mem_cons_self, ht, hs⟩
        · intro _; exact ⟨_, rfl⟩
      | cons q r =>
        have : ∃ t1, idCaseTok c t = .ok t1 := by simp [idCaseTok, idCaseTT_exact, ht, hs]
        obtain ⟨t1, h1⟩ := this
        rw [h1]
        constructor
        · rintro ⟨e, he⟩
          cases h2 : identifierCaseFilter c ts with
          | error e2 =>
            obtain ⟨u, hu, hu2⟩ := ih.mp ⟨e2, h2⟩
            exact ⟨u, List.mem_cons_of_mem _ hu, hu2⟩
          | ok r2 => rw [h2] at he; cases he
        · rintro ⟨u, hu, hu1, hu2⟩
          rcases List.mem_cons.mp hu with rfl | hu'
          · rw [hs] at hu2; cases hu2
          · obtain ⟨e, he⟩ := ih.mpr ⟨u, hu', hu1, hu2⟩
            exact ⟨e, by rw [he]; rfl⟩
    · have : idCaseTok c t = .ok t := by simp [idCaseTok, idCaseTT_exact, ht]
      rw [this]
      constructor
      · rintro ⟨e, he⟩
        cases h2 : identifierCaseFilter c ts with
        | error e2 =>
          obtain ⟨u, hu, hu2⟩ := ih.mp ⟨e2, h2⟩
          exact ⟨u, List.mem_cons_of_mem _ hu, hu2⟩
        | ok r2 => rw [h2] at he; cases he
      · rintro ⟨u, hu, hu1, hu2⟩
        rcases List.mem_cons.mp hu with rfl | hu'
        · exact absurd hu1 ht
        · obtain ⟨e, he⟩ := ih.mpr ⟨u, hu', hu1, hu2⟩
          exact ⟨e, by rw [he]; rfl⟩


theorem idcase_map_idem (c : CaseConv) (hc : ∀ v, c.apply (c.apply v) = c.apply v)
    (hq : ∀ v, (pyStrip (c.apply v)).head? = some 34 ↔ (pyStrip v).head? = some 34) (ts : List Tok) :
    (ts.map (idCaseSpec c)).map (idCaseSpec c) = ts.map (idCaseSpec c) := by
  rw [List.map_map]
  congr 1
  funext t
  simp only [Function.comp]
  by_cases h : ((t.tt == T.Name || t.tt == T.StringSymbol) && (pyStrip t.val).head? != some 34) = true
  · have h1 : idCaseSpec c t = ⟨t.tt, c.apply t.val⟩ := by simp only [idCaseSpec, h, if_true]
    rw [h1]
    simp only [Bool.and_eq_true, bne_iff_ne, ne_eq] at h
    have h2 : ((t.tt == T.Name || t.tt == T.StringSymbol) && (pyStrip (c.apply t.val)).head? != some 34) = true := by
      simp only [Bool.and_eq_true, bne_iff_ne, ne_eq]
      exact ⟨h.1, fun hh => h.2 ((hq _).mp hh)⟩
    simp only [idCaseSpec, h2, if_true, hc]
  · have h1 : idCaseSpec c t = t := by simp only [idCaseSpec, h]; rfl
    rw [h1, h1]

/-- `TruncateStringFilter(width, char)` with a `str` char on one token (repo fix 465bc40: one delimiting quote on each side) -/
def truncSpec (w : Int) (ch : Text) (t : Tok) : Tok :=
  if t.tt == T.StringSingle then
    let inner := sliceInner 1 t.val
    if (inner.length : Int) > w then ⟨t.tt, [39] ++ takeInt w inner ++ ch ++ [39]⟩ else t
  else t

theorem truncTok_str (w : Int) (ch : Text) (t : Tok) : truncTok w (.str ch) t = .ok (truncSpec w ch t) := by
  unfold truncTok truncSpec
  by_cases h : t.tt = T.StringSingle
  · simp only [h, bne_self_eq_false, Bool.false_eq_true, if_false, beq_self_eq_true, if_true]
    split <;> rfl
  · simp [h]

theorem truncate_spec (w : Int) (ch : Text) (ts : List Tok) :
    truncateStringFilter w (.str ch) ts = .ok (ts.map (truncSpec w ch)) := by
  induction ts with
  | nil => rfl
  | cons t ts ih => simp [truncateStringFilter, truncTok_str, ih, Except.map]

theorem truncate_untouched (w : Int) (ch : Text) (t : Tok) (h : t.tt ≠ T.StringSingle) : truncSpec w ch t = t := by
  simp [truncSpec, h]

theorem sliceInner_wrap (a : Nat) (q m q' : Text) (hq : q.length = a) (hq' : q'.length = a) :
    sliceInner a (q ++ m ++ q') = m := by
  unfold sliceInner
  have h1 : (q ++ m ++ q').length - a = (q ++ m).length := by simp [hq']; omega
  rw [h1, List.take_left' rfl, List.drop_left' hq]

theorem takeInt_nonneg (w : Int) (hw : 0 ≤ w) (v : Text) : takeInt w v = v.take w.toNat := by
  simp [takeInt, hw]

/-- the truncated value, as a function of the kept part and the marker, is a fixed point -/
theorem truncSpec_wrapped (w : Int) (hw : 1 ≤ w) (ch m : Text) (tt : TType) (htt : tt = T.StringSingle)
    (hm : m.length = w.toNat) :
    truncSpec w ch ⟨tt, [39] ++ m ++ ch ++ [39]⟩ = ⟨tt, [39] ++ m ++ ch ++ [39]⟩ := by
  have hw0 : 0 ≤ w := by omega
  unfold truncSpec
  simp only [htt, beq_self_eq_true, if_true]
  have hs : sliceInner 1 ([39] ++ m ++ ch ++ [39]) = m ++ ch := by
    have := sliceInner_wrap 1 [39] (m ++ ch) [39] rfl rfl
    simpa [List.append_assoc] using this
  rw [hs]
  by_cases hl : ((m ++ ch).length : Int) > w
  · simp only [hl, if_true]
    rw [takeInt_nonneg w hw0, List.take_left' hm]
  · simp only [hl, if_false]

/-- idempotence of the truncation of one token, for a width `≥ 1` (validate_options enforces `≥ 2`); the hypothesis about the opening quote
(as the lexer's string tokens have it) was needed for the two-quote special case removed by fix 465bc40 and is kept for the citing statements -/
theorem truncSpec_idem (w : Int) (hw : 1 ≤ w) (ch : Text) (t : Tok)
    (_hv : t.tt = T.StringSingle → t.val.head? = some 39) :
    truncSpec w ch (truncSpec w ch t) = truncSpec w ch t := by
  have hw0 : 0 ≤ w := by omega
  by_cases htt : t.tt = T.StringSingle
  · obtain ⟨tt, v⟩ := t
    simp only at htt
    by_cases hl : ((sliceInner 1 v).length : Int) > w
    · have h1 : truncSpec w ch ⟨tt, v⟩ = ⟨tt, [39] ++ (sliceInner 1 v).take w.toNat ++ ch ++ [39]⟩ := by
        simp only [truncSpec, htt, beq_self_eq_true, if_true]
        rw [if_pos hl, takeInt_nonneg w hw0]
      rw [h1]
      apply truncSpec_wrapped w hw ch _ tt htt
      rw [List.length_take]; omega
    · have h1 : truncSpec w ch ⟨tt, v⟩ = ⟨tt, v⟩ := by
        simp only [truncSpec, htt, beq_self_eq_true, if_true]
        rw [if_neg hl]
      rw [h1, h1]
  · have h1 : truncSpec w ch t = t := by simp [truncSpec, htt]
    rw [h1, h1]

/-- idempotence of `TruncateStringFilter` as a token map -/
theorem truncate_idem (w : Int) (hw : 1 ≤ w) (ch : Text) (ts : List Tok)
    (hv : ∀ t ∈ ts, t.tt = T.StringSingle → t.val.head? = some 39) :
    (ts.map (truncSpec w ch)).map (truncSpec w ch) = ts.map (truncSpec w ch) := by
  rw [List.map_map]
  apply List.map_congr_left
  intro t ht
  exact truncSpec_idem w hw ch t (hv t ht)


/-! ## (d) serializer -/

theorem dropWhile_head_not {α : Type} (p : α → Bool) : ∀ (l : List α) (a : α), (l.dropWhile p).head? = some a → p a = false
  | [], a, h => by simp at h
  | x :: xs, a, h => by
    by_cases hx : p x = true
    · rw [List.dropWhile_cons_of_pos hx] at h
      exact dropWhile_head_not p xs a h
    · rw [List.dropWhile_cons_of_neg hx] at h
      simp only [List.head?_cons, Option.some.injEq] at h
      subst h
      simpa using hx

/-- `str.rstrip()` leaves no trailing whitespace character -/
theorem pyRStrip_last (v : Text) (c : Cp) (h : (pyRStrip v).getLast? = some c) : isSpace c = false := by
  unfold pyRStrip at h
  rw [List.getLast?_reverse] at h
  exact dropWhile_head_not isSpace _ c h

/-- the serializer's output is the `'\n'`-join of pieces none of which ends in a whitespace character
(`'\n'.join(line.rstrip() for line in lines)`) -/
theorem serializer_no_trailing_blank (t : Text) :
    ∃ ls : List Text, serializeText t = joinNl ls ∧ ∀ l ∈ ls, ∀ c, l.getLast? = some c → isSpace c = false := by
  refine ⟨(splitUnquotedNewlines t).map pyRStrip, rfl, ?_⟩
  intro l hl c hc
  obtain ⟨v, _, rfl⟩ := List.mem_map.mp hl
  exact pyRStrip_last v c hc


/-! ## (b) whitespace filters preserve the significant leaves -/

namespace FNode
mutual
/-- the leaves of a node as `(type, value)` pairs, in order (`list(node.flatten())`) -/
def leaves : FNode → List Tok
  | .tok tt v => [⟨tt, v⟩]
  | .grp _ _ ks => leavesL ks
def leavesL : List FNode → List Tok
  | [] => []
  | k :: ks => k.leaves ++ leavesL ks
end
end FNode

open FNode (leaves leavesL)

/-- the leaves that are not whitespace-typed -/
def sigToks (ts : List Tok) : List Tok := ts.filter fun t => !t.tt.isIn T.Whitespace

def sigL (ks : List FNode) : List Tok := sigToks (leavesL ks)

theorem sigToks_append (a b : List Tok) : sigToks (a ++ b) = sigToks a ++ sigToks b := by
  simp [sigToks]

theorem fleavesL_append : ∀ (a b : List FNode), leavesL (a ++ b) = leavesL a ++ leavesL b
  | [], b => rfl
  | k :: a, b => by simp [leavesL, fleavesL_append a b]

theorem sigL_nil : sigL [] = [] := rfl

theorem sigL_cons (k : FNode) (ks : List FNode) : sigL (k :: ks) = sigToks k.leaves ++ sigL ks := by
  simp [sigL, leavesL, sigToks_append]

theorem sigL_append (a b : List FNode) : sigL (a ++ b) = sigL a ++ sigL b := by
  simp [sigL, fleavesL_append, sigToks_append]

theorem sig_ws (k : FNode) (h : k.isWhitespace = true) : sigToks k.leaves = [] := by
  cases k with
  | tok tt v => simp [FNode.isWhitespace] at h; simp [leaves, sigToks, h]
  | grp c cv ks => simp [FNode.isWhitespace] at h

theorem sig_wsTok : sigToks wsTok.leaves = [] := by
  simp [wsTok, leaves, sigToks, T.Whitespace, TType.isIn]

theorem sigL_all_ws : ∀ (l : List FNode), (∀ k ∈ l, k.isWhitespace = true) → sigL l = []
  | [], _ => rfl
  | k :: l, h => by
    rw [sigL_cons, sig_ws k (h k List.mem_cons_self), sigL_all_ws l (fun x hx => h x (List.mem_cons_of_mem _ hx))]
    rfl

theorem sigL_dropWhile_ws : ∀ (l : List FNode), sigL (l.dropWhile FNode.isWhitespace) = sigL l
  | [] => rfl
  | k :: l => by
    by_cases h : k.isWhitespace = true
    · rw [List.dropWhile_cons_of_pos h, sigL_dropWhile_ws l, sigL_cons, sig_ws k h]; rfl
    · rw [List.dropWhile_cons_of_neg h]

theorem mem_takeWhile_sat {α : Type} (p : α → Bool) : ∀ (l : List α) (a : α), a ∈ l.takeWhile p → p a = true
  | [], a, h => by simp at h
  | x :: xs, a, h => by
    by_cases hx : p x = true
    · rw [List.takeWhile_cons_of_pos hx] at h
      rcases List.mem_cons.mp h with rfl | h'
      · exact hx
      · exact mem_takeWhile_sat p xs a h'
    · rw [List.takeWhile_cons_of_neg hx] at h
      simp at h

theorem sigL_dropTrailingWs (l : List FNode) : sigL (dropTrailingWs l) = sigL l := by
  unfold dropTrailingWs
  have h := List.takeWhile_append_dropWhile (p := FNode.isWhitespace) (l := l.reverse)
  have h2 : l = (l.reverse.dropWhile FNode.isWhitespace).reverse ++ (l.reverse.takeWhile FNode.isWhitespace).reverse := by
    have := congrArg List.reverse h
    simp only [List.reverse_append, List.reverse_reverse] at this
    exact this.symm
  conv => rhs; rw [h2]
  rw [sigL_append]
  have : sigL (l.reverse.takeWhile FNode.isWhitespace).reverse = [] := by
    apply sigL_all_ws
    intro k hk
    have hk' := List.mem_reverse.mp hk
    exact mem_takeWhile_sat FNode.isWhitespace _ k hk'
  rw [this, List.append_nil]

mutual
/-- the generic step: a bottom-up filter whose level function preserves the significant leaves of the child list
preserves the significant leaves of the tree -/
theorem sig_bottomUp (f : Nat → Cls → List FNode → Except PyErr (List FNode))
    (hf : ∀ d c ks ks', f d c ks = .ok ks' → sigL ks' = sigL ks) : ∀ (n : FNode) (fuel depth : Nat) (n' : FNode),
    bottomUp f fuel depth n = .ok n' → sigToks n'.leaves = sigToks n.leaves
  | .tok tt v, fuel, depth, n', h => by
    unfold bottomUp at h
    simp only [Except.ok.injEq] at h
    rw [← h]
  | .grp c cv ks, fuel, depth, n', h => by
    unfold bottomUp at h
    cases fuel with
    | zero => simp at h
    | succ fuel' =>
      simp only at h
      cases hk : bottomUpL f fuel' (depth + 1) ks with
      | error e => rw [hk] at h; cases h
      | ok ks' =>
        rw [hk] at h
        simp only at h
        cases hf2 : f depth c ks' with
        | error e => rw [hf2] at h; cases h
        | ok ks'' =>
          rw [hf2] at h
          simp only [Except.ok.injEq] at h
          rw [← h]
          show sigL ks'' = sigL ks
          rw [hf depth c ks' ks'' hf2, sig_bottomUpL f hf ks fuel' (depth + 1) ks' hk]
theorem sig_bottomUpL (f : Nat → Cls → List FNode → Except PyErr (List FNode))
    (hf : ∀ d c ks ks', f d c ks = .ok ks' → sigL ks' = sigL ks) : ∀ (ns : List FNode) (fuel depth : Nat) (ns' : List FNode),
    bottomUpL f fuel depth ns = .ok ns' → sigL ns' = sigL ns
  | [], fuel, depth, ns', h => by
    unfold bottomUpL at h
    simp only [Except.ok.injEq] at h
    rw [← h]
  | k :: rest, fuel, depth, ns', h => by
    unfold bottomUpL at h
    cases hk : bottomUp f fuel depth k with
    | error e => rw [hk] at h; cases h
    | ok k' =>
      rw [hk] at h
      simp only at h
      cases hr : bottomUpL f fuel depth rest with
      | error e => rw [hr] at h; cases h
      | ok rest' =>
        rw [hr] at h
        simp only [Except.ok.injEq] at h
        rw [← h, sigL_cons, sigL_cons, sig_bottomUp f hf k fuel depth k' hk, sig_bottomUpL f hf rest fuel depth rest' hr]
end


theorem sigL_singleton (k : FNode) : sigL [k] = sigToks k.leaves := by
  simp [sigL, leavesL]

theorem sigL_ifws (b : Bool) : sigL (if b = true then [wsTok] else []) = [] := by
  cases b <;> simp [sigL_singleton, sig_wsTok, sigL_nil]

theorem sigL_spacesGo : ∀ (ks : List FNode) (prev : Option FNode), sigL (spacesGo prev ks) = sigL ks
  | [], prev => rfl
  | k :: rest, prev => by
    unfold spacesGo
    by_cases h2 : isSpaceOp k = true
    · rw [if_pos h2, sigL_append, sigL_ifws, sigL_cons, sigL_cons]
      cases needsBlank rest.head? with
      | true => rw [if_pos rfl, sigL_cons, sig_wsTok, sigL_spacesGo rest]; rfl
      | false => simp only [Bool.false_eq_true, if_false]; rw [sigL_spacesGo rest]; rfl
    · rw [if_neg h2, sigL_cons, sigL_cons, sigL_spacesGo rest]

/-- `SpacesAroundOperatorsFilter` preserves the sequence of non-whitespace leaves (type and value) -/
theorem spaces_preserves_sig (fuel : Nat) (n n' : FNode) (h : spacesAroundOperators fuel n = .ok n') :
    sigToks n'.leaves = sigToks n.leaves := by
  unfold spacesAroundOperators at h
  refine sig_bottomUp _ ?_ n fuel 0 n' h
  intro d c ks ks' hk
  simp only [Except.ok.injEq] at hk
  rw [← hk]
  exact sigL_spacesGo ks none

theorem sigL_stripwsDefaultGo : ∀ (ks : List FNode) (a b : Bool), sigL (stripwsDefaultGo a b ks) = sigL ks
  | [], a, b => rfl
  | k :: rest, a, b => by
    unfold stripwsDefaultGo
    rw [sigL_cons, sigL_cons, sigL_stripwsDefaultGo rest]
    congr 1
    cases k with
    | tok tt v =>
      by_cases h : tt.isIn T.Whitespace = true
      · simp [h, leaves, sigToks]
      · simp only [h]
        rfl
    | grp c cv ks => rfl

theorem sigL_dropWsBeforeComma : ∀ (ks : List FNode), sigL (dropWsBeforeComma ks) = sigL ks
  | [] => rfl
  | a :: rest => by
    unfold dropWsBeforeComma
    have key : ∀ (c : Bool), (c = true → a.isWhitespace = true) →
        sigL (if c = true then dropWsBeforeComma rest else a :: dropWsBeforeComma rest) = sigL (a :: rest) := by
      intro c hc
      cases c with
      | true =>
        rw [if_pos rfl, sigL_dropWsBeforeComma rest, sigL_cons, sig_ws a (hc rfl)]
        rfl
      | false =>
        simp only [Bool.false_eq_true, if_false]
        rw [sigL_cons, sigL_cons, sigL_dropWsBeforeComma rest]
    exact key _ (by intro h; simp only [Bool.and_eq_true] at h; exact h.1)

theorem sigL_popTrailingWs (ks : List FNode) : sigL (popTrailingWs ks) = sigL ks := by
  unfold popTrailingWs
  cases hl : ks.getLast? with
  | none => rfl
  | some l =>
    simp only
    by_cases hw : l.isWhitespace = true
    · rw [if_pos hw]
      obtain ⟨ys, hys⟩ := List.getLast?_eq_some_iff.mp hl
      have hd : ks.dropLast = ys := by rw [hys]; simp
      rw [hd]
      conv => rhs; rw [hys]
      rw [sigL_append, sigL_singleton, sig_ws l hw, List.append_nil]
    · rw [if_neg hw]


theorem sigL_stripwsDefault (ks : List FNode) : sigL (stripwsDefault ks) = sigL ks := sigL_stripwsDefaultGo ks false true

/-! ### deleting elements that satisfy `p` (the two guarded loops of `_stripws_parenthesis` only do that) -/

/-- `l'` arises from `l` by deleting some elements that satisfy `p` -/
inductive Del {α : Type} (p : α → Bool) : List α → List α → Prop
  | nil : Del p [] []
  | keep {x : α} {l' l : List α} : Del p l' l → Del p (x :: l') (x :: l)
  | drop {x : α} {l' l : List α} : p x = true → Del p l' l → Del p l' (x :: l)

theorem Del.refl {α : Type} (p : α → Bool) : ∀ (l : List α), Del p l l
  | [] => .nil
  | _ :: l => .keep (Del.refl p l)

theorem Del.append {α : Type} {p : α → Bool} {a' a b' b : List α} (ha : Del p a' a) (hb : Del p b' b) :
    Del p (a' ++ b') (a ++ b) := by
  induction ha with
  | nil => exact hb
  | keep _ ih => exact .keep ih
  | drop hx _ ih => exact .drop hx ih

theorem Del.reverse {α : Type} {p : α → Bool} {l' l : List α} (h : Del p l' l) : Del p l'.reverse l.reverse := by
  induction h with
  | nil => exact .nil
  | keep _ ih => simp only [List.reverse_cons]; exact Del.append ih (.keep .nil)
  | drop hx _ ih =>
    simp only [List.reverse_cons]
    have := Del.append ih (Del.drop hx Del.nil)
    simpa using this

theorem Del.trans {α : Type} {p : α → Bool} {a b c : List α} (h1 : Del p a b) (h2 : Del p b c) : Del p a c := by
  induction h2 generalizing a with
  | nil => exact h1
  | keep _ ih =>
    cases h1 with
    | keep h => exact .keep (ih h)
    | drop hx h => exact .drop hx (ih h)
  | drop hx _ ih => exact .drop hx (ih h1)

theorem Del.mem {α : Type} {p : α → Bool} {l' l : List α} (h : Del p l' l) : ∀ x ∈ l', x ∈ l := by
  induction h with
  | nil => intro x hx; exact hx
  | keep _ ih =>
    intro x hx
    rcases List.mem_cons.mp hx with rfl | h2
    · exact List.mem_cons_self
    · exact List.mem_cons_of_mem _ (ih x h2)
  | drop _ _ ih => intro x hx; exact List.mem_cons_of_mem _ (ih x hx)

theorem popLeadBy_del {α : Type} (p : α → Bool) : ∀ (l : List α), Del p (popLeadBy p l) l
  | [] => .nil
  | [b] => by simp only [popLeadBy]; exact Del.refl p _
  | b :: c :: r => by
    simp only [popLeadBy]
    split
    · rename_i hb; exact .drop hb (popLeadBy_del p (c :: r))
    · exact Del.refl p _

theorem trimAfterFirstBy_del {α : Type} (p : α → Bool) (l : List α) : Del p (trimAfterFirstBy p l) l := by
  cases l with
  | nil => exact .nil
  | cons a tl => exact .keep (popLeadBy_del p tl)

theorem trimBeforeLastBy_del {α : Type} (p : α → Bool) (l : List α) : Del p (trimBeforeLastBy p l) l := by
  unfold trimBeforeLastBy
  have := (trimAfterFirstBy_del p l.reverse).reverse
  simpa using this

theorem trimInsideBy_del {α : Type} (p : α → Bool) (l : List α) : Del p (trimInsideBy p l) l :=
  (trimBeforeLastBy_del p _).trans (trimAfterFirstBy_del p l)


theorem sigL_of_del {l' l : List FNode} (h : Del FNode.isWhitespace l' l) : sigL l' = sigL l := by
  induction h with
  | nil => rfl
  | keep _ ih => rw [sigL_cons, sigL_cons, ih]
  | drop hx _ ih => rw [sigL_cons, sig_ws _ hx, ih]; rfl

/-- what `trimPenGroup` does when it succeeds: nothing, or it trims the trailing whitespace of the last-but-one child's children -/
theorem trimPenGroup_ok (l l3 : List FNode) (h : trimPenGroup l = .ok l3) :
    l3 = l ∨ ∃ (revInit : List FNode) (last : FNode) (c : Cls) (cv : Text) (gks : List FNode) (g0 : FNode) (grest : List FNode),
      l = revInit.reverse ++ [.grp c cv gks, last] ∧
      dropTrailingWs gks = g0 :: grest ∧ l3 = revInit.reverse ++ [.grp c cv (g0 :: grest), last] := by
  unfold trimPenGroup at h
  split at h
  · rename_i last c cv gks revInit hr
    split at h
    · cases h
    · rename_i g0 grest hg
      simp only [Except.ok.injEq] at h
      right
      refine ⟨revInit, last, c, cv, gks, g0, grest, ?_, hg, h.symm⟩
      have := congrArg List.reverse hr
      simpa using this
  · simp only [Except.ok.injEq] at h
    exact Or.inl h.symm

theorem sigL_trimPenGroup (l l3 : List FNode) (h : trimPenGroup l = .ok l3) : sigL l3 = sigL l := by
  rcases trimPenGroup_ok l l3 h with rfl | ⟨revInit, last, c, cv, gks, g0, grest, hl, hg, hl3⟩
  · rfl
  · have hg' : sigToks (FNode.grp c cv (g0 :: grest)).leaves = sigToks (FNode.grp c cv gks).leaves := by
      show sigL (g0 :: grest) = sigL gks
      rw [← hg, sigL_dropTrailingWs]
    rw [hl, hl3, sigL_append, sigL_append, sigL_cons, sigL_cons (FNode.grp c cv gks), hg']

theorem sigL_stripwsParenthesis (ks ks' : List FNode) (h : stripwsParenthesis ks = .ok ks') : sigL ks' = sigL ks := by
  unfold stripwsParenthesis at h
  split at h
  · cases h
  · rename_i l hl
    simp only [Except.ok.injEq] at h
    rw [← h, sigL_stripwsDefault, sigL_trimPenGroup _ _ hl, sigL_of_del (trimInsideBy_del _ ks)]

theorem sigL_stripwsLevel (d : Nat) (c : Cls) (ks ks' : List FNode) (h : stripwsLevel d c ks = .ok ks') : sigL ks' = sigL ks := by
  unfold stripwsLevel at h
  cases hd : stripwsDispatch c ks with
  | error e => rw [hd] at h; cases h
  | ok ks1 =>
    rw [hd] at h
    simp only [Except.ok.injEq] at h
    have h1 : sigL ks1 = sigL ks := by
      unfold stripwsDispatch at hd
      split at hd
      · simp only [Except.ok.injEq] at hd
        rw [← hd]; unfold stripwsIdentifierList; rw [sigL_stripwsDefault, sigL_dropWsBeforeComma]
      · exact sigL_stripwsParenthesis ks ks1 hd
      · simp only [Except.ok.injEq] at hd
        rw [← hd, sigL_stripwsDefault]
    rw [← h]
    split
    · rw [sigL_popTrailingWs, h1]
    · exact h1

/-- `StripWhitespaceFilter` preserves the sequence of non-whitespace leaves (type and value) -/
theorem stripWhitespace_preserves_sig (fuel : Nat) (n n' : FNode) (h : stripWhitespace fuel n = .ok n') :
    sigToks n'.leaves = sigToks n.leaves :=
  sig_bottomUp stripwsLevel sigL_stripwsLevel n fuel 0 n' h


/-! ## (c) `StripCommentsFilter` removes only comment leaves and inserts only whitespace leaves -/

/-- leaves that are neither whitespace- nor comment-typed -/
def ncToks (ts : List Tok) : List Tok := ts.filter fun t => !t.tt.isIn T.Whitespace && !t.tt.isIn T.Comment

def ncL (ks : List FNode) : List Tok := ncToks (leavesL ks)

theorem ncToks_append (a b : List Tok) : ncToks (a ++ b) = ncToks a ++ ncToks b := by simp [ncToks]
theorem ncL_cons (k : FNode) (ks : List FNode) : ncL (k :: ks) = ncToks k.leaves ++ ncL ks := by
  simp [ncL, leavesL, ncToks_append]
theorem ncL_append (a b : List FNode) : ncL (a ++ b) = ncL a ++ ncL b := by
  simp [ncL, fleavesL_append, ncToks_append]
theorem ncL_singleton (k : FNode) : ncL [k] = ncToks k.leaves := by simp [ncL, leavesL]

mutual
/-- every `sql.Comment` group consists of comment and whitespace leaves only (what `group_comments` builds) -/
def commentsPure : FNode → Bool
  | .tok .. => true
  | .grp c _ ks => commentsPureL ks && (c != .Comment || (leavesL ks).all fun t => t.tt.isIn T.Whitespace || t.tt.isIn T.Comment)
def commentsPureL : List FNode → Bool
  | [] => true
  | k :: ks => commentsPure k && commentsPureL ks
end

theorem ncToks_of_all (ts : List Tok) (h : ts.all (fun t => t.tt.isIn T.Whitespace || t.tt.isIn T.Comment) = true) : ncToks ts = [] := by
  induction ts with
  | nil => rfl
  | cons t ts ih =>
    simp only [List.all_cons, Bool.and_eq_true] at h
    have ht : (!t.tt.isIn T.Whitespace && !t.tt.isIn T.Comment) = false := by
      rcases Bool.or_eq_true _ _ |>.mp h.1 with h1 | h1 <;> simp [h1]
    simp only [ncToks, List.filter_cons, ht]
    exact ih h.2

theorem insertTokenFor_nc (v : Text) : ncToks (insertTokenFor v).leaves = [] := by
  cases h : reSearch (reEnv v.toArray) Gen.insertRe 0 with
  | none => simp only [insertTokenFor, h]; rfl
  | some p => simp only [insertTokenFor, h]; rfl

theorem ncL_ite (c : Bool) (A B : List FNode) (R : List Tok) (hA : ncL A = R) (hB : ncL B = R) :
    ncL (if c = true then A else B) = R := by
  cases c <;> simp [hA, hB]

/-- a node the filter may delete contributes nothing outside comments and whitespace -/
def Removable (k : FNode) : Prop := isCommentNode k = true → ncToks k.leaves = []

theorem ncL_stripCommentsGo : ∀ (n : Nat) (ks done : List FNode), ks.length ≤ n → (∀ k ∈ ks, Removable k) →
    ncL (stripCommentsGo done ks) = ncL done.reverse ++ ncL ks
  | _, [], done, _, _ => by simp [stripCommentsGo, ncL, leavesL, ncToks]
  | 0, k :: rest, done, hn, _ => by simp at hn
  | n+1, k :: rest, done, hn, hr => by
    have hn' : rest.length ≤ n := by simpa using hn
    have hrest : ∀ x ∈ rest, Removable x := fun x hx => hr x (List.mem_cons_of_mem _ hx)
    unfold stripCommentsGo
    by_cases h1 : (!isCommentNode k || isSqlHint k) = true
    · rw [if_pos h1, ncL_stripCommentsGo n rest (k :: done) hn' hrest, List.reverse_cons, ncL_append, ncL_singleton, ncL_cons,
        List.append_assoc]
    · rw [if_neg h1]
      have hk : ncToks k.leaves = [] := by
        apply hr k List.mem_cons_self
        simp only [Bool.or_eq_true, Bool.not_eq_true', not_or, Bool.not_eq_false] at h1
        exact h1.1
      apply ncL_ite
      · rw [ncL_stripCommentsGo n rest _ hn' hrest, List.reverse_cons, ncL_append, ncL_singleton, insertTokenFor_nc, ncL_cons, hk]
        simp
      · cases rest with
        | nil =>
          show ncL done.reverse = _
          rw [ncL_singleton, hk, List.append_nil]
        | cons x rest' =>
          simp only
          have hn'' : rest'.length ≤ n := by simp at hn'; omega
          rw [ncL_stripCommentsGo n rest' (x :: done) hn'' (fun y hy => hrest y (List.mem_cons_of_mem _ hy)),
            List.reverse_cons, ncL_append, ncL_singleton, ncL_cons, ncL_cons, hk]
          simp

theorem ncL_stripCommentsLevel (ks : List FNode) (h : ∀ k ∈ ks, Removable k) : ncL (stripCommentsLevel ks) = ncL ks := by
  unfold stripCommentsLevel
  rw [ncL_stripCommentsGo ks.length ks [] (Nat.le_refl _) h]
  simp [ncL, leavesL, ncToks]


theorem pure_comment_nc (k : FNode) (hp : commentsPure k = true) (hc : isCommentNode k = true) : ncToks k.leaves = [] := by
  cases k with
  | tok tt v =>
    simp only [isCommentNode, FNode.isInst, FNode.ttIn, Bool.false_or] at hc
    simp [leaves, ncToks, hc]
  | grp c cv ks =>
    simp only [isCommentNode, FNode.isInst, FNode.ttIn, Bool.or_false] at hc
    have hcc : c = .Comment := by
      rcases Bool.or_eq_true _ _ |>.mp hc with h | h
      · simp at h
      · simpa using h
    subst hcc
    unfold commentsPure at hp
    simp only [bne_self_eq_false, Bool.false_or, Bool.and_eq_true] at hp
    exact ncToks_of_all _ hp.2

/-- the level function of `StripCommentsFilter` as given to `bottomUp` -/
def scLevel : Nat → Cls → List FNode → Except PyErr (List FNode) := fun _ _ ks => .ok (stripCommentsLevel ks)

mutual
theorem nc_bottomUp : ∀ (n : FNode) (fuel depth : Nat) (n' : FNode), commentsPure n = true →
    bottomUp scLevel fuel depth n = .ok n' →
    ncToks n'.leaves = ncToks n.leaves ∧ isCommentNode n' = isCommentNode n
  | .tok tt v, fuel, depth, n', _, h => by
    unfold bottomUp at h
    simp only [Except.ok.injEq] at h
    rw [← h]
    exact ⟨rfl, rfl⟩
  | .grp c cv ks, fuel, depth, n', hp, h => by
    unfold bottomUp at h
    cases fuel with
    | zero => simp at h
    | succ fuel' =>
      simp only at h
      cases hk : bottomUpL scLevel fuel' (depth + 1) ks with
      | error e => rw [hk] at h; cases h
      | ok ks' =>
        rw [hk] at h
        simp only [scLevel, Except.ok.injEq] at h
        rw [← h]
        unfold commentsPure at hp
        simp only [Bool.and_eq_true] at hp
        obtain ⟨h1, h2⟩ := nc_bottomUpL ks fuel' (depth + 1) ks' hp.1 hk
        refine ⟨?_, rfl⟩
        show ncL (stripCommentsLevel ks') = ncL ks
        rw [ncL_stripCommentsLevel ks' h2, h1]
theorem nc_bottomUpL : ∀ (ns : List FNode) (fuel depth : Nat) (ns' : List FNode), commentsPureL ns = true →
    bottomUpL scLevel fuel depth ns = .ok ns' →
    ncL ns' = ncL ns ∧ ∀ k' ∈ ns', Removable k'
  | [], fuel, depth, ns', _, h => by
    unfold bottomUpL at h
    simp only [Except.ok.injEq] at h
    rw [← h]
    exact ⟨rfl, by simp⟩
  | k :: rest, fuel, depth, ns', hp, h => by
    unfold bottomUpL at h
    unfold commentsPureL at hp
    simp only [Bool.and_eq_true] at hp
    cases hk : bottomUp scLevel fuel depth k with
    | error e => rw [hk] at h; cases h
    | ok k' =>
      rw [hk] at h
      simp only at h
      cases hr : bottomUpL scLevel fuel depth rest with
      | error e => rw [hr] at h; cases h
      | ok rest' =>
        rw [hr] at h
        simp only [Except.ok.injEq] at h
        obtain ⟨a1, a2⟩ := nc_bottomUp k fuel depth k' hp.1 hk
        obtain ⟨b1, b2⟩ := nc_bottomUpL rest fuel depth rest' hp.2 hr
        rw [← h]
        refine ⟨by rw [ncL_cons, ncL_cons, a1, b1], ?_⟩
        intro x hx
        rcases List.mem_cons.mp hx with rfl | hx'
        · intro hc
          rw [a1]
          exact pure_comment_nc k hp.1 (by rw [← a2]; exact hc)
        · exact b2 x hx'
end

/-- `StripCommentsFilter`, on a tree whose `Comment` groups hold only comment and whitespace leaves (what grouping builds),
removes only comment-typed leaves and inserts only whitespace-typed leaves: all other leaves survive, in order, unchanged -/
theorem stripComments_preserves_noncomment (fuel : Nat) (n n' : FNode) (hp : commentsPure n = true)
    (h : stripComments fuel n = .ok n') : ncToks n'.leaves = ncToks n.leaves :=
  (nc_bottomUp n fuel 0 n' hp h).1


end Sql
