import SqlProofs.LexWords
/-!
# SqlProofs.LexWordsCase — the word certificate does not depend on the casing of ASCII letters

Every character class of the generated rule table is closed under swapping the case of ASCII letters (`rules_case_closed`, a
computation over the table: the lexer's expressions are compiled with IGNORECASE).  The analyses `start` and `aover` read the word only
through class membership, hence `wordCert w' = wordCert w` whenever `w'` and `w` agree up to ASCII case.
-/
namespace Sql

/-- the class does not distinguish `a–z` from `A–Z` -/
def caseClosedSet (S : CpSet) : Bool := (List.range 26).all fun k => S.mem (97 + k) == S.mem (65 + k)

theorem caseClosedSet_fold (S : CpSet) (h : caseClosedSet S = true) (c : Nat) : S.mem (asciiFold c) = S.mem c := by
  unfold asciiFold
  split
  · rename_i hc
    simp only [caseClosedSet, List.all_eq_true, List.mem_range, beq_iff_eq] at h
    have := h (c - 97) (by omega)
    have e1 : 97 + (c - 97) = c := by omega
    have e2 : 65 + (c - 97) = c - 32 := by omega
    rw [e1, e2] at this
    exact this.symm
  · rfl

def caseClosedRe : Re → Bool
  | .set S => caseClosedSet S
  | .cat a b => caseClosedRe a && caseClosedRe b
  | .alt a b => caseClosedRe a && caseClosedRe b
  | .rep _ _ _ r => caseClosedRe r
  | .grp _ r => caseClosedRe r
  | .look _ _ _ r => caseClosedRe r
  | _ => true

/-- table obligation: every class of every rule is closed under ASCII case -/
theorem rules_case_closed : (defaultCfg.rules.all fun r => caseClosedRe r.re) = true := by decide +kernel

theorem wordSets_case_closed : (caseClosedSet Gen.wordSet && caseClosedSet wordTailSet) = true := by decide +kernel

/-! ## `start` -/

theorem start_fold (c : Nat) : ∀ r : Re, caseClosedRe r = true → start (asciiFold c) r = start c r := by
  intro r
  induction r with
  | eps => intro _; rfl
  | set S => intro h; simp only [start, caseClosedSet_fold S h c]
  | cat a b iha ihb =>
    intro h
    simp only [caseClosedRe, Bool.and_eq_true] at h
    simp only [start, iha h.1, ihb h.2]
  | alt a b iha ihb =>
    intro h
    simp only [caseClosedRe, Bool.and_eq_true] at h
    simp only [start, iha h.1, ihb h.2]
  | rep lo hi g r ih => intro h; simp only [start, ih h]
  | grp n r ih => intro h; simp only [start, ih h]
  | bref n => intro _; rfl
  | look a n w r ih => intro h; simp only [start, ih h]
  | atEnd => intro _; rfl
  | wordB => intro _; rfl

theorem start_case (c c' : Nat) (h : asciiFold c' = asciiFold c) (r : Re) (hr : caseClosedRe r = true) :
    start c' r = start c r := by
  rw [← start_fold c' r hr, h, start_fold c r hr]

/-! ## `aover` -/

/-- two words equal up to ASCII case -/
def SameFold (w' w : Text) : Prop := w'.map asciiFold = w.map asciiFold

theorem SameFold.length {w' w : Text} (h : SameFold w' w) : w'.length = w.length := by
  have := congrArg List.length h
  simpa using this

theorem SameFold.at {w' w : Text} (h : SameFold w' w) (off : Nat) :
    asciiFold ((wordK w').at off) = asciiFold ((wordK w).at off) := by
  have e : ∀ l : Text, asciiFold ((wordK l).at off) = (l.map asciiFold).getD off 0 := by
    intro l
    simp only [WCtx.at, wordK]
    by_cases hlt : off < l.length
    · simp [Array.getD, hlt, List.getD_eq_getElem?_getD]
    ·       simp [Array.getD, hlt, List.getD_eq_getElem?_getD, asciiFold]
  rw [e, e, h]

theorem mem_at_case {w' w : Text} (h : SameFold w' w) (S : CpSet) (hS : caseClosedSet S = true) (off : Nat) :
    S.mem ((wordK w').at off) = S.mem ((wordK w).at off) := by
  rw [← caseClosedSet_fold S hS ((wordK w').at off), h.at off, caseClosedSet_fold S hS]

theorem aover_case {w' w : Text} (h : SameFold w' w) : ∀ r : Re, caseClosedRe r = true →
    ∀ off, aover (wordK w') r off = aover (wordK w) r off := by
  have hsz : (wordK w').w.size = (wordK w).w.size := by simp [wordK, h.length]
  have hword : caseClosedSet Gen.wordSet = true := by
    have := wordSets_case_closed; simp only [Bool.and_eq_true] at this; exact this.1
  intro r
  induction r with
  | eps => intro _ off; rfl
  | set S =>
    intro hr off
    simp only [aover, aSet, hsz, mem_at_case h S hr off]
    rfl
  | cat a b iha ihb =>
    intro hr off
    simp only [caseClosedRe, Bool.and_eq_true] at hr
    have hb : aover (wordK w') b = aover (wordK w) b := funext (ihb hr.2)
    simp only [aover, iha hr.1 off, hb]
  | alt a b iha ihb =>
    intro hr off
    simp only [caseClosedRe, Bool.and_eq_true] at hr
    simp only [aover, iha hr.1 off, ihb hr.2 off]
  | rep lo hi g r ih =>
    intro hr off
    have hf : aover (wordK w') r = aover (wordK w) r := funext (ih hr)
    simp only [aover, hf, hsz]
  | grp n r ih => intro hr off; simp only [aover]; exact ih hr off
  | bref n => intro _ off; rfl
  | look a n k r ih =>
    intro hr off
    simp only [aover, ih hr off]
    rfl
  | atEnd => intro _ off; rfl
  | wordB =>
    intro _ off
    simp only [aover, aWordB, hsz]
    have e1 : (wordK w').word = Gen.wordSet := rfl
    have e2 : (wordK w).word = Gen.wordSet := rfl
    rw [e1, e2, mem_at_case h _ hword (off - 1), mem_at_case h _ hword off]
    rfl

/-! ## the certificate -/

theorem maskOf_case (c c' : Nat) (h : asciiFold c' = asciiFold c) : ∀ rs : List Rule,
    (rs.all fun r => caseClosedRe r.re) = true → maskOf c' rs = maskOf c rs := by
  intro rs
  induction rs with
  | nil => intro _; rfl
  | cons x xs ih =>
    intro hall
    simp only [List.all_cons, Bool.and_eq_true] at hall
    simp only [maskOf, ih hall.2, start_case c c' h x.re hall.1]

theorem checkFrom_case {w' w : Text} (h : SameFold w' w) : ∀ (rs : List Rule) (m k : Nat),
    (rs.all fun r => caseClosedRe r.re) = true → checkFrom (wordK w') rs m k = checkFrom (wordK w) rs m k := by
  intro rs
  induction rs with
  | nil => intro m k _; rfl
  | cons x xs ih =>
    intro m k hall
    simp only [List.all_cons, Bool.and_eq_true] at hall
    simp only [checkFrom, aover_case h x.re hall.1 0, ih (m / 2) (k / 2) hall.2]

theorem wordShape_case {w' w : Text} (h : SameFold w' w) : wordShape w' = wordShape w := by
  have hcl := wordSets_case_closed
  simp only [Bool.and_eq_true] at hcl
  have key : ∀ (S : CpSet), caseClosedSet S = true → ∀ a b : Nat, asciiFold a = asciiFold b → S.mem a = S.mem b := by
    intro S hS a b hab
    rw [← caseClosedSet_fold S hS a, hab, caseClosedSet_fold S hS]
  cases w' with
  | nil =>
    cases w with
    | nil => rfl
    | cons c t => simp [SameFold] at h
  | cons c' t' =>
    cases w with
    | nil => simp [SameFold] at h
    | cons c t =>
      simp only [SameFold, List.map_cons, List.cons.injEq] at h
      obtain ⟨hc, ht⟩ := h
      simp only [wordShape, key _ hcl.1 c' c hc]
      congr 1
      -- the tails
      have : ∀ (a b : Text), a.map asciiFold = b.map asciiFold → a.all wordTailSet.mem = b.all wordTailSet.mem := by
        intro a
        induction a with
        | nil => intro b hb; cases b with
          | nil => rfl
          | cons _ _ => simp at hb
        | cons x xs ih =>
          intro b hb
          cases b with
          | nil => simp at hb
          | cons y ys =>
            simp only [List.map_cons, List.cons.injEq] at hb
            simp only [List.all_cons, key _ hcl.2 x y hb.1, ih ys hb.2]
      exact this t' t ht

/-- **the certificate is independent of the casing of ASCII letters** -/
theorem wordCert_case (w' w : Text) (h : w'.map asciiFold = w.map asciiFold) : wordCert w' = wordCert w := by
  have hs : SameFold w' w := h
  unfold wordCert
  rw [wordShape_case hs]
  congr 1
  cases w' with
  | nil =>
    cases w with
    | nil => rfl
    | cons c t => simp at h
  | cons c' t' =>
    cases w with
    | nil => simp at h
    | cons c t =>
      have hc : asciiFold c' = asciiFold c := by
        simp only [List.map_cons, List.cons.injEq] at h; exact h.1
      simp only
      rw [maskOf_case c c' hc _ rules_case_closed, checkFrom_case hs _ _ _ rules_case_closed]

end Sql
