import SqlProofs.FilterSpec
/-!
# SqlProofs.IndentSpec — `ReindentFilter` and `AlignedIndentFilter` only touch whitespace

For every option set, every filter state and every tree on which the filter does not raise, the sequence of non-whitespace
leaves (type and value) of the result equals that of the input: every token the filters insert is whitespace-typed, every
token they delete is whitespace-typed, and they never overwrite a value.  Structure: one lemma per `_process_*` method saying
that the child list's `sigL` is unchanged (given that the recursive call preserves it), lifted through the dispatch and the
recursion on the fuel.  The `offset`/`indent` state plays no role.
-/
set_option linter.unusedSimpArgs false
namespace Sql
open FNode (leaves leavesL)

/-! ## list surgery with whitespace tokens -/

theorem sigL_insertAt (l : List FNode) (i : Nat) (x : FNode) (hx : sigToks x.leaves = []) : sigL (insertAt l i x) = sigL l := by
  unfold insertAt
  rw [sigL_append, sigL_cons, hx, List.nil_append, ← sigL_append, List.take_append_drop]

theorem sigL_insertAfterIdx (l : List FNode) (idx : Nat) (x : FNode) (hx : sigToks x.leaves = []) :
    sigL (insertAfterIdx FNode.isWhitespace l idx x) = sigL l := by
  unfold insertAfterIdx
  split
  · exact sigL_insertAt l _ x hx
  · rw [sigL_append, sigL_singleton, hx, List.append_nil]

theorem untag_insertAt (tl : TL) (i : Nat) (e : Nat × FNode) : untag (insertAt tl i e) = insertAt (untag tl) i e.2 := by
  simp [untag, insertAt, List.map_take, List.map_drop]

theorem sigTL_insertAt (tl : TL) (i : Nat) (e : Nat × FNode) (hx : sigToks e.2.leaves = []) :
    sigL (untag (insertAt tl i e)) = sigL (untag tl) := by
  rw [untag_insertAt, sigL_insertAt _ _ _ hx]

theorem sigTL_insertAfterIdx (tl : TL) (idx : Nat) (e : Nat × FNode) (hx : sigToks e.2.leaves = []) :
    sigL (untag (insertAfterIdx tlWs tl idx e)) = sigL (untag tl) := by
  unfold insertAfterIdx
  split
  · exact sigTL_insertAt tl _ e hx
  · simp only [untag, List.map_append, List.map_cons, List.map_nil]
    rw [sigL_append, sigL_singleton, hx, List.append_nil]

theorem untag_tagFrom : ∀ (ks : List FNode) (i : Nat), untag (tagFrom i ks) = ks
  | [], _ => rfl
  | k :: ks, i => by
    have ih := untag_tagFrom ks (i + 1)
    simp only [untag] at ih
    simp [tagFrom, untag, ih]

theorem untag_tagAll (ks : List FNode) : untag (tagAll ks) = ks := untag_tagFrom ks 1

theorem sig_wsLeaf (v : Text) : sigToks (FNode.tok T.Whitespace v).leaves = [] := by
  simp [leaves, sigToks, T.Whitespace, TType.isIn]

theorem sig_rNl (cfg : RCfg) (st : RSt) (off : Int) : sigToks (rNl cfg st off).leaves = [] := sig_wsLeaf _
theorem sig_aNl (ch : Text) (st : ASt) (off : Int) : sigToks (aNl ch st off).leaves = [] := sig_wsLeaf _
theorem sig_aNlStr (ch : Text) (st : ASt) (s : Text) : sigToks (aNlStr ch st s).leaves = [] := sig_wsLeaf _

theorem sigL_reverse_cons (k : FNode) (d : List FNode) : sigL (k :: d).reverse = sigL d.reverse ++ sigToks k.leaves := by
  rw [List.reverse_cons, sigL_append, sigL_singleton]

/-! ## the zipper passes -/

theorem sigL_rSplitStatementsGo (nl : FNode) (hnl : sigToks nl.leaves = []) :
    ∀ (rest done : List FNode), sigL (rSplitStatementsGo nl done rest) = sigL done.reverse ++ sigL rest
  | [], done => by simp [rSplitStatementsGo, sigL_nil]
  | k :: rest, done => by
    unfold rSplitStatementsGo
    split
    · cases done with
      | nil =>
        simp only
        rw [sigL_rSplitStatementsGo nl hnl rest [k], sigL_cons]
        simp [sigL_singleton, sigL_nil]
      | cons p done' =>
        simp only
        rw [sigL_rSplitStatementsGo nl hnl rest, sigL_reverse_cons, sigL_reverse_cons, hnl, sigL_cons, sigL_reverse_cons]
        by_cases hp : p.isWhitespace = true
        · simp [hp, sig_ws p hp, sigL_append, sigL_cons, sigL_nil]
        · simp [hp, sigL_append, sigL_cons, sigL_nil]
    · rw [sigL_rSplitStatementsGo nl hnl rest, sigL_reverse_cons, sigL_cons, List.append_assoc]

theorem sigL_splitKwdsGo (isSplit : FNode → Bool) (emit : List FNode → FNode → List FNode)
    (hemit : ∀ done k, sigL (emit done k).reverse = sigL done.reverse ++ sigToks k.leaves) :
    ∀ (rest : List FNode) (d : Nat) (done : List FNode),
      sigL (splitKwdsGo isSplit emit d done rest) = sigL done.reverse ++ sigL rest
  | [], d, done => by simp [splitKwdsGo, sigL_nil]
  | k :: rest, d, done => by
    unfold splitKwdsGo
    have step : sigL (k :: done).reverse ++ sigL rest = sigL done.reverse ++ sigL (k :: rest) := by
      rw [sigL_reverse_cons, sigL_cons, List.append_assoc]
    split
    · rw [sigL_splitKwdsGo isSplit emit hemit rest, step]
    · split
      · rw [sigL_splitKwdsGo isSplit emit hemit rest, step]
      · split
        · rw [sigL_splitKwdsGo isSplit emit hemit rest, step]
        · rw [sigL_splitKwdsGo isSplit emit hemit rest, hemit, sigL_cons, List.append_assoc]

theorem rEmitKwd_sig (nl : FNode) (hnl : sigToks nl.leaves = []) (done : List FNode) (k : FNode) :
    sigL (rEmitKwd nl done k).reverse = sigL done.reverse ++ sigToks k.leaves := by
  unfold rEmitKwd
  cases done with
  | nil => simp [sigL_append, sigL_cons, hnl, sigL_nil]
  | cons p done' =>
    simp only
    by_cases hp : p.isWhitespace = true
    · split <;> simp [hp, sigL_append, sigL_cons, sigL_nil, hnl, sig_ws p hp]
    · split <;> simp [hp, sigL_append, sigL_cons, sigL_nil, hnl]

theorem sigL_rSplitKwds (nl : FNode) (hnl : sigToks nl.leaves = []) (ks : List FNode) : sigL (rSplitKwds nl ks) = sigL ks := by
  unfold rSplitKwds
  rw [sigL_splitKwdsGo _ _ (rEmitKwd_sig nl hnl) ks 0 []]
  simp [sigL_nil]

/-! ## recursion into the children -/

theorem sigL_rMapKids (rec : Text → RSt → FNode → Except PyErr (FNode × RSt))
    (hrec : ∀ p s n n' s', rec p s n = .ok (n', s') → sigToks n'.leaves = sigToks n.leaves) :
    ∀ (ks : List FNode) (pre : Text) (st : RSt) (ks' : List FNode) (st' : RSt),
      rMapKids rec pre st ks = .ok (ks', st') → sigL ks' = sigL ks
  | [], pre, st, ks', st', h => by
    simp only [rMapKids, Except.ok.injEq, Prod.mk.injEq] at h
    rw [← h.1]
  | k :: rest, pre, st, ks', st', h => by
    unfold rMapKids at h
    cases hk : rec pre st k with
    | error e => rw [hk] at h; cases h
    | ok r =>
      obtain ⟨k', st1⟩ := r
      rw [hk] at h
      simp only at h
      cases hr : rMapKids rec (pre ++ k'.text) st1 rest with
      | error e => rw [hr] at h; cases h
      | ok r2 =>
        obtain ⟨rest', st2⟩ := r2
        rw [hr] at h
        simp only [Except.ok.injEq, Prod.mk.injEq] at h
        rw [← h.1, sigL_cons, sigL_cons, hrec _ _ _ _ _ hk, sigL_rMapKids rec hrec rest _ _ _ _ hr]

/-- what the handlers assume about the recursive call -/
def RecPreserves (rec : RRec) : Prop :=
  ∀ a p s n n' s', rec a p s n = .ok (n', s') → sigToks n'.leaves = sigToks n.leaves

theorem sigL_rDefault (cfg : RCfg) (rec : RRec) (hrec : RecPreserves rec) (anc : List Cls) (pre : Text) (st : RSt) (stmts : Bool)
    (ks ks' : List FNode) (st' : RSt) (h : rDefault cfg rec anc pre st stmts ks = .ok (ks', st')) : sigL ks' = sigL ks := by
  unfold rDefault at h
  have h1 := sigL_rMapKids (rec anc) (fun p s n n' s' hh => hrec anc p s n n' s' hh) _ _ _ _ _ h
  rw [h1, sigL_rSplitKwds _ (sig_rNl cfg st 0)]
  cases stmts with
  | false => rfl
  | true =>
    simp only [if_true]
    rw [sigL_rSplitStatementsGo _ (sig_rNl cfg st 0)]
    simp [sigL_nil]


/-! ## the handlers of `ReindentFilter` -/

theorem sigL_rWhere (cfg : RCfg) (rec : RRec) (hrec : RecPreserves rec) (anc : List Cls) (pre : Text) (st : RSt)
    (ks ks' : List FNode) (st' : RSt) (h : rWhere cfg rec anc pre st ks = .ok (ks', st')) : sigL ks' = sigL ks := by
  unfold rWhere at h
  split at h
  · simp only [Except.ok.injEq, Prod.mk.injEq] at h; rw [← h.1]
  · split at h
    · cases h
    · rename_i r hr
      obtain ⟨a, b⟩ := r
      simp only [Except.ok.injEq, Prod.mk.injEq] at h
      rw [← h.1, sigL_rDefault cfg rec hrec _ _ _ _ _ _ _ hr, sigL_insertAt _ _ _ (sig_rNl cfg st 0)]

theorem sigL_rParenthesis (cfg : RCfg) (rec : RRec) (hrec : RecPreserves rec) (anc : List Cls) (pre : Text) (st : RSt)
    (ks ks' : List FNode) (st' : RSt) (h : rParenthesis cfg rec anc pre st ks = .ok (ks', st')) : sigL ks' = sigL ks := by
  unfold rParenthesis at h
  simp only at h
  split at h
  · simp only [Except.ok.injEq, Prod.mk.injEq] at h; rw [← h.1]
  · split at h
    · cases h
    · split at h
      · cases h
      · rename_i r hr
        obtain ⟨a, b⟩ := r
        simp only [Except.ok.injEq, Prod.mk.injEq] at h
        rw [← h.1, sigL_rDefault cfg rec hrec _ _ _ _ _ _ _ hr]
        split
        · rw [sigL_cons, sig_rNl, List.nil_append]
        · rfl

theorem sigL_rFunction (cfg : RCfg) (rec : RRec) (hrec : RecPreserves rec) (anc : List Cls) (pre : Text) (st : RSt)
    (ks ks' : List FNode) (st' : RSt) (h : rFunction cfg rec anc pre st ks = .ok (ks', st')) : sigL ks' = sigL ks := by
  unfold rFunction at h
  split at h
  · cases h
  · exact sigL_rDefault cfg rec hrec _ _ _ _ _ _ _ h

theorem sig_tlws : sigToks ((0, FNode.tok T.Whitespace [32]) : Nat × FNode).2.leaves = [] := sig_wsLeaf _

theorem sigTL_rIdListLoopA (cfg : RCfg) (st : RSt) : ∀ (ids : TL) (position : Int) (tl : TL),
    sigL (untag (rIdListLoopA cfg st position tl ids)) = sigL (untag tl)
  | [], position, tl => by simp [rIdListLoopA]
  | (tag, n) :: rest, position, tl => by
    unfold rIdListLoopA
    simp only
    split
    · split
      · exact sigTL_rIdListLoopA cfg st rest _ tl
      · split
        · split
          · exact sigTL_rIdListLoopA cfg st rest _ tl
          · rw [sigTL_rIdListLoopA cfg st rest]
            split
            · split
              · rw [sigTL_insertAfterIdx _ _ _ sig_tlws, sigTL_insertAt _ _ _ (sig_rNl cfg st _)]
              · rw [sigTL_insertAt _ _ _ (sig_rNl cfg st _)]
            · rw [sigTL_insertAt _ _ _ (sig_rNl cfg st _)]
        · rw [sigTL_rIdListLoopA cfg st rest, sigTL_insertAt _ _ _ (sig_rNl cfg st _)]
    · exact sigTL_rIdListLoopA cfg st rest _ tl

theorem sigTL_rIdListLoopB (cfg : RCfg) (st : RSt) : ∀ (ids : TL) (position : Int) (tl : TL),
    sigL (untag (rIdListLoopB cfg st position tl ids)) = sigL (untag tl)
  | [], position, tl => by simp [rIdListLoopB]
  | (tag, n) :: rest, position, tl => by
    unfold rIdListLoopB
    simp only
    split
    · split
      · exact sigTL_rIdListLoopB cfg st rest _ tl
      · rw [sigTL_rIdListLoopB cfg st rest, sigTL_insertAt _ _ _ (sig_rNl cfg st _)]
    · exact sigTL_rIdListLoopB cfg st rest _ tl

theorem untag_cons (e : Nat × FNode) (tl : TL) : untag (e :: tl) = e.2 :: untag tl := rfl

theorem sigTL_rEnsureWs : ∀ (tl tl' : TL), rEnsureWs tl = .ok tl' → sigL (untag tl') = sigL (untag tl)
  | [], tl', h => by simp only [rEnsureWs, Except.ok.injEq] at h; rw [← h]
  | (t, k) :: rest, tl', h => by
    unfold rEnsureWs at h
    split at h
    · split at h
      · cases h
      · split at h
        · cases h
        · rename_i n _ rest' hr
          simp only [Except.ok.injEq] at h
          rw [← h]
          split <;> simp [untag_cons, sigL_cons, sig_wsLeaf, sigTL_rEnsureWs _ _ hr]
    · cases hr : rEnsureWs rest with
      | error e => rw [hr] at h; cases h
      | ok rest' =>
        rw [hr] at h
        simp only [Except.map, Except.ok.injEq] at h
        rw [← h, untag_cons, untag_cons, sigL_cons, sigL_cons, sigTL_rEnsureWs _ _ hr]


theorem sigTL_rIdListFirstBreak (cfg : RCfg) (st1 : RSt) (adjusted : Int) (tl1 ids' tl2 : TL)
    (h : rIdListFirstBreak cfg st1 adjusted tl1 ids' = .ok tl2) : sigL (untag tl2) = sigL (untag tl1) := by
  unfold rIdListFirstBreak at h
  split at h
  · split at h
    · cases h
    · split at h
      · simp only [Except.ok.injEq] at h
        rw [← h, sigTL_insertAt _ _ _ (sig_rNl cfg _ _)]
      · cases h
  · simp only [Except.ok.injEq] at h
    rw [h]

theorem sigL_rIdentifierList (cfg : RCfg) (rec : RRec) (hrec : RecPreserves rec) (anc : List Cls) (pre : Text) (st : RSt)
    (ks ks' : List FNode) (st' : RSt) (h : rIdentifierList cfg rec anc pre st ks = .ok (ks', st')) : sigL ks' = sigL ks := by
  unfold rIdentifierList at h
  simp only at h
  split at h
  · cases h
  · split at h
    · cases h
    · split at h
      · cases h
      · split at h
        · rw [sigL_rDefault cfg rec hrec _ _ _ _ _ _ _ h, sigTL_rIdListLoopA, untag_tagAll]
        · split at h
          · cases h
          · rename_i tl1 htl1
            split at h
            · cases h
            · rename_i tl2 htl2
              rw [sigL_rDefault cfg rec hrec _ _ _ _ _ _ _ h, sigTL_rIdListLoopB,
                sigTL_rIdListFirstBreak _ _ _ _ _ _ htl2, sigTL_rEnsureWs _ _ htl1, untag_tagAll]


theorem sigTL_rCaseLoop (cfg : RCfg) (st : RSt) : ∀ (cases : List (Option TL × TL)) (tl tl' : TL),
    rCaseLoop cfg st tl cases = .ok tl' → sigL (untag tl') = sigL (untag tl)
  | [], tl, tl', h => by simp only [rCaseLoop, Except.ok.injEq] at h; rw [h]
  | (cond, value) :: rest, tl, tl', h => by
    unfold rCaseLoop at h
    by_cases hc : (!cfg.compact && decide (st.offset + 1 + ((condText cond).length : Int) + ((tlText value).length : Int) > cfg.wrapAfter)) = true
    · rw [if_pos hc] at h
      cases hb : caseBreakTag cond value with
      | error e => rw [hb] at h; cases h
      | ok t =>
        rw [hb] at h
        simp only at h
        cases hi : tlIndex tl t with
        | none => rw [hi] at h; cases h
        | some i =>
          rw [hi] at h
          simp only at h
          rw [sigTL_rCaseLoop cfg st rest _ _ h, sigTL_insertAt _ _ _ (sig_rNl cfg st _)]
    · rw [if_neg hc] at h
      exact sigTL_rCaseLoop cfg st rest _ _ h

theorem sigL_rCase (cfg : RCfg) (rec : RRec) (hrec : RecPreserves rec) (anc : List Cls) (pre : Text) (st : RSt)
    (ks ks' : List FNode) (st' : RSt) (h : rCase cfg rec anc pre st ks = .ok (ks', st')) : sigL ks' = sigL ks := by
  unfold rCase at h
  simp only at h
  split at h
  · cases h
  · cases h
  · split at h
    · cases h
    · cases h
    · split at h
      · cases h
      · split at h
        · cases h
        · split at h
          · cases h
          · split at h
            · cases h
            · rename_i tl' htl'
              split at h
              · cases h
              · rename_i r hr
                simp only [Except.ok.injEq, Prod.mk.injEq] at h
                rw [← h.1]
                have hd := sigL_rDefault cfg rec hrec _ _ _ _ _ _ _ hr
                have hc := sigTL_rCaseLoop cfg _ _ _ _ htl'
                rw [untag_tagAll] at hc
                split
                · split
                  · rw [sigL_insertAt _ _ _ (sig_rNl cfg _ _), hd, hc]
                  · rw [hd, hc]
                · rw [hd, hc]

theorem sigL_rValuesStep (cfg : RCfg) (st : RSt) (pre : Text) (fidx : Nat) (ks : List FNode) (tidx : Nat) (ks1 : List FNode)
    (hstep : rValuesStep cfg st pre fidx ks tidx = .ok ks1) : sigL ks1 = sigL ks := by
  unfold rValuesStep at hstep
  split at hstep
  · simp only [Except.ok.injEq] at hstep; rw [hstep]
  · split at hstep
    · cases ho : rGetOffset cfg st pre ks fidx with
      | error e => rw [ho] at hstep; cases hstep
      | ok o =>
        rw [ho] at hstep
        simp only [Except.map, Except.ok.injEq] at hstep
        rw [← hstep, sigL_insertAt _ _ _ (sig_rNl cfg st _)]
    · cases ho : rGetOffset cfg st pre ks tidx with
      | error e => rw [ho] at hstep; cases hstep
      | ok o =>
        rw [ho] at hstep
        simp only [Except.map, Except.ok.injEq] at hstep
        rw [← hstep, sigL_insertAfterIdx _ _ _ (sig_rNl cfg st _)]

theorem sigL_rValuesLoop (cfg : RCfg) (st : RSt) (pre : Text) (fidx : Nat) : ∀ (fuel : Nat) (ks : List FNode) (tidx : Nat)
    (ks' : List FNode), rValuesLoop cfg st pre fidx fuel ks tidx = .ok ks' → sigL ks' = sigL ks
  | 0, ks, tidx, ks', h => by simp only [rValuesLoop, Except.ok.injEq] at h; rw [h]
  | fuel+1, ks, tidx, ks', h => by
    unfold rValuesLoop at h
    cases hs : rValuesStep cfg st pre fidx ks tidx with
    | error e => rw [hs] at h; cases h
    | ok ks1 =>
      rw [hs] at h
      simp only at h
      have h1 := sigL_rValuesStep cfg st pre fidx ks tidx ks1 hs
      split at h
      · simp only [Except.ok.injEq] at h; rw [← h, h1]
      · rw [sigL_rValuesLoop cfg st pre fidx fuel _ _ _ h, h1]

theorem sigL_rValues (cfg : RCfg) (pre : Text) (st : RSt) (ks ks' : List FNode) (st' : RSt)
    (h : rValues cfg pre st ks = .ok (ks', st')) : sigL ks' = sigL ks := by
  unfold rValues at h
  simp only at h
  have h0 : sigL (rNl cfg st :: ks) = sigL ks := by rw [sigL_cons, sig_rNl, List.nil_append]
  split at h
  · simp only [Except.ok.injEq, Prod.mk.injEq] at h; rw [← h.1, h0]
  · cases hl : rValuesLoop cfg st pre _ ((rNl cfg st :: ks).length + 1) (rNl cfg st :: ks) _ with
    | error e => rw [hl] at h; cases h
    | ok r =>
      rw [hl] at h
      simp only [Except.map, Except.ok.injEq, Prod.mk.injEq] at h
      rw [← h.1, sigL_rValuesLoop _ _ _ _ _ _ _ _ hl, h0]

theorem sigL_rDispatch (cfg : RCfg) (rec : RRec) (hrec : RecPreserves rec) (c : Cls) (anc : List Cls) (pre : Text) (st : RSt)
    (ks ks' : List FNode) (st' : RSt) (h : rDispatch cfg rec c anc pre st ks = .ok (ks', st')) : sigL ks' = sigL ks := by
  unfold rDispatch at h
  split at h
  · exact sigL_rWhere cfg rec hrec _ _ _ _ _ _ h
  · exact sigL_rParenthesis cfg rec hrec _ _ _ _ _ _ h
  · exact sigL_rFunction cfg rec hrec _ _ _ _ _ _ h
  · exact sigL_rIdentifierList cfg rec hrec _ _ _ _ _ _ h
  · exact sigL_rCase cfg rec hrec _ _ _ _ _ _ h
  · exact sigL_rValues cfg _ _ _ _ _ h
  · exact sigL_rDefault cfg rec hrec _ _ _ _ _ _ _ h

theorem rProcess_preserves (cfg : RCfg) : ∀ (fuel : Nat), RecPreserves (fun a p s n => rProcess cfg fuel a p s n)
  | fuel, a, p, s, .tok tt v, n', s', h => by
    cases fuel <;> (simp only [rProcess, Except.ok.injEq, Prod.mk.injEq] at h; rw [← h.1])
  | 0, a, p, s, .grp c cv ks, n', s', h => by simp [rProcess] at h
  | fuel+1, a, p, s, .grp c cv ks, n', s', h => by
    simp only [rProcess] at h
    split at h
    · cases h
    · rename_i r hr
      simp only [Except.ok.injEq, Prod.mk.injEq] at h
      rw [← h.1]
      show sigL _ = sigL ks
      exact sigL_rDispatch cfg _ (rProcess_preserves cfg fuel) _ _ _ _ _ _ _ hr

/-- C06 for `reindent`: `ReindentFilter.process` changes nothing but whitespace — for every option set (`cfg`), every filter
state (`st`, `last`), every fuel and every tree on which it does not raise -/
theorem reindent_preserves_sig (cfg : RCfg) (fuel : Nat) (st : RSt) (last : Option Text) (n n' : FNode) (st' : RSt)
    (h : reindentProcess cfg fuel st last n = .ok (n', st')) : sigToks n'.leaves = sigToks n.leaves := by
  unfold reindentProcess at h
  split at h
  · cases h
  · rename_i r hr
    have hp := rProcess_preserves cfg fuel _ _ _ _ _ _ hr
    split at h
    · simp only [Except.ok.injEq, Prod.mk.injEq] at h
      rw [← h.1, ← hp]
      show sigL (_ :: _) = sigL _
      rw [sigL_cons, sig_wsLeaf, List.nil_append]
    · simp only [Except.ok.injEq, Prod.mk.injEq] at h
      rw [← h.1, hp]

/-! ## `AlignedIndentFilter` -/

def ARecPreserves (rec : ARec) : Prop := ∀ s n n' s', rec s n = .ok (n', s') → sigToks n'.leaves = sigToks n.leaves

theorem aEmitKwd_sig (ch : Text) (st : ASt) (done : List FNode) (k : FNode) :
    sigL (aEmitKwd ch st done k).reverse = sigL done.reverse ++ sigToks k.leaves := by
  unfold aEmitKwd
  simp [sigL_append, sigL_cons, sigL_nil, sig_aNlStr]

theorem sigL_aSplitKwds (ch : Text) (st : ASt) (ks : List FNode) : sigL (aSplitKwds ch st ks) = sigL ks := by
  unfold aSplitKwds
  rw [sigL_splitKwdsGo _ _ (aEmitKwd_sig ch st) ks 0 []]
  simp [sigL_nil]

theorem sigL_aKidsGo (rec : ARec) (hrec : ARecPreserves rec) : ∀ (rest done : List FNode) (st : ASt) (ks' : List FNode) (st' : ASt),
    aKidsGo rec st done rest = .ok (ks', st') → sigL ks' = sigL done.reverse ++ sigL rest
  | [], done, st, ks', st', h => by
    simp only [aKidsGo, Except.ok.injEq, Prod.mk.injEq] at h
    rw [← h.1]; simp [sigL_nil]
  | k :: rest, done, st, ks', st', h => by
    unfold aKidsGo at h
    by_cases hg : k.isGroup = true
    · rw [if_pos hg] at h
      simp only at h
      split at h
      · cases h
      · rename_i k' st1 hk
        rw [sigL_aKidsGo rec hrec rest _ _ _ _ h, sigL_reverse_cons, hrec _ _ _ _ hk, sigL_cons, List.append_assoc]
    · rw [if_neg hg] at h
      rw [sigL_aKidsGo rec hrec rest _ _ _ _ h, sigL_reverse_cons, sigL_cons, List.append_assoc]

theorem sigL_aDefault (ch : Text) (rec : ARec) (hrec : ARecPreserves rec) (st : ASt) (ks ks' : List FNode) (st' : ASt)
    (h : aDefault ch rec st ks = .ok (ks', st')) : sigL ks' = sigL ks := by
  unfold aDefault at h
  rw [sigL_aKidsGo rec hrec _ _ _ _ _ h, sigL_aSplitKwds]
  simp [sigL_nil]

theorem sigL_aParenthesis (ch : Text) (rec : ARec) (hrec : ARecPreserves rec) (st : ASt) (ks ks' : List FNode) (st' : ASt)
    (h : aParenthesis ch rec st ks = .ok (ks', st')) : sigL ks' = sigL ks := by
  unfold aParenthesis at h
  split at h
  · simp only at h
    split at h
    · cases h
    · rename_i a b hd
      simp only [Except.ok.injEq, Prod.mk.injEq] at h
      rw [← h.1, sigL_insertAt _ _ _ (sig_aNl ch _ _), sigL_aDefault ch rec hrec _ _ _ _ hd,
        sigL_insertAfterIdx _ _ _ (sig_aNlStr ch _ _)]
  · simp only [Except.ok.injEq, Prod.mk.injEq] at h; rw [← h.1]

theorem sigL_aBreakIdentifiers (nl : FNode) (hnl : sigToks nl.leaves = []) : ∀ (ks : List FNode) (b : Bool),
    sigL (aBreakIdentifiers nl b ks) = sigL ks
  | [], b => rfl
  | k :: rest, b => by
    unfold aBreakIdentifiers
    split
    · split
      · rw [sigL_cons, hnl, List.nil_append, sigL_cons, sigL_cons, sigL_aBreakIdentifiers nl hnl rest]
      · rw [sigL_cons, sigL_cons, sigL_aBreakIdentifiers nl hnl rest]
    · rw [sigL_cons, sigL_cons, sigL_aBreakIdentifiers nl hnl rest]

theorem sigL_aIdentifierList (ch : Text) (rec : ARec) (hrec : ARecPreserves rec) (st : ASt) (ks ks' : List FNode) (st' : ASt)
    (h : aIdentifierList ch rec st ks = .ok (ks', st')) : sigL ks' = sigL ks := by
  unfold aIdentifierList at h
  split at h
  · rw [sigL_aDefault ch rec hrec _ _ _ _ h, sigL_aBreakIdentifiers _ (sig_aNl ch st _)]
  · cases h

theorem sigTL_aCaseBreak (ch : Text) (st : ASt) (i : Nat) (tl tl1 : TL) (stmt : Option (Nat × FNode))
    (h : aCaseBreak ch st i tl stmt = .ok tl1) : sigL (untag tl1) = sigL (untag tl) := by
  unfold aCaseBreak at h
  split at h
  · split at h
    · cases h
    · split at h
      · cases h
      · simp only [Except.ok.injEq] at h
        rw [← h, sigTL_insertAt _ _ _ (sig_aNl ch st _)]
  · simp only [Except.ok.injEq] at h; rw [h]

theorem sigTL_aCasePad (ch : Text) (maxW : Nat) (tl1 tl2 : TL) (cond : Option TL)
    (h : aCasePad ch maxW tl1 cond = .ok tl2) : sigL (untag tl2) = sigL (untag tl1) := by
  unfold aCasePad at h
  split at h
  · split at h
    · cases h
    · simp only [Except.ok.injEq] at h
      rw [← h, sigTL_insertAfterIdx _ _ _ (sig_wsLeaf _)]
  · simp only [Except.ok.injEq] at h; rw [h]

theorem sigTL_aCaseLoop (ch : Text) (st : ASt) (maxW : Nat) : ∀ (items : List (Option TL × Option (Nat × FNode))) (i : Nat) (tl tl' : TL),
    aCaseLoop ch st maxW i tl items = .ok tl' → sigL (untag tl') = sigL (untag tl)
  | [], i, tl, tl', h => by simp only [aCaseLoop, Except.ok.injEq] at h; rw [h]
  | (cond, stmt) :: rest, i, tl, tl', h => by
    unfold aCaseLoop at h
    cases h1 : aCaseBreak ch st i tl stmt with
    | error e => rw [h1] at h; cases h
    | ok tl1 =>
      rw [h1] at h
      simp only at h
      cases h2 : aCasePad ch maxW tl1 cond with
      | error e => rw [h2] at h; cases h
      | ok tl2 =>
        rw [h2] at h
        simp only at h
        rw [sigTL_aCaseLoop ch st maxW rest _ _ _ h, sigTL_aCasePad ch maxW _ _ _ h2, sigTL_aCaseBreak ch st _ _ _ _ h1]

theorem sigL_aCase (ch : Text) (st : ASt) (ks ks' : List FNode) (st' : ASt)
    (h : aCase ch st ks = .ok (ks', st')) : sigL ks' = sigL ks := by
  unfold aCase at h
  simp only at h
  split at h
  · cases h
  · split at h
    · cases h
    · split at h
      · cases h
      · rename_i items _
        cases hl : aCaseLoop ch st _ 0 (tagAll ks) items with
        | error e => rw [hl] at h; cases h
        | ok tl' =>
          rw [hl] at h
          simp only [Except.map, Except.ok.injEq, Prod.mk.injEq] at h
          rw [← h.1, sigTL_aCaseLoop ch st _ _ _ _ _ hl, untag_tagAll]

theorem sigL_aDispatch (ch : Text) (rec : ARec) (hrec : ARecPreserves rec) (c : Cls) (st : ASt) (ks ks' : List FNode) (st' : ASt)
    (h : aDispatch ch rec c st ks = .ok (ks', st')) : sigL ks' = sigL ks := by
  unfold aDispatch at h
  split at h
  · exact sigL_aParenthesis ch rec hrec _ _ _ _ h
  · exact sigL_aIdentifierList ch rec hrec _ _ _ _ h
  · exact sigL_aCase ch _ _ _ _ h
  · exact sigL_aDefault ch rec hrec _ _ _ _ h

theorem aProcess_preserves (ch : Text) : ∀ (fuel : Nat), ARecPreserves (fun s n => aProcess ch fuel s n)
  | fuel, s, .tok tt v, n', s', h => by
    cases fuel <;> (simp only [aProcess, Except.ok.injEq, Prod.mk.injEq] at h; rw [← h.1])
  | 0, s, .grp c cv ks, n', s', h => by simp [aProcess] at h
  | fuel+1, s, .grp c cv ks, n', s', h => by
    unfold aProcess at h
    dsimp only at h
    split at h
    · -- Statement: optional pop of a leading whitespace token, one more `_process` level
      cases fuel with
      | zero => simp at h
      | succ fuel' =>
        simp only at h
        split at h
        · cases h
        · rename_i r hr
          simp only [Except.ok.injEq, Prod.mk.injEq] at h
          rw [← h.1]
          show sigL _ = sigL ks
          rw [sigL_aDefault ch _ (aProcess_preserves ch fuel') _ _ _ _ hr]
          split
          · rename_i k rest
            split
            · rename_i hw
              simp only [Bool.and_eq_true] at hw
              rw [sigL_cons, sig_ws k hw.1, List.nil_append]
            · rfl
          · rfl
    · split at h
      · cases h
      · rename_i r hr
        simp only [Except.ok.injEq, Prod.mk.injEq] at h
        rw [← h.1]
        show sigL _ = sigL ks
        exact sigL_aDispatch ch _ (aProcess_preserves ch fuel) _ _ _ _ _ hr

/-- C06 for `reindent_aligned`: `AlignedIndentFilter.process` changes nothing but whitespace — every indent character,
every filter state, every fuel, every tree on which it does not raise -/
theorem aligned_preserves_sig (ch : Text) (fuel : Nat) (st : ASt) (n n' : FNode) (st' : ASt)
    (h : alignedProcess ch fuel st n = .ok (n', st')) : sigToks n'.leaves = sigToks n.leaves :=
  aProcess_preserves ch fuel st n n' st' h


end Sql
