import SqlProofs.BookkeepingAbsStep
import SqlModel.Grouping.DelimSafe
/-!
# SqlProofs.BookkeepingAbsScript — a script of heap operations is the same script of pure operations at the paths of the addressed objects

`HScript str root h ops pops`: running `ops` (heap operations: `group_tokens` calls and `ttype` assignments) from `h`, the operations
that return are, in order, `pops` — each as the pure operation it stands for, with the path from `root` to the object it addresses in the
heap on which it runs (operations that raise are dropped: they change nothing).  `Sql.runPure t pops` folds them over the tree `t`.

`runHOps_abs`: from a heap satisfying `Inv0` in which every group is reachable from `root`, for every script there is exactly one such
`pops`, the final heap satisfies `Inv0`, every group is still reachable, and the abstraction of `root` in the final heap is
`runPure (abstraction of root in h) pops`.  `runOps_abs`, `statement_history_abs`: scripts of `group_tokens` calls with non-empty slices
keep the full invariant.
-/
namespace Sql.BK

/-- every `TokenList` object is `root` or lies below it -/
def AllReach (h : Heap) (root : Nat) : Prop := ∀ j ks, (h.obj j).kids = some ks → Reach h root j

/-- the objects whose child lists a call changes, and how -/
theorem groupTokens_shape {h h' : Heap} {rank : Nat → Nat} {T : Nat → Text} {self g : Nat} (str : Heap → Nat → Text)
    (hinv : Inv0 h rank T) {cls : Cls} {a b : Nat} {ie ext : Bool}
    (hcall : groupTokens str h self cls a b ie ext = .ok (h', g)) :
    ∃ ks ks' kg, (h.obj self).kids = some ks ∧ (h'.obj self).kids = some ks' ∧ (h'.obj g).kids = some kg ∧ g ≠ self ∧ g ∈ ks' ∧
      Same h h' self g ∧ (∀ k ∈ ks, k ∈ ks' ∨ k ∈ kg) ∧ (∀ kst, (h.obj g).kids = some kst → ∀ k ∈ kst, k ∈ kg) := by
  cases hk : (h.obj self).kids with
  | none => simp [groupTokens, hk] at hcall
  | some ks =>
    cases hst : ks[a]? with
    | none => simp [groupTokens, hk, hst] at hcall
    | some st =>
      have hstMem : st ∈ ks := List.mem_of_getElem? hst
      have hksRank : ∀ k ∈ ks, rank k < rank self := hinv.rk self ks hk
      have hksLt := (hinv.range self ks hk).2
      have hselfLt := (hinv.range self ks hk).1
      have hstSelf : st ≠ self := by intro he; have := hksRank st hstMem; rw [he] at this; exact Nat.lt_irrefl _ this
      have hnd : ks.Nodup := hinv.nodup self ks hk
      cases hb : (ext && isInst (h.obj st) cls) with
      | true =>
        have hsome : (h.obj st).kids.isSome = true := by
          simp only [isInst, Bool.and_eq_true] at hb
          exact hb.2.1
        obtain ⟨kst, hkst⟩ := Option.isSome_iff_exists.mp hsome
        have htake := take_succ_of_getElem? ks a st hst
        have hsplit := slice_split ks (a + 1) (b + (if ie then 1 else 0))
        have hnd3 : ((ks.take a ++ [st]) ++ pySlice ks (a + 1) (b + (if ie then 1 else 0)) ++
            ks.drop (max (a + 1) (b + (if ie then 1 else 0)))).Nodup := by rw [← htake, ← hsplit]; exact hnd
        have hstNotSub : st ∉ pySlice ks (a + 1) (b + (if ie then 1 else 0)) := by
          intro hm
          exact (List.nodup_append.mp (List.nodup_append.mp hnd3).1).2.2 st (List.mem_append_right _ (List.mem_singleton.mpr rfl)) st hm rfl
        have hsub : ∀ k ∈ pySlice ks (a + 1) (b + (if ie then 1 else 0)), k ≠ st ∧ k ≠ self := by
          intro k hm
          refine ⟨fun he => hstNotSub (he ▸ hm), ?_⟩
          intro he
          have := hksRank k (mem_of_mem_slice hm)
          rw [he] at this; exact Nat.lt_irrefl _ this
        rw [groupTokens_ext _ h self cls a b ie ext ks kst st hk hst hkst hb hstSelf hsub] at hcall
        injection hcall with hcall
        injection hcall with hh hgg
        subst hh
        subst hgg
        refine ⟨ks, pyDelSlice ks (a + 1) (b + (if ie then 1 else 0)), kst ++ pySlice ks (a + 1) (b + (if ie then 1 else 0)),
          rfl, by simp [extHeap, hstSelf.symm], by simp [extHeap], hstSelf, ?_, ?_, ?_, ?_⟩
        · simp only [pyDelSlice, htake]
          simp
        · intro j hjs hjt
          by_cases hm : j ∈ pySlice ks (a + 1) (b + (if ie then 1 else 0))
          · simp [extHeap, hjs, hjt, hm]
          · simp [extHeap, hjs, hjt, hm]
        · intro k hm
          rw [hsplit] at hm
          simp only [pyDelSlice, List.mem_append] at hm ⊢
          rcases hm with (hm | hm) | hm
          · exact Or.inl (Or.inl hm)
          · exact Or.inr (Or.inr hm)
          · exact Or.inl (Or.inr hm)
        · intro kst' hk' k hm
          rw [hkst] at hk'
          have := Option.some.inj hk'
          subst this
          exact List.mem_append_left _ hm
      | false =>
        have hsub : ∀ k ∈ pySlice ks a (b + (if ie then 1 else 0)), k < h.size ∧ k ≠ self := by
          intro k hm
          refine ⟨hksLt k (mem_of_mem_slice hm), ?_⟩
          intro he
          have := hksRank k (mem_of_mem_slice hm)
          rw [he] at this; exact Nat.lt_irrefl _ this
        rw [groupTokens_new _ h self cls a b ie ext ks st hk hst hb hselfLt hsub] at hcall
        injection hcall with hcall
        injection hcall with hh hgg
        subst hh
        subst hgg
        have hselfNe : self ≠ h.size := by omega
        have hsplit := slice_split ks a (b + (if ie then 1 else 0))
        refine ⟨ks, ks.take a ++ h.size :: ks.drop (max a (b + (if ie then 1 else 0))), pySlice ks a (b + (if ie then 1 else 0)),
          rfl, by simp [newHeap, hselfNe], by simp [newHeap], hselfNe.symm, by simp, ?_, ?_, ?_⟩
        · intro j hjs hjg
          by_cases hm : j ∈ pySlice ks a (b + (if ie then 1 else 0))
          · simp [newHeap, hjs, hjg, hm]
          · simp [newHeap, hjs, hjg, hm]
        · intro k hm
          rw [hsplit] at hm
          simp only [List.mem_append, List.mem_cons] at hm ⊢
          rcases hm with (hm | hm) | hm
          · exact Or.inl (Or.inl hm)
          · exact Or.inr hm
          · exact Or.inl (Or.inr (Or.inr hm))
        · intro kst' hk' k _
          have := (hinv.range _ _ hk').1
          exact absurd this (Nat.lt_irrefl _)

/-- reachability survives a call, and the group it returns is reachable -/
theorem groupTokens_reach {h h' : Heap} {rank : Nat → Nat} {T : Nat → Text} {self g : Nat} (str : Heap → Nat → Text)
    (hinv : Inv0 h rank T) {cls : Cls} {a b : Nat} {ie ext : Bool}
    (hcall : groupTokens str h self cls a b ie ext = .ok (h', g)) :
    (∀ r x, Reach h r x → Reach h' r x) ∧ Reach h' self g := by
  obtain ⟨ks, ks', kg, hk, hk', hkg, hgs, hgm, hsame, hcov, hold⟩ := groupTokens_shape str hinv hcall
  refine ⟨?_, Reach.child hk' hgm⟩
  rintro r x ⟨p, hp⟩
  induction hp with
  | nil r => exact Reach.refl _ _
  | @cons r ks0 i k p x hk0 hi _ ih =>
    refine Reach.trans ?_ ih
    have hkm : k ∈ ks0 := List.mem_of_getElem? hi
    by_cases hrs : r = self
    · subst hrs
      rw [hk] at hk0
      have := Option.some.inj hk0
      subst this
      rcases hcov k hkm with hm | hm
      · exact Reach.child hk' hm
      · exact (Reach.child hk' hgm).trans (Reach.child hkg hm)
    · by_cases hrg : r = g
      · subst hrg
        exact Reach.child hkg (hold ks0 hk0 k hkm)
      · have := (hsame r hrs hrg).1
        exact Reach.child (this.trans hk0) hkm

theorem groupTokens_allReach {h h' : Heap} {rank : Nat → Nat} {T : Nat → Text} {self g root : Nat} (str : Heap → Nat → Text)
    (hinv : Inv0 h rank T) {cls : Cls} {a b : Nat} {ie ext : Bool}
    (hcall : groupTokens str h self cls a b ie ext = .ok (h', g)) (hall : AllReach h root) : AllReach h' root := by
  obtain ⟨ks, ks', kg, hk, hk', hkg, hgs, hgm, hsame, hcov, hold⟩ := groupTokens_shape str hinv hcall
  obtain ⟨hpres, hg⟩ := groupTokens_reach str hinv hcall
  have hself : Reach h' root self := hpres _ _ (hall self ks hk)
  intro j ksj hkj
  by_cases hjs : j = self
  · subst hjs; exact hself
  · by_cases hjg : j = g
    · subst hjg; exact hself.trans hg
    · have := (hsame j hjs hjg).1
      exact hpres _ _ (hall j ksj (this.symm.trans hkj))


/-- `ttype` assignments do not change the graph -/
theorem setTType_path {h h' : Heap} {self idx x : Nat} {tt : TType} (hcall : h.setTType self idx tt = .ok (h', x)) :
    ∀ r p y, IsPath h r p y → IsPath h' r p y := by
  obtain ⟨_, _, _, hall, _⟩ := setTType_same hcall
  intro r p y hp
  induction hp with
  | nil r => exact .nil r
  | cons hk hi _ ih => exact .cons (by rw [(hall _).2.1]; exact hk) hi ih

theorem HOp.run_target {h h' : Heap} {g : Nat} (str : Heap → Nat → Text) {op : HOp} (hcall : op.run str h = .ok (h', g)) :
    ∃ ks, (h.obj op.target).kids = some ks := by
  cases op with
  | group o =>
    simp only [HOp.run, groupTokens] at hcall
    simp only [HOp.target]
    cases hk : (h.obj o.self).kids with
    | none => rw [hk] at hcall; cases hcall
    | some ks => exact ⟨ks, rfl⟩
  | setType s idx tt =>
    obtain ⟨_, ⟨ks, hk, _⟩, _⟩ := setTType_same hcall
    exact ⟨ks, hk⟩

theorem HOp.run_allReach {h h' : Heap} {rank : Nat → Nat} {T : Nat → Text} {g root : Nat} (str : Heap → Nat → Text)
    (hinv : Inv0 h rank T) {op : HOp} (hcall : op.run str h = .ok (h', g)) (hall : AllReach h root) : AllReach h' root := by
  cases op with
  | group o => exact groupTokens_allReach str hinv hcall hall
  | setType s idx tt =>
    obtain ⟨_, _, _, hsame, _⟩ := setTType_same hcall
    intro j ks hk
    obtain ⟨p, hp⟩ := hall j ks (by rw [← (hsame j).2.1]; exact hk)
    exact ⟨p, setTType_path hcall _ _ _ hp⟩

/-! ## scripts -/

/-- the operations of a script that return, each as its pure operation with the path from `root` to the object it addresses in the heap
on which it runs -/
inductive HScript (str : Heap → Nat → Text) (root : Nat) : Heap → List HOp → List (List Nat × POp) → Prop
  | nil (h : Heap) : HScript str root h [] []
  | ok {h h' : Heap} {g : Nat} {op : HOp} {rest : List HOp} {p : List Nat} {pops : List (List Nat × POp)} :
      IsPath h root p op.target → op.run str h = .ok (h', g) →
      HScript str root h' rest pops → HScript str root h (op :: rest) ((p, op.toPure) :: pops)
  | err {h : Heap} {e : PyErr} {op : HOp} {rest : List HOp} {pops : List (List Nat × POp)} :
      op.run str h = .error e → HScript str root h rest pops → HScript str root h (op :: rest) pops

/-- **every script of heap operations** is the script of the pure operations at the paths of the addressed objects -/
theorem runHOps_abs (fuel root : Nat) : ∀ (ops : List HOp) (h : Heap) (rank : Nat → Nat) (T : Nat → Text) (R : Nat)
    (A : Nat → Node),
    Inv0 h rank T → (∀ i, rank i ≤ R) → R + ops.length < fuel → AllReach h root → IsAbs h A →
    ∃ pops A', HScript (fun hx i => strF hx fuel i) root h ops pops ∧
      (∀ pops', HScript (fun hx i => strF hx fuel i) root h ops pops' → pops' = pops) ∧
      WF0 (runHOps (fun hx i => strF hx fuel i) h ops).1 ∧
      AllReach (runHOps (fun hx i => strF hx fuel i) h ops).1 root ∧
      IsAbs (runHOps (fun hx i => strF hx fuel i) h ops).1 A' ∧
      runPure (A root) pops = .ok (A' root) := by
  intro ops
  induction ops with
  | nil =>
    intro h rank T R A hinv _ _ hall hA
    refine ⟨[], A, .nil h, ?_, ⟨rank, T, hinv⟩, hall, hA, rfl⟩
    intro pops' hs
    cases hs; rfl
  | cons op rest ih =>
    intro h rank T R A hinv hR hfuel hall hA
    simp only [List.length_cons] at hfuel
    simp only [runHOps]
    cases hc : op.run (fun hx i => strF hx fuel i) h with
    | error e =>
      simp only
      obtain ⟨pops, A', hs, hu, hw, hall', hA', hrun⟩ := ih h rank T R A hinv hR (by omega) hall hA
      refine ⟨pops, A', .err hc hs, ?_, hw, hall', hA', hrun⟩
      intro pops' hs'
      cases hs' with
      | ok _ hc' _ => rw [hc] at hc'; cases hc'
      | err _ hs'' => exact hu _ hs''
    | ok r =>
      obtain ⟨h', g⟩ := r
      simp only
      obtain ⟨rank', T', hinv', hb⟩ := HOp.run_inv0 fuel op g hinv (fun i => by have := hR i; omega) hc
      have hA1 : IsAbs h' (fun i => absF h' (rank' i + 1) i) := isAbs_absF hinv'
      obtain ⟨_, hpath⟩ := HOp.run_abs _ hinv hc hA hA1
      obtain ⟨ks, hk⟩ := HOp.run_target _ hc
      obtain ⟨p, hp⟩ := hall op.target ks hk
      have hall1 := HOp.run_allReach _ hinv hc hall
      obtain ⟨pops, A', hs, hu, hw, hall', hA', hrun⟩ := ih h' rank' T' (R + 1) _ hinv' (hb R hR) (by omega) hall1 hA1
      refine ⟨(p, op.toPure) :: pops, A', .ok hp hc hs, ?_, hw, hall', hA', ?_⟩
      · intro pops' hs'
        cases hs' with
        | ok hp' hc' hs'' =>
          rw [hc] at hc'
          injection hc' with hc'
          injection hc' with e1 e2
          subst e1
          rw [IsPath.unique' hinv hp' hp, hu _ hs'']
        | err hc' _ => rw [hc] at hc'; cases hc'
      · have hthis : Node.updAt op.toPure.run p (A root) = .ok (absF h' (rank' root + 1) root) := hpath root p hp
        simp only [runPure, hthis]
        exact hrun

/-- scripts of `group_tokens` calls with non-empty slices: the full invariant is kept -/
theorem runOps_abs (fuel root : Nat) (ops : List Op) (h : Heap) (rank : Nat → Nat) (T : Nat → Text) (R : Nat) (A : Nat → Node)
    (hinv : Inv h rank T) (hR : ∀ i, rank i ≤ R) (hfuel : R + ops.length < fuel)
    (hops : ∀ op ∈ ops, op.start < op.stop + (if op.includeEnd then 1 else 0)) (hall : AllReach h root) (hA : IsAbs h A) :
    ∃ pops A', HScript (fun hx i => strF hx fuel i) root h (ops.map HOp.group) pops ∧
      (∀ pops', HScript (fun hx i => strF hx fuel i) root h (ops.map HOp.group) pops' → pops' = pops) ∧
      WF (runOps (fun hx i => strF hx fuel i) h ops).1 ∧
      AllReach (runOps (fun hx i => strF hx fuel i) h ops).1 root ∧
      IsAbs (runOps (fun hx i => strF hx fuel i) h ops).1 A' ∧
      runPure (A root) pops = .ok (A' root) := by
  have hw := runOps_wf fuel ops h rank T R hinv hR hfuel hops
  rw [runOps_eq_runHOps] at hw ⊢
  obtain ⟨pops, A', hs, hu, _, hall', hA', hrun⟩ := runHOps_abs fuel root (ops.map HOp.group) h rank T R A hinv.toInv0 hR
    (by simpa using hfuel) hall hA
  exact ⟨pops, A', hs, hu, hw, hall', hA', hrun⟩

/-! ## the statement the splitter builds -/

theorem mkStatement_kids (vals : List Text) (g : Nat) (ks : List Nat) (hk : ((mkStatement vals).obj g).kids = some ks) :
    g = vals.length ∧ ks = List.range vals.length := by
  simp only [mkStatement] at hk
  split at hk
  · cases hk
  · split at hk
    · rename_i h2; exact ⟨h2, (Option.some.inj hk).symm⟩
    · cases hk

theorem mkStatementT_abs (toks : List Tok) {A : Nat → Node} (hA : IsAbs (mkStatementT toks) A) :
    A toks.length = .grp .Statement (flatStatement toks) := by
  have hk : ((mkStatementT toks).obj toks.length).kids = some (List.range toks.length) := by
    simp [mkStatementT, Heap.withTypes, mkStatement]
  have hc : ((mkStatementT toks).obj toks.length).cls = .Statement := by
    simp [mkStatementT, Heap.withTypes, mkStatement]
  rw [hA.grp _ _ hk, hc]
  congr 1
  simp only [flatStatement]
  apply List.ext_getElem
  · simp
  · intro i h1 h2
    simp only [List.length_map, List.length_range] at h1
    have hl : ((mkStatementT toks).obj i).kids = none := by
      simp [mkStatementT, Heap.withTypes, mkStatement, h1]
    have hv : ((mkStatementT toks).obj i).value = toks[i].val := by
      simp [mkStatementT, Heap.withTypes, mkStatement, h1, List.getD_eq_getElem?_getD]
    have ht : ((mkStatementT toks).obj i).ttype = toks[i].tt := by
      simp [mkStatementT, Heap.withTypes, List.getD_eq_getElem?_getD, h1]
    simp only [List.getElem_map, List.getElem_range]
    rw [hA.leaf i hl, hv, ht]

theorem mkStatementT_allReach (toks : List Tok) : AllReach (mkStatementT toks) toks.length := by
  intro j ks hk
  have hk' : ((mkStatement (toks.map (·.val))).obj j).kids = some ks := by
    simpa [mkStatementT, Heap.withTypes] using hk
  obtain ⟨rfl, _⟩ := mkStatement_kids _ j ks hk'
  simp only [List.length_map]
  exact Reach.refl _ _

/-- **the whole life of a statement, in the pure model**: the heap built by the splitter from `toks`, regrouped by any script of
`group_tokens` calls with non-empty slices, stays well-formed, and the pure tree of the statement object is the flat statement with the
same calls applied by the pure `Sql.groupTokens` at the paths of the objects they address. -/
theorem statement_history_abs (toks : List Tok) (hne : toks ≠ []) (ops : List Op) (fuel : Nat) (hfuel : 1 + ops.length < fuel)
    (hops : ∀ op ∈ ops, op.start < op.stop + (if op.includeEnd then 1 else 0)) :
    ∃ pops A', HScript (fun hx i => strF hx fuel i) toks.length (mkStatementT toks) (ops.map HOp.group) pops ∧
      (∀ pops', HScript (fun hx i => strF hx fuel i) toks.length (mkStatementT toks) (ops.map HOp.group) pops' → pops' = pops) ∧
      WF (runOps (fun hx i => strF hx fuel i) (mkStatementT toks) ops).1 ∧
      IsAbs (runOps (fun hx i => strF hx fuel i) (mkStatementT toks) ops).1 A' ∧
      runPure (.grp .Statement (flatStatement toks)) pops = .ok (A' toks.length) := by
  have hinv := mkStatementT_inv toks hne
  have hA0 : IsAbs (mkStatementT toks) _ := isAbs_absF hinv.toInv0
  have hroot := mkStatementT_abs toks hA0
  obtain ⟨pops, A', hs, hu, hw, _, hA', hrun⟩ := runOps_abs fuel toks.length ops _ _ _ 1 _ hinv
    (by intro i; split <;> omega) hfuel hops (mkStatementT_allReach toks) hA0
  rw [hroot] at hrun
  exact ⟨pops, A', hs, hu, hw, hA', hrun⟩

end Sql.BK
