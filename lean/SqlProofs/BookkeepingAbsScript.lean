import SqlProofs.BookkeepingAbsStep
import SqlModel.Grouping.DelimSafe
/-!
# SqlProofs.BookkeepingAbsScript — a script of heap calls is the same script of pure calls at the paths of the addressed objects

`Script str root h ops pops`: running `ops` from `h`, the calls that return are, in order, `pops` — each with the path from `root` to the
object it addresses in the heap on which it runs (calls that raise are dropped: they change nothing).
`runPure t pops` folds the pure `Sql.groupTokens` over the tree `t` at those paths.

`runOps_abs`: from a heap satisfying `Inv` in which every group is reachable from `root`, for every script there is exactly one such
`pops`, the final heap is well-formed, every group is still reachable, and the abstraction of `root` in the final heap is
`runPure (abstraction of root in h) pops`.  `statement_history_abs`: the same for the heap the splitter builds from a token list, whose
abstraction is `grp Statement (flatStatement toks)`.
-/
namespace Sql.BK

/-- every `TokenList` object is `root` or lies below it -/
def AllReach (h : Heap) (root : Nat) : Prop := ∀ j ks, (h.obj j).kids = some ks → Reach h root j

/-- the objects whose child lists a call changes, and how -/
theorem groupTokens_shape {h h' : Heap} {rank : Nat → Nat} {T : Nat → Text} {self g : Nat} (str : Heap → Nat → Text)
    (hinv : Inv h rank T) {cls : Cls} {a b : Nat} {ie ext : Bool}
    (hcall : groupTokens str h self cls a b ie ext = .ok (h', g)) :
    ∃ ks ks' kg, (h.obj self).kids = some ks ∧ (h'.obj self).kids = some ks' ∧ (h'.obj g).kids = some kg ∧ g ≠ self ∧ g ∈ ks' ∧
      Same h h' self g ∧ (∀ k ∈ ks, k ∈ ks' ∨ k ∈ kg) ∧ (∀ kst, (h.obj g).kids = some kst → ∀ k ∈ kst, k ∈ kg) := by
  cases hk : (h.obj self).kids with
  | none => simp [groupTokens, hk] at hcall
  | some ks =>
    cases hst : ks[a]? with
    | none => simp [groupTokens, hk, hst] at hcall
    | some st =>
      have hstMem : st ∈ ks := List.mem_of_getElem? hst
      have hksRank : ∀ k ∈ ks, rank k < rank self := hinv.rk self ks hk
      have hksLt := (hinv.range self ks hk).2
      have hselfLt := (hinv.range self ks hk).1
      have hstSelf : st ≠ self := by intro he; have := hksRank st hstMem; rw [he] at this; exact Nat.lt_irrefl _ this
      have hnd : ks.Nodup := hinv.nodup self ks hk
      cases hb : (ext && isInst (h.obj st) cls) with
      | true =>
        have hsome : (h.obj st).kids.isSome = true := by
          simp only [isInst, Bool.and_eq_true] at hb
          exact hb.2.1
        obtain ⟨kst, hkst⟩ := Option.isSome_iff_exists.mp hsome
        have htake := take_succ_of_getElem? ks a st hst
        have hsplit := slice_split ks (a + 1) (b + (if ie then 1 else 0))
        have hnd3 : ((ks.take a ++ [st]) ++ pySlice ks (a + 1) (b + (if ie then 1 else 0)) ++
            ks.drop (max (a + 1) (b + (if ie then 1 else 0)))).Nodup := by rw [← htake, ← hsplit]; exact hnd
        have hstNotSub : st ∉ pySlice ks (a + 1) (b + (if ie then 1 else 0)) := by
          intro hm
          exact (List.nodup_append.mp (List.nodup_append.mp hnd3).1).2.2 st (List.mem_append_right _ (List.mem_singleton.mpr rfl)) st hm rfl
        have hsub : ∀ k ∈ pySlice ks (a + 1) (b + (if ie then 1 else 0)), k ≠ st ∧ k ≠ self := by
          intro k hm
          refine ⟨fun he => hstNotSub (he ▸ hm), ?_⟩
          intro he
          have := hksRank k (mem_of_mem_slice hm)
          rw [he] at this; exact Nat.lt_irrefl _ this
        rw [groupTokens_ext _ h self cls a b ie ext ks kst st hk hst hkst hb hstSelf hsub] at hcall
        injection hcall with hcall
        injection hcall with hh hgg
        subst hh
        subst hgg
        refine ⟨ks, pyDelSlice ks (a + 1) (b + (if ie then 1 else 0)), kst ++ pySlice ks (a + 1) (b + (if ie then 1 else 0)),
          rfl, by simp [extHeap, hstSelf.symm], by simp [extHeap], hstSelf, ?_, ?_, ?_, ?_⟩
        · simp only [pyDelSlice, htake]
          simp
        · intro j hjs hjt
          by_cases hm : j ∈ pySlice ks (a + 1) (b + (if ie then 1 else 0))
          · simp [extHeap, hjs, hjt, hm]
          · simp [extHeap, hjs, hjt, hm]
        · intro k hm
          rw [hsplit] at hm
          simp only [pyDelSlice, List.mem_append] at hm ⊢
          rcases hm with (hm | hm) | hm
          · exact Or.inl (Or.inl hm)
          · exact Or.inr (Or.inr hm)
          · exact Or.inl (Or.inr hm)
        · intro kst' hk' k hm
          rw [hkst] at hk'
          have := Option.some.inj hk'
          subst this
          exact List.mem_append_left _ hm
      | false =>
        have hsub : ∀ k ∈ pySlice ks a (b + (if ie then 1 else 0)), k < h.size ∧ k ≠ self := by
          intro k hm
          refine ⟨hksLt k (mem_of_mem_slice hm), ?_⟩
          intro he
          have := hksRank k (mem_of_mem_slice hm)
          rw [he] at this; exact Nat.lt_irrefl _ this
        rw [groupTokens_new _ h self cls a b ie ext ks st hk hst hb hselfLt hsub] at hcall
        injection hcall with hcall
        injection hcall with hh hgg
        subst hh
        subst hgg
        have hselfNe : self ≠ h.size := by omega
        have hsplit := slice_split ks a (b + (if ie then 1 else 0))
        refine ⟨ks, ks.take a ++ h.size :: ks.drop (max a (b + (if ie then 1 else 0))), pySlice ks a (b + (if ie then 1 else 0)),
          rfl, by simp [newHeap, hselfNe], by simp [newHeap], hselfNe.symm, by simp, ?_, ?_, ?_⟩
        · intro j hjs hjg
          by_cases hm : j ∈ pySlice ks a (b + (if ie then 1 else 0))
          · simp [newHeap, hjs, hjg, hm]
          · simp [newHeap, hjs, hjg, hm]
        · intro k hm
          rw [hsplit] at hm
          simp only [List.mem_append, List.mem_cons] at hm ⊢
          rcases hm with (hm | hm) | hm
          · exact Or.inl (Or.inl hm)
          · exact Or.inr hm
          · exact Or.inl (Or.inr (Or.inr hm))
        · intro kst' hk' k _
          have := (hinv.range _ _ hk').1
          exact absurd this (Nat.lt_irrefl _)

/-- reachability survives a call, and the group it returns is reachable -/
theorem groupTokens_reach {h h' : Heap} {rank : Nat → Nat} {T : Nat → Text} {self g : Nat} (str : Heap → Nat → Text)
    (hinv : Inv h rank T) {cls : Cls} {a b : Nat} {ie ext : Bool}
    (hcall : groupTokens str h self cls a b ie ext = .ok (h', g)) :
    (∀ r x, Reach h r x → Reach h' r x) ∧ Reach h' self g := by
  obtain ⟨ks, ks', kg, hk, hk', hkg, hgs, hgm, hsame, hcov, hold⟩ := groupTokens_shape str hinv hcall
  refine ⟨?_, Reach.child hk' hgm⟩
  rintro r x ⟨p, hp⟩
  induction hp with
  | nil r => exact Reach.refl _ _
  | @cons r ks0 i k p x hk0 hi _ ih =>
    refine Reach.trans ?_ ih
    have hkm : k ∈ ks0 := List.mem_of_getElem? hi
    by_cases hrs : r = self
    · subst hrs
      rw [hk] at hk0
      have := Option.some.inj hk0
      subst this
      rcases hcov k hkm with hm | hm
      · exact Reach.child hk' hm
      · exact (Reach.child hk' hgm).trans (Reach.child hkg hm)
    · by_cases hrg : r = g
      · subst hrg
        exact Reach.child hkg (hold ks0 hk0 k hkm)
      · have := (hsame r hrs hrg).1
        exact Reach.child (this.trans hk0) hkm

theorem groupTokens_allReach {h h' : Heap} {rank : Nat → Nat} {T : Nat → Text} {self g root : Nat} (str : Heap → Nat → Text)
    (hinv : Inv h rank T) {cls : Cls} {a b : Nat} {ie ext : Bool}
    (hcall : groupTokens str h self cls a b ie ext = .ok (h', g)) (hall : AllReach h root) : AllReach h' root := by
  obtain ⟨ks, ks', kg, hk, hk', hkg, hgs, hgm, hsame, hcov, hold⟩ := groupTokens_shape str hinv hcall
  obtain ⟨hpres, hg⟩ := groupTokens_reach str hinv hcall
  have hself : Reach h' root self := hpres _ _ (hall self ks hk)
  intro j ksj hkj
  by_cases hjs : j = self
  · subst hjs; exact hself
  · by_cases hjg : j = g
    · subst hjg; exact hself.trans hg
    · have := (hsame j hjs hjg).1
      exact hpres _ _ (hall j ksj (this.symm.trans hkj))

/-! ## scripts -/

/-- the pure call an `Op` stands for -/
def Op.pure (op : Op) (ks : List Node) : Except PyErr (List Node) :=
  Sql.groupTokens ks op.cls op.start op.stop op.includeEnd op.extend

/-- fold the pure calls over a tree, each at its path -/
def runPure : Node → List (List Nat × Op) → Except PyErr Node
  | t, [] => .ok t
  | t, (p, op) :: rest =>
    match Node.updAt op.pure p t with
    | .ok t' => runPure t' rest
    | .error e => .error e

/-- the calls of a script that return, each with the path from `root` to the object it addresses in the heap on which it runs -/
inductive Script (str : Heap → Nat → Text) (root : Nat) : Heap → List Op → List (List Nat × Op) → Prop
  | nil (h : Heap) : Script str root h [] []
  | ok {h h' : Heap} {g : Nat} {op : Op} {rest : List Op} {p : List Nat} {pops : List (List Nat × Op)} :
      IsPath h root p op.self → groupTokens str h op.self op.cls op.start op.stop op.includeEnd op.extend = .ok (h', g) →
      Script str root h' rest pops → Script str root h (op :: rest) ((p, op) :: pops)
  | err {h : Heap} {e : PyErr} {op : Op} {rest : List Op} {pops : List (List Nat × Op)} :
      groupTokens str h op.self op.cls op.start op.stop op.includeEnd op.extend = .error e →
      Script str root h rest pops → Script str root h (op :: rest) pops

/-- **every script**: the heap calls are the pure calls at the paths of the addressed objects -/
theorem runOps_abs (tt : Nat → TType) (fuel root : Nat) : ∀ (ops : List Op) (h : Heap) (rank : Nat → Nat) (T : Nat → Text) (R : Nat)
    (A : Nat → Node),
    Inv h rank T → (∀ i, rank i ≤ R) → R + ops.length < fuel →
    (∀ op ∈ ops, op.start < op.stop + (if op.includeEnd then 1 else 0)) →
    AllReach h root → IsAbs tt h A →
    ∃ pops A', Script (fun hx i => strF hx fuel i) root h ops pops ∧
      (∀ pops', Script (fun hx i => strF hx fuel i) root h ops pops' → pops' = pops) ∧
      WF (runOps (fun hx i => strF hx fuel i) h ops).1 ∧
      AllReach (runOps (fun hx i => strF hx fuel i) h ops).1 root ∧
      IsAbs tt (runOps (fun hx i => strF hx fuel i) h ops).1 A' ∧
      runPure (A root) pops = .ok (A' root) := by
  intro ops
  induction ops with
  | nil =>
    intro h rank T R A hinv _ _ _ hall hA
    refine ⟨[], A, .nil h, ?_, ⟨rank, T, hinv⟩, hall, hA, rfl⟩
    intro pops' hs
    cases hs; rfl
  | cons op rest ih =>
    intro h rank T R A hinv hR hfuel hops hall hA
    have hrest : ∀ o ∈ rest, o.start < o.stop + (if o.includeEnd then 1 else 0) := fun o ho => hops o (List.mem_cons_of_mem _ ho)
    simp only [List.length_cons] at hfuel
    simp only [runOps]
    cases hc : groupTokens (fun hx i => strF hx fuel i) h op.self op.cls op.start op.stop op.includeEnd op.extend with
    | error e =>
      simp only
      obtain ⟨pops, A', hs, hu, hw, hall', hA', hrun⟩ := ih h rank T R A hinv hR (by omega) hrest hall hA
      refine ⟨pops, A', .err hc hs, ?_, hw, hall', hA', hrun⟩
      intro pops' hs'
      cases hs' with
      | ok _ hc' _ => rw [hc] at hc'; cases hc'
      | err _ hs'' => exact hu _ hs''
    | ok r =>
      obtain ⟨h', g⟩ := r
      simp only
      have hself := hR op.self
      obtain ⟨rank', T', hinv', hb⟩ := groupTokens_inv fuel op.self op.cls op.start op.stop op.includeEnd op.extend g hinv
        (by omega) (hops op List.mem_cons_self) hc
      have hA1 : IsAbs tt h' (fun i => absF tt h' (rank' i + 1) i) := isAbs_absF hinv'
      have hstep := groupTokens_abs (tt := tt) _ hinv hc hA hA1
      obtain ⟨ks, _, _, hk, _⟩ := groupTokens_shape _ hinv hc
      obtain ⟨p, hp⟩ := hall op.self ks hk
      have hall1 := groupTokens_allReach _ hinv hc hall
      obtain ⟨pops, A', hs, hu, hw, hall', hA', hrun⟩ := ih h' rank' T' (R + 1) _ hinv' (hb R hR) (by omega) hrest hall1 hA1
      refine ⟨(p, op) :: pops, A', .ok hp hc hs, ?_, hw, hall', hA', ?_⟩
      · intro pops' hs'
        cases hs' with
        | ok hp' hc' hs'' =>
          rw [hc] at hc'
          injection hc' with hc'
          injection hc' with e1 e2
          subst e1
          rw [IsPath.unique' hinv hp' hp, hu _ hs'']
        | err hc' _ => rw [hc] at hc'; cases hc'
      · obtain ⟨_, _, hpath⟩ := hstep
        have hthis : Node.updAt op.pure p (A root) = .ok (absF tt h' (rank' root + 1) root) := hpath root p hp
        simp only [runPure, hthis]
        exact hrun

/-! ## the statement the splitter builds -/

theorem mkStatement_kids (vals : List Text) (g : Nat) (ks : List Nat) (hk : ((mkStatement vals).obj g).kids = some ks) :
    g = vals.length ∧ ks = List.range vals.length := by
  simp only [mkStatement] at hk
  split at hk
  · cases hk
  · split at hk
    · rename_i h2; exact ⟨h2, (Option.some.inj hk).symm⟩
    · cases hk

/-- the token types of the leaves of a statement -/
def ttOf (toks : List Tok) (i : Nat) : TType := (toks.getD i default).tt

theorem mkStatement_abs (toks : List Tok) {A : Nat → Node} (hA : IsAbs (ttOf toks) (mkStatement (toks.map (·.val))) A) :
    A toks.length = .grp .Statement (flatStatement toks) := by
  have hk : ((mkStatement (toks.map (·.val))).obj toks.length).kids = some (List.range toks.length) := by
    simp [mkStatement]
  have hc : ((mkStatement (toks.map (·.val))).obj toks.length).cls = .Statement := by
    simp [mkStatement]
  rw [hA.grp _ _ hk, hc]
  congr 1
  simp only [flatStatement]
  apply List.ext_getElem
  · simp
  · intro i h1 h2
    simp only [List.length_map, List.length_range] at h1
    have hl : ((mkStatement (toks.map (·.val))).obj i).kids = none := by
      simp [mkStatement, h1]
    have hv : ((mkStatement (toks.map (·.val))).obj i).value = toks[i].val := by
      simp [mkStatement, h1, List.getD_eq_getElem?_getD]
    simp only [List.getElem_map, List.getElem_range]
    rw [hA.leaf i hl, hv]
    simp [ttOf, List.getD_eq_getElem?_getD, h1]

theorem mkStatement_allReach (vals : List Text) : AllReach (mkStatement vals) vals.length := by
  intro j ks hk
  obtain ⟨rfl, _⟩ := mkStatement_kids vals j ks hk
  exact Reach.refl _ _

/-- **the whole life of a statement, in the pure model**: the heap built by the splitter from `toks`, regrouped by any script of
`group_tokens` calls with non-empty slices, stays well-formed, and the pure tree of the statement object is the flat statement with the
same calls applied by the pure `Sql.groupTokens` at the paths of the objects they address. -/
theorem statement_history_abs (toks : List Tok) (hne : toks ≠ []) (ops : List Op) (fuel : Nat) (hfuel : 1 + ops.length < fuel)
    (hops : ∀ op ∈ ops, op.start < op.stop + (if op.includeEnd then 1 else 0)) :
    ∃ pops A', Script (fun hx i => strF hx fuel i) toks.length (mkStatement (toks.map (·.val))) ops pops ∧
      (∀ pops', Script (fun hx i => strF hx fuel i) toks.length (mkStatement (toks.map (·.val))) ops pops' → pops' = pops) ∧
      WF (runOps (fun hx i => strF hx fuel i) (mkStatement (toks.map (·.val))) ops).1 ∧
      IsAbs (ttOf toks) (runOps (fun hx i => strF hx fuel i) (mkStatement (toks.map (·.val))) ops).1 A' ∧
      runPure (.grp .Statement (flatStatement toks)) pops = .ok (A' toks.length) := by
  have hvne : toks.map (·.val) ≠ [] := by intro he; exact hne (List.map_eq_nil_iff.mp he)
  have hinv := mkStatement_inv (toks.map (·.val)) hvne
  have hA0 : IsAbs (ttOf toks) (mkStatement (toks.map (·.val))) _ := isAbs_absF hinv
  have hroot := mkStatement_abs toks hA0
  have hall := mkStatement_allReach (toks.map (·.val))
  simp only [List.length_map] at hall hinv
  obtain ⟨pops, A', hs, hu, hw, _, hA', hrun⟩ := runOps_abs (ttOf toks) fuel toks.length ops _ _ _ 1 _ hinv
    (by intro i; split <;> omega) hfuel hops hall hA0
  rw [hroot] at hrun
  exact ⟨pops, A', hs, hu, hw, hA', hrun⟩

end Sql.BK

/-! ## composing pure scripts (what a proof that a grouping pass is a script would use) -/

namespace Sql.BK

theorem runPure_append : ∀ (a b : List (List Nat × Op)) (t t1 t2 : Node), runPure t a = .ok t1 → runPure t1 b = .ok t2 →
    runPure t (a ++ b) = .ok t2
  | [], b, t, t1, t2, h1, h2 => by
    simp only [runPure] at h1
    injection h1 with h1
    subst h1
    exact h2
  | (p, op) :: a, b, t, t1, t2, h1, h2 => by
    simp only [runPure, List.cons_append] at h1 ⊢
    cases hu : Node.updAt op.pure p t with
    | error e => rw [hu] at h1; cases h1
    | ok t' =>
      rw [hu] at h1
      simp only at h1 ⊢
      exact runPure_append a b t' t1 t2 h1 h2

/-- one pure call on the children of a group is a one-call script -/
theorem runPure_single (c : Cls) (ks ks' : List Node) (op : Op) (h : op.pure ks = .ok ks') :
    runPure (.grp c ks) [([], op)] = .ok (.grp c ks') := by
  simp only [runPure, Node.updAt, h]

theorem set_self_of_getElem? {α : Type} (l : List α) (i : Nat) (x : α) (h : l[i]? = some x) : l.set i x = l := by
  apply List.ext_getElem?
  intro j
  rw [List.getElem?_set]
  by_cases hij : i = j
  · subst hij
    simp only [if_true, (List.getElem?_eq_some_iff.mp h).1, h]
  · simp only [hij, if_false]

/-- a script on the `i`-th child is a script on the parent (paths prefixed by `i`) -/
theorem runPure_lift (c : Cls) (i : Nat) : ∀ (pops : List (List Nat × Op)) (ks : List Node) (k k' : Node),
    ks[i]? = some k → runPure k pops = .ok k' →
    runPure (.grp c ks) (pops.map fun po => (i :: po.1, po.2)) = .ok (.grp c (ks.set i k'))
  | [], ks, k, k', hi, h => by
    simp only [runPure] at h
    injection h with h
    subst h
    simp only [List.map_nil, runPure, set_self_of_getElem? ks i k hi]
  | (p, op) :: pops, ks, k, k', hi, h => by
    simp only [runPure] at h
    cases hu : Node.updAt op.pure p k with
    | error e => rw [hu] at h; cases h
    | ok k1 =>
      rw [hu] at h
      simp only at h
      have hi1 : (ks.set i k1)[i]? = some k1 := by
        rw [List.getElem?_set]
        simp only [if_true, (List.getElem?_eq_some_iff.mp hi).1]
      have := runPure_lift c i pops (ks.set i k1) k1 k' hi1 h
      simp only [List.map_cons, runPure, Node.updAt, hi, hu]
      rw [this, List.set_set]

end Sql.BK
