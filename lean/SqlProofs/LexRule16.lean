import SqlProofs.LexDedicated
import SqlModel.Splitter
/-!
# SqlProofs.LexRule16 — the keywords of the first dedicated rule `(CASE|IN|VALUES|USING|FROM|AS)\b`, with their true context

This rule precedes the identifier rules with look-arounds, so it needs neither "not after a `.`" nor a delimiter other than its own `\b`:
for every casing, after anything, before any character that is not a word character (blank, `(`, `.`, `;` …): one `Keyword` token.
-/
namespace Sql

/-- window contexts differ only in what is excluded for the delimiter and for the preceding character -/
def mkK (excl prevExcl : List CpSet) (w : Text) : WCtx :=
  { w := Array.mk w, excl := excl, prevExcl := prevExcl, word := Gen.wordSet }

theorem mkK_at_case (X Y : List CpSet) {w' w : Text} (h : SameFold w' w) (S : CpSet) (hS : caseClosedSet S = true) (off : Nat) :
    S.mem ((mkK X Y w').at off) = S.mem ((mkK X Y w).at off) := mem_at_case h S hS off

theorem aover_case_mk (X Y : List CpSet) {w' w : Text} (h : SameFold w' w) : ∀ r : Re, caseClosedRe r = true →
    ∀ off, aover (mkK X Y w') r off = aover (mkK X Y w) r off := by
  have hsz : (mkK X Y w').w.size = (mkK X Y w).w.size := by simp [mkK, h.length]
  have hword : caseClosedSet Gen.wordSet = true := by
    have := wordSets_case_closed; simp only [Bool.and_eq_true] at this; exact this.1
  have hat := fun S hS off => mkK_at_case X Y h S hS off
  intro r
  induction r with
  | eps => intro _ off; rfl
  | set S =>
    intro hr off
    simp only [aover, aSet, hsz, hat S hr off]
    rfl
  | cat a b iha ihb =>
    intro hr off
    simp only [caseClosedRe, Bool.and_eq_true] at hr
    have hb : aover (mkK X Y w') b = aover (mkK X Y w) b := funext (ihb hr.2)
    simp only [aover, iha hr.1 off, hb]
  | alt a b iha ihb =>
    intro hr off
    simp only [caseClosedRe, Bool.and_eq_true] at hr
    simp only [aover, iha hr.1 off, ihb hr.2 off]
  | rep lo hi g r ih =>
    intro hr off
    have hf : aover (mkK X Y w') r = aover (mkK X Y w) r := funext (ih hr)
    simp only [aover, hf, hsz]
  | grp n r ih => intro hr off; simp only [aover]; exact ih hr off
  | bref n => intro _ off; rfl
  | look a n k r ih =>
    intro hr off
    simp only [aover, ih hr off]
    rfl
  | atEnd => intro _ off; rfl
  | wordB =>
    intro _ off
    simp only [aover, aWordB, hsz]
    have e1 : (mkK X Y w').word = Gen.wordSet := rfl
    have e2 : (mkK X Y w).word = Gen.wordSet := rfl
    rw [e1, e2, hat _ hword (off - 1), hat _ hword off]
    rfl

theorem aexact_case_mk (X Y : List CpSet) {w' w : Text} (h : SameFold w' w) : ∀ r : Re, caseClosedRe r = true →
    ∀ off, aexact (mkK X Y w') r off = aexact (mkK X Y w) r off := by
  have hsz : (mkK X Y w').w.size = (mkK X Y w).w.size := by simp [mkK, h.length]
  have hword : caseClosedSet Gen.wordSet = true := by
    have := wordSets_case_closed; simp only [Bool.and_eq_true] at this; exact this.1
  have hat := fun S hS off => mkK_at_case X Y h S hS off
  intro r
  induction r with
  | eps => intro _ off; rfl
  | set S =>
    intro hr off
    simp only [aexact, aSet, hsz, hat S hr off]
    rfl
  | cat a b iha ihb =>
    intro hr off
    simp only [caseClosedRe, Bool.and_eq_true] at hr
    have hb : aexact (mkK X Y w') b = aexact (mkK X Y w) b := funext (ihb hr.2)
    simp only [aexact, iha hr.1 off, hb]
  | alt a b iha ihb =>
    intro hr off
    simp only [caseClosedRe, Bool.and_eq_true] at hr
    simp only [aexact, iha hr.1 off, ihb hr.2 off]
  | rep lo hi g r ih =>
    intro hr off
    have hf : aexact (mkK X Y w') r = aexact (mkK X Y w) r := funext (ih hr)
    simp only [aexact, hf, hsz]
  | grp n r ih => intro hr off; simp only [aexact]; exact ih hr off
  | bref n => intro _ off; rfl
  | look a n k r ih => intro _ off; rfl
  | atEnd => intro _ off; rfl
  | wordB =>
    intro _ off
    simp only [aexact, aWordBX, hsz]
    have e1 : (mkK X Y w').word = Gen.wordSet := rfl
    have e2 : (mkK X Y w).word = Gen.wordSet := rfl
    rw [e1, e2, hat _ hword (off - 1), hat _ hword off]
    rfl

theorem dedFrom_case_mk (X Y : List CpSet) {w' w : Text} (h : SameFold w' w) : ∀ (rs : List Rule) (m k : Nat),
    (rs.all fun r => caseClosedRe r.re) = true → dedFrom (mkK X Y w') rs m k = dedFrom (mkK X Y w) rs m k := by
  intro rs
  induction rs with
  | nil => intro m k _; rfl
  | cons x xs ih =>
    intro m k hall
    simp only [List.all_cons, Bool.and_eq_true] at hall
    simp only [dedFrom, aover_case_mk X Y h x.re hall.1 0, aexact_case_mk X Y h x.re hall.1 0, ih (m / 2) (k / 2) hall.2]

/-- without the skip shapes -/
theorem dedFrom_spec0 (K : WCtx) (c0 : Cp) : ∀ (rs : List Rule) (act : Action) (e : Nat),
    dedFrom K rs (maskOf c0 rs) 0 = some (act, e) →
    ∃ front r back l, rs = front ++ r :: back ∧ r.act = act ∧ aexact K r.re 0 = some (e :: l) ∧
      ∀ x ∈ front, start c0 x.re = .dead ∨ aover K x.re 0 = some [] := by
  intro rs
  induction rs with
  | nil => intro act e h; simp [dedFrom] at h
  | cons x xs ih =>
    intro act e h
    have hm2 : maskOf c0 (x :: xs) / 2 = maskOf c0 xs := by
      simp only [maskOf]; split <;> omega
    have hm0 : (maskOf c0 (x :: xs) % 2 == 0) = true → start c0 x.re = .dead := by
      intro h1
      simp only [maskOf, beq_iff_eq] at h1
      by_cases hd : start c0 x.re = .dead
      · exact hd
      · rw [if_neg hd] at h1; omega
    simp only [dedFrom] at h
    by_cases hcond : (maskOf c0 (x :: xs) % 2 == 0 || 0 % 2 == 1 || aover K x.re 0 == some []) = true
    · rw [if_pos hcond, hm2] at h
      obtain ⟨front, r, back, l, e1, e2, e3, e4⟩ := ih act e h
      refine ⟨x :: front, r, back, l, by simp [e1], e2, e3, ?_⟩
      intro y hy
      simp only [List.mem_cons] at hy
      rcases hy with rfl | hy
      · simp only [Bool.or_eq_true] at hcond
        rcases hcond with (h1 | h1) | h1
        · exact Or.inl (hm0 h1)
        · simp at h1
        · exact Or.inr (by simpa using h1)
      · exact e4 y hy
    · rw [if_neg hcond] at h
      split at h
      · rename_i e' l' hx
        simp only [Option.some.injEq, Prod.mk.injEq] at h
        obtain ⟨rfl, rfl⟩ := h
        exact ⟨[], x, xs, l', rfl, rfl, hx, by simp⟩
      · simp at h

/-- the delimiter is only known not to be a word character; nothing is known about the preceding character -/
def k16 (w : Text) : WCtx := mkK [Gen.wordSet] [] w

def ded16 (w : Text) : Option (Action × Nat) :=
  match w with
  | c0 :: _ => dedFrom (k16 w) defaultCfg.rules (maskOf c0 defaultCfg.rules) 0
  | [] => none

/-- the scan step on `w` followed by a non-word character, after anything, is what `ded16` computes -/
theorem ded16_token (s : Array Cp) (p : Nat) (pre w rest : List Cp) (c : Cp) (act : Action) (e : Nat)
    (h : s.toList = pre ++ w ++ c :: rest) (hp : pre.length = p) (hc : Gen.wordSet.mem c = false)
    (hcert : ded16 w = some (act, e)) :
    firstMatch (defaultCfg.env s) defaultCfg.rules p = some (act, p + e) := by
  cases w with
  | nil => simp [ded16] at hcert
  | cons c0 run =>
    simp only [ded16] at hcert
    obtain ⟨front, r, back, l, hrules, hact, hex, hfront⟩ := dedFrom_spec0 _ c0 _ act e hcert
    have h0 : (defaultCfg.env s).s.toList.drop p = c0 :: (run ++ c :: rest) :=
      sfx_of_split s pre _ p (by simpa using h) hp
    have hg0 := get_of_drop_cons _ _ _ _ h0
    have H : WSound (k16 (c0 :: run)) (defaultCfg.env s) p c := by
      refine ⟨⟨rest, h0⟩, ?_, ?_, by simp [LexCfg.env, defaultCfg, k16, mkK]⟩
      · intro X hX
        simp only [k16, mkK, List.mem_cons, List.not_mem_nil, or_false] at hX
        subst hX; exact hc
      · cases hl : pre.getLast? with
        | none =>
          left
          have : pre = [] := by simpa using hl
          rw [← hp, this]; rfl
        | some d =>
          right
          obtain ⟨ys, hys⟩ := List.getLast?_eq_some_iff.mp hl
          refine ⟨d, ?_, by intro X hX; simp [k16, mkK] at hX⟩
          show s[p - 1]? = some d
          have hp1 : p - 1 = ys.length := by rw [← hp, hys]; simp
          rw [hp1, ← Array.getElem?_toList, h, hys]
          simp
    have hpre : ∀ x ∈ front, derivs (defaultCfg.env s) x.re ⟨p, []⟩ = [] := by
      intro x hx
      rcases hfront x hx with hd | ha
      · exact dead_at _ c0 _ hd p hg0
      · have := aover_sound _ _ p c H x.re 0 [] ha ⟨p, []⟩ rfl
        cases hd : derivs (defaultCfg.env s) x.re ⟨p, []⟩ with
        | nil => rfl
        | cons z t =>
          obtain ⟨o, ho, _⟩ := this z (by rw [hd]; simp)
          simp at ho
    obtain ⟨st, more, hd, hpos⟩ := aexact_head _ _ p c H r.re e l hex
    rw [hrules, firstMatch_split _ _ r back p hpre st more hd, hact, hpos]

theorem ded16_case (w' w : Text) (h : w'.map asciiFold = w.map asciiFold) : ded16 w' = ded16 w := by
  have hs : SameFold w' w := h
  unfold ded16
  cases w' with
  | nil =>
    cases w with
    | nil => rfl
    | cons c t => simp at h
  | cons c' t' =>
    cases w with
    | nil => simp at h
    | cons c t =>
      have hc : asciiFold c' = asciiFold c := by
        simp only [List.map_cons, List.cons.injEq] at h; exact h.1
      simp only [k16]
      rw [maskOf_case c c' hc _ rules_case_closed, dedFrom_case_mk _ _ hs _ _ _ rules_case_closed]

/-- the six words of the rule -/
def kw16Words : List String := ["CASE", "IN", "VALUES", "USING", "FROM", "AS"]

/-- table obligation (evaluated): each of them is taken by a rule with action `Keyword` whose first match is the whole word, when followed
by a non-word character — with no assumption on what precedes -/
theorem kw16_cert : (kw16Words.all fun n => ded16 (txt n) == some (.tok T.Keyword, (txt n).length)) = true := by decide +kernel

/-- **`CASE IN VALUES USING FROM AS` in every casing, in their true context**: after anything (also right after a `.`), before any
character that is not a word character (a blank, `(`, `.`, `'`, `;` …): the scan step yields one `Keyword` token over exactly the word. -/
theorem kw16_word_any_casing (name : String) (hmem : name ∈ kw16Words) (s : Array Cp) (p : Nat) (pre w' rest : List Cp) (c : Cp)
    (hcase : w'.map asciiFold = (txt name).map asciiFold)
    (h : s.toList = pre ++ w' ++ c :: rest) (hp : pre.length = p) (hc : Gen.wordSet.mem c = false) :
    firstMatch (defaultCfg.env s) defaultCfg.rules p = some (.tok T.Keyword, p + w'.length) := by
  have hall := kw16_cert
  simp only [List.all_eq_true, beq_iff_eq] at hall
  have hcert := hall name hmem
  have hlen : w'.length = (txt name).length := SameFold.length hcase
  rw [ded16_token s p pre w' rest c _ _ h hp hc (by rw [ded16_case w' (txt name) hcase]; exact hcert), hlen]

end Sql
