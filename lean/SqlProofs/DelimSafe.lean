import SqlModel.Grouping.DelimSafe
import SqlProofs.GroupLeavesStrict
/-!
# SqlProofs.DelimSafe — what grouping guarantees about the delimiters of bracket/block nodes (bridge for C07)

`DelimSafe` (SqlModel/Grouping/DelimSafe.lean) is the decidable hypothesis on a flat statement; `delimShapeL` is the
child-level property of the grouped tree the statement filters want ("every Parenthesis/SquareBrackets/Case/If/For/
Begin node is `[opener, …, closer, trailing comments]`").

Proved here (leaf level, no neighbourhood condition needed): `delims_kept_leafwise` — if the tree right after the
matching passes has the delimiter shape (part of `DelimSafe`; it can only fail because `group_begin` takes the `END` of
a Case), then in the final tree every bracket/block node, read as a leaf sequence, starts with its opening token and
ends with its closing token followed by comment/whitespace leaves only: later passes can wrap a delimiter into a
sub-group (`(x as)` → `Parenthesis[ (, Identifier[x as )] ]`) but never move it, re-type it, or put a non-comment leaf
behind it.

The child-level implication `DelimSafe st → delimShapeL (group … st)` is proved in `SqlProofs/DelimChild/*`
(`Sql.delims_kept_childwise`).  Every neighbourhood `DelimSafe` rejects has an absorbing witness:
`(::int)`, `(x::)`, `( as x)`, `(x as)`, `f( as)`, `(a := )`, `case , x end`, `case x , end`, `case x as end`,
`case :: x end`, `(at time zone 'utc' as x)`, `begin select 1 where x end`, `if x where y end if`, `case begin end`,
`case when a then begin x end end`, `for x in y loop z , end loop`.
-/
namespace Sql

variable {u : Text → Text}

/-- the leaves of a bracket/block node: opening token, …, closing token, then comment/whitespace leaves -/
def leafDelim (u : Text → Text) (e : Cls × List Tok) : Prop :=
  ∀ mo mc, delimTables e.1 = some (mo, mc) →
    ∃ o cl mid extra, e.2 = o :: (mid ++ cl :: extra) ∧ (Node.tok o.tt o.val).matchAny u mo = true ∧
      (Node.tok cl.tt cl.val).matchAny u mc = true ∧ extra.all cmtLeaf = true

theorem matchAny_tok {x : Node} {ps : List MPat} (h : x.matchAny u ps = true) : ∃ tt v, x = Node.tok tt v := by
  cases x with
  | tok tt v => exact ⟨tt, v, rfl⟩
  | grp c k => simp [Node.matchAny, Node.matchP, Node.match] at h

theorem leavesL_snoc (l : List Node) (x : Node) : Node.leavesL (l ++ [x]) = Node.leavesL l ++ x.leaves := by
  rw [leavesL_append]; simp

/-- a node list with the delimiter shape: the bracket/block entries have delimiter leaves -/
theorem delimKidsSafe_leaf {c : Cls} {ks : List Node} (h : delimKidsSafe u c ks = true) : leafDelim u (c, Node.leavesL ks) := by
  intro mo mc ht
  simp only at ht
  unfold delimKidsSafe at h
  rw [ht] at h
  simp only at h
  cases ks with
  | nil => simp at h
  | cons o rest =>
    simp only at h
    cases hl : rest.getLast? with
    | none => simp [hl] at h
    | some cl =>
      simp only [hl, Bool.and_eq_true] at h
      obtain ⟨⟨⟨⟨ho, hc⟩, _⟩, _⟩, _⟩ := h
      obtain ⟨ott, ov, rfl⟩ := matchAny_tok ho
      obtain ⟨ctt, cv, rfl⟩ := matchAny_tok hc
      have hrest : rest = rest.dropLast ++ [Node.tok ctt cv] := by
        have hne : rest ≠ [] := by intro h0; subst h0; simp at hl
        have h1 := List.dropLast_concat_getLast hne
        have h2 : rest.getLast hne = Node.tok ctt cv := by
          rw [List.getLast?_eq_getLast hne] at hl
          exact Option.some.inj hl
        rw [h2] at h1
        exact h1.symm
      refine ⟨⟨ott, ov⟩, ⟨ctt, cv⟩, Node.leavesL rest.dropLast, [], ?_, ho, hc, rfl⟩
      rw [leavesL_cons, leaves_tok]
      conv => lhs; rw [hrest, leavesL_snoc]
      simp

theorem six_tables {c : Cls} (h : sixCls c = true) : ∃ mo mc, delimTables c = some (mo, mc) := by
  cases c <;> first | exact ⟨_, _, rfl⟩ | (exfalso; revert h; decide)

mutual
theorem Node.delimSafe_leaf : (n : Node) → n.delimSafe u = true → ∀ e ∈ n.brackets, leafDelim u e
  | .tok _ _, _ => by intro e he; simp at he
  | .grp c ks, h => by
    simp only [Node.delimSafe, Bool.and_eq_true] at h
    intro e he
    simp only [brackets_grp, List.mem_append] at he
    rcases he with he | he
    · split at he
      · simp only [List.mem_singleton] at he
        subst he
        exact delimKidsSafe_leaf h.1
      · cases he
    · exact delimSafeL_leaf ks h.2 e he
theorem delimSafeL_leaf : (ks : List Node) → delimSafeL u ks = true → ∀ e ∈ bracketsL ks, leafDelim u e
  | [], _ => by intro e he; simp at he
  | k :: ks, h => by
    simp only [delimSafeL, Bool.and_eq_true] at h
    intro e he
    simp only [bracketsL_cons, List.mem_append] at he
    rcases he with he | he
    · exact Node.delimSafe_leaf k h.1 e he
    · exact delimSafeL_leaf ks h.2 e he
end

/-- the patterns of the six classes never have type `Wildcard` (so a delimiter is never re-typed) -/
theorem delimTables_notWildcard {c : Cls} {mo mc : List MPat} (h : delimTables c = some (mo, mc)) :
    (∀ p ∈ mo, p.tt ≠ T.Wildcard) ∧ (∀ p ∈ mc, p.tt ≠ T.Wildcard) := by
  cases c <;> first
    | (simp [delimTables, matchingTables] at h; done)
    | (simp only [delimTables, matchingTables, Option.some.injEq, Prod.mk.injEq] at h
       obtain ⟨rfl, rfl⟩ := h
       exact ⟨by decide, by decide⟩)

theorem matchAny_tt_mem {tt : TType} {v : Text} {ps : List MPat} (h : (Node.tok tt v).matchAny u ps = true) :
    ∃ p ∈ ps, p.tt = tt := by
  simp only [Node.matchAny, List.any_eq_true] at h
  obtain ⟨p, hp, hm⟩ := h
  refine ⟨p, hp, ?_⟩
  simp only [Node.matchP, Node.match] at hm
  split at hm
  · cases hm
  · rename_i hne
    simpa [bne_iff_ne] using (by simpa using hne : ¬ (tt != p.tt) = true) |> fun h => (by simpa using h : tt = p.tt).symm

theorem leaf1S_keep {a b : Tok} (h : LeafRel1S a b) (hw : a.tt ≠ T.Wildcard) : b = a := by
  rcases h.2 with h1 | ⟨h1, _⟩
  · have h0 := h.1
    cases a; cases b
    simp only at h0 h1
    rw [h0, h1]
  · exact absurd h1 hw

/-- the delimiter leaves survive a `BrRelF` step -/
theorem BrRelF.leafDelim {e e' : Cls × List Tok} (h : BrRelF e e') (hd : leafDelim u e) : leafDelim u e' := by
  intro mo mc ht
  obtain ⟨hc, l2, x, he', hrel, hx⟩ := h
  rw [← hc] at ht
  obtain ⟨o, cl, mid, extra, he, ho, hcl, hex⟩ := hd mo mc ht
  obtain ⟨hwo, hwc⟩ := delimTables_notWildcard ht
  rw [he] at hrel
  cases hrel with
  | @cons _ o' _ r1 ho' hrest =>
    obtain ⟨mid', r2, rfl, _, hr2⟩ := hrest.split_left
    cases hr2 with
    | @cons _ cl' _ extra' hcl' hex' =>
      have eo : o' = o := by
        obtain ⟨p, hp, hpt⟩ := matchAny_tt_mem ho
        exact leaf1S_keep ho' (fun hh => hwo p hp (hpt.trans hh))
      have ec : cl' = cl := by
        obtain ⟨p, hp, hpt⟩ := matchAny_tt_mem hcl
        exact leaf1S_keep hcl' (fun hh => hwc p hp (hpt.trans hh))
      subst eo; subst ec
      refine ⟨o', cl', mid', extra' ++ x, by rw [he']; simp, ho, hcl, ?_⟩
      simp [List.all_append, hex'.cmt hex, hx]

theorem BrAllF.mem {a b : List (Cls × List Tok)} (h : BrAllF a b) : ∀ e' ∈ b, ∃ e ∈ a, BrRelF e e' := by
  induction h with
  | nil => intro e' he'; cases he'
  | @cons e e' es es' hx _ ih =>
    intro x hx'
    cases hx' with
    | head => exact ⟨e, List.mem_cons_self, hx⟩
    | tail _ hm =>
      obtain ⟨y, hy, hr⟩ := ih x hm
      exact ⟨y, List.mem_cons_of_mem _ hy, hr⟩

/-- **the delimiters are kept, leaf-wise**: if the matched tree has the delimiter shape, every bracket/block node of
the final tree starts with its opening token and ends with its closing token followed by comments/whitespace only -/
theorem groupWith_delims_leafwise {fuel : Nat} {st : List Tok} {ks' : List Node}
    (hs : DelimSafeWith u fuel st = true) (h : groupWith u fuel (flatStatement st) = .ok ks') :
    ∀ e ∈ bracketsL ks', leafDelim u e := by
  unfold DelimSafeWith at hs
  simp only [Bool.and_eq_true] at hs
  obtain ⟨m7, h7, hb⟩ := groupWith_brackets_total h (clL_flat st)
  have h7' : runPasses u fuel .Statement (Gen.passOrder.take 7) (flatStatement st) = .ok m7 := h7
  rw [h7'] at hs
  intro e' he'
  obtain ⟨e, he, hr⟩ := hb.mem e' he'
  exact hr.leafDelim (delimSafeL_leaf m7 hs.2 e he)

theorem delims_kept_leafwise {st : List Tok} {ks' : List Node} (hs : DelimSafe st = true)
    (h : group 200 (flatStatement st) = .ok ks') : ∀ e ∈ bracketsL ks', leafDelim kwNorm e :=
  groupWith_delims_leafwise hs h

end Sql
