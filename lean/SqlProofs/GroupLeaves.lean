import SqlModel.Grouping
import SqlProofs.Group.Basic
import SqlProofs.Group.Lift
import SqlProofs.Group.Matching
import SqlProofs.Group.Driver
import SqlProofs.Group.DriverPasses
import SqlProofs.Group.AdHoc
/-!
# SqlProofs.GroupLeaves — grouping is purely structural

`group_leaves`: the leaves of the grouped statement are the leaves of the flat statement — same values, same
order, same types except that `group_operator` may have re-typed a token to `Operator` (`LeafRel`).
`group_text`: the text is unchanged.
Every name `passByName` knows maps to a leaves-preserving pass and every other name to the failing pass, so the
theorem holds for *any* pass list, in particular for the generated `Gen.passOrder`, whatever it lists.
-/
namespace Sql

/-- a pass keeps the leaves up to `LeafRel` -/
abbrev PassLeaf (p : Pass) : Prop := PassRel LeafRel p

theorem unknownPass_leaves : PassLeaf unknownPass := by
  intro fuel c ks ks' h
  simp [unknownPass] at h

theorem matchingPass_leaves (u : Text → Text) (cls : Cls) (o cl : List MPat) : PassLeaf (matchingPass u cls o cl) :=
  fun _ _ _ _ h => groupMatching_leaves h

theorem matchingPassOf_leaves (u : Text → Text) (c : Cls) : PassLeaf (matchingPassOf u c) := by
  unfold matchingPassOf
  split
  · exact matchingPass_leaves _ _ _ _
  · exact unknownPass_leaves

theorem driverPass_leaves {cfg : DrvCfg} (hp : PostLeaf cfg) : PassLeaf (driverPass cfg) :=
  fun _ _ _ _ h => groupDriver_leaves hp h

theorem adHocPass_leaves (skip : Option (List Cls)) {body} (hb : KidsEq body) : PassLeaf (adHocPass skip body) := by
  unfold adHocPass
  split
  · exact recursePass_leaves hb.toLeafRel
  · exact fun _ c ks ks' h => hb.toLeafRel c ks ks' h

theorem typedLiteralPass_leaves (u : Text → Text) : PassLeaf (typedLiteralPass u) := by
  intro fuel c ks ks' h
  unfold typedLiteralPass at h
  split at h
  · cases h
  · rename_i ks1 h1
    exact (groupDriver_leaves (postLeaf_typedLiteral0 u) h1).trans (groupDriver_leaves (postLeaf_typedLiteral1 u) h)

theorem PassLeaf.ite {c : Prop} [Decidable c] {a b : Pass} (ha : PassLeaf a) (hb : PassLeaf b) :
    PassLeaf (if c then a else b) := by
  by_cases h : c
  · rw [if_pos h]; exact ha
  · rw [if_neg h]; exact hb

/-- every pass `passByName` can return keeps the leaves (unknown names give the failing pass) -/
theorem passByName_leaves (u : Text → Text) (name : String) : PassLeaf (passByName u name) := by
  unfold passByName
  repeat' apply PassLeaf.ite
  all_goals first
    | exact unknownPass_leaves
    | exact matchingPassOf_leaves _ _
    | exact typedLiteralPass_leaves _
    | exact adHocPass_leaves _ (groupCommentsBody_leaves u)
    | exact adHocPass_leaves _ (groupOverBody_leaves u)
    | exact adHocPass_leaves _ (groupFunctionsBody_leaves u)
    | exact adHocPass_leaves _ (groupWhereBody_leaves u)
    | exact adHocPass_leaves _ (groupIdentifierBody_leaves u)
    | exact adHocPass_leaves _ (groupOrderBody_leaves u)
    | exact adHocPass_leaves _ (groupAliasedBody_leaves u)
    | exact adHocPass_leaves _ (alignCommentsBody_leaves u)
    | exact adHocPass_leaves _ (groupValuesBody_leaves u)
    | exact driverPass_leaves (postLeaf_period u)
    | exact driverPass_leaves (postLeaf_arrays u)
    | exact driverPass_leaves (postLeaf_typecasts u)
    | exact driverPass_leaves (postLeaf_tzcasts u)
    | exact driverPass_leaves (postLeaf_operator u)
    | exact driverPass_leaves (postLeaf_comparison u)
    | exact driverPass_leaves (postLeaf_as u)
    | exact driverPass_leaves (postLeaf_assignment u)
    | exact driverPass_leaves (postLeaf_identifierList u)

theorem runPasses_leaves (u : Text → Text) (fuel : Nat) (c : Cls) :
    ∀ (names : List String) (ks ks' : List Node),
      runPasses u fuel c names ks = .ok ks' → LeafRel (Node.leavesL ks) (Node.leavesL ks') := by
  intro names
  induction names with
  | nil => intro ks ks' h; simp [runPasses] at h; subst h; exact LeafRel.refl _
  | cons p ps ih =>
    intro ks ks' h
    simp only [runPasses] at h
    cases hp : passByName u p fuel c ks with
    | error e => simp [hp] at h
    | ok ks1 =>
      simp only [hp] at h
      exact (passByName_leaves u p fuel c ks ks1 hp).trans (ih _ _ h)

theorem groupWith_leaves {u : Text → Text} {fuel : Nat} {ks ks' : List Node}
    (h : groupWith u fuel ks = .ok ks') : LeafRel (Node.leavesL ks) (Node.leavesL ks') :=
  runPasses_leaves u fuel .Statement Gen.passOrder ks ks' h

/-- **grouping is purely structural**: same leaf values in the same order; same leaf types, except re-typing to
`Operator` -/
theorem group_leaves {fuel : Nat} {ks ks' : List Node} (h : group fuel ks = .ok ks') :
    LeafRel (Node.leavesL ks) (Node.leavesL ks') :=
  groupWith_leaves h

/-- grouping preserves the text -/
theorem group_text {fuel : Nat} {ks ks' : List Node} (h : group fuel ks = .ok ks') :
    Node.textL ks' = Node.textL ks :=
  textL_eq_of_leafRel (group_leaves h)

/-- the statement node built from a flat statement has the statement's tokens as leaves (up to `LeafRel`) -/
theorem groupStatement_leaves {fuel : Nat} {st : List Tok} {n : Node} (h : groupStatement fuel st = .ok n) :
    LeafRel st n.leaves := by
  unfold groupStatement at h
  split at h
  · cases h
  · rename_i ks hk
    cases h
    have := group_leaves hk
    have hflat : ∀ (l : List Tok), Node.leavesL (l.map fun t => Node.tok t.tt t.val) = l := by
      intro l
      induction l with
      | nil => simp
      | cons t l ih => simp [ih]
    rw [hflat] at this
    simpa using this

end Sql
