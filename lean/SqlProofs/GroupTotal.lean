import SqlProofs.Group.Safe
/-!
# SqlProofs.GroupTotal — `grouping.group` never raises anything but `RecursionError` (property C07)

`group_total`: on a well-formed child list — `goodL` (no empty group; last child of a bracket group not a `Keyword`
leaf) and `fgoodL` (first child of a bracket group not a `Keyword` leaf; both hold trivially for the flat statement
the splitter yields, `groupStatement_total`) — `group fuel ks` either returns or fails with `recursionError`; no
pass can raise `IndexError`, `TypeError`, … and the `loopBound` guard of the model's `while` loops is never hit.
The second hypothesis is needed: a Parenthesis whose first child is a WHERE keyword followed by one more child makes
`group_where` evaluate `tokens[1:-1][-1]` on an empty slice (`IndexError`, in Python as in the model).
`group_fuel_enough`: some fuel suffices, and from then on the result does not depend on the fuel; every single
pass except `group_typed_literal` (two `_group` runs) returns as soon as the fuel exceeds the nesting depth of its
input (`passByName_enough`).
-/
namespace Sql

/-! ### the nine loop bodies never raise -/
theorem pend_init {u : Text → Text} {ks : List Node} {i : List Cls} {m : List MPat} {t : TArg} {t2 : Nat} {k : Node}
    (h : tokenNextBy u ks i m t 0 = some (t2, k)) : t2 < ks.length ∧ ks.length - t2 ≤ loopBound ks := by
  obtain ⟨_, h2⟩ := pend_range h
  exact ⟨h2, by unfold loopBound; omega⟩

theorem groupIdentifierBody_total (u) : BodyTotal (groupIdentifierBody u) :=
  fun _ _ _ _ h => identifierLoop_noerr _ _ _ _ h (fun _ _ hq => pend_init hq)

theorem groupOverBody_total (u) : BodyTotal (groupOverBody u) :=
  fun _ _ _ _ h => overLoop_noerr _ _ _ _ h (fun _ _ hq => pend_init hq)

theorem groupAliasedBody_total (u) : BodyTotal (groupAliasedBody u) :=
  fun _ _ _ _ h => aliasedLoop_noerr _ _ _ _ h (fun _ _ hq => pend_init hq)

theorem groupOrderBody_total (u) : BodyTotal (groupOrderBody u) :=
  fun _ _ _ _ h => orderLoop_noerr _ _ _ _ h (fun _ _ hq => pend_init hq)

theorem alignCommentsBody_total (u) : BodyTotal (alignCommentsBody u) :=
  fun _ _ _ _ h => alignLoop_noerr _ _ _ _ h (fun _ _ hq => pend_init hq)

theorem groupFunctionsBody_total (u) : BodyTotal (groupFunctionsBody u) := by
  intro c ks e _ h
  unfold groupFunctionsBody at h
  split at h
  · cases h
  · exact functionsLoop_noerr _ _ _ _ h (fun _ _ hq => pend_init hq)

theorem groupCommentsBody_total (u) : BodyTotal (groupCommentsBody u) := by
  intro c ks e _ h
  refine commentsLoop_noerr _ _ _ _ h ?_
  intro t tok hq
  obtain ⟨h1, h2⟩ := pend_init hq
  obtain ⟨h3, h4⟩ := pend_of_nextBy _ _ hq
  exact ⟨h1, h2, h3, h4⟩

theorem groupWhereBody_total (u) : BodyTotal (groupWhereBody u) := by
  intro c ks e hinv h
  refine whereLoop_noerr _ _ _ _ h ?_ (fun hi => ⟨hinv.1.2 hi, (hinv.2.2 hi).2⟩)
  intro t tok hq
  obtain ⟨h1, h2⟩ := pend_init hq
  obtain ⟨h3, h4⟩ := pend_of_nextBy _ _ hq
  exact ⟨h1, h2, h3, isKwTok_of_imt_m (by decide) h4⟩

theorem groupValuesBody_total (u) : BodyTotal (groupValuesBody u) := by
  intro c ks e _ h
  unfold groupValuesBody at h
  cases hnb : tokenNextBy u ks [] Gen.group_values_token_next_by0_m .none 0 with
  | none => simp [hnb] at h
  | some q =>
    obtain ⟨startIdx, token⟩ := q
    obtain ⟨h1, h2⟩ := pend_init hnb
    simp only [hnb] at h
    cases hv : valuesLoop (loopBound ks) ks (some (startIdx, token)) none with
    | error e2 =>
      exact valuesLoop_noerr _ _ _ _ _ hv (by intro t tok hq; cases hq; exact ⟨h1, h2⟩)
    | ok r =>
      cases r with
      | none => simp [hv] at h
      | some endIdx =>
        simp only [hv] at h
        exact groupTokens_noerr h h1

/-! ### the bodies as `Rw` sequences and as keepers of `goodL` -/
theorem groupIdentifierBody_rw (u) : KidsRw false (groupIdentifierBody u) := fun _ _ _ h => identifierLoop_rw _ _ _ _ h
theorem groupOverBody_rw (u) : KidsRw false (groupOverBody u) := fun _ _ _ h => overLoop_rw _ _ _ _ h
theorem groupCommentsBody_rw (u) : KidsRw false (groupCommentsBody u) := fun _ _ _ h => commentsLoop_rw _ _ _ _ h
theorem groupWhereBody_rw (u) : KidsRw false (groupWhereBody u) := fun _ _ _ h => whereLoop_rw _ _ _ _ h
theorem groupAliasedBody_rw (u) : KidsRw false (groupAliasedBody u) := fun _ _ _ h => aliasedLoop_rw _ _ _ _ h
theorem groupOrderBody_rw (u) : KidsRw false (groupOrderBody u) := fun _ _ _ h => orderLoop_rw _ _ _ _ h
theorem alignCommentsBody_rw (u) : KidsRw true (alignCommentsBody u) := fun _ _ _ h => alignLoop_rw _ _ _ _ h

/-! ### the eleven configurations -/
theorem drvOk_typecasts (u) : DrvOk (cfgTypecasts u) := ⟨.inr (postB_typecasts u), .inl (postIdx_typecasts u), postRw_typecasts u⟩
theorem drvOk_tzcasts (u) : DrvOk (cfgTzcasts u) := ⟨.inr (postB_tzcasts u), .inl (postIdx_tzcasts u), postRw_tzcasts u⟩
theorem drvOk_typedLiteral0 (u) : DrvOk (cfgTypedLiteral0 u) :=
  ⟨.inr (postB_typedLiteral0 u), .inl (postIdx_typedLiteral0 u), postRw_typedLiteral0 u⟩
theorem drvOk_typedLiteral1 (u) : DrvOk (cfgTypedLiteral1 u) :=
  ⟨.inr (postB_typedLiteral1 u), .inl (postIdx_typedLiteral1 u), postRw_typedLiteral1 u⟩
theorem drvOk_period (u) : DrvOk (cfgPeriod u) := ⟨.inl (postAl2_period u), .inl (postIdx_period u), postRw_period u⟩
theorem drvOk_as (u) : DrvOk (cfgAs u) := ⟨.inr (postB_as u), .inl (postIdx_as u), postRw_as u⟩
theorem drvOk_assignment (u) : DrvOk (cfgAssignment u) :=
  ⟨.inr (postB_assignment u), .inl (postIdx_assignment u), postRw_assignment u⟩
theorem drvOk_comparison (u) : DrvOk (cfgComparison u) :=
  ⟨.inl (postAl2_comparison u), .inr (postAl_comparison u), postRw_comparison u⟩
theorem drvOk_arrays (u) : DrvOk (cfgArrays u) := ⟨.inl (postAl2_arrays u), .inl (postIdx_arrays u), postRw_arrays u⟩
theorem drvOk_operator (u) : DrvOk (cfgOperator u) :=
  ⟨.inl (postAl2_operator u), .inr (postAl_operator u), postRw_operator u⟩
theorem drvOk_identifierList (u) : DrvOk (cfgIdentifierList u) :=
  ⟨.inr (postB_identifierList u), .inl (postIdx_identifierList u), postRw_identifierList u⟩

/-! ### an induction principle for `passByName` -/
theorem kidsGood_values (u) : KidsGood (groupValuesBody u) := kidsGood_of_tri fun _ _ _ h => groupValuesBody_tri h

theorem ite_ind {α : Type} (Q : α → Prop) {c : Prop} [Decidable c] {a b : α} (ha : c → Q a) (hb : ¬c → Q b) :
    Q (if c then a else b) := by
  by_cases h : c
  · rw [if_pos h]; exact ha h
  · rw [if_neg h]; exact hb h

/-- the names `passByName` knows -/
def knownPass (name : String) : Bool :=
  ["group_comments", "group_brackets", "group_parenthesis", "group_case", "group_if", "group_for", "group_begin",
   "group_over", "group_functions", "group_where", "group_period", "group_arrays", "group_identifier", "group_order",
   "group_typecasts", "group_tzcasts", "group_typed_literal", "group_operator", "group_comparison", "group_as",
   "group_aliased", "group_assignment", "align_comments", "group_identifier_list", "group_values"].contains name

/-- every name of the generated pass list is known -/
theorem passOrder_known : Gen.passOrder.all knownPass = true := by decide

/-- whatever holds of every `_group_matching` wrapper, of `driverPass` of every well-behaved configuration, of
`adHocPass` of every well-behaved loop body, of `group_typed_literal` and of the failing pass holds of
`passByName u name` -/
theorem passByName_ind (u : Text → Text) (Q : Pass → Prop)
    (hm : ∀ c, sixCls c = true → Q (matchingPassOf u c))
    (hd : ∀ cfg, DrvOk cfg → Q (driverPass cfg))
    (ha : ∀ (skip : Option (List Cls)) (body : Cls → List Node → Except PyErr (List Node)) (al : Bool),
      KidsGood body → KidsRw al body → BodyTotal body → Q (adHocPass skip body))
    (ht : Q (typedLiteralPass u)) (name : String) (hu : knownPass name = false → Q unknownPass) :
    Q (passByName u name) := by
  unfold passByName
  repeat' (first | apply ite_ind Q | intro (_ : (_ == _) = true) | intro (_ : ¬ ((_ == _) = true)))
  all_goals first
    | (apply hu; simp_all [knownPass]; done)
    | exact ht
    | exact hm _ (by decide)
    | exact hd _ (drvOk_period u)
    | exact hd _ (drvOk_arrays u)
    | exact hd _ (drvOk_typecasts u)
    | exact hd _ (drvOk_tzcasts u)
    | exact hd _ (drvOk_operator u)
    | exact hd _ (drvOk_comparison u)
    | exact hd _ (drvOk_as u)
    | exact hd _ (drvOk_assignment u)
    | exact hd _ (drvOk_identifierList u)
    | exact ha _ _ _ (kidsGood_of_tri fun _ _ _ h => groupCommentsBody_tri h) (groupCommentsBody_rw u)
        (groupCommentsBody_total u)
    | exact ha _ _ _ (kidsGood_of_tri fun _ _ _ h => overLoop_tri _ _ _ _ h) (groupOverBody_rw u)
        (groupOverBody_total u)
    | exact ha _ _ _ (kidsGood_of_tri fun _ _ _ h => groupFunctionsBody_tri h) (groupFunctionsBody_rw u)
        (groupFunctionsBody_total u)
    | exact ha _ _ _ (groupWhereBody_good u) (groupWhereBody_rw u) (groupWhereBody_total u)
    | exact ha _ _ _ (kidsGood_of_tri fun _ _ _ h => identifierLoop_tri _ _ _ _ h) (groupIdentifierBody_rw u)
        (groupIdentifierBody_total u)
    | exact ha _ _ _ (kidsGood_of_tri fun _ _ _ h => orderLoop_tri _ _ _ _ h) (groupOrderBody_rw u)
        (groupOrderBody_total u)
    | exact ha _ _ _ (kidsGood_of_tri fun _ _ _ h => aliasedLoop_tri _ _ _ _ h) (groupAliasedBody_rw u)
        (groupAliasedBody_total u)
    | exact ha _ _ _ (kidsGood_of_tri fun _ _ _ h => alignCommentsBody_tri h) (alignCommentsBody_rw u)
        (alignCommentsBody_total u)
    | exact ha _ _ _ (kidsGood_values u) (groupValuesBody_rw u) (groupValuesBody_total u)

/-! ### every pass keeps the invariant -/
theorem matchingPassOf_passF (u : Text → Text) (c : Cls) : PassF (matchingPassOf u c) := by
  intro fuel c' ks ks' h hk
  cases c <;> first
    | exact groupMatching_passF (by decide) h hk
    | (simp [matchingPassOf, matchingTables, unknownPass] at h; done)

theorem passByName_passF (u : Text → Text) (name : String) : PassF (passByName u name) := by
  refine passByName_ind u PassF (fun c _ => matchingPassOf_passF u c) ?_ ?_ ?_ name ?_
  · exact fun cfg h => passF_of_rw (driverPass_rw h.rw)
  · exact fun skip body al _ hrw _ => passF_of_rw (adHocPass_rw skip hrw)
  · exact passF_of_rw (typedLiteralPass_rw u)
  · intro _ fuel c ks ks' h; simp [unknownPass] at h

theorem passByName_inv {u : Text → Text} {name : String} {fuel : Nat} {c : Cls} {ks ks' : List Node}
    (h : passByName u name fuel c ks = .ok ks') (hinv : Inv c ks) : Inv c ks' :=
  ⟨(passByName_good u name fuel c ks ks' h hinv.1).1, passByName_passF u name fuel c ks ks' h hinv.2⟩

/-! ### the only failure is `RecursionError` -/
/-- a pass whose only possible failure on a well-formed list is `RecursionError` -/
def ErrRec (p : Pass) : Prop := ∀ fuel c ks e, Inv c ks → p fuel c ks = .error e → e = .recursionError

theorem errRec_of_safe {p : Pass} (h : PassSafe p) : ErrRec p := by
  intro fuel c ks e hinv he
  rcases h fuel c ks hinv with ⟨r, hr⟩ | ⟨hr, _⟩
  · rw [hr] at he; cases he
  · rw [hr] at he; cases he; rfl

theorem matchingPassOf_safe (u : Text → Text) (c : Cls) (hc : (matchingTables c).isSome = true) :
    PassSafe (matchingPassOf u c) := by
  intro fuel c' ks _
  cases c <;> first
    | exact groupMatching_safe fuel ks
    | (simp [matchingTables] at hc; done)

theorem typedLiteralPass_errRec (u : Text → Text) : ErrRec (typedLiteralPass u) := by
  intro fuel c ks e hinv h
  unfold typedLiteralPass at h
  cases h1 : groupDriver (cfgTypedLiteral0 u) fuel ks with
  | error e1 =>
    simp only [h1] at h
    cases h
    exact errRec_of_safe (driverPass_safe (drvOk_typedLiteral0 u)) fuel c ks _ hinv h1
  | ok ks1 =>
    simp only [h1] at h
    have hinv1 : Inv c ks1 :=
      ⟨((drvOk_typedLiteral0 u).kidsGood fuel c ks ks1 h1 hinv.1).1,
       (groupDriver_rw_aux fuel _ (postRw_typedLiteral0 u) c ks ks1 h1).fstep.fkids hinv.2⟩
    exact errRec_of_safe (driverPass_safe (drvOk_typedLiteral1 u)) fuel c ks1 _ hinv1 h

theorem matchingPassOf_errRec' (u : Text → Text) (c : Cls) (hc : sixCls c = true) : ErrRec (matchingPassOf u c) := by
  apply errRec_of_safe
  apply matchingPassOf_safe
  revert hc
  cases c <;> decide

theorem passByName_errRec (u : Text → Text) (name : String) (hk : knownPass name = true) :
    ErrRec (passByName u name) :=
  passByName_ind u ErrRec (matchingPassOf_errRec' u)
    (fun _ h => errRec_of_safe (driverPass_safe h))
    (fun skip _ _ hg hrw ht => errRec_of_safe (adHocPass_safe skip hg hrw ht))
    (typedLiteralPass_errRec u) name (fun hk' => by rw [hk] at hk'; cases hk')

theorem runPasses_total (u : Text → Text) (fuel : Nat) (c : Cls) :
    ∀ (names : List String) (ks : List Node) (e : PyErr), names.all knownPass = true → Inv c ks →
      runPasses u fuel c names ks = .error e → e = .recursionError := by
  intro names
  induction names with
  | nil => intro ks e _ _ h; simp [runPasses] at h
  | cons p ps ih =>
    intro ks e hk hinv h
    simp only [List.all_cons, Bool.and_eq_true] at hk
    simp only [runPasses] at h
    cases hp : passByName u p fuel c ks with
    | error e2 =>
      simp only [hp] at h
      cases h
      exact passByName_errRec u p hk.1 fuel c ks _ hinv hp
    | ok ks1 =>
      simp only [hp] at h
      exact ih ks1 e hk.2 (passByName_inv hp hinv) h

theorem groupWith_total {u : Text → Text} {fuel : Nat} {ks : List Node} {e : PyErr}
    (hg : goodL ks = true) (hf : fgoodL ks = true) (h : groupWith u fuel ks = .error e) : e = .recursionError :=
  runPasses_total u fuel .Statement Gen.passOrder ks e passOrder_known
    ⟨⟨hg, fun hi => by cases hi⟩, ⟨hf, fun hi => by cases hi⟩⟩ h

/-- **totality of grouping**: on a well-formed list the only possible failure is running out of recursion depth -/
theorem group_total {fuel : Nat} {ks : List Node} {e : PyErr} (hg : goodL ks = true) (hf : fgoodL ks = true)
    (h : group fuel ks = .error e) : e = .recursionError :=
  groupWith_total hg hf h

theorem fgoodL_flat (st : List Tok) : fgoodL (st.map fun t => Node.tok t.tt t.val) = true := by
  induction st with
  | nil => simp
  | cons t st ih => simp [ih]

/-- for the flat statements the splitter yields, no hypothesis is needed -/
theorem groupStatement_total {fuel : Nat} {st : List Tok} {e : PyErr} (h : groupStatement fuel st = .error e) :
    e = .recursionError := by
  unfold groupStatement at h
  split at h
  · rename_i e2 he
    cases h
    exact group_total (goodL_flat st) (fgoodL_flat st) he
  · cases h

/-! ## enough fuel -/

/-- more fuel never changes a result -/
def PassMono (p : Pass) : Prop := ∀ fuel c ks r, p fuel c ks = .ok r → p (fuel + 1) c ks = .ok r

theorem PassMono.le {p : Pass} (h : PassMono p) {fuel fuel' : Nat} (hle : fuel ≤ fuel') {c : Cls} {ks r : List Node}
    (hr : p fuel c ks = .ok r) : p fuel' c ks = .ok r := by
  induction hle with
  | refl => exact hr
  | step _ ih => exact h _ _ _ _ ih

theorem mapGroups_mono {elig : Node → Bool} {f g : Cls → List Node → Except PyErr (List Node)}
    (h : ∀ c kids r, f c kids = .ok r → g c kids = .ok r) :
    ∀ ks r, mapGroups elig f ks = .ok r → mapGroups elig g ks = .ok r := by
  intro ks
  induction ks with
  | nil => intro r hr; simpa [mapGroups] using hr
  | cons k rest ih =>
    intro r hr
    cases k with
    | tok tt v =>
      simp only [mapGroups] at hr ⊢
      cases hrest : mapGroups elig f rest with
      | error e => simp [hrest] at hr
      | ok rest' => simp only [hrest] at hr; rw [ih _ hrest]; exact hr
    | grp c kids =>
      simp only [mapGroups] at hr ⊢
      by_cases he : elig (.grp c kids) = true
      · rw [if_pos he] at hr ⊢
        cases hk : f c kids with
        | error e => simp [hk] at hr
        | ok kids' =>
          simp only [hk] at hr
          rw [h _ _ _ hk]
          simp only
          cases hrest : mapGroups elig f rest with
          | error e => simp [hrest] at hr
          | ok rest' => simp only [hrest] at hr; rw [ih _ hrest]; exact hr
      · rw [if_neg he] at hr ⊢
        cases hrest : mapGroups elig f rest with
        | error e => simp [hrest] at hr
        | ok rest' => simp only [hrest] at hr; rw [ih _ hrest]; exact hr

theorem mapGroupsWhere_mono {f g : Cls → List Node → Except PyErr (List Node)}
    (h : ∀ c kids r, f c kids = .ok r → g c kids = .ok r) :
    ∀ bs ks r, mapGroupsWhere f bs ks = .ok r → mapGroupsWhere g bs ks = .ok r := by
  intro bs ks
  induction ks generalizing bs with
  | nil => intro r hr; simpa [mapGroupsWhere] using hr
  | cons k rest ih =>
    intro r hr
    cases bs with
    | nil => simpa [mapGroupsWhere] using hr
    | cons b bs =>
      cases k with
      | tok tt v =>
        simp only [mapGroupsWhere] at hr ⊢
        cases hrest : mapGroupsWhere f bs rest with
        | error e => simp [hrest] at hr
        | ok rest' => simp only [hrest] at hr; rw [ih _ _ hrest]; exact hr
      | grp c kids =>
        simp only [mapGroupsWhere] at hr ⊢
        by_cases hb : b = true
        · rw [if_pos hb] at hr ⊢
          cases hk : f c kids with
          | error e => simp [hk] at hr
          | ok kids' =>
            simp only [hk] at hr
            rw [h _ _ _ hk]
            simp only
            cases hrest : mapGroupsWhere f bs rest with
            | error e => simp [hrest] at hr
            | ok rest' => simp only [hrest] at hr; rw [ih _ _ hrest]; exact hr
        · rw [if_neg hb] at hr ⊢
          cases hrest : mapGroupsWhere f bs rest with
          | error e => simp [hrest] at hr
          | ok rest' => simp only [hrest] at hr; rw [ih _ _ hrest]; exact hr

theorem recursePass_mono (skip : List Cls) (body : Cls → List Node → Except PyErr (List Node)) :
    PassMono (recursePass skip body) := by
  intro fuel
  induction fuel with
  | zero => intro c ks r h; simp [recursePass] at h
  | succ n ih =>
    intro c ks r h
    simp only [recursePass] at h
    rw [recursePass]
    cases hm : mapGroups (fun k => !k.isInstAny skip) (recursePass skip body n) ks with
    | error e => simp [hm] at h
    | ok ks1 =>
      simp only [hm] at h
      rw [mapGroups_mono (g := recursePass skip body (n + 1)) ih _ _ hm]
      exact h

theorem groupMatching_mono {upper : Text → Text} {cls : Cls} {mOpen mClose : List MPat} :
    ∀ (fuel : Nat) (ks r : List Node), groupMatching upper cls mOpen mClose fuel ks = .ok r →
      groupMatching upper cls mOpen mClose (fuel + 1) ks = .ok r := by
  intro fuel
  induction fuel with
  | zero => intro ks r h; simp [groupMatching] at h
  | succ n ih =>
    intro ks r h
    simp only [groupMatching] at h
    rw [groupMatching]
    cases hm : mapGroups (fun k => !k.isInst cls) (fun _ kids => groupMatching upper cls mOpen mClose n kids) ks with
    | error e => simp [hm] at h
    | ok ks1 =>
      simp only [hm] at h
      rw [mapGroups_mono (g := fun _ kids => groupMatching upper cls mOpen mClose (n + 1) kids)
        (fun _ kids r hk => ih kids r hk) _ _ hm]
      exact h

theorem groupDriver_mono : ∀ (fuel : Nat) (cfg : DrvCfg) (ks r : List Node), groupDriver cfg fuel ks = .ok r →
    groupDriver cfg (fuel + 1) ks = .ok r := by
  intro fuel
  induction fuel with
  | zero => intro cfg ks r h; simp [groupDriver] at h
  | succ n ih =>
    intro cfg ks r h
    simp only [groupDriver] at h
    rw [groupDriver]
    split at h
    · rename_i hrec
      rw [if_pos hrec]
      cases hd : drvLoop cfg ks 0 (drvInit ks) with
      | error e => simp [hd] at h
      | ok dry =>
        simp only [hd] at h ⊢
        cases hm : mapGroupsWhere (fun _ kids => groupDriver { cfg with recurse := true } n kids)
            (drvEligible cfg.cls dry.reached.reverse ks) ks with
        | error e => simp [hm] at h
        | ok ks1 =>
          simp only [hm] at h
          rw [mapGroupsWhere_mono (g := fun _ kids => groupDriver { cfg with recurse := true } (n + 1) kids)
            (fun _ kids r hk => ih _ kids r hk) _ _ _ hm]
          exact h
    · rename_i hrec
      rw [if_neg hrec]
      exact h

theorem matchingPassOf_mono (u : Text → Text) (c : Cls) : PassMono (matchingPassOf u c) := by
  intro fuel c' ks r h
  cases c <;> first
    | exact groupMatching_mono fuel ks r h
    | (simp [matchingPassOf, matchingTables, unknownPass] at h; done)

theorem adHocPass_mono (skip : Option (List Cls)) (body : Cls → List Node → Except PyErr (List Node)) :
    PassMono (adHocPass skip body) := by
  unfold adHocPass
  split
  · exact recursePass_mono _ body
  · exact fun _ _ _ _ h => h

theorem typedLiteralPass_mono (u : Text → Text) : PassMono (typedLiteralPass u) := by
  intro fuel c ks r h
  unfold typedLiteralPass at h ⊢
  cases h1 : groupDriver (cfgTypedLiteral0 u) fuel ks with
  | error e => simp [h1] at h
  | ok ks1 =>
    simp only [h1] at h
    rw [groupDriver_mono _ _ _ _ h1]
    exact groupDriver_mono _ _ _ _ h

theorem passByName_mono (u : Text → Text) (name : String) : PassMono (passByName u name) :=
  passByName_ind u PassMono (fun c _ => matchingPassOf_mono u c)
    (fun cfg _ fuel _ ks r h => groupDriver_mono fuel cfg ks r h)
    (fun skip body _ _ _ _ => adHocPass_mono skip body) (typedLiteralPass_mono u) name
    (fun _ _ _ _ _ h => by simp [unknownPass] at h)

/-- a pass returns, with a result that no longer depends on the fuel, once the fuel is large enough -/
def Enough (p : Pass) : Prop :=
  ∀ c ks, Inv c ks → ∃ f0 r, ∀ fuel, f0 ≤ fuel → p fuel c ks = .ok r

theorem enough_of_safe {p : Pass} (hs : PassSafe p) (hm : PassMono p) : Enough p := by
  intro c ks hinv
  rcases hs (depthL ks + 1) c ks hinv with ⟨r, hr⟩ | ⟨_, hb⟩
  · exact ⟨depthL ks + 1, r, fun fuel hle => hm.le hle hr⟩
  · omega

theorem typedLiteralPass_enough (u : Text → Text) : Enough (typedLiteralPass u) := by
  intro c ks hinv
  obtain ⟨f1, ks1, h1⟩ := enough_of_safe (driverPass_safe (drvOk_typedLiteral0 u))
    (fun fuel _ ks r h => groupDriver_mono fuel _ ks r h) c ks hinv
  have hinv1 : Inv c ks1 :=
    ⟨((drvOk_typedLiteral0 u).kidsGood f1 c ks ks1 (h1 f1 (Nat.le_refl _)) hinv.1).1,
     (groupDriver_rw_aux f1 _ (postRw_typedLiteral0 u) c ks ks1 (h1 f1 (Nat.le_refl _))).fstep.fkids hinv.2⟩
  obtain ⟨f2, r, h2⟩ := enough_of_safe (driverPass_safe (drvOk_typedLiteral1 u))
    (fun fuel _ ks r h => groupDriver_mono fuel _ ks r h) c ks1 hinv1
  refine ⟨max f1 f2, r, fun fuel hle => ?_⟩
  have e1 : groupDriver (cfgTypedLiteral0 u) fuel ks = .ok ks1 := h1 fuel (by omega)
  have e2 : groupDriver (cfgTypedLiteral1 u) fuel ks1 = .ok r := h2 fuel (by omega)
  simp only [typedLiteralPass, e1, e2]

theorem passByName_enough (u : Text → Text) (name : String) (hk : knownPass name = true) :
    Enough (passByName u name) :=
  passByName_ind u Enough
    (fun c hc => enough_of_safe (matchingPassOf_safe u c (by revert hc; cases c <;> decide)) (matchingPassOf_mono u c))
    (fun cfg h => enough_of_safe (driverPass_safe h) (fun fuel _ ks r hr => groupDriver_mono fuel cfg ks r hr))
    (fun skip body _ hg hrw ht => enough_of_safe (adHocPass_safe skip hg hrw ht) (adHocPass_mono skip body))
    (typedLiteralPass_enough u) name (fun hk' => by rw [hk] at hk'; cases hk')

/-- every pass but `group_typed_literal` returns as soon as the fuel exceeds the nesting depth of its input -/
theorem passByName_safe (u : Text → Text) (name : String) (hk : knownPass name = true) :
    PassSafe (passByName u name) ∨ passByName u name = typedLiteralPass u :=
  passByName_ind u (fun p => PassSafe p ∨ p = typedLiteralPass u)
    (fun c hc => Or.inl (matchingPassOf_safe u c (by revert hc; cases c <;> decide)))
    (fun _ h => Or.inl (driverPass_safe h))
    (fun skip _ _ hg hrw ht => Or.inl (adHocPass_safe skip hg hrw ht))
    (Or.inr rfl) name (fun hk' => by rw [hk] at hk'; cases hk')

theorem runPasses_enough (u : Text → Text) (c : Cls) :
    ∀ (names : List String) (ks : List Node), names.all knownPass = true → Inv c ks →
      ∃ f0 r, ∀ fuel, f0 ≤ fuel → runPasses u fuel c names ks = .ok r := by
  intro names
  induction names with
  | nil => intro ks _ _; exact ⟨0, ks, fun _ _ => by simp [runPasses]⟩
  | cons p ps ih =>
    intro ks hk hinv
    simp only [List.all_cons, Bool.and_eq_true] at hk
    obtain ⟨f1, ks1, h1⟩ := passByName_enough u p hk.1 c ks hinv
    obtain ⟨f2, r, h2⟩ := ih ks1 hk.2 (passByName_inv (h1 f1 (Nat.le_refl _)) hinv)
    refine ⟨max f1 f2, r, fun fuel hle => ?_⟩
    simp only [runPasses, h1 fuel (by omega)]
    exact h2 fuel (by omega)

/-- **some fuel suffices**, and from then on the result does not depend on the fuel -/
theorem group_fuel_enough {ks : List Node} (hg : goodL ks = true) (hf : fgoodL ks = true) :
    ∃ f0 ks', ∀ fuel, f0 ≤ fuel → group fuel ks = .ok ks' :=
  runPasses_enough kwNorm .Statement Gen.passOrder ks passOrder_known
    ⟨⟨hg, fun hi => by cases hi⟩, ⟨hf, fun hi => by cases hi⟩⟩

/-- more fuel never changes the result of `group` -/
theorem group_mono {fuel fuel' : Nat} {ks ks' : List Node} (hle : fuel ≤ fuel') (h : group fuel ks = .ok ks') :
    group fuel' ks = .ok ks' := by
  have key : ∀ (names : List String) (ks ks' : List Node),
      runPasses kwNorm fuel .Statement names ks = .ok ks' → runPasses kwNorm fuel' .Statement names ks = .ok ks' := by
    intro names
    induction names with
    | nil => intro ks ks' h; simpa [runPasses] using h
    | cons p ps ih =>
      intro ks ks' h
      simp only [runPasses] at h ⊢
      cases hp : passByName kwNorm p fuel .Statement ks with
      | error e => simp [hp] at h
      | ok ks1 =>
        simp only [hp] at h
        rw [(passByName_mono kwNorm p).le hle hp]
        exact ih _ _ h
  exact key _ _ _ h

end Sql
