import SqlModel.Filters
import SqlProofs.OptionsTotal
import SqlProofs.IndentSpec
/-!
# SqlProofs.FormatSpec — facts about the end-to-end model `Sql.format` (SqlModel/Filters/Format.lean)
-/
namespace Sql

/-! ## `format`: which exceptions can leave it -/

theorem runError_kinds (st : Stage) (e : PyErr) : runError st e ≠ .recursionError ∧ runError st e ≠ .stopIteration := by
  cases st <;> cases e <;> decide

theorem runStatements_kinds (fuel : Nat) (grouping : Bool) (post : List PostFilter) :
    ∀ (sts : List (List Tok)) (objs : List StmtObj) (count : Nat) (e : PyErr),
      runStatements fuel grouping post objs count sts = .error e → e ≠ .recursionError ∧ e ≠ .stopIteration
  | [], objs, count, e, h => by simp [runStatements] at h
  | st :: rest, objs, count, e, h => by
    unfold runStatements at h
    simp only at h
    split at h
    · injection h with h; rw [← h]; exact runError_kinds _ _
    · split at h
      · injection h with h; rw [← h]; exact runError_kinds _ _
      · split at h
        · rename_i e' he'
          injection h with h; rw [← h]
          exact runStatements_kinds fuel grouping post rest _ _ e' he'
        · cases h

/-- neither `RecursionError` nor `StopIteration` ever leaves `sqlparse.format`: inside `FilterStack.run` the first becomes
`SQLParseError` and the second `RuntimeError`, and option validation raises neither -/
theorem format_error_kinds (fuel : Nat) (d : PyDict) (s : Array Cp) (e : PyErr) (h : format fuel d s = .error e) :
    e ≠ .recursionError ∧ e ≠ .stopIteration := by
  unfold format at h
  split at h
  · rename_i e' he'
    injection h with h; subst h
    have hv : validateDict d = .error e' := by
      unfold validateOptions at he'
      cases hvd : validateDict d with
      | error e2 => rw [hvd] at he'; simp only [Except.map] at he'; injection he' with he'; rw [he']
      | ok d2 => rw [hvd] at he'; simp [Except.map] at he'
    have := runOptRules_err Gen.optRules d (by decide) e' hv
    rw [this]; exact ⟨by decide, by decide⟩
  · unfold runFormat at h
    split at h
    · injection h with h; rw [← h]; exact runError_kinds _ _
    · simp only at h
      split at h
      · injection h with h; rw [← h]; exact runError_kinds _ _
      · split at h
        · rename_i e' he'
          injection h with h; rw [← h]
          exact runStatements_kinds _ _ _ _ _ _ e' he'
        · split at h
          · injection h with h; rw [← h]; exact runError_kinds _ _
          · cases h

/-- `format` validates the options before anything else: an invalid option set fails the same way for every input -/
theorem format_validates_first (fuel : Nat) (d : PyDict) (s : Array Cp) (e : PyErr) (h : validateOptions d = .error e) :
    format fuel d s = .error e := by
  unfold format
  rw [h]

open FNode (leaves leavesL)

/-! ## layout-only filter stacks change nothing but whitespace -/

/-- the statement filters that `strip_whitespace`, `use_space_around_operators`, `reindent`, `reindent_aligned` (and their
sub-options) put on the stack -/
def StmtObj.isLayout : StmtObj → Bool
  | .spaces | .stripWs | .reindent .. | .aligned .. => true
  | .stripComments | .rightMargin => false

def StmtFilter.isLayout : StmtFilter → Bool
  | .spacesAroundOperators | .stripWhitespace | .reindent .. | .alignedIndent _ => true
  | .stripComments | .rightMargin _ => false

theorem isLayout_ofFilter (f : StmtFilter) : (StmtObj.ofFilter f).isLayout = f.isLayout := by
  cases f <;> rfl

theorem isLayout_noteLast (t : Text) (f : StmtObj) : (f.noteLast t).isLayout = f.isLayout := by
  cases f <;> rfl

theorem StmtObj.process_layout_sig (fuel : Nat) (n n' : FNode) (f f' : StmtObj) (hl : f.isLayout = true)
    (h : f.process fuel n = .ok (n', f')) : sigToks n'.leaves = sigToks n.leaves ∧ f'.isLayout = true := by
  cases f with
  | spaces =>
    simp only [StmtObj.process] at h
    cases hs : spacesAroundOperators fuel n with
    | error e => rw [hs] at h; cases h
    | ok r =>
      rw [hs] at h
      simp only [Except.map, Except.ok.injEq, Prod.mk.injEq] at h
      rw [← h.1, ← h.2]
      exact ⟨spaces_preserves_sig fuel n r hs, rfl⟩
  | stripWs =>
    simp only [StmtObj.process] at h
    cases hs : stripWhitespace fuel n with
    | error e => rw [hs] at h; cases h
    | ok r =>
      rw [hs] at h
      simp only [Except.map, Except.ok.injEq, Prod.mk.injEq] at h
      rw [← h.1, ← h.2]
      exact ⟨stripWhitespace_preserves_sig fuel n r hs, rfl⟩
  | reindent cfg st last =>
    simp only [StmtObj.process] at h
    cases hs : reindentProcess cfg fuel st last n with
    | error e => rw [hs] at h; cases h
    | ok r =>
      obtain ⟨a, b⟩ := r
      rw [hs] at h
      simp only [Except.map, Except.ok.injEq, Prod.mk.injEq] at h
      rw [← h.1, ← h.2]
      exact ⟨reindent_preserves_sig cfg fuel st last n a b hs, rfl⟩
  | aligned ch st =>
    simp only [StmtObj.process] at h
    cases hs : alignedProcess ch fuel st n with
    | error e => rw [hs] at h; cases h
    | ok r =>
      obtain ⟨a, b⟩ := r
      rw [hs] at h
      simp only [Except.map, Except.ok.injEq, Prod.mk.injEq] at h
      rw [← h.1, ← h.2]
      exact ⟨aligned_preserves_sig ch fuel st n a b hs, rfl⟩
  | stripComments => cases hl
  | rightMargin => cases hl

/-- C06 for a whole stack: if every statement filter is a layout filter, the statement tree handed to the postprocess
filters has the same non-whitespace leaves as the tree that came out of grouping (and the stack stays a layout stack,
so the same holds for the next statement) -/
theorem runStmtObjs_layout_sig (fuel : Nat) : ∀ (objs : List StmtObj) (n n' : FNode) (objs' : List StmtObj),
    objs.all StmtObj.isLayout = true → runStmtObjs fuel objs n = .ok (n', objs') →
    sigToks n'.leaves = sigToks n.leaves ∧ objs'.all StmtObj.isLayout = true
  | [], n, n', objs', _, h => by
    simp only [runStmtObjs, Except.ok.injEq, Prod.mk.injEq] at h
    rw [← h.1, ← h.2]; exact ⟨rfl, rfl⟩
  | f :: fs, n, n', objs', hl, h => by
    simp only [List.all_cons, Bool.and_eq_true] at hl
    unfold runStmtObjs at h
    cases hp : f.process fuel n with
    | error e => rw [hp] at h; cases h
    | ok r =>
      obtain ⟨n1, f'⟩ := r
      rw [hp] at h
      simp only at h
      cases hr : runStmtObjs fuel fs n1 with
      | error e => rw [hr] at h; cases h
      | ok r2 =>
        obtain ⟨n2, fs'⟩ := r2
        rw [hr] at h
        simp only [Except.ok.injEq, Prod.mk.injEq] at h
        obtain ⟨a1, a2⟩ := StmtObj.process_layout_sig fuel n n1 f f' hl.1 hp
        obtain ⟨b1, b2⟩ := runStmtObjs_layout_sig fuel fs n1 n2 fs' hl.2 hr
        rw [← h.1, ← h.2]
        exact ⟨by rw [b1, a1], by simp [a2, b2]⟩

/-- the stack built for a plan without `strip_comments` and `right_margin` is a layout stack -/
theorem layout_plan_objs (p : FilterPlan) (h : p.stmtprocess.all StmtFilter.isLayout = true) :
    (p.stmtprocess.map StmtObj.ofFilter).all StmtObj.isLayout = true := by
  rw [List.all_map]
  simpa [Function.comp, isLayout_ofFilter] using h


end Sql
