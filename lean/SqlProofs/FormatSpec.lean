import SqlModel.Filters
import SqlProofs.OptionsTotal
/-!
# SqlProofs.FormatSpec — facts about the end-to-end model `Sql.format` (SqlModel/Filters/Format.lean)
-/
namespace Sql

/-! ## `format`: which exceptions can leave it -/

theorem runError_kinds (st : Stage) (e : PyErr) : runError st e ≠ .recursionError ∧ runError st e ≠ .stopIteration := by
  cases st <;> cases e <;> decide

theorem runStatements_kinds (fuel : Nat) (grouping : Bool) (post : List PostFilter) :
    ∀ (sts : List (List Tok)) (objs : List StmtObj) (count : Nat) (e : PyErr),
      runStatements fuel grouping post objs count sts = .error e → e ≠ .recursionError ∧ e ≠ .stopIteration
  | [], objs, count, e, h => by simp [runStatements] at h
  | st :: rest, objs, count, e, h => by
    unfold runStatements at h
    simp only at h
    split at h
    · injection h with h; rw [← h]; exact runError_kinds _ _
    · split at h
      · injection h with h; rw [← h]; exact runError_kinds _ _
      · split at h
        · rename_i e' he'
          injection h with h; rw [← h]
          exact runStatements_kinds fuel grouping post rest _ _ e' he'
        · cases h

/-- neither `RecursionError` nor `StopIteration` ever leaves `sqlparse.format`: inside `FilterStack.run` the first becomes
`SQLParseError` and the second `RuntimeError`, and option validation raises neither -/
theorem format_error_kinds (fuel : Nat) (d : PyDict) (s : Array Cp) (e : PyErr) (h : format fuel d s = .error e) :
    e ≠ .recursionError ∧ e ≠ .stopIteration := by
  unfold format at h
  split at h
  · rename_i e' he'
    injection h with h; subst h
    have hv : validateDict d = .error e' := by
      unfold validateOptions at he'
      cases hvd : validateDict d with
      | error e2 => rw [hvd] at he'; simp only [Except.map] at he'; injection he' with he'; rw [he']
      | ok d2 => rw [hvd] at he'; simp [Except.map] at he'
    have := runOptRules_err Gen.optRules d (by decide) e' hv
    rw [this]; exact ⟨by decide, by decide⟩
  · unfold runFormat at h
    split at h
    · injection h with h; rw [← h]; exact runError_kinds _ _
    · simp only at h
      split at h
      · injection h with h; rw [← h]; exact runError_kinds _ _
      · split at h
        · rename_i e' he'
          injection h with h; rw [← h]
          exact runStatements_kinds _ _ _ _ _ _ e' he'
        · split at h
          · injection h with h; rw [← h]; exact runError_kinds _ _
          · cases h

/-- `format` validates the options before anything else: an invalid option set fails the same way for every input -/
theorem format_validates_first (fuel : Nat) (d : PyDict) (s : Array Cp) (e : PyErr) (h : validateOptions d = .error e) :
    format fuel d s = .error e := by
  unfold format
  rw [h]

end Sql
