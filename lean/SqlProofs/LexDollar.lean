import SqlProofs.LexRegions
import SqlProofs.Lex.Dollar
/-!
# SqlProofs.LexDollar — a dollar-quoted literal `$tag$ … $tag$` is one token (the rule is located in the generated table by its content)
-/
namespace Sql

/-! ## dollar-quoted literals -/

/-- `[_A-ZÀ-Ü]` under IGNORECASE: the first character of a dollar-quote tag -/
def tagStartSet : CpSet :=
  ⟨[(65, 90), (95, 95), (97, 122), (192, 220), (224, 246), (248, 252), (304, 305), (383, 383), (8490, 8491)]⟩

/-- the look-behind class `[\w"$]` -/
def dollarLbSet : CpSet := ⟨(34, 34) :: (36, 36) :: Gen.wordSet.ranges⟩

/-- the dollar-quote rule `((?<![\w"$])\$(?:[_A-ZÀ-Ü]\w*)?\$)[\s\S]*?\1` with action `Literal` -/
def dollarRule : Rule := ⟨dollarRe dollarLbSet tagStartSet Gen.wordSet, .tok T.Literal⟩

theorem mem_ranges_cons2 (S T : CpSet) (a b a' b' : Nat) (h : S.ranges = (a, b) :: (a', b') :: T.ranges) (c : Nat) :
    S.mem c = ((decide (a ≤ c) && decide (c ≤ b)) || ((decide (a' ≤ c) && decide (c ≤ b')) || T.mem c)) := by
  simp [CpSet.mem, h]

/-- table obligation: the dollar-quote rule is in the table and no rule before it can start at `$` -/
theorem dollar_rule_first : firstWith (deadOn 36) dollarRule defaultCfg.rules = true := by decide +kernel

theorem lb_mem_false (c : Nat) (hw : Gen.wordSet.mem c = false) (h34 : c ≠ 34) (h36 : c ≠ 36) :
    dollarLbSet.mem c = false := by
  have e1 : (decide (34 ≤ c) && decide (c ≤ 34)) = false := by
    rw [Bool.and_eq_false_iff, decide_eq_false_iff_not, decide_eq_false_iff_not]; omega
  have e2 : (decide (36 ≤ c) && decide (c ≤ 36)) = false := by
    rw [Bool.and_eq_false_iff, decide_eq_false_iff_not, decide_eq_false_iff_not]; omega
  rw [mem_ranges_cons2 dollarLbSet Gen.wordSet 34 34 36 36 rfl c, e1, e2, hw]
  rfl

/-- a dollar-quote tag: empty, or `[_A-ZÀ-Ü]` followed by `\w` characters -/
def DollarTag (tag : List Cp) : Prop := TagOK tagStartSet Gen.wordSet tag

/-- `$tag$body$tag$`: the delimiter is not preceded by a word character, `"` or `$`, and does not occur (up to case) starting inside the body -/
theorem dollar_quoted_token (s : Array Cp) (p : Nat) (pre tag body rest : List Cp)
    (h : s.toList = pre ++ [36] ++ tag ++ [36] ++ body ++ [36] ++ tag ++ [36] ++ rest) (hp : pre.length = p)
    (hlb : ∀ c, pre.getLast? = some c → Gen.wordSet.mem c = false ∧ c ≠ 34 ∧ c ≠ 36)
    (htag : DollarTag tag) (hle : ∀ c ∈ body, c ≤ 1114111)
    (hbody : ∀ i, i < body.length →
      (((body ++ ([36] ++ tag ++ [36] ++ rest)).drop i).take (tag.length + 2)).map sreLower
        ≠ ([36] ++ tag ++ [36]).map sreLower) :
    firstMatch (defaultCfg.env s) defaultCfg.rules p
      = some (.tok T.Literal, p + (tag.length + 2) + body.length + (tag.length + 2)) := by
  have h0 : (defaultCfg.env s).s.toList.drop p = (36 :: (tag ++ [36])) ++ (body ++ ((36 :: (tag ++ [36])) ++ rest)) :=
    sfx_of_split s pre _ p (by simpa using h) hp
  have hc := get_of_drop_cons _ p 36 _ (by simpa using h0)
  have hlb' : p = 0 ∨ ∃ c, (defaultCfg.env s).s[p - 1]? = some c ∧
      dollarLbSet.mem c = false := by
    cases hl : pre.getLast? with
    | none =>
      left
      have : pre = [] := by simpa using hl
      rw [← hp, this]; rfl
    | some c =>
      right
      obtain ⟨ys, hys⟩ := List.getLast?_eq_some_iff.mp hl
      obtain ⟨hw, h34, h36⟩ := hlb c hl
      refine ⟨c, ?_, ?_⟩
      · show s[p - 1]? = some c
        have hp1 : p - 1 = ys.length := by rw [← hp, hys]; simp
        rw [hp1, ← Array.getElem?_toList, h, hys]
        simp
      · exact lb_mem_false c hw h34 h36
  obtain ⟨st, more, hd, hpos⟩ := dollar_head (defaultCfg.env s) _ tagStartSet Gen.wordSet (by decide +kernel) (by decide +kernel)
    p tag body rest h0 hlb' htag hle (by
      intro i hi
      have := hbody i hi
      have e1 : [36] ++ tag ++ [36] ++ rest = (36 :: (tag ++ [36])) ++ rest := by simp
      have e2 : [36] ++ tag ++ [36] = 36 :: (tag ++ [36]) := by simp
      rw [e1, e2] at this
      have hlow : (defaultCfg.env s).lower = sreLower := by simp [LexCfg.env, defaultCfg]
      rw [hlow]
      exact this)
  rw [firstMatch_first _ (deadOn 36) dollarRule _ p dollar_rule_first (fun x hx => deadOn_at _ 36 x hx p hc) st more hd, hpos]
  rfl

end Sql
