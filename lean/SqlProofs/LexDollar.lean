import SqlProofs.LexRegions
import SqlProofs.Lex.Dollar
/-!
# SqlProofs.LexDollar — a dollar-quoted literal `$tag$ … $tag$` is one token (rule 11 of the generated table)
-/
namespace Sql

/-! ## dollar-quoted literals -/

/-- `[_A-ZÀ-Ü]` under IGNORECASE: the first character of a dollar-quote tag -/
def tagStartSet : CpSet :=
  ⟨[(65, 90), (95, 95), (97, 122), (192, 220), (224, 246), (248, 252), (304, 305), (383, 383), (8490, 8491)]⟩

theorem re11_eq : Gen.re11 = dollarRe Gen.atom20 tagStartSet Gen.wordSet := by
  have h19 : Gen.atom19 = tagStartSet := by decide +kernel
  have h18 : Gen.atom18 = Gen.wordSet := by decide +kernel
  rw [← h19, ← h18]
  rfl

/-- the look-behind class of the rule is `[\w"$]` -/
theorem atom20_ranges : Gen.atom20.ranges = (34, 34) :: (36, 36) :: Gen.wordSet.ranges := by decide +kernel

theorem mem_ranges_cons2 (S T : CpSet) (a b a' b' : Nat) (h : S.ranges = (a, b) :: (a', b') :: T.ranges) (c : Nat) :
    S.mem c = ((decide (a ≤ c) && decide (c ≤ b)) || ((decide (a' ≤ c) && decide (c ≤ b')) || T.mem c)) := by
  simp [CpSet.mem, h]

theorem dead_before_dollar : ((Gen.rules.take 11).all fun r => start 36 r.re == .dead) = true := by decide +kernel

theorem lb_mem_false (c : Nat) (hw : Gen.wordSet.mem c = false) (h34 : c ≠ 34) (h36 : c ≠ 36) :
    Gen.atom20.mem c = false := by
  have e1 : (decide (34 ≤ c) && decide (c ≤ 34)) = false := by
    rw [Bool.and_eq_false_iff, decide_eq_false_iff_not, decide_eq_false_iff_not]; omega
  have e2 : (decide (36 ≤ c) && decide (c ≤ 36)) = false := by
    rw [Bool.and_eq_false_iff, decide_eq_false_iff_not, decide_eq_false_iff_not]; omega
  rw [mem_ranges_cons2 Gen.atom20 Gen.wordSet 34 34 36 36 atom20_ranges c, e1, e2, hw]
  rfl

/-- a dollar-quote tag: empty, or `[_A-ZÀ-Ü]` followed by `\w` characters -/
def DollarTag (tag : List Cp) : Prop := TagOK tagStartSet Gen.wordSet tag

/-- `$tag$body$tag$`: the delimiter is not preceded by a word character, `"` or `$`, and does not occur (up to case) starting inside the body -/
theorem dollar_quoted_token (s : Array Cp) (p : Nat) (pre tag body rest : List Cp)
    (h : s.toList = pre ++ [36] ++ tag ++ [36] ++ body ++ [36] ++ tag ++ [36] ++ rest) (hp : pre.length = p)
    (hlb : ∀ c, pre.getLast? = some c → Gen.wordSet.mem c = false ∧ c ≠ 34 ∧ c ≠ 36)
    (htag : DollarTag tag) (hle : ∀ c ∈ body, c ≤ 1114111)
    (hbody : ∀ i, i < body.length →
      (((body ++ ([36] ++ tag ++ [36] ++ rest)).drop i).take (tag.length + 2)).map sreLower
        ≠ ([36] ++ tag ++ [36]).map sreLower) :
    firstMatch (defaultCfg.env s) defaultCfg.rules p
      = some (.tok T.Literal, p + (tag.length + 2) + body.length + (tag.length + 2)) := by
  have h0 : (defaultCfg.env s).s.toList.drop p = (36 :: (tag ++ [36])) ++ (body ++ ((36 :: (tag ++ [36])) ++ rest)) :=
    sfx_of_split s pre _ p (by simpa using h) hp
  have hc := get_of_drop_cons _ p 36 _ (by simpa using h0)
  have hlb' : p = 0 ∨ ∃ c, (defaultCfg.env s).s[p - 1]? = some c ∧
      Gen.atom20.mem c = false := by
    cases hl : pre.getLast? with
    | none =>
      left
      have : pre = [] := by simpa using hl
      rw [← hp, this]; rfl
    | some c =>
      right
      obtain ⟨ys, hys⟩ := List.getLast?_eq_some_iff.mp hl
      obtain ⟨hw, h34, h36⟩ := hlb c hl
      refine ⟨c, ?_, ?_⟩
      · show s[p - 1]? = some c
        have hp1 : p - 1 = ys.length := by rw [← hp, hys]; simp
        rw [hp1, ← Array.getElem?_toList, h, hys]
        simp
      · exact lb_mem_false c hw h34 h36
  obtain ⟨st, more, hd, hpos⟩ := dollar_head (defaultCfg.env s) _ tagStartSet Gen.wordSet (by decide +kernel) (by decide +kernel)
    p tag body rest h0 hlb' htag hle (by
      intro i hi
      have := hbody i hi
      have e1 : [36] ++ tag ++ [36] ++ rest = (36 :: (tag ++ [36])) ++ rest := by simp
      have e2 : [36] ++ tag ++ [36] = 36 :: (tag ++ [36]) := by simp
      rw [e1, e2] at this
      have hlow : (defaultCfg.env s).lower = sreLower := by simp [LexCfg.env, defaultCfg]
      rw [hlow]
      exact this)
  have hr : derivs (defaultCfg.env s) Gen.rule11.re ⟨p, []⟩ = st :: more := by
    show derivs _ Gen.re11 _ = _
    rw [re11_eq]; exact hd
  have hpre := no_match_of_start (defaultCfg.env s) 36 (Gen.rules.take 11) dead_before_dollar p hc
  have hsplit : defaultCfg.rules = Gen.rules.take 11 ++ Gen.rule11 :: Gen.rules.drop 12 := rfl
  rw [hsplit, firstMatch_split _ _ Gen.rule11 _ p hpre st more hr, hpos]
  rfl

end Sql
