import SqlModel.Default
import SqlProofs.LexerTotal
import SqlProofs.Lex.Start
import SqlProofs.Lex.Quoted
/-!
# SqlProofs.LexScan — the token list of `lex` as a chain of scan steps, and what follows from it

`Scan cfg E p ts`: `ts` is the list of tokens the scan loop emits from position `p` on, each step being the result of `firstMatch` at the
current position (or a one-character Error token where no rule matches).  `lexLoop_scan` shows the loop returns such a chain for every
table whose rules have minimal width ≥ 1 and yield tokens.  Consequences proved here:
* every token that is not of a Whitespace type starts with a character that is not `str.isspace` (`lex_nonws_first`);
* the set of scan positions (`ScanBoundary`) and the token at each of them (`lex_emits`).
-/
namespace Sql

/-- the type of the token an action yields on value `v` -/
def tokType (cfg : LexCfg) (act : Action) (v : Text) : TType :=
  match act with
  | .tok tt => tt
  | .kw => isKeyword cfg v
  | .other => T.Error

inductive Scan (cfg : LexCfg) (E : Env) : Nat → List Tok → Prop
  | done (p : Nat) : E.s.size ≤ p → Scan cfg E p []
  | err (p : Nat) (c : Cp) (ts : List Tok) : E.s[p]? = some c → firstMatch E cfg.rules p = none →
      Scan cfg E (p + 1) ts → Scan cfg E p (⟨T.Error, [c]⟩ :: ts)
  | tok (p : Nat) (act : Action) (e : Nat) (ts : List Tok) : p < e → e ≤ E.s.size →
      firstMatch E cfg.rules p = some (act, e) → act ≠ .other → Scan cfg E e ts →
      Scan cfg E p (⟨tokType cfg act (E.s.extract p e).toList, (E.s.extract p e).toList⟩ :: ts)

theorem lexLoop_scan (cfg : LexCfg) (s : Array Cp) (hok : RulesOK cfg.rules = true) :
    ∀ (fuel pos : Nat), pos ≤ s.size → s.size - pos < fuel →
    ∃ ts, lexLoop cfg (cfg.env s) fuel pos = .ok ts ∧ Scan cfg (cfg.env s) pos ts := by
  intro fuel
  induction fuel with
  | zero => intro pos _ h; omega
  | succ fuel ih =>
    intro pos hpos hfuel
    have hsz : (cfg.env s).s.size = s.size := rfl
    unfold lexLoop
    cases hget : (cfg.env s).s[pos]? with
    | none =>
      have hge : s.size ≤ pos := by simpa [LexCfg.env] using hget
      exact ⟨[], rfl, Scan.done pos (by rw [hsz]; exact hge)⟩
    | some c =>
      have hlt : pos < s.size := by
        have := (Array.getElem?_eq_some_iff.mp hget).1
        simpa [LexCfg.env] using this
      simp only
      cases hfm : firstMatch (cfg.env s) cfg.rules pos with
      | none =>
        obtain ⟨ts, hts, hscan⟩ := ih (pos + 1) (by omega) (by omega)
        exact ⟨⟨T.Error, [c]⟩ :: ts, by simp [hts, Except.map], Scan.err pos c ts hget hfm hscan⟩
      | some ae =>
        obtain ⟨act, e⟩ := ae
        obtain ⟨hpe, hes, hact⟩ := firstMatch_progress (cfg.env s) cfg.rules hok pos (by rw [hsz]; exact hpos) act e hfm
        have hnle : ¬ e ≤ pos := by omega
        simp only [hnle, if_false]
        obtain ⟨ts, hts, hscan⟩ := ih e (by rw [hsz] at hes; exact hes) (by omega)
        have hsc := Scan.tok pos act e ts hpe hes hfm hact hscan
        cases act with
        | tok tt => exact ⟨_, by simp [hts, Except.map, tokType], hsc⟩
        | kw => exact ⟨_, by simp [hts, Except.map, tokType], hsc⟩
        | other => exact absurd rfl hact

theorem lex_scan (cfg : LexCfg) (hok : RulesOK cfg.rules = true) (s : Array Cp) :
    ∃ ts, lex cfg s = .ok ts ∧ Scan cfg (cfg.env s) 0 ts :=
  lexLoop_scan cfg s hok (s.size + 1) 0 (by omega) (by omega)

theorem defaultRulesOK : RulesOK defaultCfg.rules = true := by decide +kernel

/-- the tokens `lex defaultCfg` returns form a scan chain from position 0 -/
theorem lex_default_scan (s : Array Cp) (ts : List Tok) (h : lex defaultCfg s = .ok ts) :
    Scan defaultCfg (defaultCfg.env s) 0 ts := by
  obtain ⟨ts', h1, h2⟩ := lex_scan defaultCfg defaultRulesOK s
  rw [h] at h1
  injection h1 with h1
  subst h1; exact h2

/-! ## whitespace characters are lexed by the two whitespace rules -/

/-- all members of a class, listed -/
def CpSet.elems (S : CpSet) : List Nat := S.ranges.flatMap (fun r => List.range' r.1 (r.2 + 1 - r.1))

theorem CpSet.mem_elems (S : CpSet) (c : Nat) (h : S.mem c = true) : c ∈ S.elems := by
  simp only [CpSet.mem, List.any_eq_true, Bool.and_eq_true, decide_eq_true_eq] at h
  obtain ⟨r, hr, h1, h2⟩ := h
  have h1' : r.1 ≤ (c : Nat) := h1
  have h2' : (c : Nat) ≤ r.2 := h2
  simp only [CpSet.elems, List.mem_flatMap, List.mem_range'_1]
  exact ⟨r, hr, h1', by omega⟩

/-- the action yields a token of a Whitespace type -/
def wsAct : Action → Bool
  | .tok tt => tt.isIn T.Whitespace
  | _ => false

/-- `\s+?` over exactly the `str.isspace` code points, with action `Whitespace` -/
def wsRule : Rule := ⟨.rep 1 none false (.set Gen.spaceSet), .tok T.Whitespace⟩

/-- table obligation: the table contains the whitespace rule (so `\s` and `str.isspace` are the same set), and every rule before it
either yields a Whitespace-typed token itself (the newline rule) or cannot start at any whitespace character (the comment rules) -/
theorem ws_rule_first :
    firstWith (fun x => wsAct x.act || Gen.spaceSet.elems.all (fun c => deadOn c x)) wsRule defaultCfg.rules = true := by
  decide +kernel

theorem repAux_lazy1_ne (step : St → List St) (fuel : Nat) (st a : St) (h : step st = [a]) (ha : st.pos < a.pos) :
    repAux step false (fuel + 1) 1 none st ≠ [] := by
  have key : repAux step false fuel 0 none a ≠ [] := by
    cases fuel with
    | zero => simp [repAux_zero0]
    | succ k => simp [repAux_lazy0]
  rw [repAux]
  simpa [h, ha] using key

/-- `\s+?` has a derivation wherever the character is in `\s` -/
theorem ws_rule_matches (E : Env) (S : CpSet) (p : Nat) (c : Cp) (hc : E.s[p]? = some c) (hS : S.mem c = true) :
    derivs E (.rep 1 none false (.set S)) ⟨p, []⟩ ≠ [] := by
  have hstep : derivs E (.set S) ⟨p, []⟩ = [⟨p + 1, []⟩] := by simp [derivs, hc, hS]
  rw [derivs_rep]
  exact repAux_lazy1_ne _ _ _ _ hstep (by simp)

theorem firstMatch_good (E : Env) (good : Action → Bool) (r : Rule) (back : List Rule) (p : Nat)
    (hr : derivs E r.re ⟨p, []⟩ ≠ []) (hg : good r.act = true) :
    ∀ front : List Rule, (∀ x ∈ front, good x.act = true ∨ derivs E x.re ⟨p, []⟩ = []) →
      ∃ act e, firstMatch E (front ++ r :: back) p = some (act, e) ∧ good act = true := by
  intro front
  induction front with
  | nil =>
    intro _
    cases hd : derivs E r.re ⟨p, []⟩ with
    | nil => exact absurd hd hr
    | cons st more => exact ⟨r.act, st.pos, by simp [firstMatch, matchAt, hd], hg⟩
  | cons x xs ih =>
    intro hf
    cases hd : derivs E x.re ⟨p, []⟩ with
    | nil =>
      obtain ⟨act, e, h1, h2⟩ := ih (fun y hy => hf y (by simp [hy]))
      exact ⟨act, e, by simp only [List.cons_append, firstMatch, matchAt, hd, List.head?_nil]; exact h1, h2⟩
    | cons st more =>
      rcases hf x (by simp) with hx | hx
      · exact ⟨x.act, st.pos, by simp [firstMatch, matchAt, hd], hx⟩
      · rw [hx] at hd; exact absurd hd (by simp)

/-- at a whitespace character the scan step yields a token of a Whitespace type -/
theorem firstMatch_at_space (s : Array Cp) (p : Nat) (c : Cp) (hc : (defaultCfg.env s).s[p]? = some c)
    (hsp : isSpace c = true) :
    ∃ tt e, firstMatch (defaultCfg.env s) defaultCfg.rules p = some (.tok tt, e) ∧ tt.isIn T.Whitespace = true := by
  have hm : Gen.spaceSet.mem c = true := hsp
  obtain ⟨front, back, hrules, hf⟩ := firstWith_spec _ _ _ ws_rule_first
  have h5 : derivs (defaultCfg.env s) wsRule.re ⟨p, []⟩ ≠ [] := ws_rule_matches _ _ p c hc hm
  obtain ⟨act, e, h1, h2⟩ := firstMatch_good (defaultCfg.env s) wsAct wsRule back p h5 (by decide) front (by
    intro x hx
    have := hf x hx
    simp only [Bool.or_eq_true, List.all_eq_true] at this
    rcases this with h | h
    · exact Or.inl h
    · exact Or.inr (deadOn_at _ c x (h c (CpSet.mem_elems _ c hm)) p hc))
  rw [hrules]
  cases act with
  | tok tt => exact ⟨tt, e, h1, h2⟩
  | kw => simp [wsAct] at h2
  | other => simp [wsAct] at h2

/-! ## first character of a token that is not of a Whitespace type -/

/-- the value starts with a character that is not `str.isspace` -/
def StartsNonSpace (v : Text) : Prop := ∃ c rest, v = c :: rest ∧ isSpace c = false

theorem extract_head (E : Env) (p e : Nat) (c : Cp) (hc : E.s[p]? = some c) (hpe : p < e) :
    ∃ rest, (E.s.extract p e).toList = c :: rest := by
  have hlt := (Array.getElem?_eq_some_iff.mp hc).1
  have hv := (Array.getElem?_eq_some_iff.mp hc).2
  rw [extract_toList]
  have h' : p < E.s.toList.length := by simpa using hlt
  rw [List.drop_eq_getElem_cons h']
  have he : e - p = (e - p - 1) + 1 := by omega
  rw [he, List.take_succ_cons]
  have hv' : E.s.toList[p] = c := by simpa using hv
  rw [hv']
  exact ⟨_, rfl⟩

theorem scan_nonws_first (s : Array Cp) : ∀ (p : Nat) (ts : List Tok), Scan defaultCfg (defaultCfg.env s) p ts →
    ∀ t ∈ ts, t.tt.isIn T.Whitespace = false → StartsNonSpace t.val := by
  intro p ts h
  induction h with
  | done p _ => intro t ht; simp at ht
  | err p c ts hc hfm _ ih =>
    intro t ht hws
    simp only [List.mem_cons] at ht
    rcases ht with rfl | ht
    · refine ⟨c, [], rfl, ?_⟩
      cases hsp : isSpace c with
      | false => rfl
      | true =>
        obtain ⟨tt, e, h1, _⟩ := firstMatch_at_space s p c hc hsp
        rw [hfm] at h1; simp at h1
    · exact ih t ht hws
  | tok p act e ts hpe _ hfm hact _ ih =>
    intro t ht hws
    simp only [List.mem_cons] at ht
    rcases ht with rfl | ht
    · have hlt : p < (defaultCfg.env s).s.size := by omega
      have hc : (defaultCfg.env s).s[p]? = some ((defaultCfg.env s).s[p]) := Array.getElem?_eq_getElem hlt
      obtain ⟨rest, hrest⟩ := extract_head _ p e _ hc hpe
      refine ⟨_, rest, hrest, ?_⟩
      cases hsp : isSpace ((defaultCfg.env s).s[p]) with
      | false => rfl
      | true =>
        exfalso
        obtain ⟨tt, e', h1, h2⟩ := firstMatch_at_space s p _ hc hsp
        rw [hfm] at h1
        simp only [Option.some.injEq, Prod.mk.injEq] at h1
        obtain ⟨h1, _⟩ := h1
        subst h1
        simp only [tokType] at hws
        rw [h2] at hws; exact absurd hws (by simp)
    · exact ih t ht hws

/-- **every token that is not of a Whitespace type starts with a non-space character** -/
theorem lex_nonws_first (s : Array Cp) (ts : List Tok) (h : lex defaultCfg s = .ok ts) :
    ∀ t ∈ ts, t.tt.isIn T.Whitespace = false → StartsNonSpace t.val :=
  scan_nonws_first s 0 ts (lex_default_scan s ts h)

/-! ## scan positions -/

/-- where the scan loop stands after the step at `p` -/
def scanNext (cfg : LexCfg) (E : Env) (p : Nat) : Nat :=
  match firstMatch E cfg.rules p with
  | none => p + 1
  | some (_, e) => e

/-- the positions at which the scan loop of `lex` performs a step: 0, and the end of the token emitted at a scan position -/
inductive ScanBoundary (cfg : LexCfg) (E : Env) : Nat → Prop
  | zero : ScanBoundary cfg E 0
  | next (p : Nat) : ScanBoundary cfg E p → p < E.s.size → ScanBoundary cfg E (scanNext cfg E p)

/-- text length of a token list -/
def textLen (ts : List Tok) : Nat := ((ts.map (·.val)).flatten).length

theorem textLen_nil : textLen [] = 0 := rfl
theorem textLen_append (a b : List Tok) : textLen (a ++ b) = textLen a + textLen b := by
  simp [textLen]
theorem textLen_cons (t : Tok) (b : List Tok) : textLen (t :: b) = t.val.length + textLen b := by
  simp [textLen]

theorem extract_length (E : Env) (p e : Nat) (h1 : p ≤ e) (h2 : e ≤ E.s.size) :
    (E.s.extract p e).toList.length = e - p := by
  simp; omega

/-- at every scan position the token list splits into the tokens before it (spelling exactly the first `p` characters)
and a scan chain from `p` -/
theorem scan_at_boundary (cfg : LexCfg) (E : Env) (ts : List Tok) (h0 : Scan cfg E 0 ts) (p : Nat)
    (hb : ScanBoundary cfg E p) : ∃ before rest, ts = before ++ rest ∧ textLen before = p ∧ Scan cfg E p rest := by
  induction hb with
  | zero => exact ⟨[], ts, rfl, rfl, h0⟩
  | next p _ hlt ih =>
    obtain ⟨before, rest, hts, hlen, hscan⟩ := ih
    cases hscan with
    | done _ hge => omega
    | err _ c ts' hc hfm hs' =>
      refine ⟨before ++ [⟨T.Error, [c]⟩], ts', by simp [hts], ?_, ?_⟩
      · rw [textLen_append, hlen]; simp [scanNext, hfm, textLen]
      · simpa [scanNext, hfm] using hs'
    | tok _ act e ts' hpe hes hfm hact hs' =>
      refine ⟨before ++ [⟨tokType cfg act (E.s.extract p e).toList, (E.s.extract p e).toList⟩], ts', by simp [hts], ?_, ?_⟩
      · rw [textLen_append, hlen, textLen_cons, textLen_nil]
        simp only [scanNext, hfm]
        rw [extract_length E p e (by omega) hes]; omega
      · simpa [scanNext, hfm] using hs'

/-- conversely, every token of the chain starts at a scan position -/
theorem boundary_of_scan (cfg : LexCfg) (E : Env) : ∀ (q : Nat) (ts : List Tok), Scan cfg E q ts → ScanBoundary cfg E q →
    ∀ before after, ts = before ++ after → ScanBoundary cfg E (q + textLen before) := by
  intro q ts h
  induction h with
  | done p _ =>
    intro hb before after hts
    have : before = [] := by
      cases before with
      | nil => rfl
      | cons a b => simp at hts
    subst this; simpa [textLen] using hb
  | err p c ts' hc hfm _ ih =>
    intro hb before after hts
    cases before with
    | nil => simpa [textLen] using hb
    | cons a b =>
      simp only [List.cons_append, List.cons.injEq] at hts
      obtain ⟨rfl, hts'⟩ := hts
      have hlt : p < E.s.size := (Array.getElem?_eq_some_iff.mp hc).1
      have hb' := ScanBoundary.next p hb hlt
      simp only [scanNext, hfm] at hb'
      have := ih hb' b after hts'
      rw [textLen_cons]
      simpa [Nat.add_assoc] using this
  | tok p act e ts' hpe hes hfm hact _ ih =>
    intro hb before after hts
    cases before with
    | nil => simpa [textLen] using hb
    | cons a b =>
      simp only [List.cons_append, List.cons.injEq] at hts
      obtain ⟨rfl, hts'⟩ := hts
      have hb' := ScanBoundary.next p hb (by omega)
      simp only [scanNext, hfm] at hb'
      have := ih hb' b after hts'
      rw [textLen_cons]
      simp only
      rw [extract_length E p e (by omega) hes]
      have he : p + (e - p + textLen b) = e + textLen b := by omega
      rw [he]; exact this

theorem boundary_le_size (cfg : LexCfg) (E : Env) (hok : RulesOK cfg.rules = true) (p : Nat) (hb : ScanBoundary cfg E p) :
    p ≤ E.s.size := by
  induction hb with
  | zero => omega
  | next p _ hlt ih =>
    unfold scanNext
    split
    · omega
    · rename_i act e hfm
      exact (firstMatch_progress E cfg.rules hok p ih act e hfm).2.1

/-- **the token emitted at a scan position.**  If `p` is a scan position of `lex defaultCfg s` and the scan step there yields
`(act, e)`, then the token list contains the token with value `s[p..e)` — of type `ty` for a rule action `ty`, of type
`is_keyword(value)` for `PROCESS_AS_KEYWORD` — right after tokens spelling `s[0..p)`, and `e` is again a scan position. -/
theorem lex_emits_act (s : Array Cp) (p : Nat) (act : Action) (e : Nat)
    (hb : ScanBoundary defaultCfg (defaultCfg.env s) p)
    (hfm : firstMatch (defaultCfg.env s) defaultCfg.rules p = some (act, e)) :
    ∃ ts before after, lex defaultCfg s = .ok ts ∧
      ts = before ++ ⟨tokType defaultCfg act (s.extract p e).toList, (s.extract p e).toList⟩ :: after ∧
      textLen before = p ∧ ScanBoundary defaultCfg (defaultCfg.env s) e := by
  obtain ⟨ts, hlex, hscan⟩ := lex_scan defaultCfg defaultRulesOK s
  obtain ⟨before, rest, hts, hlen, hsc⟩ := scan_at_boundary _ _ ts hscan p hb
  cases hsc with
  | done _ hge =>
    have hp := boundary_le_size defaultCfg (defaultCfg.env s) defaultRulesOK p hb
    have := firstMatch_progress _ _ defaultRulesOK p hp _ _ hfm
    omega
  | err _ c ts' hc hfm' _ => rw [hfm] at hfm'; exact absurd hfm' (by simp)
  | tok _ act' e' ts' hpe hes hfm' hact _ =>
    rw [hfm] at hfm'
    simp only [Option.some.injEq, Prod.mk.injEq] at hfm'
    obtain ⟨rfl, rfl⟩ := hfm'
    refine ⟨ts, before, ts', hlex, hts, hlen, ?_⟩
    have := ScanBoundary.next p hb (by omega)
    simpa [scanNext, hfm] using this

theorem lex_emits (s : Array Cp) (p : Nat) (ty : TType) (e : Nat)
    (hb : ScanBoundary defaultCfg (defaultCfg.env s) p)
    (hfm : firstMatch (defaultCfg.env s) defaultCfg.rules p = some (.tok ty, e)) :
    ∃ ts before after, lex defaultCfg s = .ok ts ∧ ts = before ++ ⟨ty, (s.extract p e).toList⟩ :: after ∧
      textLen before = p ∧ ScanBoundary defaultCfg (defaultCfg.env s) e :=
  lex_emits_act s p (.tok ty) e hb hfm

theorem extract_region (s : Array Cp) (pre mid rest : List Cp) (p : Nat) (h : s.toList = pre ++ mid ++ rest)
    (hp : pre.length = p) : (s.extract p (p + mid.length)).toList = mid := by
  rw [extract_toList, h, ← hp]
  simp

/-- scan positions are exactly the offsets at which tokens of the output start (and the end of the text) -/
theorem boundary_iff_offset (s : Array Cp) (ts : List Tok) (h : lex defaultCfg s = .ok ts) (p : Nat) :
    ScanBoundary defaultCfg (defaultCfg.env s) p ↔ ∃ before after, ts = before ++ after ∧ textLen before = p := by
  have hscan := lex_default_scan s ts h
  constructor
  · intro hb
    obtain ⟨before, rest, hts, hlen, _⟩ := scan_at_boundary _ _ ts hscan p hb
    exact ⟨before, rest, hts, hlen⟩
  · rintro ⟨before, after, hts, hlen⟩
    have := boundary_of_scan _ _ 0 ts hscan ScanBoundary.zero before after hts
    rw [← hlen]; simpa using this

/-- a region theorem at a scan position, read on the output of `lex`: the region is one token of the output, at its offset -/
theorem region_in_lex (s : Array Cp) (p : Nat) (pre region rest : List Cp) (ty : TType)
    (h : s.toList = pre ++ region ++ rest) (hp : pre.length = p)
    (hb : ScanBoundary defaultCfg (defaultCfg.env s) p)
    (hfm : firstMatch (defaultCfg.env s) defaultCfg.rules p = some (.tok ty, p + region.length)) :
    ∃ ts before after, lex defaultCfg s = .ok ts ∧ ts = before ++ ⟨ty, region⟩ :: after ∧
      textLen before = p ∧ ScanBoundary defaultCfg (defaultCfg.env s) (p + region.length) := by
  obtain ⟨ts, before, after, h1, h2, h3, h4⟩ := lex_emits s p ty _ hb hfm
  rw [extract_region s pre region rest p h hp] at h2
  exact ⟨ts, before, after, h1, h2, h3, h4⟩

end Sql
