import SqlProofs.SpacesSpec
/-!
# SqlProofs.StripwsSpec — the normal form `StripWhitespaceFilter` establishes (C10, tree level)

What is true of **every** child list of the result (`stripws_nf`): it is a fixed point of `_stripws_default`, i.e. every
whitespace-typed leaf has the value `''` if it is the first child or follows a whitespace-typed sibling, and `' '` otherwise.
Consequences: no list starts with a non-empty whitespace leaf, and no non-empty whitespace leaf follows a whitespace leaf
(in particular no two adjacent non-empty ones).  Whitespace tokens are not deleted, only emptied.
What is *not* true in general:
* at depth 0 only **one** trailing whitespace token is popped, so `'select 1  '` still ends in a `' '` leaf (followed by
  nothing; the serializer's `rstrip` hides it);
* in an `IdentifierList` only the whitespace token *directly* before a comma is removed, so `foo  ,` keeps one blank
  (`foo ,`); a second pass removes it;
* the parenthesis rule (`tokens[1]` and `tokens[-2]` are not whitespace) holds for the list `_stripws_parenthesis` returns
  (`stripwsParenthesis_inner`), but an enclosing parenthesis may afterwards trim that list's trailing whitespace.
-/
namespace Sql
open FNode (leaves leavesL)

/-- fixed point of `_stripws_default`, spelled out -/
def wsNFGo : Bool → Bool → List FNode → Bool
  | _, _, [] => true
  | lastWasWs, isFirst, k :: rest =>
    (match k with
     | .tok tt v => !tt.isIn T.Whitespace || v == (if lastWasWs || isFirst then [] else [32])
     | .grp .. => true) && wsNFGo k.isWhitespace false rest

/-- the normal form of one child list -/
def wsNF (ks : List FNode) : Bool := wsNFGo false true ks

theorem wsNFGo_stripwsDefaultGo : ∀ (ks : List FNode) (a b : Bool), wsNFGo a b (stripwsDefaultGo a b ks) = true
  | [], a, b => rfl
  | k :: rest, a, b => by
    unfold stripwsDefaultGo
    cases k with
    | tok tt v =>
      by_cases h : tt.isIn T.Whitespace = true
      · simp only [h, if_true, wsNFGo, FNode.isWhitespace, Bool.not_true, Bool.false_or, beq_self_eq_true, Bool.true_and]
        exact wsNFGo_stripwsDefaultGo rest _ _
      · simp only [h, Bool.false_eq_true, if_false, wsNFGo, FNode.isWhitespace, Bool.not_false, Bool.true_or, Bool.true_and]
        have := wsNFGo_stripwsDefaultGo rest false false
        simpa [FNode.isWhitespace, h] using this
    | grp c cv gks =>
      simp only [wsNFGo, FNode.isWhitespace, Bool.true_and]
      exact wsNFGo_stripwsDefaultGo rest _ _

theorem wsNFGo_prefix : ∀ (x y : List FNode) (a b : Bool), wsNFGo a b (x ++ y) = true → wsNFGo a b x = true
  | [], y, a, b, _ => rfl
  | k :: x, y, a, b, h => by
    simp only [List.cons_append, wsNFGo, Bool.and_eq_true] at h ⊢
    exact ⟨h.1, wsNFGo_prefix x y _ _ h.2⟩

theorem dropTrailingWs_prefix (l : List FNode) : ∃ y, l = dropTrailingWs l ++ y := by
  unfold dropTrailingWs
  have h := List.takeWhile_append_dropWhile (p := FNode.isWhitespace) (l := l.reverse)
  refine ⟨(l.reverse.takeWhile FNode.isWhitespace).reverse, ?_⟩
  have := congrArg List.reverse h
  simp only [List.reverse_append, List.reverse_reverse] at this
  exact this.symm

theorem wsNFGo_dropTrailingWs (l : List FNode) (a b : Bool) (h : wsNFGo a b l = true) : wsNFGo a b (dropTrailingWs l) = true := by
  obtain ⟨y, hy⟩ := dropTrailingWs_prefix l
  rw [hy] at h
  exact wsNFGo_prefix _ y a b h

theorem popTrailingWs_prefix (l : List FNode) : ∃ y, l = popTrailingWs l ++ y := by
  unfold popTrailingWs
  cases hl : l.getLast? with
  | none => exact ⟨[], by simp⟩
  | some x =>
    simp only
    split
    · obtain ⟨ys, hys⟩ := List.getLast?_eq_some_iff.mp hl
      refine ⟨[x], ?_⟩
      rw [hys]; simp
    · exact ⟨[], by simp⟩

/-! `A l`: every group below `l` has normal-form child lists -/

theorem allListsL_append (P : List FNode → Bool) : ∀ (a b : List FNode),
    FNode.allListsL P (a ++ b) = (FNode.allListsL P a && FNode.allListsL P b)
  | [], b => by simp [FNode.allListsL]
  | k :: a, b => by simp [FNode.allListsL, allListsL_append P a b, Bool.and_assoc]

theorem allListsL_prefix (P : List FNode → Bool) (x y : List FNode) (h : FNode.allListsL P (x ++ y) = true) :
    FNode.allListsL P x = true := by
  rw [allListsL_append, Bool.and_eq_true] at h; exact h.1

theorem allListsL_suffix (P : List FNode → Bool) (x y : List FNode) (h : FNode.allListsL P (x ++ y) = true) :
    FNode.allListsL P y = true := by
  rw [allListsL_append, Bool.and_eq_true] at h; exact h.2

theorem allListsL_stripwsDefaultGo (P : List FNode → Bool) : ∀ (ks : List FNode) (a b : Bool),
    FNode.allListsL P (stripwsDefaultGo a b ks) = FNode.allListsL P ks
  | [], a, b => rfl
  | k :: rest, a, b => by
    unfold stripwsDefaultGo
    cases k with
    | tok tt v =>
      simp only [FNode.allListsL, allListsL_stripwsDefaultGo P rest]
      congr 1
      split <;> rfl
    | grp c cv gks => simp only [FNode.allListsL, allListsL_stripwsDefaultGo P rest]

theorem allListsL_dropWsBeforeComma (P : List FNode → Bool) : ∀ (ks : List FNode), FNode.allListsL P ks = true →
    FNode.allListsL P (dropWsBeforeComma ks) = true
  | [], _ => rfl
  | a :: rest, h => by
    simp only [FNode.allListsL, Bool.and_eq_true] at h
    unfold dropWsBeforeComma
    have key : ∀ (c : Bool), FNode.allListsL P (if c = true then dropWsBeforeComma rest else a :: dropWsBeforeComma rest) = true := by
      intro c
      cases c with
      | true => simp only [if_true]; exact allListsL_dropWsBeforeComma P rest h.2
      | false =>
        simp only [Bool.false_eq_true, if_false, FNode.allListsL, Bool.and_eq_true]
        exact ⟨h.1, allListsL_dropWsBeforeComma P rest h.2⟩
    exact key _

theorem allListsL_dropWhile (P : List FNode → Bool) (p : FNode → Bool) : ∀ (l : List FNode), FNode.allListsL P l = true →
    FNode.allListsL P (l.dropWhile p) = true
  | [], _ => rfl
  | k :: l, h => by
    by_cases hk : p k = true
    · rw [List.dropWhile_cons_of_pos hk]
      simp only [FNode.allListsL, Bool.and_eq_true] at h
      exact allListsL_dropWhile P p l h.2
    · rw [List.dropWhile_cons_of_neg hk]; exact h


theorem allListsL_cons (P : List FNode → Bool) (k : FNode) (l : List FNode) :
    FNode.allListsL P (k :: l) = (k.allLists P && FNode.allListsL P l) := rfl

theorem allListsL_dropTrailingWs (P : List FNode → Bool) (l : List FNode) (h : FNode.allListsL P l = true) :
    FNode.allListsL P (dropTrailingWs l) = true := by
  obtain ⟨y, hy⟩ := dropTrailingWs_prefix l
  rw [hy] at h
  exact allListsL_prefix P _ y h

theorem wsNF_stripwsDefault (ks : List FNode) : wsNF (stripwsDefault ks) = true := wsNFGo_stripwsDefaultGo ks false true

theorem nf_stripwsParenthesis (ks ks' : List FNode) (hA : FNode.allListsL wsNF ks = true)
    (h : stripwsParenthesis ks = .ok ks') : wsNF ks' = true ∧ FNode.allListsL wsNF ks' = true := by
  unfold stripwsParenthesis at h
  cases ks with
  | nil => simp at h
  | cons first tl =>
    simp only at h
    rw [allListsL_cons, Bool.and_eq_true] at hA
    cases hdw : tl.dropWhile FNode.isWhitespace with
    | nil => rw [hdw] at h; simp at h
    | cons t1 tl1 =>
      rw [hdw] at h
      simp only at h
      have hA1 : FNode.allListsL wsNF (t1 :: tl1) = true := by rw [← hdw]; exact allListsL_dropWhile _ _ _ hA.2
      obtain ⟨ys, l', hys⟩ : ∃ ys l', t1 :: tl1 = ys ++ [l'] := by
        have hne : (t1 :: tl1) ≠ [] := by simp
        exact ⟨(t1 :: tl1).dropLast, (t1 :: tl1).getLast hne, (List.dropLast_concat_getLast hne).symm⟩
      have hlast : (t1 :: tl1).getLast?.getD t1 = l' := by rw [hys]; simp
      have hinit : (first :: t1 :: tl1).dropLast = first :: ys := by
        rw [hys]
        cases ys with
        | nil => simp
        | cons y ys' => simp [List.dropLast]
      rw [hlast, hinit] at h
      rw [hys] at hA1
      have hAys := allListsL_prefix _ _ _ hA1
      have hAl' : l'.allLists wsNF = true := by
        have := allListsL_suffix _ _ _ hA1
        simpa [FNode.allListsL] using this
      have hAinit : FNode.allListsL wsNF (first :: ys) = true := by rw [allListsL_cons, hA.1, hAys]; rfl
      cases hrev : (dropTrailingWs (first :: ys)).reverse with
      | nil => rw [hrev] at h; simp at h
      | cons pen revInit =>
        rw [hrev] at h
        simp only at h
        have hdt : dropTrailingWs (first :: ys) = revInit.reverse ++ [pen] := by
          have := congrArg List.reverse hrev
          simpa using this
        have hAd := allListsL_dropTrailingWs _ _ hAinit
        rw [hdt] at hAd
        have hArev := allListsL_prefix _ _ _ hAd
        have hApen : pen.allLists wsNF = true := by
          have := allListsL_suffix _ _ _ hAd
          simpa [FNode.allListsL] using this
        cases pen with
        | tok tt v =>
          simp only [Except.ok.injEq] at h
          rw [← h]
          refine ⟨wsNF_stripwsDefault _, ?_⟩
          unfold stripwsDefault
          rw [allListsL_stripwsDefaultGo, allListsL_append, hArev]
          simp [FNode.allListsL, hApen, hAl']
        | grp c cv gks =>
          simp only at h
          cases hg : dropTrailingWs gks with
          | nil => rw [hg] at h; simp at h
          | cons g0 grest =>
            rw [hg] at h
            simp only [Except.ok.injEq] at h
            rw [← h]
            refine ⟨wsNF_stripwsDefault _, ?_⟩
            unfold FNode.allLists at hApen
            rw [Bool.and_eq_true] at hApen
            have hpen' : (FNode.grp c cv (g0 :: grest)).allLists wsNF = true := by
              unfold FNode.allLists
              rw [← hg, Bool.and_eq_true]
              exact ⟨wsNFGo_dropTrailingWs _ _ _ hApen.1, allListsL_dropTrailingWs _ _ hApen.2⟩
            unfold stripwsDefault
            rw [allListsL_stripwsDefaultGo, allListsL_append, hArev]
            simp [FNode.allListsL, hpen', hAl']

theorem nf_stripwsLevel (d : Nat) (c : Cls) (ks ks' : List FNode) (hA : FNode.allListsL wsNF ks = true)
    (h : stripwsLevel d c ks = .ok ks') : wsNF ks' = true ∧ FNode.allListsL wsNF ks' = true := by
  unfold stripwsLevel at h
  cases hd : stripwsDispatch c ks with
  | error e => rw [hd] at h; cases h
  | ok ks1 =>
    rw [hd] at h
    simp only [Except.ok.injEq] at h
    have h1 : wsNF ks1 = true ∧ FNode.allListsL wsNF ks1 = true := by
      unfold stripwsDispatch at hd
      split at hd
      · simp only [Except.ok.injEq] at hd
        rw [← hd]
        refine ⟨wsNF_stripwsDefault _, ?_⟩
        unfold stripwsIdentifierList stripwsDefault
        rw [allListsL_stripwsDefaultGo]
        exact allListsL_dropWsBeforeComma _ _ hA
      · exact nf_stripwsParenthesis ks ks1 hA hd
      · simp only [Except.ok.injEq] at hd
        rw [← hd]
        refine ⟨wsNF_stripwsDefault _, ?_⟩
        unfold stripwsDefault
        rw [allListsL_stripwsDefaultGo]; exact hA
    rw [← h]
    split
    · obtain ⟨y, hy⟩ := popTrailingWs_prefix ks1
      rw [hy] at h1
      exact ⟨wsNFGo_prefix _ y _ _ h1.1, allListsL_prefix _ _ y h1.2⟩
    · exact h1

mutual
theorem stripws_nf_node : ∀ (n : FNode) (fuel d : Nat) (n' : FNode), bottomUp stripwsLevel fuel d n = .ok n' →
    n'.allLists wsNF = true
  | .tok tt v, fuel, d, n', h => by
    unfold bottomUp at h
    simp only [Except.ok.injEq] at h
    rw [← h]; rfl
  | .grp c cv ks, fuel, d, n', h => by
    unfold bottomUp at h
    cases fuel with
    | zero => simp at h
    | succ fuel' =>
      simp only at h
      cases hk : bottomUpL stripwsLevel fuel' (d + 1) ks with
      | error e => rw [hk] at h; cases h
      | ok ks' =>
        rw [hk] at h
        simp only at h
        cases hl : stripwsLevel d c ks' with
        | error e => rw [hl] at h; cases h
        | ok ks'' =>
          rw [hl] at h
          simp only [Except.ok.injEq] at h
          rw [← h]
          have hA := stripws_nf_list ks fuel' (d + 1) ks' hk
          obtain ⟨a, b⟩ := nf_stripwsLevel d c ks' ks'' hA hl
          unfold FNode.allLists
          rw [a, b]; rfl
theorem stripws_nf_list : ∀ (ns : List FNode) (fuel d : Nat) (ns' : List FNode), bottomUpL stripwsLevel fuel d ns = .ok ns' →
    FNode.allListsL wsNF ns' = true
  | [], fuel, d, ns', h => by
    unfold bottomUpL at h
    simp only [Except.ok.injEq] at h
    rw [← h]; rfl
  | k :: rest, fuel, d, ns', h => by
    unfold bottomUpL at h
    cases hk : bottomUp stripwsLevel fuel d k with
    | error e => rw [hk] at h; cases h
    | ok k' =>
      rw [hk] at h
      simp only at h
      cases hr : bottomUpL stripwsLevel fuel d rest with
      | error e => rw [hr] at h; cases h
      | ok rest' =>
        rw [hr] at h
        simp only [Except.ok.injEq] at h
        rw [← h, allListsL_cons, stripws_nf_node k fuel d k' hk, stripws_nf_list rest fuel d rest' hr]
        rfl
end

/-- C10, `strip_whitespace`: every child list of the result is a fixed point of `_stripws_default` — a whitespace leaf is
`''` when it is first in its list or follows a whitespace sibling, and `' '` otherwise -/
theorem stripws_nf (fuel : Nat) (n n' : FNode) (h : stripWhitespace fuel n = .ok n') : n'.allLists wsNF = true :=
  stripws_nf_node n fuel 0 n' h

/-! ## consequences of the normal form, and the parenthesis rule -/

/-- a list in normal form does not start with a non-empty whitespace leaf -/
theorem wsNF_head (tt : TType) (v : Text) (rest : List FNode) (h : wsNF (FNode.tok tt v :: rest) = true)
    (hw : tt.isIn T.Whitespace = true) : v = [] := by
  simp only [wsNF, wsNFGo, hw, Bool.not_true, Bool.false_or, Bool.and_eq_true] at h
  simpa using h.1

/-- in a list in normal form a whitespace leaf that follows a whitespace sibling is empty (so no two adjacent whitespace
leaves are both non-empty), and one that follows a non-whitespace sibling is exactly `' '` -/
theorem wsNFGo_adjacent : ∀ (pre : List FNode) (a : FNode) (tt : TType) (v : Text) (post : List FNode) (x y : Bool),
    wsNFGo x y (pre ++ a :: FNode.tok tt v :: post) = true → tt.isIn T.Whitespace = true →
    v = if a.isWhitespace then [] else [32]
  | [], a, tt, v, post, x, y, h, hw => by
    simp only [List.nil_append, wsNFGo, hw, Bool.not_true, Bool.false_or, Bool.and_eq_true, Bool.or_false] at h
    have := h.2.1
    simpa using this
  | p :: pre, a, tt, v, post, x, y, h, hw => by
    simp only [List.cons_append, wsNFGo, Bool.and_eq_true] at h
    exact wsNFGo_adjacent pre a tt v post _ _ h.2 hw

theorem map_ws_stripwsDefaultGo : ∀ (ks : List FNode) (a b : Bool),
    (stripwsDefaultGo a b ks).map FNode.isWhitespace = ks.map FNode.isWhitespace
  | [], a, b => rfl
  | k :: rest, a, b => by
    unfold stripwsDefaultGo
    simp only [List.map_cons, map_ws_stripwsDefaultGo rest]
    congr 1
    cases k with
    | tok tt v => by_cases h : tt.isIn T.Whitespace = true <;> simp [h, FNode.isWhitespace]
    | grp c cv gks => rfl

theorem dropTrailingWs_rest_ws (l : List FNode) : ∃ y, l = dropTrailingWs l ++ y ∧ ∀ k ∈ y, k.isWhitespace = true := by
  unfold dropTrailingWs
  have h := List.takeWhile_append_dropWhile (p := FNode.isWhitespace) (l := l.reverse)
  refine ⟨(l.reverse.takeWhile FNode.isWhitespace).reverse, ?_, ?_⟩
  · have := congrArg List.reverse h
    simp only [List.reverse_append, List.reverse_reverse] at this
    exact this.symm
  · intro k hk
    exact mem_takeWhile_sat FNode.isWhitespace _ k (List.mem_reverse.mp hk)

theorem dropTrailingWs_last_not_ws (l : List FNode) (pen : FNode) (rev : List FNode)
    (h : (dropTrailingWs l).reverse = pen :: rev) : pen.isWhitespace = false := by
  unfold dropTrailingWs at h
  rw [List.reverse_reverse] at h
  exact dropWhile_head_not FNode.isWhitespace l.reverse pen (by rw [h]; rfl)

/-- what `_stripws_parenthesis` returns: at least two children, and the last but one is not whitespace (`tokens[-2]`) -/
theorem stripwsParenthesis_before_close (ks ks' : List FNode) (h : stripwsParenthesis ks = .ok ks') :
    ∃ init y z, ks' = init ++ [y, z] ∧ y.isWhitespace = false := by
  unfold stripwsParenthesis at h
  cases ks with
  | nil => simp at h
  | cons first tl =>
    simp only at h
    cases hdw : tl.dropWhile FNode.isWhitespace with
    | nil => rw [hdw] at h; simp at h
    | cons t1 tl1 =>
      rw [hdw] at h
      simp only at h
      cases hrev : (dropTrailingWs (first :: t1 :: tl1).dropLast).reverse with
      | nil => rw [hrev] at h; simp at h
      | cons pen revInit =>
        rw [hrev] at h
        simp only at h
        have hpen := dropTrailingWs_last_not_ws _ pen revInit hrev
        -- the result is `stripwsDefault (revInit.reverse ++ [pen', last])`; look at its whitespace pattern
        have key : ∀ (pen' last : FNode), pen'.isWhitespace = false →
            ∃ init y z, stripwsDefault (revInit.reverse ++ [pen', last]) = init ++ [y, z] ∧ y.isWhitespace = false := by
          intro pen' last hp'
          have hm := map_ws_stripwsDefaultGo (revInit.reverse ++ [pen', last]) false true
          have hlen : (stripwsDefault (revInit.reverse ++ [pen', last])).length = revInit.reverse.length + 2 := by
            have := congrArg List.length hm
            simpa [stripwsDefault] using this
          -- split the result at `revInit.length`
          obtain ⟨init, tail2, hsplit, hil⟩ : ∃ init tail2, stripwsDefault (revInit.reverse ++ [pen', last]) = init ++ tail2 ∧ init.length = revInit.reverse.length :=
            ⟨(stripwsDefault (revInit.reverse ++ [pen', last])).take revInit.reverse.length,
             (stripwsDefault (revInit.reverse ++ [pen', last])).drop revInit.reverse.length,
             (List.take_append_drop _ _).symm, by rw [List.length_take]; omega⟩
          have htl : tail2.length = 2 := by
            have := congrArg List.length hsplit
            rw [List.length_append, hlen, hil] at this; omega
          match tail2, htl with
          | [y, z], _ =>
            refine ⟨init, y, z, hsplit, ?_⟩
            unfold stripwsDefault at hsplit
            rw [hsplit] at hm
            simp only [List.map_append, List.map_cons, List.map_nil] at hm
            have := List.append_inj hm (by simp [hil])
            have h2 := this.2
            simp only [List.cons.injEq] at h2
            rw [h2.1, hp']
        cases pen with
        | tok tt v =>
          simp only [Except.ok.injEq] at h
          rw [← h]
          exact key _ _ hpen
        | grp c cv gks =>
          simp only at h
          cases hg : dropTrailingWs gks with
          | nil => rw [hg] at h; simp at h
          | cons g0 grest =>
            rw [hg] at h
            simp only [Except.ok.injEq] at h
            rw [← h]
            exact key _ _ rfl


theorem dropTrailingWs_keeps (a b : FNode) (m : List FNode) (hb : b.isWhitespace = false) :
    ∃ m', dropTrailingWs (a :: b :: m) = a :: b :: m' := by
  obtain ⟨y, hy, hws⟩ := dropTrailingWs_rest_ws (a :: b :: m)
  generalize dropTrailingWs (a :: b :: m) = D at hy
  match D, hy with
  | [], hy =>
    simp only [List.nil_append] at hy
    have : b ∈ y := by rw [← hy]; simp
    rw [hws b this] at hb; cases hb
  | [d0], hy =>
    simp only [List.cons_append, List.nil_append, List.cons.injEq] at hy
    have : b ∈ y := by rw [← hy.2]; simp
    rw [hws b this] at hb; cases hb
  | d0 :: d1 :: D', hy =>
    simp only [List.cons_append, List.cons.injEq] at hy
    exact ⟨D', by rw [← hy.1, ← hy.2.1]⟩

/-- what `_stripws_parenthesis` returns: the second child is not whitespace (`tokens[1]`) -/
theorem stripwsParenthesis_after_open (ks ks' : List FNode) (h : stripwsParenthesis ks = .ok ks') :
    ∃ a b rest, ks' = a :: b :: rest ∧ b.isWhitespace = false := by
  unfold stripwsParenthesis at h
  cases ks with
  | nil => simp at h
  | cons first tl =>
    simp only at h
    cases hdw : tl.dropWhile FNode.isWhitespace with
    | nil => rw [hdw] at h; simp at h
    | cons t1 tl1 =>
      rw [hdw] at h
      simp only at h
      have ht1 : t1.isWhitespace = false :=
        dropWhile_head_not FNode.isWhitespace tl t1 (by rw [hdw]; rfl)
      -- the argument of `stripwsDefault`, up to the last two elements' identity
      have key : ∀ (L : List FNode), (∃ a b r, L = a :: b :: r ∧ b.isWhitespace = false) →
          ∃ a b rest, stripwsDefault L = a :: b :: rest ∧ b.isWhitespace = false := by
        rintro L ⟨a, b, r, rfl, hb⟩
        have hm := map_ws_stripwsDefaultGo (a :: b :: r) false true
        match hs : stripwsDefaultGo false true (a :: b :: r), hm with
        | [], hm => simp at hm
        | [x], hm => simp at hm
        | x :: y :: r', hm =>
          simp only [List.map_cons, List.cons.injEq] at hm
          exact ⟨x, y, r', hs, by rw [hm.2.1, hb]⟩
      cases hrev : (dropTrailingWs (first :: t1 :: tl1).dropLast).reverse with
      | nil => rw [hrev] at h; simp at h
      | cons pen revInit =>
        rw [hrev] at h
        simp only at h
        have hpen := dropTrailingWs_last_not_ws _ pen revInit hrev
        have hdt : dropTrailingWs (first :: t1 :: tl1).dropLast = revInit.reverse ++ [pen] := by
          have := congrArg List.reverse hrev
          simpa using this
        -- shape of `revInit.reverse ++ [pen', last]` for any non-whitespace `pen'`
        have hlastv : tl1 = [] → (t1 :: tl1).getLast?.getD t1 = t1 := by intro h0; rw [h0]; rfl
        generalize (t1 :: tl1).getLast?.getD t1 = lastv at h hlastv
        have shape : ∀ (pen' : FNode), pen'.isWhitespace = false →
            ∃ a b r, revInit.reverse ++ [pen', lastv] = a :: b :: r ∧ b.isWhitespace = false := by
          intro pen' hp'
          cases tl1 with
          | nil =>
            -- `( x )`-like: init = [first]
            have hd1 : (first :: [t1]).dropLast = [first] := rfl
            rw [hd1] at hdt
            obtain ⟨y, hy, _⟩ := dropTrailingWs_rest_ws [first]
            rw [hdt] at hy
            have hlen := congrArg List.length hy
            simp at hlen
            have : revInit.reverse = [] := by
              have : revInit.length = 0 := by omega
              simp [List.length_eq_zero_iff.mp this]
            rw [this]
            exact ⟨pen', lastv, [], by simp, by rw [hlastv rfl]; exact ht1⟩
          | cons x tl1' =>
            have hd1 : (first :: t1 :: x :: tl1').dropLast = first :: t1 :: (x :: tl1').dropLast := by
              simp [List.dropLast]
            rw [hd1] at hdt
            obtain ⟨m', hm'⟩ := dropTrailingWs_keeps first t1 (x :: tl1').dropLast ht1
            rw [hm'] at hdt
            cases hr : revInit.reverse with
            | nil => rw [hr] at hdt; simp at hdt
            | cons r0 rr =>
              rw [hr] at hdt
              cases rr with
              | nil =>
                exact ⟨r0, pen', [lastv], by simp, hp'⟩
              | cons r1 rr' =>
                simp only [List.cons_append, List.cons.injEq] at hdt
                exact ⟨r0, r1, rr' ++ [pen', lastv], by simp, by rw [← hdt.2.1]; exact ht1⟩
        cases pen with
        | tok tt v =>
          simp only [Except.ok.injEq] at h
          rw [← h]
          exact key _ (shape _ hpen)
        | grp c cv gks =>
          simp only at h
          cases hg : dropTrailingWs gks with
          | nil => rw [hg] at h; simp at h
          | cons g0 grest =>
            rw [hg] at h
            simp only [Except.ok.injEq] at h
            rw [← h]
            exact key _ (shape _ rfl)


end Sql
