import SqlProofs.SpacesSpec
/-!
# SqlProofs.StripwsSpec — the normal form `StripWhitespaceFilter` establishes (C10, tree level)

What is true of **every** child list of the result (`stripws_nf`): it is a fixed point of `_stripws_default`, i.e. every
whitespace-typed leaf has the value `''` if it is the first child or follows a whitespace-typed sibling, and `' '` otherwise.
Consequences: no list starts with a non-empty whitespace leaf, and no non-empty whitespace leaf follows a whitespace leaf
(in particular no two adjacent non-empty ones).  Whitespace tokens are not deleted, only emptied.
What is *not* true in general:
* at depth 0 only **one** trailing whitespace token is popped, so `'select 1  '` still ends in a `' '` leaf (followed by
  nothing; the serializer's `rstrip` hides it);
* in an `IdentifierList` only the whitespace token *directly* before a comma is removed, so `foo  ,` keeps one blank
  (`foo ,`); a second pass removes it;
* the parenthesis rule (`tokens[1]` and `tokens[-2]` are not whitespace) holds for the list `_stripws_parenthesis` returns
  whenever that list has at least three children (`stripwsParenthesis_after_open`, `stripwsParenthesis_before_close`; the loops
  are guarded by `len(tokens) > 2` since repo commit 4e9e704, so `( )` keeps its blank), but an enclosing parenthesis may
  afterwards trim that list's trailing whitespace, and the rule speaks about children, not leaves (KF-C10-5).
-/
namespace Sql
open FNode (leaves leavesL)

/-- fixed point of `_stripws_default`, spelled out -/
def wsNFGo : Bool → Bool → List FNode → Bool
  | _, _, [] => true
  | lastWasWs, isFirst, k :: rest =>
    (match k with
     | .tok tt v => !tt.isIn T.Whitespace || v == (if lastWasWs || isFirst then [] else [32])
     | .grp .. => true) && wsNFGo k.isWhitespace false rest

/-- the normal form of one child list -/
def wsNF (ks : List FNode) : Bool := wsNFGo false true ks

theorem wsNFGo_stripwsDefaultGo : ∀ (ks : List FNode) (a b : Bool), wsNFGo a b (stripwsDefaultGo a b ks) = true
  | [], a, b => rfl
  | k :: rest, a, b => by
    unfold stripwsDefaultGo
    cases k with
    | tok tt v =>
      by_cases h : tt.isIn T.Whitespace = true
      · simp only [h, if_true, wsNFGo, FNode.isWhitespace, Bool.not_true, Bool.false_or, beq_self_eq_true, Bool.true_and]
        exact wsNFGo_stripwsDefaultGo rest _ _
      · simp only [h, Bool.false_eq_true, if_false, wsNFGo, FNode.isWhitespace, Bool.not_false, Bool.true_or, Bool.true_and]
        have := wsNFGo_stripwsDefaultGo rest false false
        simpa [FNode.isWhitespace, h] using this
    | grp c cv gks =>
      simp only [wsNFGo, FNode.isWhitespace, Bool.true_and]
      exact wsNFGo_stripwsDefaultGo rest _ _

theorem wsNFGo_prefix : ∀ (x y : List FNode) (a b : Bool), wsNFGo a b (x ++ y) = true → wsNFGo a b x = true
  | [], y, a, b, _ => rfl
  | k :: x, y, a, b, h => by
    simp only [List.cons_append, wsNFGo, Bool.and_eq_true] at h ⊢
    exact ⟨h.1, wsNFGo_prefix x y _ _ h.2⟩

theorem dropTrailingWs_prefix (l : List FNode) : ∃ y, l = dropTrailingWs l ++ y := by
  unfold dropTrailingWs
  have h := List.takeWhile_append_dropWhile (p := FNode.isWhitespace) (l := l.reverse)
  refine ⟨(l.reverse.takeWhile FNode.isWhitespace).reverse, ?_⟩
  have := congrArg List.reverse h
  simp only [List.reverse_append, List.reverse_reverse] at this
  exact this.symm

theorem wsNFGo_dropTrailingWs (l : List FNode) (a b : Bool) (h : wsNFGo a b l = true) : wsNFGo a b (dropTrailingWs l) = true := by
  obtain ⟨y, hy⟩ := dropTrailingWs_prefix l
  rw [hy] at h
  exact wsNFGo_prefix _ y a b h

theorem popTrailingWs_prefix (l : List FNode) : ∃ y, l = popTrailingWs l ++ y := by
  unfold popTrailingWs
  cases hl : l.getLast? with
  | none => exact ⟨[], by simp⟩
  | some x =>
    simp only
    split
    · obtain ⟨ys, hys⟩ := List.getLast?_eq_some_iff.mp hl
      refine ⟨[x], ?_⟩
      rw [hys]; simp
    · exact ⟨[], by simp⟩

/-! `A l`: every group below `l` has normal-form child lists -/

theorem allListsL_append (P : List FNode → Bool) : ∀ (a b : List FNode),
    FNode.allListsL P (a ++ b) = (FNode.allListsL P a && FNode.allListsL P b)
  | [], b => by simp [FNode.allListsL]
  | k :: a, b => by simp [FNode.allListsL, allListsL_append P a b, Bool.and_assoc]

theorem allListsL_prefix (P : List FNode → Bool) (x y : List FNode) (h : FNode.allListsL P (x ++ y) = true) :
    FNode.allListsL P x = true := by
  rw [allListsL_append, Bool.and_eq_true] at h; exact h.1

theorem allListsL_suffix (P : List FNode → Bool) (x y : List FNode) (h : FNode.allListsL P (x ++ y) = true) :
    FNode.allListsL P y = true := by
  rw [allListsL_append, Bool.and_eq_true] at h; exact h.2

theorem allListsL_stripwsDefaultGo (P : List FNode → Bool) : ∀ (ks : List FNode) (a b : Bool),
    FNode.allListsL P (stripwsDefaultGo a b ks) = FNode.allListsL P ks
  | [], a, b => rfl
  | k :: rest, a, b => by
    unfold stripwsDefaultGo
    cases k with
    | tok tt v =>
      simp only [FNode.allListsL, allListsL_stripwsDefaultGo P rest]
      congr 1
      split <;> rfl
    | grp c cv gks => simp only [FNode.allListsL, allListsL_stripwsDefaultGo P rest]

theorem allListsL_dropWsBeforeComma (P : List FNode → Bool) : ∀ (ks : List FNode), FNode.allListsL P ks = true →
    FNode.allListsL P (dropWsBeforeComma ks) = true
  | [], _ => rfl
  | a :: rest, h => by
    simp only [FNode.allListsL, Bool.and_eq_true] at h
    unfold dropWsBeforeComma
    have key : ∀ (c : Bool), FNode.allListsL P (if c = true then dropWsBeforeComma rest else a :: dropWsBeforeComma rest) = true := by
      intro c
      cases c with
      | true => simp only [if_true]; exact allListsL_dropWsBeforeComma P rest h.2
      | false =>
        simp only [Bool.false_eq_true, if_false, FNode.allListsL, Bool.and_eq_true]
        exact ⟨h.1, allListsL_dropWsBeforeComma P rest h.2⟩
    exact key _

theorem allListsL_dropWhile (P : List FNode → Bool) (p : FNode → Bool) : ∀ (l : List FNode), FNode.allListsL P l = true →
    FNode.allListsL P (l.dropWhile p) = true
  | [], _ => rfl
  | k :: l, h => by
    by_cases hk : p k = true
    · rw [List.dropWhile_cons_of_pos hk]
      simp only [FNode.allListsL, Bool.and_eq_true] at h
      exact allListsL_dropWhile P p l h.2
    · rw [List.dropWhile_cons_of_neg hk]; exact h


theorem allListsL_cons (P : List FNode → Bool) (k : FNode) (l : List FNode) :
    FNode.allListsL P (k :: l) = (k.allLists P && FNode.allListsL P l) := rfl

theorem allListsL_dropTrailingWs (P : List FNode → Bool) (l : List FNode) (h : FNode.allListsL P l = true) :
    FNode.allListsL P (dropTrailingWs l) = true := by
  obtain ⟨y, hy⟩ := dropTrailingWs_prefix l
  rw [hy] at h
  exact allListsL_prefix P _ y h

theorem wsNF_stripwsDefault (ks : List FNode) : wsNF (stripwsDefault ks) = true := wsNFGo_stripwsDefaultGo ks false true

theorem allLists_of_mem (P : List FNode → Bool) : ∀ (l : List FNode), FNode.allListsL P l = true → ∀ x ∈ l, x.allLists P = true
  | [], _, x, hx => by simp at hx
  | k :: l, h, x, hx => by
    rw [allListsL_cons, Bool.and_eq_true] at h
    rcases List.mem_cons.mp hx with rfl | h2
    · exact h.1
    · exact allLists_of_mem P l h.2 x h2

theorem nf_stripwsParenthesis (ks ks' : List FNode) (hA : FNode.allListsL wsNF ks = true)
    (h : stripwsParenthesis ks = .ok ks') : wsNF ks' = true ∧ FNode.allListsL wsNF ks' = true := by
  unfold stripwsParenthesis at h
  split at h
  · cases h
  · rename_i l3 hl3
    simp only [Except.ok.injEq] at h
    rw [← h]
    refine ⟨wsNF_stripwsDefault _, ?_⟩
    unfold stripwsDefault
    rw [allListsL_stripwsDefaultGo]
    have hmem := allLists_of_mem wsNF ks hA
    have hl2 : ∀ x ∈ trimInsideBy FNode.isWhitespace ks, x.allLists wsNF = true :=
      fun x hx => hmem x ((trimInsideBy_del FNode.isWhitespace ks).mem x hx)
    rcases trimPenGroup_ok _ l3 hl3 with rfl | ⟨revInit, last, c, cv, gks, g0, grest, hl, hg, hl3'⟩
    · exact allListsL_of_mem _ _ hl2
    · rw [hl3']
      apply allListsL_of_mem
      intro x hx
      rw [hl] at hl2
      rcases List.mem_append.mp hx with h1 | h1
      · exact hl2 x (List.mem_append_left _ h1)
      · simp only [List.mem_cons, List.mem_nil_iff, or_false] at h1
        rcases h1 with rfl | rfl
        · have hpen := hl2 (.grp c cv gks) (by simp)
          unfold FNode.allLists at hpen ⊢
          rw [Bool.and_eq_true] at hpen ⊢
          rw [← hg]
          exact ⟨wsNFGo_dropTrailingWs _ _ _ hpen.1, allListsL_dropTrailingWs _ _ hpen.2⟩
        · exact hl2 x (by simp)

theorem nf_stripwsLevel (d : Nat) (c : Cls) (ks ks' : List FNode) (hA : FNode.allListsL wsNF ks = true)
    (h : stripwsLevel d c ks = .ok ks') : wsNF ks' = true ∧ FNode.allListsL wsNF ks' = true := by
  unfold stripwsLevel at h
  cases hd : stripwsDispatch c ks with
  | error e => rw [hd] at h; cases h
  | ok ks1 =>
    rw [hd] at h
    simp only [Except.ok.injEq] at h
    have h1 : wsNF ks1 = true ∧ FNode.allListsL wsNF ks1 = true := by
      unfold stripwsDispatch at hd
      split at hd
      · simp only [Except.ok.injEq] at hd
        rw [← hd]
        refine ⟨wsNF_stripwsDefault _, ?_⟩
        unfold stripwsIdentifierList stripwsDefault
        rw [allListsL_stripwsDefaultGo]
        exact allListsL_dropWsBeforeComma _ _ hA
      · exact nf_stripwsParenthesis ks ks1 hA hd
      · simp only [Except.ok.injEq] at hd
        rw [← hd]
        refine ⟨wsNF_stripwsDefault _, ?_⟩
        unfold stripwsDefault
        rw [allListsL_stripwsDefaultGo]; exact hA
    rw [← h]
    split
    · obtain ⟨y, hy⟩ := popTrailingWs_prefix ks1
      rw [hy] at h1
      exact ⟨wsNFGo_prefix _ y _ _ h1.1, allListsL_prefix _ _ y h1.2⟩
    · exact h1

mutual
theorem stripws_nf_node : ∀ (n : FNode) (fuel d : Nat) (n' : FNode), bottomUp stripwsLevel fuel d n = .ok n' →
    n'.allLists wsNF = true
  | .tok tt v, fuel, d, n', h => by
    unfold bottomUp at h
    simp only [Except.ok.injEq] at h
    rw [← h]; rfl
  | .grp c cv ks, fuel, d, n', h => by
    unfold bottomUp at h
    cases fuel with
    | zero => simp at h
    | succ fuel' =>
      simp only at h
      cases hk : bottomUpL stripwsLevel fuel' (d + 1) ks with
      | error e => rw [hk] at h; cases h
      | ok ks' =>
        rw [hk] at h
        simp only at h
        cases hl : stripwsLevel d c ks' with
        | error e => rw [hl] at h; cases h
        | ok ks'' =>
          rw [hl] at h
          simp only [Except.ok.injEq] at h
          rw [← h]
          have hA := stripws_nf_list ks fuel' (d + 1) ks' hk
          obtain ⟨a, b⟩ := nf_stripwsLevel d c ks' ks'' hA hl
          unfold FNode.allLists
          rw [a, b]; rfl
theorem stripws_nf_list : ∀ (ns : List FNode) (fuel d : Nat) (ns' : List FNode), bottomUpL stripwsLevel fuel d ns = .ok ns' →
    FNode.allListsL wsNF ns' = true
  | [], fuel, d, ns', h => by
    unfold bottomUpL at h
    simp only [Except.ok.injEq] at h
    rw [← h]; rfl
  | k :: rest, fuel, d, ns', h => by
    unfold bottomUpL at h
    cases hk : bottomUp stripwsLevel fuel d k with
    | error e => rw [hk] at h; cases h
    | ok k' =>
      rw [hk] at h
      simp only at h
      cases hr : bottomUpL stripwsLevel fuel d rest with
      | error e => rw [hr] at h; cases h
      | ok rest' =>
        rw [hr] at h
        simp only [Except.ok.injEq] at h
        rw [← h, allListsL_cons, stripws_nf_node k fuel d k' hk, stripws_nf_list rest fuel d rest' hr]
        rfl
end

/-- C10, `strip_whitespace`: every child list of the result is a fixed point of `_stripws_default` — a whitespace leaf is
`''` when it is first in its list or follows a whitespace sibling, and `' '` otherwise -/
theorem stripws_nf (fuel : Nat) (n n' : FNode) (h : stripWhitespace fuel n = .ok n') : n'.allLists wsNF = true :=
  stripws_nf_node n fuel 0 n' h

/-! ## consequences of the normal form, and the parenthesis rule -/

/-- a list in normal form does not start with a non-empty whitespace leaf -/
theorem wsNF_head (tt : TType) (v : Text) (rest : List FNode) (h : wsNF (FNode.tok tt v :: rest) = true)
    (hw : tt.isIn T.Whitespace = true) : v = [] := by
  simp only [wsNF, wsNFGo, hw, Bool.not_true, Bool.false_or, Bool.and_eq_true] at h
  simpa using h.1

/-- in a list in normal form a whitespace leaf that follows a whitespace sibling is empty (so no two adjacent whitespace
leaves are both non-empty), and one that follows a non-whitespace sibling is exactly `' '` -/
theorem wsNFGo_adjacent : ∀ (pre : List FNode) (a : FNode) (tt : TType) (v : Text) (post : List FNode) (x y : Bool),
    wsNFGo x y (pre ++ a :: FNode.tok tt v :: post) = true → tt.isIn T.Whitespace = true →
    v = if a.isWhitespace then [] else [32]
  | [], a, tt, v, post, x, y, h, hw => by
    simp only [List.nil_append, wsNFGo, hw, Bool.not_true, Bool.false_or, Bool.and_eq_true, Bool.or_false] at h
    have := h.2.1
    simpa using this
  | p :: pre, a, tt, v, post, x, y, h, hw => by
    simp only [List.cons_append, wsNFGo, Bool.and_eq_true] at h
    exact wsNFGo_adjacent pre a tt v post _ _ h.2 hw

theorem map_ws_stripwsDefaultGo : ∀ (ks : List FNode) (a b : Bool),
    (stripwsDefaultGo a b ks).map FNode.isWhitespace = ks.map FNode.isWhitespace
  | [], a, b => rfl
  | k :: rest, a, b => by
    unfold stripwsDefaultGo
    simp only [List.map_cons, map_ws_stripwsDefaultGo rest]
    congr 1
    cases k with
    | tok tt v => by_cases h : tt.isIn T.Whitespace = true <;> simp [h, FNode.isWhitespace]
    | grp c cv gks => rfl

theorem dropTrailingWs_rest_ws (l : List FNode) : ∃ y, l = dropTrailingWs l ++ y ∧ ∀ k ∈ y, k.isWhitespace = true := by
  unfold dropTrailingWs
  have h := List.takeWhile_append_dropWhile (p := FNode.isWhitespace) (l := l.reverse)
  refine ⟨(l.reverse.takeWhile FNode.isWhitespace).reverse, ?_, ?_⟩
  · have := congrArg List.reverse h
    simp only [List.reverse_append, List.reverse_reverse] at this
    exact this.symm
  · intro k hk
    exact mem_takeWhile_sat FNode.isWhitespace _ k (List.mem_reverse.mp hk)

theorem dropTrailingWs_last_not_ws (l : List FNode) (pen : FNode) (rev : List FNode)
    (h : (dropTrailingWs l).reverse = pen :: rev) : pen.isWhitespace = false := by
  unfold dropTrailingWs at h
  rw [List.reverse_reverse] at h
  exact dropWhile_head_not FNode.isWhitespace l.reverse pen (by rw [h]; rfl)

/-! ### the parenthesis rule after repo commit 4e9e704 -/

theorem popLeadBy_cons2 {α : Type} (p : α → Bool) (b c : α) (r : List α) :
    popLeadBy p (b :: c :: r) = if p b = true then popLeadBy p (c :: r) else b :: c :: r := by
  conv => lhs; unfold popLeadBy

theorem popLeadBy_single {α : Type} (p : α → Bool) (b : α) : popLeadBy p [b] = [b] := by
  unfold popLeadBy; rfl

theorem popLeadBy_suffix {α : Type} (p : α → Bool) : ∀ (l : List α), ∃ pre, l = pre ++ popLeadBy p l
  | [] => ⟨[], rfl⟩
  | [b] => ⟨[], by simp [popLeadBy_single]⟩
  | b :: c :: r => by
    rw [popLeadBy_cons2]
    split
    · obtain ⟨pre, hpre⟩ := popLeadBy_suffix p (c :: r)
      exact ⟨b :: pre, by rw [List.cons_append, ← hpre]⟩
    · exact ⟨[], rfl⟩

theorem popLeadBy_head {α : Type} (p : α → Bool) : ∀ (l : List α) (b c : α) (r : List α),
    popLeadBy p l = b :: c :: r → p b = false
  | [], b, c, r, h => by simp [popLeadBy] at h
  | [x], b, c, r, h => by simp [popLeadBy_single] at h
  | x :: y :: t, b, c, r, h => by
    rw [popLeadBy_cons2] at h
    split at h
    · exact popLeadBy_head p (y :: t) b c r h
    · rename_i hx
      simp only [List.cons.injEq] at h
      rw [← h.1]; simpa using hx

theorem popLeadBy_ne_nil {α : Type} (p : α → Bool) : ∀ (l : List α), l ≠ [] → popLeadBy p l ≠ []
  | [], h => absurd rfl h
  | [b], _ => by simp [popLeadBy_single]
  | b :: c :: r, _ => by
    rw [popLeadBy_cons2]
    split
    · exact popLeadBy_ne_nil p (c :: r) (by simp)
    · simp

/-- shape of the result of the two guarded loops: the first and the last element stay, in between a prefix-suffix trimmed
middle; if anything is left in the middle, its first and its last element do not satisfy `p` -/
theorem trimInsideBy_shape {α : Type} (p : α → Bool) (l : List α) :
    trimInsideBy p l = l ∧ l.length ≤ 1 ∨
    ∃ a z mid, trimInsideBy p l = a :: mid ++ [z] ∧
      (∀ b r, mid = b :: r → p b = false) ∧ (∀ i y, mid = i ++ [y] → p y = false) := by
  cases l with
  | nil => left; exact ⟨rfl, by simp⟩
  | cons a tl =>
    cases tl with
    | nil => left; exact ⟨rfl, by simp⟩
    | cons b0 r0 =>
      right
      -- after the first loop: a :: t with t non-empty
      have ht_ne : popLeadBy p (b0 :: r0) ≠ [] := popLeadBy_ne_nil p _ (by simp)
      obtain ⟨t', z, ht⟩ : ∃ t' z, popLeadBy p (b0 :: r0) = t' ++ [z] := by
        refine ⟨(popLeadBy p (b0 :: r0)).dropLast, (popLeadBy p (b0 :: r0)).getLast ht_ne, ?_⟩
        exact (List.dropLast_concat_getLast ht_ne).symm
      have hm : trimAfterFirstBy p (a :: b0 :: r0) = a :: (t' ++ [z]) := by
        simp only [trimAfterFirstBy, ht]
      -- the second loop works on z :: (t'.reverse ++ [a])
      have hrev : (a :: (t' ++ [z])).reverse = z :: (t'.reverse ++ [a]) := by simp
      obtain ⟨pre, hpre⟩ := popLeadBy_suffix p (t'.reverse ++ [a])
      have hs_ne : popLeadBy p (t'.reverse ++ [a]) ≠ [] := popLeadBy_ne_nil p _ (by simp)
      -- the popped list ends in `a`
      obtain ⟨s', hs'⟩ : ∃ s', popLeadBy p (t'.reverse ++ [a]) = s' ++ [a] := by
        refine ⟨(popLeadBy p (t'.reverse ++ [a])).dropLast, ?_⟩
        have hl := (List.dropLast_concat_getLast hs_ne).symm
        have hlast : (popLeadBy p (t'.reverse ++ [a])).getLast hs_ne = a := by
          have h1 : (t'.reverse ++ [a]).getLast (by simp) = a := by simp
          have h2 : (pre ++ popLeadBy p (t'.reverse ++ [a])).getLast (by simp [hs_ne]) = a := by
            have := h1
            simp only [← hpre] at *
            exact this
          rw [List.getLast_append_of_ne_nil _ hs_ne] at h2
          exact h2
        rw [hlast] at hl
        exact hl
      have hres : trimInsideBy p (a :: b0 :: r0) = a :: s'.reverse ++ [z] := by
        unfold trimInsideBy trimBeforeLastBy
        rw [hm, hrev]
        simp only [trimAfterFirstBy, hs']
        simp
      refine ⟨a, z, s'.reverse, hres, ?_, ?_⟩
      · -- first of the middle: it is the first of `t`, and `t` has at least two elements
        intro b r hmid
        have hs'ne : s' ≠ [] := by intro h0; rw [h0] at hmid; simp at hmid
        -- s' is a suffix of t'.reverse, so s'.reverse is a prefix of t'
        have hpre2 : t'.reverse ++ [a] = pre ++ (s' ++ [a]) := by rw [← hs']; exact hpre
        have hpre3 : t'.reverse = pre ++ s' := by
          have := congrArg List.dropLast hpre2
          simpa [← List.append_assoc] using this
        have ht' : t' = s'.reverse ++ pre.reverse := by
          have := congrArg List.reverse hpre3
          simpa using this
        rw [hmid] at ht'
        -- t = b :: r ++ pre.reverse ++ [z] has at least two elements and starts with b
        have : popLeadBy p (b0 :: r0) = b :: (r ++ pre.reverse ++ [z]) := by
          rw [ht, ht']; simp
        cases hrr : r ++ pre.reverse ++ [z] with
        | nil => simp at hrr
        | cons c rr => rw [hrr] at this; exact popLeadBy_head p _ b c rr this
      · intro i y hmid
        have hs'eq : s' = y :: i.reverse := by
          have := congrArg List.reverse hmid
          simpa using this
        rw [hs'eq] at hs'
        exact popLeadBy_head p _ y ((i.reverse ++ [a]).head (by simp)) ((i.reverse ++ [a]).tail) (by
          rw [hs']; simp)


theorem map_ws_trimPenGroup (l l3 : List FNode) (h : trimPenGroup l = .ok l3) :
    l3.map FNode.isWhitespace = l.map FNode.isWhitespace := by
  rcases trimPenGroup_ok l l3 h with rfl | ⟨revInit, last, c, cv, gks, g0, grest, hl, _, hl3⟩
  · rfl
  · rw [hl, hl3]; simp [FNode.isWhitespace]

/-- the whitespace pattern of what `_stripws_parenthesis` returns is that of the list after the two guarded loops -/
theorem stripwsParenthesis_pattern (ks out : List FNode) (h : stripwsParenthesis ks = .ok out) :
    out.map FNode.isWhitespace = (trimInsideBy FNode.isWhitespace ks).map FNode.isWhitespace := by
  unfold stripwsParenthesis at h
  split at h
  · cases h
  · rename_i l3 hl3
    simp only [Except.ok.injEq] at h
    rw [← h]
    unfold stripwsDefault
    rw [map_ws_stripwsDefaultGo, map_ws_trimPenGroup _ _ hl3]

/-- what `_stripws_parenthesis` returns: if it has at least three children, the second one is not whitespace (`tokens[1]`).
The guard `len(tokens) > 2` makes the hypothesis necessary: `( )` keeps its blank, `'( \n)'` → `'( )'`. -/
theorem stripwsParenthesis_after_open (ks : List FNode) (a b c : FNode) (rest : List FNode)
    (h : stripwsParenthesis ks = .ok (a :: b :: c :: rest)) : b.isWhitespace = false := by
  have hmap := stripwsParenthesis_pattern ks _ h
  rcases trimInsideBy_shape FNode.isWhitespace ks with ⟨he, hlen⟩ | ⟨a', z', mid, hs, hfirst, _⟩
  · have := congrArg List.length hmap
    rw [he] at this
    simp at this
    omega
  · rw [hs] at hmap
    cases mid with
    | nil => simp at hmap
    | cons b' r' =>
      simp only [List.cons_append, List.map_cons, List.cons.injEq] at hmap
      rw [hmap.2.1]
      exact hfirst b' r' rfl

/-- … and the last but one is not whitespace (`tokens[-2]`), again for at least three children -/
theorem stripwsParenthesis_before_close (ks i : List FNode) (x y z : FNode)
    (h : stripwsParenthesis ks = .ok (i ++ [x, y, z])) : y.isWhitespace = false := by
  have hmap := stripwsParenthesis_pattern ks _ h
  rcases trimInsideBy_shape FNode.isWhitespace ks with ⟨he, hlen⟩ | ⟨a', z', mid, hs, _, hlast⟩
  · have := congrArg List.length hmap
    rw [he] at this
    simp at this
    omega
  · rw [hs] at hmap
    cases hm : mid.reverse with
    | nil =>
      have : mid = [] := by simpa using hm
      subst this
      have := congrArg List.length hmap
      simp at this
    | cons y' ri =>
      have hmid : mid = ri.reverse ++ [y'] := by
        have := congrArg List.reverse hm
        simpa using this
      have hy' := hlast ri.reverse y' hmid
      rw [hmid] at hmap
      have e1 : (i ++ [x, y, z]).map FNode.isWhitespace = (i ++ [x]).map FNode.isWhitespace ++ [y.isWhitespace, z.isWhitespace] := by simp
      have e2 : (a' :: (ri.reverse ++ [y']) ++ [z']).map FNode.isWhitespace
          = (a' :: ri.reverse).map FNode.isWhitespace ++ [y'.isWhitespace, z'.isWhitespace] := by simp
      rw [e1, e2] at hmap
      have := List.append_inj_right' hmap (by simp)
      simp only [List.cons.injEq] at this
      rw [this.1]; exact hy'

end Sql
