import SqlModel.Accessors
/-!
# SqlProofs.AccessorSpec — specification theorems for the accessor model (`SqlModel/Accessors.lean`)

a. `getTokenAtOffset_spec`   the unique leaf whose half-open span contains the offset; `none` beyond the end
b. `tokenNext_spec`, `tokenPrev_spec`, `tokenFirst_spec`  least / greatest non-skipped index
c. `getIdentifiers_spec`     exactly the children that are neither whitespace nor a `,`, in order
d. `getCases_spec`           canonical `CASE (WHEN c THEN v)* (ELSE v)? END`
e. totality facts and raising witnesses
f. `removeQuotes` lemmas and the name accessors on canonical identifiers
g. `get_type`: DML/DDL head, empty statement, fuel of the CTE walk

`upper` (Python `str.upper`) is an arbitrary function throughout, unless a statement says otherwise.
-/
namespace Sql
namespace Acc

/-! ## a. `get_token_at_offset` -/

/-- start offset of the `i`-th leaf in the flattened text -/
def startOf (ls : List Tok) (i : Nat) : Nat := ((ls.take i).map (·.val.length)).sum

/-- total length of the flattened text -/
def totalLen (ls : List Tok) : Nat := (ls.map (·.val.length)).sum

/-- the offset lies in the half-open span of the `i`-th leaf, which is `t` -/
def InSpan (ls : List Tok) (off i : Nat) (t : Tok) : Prop :=
  ls[i]? = some t ∧ startOf ls i ≤ off ∧ off < startOf ls i + t.val.length

theorem startOf_zero (ls : List Tok) : startOf ls 0 = 0 := by simp [startOf]

theorem startOf_cons_succ (t : Tok) (ls : List Tok) (i : Nat) :
    startOf (t :: ls) (i + 1) = t.val.length + startOf ls i := by simp [startOf]

theorem totalLen_cons (t : Tok) (ls : List Tok) : totalLen (t :: ls) = t.val.length + totalLen ls := by
  simp [totalLen]

theorem inSpan_cons_zero (t t' : Tok) (ls : List Tok) (off : Nat) :
    InSpan (t :: ls) off 0 t' ↔ t' = t ∧ off < t.val.length := by
  simp only [InSpan, List.getElem?_cons_zero, Option.some.injEq, startOf_zero, Nat.zero_le, true_and, Nat.zero_add]
  constructor
  · rintro ⟨rfl, h⟩; exact ⟨rfl, h⟩
  · rintro ⟨rfl, h⟩; exact ⟨rfl, h⟩

theorem inSpan_cons_succ (t t' : Tok) (ls : List Tok) (off i : Nat) :
    InSpan (t :: ls) off (i + 1) t' ↔ t.val.length ≤ off ∧ InSpan ls (off - t.val.length) i t' := by
  simp only [InSpan, List.getElem?_cons_succ, startOf_cons_succ]
  constructor
  · rintro ⟨h1, h2, h3⟩; exact ⟨by omega, h1, by omega, by omega⟩
  · rintro ⟨h0, h1, h2, h3⟩; exact ⟨h1, by omega, by omega⟩

/-- a span that contains the offset ends within the text -/
theorem inSpan_lt_total {ls : List Tok} {off i : Nat} {t : Tok} (h : InSpan ls off i t) : off < totalLen ls := by
  induction ls generalizing off i with
  | nil => simp [InSpan] at h
  | cons a ls ih =>
    cases i with
    | zero => rw [inSpan_cons_zero] at h; rw [totalLen_cons]; omega
    | succ i =>
      rw [inSpan_cons_succ] at h
      have := ih h.2
      rw [totalLen_cons]; omega

/-- spans are pairwise disjoint: at most one leaf contains a given offset (an empty-valued leaf contains none) -/
theorem inSpan_unique {ls : List Tok} {off i j : Nat} {t t' : Tok}
    (h : InSpan ls off i t) (h' : InSpan ls off j t') : i = j ∧ t = t' := by
  induction ls generalizing off i j with
  | nil => simp [InSpan] at h
  | cons a ls ih =>
    cases i with
    | zero =>
      cases j with
      | zero =>
        rw [inSpan_cons_zero] at h h'
        exact ⟨rfl, h.1.trans h'.1.symm⟩
      | succ j =>
        rw [inSpan_cons_zero] at h; rw [inSpan_cons_succ] at h'
        omega
    | succ i =>
      cases j with
      | zero =>
        rw [inSpan_cons_zero] at h'; rw [inSpan_cons_succ] at h
        omega
      | succ j =>
        rw [inSpan_cons_succ] at h h'
        have := ih h.2 h'.2
        exact ⟨by omega, this.2⟩

/-- the loop, started at running offset `idx ≤ off` after `n` leaves, behaves like a fresh search for `off - idx` -/
theorem leafAtGo_shift (off : Nat) (ls : List Tok) (idx n : Nat) (h : idx ≤ off) :
    leafAtGo off ls idx n = (leafAtGo (off - idx) ls 0 0).map (fun r => (r.1 + n, r.2)) := by
  induction ls generalizing off idx n with
  | nil => simp [leafAtGo]
  | cons t ts ih =>
    simp only [leafAtGo, Nat.zero_le, true_and, Nat.zero_add, h]
    by_cases hlt : off < idx + t.val.length
    · have : off - idx < t.val.length := by omega
      simp [hlt, this]
    · have h1 : ¬ (off - idx < t.val.length) := by omega
      simp only [hlt, h1, if_false]
      rw [ih off (idx + t.val.length) (n + 1) (by omega), ih (off - idx) t.val.length 1 (by omega)]
      have : off - (idx + t.val.length) = off - idx - t.val.length := by omega
      rw [this]
      cases leafAtGo (off - idx - t.val.length) ts 0 0 with
      | none => rfl
      | some r => simp; omega

theorem leafAt_cons (t : Tok) (ts : List Tok) (off : Nat) :
    leafAt (t :: ts) off =
      if off < t.val.length then some (0, t)
      else (leafAt ts (off - t.val.length)).map (fun r => (r.1 + 1, r.2)) := by
  unfold leafAt
  simp only [leafAtGo, Nat.zero_le, true_and, Nat.zero_add]
  by_cases h : off < t.val.length
  · simp [h]
  · simp only [h, if_false]
    exact leafAtGo_shift off ts t.val.length 1 (by omega)

/-- what `leafAt` returns contains the offset -/
theorem leafAt_sound {ls : List Tok} {off i : Nat} {t : Tok} (h : leafAt ls off = some (i, t)) :
    InSpan ls off i t := by
  induction ls generalizing off i with
  | nil => simp [leafAt, leafAtGo] at h
  | cons a ls ih =>
    rw [leafAt_cons] at h
    by_cases hlt : off < a.val.length
    · simp only [hlt, if_true, Option.some.injEq, Prod.mk.injEq] at h
      obtain ⟨rfl, rfl⟩ := h
      exact (inSpan_cons_zero _ _ _ _).2 ⟨rfl, hlt⟩
    · simp only [hlt, if_false] at h
      cases hr : leafAt ls (off - a.val.length) with
      | none => simp [hr] at h
      | some r =>
        simp only [hr, Option.map_some, Option.some.injEq, Prod.mk.injEq] at h
        obtain ⟨rfl, rfl⟩ := h
        exact (inSpan_cons_succ _ _ _ _ _).2 ⟨by omega, ih hr⟩

/-- `leafAt` answers `none` exactly beyond the end of the text -/
theorem leafAt_none_iff (ls : List Tok) (off : Nat) : leafAt ls off = none ↔ totalLen ls ≤ off := by
  induction ls generalizing off with
  | nil => simp [leafAt, leafAtGo, totalLen]
  | cons a ls ih =>
    rw [leafAt_cons, totalLen_cons]
    by_cases hlt : off < a.val.length
    · simp [hlt]; omega
    · simp only [hlt, if_false, Option.map_eq_none_iff, ih]
      omega

/-- **`get_token_at_offset`, leaf level.**  `leafAt ls off = some (i, t)` iff `t` is the `i`-th leaf and `off` lies in
its half-open span `[start, start + len)`. -/
theorem leafAt_spec (ls : List Tok) (off i : Nat) (t : Tok) :
    leafAt ls off = some (i, t) ↔ InSpan ls off i t := by
  constructor
  · exact leafAt_sound
  · intro h
    cases hr : leafAt ls off with
    | none =>
      have := (leafAt_none_iff ls off).1 hr
      have := inSpan_lt_total h
      omega
    | some r =>
      obtain ⟨j, t'⟩ := r
      obtain ⟨rfl, rfl⟩ := inSpan_unique (leafAt_sound hr) h
      rfl

mutual
theorem totalLen_leaves (n : Node) : totalLen n.leaves = n.text.length := by
  cases n with
  | tok tt v => simp [Node.leaves, Node.text, totalLen]
  | grp c ks => simp only [Node.leaves, Node.text]; exact totalLen_leavesL ks
theorem totalLen_leavesL (ks : List Node) : totalLen (Node.leavesL ks) = (Node.textL ks).length := by
  cases ks with
  | nil => simp [Node.leavesL, Node.textL, totalLen]
  | cons k ks =>
    simp only [Node.leavesL, Node.textL, List.length_append]
    rw [← totalLen_leaves k, ← totalLen_leavesL ks]
    simp [totalLen]
end

/-- **`get_token_at_offset(offset)` for every tree and every integer offset.**
The result is `some (i, t)` iff `offset ≥ 0`, `t` is the `i`-th leaf of `flatten()` and
`start_i ≤ offset < start_i + len(t.value)`; such a leaf is unique (`inSpan_unique`), and an empty-valued leaf never
qualifies.  The result is `none` iff `offset < 0` or `offset ≥ len(str(self))`. -/
theorem getTokenAtOffset_spec (ks : List Node) (off : Int) :
    (∀ i t, getTokenAtOffset ks off = some (i, t) ↔ 0 ≤ off ∧ InSpan (Node.leavesL ks) off.toNat i t) ∧
    (getTokenAtOffset ks off = none ↔ off < 0 ∨ ((Node.textL ks).length : Int) ≤ off) := by
  unfold getTokenAtOffset
  by_cases hneg : off < 0
  · simp only [hneg, if_true, true_or]
    refine ⟨fun i t => ?_, by simp⟩
    constructor
    · intro h; cases h
    · intro h; omega
  · simp only [hneg, if_false, false_or]
    refine ⟨fun i t => ?_, ?_⟩
    · rw [leafAt_spec]; constructor
      · intro h; exact ⟨by omega, h⟩
      · intro h; exact h.2
    · rw [leafAt_none_iff, totalLen_leavesL]; omega

/-- an empty-valued leaf is never returned -/
theorem getTokenAtOffset_nonempty {ks : List Node} {off : Int} {i : Nat} {t : Tok}
    (h : getTokenAtOffset ks off = some (i, t)) : t.val ≠ [] := by
  have := ((getTokenAtOffset_spec ks off).1 i t).1 h
  obtain ⟨_, _, h2, h3⟩ := this
  intro he
  rw [he] at h3
  simp at h3
  omega

/-! ## b. `token_next`, `token_prev`, `token_first` -/

/-- `(i, k)` is the first hit of `f` in `ks` at or after `start` -/
def FirstFrom (ks : List Node) (f : Node → Bool) (start i : Nat) (k : Node) : Prop :=
  start ≤ i ∧ ks[i]? = some k ∧ f k = true ∧ ∀ j k', start ≤ j → j < i → ks[j]? = some k' → f k' = false

/-- `(i, k)` is the last hit of `f` in `ks` strictly before `stop` -/
def LastBefore (ks : List Node) (f : Node → Bool) (stop i : Nat) (k : Node) : Prop :=
  i < stop ∧ ks[i]? = some k ∧ f k = true ∧ ∀ j k', i < j → j < stop → ks[j]? = some k' → f k' = false

theorem fwdGo_spec (f : Node → Bool) (stop : Nat) (l : List Node) (s : Nat) (hstop : s + l.length ≤ stop) :
    (∀ i k, tokenMatchingFwd.go f stop l s = some (i, k) ↔
      (s ≤ i ∧ l[i - s]? = some k ∧ f k = true ∧ ∀ j k', s ≤ j → j < i → l[j - s]? = some k' → f k' = false)) ∧
    (tokenMatchingFwd.go f stop l s = none ↔ ∀ k ∈ l, f k = false) := by
  induction l generalizing s with
  | nil =>
    simp [tokenMatchingFwd.go]
  | cons a l ih =>
    have hs : ¬ (s ≥ stop) := by simp at hstop; omega
    simp only [tokenMatchingFwd.go, hs, if_false]
    by_cases hf : f a = true
    · simp only [hf, if_true]
      refine ⟨fun i k => ?_, by simp [hf]⟩
      constructor
      · intro h
        simp only [Option.some.injEq, Prod.mk.injEq] at h
        obtain ⟨rfl, rfl⟩ := h
        exact ⟨Nat.le_refl _, by simp, hf, fun j k' h1 h2 => by omega⟩
      · rintro ⟨h1, h2, h3, h4⟩
        by_cases hi : i = s
        · subst hi; simp at h2; subst h2; rfl
        · have := h4 s a (Nat.le_refl _) (by omega) (by simp)
          rw [hf] at this; cases this
    · have hf' : f a = false := by simpa using hf
      simp only [hf', Bool.false_eq_true, if_false]
      have ih' := ih (s + 1) (by simp at hstop ⊢; omega)
      refine ⟨fun i k => ?_, ?_⟩
      · rw [ih'.1]
        constructor
        · rintro ⟨h1, h2, h3, h4⟩
          refine ⟨by omega, ?_, h3, ?_⟩
          · have : i - s = (i - (s + 1)) + 1 := by omega
            rw [this, List.getElem?_cons_succ]; exact h2
          · intro j k' hj1 hj2 hj3
            by_cases hjs : j = s
            · subst hjs; simp at hj3; subst hj3; exact hf'
            · have : j - s = (j - (s + 1)) + 1 := by omega
              rw [this, List.getElem?_cons_succ] at hj3
              exact h4 j k' (by omega) hj2 hj3
        · rintro ⟨h1, h2, h3, h4⟩
          have hne : i ≠ s := by
            intro he; subst he; simp at h2; subst h2; rw [hf'] at h3; cases h3
          refine ⟨by omega, ?_, h3, ?_⟩
          · have : i - s = (i - (s + 1)) + 1 := by omega
            rw [this, List.getElem?_cons_succ] at h2; exact h2
          · intro j k' hj1 hj2 hj3
            apply h4 j k' (by omega) hj2
            have : j - s = (j - (s + 1)) + 1 := by omega
            rw [this, List.getElem?_cons_succ]; exact hj3
      · rw [ih'.2]; simp [hf']

/-- `_token_matching(f, start)` (forward, `end=None`): the first hit at or after `start`, `none` iff there is none -/
theorem tokenMatchingFwd_spec (ks : List Node) (f : Node → Bool) (start : Nat) :
    (∀ i k, tokenMatchingFwd ks f start = some (i, k) ↔ FirstFrom ks f start i k) ∧
    (tokenMatchingFwd ks f start = none ↔ ∀ j k, start ≤ j → ks[j]? = some k → f k = false) := by
  unfold tokenMatchingFwd
  simp only [Option.getD_none]
  by_cases hlen : start ≤ ks.length
  · have hg := fwdGo_spec f ks.length (ks.drop start) start (by simp; omega)
    refine ⟨fun i k => ?_, ?_⟩
    · rw [hg.1]; unfold FirstFrom
      constructor
      · rintro ⟨h1, h2, h3, h4⟩
        refine ⟨h1, ?_, h3, ?_⟩
        · rw [List.getElem?_drop] at h2; rw [← h2]; congr 1; omega
        · intro j k' hj1 hj2 hj3
          apply h4 j k' hj1 hj2
          rw [List.getElem?_drop, ← hj3]; congr 1; omega
      · rintro ⟨h1, h2, h3, h4⟩
        refine ⟨h1, ?_, h3, ?_⟩
        · rw [List.getElem?_drop, ← h2]; congr 1; omega
        · intro j k' hj1 hj2 hj3
          apply h4 j k' hj1 hj2
          rw [List.getElem?_drop] at hj3; rw [← hj3]; congr 1; omega
    · rw [hg.2]
      constructor
      · intro h j k hj hk
        apply h k
        rw [List.mem_iff_getElem?]
        exact ⟨j - start, by rw [List.getElem?_drop, ← hk]; congr 1; omega⟩
      · intro h k hk
        rw [List.mem_iff_getElem?] at hk
        obtain ⟨n, hn⟩ := hk
        rw [List.getElem?_drop] at hn
        exact h (start + n) k (by omega) hn
  · have hd : ks.drop start = [] := by simp; omega
    rw [hd]
    simp only [tokenMatchingFwd.go]
    refine ⟨fun i k => ?_, ?_⟩
    · simp only [FirstFrom]
      constructor
      · intro h; cases h
      · rintro ⟨h1, h2, _⟩
        have := (List.getElem?_eq_some_iff.1 h2).1
        omega
    · simp only [true_iff]
      intro j k hj hk
      have := (List.getElem?_eq_some_iff.1 hk).1
      omega

theorem revGo_spec (ks : List Node) (f : Node → Bool) (n : Nat) :
    (∀ i k, tokenMatchingRev.go ks f n = some (i, k) ↔ LastBefore ks f n i k) ∧
    (tokenMatchingRev.go ks f n = none ↔ ∀ j k, j < n → ks[j]? = some k → f k = false) := by
  induction n with
  | zero =>
    simp only [tokenMatchingRev.go, LastBefore]
    refine ⟨fun i k => ?_, ?_⟩
    · simp
    · simp
  | succ n ih =>
    simp only [tokenMatchingRev.go]
    cases hk : ks[n]? with
    | none =>
      simp only
      refine ⟨fun i k => ?_, ?_⟩
      · rw [ih.1]; unfold LastBefore
        constructor
        · rintro ⟨h1, h2, h3, h4⟩
          refine ⟨by omega, h2, h3, fun j k' hj1 hj2 hj3 => ?_⟩
          by_cases hjn : j = n
          · subst hjn; rw [hk] at hj3; cases hj3
          · exact h4 j k' hj1 (by omega) hj3
        · rintro ⟨h1, h2, h3, h4⟩
          have : i ≠ n := by intro he; subst he; rw [hk] at h2; cases h2
          exact ⟨by omega, h2, h3, fun j k' hj1 hj2 hj3 => h4 j k' hj1 (by omega) hj3⟩
      · rw [ih.2]
        constructor
        · intro h j k hj hjk
          by_cases hjn : j = n
          · subst hjn; rw [hk] at hjk; cases hjk
          · exact h j k (by omega) hjk
        · intro h j k hj hjk; exact h j k (by omega) hjk
    | some a =>
      simp only
      by_cases hf : f a = true
      · simp only [hf, if_true]
        refine ⟨fun i k => ?_, ?_⟩
        · unfold LastBefore
          constructor
          · intro h
            simp only [Option.some.injEq, Prod.mk.injEq] at h
            obtain ⟨rfl, rfl⟩ := h
            exact ⟨by omega, hk, hf, fun j k' h1 h2 => by omega⟩
          · rintro ⟨h1, h2, h3, h4⟩
            by_cases hin : i = n
            · subst hin; rw [hk] at h2; cases h2; rfl
            · have := h4 n a (by omega) (by omega) hk
              rw [hf] at this; cases this
        · simp only [reduceCtorEq, false_iff]
          intro h
          have := h n a (by omega) hk
          rw [hf] at this; cases this
      · have hf' : f a = false := by simpa using hf
        simp only [hf', Bool.false_eq_true, if_false]
        refine ⟨fun i k => ?_, ?_⟩
        · rw [ih.1]; unfold LastBefore
          constructor
          · rintro ⟨h1, h2, h3, h4⟩
            refine ⟨by omega, h2, h3, fun j k' hj1 hj2 hj3 => ?_⟩
            by_cases hjn : j = n
            · subst hjn; rw [hk] at hj3; cases hj3; exact hf'
            · exact h4 j k' hj1 (by omega) hj3
          · rintro ⟨h1, h2, h3, h4⟩
            have : i ≠ n := by
              intro he; subst he; rw [hk] at h2; cases h2; rw [hf'] at h3; cases h3
            exact ⟨by omega, h2, h3, fun j k' hj1 hj2 hj3 => h4 j k' hj1 (by omega) hj3⟩
        · rw [ih.2]
          constructor
          · intro h j k hj hjk
            by_cases hjn : j = n
            · subst hjn; rw [hk] at hjk; cases hjk; exact hf'
            · exact h j k (by omega) hjk
          · intro h j k hj hjk; exact h j k (by omega) hjk

/-- a child is *skipped* by `token_next/prev/first` under the flags: whitespace if `skip_ws`, a comment token or
`Comment` group if `skip_cm` -/
def Skipped (skipWs skipCm : Bool) (k : Node) : Prop := skipMatcher skipWs skipCm k = false

/-- **`token_next(idx, skip_ws, skip_cm)`**: the result is the least index `> idx` whose child is not skipped
(with that child); `none` iff every later child is skipped. -/
theorem tokenNext_spec (ks : List Node) (idx : Nat) (skipWs skipCm : Bool) :
    (∀ i k, tokenNext ks idx skipWs skipCm = some (i, k) ↔
      (idx < i ∧ ks[i]? = some k ∧ ¬ Skipped skipWs skipCm k ∧
        ∀ j k', idx < j → j < i → ks[j]? = some k' → Skipped skipWs skipCm k')) ∧
    (tokenNext ks idx skipWs skipCm = none ↔ ∀ j k, idx < j → ks[j]? = some k → Skipped skipWs skipCm k) := by
  have h := tokenMatchingFwd_spec ks (skipMatcher skipWs skipCm) (idx + 1)
  unfold tokenNext Skipped
  refine ⟨fun i k => ?_, ?_⟩
  · rw [h.1]; unfold FirstFrom
    simp only [Bool.not_eq_false]
    constructor
    · rintro ⟨h1, h2, h3, h4⟩; exact ⟨by omega, h2, h3, fun j k' a b c => h4 j k' (by omega) b c⟩
    · rintro ⟨h1, h2, h3, h4⟩; exact ⟨by omega, h2, h3, fun j k' a b c => h4 j k' (by omega) b c⟩
  · rw [h.2]
    constructor
    · intro h' j k a b; exact h' j k (by omega) b
    · intro h' j k a b; exact h' j k (by omega) b

/-- **`token_prev(idx, skip_ws, skip_cm)`** (for `idx ≤ len`, where the real method does not raise): the greatest
index `< idx` whose child is not skipped; `none` iff every earlier child is skipped. -/
theorem tokenPrev_spec (ks : List Node) (idx : Nat) (skipWs skipCm : Bool) :
    (∀ i k, tokenPrev ks idx skipWs skipCm = some (i, k) ↔
      (i < idx ∧ ks[i]? = some k ∧ ¬ Skipped skipWs skipCm k ∧
        ∀ j k', i < j → j < idx → ks[j]? = some k' → Skipped skipWs skipCm k')) ∧
    (tokenPrev ks idx skipWs skipCm = none ↔ ∀ j k, j < idx → ks[j]? = some k → Skipped skipWs skipCm k) := by
  have h := revGo_spec ks (skipMatcher skipWs skipCm) idx
  unfold tokenPrev tokenMatchingRev Skipped
  simp only [Nat.add_sub_cancel, Bool.not_eq_false]
  exact ⟨fun i k => by rw [h.1]; rfl, h.2⟩

/-- **`token_first(skip_ws, skip_cm)`**: the first child that is not skipped -/
theorem tokenFirst_spec (ks : List Node) (skipWs skipCm : Bool) :
    (∀ i k, tokenFirstIdx ks skipWs skipCm = some (i, k) ↔
      (ks[i]? = some k ∧ ¬ Skipped skipWs skipCm k ∧ ∀ j k', j < i → ks[j]? = some k' → Skipped skipWs skipCm k')) ∧
    (tokenFirstIdx ks skipWs skipCm = none ↔ ∀ k ∈ ks, Skipped skipWs skipCm k) ∧
    tokenFirst ks skipWs skipCm = (tokenFirstIdx ks skipWs skipCm).map (·.2) := by
  have h := tokenMatchingFwd_spec ks (skipMatcher skipWs skipCm) 0
  unfold tokenFirstIdx Skipped
  refine ⟨fun i k => ?_, ?_, rfl⟩
  · rw [h.1]; unfold FirstFrom
    simp only [Bool.not_eq_false, Nat.zero_le, true_and, forall_const]
  · rw [h.2]
    simp only [Nat.zero_le, forall_const]
    constructor
    · intro h' k hk
      obtain ⟨n, hn⟩ := List.mem_iff_getElem?.1 hk
      exact h' n k hn
    · intro h' j k hk; exact h' k (List.mem_of_getElem? hk)

/-- the navigation wrappers of the accessor layer: `None` index, and the only way `token_prev` can raise -/
theorem tokenNextO_none (ks : List Node) (w m : Bool) : tokenNextO ks none w m = none := rfl

theorem tokenPrevO_error_iff (ks : List Node) (idx : Option Nat) (w m : Bool) (e : PyErr) :
    tokenPrevO ks idx w m = .error e ↔ e = .indexError ∧ ∃ i, idx = some i ∧ ks.length < i := by
  cases idx with
  | none => simp [tokenPrevO]
  | some i =>
    simp only [tokenPrevO]
    by_cases h : i > ks.length
    · rw [if_pos h]
      constructor
      · intro h'; cases h'; exact ⟨rfl, i, rfl, h⟩
      · rintro ⟨rfl, _⟩; rfl
    · rw [if_neg h]
      constructor
      · intro h'; cases h'
      · rintro ⟨_, j, hj, hlt⟩; cases hj; exact absurd hlt h

theorem tokenIndex_spec (ks : List Node) (i start : Nat) :
    tokenIndex ks i start = (if start ≤ i ∧ i < ks.length then .ok i else .error .valueError) := rfl

/-! ## c. `IdentifierList.get_identifiers` -/

theorem indexed_map_snd (ks : List Node) (s : Nat) : (indexed ks s).map (·.2) = ks := by
  induction ks generalizing s with
  | nil => rfl
  | cons k ks ih => simp [indexed, ih]

theorem indexed_length (ks : List Node) (s : Nat) : (indexed ks s).length = ks.length := by
  induction ks generalizing s with
  | nil => rfl
  | cons k ks ih => simp [indexed, ih]

theorem indexed_append (a b : List Node) (s : Nat) :
    indexed (a ++ b) s = indexed a s ++ indexed b (s + a.length) := by
  induction a generalizing s with
  | nil => simp [indexed]
  | cons k a ih =>
    simp only [List.cons_append, indexed, ih, List.length_cons, List.cons.injEq, true_and]
    congr 2; omega

/-- the pairs of `indexed ks s` are exactly `(s + j, ks[j])` -/
theorem mem_indexed {ks : List Node} {s i : Nat} {k : Node} :
    (i, k) ∈ indexed ks s ↔ s ≤ i ∧ ks[i - s]? = some k := by
  induction ks generalizing s with
  | nil => simp [indexed]
  | cons a ks ih =>
    simp only [indexed, List.mem_cons, Prod.mk.injEq, ih]
    constructor
    · rintro (⟨rfl, rfl⟩ | ⟨h1, h2⟩)
      · simp
      · refine ⟨by omega, ?_⟩
        have : i - s = (i - (s + 1)) + 1 := by omega
        rw [this, List.getElem?_cons_succ]; exact h2
    · rintro ⟨h1, h2⟩
      by_cases hi : i = s
      · subst hi; simp at h2; exact Or.inl ⟨rfl, h2.symm⟩
      · right
        refine ⟨by omega, ?_⟩
        have : i - s = (i - (s + 1)) + 1 := by omega
        rw [this, List.getElem?_cons_succ] at h2; exact h2

/-- the first components of `indexed ks s` increase strictly -/
theorem indexed_pairwise (ks : List Node) (s : Nat) : (indexed ks s).Pairwise (fun a b => a.1 < b.1) := by
  induction ks generalizing s with
  | nil => simp [indexed]
  | cons k ks ih =>
    simp only [indexed, List.pairwise_cons]
    refine ⟨?_, ih (s + 1)⟩
    rintro ⟨i, k'⟩ h
    have := (mem_indexed.1 h).1
    simp; omega

/-- a `,` punctuation token: the only thing `token.match(T.Punctuation, ',')` accepts -/
def isCommaTok : Node → Bool
  | .tok t v => t == T.Punctuation && v == [44]
  | .grp .. => false

theorem matchP_comma (upper : Text → Text) (k : Node) : k.matchP upper mComma = isCommaTok k := by
  cases k with
  | grp c ks => simp [Node.matchP, Node.match, isCommaTok]
  | tok t v =>
    simp only [Node.matchP, Node.match, mComma, isCommaTok]
    by_cases ht : t = T.Punctuation
    · subst ht
      have : TType.isIn T.Punctuation T.Keyword = false := by decide
      simp [this]
      cases hv : decide (v = [44]) <;> simp_all
    · simp [ht]

theorem isCommaTok_iff (k : Node) : isCommaTok k = true ↔ k = .tok T.Punctuation [44] := by
  cases k with
  | grp c ks => simp [isCommaTok]
  | tok t v => simp [isCommaTok]

/-- **`get_identifiers()`**: exactly the children that are neither whitespace nor a `,` Punctuation, in their
order; every returned pair `(i, n)` is the child `n` at index `i`, and the indexes increase. -/
theorem getIdentifiers_spec (upper : Text → Text) (ks : List Node) :
    (getIdentifiers upper ks).map (·.2) = ks.filter (fun k => !k.isWhitespace && !isCommaTok k) ∧
    (∀ i n, (i, n) ∈ getIdentifiers upper ks ↔
      ks[i]? = some n ∧ n.isWhitespace = false ∧ n ≠ .tok T.Punctuation [44]) ∧
    (getIdentifiers upper ks).Pairwise (fun a b => a.1 < b.1) := by
  have hitem : ∀ k, isIdentifierItem upper k = (!k.isWhitespace && !isCommaTok k) := by
    intro k; simp [isIdentifierItem, matchP_comma]
  refine ⟨?_, ?_, ?_⟩
  · unfold getIdentifiers
    have h := @List.filter_map _ _ (fun p : Nat × Node => p.2) (isIdentifierItem upper) (indexed ks 0)
    rw [indexed_map_snd] at h
    have hf : (isIdentifierItem upper ∘ fun p : Nat × Node => p.2) = fun p => isIdentifierItem upper p.2 := rfl
    rw [hf] at h
    rw [← h]
    apply List.filter_congr
    intro k _
    exact hitem k
  · intro i n
    unfold getIdentifiers
    rw [List.mem_filter, mem_indexed, hitem]
    have := isCommaTok_iff n
    cases hw : n.isWhitespace <;> cases hc : isCommaTok n <;> simp_all
  · unfold getIdentifiers
    exact (indexed_pairwise ks 0).filter _

/-! ## d. `Case.get_cases`

The loop classifies every child by the first of the five keyword tests it passes (`CASE`, then — after the
whitespace test — `WHEN`, `THEN`, `ELSE`, `END`).  The statements below are about children *with their positions*
(`indexed ks 0`), so the result tells which child went where. -/

section Cases
variable (up : Text → Text)

abbrev IK := Nat × Node

def IsCase (x : IK) : Prop := x.2.matchP up mCASE = true
def IsWhen (x : IK) : Prop := x.2.matchP up mCASE = false ∧ x.2.matchP up mWHEN = true
def IsThen (x : IK) : Prop :=
  x.2.matchP up mCASE = false ∧ x.2.matchP up mWHEN = false ∧ x.2.matchP up mTHEN = true
def IsElse (x : IK) : Prop :=
  x.2.matchP up mCASE = false ∧ x.2.matchP up mWHEN = false ∧ x.2.matchP up mTHEN = false ∧
  x.2.matchP up mELSE = true
def IsEnd (x : IK) : Prop :=
  x.2.matchP up mCASE = false ∧ x.2.matchP up mWHEN = false ∧ x.2.matchP up mTHEN = false ∧
  x.2.matchP up mELSE = false ∧ x.2.matchP up mEND = true
/-- none of the five keywords -/
def KwFree (x : IK) : Prop :=
  x.2.matchP up mCASE = false ∧ x.2.matchP up mWHEN = false ∧ x.2.matchP up mTHEN = false ∧
  x.2.matchP up mELSE = false ∧ x.2.matchP up mEND = false

/-- the children that survive `skip_ws` -/
def keep (sw : Bool) (xs : List IK) : List IK := xs.filter (fun x => !(sw && x.2.ttIn T.Whitespace))

theorem keep_cons (sw : Bool) (x : IK) (xs : List IK) :
    keep sw (x :: xs) = if (sw && x.2.ttIn T.Whitespace) = true then keep sw xs else x :: keep sw xs := by
  unfold keep
  cases h : (sw && x.2.ttIn T.Whitespace) <;> simp [List.filter, h]

theorem keep_false (xs : List IK) : keep false xs = xs := by simp [keep]

/-- a token that passes a `(T.Keyword, …)` match is not whitespace -/
theorem matchP_keyword_not_ws {k : Node} {vs : Option (List Text)} (h : k.matchP up ⟨T.Keyword, vs⟩ = true) :
    k.ttIn T.Whitespace = false := by
  cases k with
  | grp c ks => rfl
  | tok t v =>
    simp only [Node.matchP, Node.match] at h
    by_cases ht : t = T.Keyword
    · subst ht
      have : TType.isIn T.Keyword T.Whitespace = false := by decide
      simpa [Node.ttIn] using this
    · simp [ht] at h

theorem caseStep_case {sw : Bool} {st : CaseMode × List CaseEntry} {x : IK} (h : IsCase up x) :
    caseStep up sw st x = .ok st := by
  unfold IsCase at h
  simp [caseStep, h]

theorem caseStep_when {sw : Bool} {m : CaseMode} {ret : List CaseEntry} {x : IK} (h : IsWhen up x) :
    caseStep up sw (m, ret) x = .ok (.cond, ret ++ [⟨some [x], []⟩]) := by
  obtain ⟨h1, h2⟩ := h
  have hws := matchP_keyword_not_ws up (vs := mWHEN.values) h2
  simp [caseStep, h1, h2, hws, appendCond, Except.map]

theorem caseStep_else {sw : Bool} {m : CaseMode} {ret : List CaseEntry} {x : IK} (h : IsElse up x) :
    caseStep up sw (m, ret) x = .ok (.val, ret ++ [⟨none, [x]⟩]) := by
  obtain ⟨h1, h2, h3, h4⟩ := h
  have hws := matchP_keyword_not_ws up (vs := mELSE.values) h4
  simp [caseStep, h1, h2, h3, h4, hws, appendVal, Except.map]

theorem caseStep_then {sw : Bool} {m : CaseMode} {r : List CaseEntry} {e : CaseEntry} {x : IK} (h : IsThen up x) :
    caseStep up sw (m, r ++ [e]) x = .ok (.val, r ++ [{ e with val := e.val ++ [x] }]) := by
  obtain ⟨h1, h2, h3⟩ := h
  have hws := matchP_keyword_not_ws up (vs := mTHEN.values) h3
  simp [caseStep, h1, h2, h3, hws, appendVal, Except.map]

theorem caseStep_end {sw : Bool} {m : CaseMode} {ret : List CaseEntry} {x : IK} (h : IsEnd up x) :
    caseStep up sw (m, ret) x = .ok (.off, ret) := by
  obtain ⟨h1, h2, h3, h4, h5⟩ := h
  have hws := matchP_keyword_not_ws up (vs := mEND.values) h5
  simp [caseStep, h1, h2, h3, h4, h5, hws]

theorem caseStep_free_skip {sw : Bool} {st : CaseMode × List CaseEntry} {x : IK} (h : KwFree up x)
    (hs : (sw && x.2.ttIn T.Whitespace) = true) : caseStep up sw st x = .ok st := by
  obtain ⟨h1, _⟩ := h
  simp only [Bool.and_eq_true] at hs
  simp [caseStep, h1, hs.1, hs.2]

theorem caseStep_free_off {sw : Bool} {ret : List CaseEntry} {x : IK} (h : KwFree up x) :
    caseStep up sw (.off, ret) x = .ok (.off, ret) := by
  obtain ⟨h1, h2, h3, h4, h5⟩ := h
  by_cases hs : (sw && x.2.ttIn T.Whitespace) = true
  · exact caseStep_free_skip up ⟨h1, h2, h3, h4, h5⟩ hs
  · simp only [Bool.and_eq_true, not_and, Bool.not_eq_true] at hs
    cases sw <;> simp_all [caseStep]

theorem caseStep_free_cond {sw : Bool} {r : List CaseEntry} {c v : List IK} {x : IK} (h : KwFree up x)
    (hs : (sw && x.2.ttIn T.Whitespace) = false) :
    caseStep up sw (.cond, r ++ [⟨some c, v⟩]) x = .ok (.cond, r ++ [⟨some (c ++ [x]), v⟩]) := by
  obtain ⟨h1, h2, h3, h4, h5⟩ := h
  cases sw <;> simp_all [caseStep, appendCond, Except.map]

theorem caseStep_free_cond_nil {sw : Bool} {x : IK} (h : KwFree up x)
    (hs : (sw && x.2.ttIn T.Whitespace) = false) :
    caseStep up sw (.cond, []) x = .ok (.cond, [⟨some [x], []⟩]) := by
  obtain ⟨h1, h2, h3, h4, h5⟩ := h
  cases sw <;> simp_all [caseStep, appendCond, Except.map]

theorem caseStep_free_val {sw : Bool} {r : List CaseEntry} {e : CaseEntry} {x : IK} (h : KwFree up x)
    (hs : (sw && x.2.ttIn T.Whitespace) = false) :
    caseStep up sw (.val, r ++ [e]) x = .ok (.val, r ++ [{ e with val := e.val ++ [x] }]) := by
  obtain ⟨h1, h2, h3, h4, h5⟩ := h
  cases sw <;> simp_all [caseStep, appendVal, Except.map]

/-- a run of non-keyword children in CONDITION mode extends the current condition -/
theorem caseLoop_free_cond (sw : Bool) (seg rest : List IK) (hseg : ∀ x ∈ seg, KwFree up x)
    (r : List CaseEntry) (c v : List IK) :
    caseLoop up sw (seg ++ rest) (.cond, r ++ [⟨some c, v⟩]) =
      caseLoop up sw rest (.cond, r ++ [⟨some (c ++ keep sw seg), v⟩]) := by
  induction seg generalizing c with
  | nil => simp [keep]
  | cons x seg ih =>
    have hx := hseg x (by simp)
    have hseg' : ∀ y ∈ seg, KwFree up y := fun y hy => hseg y (by simp [hy])
    simp only [List.cons_append, caseLoop, keep_cons]
    cases hs : (sw && x.2.ttIn T.Whitespace)
    · rw [caseStep_free_cond up hx hs]
      simp only [Bool.false_eq_true, if_false]
      rw [ih hseg' (c ++ [x])]
      simp
    · rw [caseStep_free_skip up hx hs]
      simp only [if_true]
      exact ih hseg' c

/-- a run of non-keyword children in VALUE mode extends the current value -/
theorem caseLoop_free_val (sw : Bool) (seg rest : List IK) (hseg : ∀ x ∈ seg, KwFree up x)
    (r : List CaseEntry) (c : Option (List IK)) (v : List IK) :
    caseLoop up sw (seg ++ rest) (.val, r ++ [⟨c, v⟩]) =
      caseLoop up sw rest (.val, r ++ [⟨c, v ++ keep sw seg⟩]) := by
  induction seg generalizing v with
  | nil => simp [keep]
  | cons x seg ih =>
    have hx := hseg x (by simp)
    have hseg' : ∀ y ∈ seg, KwFree up y := fun y hy => hseg y (by simp [hy])
    simp only [List.cons_append, caseLoop, keep_cons]
    cases hs : (sw && x.2.ttIn T.Whitespace)
    · rw [caseStep_free_val up hx hs]
      simp only [Bool.false_eq_true, if_false]
      rw [ih hseg' (v ++ [x])]
      simp
    · rw [caseStep_free_skip up hx hs]
      simp only [if_true]
      exact ih hseg' v

/-- after `END` non-keyword children are ignored -/
theorem caseLoop_free_off (sw : Bool) (seg rest : List IK) (hseg : ∀ x ∈ seg, KwFree up x)
    (ret : List CaseEntry) :
    caseLoop up sw (seg ++ rest) (.off, ret) = caseLoop up sw rest (.off, ret) := by
  induction seg with
  | nil => rfl
  | cons x seg ih =>
    have hx := hseg x (by simp)
    simp only [List.cons_append, caseLoop, caseStep_free_off up hx]
    exact ih (fun y hy => hseg y (by simp [hy]))

/-- the entry created by children between `CASE` and the first `WHEN` (the operand of a simple CASE) -/
def operandEntry (sw : Bool) (pre : List IK) : List CaseEntry :=
  if (keep sw pre).isEmpty then [] else [⟨some (keep sw pre), []⟩]

theorem caseLoop_free_init (sw : Bool) (seg rest : List IK) (hseg : ∀ x ∈ seg, KwFree up x) :
    caseLoop up sw (seg ++ rest) (.cond, []) = caseLoop up sw rest (.cond, operandEntry sw seg) := by
  induction seg with
  | nil => simp [operandEntry, keep]
  | cons x seg ih =>
    have hx := hseg x (by simp)
    have hseg' : ∀ y ∈ seg, KwFree up y := fun y hy => hseg y (by simp [hy])
    simp only [List.cons_append, caseLoop]
    cases hs : (sw && x.2.ttIn T.Whitespace)
    · rw [caseStep_free_cond_nil up hx hs]
      have := caseLoop_free_cond up sw seg rest hseg' [] [x] []
      simp only [List.nil_append] at this
      simp only [this, operandEntry, keep_cons, hs, Bool.false_eq_true, if_false]
      simp
    · rw [caseStep_free_skip up hx hs]
      simp only [operandEntry, keep_cons, hs, if_true]
      exact ih hseg'

/-- one `WHEN c… THEN v…` clause as written -/
structure CaseClause where
  w : IK
  cs : List IK
  t : IK
  vs : List IK

def CaseClause.render (c : CaseClause) : List IK := c.w :: c.cs ++ c.t :: c.vs

/-- the `(condition, value)` pair it produces: the `WHEN`/`THEN` tokens themselves head the two lists -/
def CaseClause.entry (sw : Bool) (c : CaseClause) : CaseEntry := ⟨some (c.w :: keep sw c.cs), c.t :: keep sw c.vs⟩

def CaseClause.WF (c : CaseClause) : Prop :=
  IsWhen up c.w ∧ (∀ x ∈ c.cs, KwFree up x) ∧ IsThen up c.t ∧ (∀ x ∈ c.vs, KwFree up x)

theorem caseLoop_clause (sw : Bool) (c : CaseClause) (hc : c.WF up) (rest : List IK) (m : CaseMode)
    (ret : List CaseEntry) :
    caseLoop up sw (c.render ++ rest) (m, ret) = caseLoop up sw rest (.val, ret ++ [c.entry sw]) := by
  obtain ⟨hw, hcs, ht, hvs⟩ := hc
  simp only [CaseClause.render, List.cons_append, List.append_assoc, caseLoop, caseStep_when up hw]
  rw [caseLoop_free_cond up sw c.cs _ hcs]
  simp only [caseLoop, caseStep_then up ht]
  have := caseLoop_free_val up sw c.vs rest hvs ret (some ([c.w] ++ keep sw c.cs)) ([] ++ [c.t])
  simp only [List.nil_append, List.cons_append] at this
  simp only [List.nil_append, List.cons_append]
  rw [this]
  rfl

theorem caseLoop_clauses (sw : Bool) (cls : List CaseClause) (hc : ∀ c ∈ cls, c.WF up) (rest : List IK)
    (m : CaseMode) (ret : List CaseEntry) :
    ∃ m', caseLoop up sw (cls.flatMap CaseClause.render ++ rest) (m, ret) =
      caseLoop up sw rest (m', ret ++ cls.map (CaseClause.entry sw)) := by
  induction cls generalizing m ret with
  | nil => exact ⟨m, by simp⟩
  | cons c cls ih =>
    obtain ⟨m', h⟩ := ih (fun c' hc' => hc c' (by simp [hc'])) .val (ret ++ [c.entry sw])
    refine ⟨m', ?_⟩
    simp only [List.flatMap_cons, List.append_assoc, List.map_cons]
    rw [caseLoop_clause up sw c (hc c (by simp))]
    rw [h]
    simp

/-- the optional `ELSE v…` part -/
def elseRender : Option (IK × List IK) → List IK
  | none => []
  | some (e, es) => e :: es

def elseEntry (sw : Bool) : Option (IK × List IK) → List CaseEntry
  | none => []
  | some (e, es) => [⟨none, e :: keep sw es⟩]

def ElseWF : Option (IK × List IK) → Prop
  | none => True
  | some (e, es) => IsElse up e ∧ ∀ x ∈ es, KwFree up x

/-- the children (with positions) of a canonical CASE:
`CASE pre… (WHEN c… THEN v…)* (ELSE v…)? END post…`, where `pre`, `c`, `v`, `post` are runs of arbitrary
non-keyword children (whitespace, comments, tokens, groups). -/
def caseShape (cx : IK) (pre : List IK) (cls : List CaseClause) (els : Option (IK × List IK)) (ex : IK)
    (post : List IK) : List IK :=
  cx :: pre ++ (cls.flatMap CaseClause.render ++ (elseRender els ++ ex :: post))

/-- **`get_cases(skip_ws)` on a canonical CASE**: one entry `([WHEN, c…], [THEN, v…])` per clause, then
`(None, [ELSE, v…])` if there is an ELSE; `END` and whatever follows are not reported; whitespace is dropped from the
lists iff `skip_ws`.  Children between `CASE` and the first `WHEN` (a simple-CASE operand, or just whitespace when
`skip_ws` is off) form a leading entry `(pre, [])`. -/
theorem caseLoop_shape (sw : Bool) (cx : IK) (pre : List IK) (cls : List CaseClause) (els : Option (IK × List IK))
    (ex : IK) (post : List IK)
    (hcx : IsCase up cx) (hpre : ∀ x ∈ pre, KwFree up x) (hcls : ∀ c ∈ cls, c.WF up) (hels : ElseWF up els)
    (hex : IsEnd up ex) (hpost : ∀ x ∈ post, KwFree up x) :
    (caseLoop up sw (caseShape cx pre cls els ex post) (.cond, [])).map (·.2) =
      .ok (operandEntry sw pre ++ cls.map (CaseClause.entry sw) ++ elseEntry sw els) := by
  unfold caseShape
  simp only [List.cons_append, caseLoop, caseStep_case up hcx]
  rw [caseLoop_free_init up sw pre _ hpre]
  obtain ⟨m', h⟩ := caseLoop_clauses up sw cls hcls (elseRender els ++ ex :: post) .cond (operandEntry sw pre)
  rw [h]
  cases els with
  | none =>
    simp only [elseRender, List.nil_append, caseLoop, caseStep_end up hex, elseEntry, List.append_nil]
    have := caseLoop_free_off up sw post [] hpost (operandEntry sw pre ++ cls.map (CaseClause.entry sw))
    simp only [List.append_nil] at this
    rw [this]
    rfl
  | some p =>
    obtain ⟨e, es⟩ := p
    obtain ⟨he, hes⟩ := hels
    simp only [elseRender, List.cons_append, caseLoop, caseStep_else up he, elseEntry]
    have h2 := caseLoop_free_val up sw es (ex :: post) hes
      (operandEntry sw pre ++ cls.map (CaseClause.entry sw)) none [e]
    rw [h2]
    simp only [caseLoop, caseStep_end up hex]
    have := caseLoop_free_off up sw post [] hpost
      (operandEntry sw pre ++ cls.map (CaseClause.entry sw) ++ [⟨none, [e] ++ keep sw es⟩])
    simp only [List.append_nil] at this
    rw [this]
    rfl

/-- `getCases_spec`, stated for the children list: if the children with their positions split canonically, the
accessor returns the clauses as written. -/
theorem getCases_spec (ks : List Node) (sw : Bool) (cx : IK) (pre : List IK) (cls : List CaseClause)
    (els : Option (IK × List IK)) (ex : IK) (post : List IK)
    (hshape : indexed ks 0 = caseShape cx pre cls els ex post)
    (hcx : IsCase up cx) (hpre : ∀ x ∈ pre, KwFree up x) (hcls : ∀ c ∈ cls, c.WF up) (hels : ElseWF up els)
    (hex : IsEnd up ex) (hpost : ∀ x ∈ post, KwFree up x) :
    getCases up ks sw = .ok (operandEntry sw pre ++ cls.map (CaseClause.entry sw) ++ elseEntry sw els) := by
  unfold getCases
  rw [hshape]
  exact caseLoop_shape up sw cx pre cls els ex post hcx hpre hcls hels hex hpost

end Cases

/-! ## e. totality: which accessors can raise, and on what

Accessors whose model type has no `Except` cannot raise on any tree: `get_type`, `get_typecast`, `get_ordering`,
`is_wildcard`, `get_array_indices`, `get_identifiers`, `is_multiline`, `token_first`, `token_next`,
`get_token_at_offset`, `flatten`, `get_sublists`, `within`, `has_ancestor`, `is_child_of`.  Their correspondence with
the real methods (including "no exception") is what stream S-ACC samples.  For the others: -/

/-- loop invariant of `get_cases`: in CONDITION mode the last entry (if any) has a list as condition -/
def CaseInv (st : CaseMode × List CaseEntry) : Prop :=
  st.1 = .cond → ∀ e, st.2.getLast? = some e → e.cond.isSome = true

theorem appendVal_ok (ret : List CaseEntry) (e : CaseEntry) (x : Nat × Node) :
    appendVal (ret ++ [e]) x = .ok (ret ++ [{ e with val := e.val ++ [x] }]) := by
  simp [appendVal]

theorem appendCond_ok (ret : List CaseEntry) (c v : List (Nat × Node)) (x : Nat × Node) :
    appendCond (ret ++ [⟨some c, v⟩]) x = .ok (ret ++ [⟨some (c ++ [x]), v⟩]) := by
  simp [appendCond]

theorem caseStep_ok (up : Text → Text) (sw : Bool) (st : CaseMode × List CaseEntry) (x : Nat × Node)
    (hinv : CaseInv st) : ∃ st', caseStep up sw st x = .ok st' ∧ CaseInv st' := by
  obtain ⟨mode, ret⟩ := st
  by_cases h1 : x.2.matchP up mCASE = true
  · exact ⟨_, caseStep_case up h1, hinv⟩
  have h1 : x.2.matchP up mCASE = false := by simpa using h1
  by_cases hs : (sw && x.2.ttIn T.Whitespace) = true
  · refine ⟨(mode, ret), ?_, hinv⟩
    simp only [Bool.and_eq_true] at hs
    simp [caseStep, h1, hs.1, hs.2]
  have hs : (sw && x.2.ttIn T.Whitespace) = false := by simpa using hs
  by_cases h2 : x.2.matchP up mWHEN = true
  · refine ⟨_, caseStep_when up ⟨h1, h2⟩, ?_⟩
    intro _ e he; simp at he; subst he; rfl
  have h2 : x.2.matchP up mWHEN = false := by simpa using h2
  -- a non-empty `ret` ends in some entry
  have hlast : ret = [] ∨ ∃ r e, ret = r ++ [e] := by
    cases hr : ret.getLast? with
    | none => left; simpa using hr
    | some e => right; obtain ⟨r, hr⟩ := List.getLast?_eq_some_iff.1 hr; exact ⟨r, e, hr⟩
  by_cases h3 : x.2.matchP up mTHEN = true
  · rcases hlast with rfl | ⟨r, e, rfl⟩
    · have := caseStep_then up (sw := sw) (m := mode) (r := []) (e := ⟨some [], []⟩) (x := x) ⟨h1, h2, h3⟩
      refine ⟨(.val, [⟨some [], [x]⟩]), ?_, by intro h; cases h⟩
      have hws := matchP_keyword_not_ws up (vs := mTHEN.values) h3
      simp [caseStep, h1, h2, h3, hws, appendVal, Except.map]
    · exact ⟨_, caseStep_then up ⟨h1, h2, h3⟩, by intro h; cases h⟩
  have h3 : x.2.matchP up mTHEN = false := by simpa using h3
  by_cases h4 : x.2.matchP up mELSE = true
  · exact ⟨_, caseStep_else up ⟨h1, h2, h3, h4⟩, by intro h; cases h⟩
  have h4 : x.2.matchP up mELSE = false := by simpa using h4
  by_cases h5 : x.2.matchP up mEND = true
  · exact ⟨_, caseStep_end up ⟨h1, h2, h3, h4, h5⟩, by intro h; cases h⟩
  have h5 : x.2.matchP up mEND = false := by simpa using h5
  have hfree : KwFree up x := ⟨h1, h2, h3, h4, h5⟩
  cases mode with
  | off => exact ⟨_, caseStep_free_off up hfree, by intro h; cases h⟩
  | val =>
    rcases hlast with rfl | ⟨r, e, rfl⟩
    · refine ⟨(.val, [⟨some [], [x]⟩]), ?_, by intro h; cases h⟩
      cases sw <;> simp_all [caseStep, appendVal, Except.map]
    · exact ⟨_, caseStep_free_val up hfree hs, by intro h; cases h⟩
  | cond =>
    rcases hlast with rfl | ⟨r, e, rfl⟩
    · refine ⟨_, caseStep_free_cond_nil up hfree hs, ?_⟩
      intro _ e he; simp at he; subst he; rfl
    · have hc := hinv rfl e (by simp)
      obtain ⟨c, v⟩ := e
      cases c with
      | none => simp at hc
      | some c =>
        refine ⟨_, caseStep_free_cond up hfree hs, ?_⟩
        intro _ e he; simp at he; subst he; rfl

theorem caseLoop_ok (up : Text → Text) (sw : Bool) (xs : List (Nat × Node)) (st : CaseMode × List CaseEntry)
    (hinv : CaseInv st) : ∃ st', caseLoop up sw xs st = .ok st' := by
  induction xs generalizing st with
  | nil => exact ⟨st, rfl⟩
  | cons x xs ih =>
    obtain ⟨st', h, hinv'⟩ := caseStep_ok up sw st x hinv
    simp only [caseLoop, h]
    exact ih st' hinv'

/-- **`get_cases` never raises**, whatever the children are -/
theorem getCases_total (up : Text → Text) (ks : List Node) (sw : Bool) : ∃ r, getCases up ks sw = .ok r := by
  obtain ⟨st', h⟩ := caseLoop_ok up sw (indexed ks 0) (.cond, []) (by intro _ e he; simp at he)
  exact ⟨st'.2, by simp [getCases, h, Except.map]⟩

/-! ### `get_parameters`, `get_window`, `left`, `right` -/

theorem tokenNextBy_inst_none_iff (up : Text → Text) (ks : List Node) (c : Cls) :
    tokenNextBy up ks [c] [] .none = none ↔ ∀ k ∈ ks, k.isInst c = false := by
  unfold tokenNextBy
  rw [(tokenMatchingFwd_spec ks _ 0).2]
  simp only [imt, Node.isInstAny, List.any_cons, List.any_nil, Bool.or_false, Nat.zero_le, forall_const]
  constructor
  · intro h k hk
    obtain ⟨n, hn⟩ := List.mem_iff_getElem?.1 hk
    exact h n k hn
  · intro h j k hk; exact h k (List.mem_of_getElem? hk)

theorem tokenNextBy_inst_some (up : Text → Text) (ks : List Node) (c : Cls) {i : Nat} {k : Node}
    (h : tokenNextBy up ks [c] [] .none = some (i, k)) : ∃ c' sub, k = .grp c' sub := by
  unfold tokenNextBy at h
  have := ((tokenMatchingFwd_spec ks _ 0).1 i k).1 h
  obtain ⟨_, _, hf, _⟩ := this
  cases k with
  | tok t v => simp [imt, Node.isInstAny, Node.isInst] at hf
  | grp c' sub => exact ⟨c', sub, rfl⟩

/-- **`get_parameters()` raises exactly when the Function has no `Parenthesis` child, and then AttributeError** -/
theorem getParameters_error_iff (up : Text → Text) (ks : List Node) (e : PyErr) :
    getParameters up ks = .error e ↔ e = .attributeError ∧ ∀ k ∈ ks, k.isInst .Parenthesis = false := by
  rw [← tokenNextBy_inst_none_iff up]
  unfold getParameters
  cases h : tokenNextBy up ks [.Parenthesis] [] .none with
  | none => simp; exact eq_comm
  | some r =>
    obtain ⟨i, k⟩ := r
    obtain ⟨c', sub, rfl⟩ := tokenNextBy_inst_some up ks _ h
    simp

/-- **`get_window()`**: without an `Over` child it returns `None`; it raises (IndexError) only on an empty `Over` group -/
theorem getWindow_error_iff (up : Text → Text) (ks : List Node) :
    (getWindow up ks = .ok none ↔ ∀ k ∈ ks, k.isInst .Over = false) ∧
    (∀ e, getWindow up ks = .error e → e = .indexError) := by
  rw [← tokenNextBy_inst_none_iff up]
  unfold getWindow
  cases h : tokenNextBy up ks [.Over] [] .none with
  | none => simp
  | some r =>
    obtain ⟨i, k⟩ := r
    obtain ⟨c', sub, rfl⟩ := tokenNextBy_inst_some up ks _ h
    cases hl : sub.getLast? <;> simp [hl]

theorem comparisonLeft_error_iff (ks : List Node) (e : PyErr) :
    comparisonLeft ks = .error e ↔ e = .indexError ∧ ks = [] := by
  cases ks <;> simp [comparisonLeft, eq_comm]

theorem comparisonRight_error_iff (ks : List Node) (e : PyErr) :
    comparisonRight ks = .error e ↔ e = .indexError ∧ ks = [] := by
  unfold comparisonRight
  cases h : ks.getLast? with
  | none => simp at h; simp [h, eq_comm]
  | some k =>
    have : ks ≠ [] := by intro he; simp [he] at h
    simp [this]

/-! ### witnesses (`upper := id`): the real trees of `f(x)` and hand-built odd trees -/

/-- `f(x)`: `Function[Identifier[Name f], Parenthesis[( Identifier[Name x] )]]` -/
def witnessFx : List Node :=
  [.grp .Identifier [.tok T.Name [102]],
   .grp .Parenthesis [.tok T.Punctuation [40], .grp .Identifier [.tok T.Name [120]], .tok T.Punctuation [41]]]

/-- `get_window()` raises AttributeError on the tree `parse` builds for `f(x)` — every Function without OVER -/
example : getWindow id witnessFx = .ok none := by rfl

example : (getParameters id witnessFx).map (·.map (·.1)) = .ok [[1, 1]] := by rfl

/-- `get_parameters()` on a Function without Parenthesis child -/
example : getParameters id [.grp .Identifier [.tok T.Name [102]]] = .error .attributeError := by rfl

/-- `get_window()` with an empty `Over` -/
example : getWindow id [.grp .Over []] = .error .indexError := by rfl

example : comparisonLeft [] = .error .indexError := by rfl
example : comparisonRight [] = .error .indexError := by rfl

/-- `get_real_name()` / `get_name()` on an Identifier whose name token has an empty value (`remove_quotes('')`) -/
example : getRealName id .Identifier [.tok T.Name []] = .error .indexError := by rfl
example : getName id .Identifier [.tok T.Name []] = .error .indexError := by rfl

/-- `get_parent_name()` when the token before the dot is an empty group -/
example : getParentName id [.grp .Over [], .tok T.Punctuation [46]] = .error .indexError := by rfl

/-- `token_prev(len + 1)` -/
example : tokenPrevO [.tok T.Name [97]] (some 2) = .error .indexError := by rfl

/-- `get_typecast()` cannot raise (its type says so); `a::` has no token after the marker -/
example : getTypecast id [.tok T.Name [97], .tok T.Punctuation [58, 58]] = none := by rfl
example : getTypecast id [.tok T.Name [97], .tok T.Punctuation [58, 58], .tok T.Whitespace [32]] = some [32] := by rfl

/-- `get_cases(skip_ws=True)` on `CASE WHEN a THEN b ELSE c END` (positions of the reported children) -/
example :
    (getCases id [.tok T.Keyword [67, 65, 83, 69], .tok T.Whitespace [32], .tok T.Keyword [87, 72, 69, 78],
        .tok T.Whitespace [32], .tok T.Name [97], .tok T.Whitespace [32], .tok T.Keyword [84, 72, 69, 78],
        .tok T.Whitespace [32], .tok T.Name [98], .tok T.Whitespace [32], .tok T.Keyword [69, 76, 83, 69],
        .tok T.Whitespace [32], .tok T.Name [99], .tok T.Whitespace [32], .tok T.Keyword [69, 78, 68]] true).map
      (·.map fun e => (e.cond.map (·.map (·.1)), e.val.map (·.1)))
    = .ok [(some [2, 4], [6, 8]), (none, [10, 12])] := by rfl

/-! ### the name accessors: only `remove_quotes('')` can raise -/

theorem removeQuotes_error_iff (v : Text) (e : PyErr) : removeQuotes v = .error e ↔ v = [] ∧ e = .indexError := by
  cases v with
  | nil => simp [removeQuotes, eq_comm]
  | cons c rest =>
    simp only [removeQuotes]
    split <;> simp

theorem removeQuotes_ok_of_ne {v : Text} (h : v ≠ []) : ∃ r, removeQuotes v = .ok r := by
  cases hr : removeQuotes v with
  | ok r => exact ⟨r, rfl⟩
  | error e => exact absurd ((removeQuotes_error_iff v e).1 hr).1 h

mutual
/-- `G` holds for the node and all its descendants -/
def Node.All (G : Node → Prop) : Node → Prop
  | .tok t v => G (.tok t v)
  | .grp c ks => G (.grp c ks) ∧ AllL G ks
def AllL (G : Node → Prop) : List Node → Prop
  | [] => True
  | k :: ks => Node.All G k ∧ AllL G ks
end

theorem Node.All.self {G : Node → Prop} {n : Node} (h : Node.All G n) : G n := by
  cases n with
  | tok t v => exact h
  | grp c ks => exact h.1

theorem AllL_mem {G : Node → Prop} {ks : List Node} (h : AllL G ks) : ∀ k ∈ ks, Node.All G k := by
  induction ks with
  | nil => intro k hk; cases hk
  | cons a ks ih =>
    intro k hk
    rcases List.mem_cons.1 hk with rfl | hk
    · exact h.1
    · exact ih h.2 k hk

section Names
variable (up : Text → Text)
/- a property `Q` of accessor results, and a property `G` of nodes, such that: plain results have `Q`,
`remove_quotes(k.value)` has `Q` for every `G`-node, and `Q` is closed under `a or b` -/
variable (G : Node → Prop) (Q : Except PyErr (Option Text) → Prop)
variable (hok : ∀ r, Q (.ok r))
variable (hrq : ∀ k, G k → Q ((removeQuotes k.value).map some))
variable (hor : ∀ a r, Q a → Q r → Q (pyOrName a r))

/-- what the loop needs of the (child, info) pairs -/
def GoodKis (kis : List (Node × NameInfo)) : Prop := ∀ p ∈ kis, G p.1 ∧ Q p.2.real ∧ Q p.2.name

include hok hrq in
theorem firstNameLoop_Q (types : List TType) (rn : Bool) (l : List (Node × NameInfo)) (h : GoodKis G Q l) :
    Q (firstNameLoop types rn l) := by
  induction l with
  | nil => exact hok none
  | cons p l ih =>
    obtain ⟨k, info⟩ := p
    have hp := h (k, info) (by simp)
    simp only [firstNameLoop]
    split
    · exact hrq k hp.1
    · split
      · cases rn
        · exact hp.2.2
        · exact hp.2.1
      · exact ih (fun q hq => h q (by simp [hq]))

include hok hrq in
theorem firstNameK_Q (kis : List (Node × NameInfo)) (h : GoodKis G Q kis) (idx : Option Nat) (rev kw rn : Bool) :
    Q (firstNameK kis idx rev kw rn) := by
  unfold firstNameK
  apply firstNameLoop_Q G Q hok hrq
  have hsub : ∀ p, p ∈ (match idx with
      | none => kis
      | some i => if (i == 0) = true then kis else kis.drop i) → p ∈ kis := by
    intro p hp
    cases idx with
    | none => exact hp
    | some i =>
      simp only at hp
      split at hp
      · exact hp
      · exact List.mem_of_mem_drop hp
  intro p hp
  cases rev
  · simp only [Bool.false_eq_true, if_false] at hp
    exact h p (hsub p hp)
  · simp only [if_true, List.mem_reverse] at hp
    exact h p (hsub p hp)

include hok hrq in
theorem mixinRealNameK_Q (kis : List (Node × NameInfo)) (h : GoodKis G Q kis) : Q (mixinRealNameK up kis) :=
  firstNameK_Q G Q hok hrq kis h _ _ _ _

include hok hrq in
theorem mixinAliasK_Q (kis : List (Node × NameInfo)) (h : GoodKis G Q kis) : Q (mixinAliasK up kis) := by
  unfold mixinAliasK
  simp only
  split
  · exact firstNameK_Q G Q hok hrq kis h _ _ _ _
  · split
    · split
      · exact firstNameK_Q G Q hok hrq kis h _ _ _ _
      · exact hok none
    · exact hok none

include hok hrq in
theorem realNameK_Q (c : Cls) (kis : List (Node × NameInfo)) (h : GoodKis G Q kis) : Q (realNameK up c kis) := by
  unfold realNameK; split
  · exact mixinRealNameK_Q up G Q hok hrq kis h
  · exact hok none

include hok hrq in
theorem aliasK_Q (c : Cls) (kis : List (Node × NameInfo)) (h : GoodKis G Q kis) : Q (aliasK up c kis) := by
  unfold aliasK; split
  · exact mixinAliasK_Q up G Q hok hrq kis h
  · exact hok none

include hok hrq hor in
theorem nameK_Q (c : Cls) (kis : List (Node × NameInfo)) (h : GoodKis G Q kis) : Q (nameK up c kis) :=
  hor _ _ (aliasK_Q up G Q hok hrq c kis h) (realNameK_Q up G Q hok hrq c kis h)

set_option linter.unusedSectionVars false in
include hok hrq hor in
mutual
theorem nameInfo_Q (n : Node) (h : Node.All G n) : Q (nameInfo up n).real ∧ Q (nameInfo up n).name := by
  cases n with
  | tok t v => exact ⟨hok none, hok none⟩
  | grp c ks =>
    simp only [nameInfo]
    have hk := nameInfoL_Q ks h.2
    exact ⟨realNameK_Q up G Q hok hrq c _ hk, nameK_Q up G Q hok hrq hor c _ hk⟩
theorem nameInfoL_Q (ks : List Node) (h : AllL G ks) : GoodKis G Q (ks.zip (nameInfoL up ks)) := by
  cases ks with
  | nil => intro p hp; simp [nameInfoL] at hp
  | cons k ks =>
    intro p hp
    simp only [nameInfoL, List.zip_cons_cons, List.mem_cons] at hp
    rcases hp with rfl | hp
    · exact ⟨h.1.self, nameInfo_Q k h.1⟩
    · exact nameInfoL_Q ks h.2 p hp
end

include hok hrq hor in
/-- every name accessor of a group whose descendants all satisfy `G` has a `Q` result -/
theorem names_Q (c : Cls) (ks : List Node) (h : AllL G ks) :
    Q (getRealName up c ks) ∧ Q (getAlias up c ks) ∧ Q (getName up c ks) ∧ Q (getParentName up ks) ∧
    ∀ idx rev kw rn, Q (getFirstName up ks idx rev kw rn) := by
  have hk := nameInfoL_Q up G Q hok hrq hor ks h
  refine ⟨realNameK_Q up G Q hok hrq c _ hk, aliasK_Q up G Q hok hrq c _ hk, nameK_Q up G Q hok hrq hor c _ hk,
    ?_, fun idx rev kw rn => firstNameK_Q G Q hok hrq _ hk idx rev kw rn⟩
  unfold getParentName
  split
  · exact hok none
  · split
    · exact hok none
    · rename_i i prev hprev
      have := ((tokenPrev_spec ks _ true false).1 i prev).1 hprev
      exact hrq prev (AllL_mem h prev (List.mem_of_getElem? this.2.1)).self

end Names

/-- the result is a value or IndexError -/
def OnlyIndexError (r : Except PyErr (Option Text)) : Prop := ∀ e, r = .error e → e = .indexError

/-- **On every tree**, `get_real_name`, `get_alias`, `get_name`, `has_alias`, `get_parent_name` and
`_get_first_name` (any arguments) raise nothing but IndexError (from `remove_quotes('')`). -/
theorem names_only_indexError (up : Text → Text) (c : Cls) (ks : List Node) :
    OnlyIndexError (getRealName up c ks) ∧ OnlyIndexError (getAlias up c ks) ∧ OnlyIndexError (getName up c ks) ∧
    OnlyIndexError (getParentName up ks) ∧ (∀ idx rev kw rn, OnlyIndexError (getFirstName up ks idx rev kw rn)) ∧
    (∀ e, hasAlias up c ks = .error e → e = .indexError) := by
  have hall : AllL (fun _ => True) ks := by
    have hn : ∀ n : Node, Node.All (fun _ => True) n := by
      intro n
      induction n using Node.rec (motive_2 := fun ks => AllL (fun _ => True) ks) with
      | tok t v => trivial
      | grp c ks ih => exact ⟨trivial, ih⟩
      | nil => trivial
      | cons k ks ih1 ih2 => exact ⟨ih1, ih2⟩
    induction ks with
    | nil => trivial
    | cons k ks ih => exact ⟨hn k, ih⟩
  have h := names_Q up (fun _ => True) OnlyIndexError
    (fun r e he => by cases he)
    (fun k _ e he => by
      cases hr : removeQuotes k.value with
      | ok r => rw [hr] at he; cases he
      | error e' => rw [hr] at he; cases he; exact ((removeQuotes_error_iff _ _).1 hr).2)
    (fun a r ha hr e he => by
      unfold pyOrName at he
      split at he
      · cases he; exact ha _ rfl
      · split at he
        · exact hr e he
        · cases he
      · exact hr e he)
    c ks hall
  refine ⟨h.1, h.2.1, h.2.2.1, h.2.2.2.1, h.2.2.2.2, ?_⟩
  intro e he
  unfold hasAlias at he
  cases ha : getAlias up c ks with
  | ok r => rw [ha] at he; cases he
  | error e' => rw [ha] at he; cases he; exact h.2.1 _ ha

/-- the result is a value -/
def Returns (r : Except PyErr (Option Text)) : Prop := ∃ x, r = .ok x

/-- **No name accessor raises on a tree all of whose nodes have non-empty text** — in particular on every tree
built by `parse`, whose leaves are non-empty lexer tokens and whose groups are non-empty. -/
theorem names_total (up : Text → Text) (c : Cls) (ks : List Node) (h : AllL (fun k => k.value ≠ []) ks) :
    Returns (getRealName up c ks) ∧ Returns (getAlias up c ks) ∧ Returns (getName up c ks) ∧
    Returns (getParentName up ks) ∧ (∀ idx rev kw rn, Returns (getFirstName up ks idx rev kw rn)) ∧
    (∃ b, hasAlias up c ks = .ok b) := by
  have hq := names_Q up (fun k => k.value ≠ []) Returns
    (fun r => ⟨r, rfl⟩)
    (fun k hk => by
      obtain ⟨r, hr⟩ := removeQuotes_ok_of_ne hk
      exact ⟨some r, by rw [hr]; rfl⟩)
    (fun a r ha hr => by
      obtain ⟨x, rfl⟩ := ha
      unfold pyOrName
      cases x with
      | none => exact hr
      | some t => simp only; split; exact hr; exact ⟨_, rfl⟩)
    c ks h
  refine ⟨hq.1, hq.2.1, hq.2.2.1, hq.2.2.2.1, hq.2.2.2.2, ?_⟩
  obtain ⟨x, hx⟩ := hq.2.1
  exact ⟨x.isSome, by simp [hasAlias, hx, Except.map]⟩

mutual
/-- every leaf value is non-empty and every group has a child -/
def okVals : Node → Bool
  | .tok _ v => !v.isEmpty
  | .grp _ ks => !ks.isEmpty && okValsL ks
def okValsL : List Node → Bool
  | [] => true
  | k :: ks => okVals k && okValsL ks
end

mutual
theorem okVals_all (n : Node) (h : okVals n = true) : Node.All (fun k => k.value ≠ []) n := by
  cases n with
  | tok t v =>
    simp only [okVals, Bool.not_eq_true', List.isEmpty_eq_false_iff] at h
    simpa [Node.All, Node.value, Node.text] using h
  | grp c ks =>
    simp only [okVals, Bool.and_eq_true, Bool.not_eq_true', List.isEmpty_eq_false_iff] at h
    have hl := okValsL_all ks h.2
    refine ⟨?_, hl⟩
    cases ks with
    | nil => exact absurd rfl h.1
    | cons k ks =>
      have hk := hl.1.self
      simp only [Node.value, Node.text, Node.textL] at hk ⊢
      intro he
      exact hk (List.append_eq_nil_iff.1 he).1
theorem okValsL_all (ks : List Node) (h : okValsL ks = true) : AllL (fun k => k.value ≠ []) ks := by
  cases ks with
  | nil => trivial
  | cons k ks =>
    simp only [okValsL, Bool.and_eq_true] at h
    exact ⟨okVals_all k h.1, okValsL_all ks h.2⟩
end

/-- the classes without the mixin: `get_real_name`/`get_alias`/`get_name` are `None`, `has_alias` is `False` -/
theorem names_plain_class (up : Text → Text) (c : Cls) (ks : List Node) (hc : isMixin c = false) :
    getRealName up c ks = .ok none ∧ getAlias up c ks = .ok none ∧ getName up c ks = .ok none ∧
    hasAlias up c ks = .ok false := by
  simp [getRealName, getAlias, getName, hasAlias, realNameK, aliasK, nameK, pyOrName, hc, Except.map]

/-! ## f. `remove_quotes` and the name accessors on canonical identifiers -/

/-- a quoted value loses its quotes -/
theorem removeQuotes_quoted (q : Cp) (body : Text) (hq : isQuoteCp q = true) :
    removeQuotes (q :: body ++ [q]) = .ok body := by
  have hl : (q :: (body ++ [q])).getLast? = some q := by
    rw [← List.cons_append, List.getLast?_concat]
  have hd : (body ++ [q]).dropLast = body := List.dropLast_concat
  simp [removeQuotes, hq, hl, hd]

/-- a non-empty value that does not start with a quote character is returned unchanged -/
theorem removeQuotes_plain (c : Cp) (rest : Text) (hc : isQuoteCp c = false) :
    removeQuotes (c :: rest) = .ok (c :: rest) := by
  simp [removeQuotes, hc]

/-- a value starting with a quote and ending differently is returned unchanged (`"a`, `'a"`) -/
theorem removeQuotes_unbalanced (c : Cp) (rest : Text) (h : (c :: rest).getLast? ≠ some c) :
    removeQuotes (c :: rest) = .ok (c :: rest) := by
  simp [removeQuotes, h]

/-- the complete case analysis of `remove_quotes` -/
theorem removeQuotes_cases (v r : Text) (h : removeQuotes v = .ok r) :
    r = v ∨ ∃ q, isQuoteCp q = true ∧ (v = [q] ∧ r = [] ∨ v = q :: r ++ [q]) := by
  cases v with
  | nil => simp [removeQuotes] at h
  | cons c rest =>
    simp only [removeQuotes] at h
    split at h
    · rename_i hc
      simp only [Bool.and_eq_true] at hc
      cases h
      right
      refine ⟨c, hc.1, ?_⟩
      cases rest with
      | nil => left; simp
      | cons d rest' =>
        right
        have hl : (d :: rest').getLast? = some c := by simpa using hc.2
        obtain ⟨ys, hys⟩ := List.getLast?_eq_some_iff.1 hl
        rw [hys]; simp
    · cases h; left; rfl

/-! ### general navigation lemmas -/

theorem tokenNextBy_none_of_forall (up : Text → Text) (ks : List Node) (i : List Cls) (m : List MPat) (t : TArg)
    (h : ∀ k ∈ ks, imt up k i m t = false) : tokenNextBy up ks i m t = none := by
  unfold tokenNextBy
  rw [(tokenMatchingFwd_spec ks _ 0).2]
  intro j k _ hk
  exact h k (List.mem_of_getElem? hk)

theorem tokenNextBy_hit (up : Text → Text) (pre : List Node) (x : Node) (rest : List Node) (i : List Cls)
    (m : List MPat) (t : TArg) (hpre : ∀ k ∈ pre, imt up k i m t = false) (hx : imt up x i m t = true) :
    tokenNextBy up (pre ++ x :: rest) i m t = some (pre.length, x) := by
  unfold tokenNextBy
  rw [(tokenMatchingFwd_spec _ _ 0).1]
  refine ⟨Nat.zero_le _, by simp, hx, ?_⟩
  intro j k' _ hj hk
  rw [List.getElem?_append_left hj] at hk
  exact hpre k' (List.mem_of_getElem? hk)

theorem nameInfoL_length (up : Text → Text) (ks : List Node) : (nameInfoL up ks).length = ks.length := by
  induction ks with
  | nil => rfl
  | cons k ks ih => simp [nameInfoL, ih]

theorem withInfo_map_fst (up : Text → Text) (ks : List Node) : (withInfo up ks).map (·.1) = ks := by
  unfold withInfo
  exact List.map_fst_zip (by rw [nameInfoL_length]; exact Nat.le_refl _)

/-- a child the loop of `_get_first_name` passes over: a leaf whose type is not among `types` -/
def PassedOver (types : List TType) (k : Node) : Prop :=
  k.ttEqAny types = false ∧ k.isInstAny [.Identifier, .Function] = false

theorem firstNameLoop_hit (types : List TType) (rn : Bool) (l : List (Node × NameInfo)) (pre : List Node) (x : Node)
    (rest : List Node) (hl : l.map (·.1) = pre ++ x :: rest) (hpre : ∀ k ∈ pre, PassedOver types k)
    (hx : x.ttEqAny types = true) : firstNameLoop types rn l = (removeQuotes x.value).map some := by
  induction pre generalizing l with
  | nil =>
    cases l with
    | nil => simp at hl
    | cons p l =>
      obtain ⟨k, info⟩ := p
      simp only [List.map_cons, List.nil_append, List.cons.injEq] at hl
      obtain ⟨rfl, _⟩ := hl
      simp [firstNameLoop, hx]
  | cons a pre ih =>
    cases l with
    | nil => simp at hl
    | cons p l =>
      obtain ⟨k, info⟩ := p
      simp only [List.map_cons, List.cons_append, List.cons.injEq] at hl
      obtain ⟨rfl, hl⟩ := hl
      have ha := hpre k (by simp)
      simp only [firstNameLoop, ha.1, ha.2, Bool.false_eq_true, if_false]
      exact ih l hl (fun k' hk' => hpre k' (by simp [hk']))

/-- the tokens `_get_first_name(idx, reverse)` iterates over -/
def sliceOf (ks : List Node) (idx : Option Nat) (rev : Bool) : List Node :=
  let t := match idx with
    | none => ks
    | some i => if i == 0 then ks else ks.drop i
  if rev then t.reverse else t

/-- `_get_first_name` returns the unquoted value of the first token of a name type, when only leaves of other
types precede it in iteration order -/
theorem getFirstName_hit (up : Text → Text) (ks : List Node) (idx : Option Nat) (rev kw rn : Bool)
    (pre : List Node) (x : Node) (rest : List Node) (hs : sliceOf ks idx rev = pre ++ x :: rest)
    (hpre : ∀ k ∈ pre, PassedOver (nameTypes kw) k) (hx : x.ttEqAny (nameTypes kw) = true) :
    getFirstName up ks idx rev kw rn = (removeQuotes x.value).map some := by
  unfold getFirstName firstNameK
  apply firstNameLoop_hit _ _ _ pre x rest _ hpre hx
  rw [← hs]
  unfold sliceOf
  cases rev <;> cases idx with
  | none => simp [withInfo_map_fst]
  | some i =>
    by_cases hi : (i == 0) = true
    · simp [hi, withInfo_map_fst]
    · simp [hi, withInfo_map_fst, List.map_drop]

/-! ### canonical identifiers `[qual .]? name (ws+ [AS ws+]? alias)?` -/

/-- a name token: `Name` (plain or backtick-quoted) or `String.Symbol` (double-quoted) -/
def IsNameTok (k : Node) : Prop := ∃ v, k = .tok T.Name v ∨ k = .tok T.StringSymbol v
/-- a whitespace token -/
def IsWsTok (k : Node) : Prop := ∃ v, k = .tok T.Whitespace v ∨ k = .tok T.Newline v
/-- the `.` -/
def dotTok : Node := .tok T.Punctuation [46]
/-- an `AS` keyword in any spelling that upper-cases to `AS` -/
def IsAsTok (up : Text → Text) (k : Node) : Prop := ∃ v, k = .tok T.Keyword v ∧ up v = up [65, 83]

inductive AliasPart where
  | none
  | implicit (ws : List Node) (alias : Node)
  | explicit (ws1 : List Node) (as : Node) (ws2 : List Node) (alias : Node)

def AliasPart.render : AliasPart → List Node
  | .none => []
  | .implicit ws a => ws ++ [a]
  | .explicit ws1 as ws2 a => ws1 ++ as :: (ws2 ++ [a])

def AliasPart.WF (up : Text → Text) : AliasPart → Prop
  | .none => True
  | .implicit ws a => ws ≠ [] ∧ (∀ k ∈ ws, IsWsTok k) ∧ IsNameTok a
  | .explicit ws1 as ws2 a =>
    ws1 ≠ [] ∧ (∀ k ∈ ws1, IsWsTok k) ∧ IsAsTok up as ∧ ws2 ≠ [] ∧ (∀ k ∈ ws2, IsWsTok k) ∧ IsNameTok a

def AliasPart.alias? : AliasPart → Option Node
  | .none => Option.none
  | .implicit _ a => some a
  | .explicit _ _ _ a => some a

def qualRender : Option Node → List Node
  | none => []
  | some q => [q, dotTok]

/-- the children of a canonical identifier -/
def identShape (qual : Option Node) (name : Node) (al : AliasPart) : List Node :=
  qualRender qual ++ name :: al.render

/-- `remove_quotes(k.value)` of an optional token -/
def unquoted : Option Node → Except PyErr (Option Text)
  | none => .ok none
  | some k => (removeQuotes k.value).map some

section TokenFacts
variable (up : Text → Text)

theorem imt_tok_match_ne (t : TType) (v : Text) (p : MPat) (h : (t != p.tt) = true) :
    imt up (.tok t v) [] [p] .none = false := by
  simp only [imt, Node.isInstAny, List.any_nil, Node.matchP, Node.match, h, if_true, List.any_cons, Bool.or_false]

theorem imt_tok_hier (t : TType) (v : Text) (tt : TType) :
    imt up (.tok t v) [] [] (.hier [tt]) = t.isIn tt := by
  simp [imt, Node.isInstAny, Node.ttIn]

theorem tok_passed (t : TType) (v : Text) (types : List TType) (h : types.contains t = false) :
    PassedOver types (.tok t v) := ⟨h, rfl⟩

theorem name_not_dot {k : Node} (h : IsNameTok k) : imt up k [] [mDot] .none = false := by
  obtain ⟨v, rfl | rfl⟩ := h <;> exact imt_tok_match_ne up _ v mDot (by decide)
theorem name_not_as {k : Node} (h : IsNameTok k) : imt up k [] [mAS] .none = false := by
  obtain ⟨v, rfl | rfl⟩ := h <;> exact imt_tok_match_ne up _ v mAS (by decide)
theorem name_not_ws {k : Node} (h : IsNameTok k) : imt up k [] [] (.hier [T.Whitespace]) = false := by
  obtain ⟨v, rfl | rfl⟩ := h <;> rw [imt_tok_hier] <;> decide
theorem name_hit {k : Node} (h : IsNameTok k) (kw : Bool) : k.ttEqAny (nameTypes kw) = true := by
  obtain ⟨v, rfl | rfl⟩ := h <;> cases kw <;> (show List.contains _ _ = true) <;> decide
theorem name_not_skipped {k : Node} (h : IsNameTok k) : skipMatcher true false k = true := by
  obtain ⟨v, rfl | rfl⟩ := h
  · have : TType.isIn T.Name T.Whitespace = false := by decide
    simp [skipMatcher, Node.isWhitespace, this]
  · have : TType.isIn T.StringSymbol T.Whitespace = false := by decide
    simp [skipMatcher, Node.isWhitespace, this]

theorem ws_not_dot {k : Node} (h : IsWsTok k) : imt up k [] [mDot] .none = false := by
  obtain ⟨v, rfl | rfl⟩ := h <;> exact imt_tok_match_ne up _ v mDot (by decide)
theorem ws_not_as {k : Node} (h : IsWsTok k) : imt up k [] [mAS] .none = false := by
  obtain ⟨v, rfl | rfl⟩ := h <;> exact imt_tok_match_ne up _ v mAS (by decide)
theorem ws_is_ws {k : Node} (h : IsWsTok k) : imt up k [] [] (.hier [T.Whitespace]) = true := by
  obtain ⟨v, rfl | rfl⟩ := h <;> rw [imt_tok_hier] <;> decide
theorem ws_passed {k : Node} (h : IsWsTok k) (kw : Bool) : PassedOver (nameTypes kw) k := by
  obtain ⟨v, rfl | rfl⟩ := h <;> cases kw <;> exact tok_passed _ v _ (by decide)

theorem dot_is_dot : imt up dotTok [] [mDot] .none = true := by
  have : TType.isIn T.Punctuation T.Keyword = false := by decide
  simp [imt, Node.isInstAny, Node.matchP, Node.match, mDot, dotTok, this]
theorem dot_not_as : imt up dotTok [] [mAS] .none = false := imt_tok_match_ne up _ _ mAS (by decide)
theorem dot_not_ws : imt up dotTok [] [] (.hier [T.Whitespace]) = false := by
  unfold dotTok; rw [imt_tok_hier]; decide
theorem dot_passed (kw : Bool) : PassedOver (nameTypes kw) dotTok := by
  cases kw <;> exact tok_passed _ _ _ (by decide)

theorem as_not_dot {k : Node} (h : IsAsTok up k) : imt up k [] [mDot] .none = false := by
  obtain ⟨v, rfl, _⟩ := h; exact imt_tok_match_ne up _ v mDot (by decide)
theorem as_is_as {k : Node} (h : IsAsTok up k) : imt up k [] [mAS] .none = true := by
  obtain ⟨v, rfl, hv⟩ := h
  have : TType.isIn T.Keyword T.Keyword = true := by decide
  simp [imt, Node.isInstAny, Node.matchP, Node.match, mAS, this, hv]

end TokenFacts

theorem drop_length_succ {α : Type} (A : List α) (x : α) (R : List α) : (A ++ x :: R).drop (A.length + 1) = R := by
  induction A with
  | nil => rfl
  | cons a A ih => simp [ih]

section IdentShape
variable (up : Text → Text)

theorem alias_render_not_dot {al : AliasPart} (h : al.WF up) : ∀ k ∈ al.render, imt up k [] [mDot] .none = false := by
  cases al with
  | none => intro k hk; cases hk
  | implicit ws a =>
    obtain ⟨_, hws, ha⟩ := h
    intro k hk
    simp only [AliasPart.render, List.mem_append, List.mem_singleton] at hk
    rcases hk with hk | rfl
    · exact ws_not_dot up (hws k hk)
    · exact name_not_dot up ha
  | explicit ws1 as ws2 a =>
    obtain ⟨_, hws1, has, _, hws2, ha⟩ := h
    intro k hk
    simp only [AliasPart.render, List.mem_append, List.mem_cons, List.not_mem_nil, or_false] at hk
    rcases hk with hk | rfl | hk | rfl
    · exact ws_not_dot up (hws1 k hk)
    · exact as_not_dot up has
    · exact ws_not_dot up (hws2 k hk)
    · exact name_not_dot up ha

/-- **`get_real_name()`** of a canonical identifier is its name token with quotes removed -/
theorem getRealName_identShape (c : Cls) (hc : isMixin c = true) (qual : Option Node) (name : Node) (al : AliasPart)
    (hq : ∀ q, qual = some q → IsNameTok q) (hn : IsNameTok name) (hal : al.WF up) :
    getRealName up c (identShape qual name al) = unquoted (some name) := by
  have hrest : ∀ k ∈ name :: al.render, imt up k [] [mDot] .none = false := by
    intro k hk
    rcases List.mem_cons.1 hk with rfl | hk
    · exact name_not_dot up hn
    · exact alias_render_not_dot up hal k hk
  show realNameK up c (withInfo up _) = _
  simp only [realNameK, hc, if_true, mixinRealNameK, withInfo_map_fst]
  cases qual with
  | none =>
    have hnone : tokenNextBy up (identShape none name al) [] [mDot] .none = none :=
      tokenNextBy_none_of_forall up _ _ _ _ (by simpa [identShape, qualRender] using hrest)
    rw [hnone]
    exact getFirstName_hit up _ none false false true [] name al.render (by simp [sliceOf, identShape, qualRender])
      (by intro k hk; cases hk) (name_hit hn false)
  | some q =>
    have hqn := hq q rfl
    have hdot : tokenNextBy up (identShape (some q) name al) [] [mDot] .none = some (1, dotTok) := by
      have := tokenNextBy_hit up [q] dotTok (name :: al.render) [] [mDot] .none
        (by intro k hk; simp at hk; subst hk; exact name_not_dot up hqn) (dot_is_dot up)
      simpa [identShape, qualRender] using this
    rw [hdot]
    exact getFirstName_hit up _ (some 1) false false true [dotTok] name al.render
      (by simp [sliceOf, identShape, qualRender])
      (by intro k hk; simp at hk; subst hk; exact dot_passed false) (name_hit hn false)

/-- **`get_parent_name()`**: the qualifier with quotes removed, `None` without one -/
theorem getParentName_identShape (qual : Option Node) (name : Node) (al : AliasPart)
    (hq : ∀ q, qual = some q → IsNameTok q) (hn : IsNameTok name) (hal : al.WF up) :
    getParentName up (identShape qual name al) = unquoted qual := by
  have hrest : ∀ k ∈ name :: al.render, imt up k [] [mDot] .none = false := by
    intro k hk
    rcases List.mem_cons.1 hk with rfl | hk
    · exact name_not_dot up hn
    · exact alias_render_not_dot up hal k hk
  unfold getParentName
  cases qual with
  | none =>
    have hnone : tokenNextBy up (identShape none name al) [] [mDot] .none = none :=
      tokenNextBy_none_of_forall up _ _ _ _ (by simpa [identShape, qualRender] using hrest)
    rw [hnone]; rfl
  | some q =>
    have hqn := hq q rfl
    have hdot : tokenNextBy up (identShape (some q) name al) [] [mDot] .none = some (1, dotTok) := by
      have := tokenNextBy_hit up [q] dotTok (name :: al.render) [] [mDot] .none
        (by intro k hk; simp at hk; subst hk; exact name_not_dot up hqn) (dot_is_dot up)
      simpa [identShape, qualRender] using this
    rw [hdot]
    have hprev : tokenPrev (identShape (some q) name al) 1 = some (0, q) := by
      rw [(tokenPrev_spec _ 1 true false).1]
      refine ⟨by omega, by simp [identShape, qualRender], ?_, fun j k' h1 h2 => by omega⟩
      unfold Skipped; rw [name_not_skipped hqn]; simp
    simp only [hprev]
    rfl

/-- **`get_alias()`**: the alias token with quotes removed, `None` without one -/
theorem getAlias_identShape (c : Cls) (hc : isMixin c = true) (qual : Option Node) (name : Node) (al : AliasPart)
    (hq : ∀ q, qual = some q → IsNameTok q) (hn : IsNameTok name) (hal : al.WF up) :
    getAlias up c (identShape qual name al) = unquoted al.alias? := by
  have hhead_as : ∀ k ∈ qualRender qual ++ [name], imt up k [] [mAS] .none = false := by
    intro k hk
    cases qual with
    | none => simp [qualRender] at hk; subst hk; exact name_not_as up hn
    | some q =>
      simp [qualRender] at hk
      rcases hk with rfl | rfl | rfl
      · exact name_not_as up (hq _ rfl)
      · exact dot_not_as up
      · exact name_not_as up hn
  have hhead_ws : ∀ k ∈ qualRender qual ++ [name], imt up k [] [] (.hier [T.Whitespace]) = false := by
    intro k hk
    cases qual with
    | none => simp [qualRender] at hk; subst hk; exact name_not_ws up hn
    | some q =>
      simp [qualRender] at hk
      rcases hk with rfl | rfl | rfl
      · exact name_not_ws up (hq _ rfl)
      · exact dot_not_ws up
      · exact name_not_ws up hn
  show aliasK up c (withInfo up _) = _
  simp only [aliasK, hc, if_true, mixinAliasK, withInfo_map_fst]
  cases al with
  | none =>
    have hks : identShape qual name .none = qualRender qual ++ [name] := by simp [identShape, AliasPart.render]
    rw [hks, tokenNextBy_none_of_forall up _ _ _ _ hhead_as, tokenNextBy_none_of_forall up _ _ _ _ hhead_ws]
    rfl
  | implicit ws a =>
    obtain ⟨hne, hws, ha⟩ := hal
    have hks : identShape qual name (.implicit ws a) = (qualRender qual ++ [name]) ++ (ws ++ [a]) := by
      simp [identShape, AliasPart.render]
    have hno_as : tokenNextBy up (identShape qual name (.implicit ws a)) [] [mAS] .none = none := by
      apply tokenNextBy_none_of_forall
      intro k hk
      rw [hks] at hk
      simp only [List.mem_append, List.mem_singleton] at hk
      rcases hk with hk | hk | rfl
      · exact hhead_as k (by simpa using hk)
      · exact ws_not_as up (hws k hk)
      · exact name_not_as up ha
    obtain ⟨w, ws', rfl⟩ := List.exists_cons_of_ne_nil hne
    have hws_hit : tokenNextBy up (identShape qual name (.implicit (w :: ws') a)) [] [] (.hier [T.Whitespace]) =
        some ((qualRender qual ++ [name]).length, w) := by
      rw [hks]
      exact tokenNextBy_hit up _ w (ws' ++ [a]) _ _ _ hhead_ws (ws_is_ws up (hws w (by simp)))
    rw [hno_as, hws_hit]
    have hlen : (identShape qual name (.implicit (w :: ws') a)).length > 2 := by
      rw [hks]; simp; omega
    simp only [hlen, if_true]
    exact getFirstName_hit up _ none true false false [] a ((qualRender qual ++ [name] ++ (w :: ws')).reverse)
      (by simp [sliceOf, hks]) (by intro k hk; cases hk) (name_hit ha false)
  | explicit ws1 as ws2 a =>
    obtain ⟨_, hws1, has, _, hws2, ha⟩ := hal
    have hks : identShape qual name (.explicit ws1 as ws2 a) =
        (qualRender qual ++ [name] ++ ws1) ++ as :: (ws2 ++ [a]) := by
      simp [identShape, AliasPart.render]
    have has_hit : tokenNextBy up (identShape qual name (.explicit ws1 as ws2 a)) [] [mAS] .none =
        some ((qualRender qual ++ [name] ++ ws1).length, as) := by
      rw [hks]
      apply tokenNextBy_hit up _ as (ws2 ++ [a]) _ _ _ _ (as_is_as up has)
      intro k hk
      rcases List.mem_append.1 hk with hk | hk
      · exact hhead_as k hk
      · exact ws_not_as up (hws1 k hk)
    rw [has_hit]
    exact getFirstName_hit up _ (some ((qualRender qual ++ [name] ++ ws1).length + 1)) false true false ws2 a []
      (by
        have : ((qualRender qual ++ [name] ++ ws1).length + 1 == 0) = false := by simp
        simp only [sliceOf, this, Bool.false_eq_true, if_false, hks]
        rw [drop_length_succ])
      (fun k hk => ws_passed (hws2 k hk) true) (name_hit ha true)

/-- **`get_name()`** is `alias or real_name`, **`has_alias()`** tells whether an alias is written
(on values that `remove_quotes` accepts, i.e. non-empty token values). -/
theorem getName_identShape (c : Cls) (hc : isMixin c = true) (qual : Option Node) (name : Node) (al : AliasPart)
    (hq : ∀ q, qual = some q → IsNameTok q) (hn : IsNameTok name) (hal : al.WF up) :
    getName up c (identShape qual name al) = pyOrName (unquoted al.alias?) (unquoted (some name)) := by
  have h1 := getRealName_identShape up c hc qual name al hq hn hal
  have h2 := getAlias_identShape up c hc qual name al hq hn hal
  unfold getRealName at h1
  unfold getAlias at h2
  unfold getName nameK
  rw [h1, h2]

theorem hasAlias_identShape (c : Cls) (hc : isMixin c = true) (qual : Option Node) (name : Node) (al : AliasPart)
    (hq : ∀ q, qual = some q → IsNameTok q) (hn : IsNameTok name) (hal : al.WF up)
    (hv : ∀ a, al.alias? = some a → a.value ≠ []) :
    hasAlias up c (identShape qual name al) = .ok al.alias?.isSome := by
  unfold hasAlias
  rw [getAlias_identShape up c hc qual name al hq hn hal]
  cases h : al.alias? with
  | none => rfl
  | some a =>
    obtain ⟨r, hr⟩ := removeQuotes_ok_of_ne (hv a h)
    simp [unquoted, hr, Except.map]

/-- the written triple: with non-empty unquoted values, `get_name()` is the alias if present, else the name -/
example : getName id .Identifier
    (identShape (some (.tok T.StringSymbol [34, 115, 34])) (.tok T.Name [96, 116, 96])
      (.explicit [.tok T.Whitespace [32]] (.tok T.Keyword [97, 115]) [.tok T.Newline [10]] (.tok T.Name [120])))
    = .ok (some [120]) := by rfl

end IdentShape

/-! ## `Statement.get_type` -/

/-- first significant token is a DML/DDL keyword: its upper-cased value -/
theorem getType_dml_ddl (up : Text → Text) (ks : List Node) (i : Nat) (t : TType) (v : Text)
    (h : tokenFirstIdx ks true true = some (i, .tok t v)) (ht : t = T.DML ∨ t = T.DDL) :
    getType up ks = up v := by
  unfold getType
  rw [h]
  rcases ht with rfl | rfl
  · have h1 : (Node.tok T.DML v).ttEqAny [T.DML, T.DDL] = true := by show List.contains _ _ = true; decide
    have h2 : TType.isIn T.DML T.Keyword = true := by decide
    simp [h1, Node.normalized, h2]
  · have h1 : (Node.tok T.DDL v).ttEqAny [T.DML, T.DDL] = true := by show List.contains _ _ = true; decide
    have h2 : TType.isIn T.DDL T.Keyword = true := by decide
    simp [h1, Node.normalized, h2]

/-- nothing but whitespace and comments: `'UNKNOWN'` -/
theorem getType_empty (up : Text → Text) (ks : List Node) (h : ∀ k ∈ ks, Skipped true true k) :
    getType up ks = sUNKNOWN := by
  unfold getType
  rw [(tokenFirst_spec ks true true).2.1.2 h]

/-- the CTE loop needs at most `len - tidx + 1` rounds: any two sufficient fuels give the same answer, so the
"fuel exhausted" branch of `cteWalk` is unreachable from `getType` (which passes `len + 1`). -/
theorem cteWalk_fuel_irrelevant (up : Text → Text) (ks : List Node) (f₁ f₂ tidx : Nat)
    (h₁ : ks.length < tidx + f₁) (h₂ : ks.length < tidx + f₂) :
    cteWalk up ks f₁ (some tidx) = cteWalk up ks f₂ (some tidx) := by
  induction f₁ generalizing f₂ tidx with
  | zero =>
    have hnone : tokenNext ks tidx = none := by
      rw [(tokenNext_spec ks tidx true false).2]
      intro j k hj hk
      have := (List.getElem?_eq_some_iff.1 hk).1
      omega
    cases f₂ with
    | zero => rfl
    | succ f₂ => simp [cteWalk, hnone]
  | succ f₁ ih =>
    cases f₂ with
    | zero =>
      have hnone : tokenNext ks tidx = none := by
        rw [(tokenNext_spec ks tidx true false).2]
        intro j k hj hk
        have := (List.getElem?_eq_some_iff.1 hk).1
        omega
      simp [cteWalk, hnone]
    | succ f₂ =>
      simp only [cteWalk]
      cases hn : tokenNext ks tidx with
      | none => rfl
      | some r =>
        obtain ⟨i, tok⟩ := r
        have hi := (((tokenNext_spec ks tidx true false).1 i tok).1 hn).1
        simp only
        split
        · cases hn2 : tokenNext ks i with
          | none => rfl
          | some r2 =>
            obtain ⟨j, tok2⟩ := r2
            have hj := (((tokenNext_spec ks i true false).1 j tok2).1 hn2).1
            simp only
            split
            · rfl
            · exact ih f₂ j (by omega) (by omega)
        · exact ih f₂ i (by omega) (by omega)

end Acc
end Sql
