import SqlModel.Grouping
/-!
# SqlProofs.PureScript — `grouping.group` is a script of `group_tokens` calls and `ttype` assignments

The pure passes are written as functional recursions (`mapGroups`, the dry run of `_group`, the loops).  Here every pass is shown to
be a *script*: a sequence of pure operations — `Sql.groupTokens` on the child list of the node at some path, or the assignment
`tlist[idx].ttype = tt` of `group_operator` — applied one after the other to the tree (`runPure`).  No index reasoning is involved:
each `groupTokens` call a pass makes is one operation of the script, recursion into a child prefixes the paths with the child's index.

`Scr t t'`: some script turns `t` into `t'`; `ScrL ks ks'`: for every class `c`, `Scr (grp c ks) (grp c ks')`.
Main result: `group_scr : group fuel ks = .ok ks' → ScrL ks ks'`.
-/
namespace Sql

/-- a pure tree operation on the child list of a node -/
inductive POp where
  /-- `tlist.group_tokens(cls, start, stop, include_end, extend)` -/
  | group (cls : Cls) (start stop : Nat) (includeEnd extend : Bool)
  /-- `tlist[idx].ttype = tt` -/
  | setType (idx : Nat) (tt : TType)

def POp.run : POp → List Node → Except PyErr (List Node)
  | .group cls a b ie ext, ks => groupTokens ks cls a b ie ext
  | .setType idx tt, ks =>
    match ks[idx]? with
    | none => .error .indexError
    | some t => .ok (ks.set idx (t.setTType tt))

/-- apply `f` to the child list of the node at path `p` (child indexes from the root of `t`) -/
def Node.updAt (f : List Node → Except PyErr (List Node)) : List Nat → Node → Except PyErr Node
  | [], .grp c ks =>
    match f ks with
    | .ok ks' => .ok (.grp c ks')
    | .error e => .error e
  | [], .tok .. => .error .attributeError
  | i :: p, .grp c ks =>
    match ks[i]? with
    | none => .error .indexError
    | some k =>
      match Node.updAt f p k with
      | .ok k' => .ok (.grp c (ks.set i k'))
      | .error e => .error e
  | _ :: _, .tok .. => .error .attributeError

/-- fold the operations over a tree, each at its path -/
def runPure : Node → List (List Nat × POp) → Except PyErr Node
  | t, [] => .ok t
  | t, (p, op) :: rest =>
    match Node.updAt op.run p t with
    | .ok t' => runPure t' rest
    | .error e => .error e

theorem runPure_append : ∀ (a b : List (List Nat × POp)) (t t1 t2 : Node), runPure t a = .ok t1 → runPure t1 b = .ok t2 →
    runPure t (a ++ b) = .ok t2
  | [], b, t, t1, t2, h1, h2 => by
    simp only [runPure] at h1
    injection h1 with h1
    subst h1
    exact h2
  | (p, op) :: a, b, t, t1, t2, h1, h2 => by
    simp only [runPure, List.cons_append] at h1 ⊢
    cases hu : Node.updAt op.run p t with
    | error e => rw [hu] at h1; cases h1
    | ok t' =>
      rw [hu] at h1
      simp only at h1 ⊢
      exact runPure_append a b t' t1 t2 h1 h2

theorem set_self_of_getElem? {α : Type} (l : List α) (i : Nat) (x : α) (h : l[i]? = some x) : l.set i x = l := by
  apply List.ext_getElem?
  intro j
  rw [List.getElem?_set]
  by_cases hij : i = j
  · subst hij
    simp only [if_true, (List.getElem?_eq_some_iff.mp h).1, h]
  · simp only [hij, if_false]

/-- a script on the `i`-th child is a script on the parent (paths prefixed by `i`) -/
theorem runPure_lift (c : Cls) (i : Nat) : ∀ (pops : List (List Nat × POp)) (ks : List Node) (k k' : Node),
    ks[i]? = some k → runPure k pops = .ok k' →
    runPure (.grp c ks) (pops.map fun po => (i :: po.1, po.2)) = .ok (.grp c (ks.set i k'))
  | [], ks, k, k', hi, h => by
    simp only [runPure] at h
    injection h with h
    subst h
    simp only [List.map_nil, runPure, set_self_of_getElem? ks i k hi]
  | (p, op) :: pops, ks, k, k', hi, h => by
    simp only [runPure] at h
    cases hu : Node.updAt op.run p k with
    | error e => rw [hu] at h; cases h
    | ok k1 =>
      rw [hu] at h
      simp only at h
      have hi1 : (ks.set i k1)[i]? = some k1 := by
        rw [List.getElem?_set]
        simp only [if_true, (List.getElem?_eq_some_iff.mp hi).1]
      have := runPure_lift c i pops (ks.set i k1) k1 k' hi1 h
      simp only [List.map_cons, runPure, Node.updAt, hi, hu]
      rw [this, List.set_set]

/-! ## the relations -/

/-- some script turns `t` into `t'` -/
def Scr (t t' : Node) : Prop := ∃ pops, runPure t pops = .ok t'

/-- some script turns the children `ks` of a node (of any class) into `ks'` -/
def ScrL (ks ks' : List Node) : Prop := ∀ c, Scr (.grp c ks) (.grp c ks')

theorem Scr.refl (t : Node) : Scr t t := ⟨[], rfl⟩

theorem Scr.trans {a b c : Node} (h1 : Scr a b) (h2 : Scr b c) : Scr a c := by
  obtain ⟨p, hp⟩ := h1
  obtain ⟨q, hq⟩ := h2
  exact ⟨p ++ q, runPure_append p q a b c hp hq⟩

theorem ScrL.refl (ks : List Node) : ScrL ks ks := fun _ => Scr.refl _

theorem ScrL.trans {a b c : List Node} (h1 : ScrL a b) (h2 : ScrL b c) : ScrL a c := fun cl => (h1 cl).trans (h2 cl)

theorem ScrL.of_eq {a b : List Node} (h : a = b) : ScrL a b := h ▸ ScrL.refl a

/-- one operation on the children -/
theorem ScrL.single {ks ks' : List Node} (op : POp) (h : op.run ks = .ok ks') : ScrL ks ks' := by
  intro c
  refine ⟨[([], op)], ?_⟩
  simp only [runPure, Node.updAt, h]

theorem ScrL.of_groupTokens {ks ks' : List Node} {cls : Cls} {a b : Nat} {ie ext : Bool}
    (h : groupTokens ks cls a b ie ext = .ok ks') : ScrL ks ks' :=
  ScrL.single (.group cls a b ie ext) h

theorem ScrL.of_groupTokens' {ks : List Node} {r : List Node × Node} {cls : Cls} {a b : Nat} {ie ext : Bool}
    (h : groupTokens' ks cls a b ie ext = .ok r) : ScrL ks r.1 :=
  ScrL.of_groupTokens (cls := cls) (a := a) (b := b) (ie := ie) (ext := ext) (by simp only [groupTokens, h])

theorem set_append_cons {α : Type} (pre : List α) (k k' : α) (post : List α) :
    (pre ++ k :: post).set pre.length k' = pre ++ k' :: post := by
  induction pre with
  | nil => rfl
  | cons x pre ih => simp only [List.cons_append, List.length_cons, List.set_cons_succ, ih]

theorem getElem?_append_cons {α : Type} (pre : List α) (k : α) (post : List α) : (pre ++ k :: post)[pre.length]? = some k := by
  induction pre with
  | nil => rfl
  | cons x pre ih => simpa using ih

/-- a script on one child -/
theorem ScrL.child (pre : List Node) {k k' : Node} (post : List Node) (h : Scr k k') :
    ScrL (pre ++ k :: post) (pre ++ k' :: post) := by
  intro c
  obtain ⟨pops, hp⟩ := h
  refine ⟨pops.map fun po => (pre.length :: po.1, po.2), ?_⟩
  rw [runPure_lift c pre.length pops _ k k' (getElem?_append_cons pre k post) hp, set_append_cons]

/-! ## recursion into the children -/

/-- the type of "`f` on the children of a node is a script" -/
def KidsScr (f : Cls → List Node → Except PyErr (List Node)) : Prop :=
  ∀ c ks ks', f c ks = .ok ks' → ScrL ks ks'

def PassScr (p : Pass) : Prop := ∀ fuel, KidsScr (p fuel)

theorem mapGroups_scr {elig : Node → Bool} {f : Cls → List Node → Except PyErr (List Node)} (hf : KidsScr f) :
    ∀ (ks pre ks' : List Node), mapGroups elig f ks = .ok ks' → ScrL (pre ++ ks) (pre ++ ks') := by
  intro ks
  induction ks with
  | nil =>
    intro pre ks' h
    simp only [mapGroups] at h
    injection h with h
    subst h
    exact ScrL.refl _
  | cons k rest ih =>
    intro pre ks' h
    cases k with
    | tok tt v =>
      simp only [mapGroups] at h
      split at h
      · cases h
      · rename_i rest' hr
        injection h with h
        subst h
        have := ih (pre ++ [Node.tok tt v]) rest' hr
        simpa using this
    | grp c kids =>
      simp only [mapGroups] at h
      split at h
      · split at h
        · cases h
        · rename_i kids' hk
          split at h
          · cases h
          · rename_i rest' hr
            injection h with h
            subst h
            have h1 : ScrL (pre ++ Node.grp c kids :: rest) (pre ++ Node.grp c kids' :: rest) :=
              ScrL.child pre rest (hf c kids kids' hk c)
            have h2 := ih (pre ++ [Node.grp c kids']) rest' hr
            exact h1.trans (by simpa using h2)
      · split at h
        · cases h
        · rename_i rest' hr
          injection h with h
          subst h
          have := ih (pre ++ [Node.grp c kids]) rest' hr
          simpa using this

theorem mapGroupsWhere_scr {f : Cls → List Node → Except PyErr (List Node)} (hf : KidsScr f) :
    ∀ (ks : List Node) (bs : List Bool) (pre ks' : List Node), mapGroupsWhere f bs ks = .ok ks' → ScrL (pre ++ ks) (pre ++ ks') := by
  intro ks
  induction ks with
  | nil =>
    intro bs pre ks' h
    simp only [mapGroupsWhere] at h
    injection h with h
    subst h
    exact ScrL.refl _
  | cons k rest ih =>
    intro bs pre ks' h
    cases bs with
    | nil =>
      simp only [mapGroupsWhere] at h
      injection h with h
      subst h
      exact ScrL.refl _
    | cons b bs =>
      cases k with
      | tok tt v =>
        simp only [mapGroupsWhere] at h
        split at h
        · cases h
        · rename_i rest' hr
          injection h with h
          subst h
          have := ih bs (pre ++ [Node.tok tt v]) rest' hr
          simpa using this
      | grp c kids =>
        simp only [mapGroupsWhere] at h
        split at h
        · split at h
          · cases h
          · rename_i kids' hk
            split at h
            · cases h
            · rename_i rest' hr
              injection h with h
              subst h
              have h1 : ScrL (pre ++ Node.grp c kids :: rest) (pre ++ Node.grp c kids' :: rest) :=
                ScrL.child pre rest (hf c kids kids' hk c)
              have h2 := ih bs (pre ++ [Node.grp c kids']) rest' hr
              exact h1.trans (by simpa using h2)
        · split at h
          · cases h
          · rename_i rest' hr
            injection h with h
            subst h
            have := ih bs (pre ++ [Node.grp c kids]) rest' hr
            simpa using this

theorem recursePass_scr {skip : List Cls} {f : Cls → List Node → Except PyErr (List Node)} (hf : KidsScr f) :
    PassScr (recursePass skip f) := by
  intro fuel
  induction fuel with
  | zero => intro c ks ks' h; simp [recursePass] at h
  | succ fuel ih =>
    intro c ks ks' h
    simp only [recursePass] at h
    split at h
    · cases h
    · rename_i ks1 hm
      have h1 := mapGroups_scr ih ks [] ks1 hm
      exact (by simpa using h1 : ScrL ks ks1).trans (hf c ks1 ks' h)

/-! ## `_group_matching` -/

theorem matchStep_scr {u : Text → Text} {cls : Cls} {mo mc : List MPat} {st st' : MatchSt} {idx : Nat} {token : Node}
    (h : matchStep u cls mo mc st idx token = .ok st') : ScrL st.cur st'.cur := by
  unfold matchStep at h
  simp only at h
  repeat' split at h
  all_goals first
    | (cases h; exact ScrL.refl _)
    | (cases h; done)
    | (injection h with h; subst h; exact ScrL.of_groupTokens (by assumption))

theorem matchLoop_scr {u : Text → Text} {cls : Cls} {mo mc : List MPat} :
    ∀ (snap : List Node) (idx : Nat) (st st' : MatchSt), matchLoop u cls mo mc snap idx st = .ok st' → ScrL st.cur st'.cur := by
  intro snap
  induction snap with
  | nil => intro idx st st' h; simp only [matchLoop] at h; injection h with h; subst h; exact ScrL.refl _
  | cons t snap ih =>
    intro idx st st' h
    simp only [matchLoop] at h
    split at h
    · cases h
    · rename_i st1 hs
      exact (matchStep_scr hs).trans (ih _ _ _ h)

theorem groupMatching_scr {u : Text → Text} {cls : Cls} {mo mc : List MPat} :
    ∀ (fuel : Nat) (ks ks' : List Node), groupMatching u cls mo mc fuel ks = .ok ks' → ScrL ks ks' := by
  intro fuel
  induction fuel with
  | zero => intro ks ks' h; simp [groupMatching] at h
  | succ fuel ih =>
    intro ks ks' h
    simp only [groupMatching] at h
    split at h
    · cases h
    · rename_i ks1 hm
      split at h
      · cases h
      · rename_i st hl
        injection h with h
        subst h
        have h1 := mapGroups_scr (f := fun _ kids => groupMatching u cls mo mc fuel kids) (fun _ kk kk' hk => ih kk kk' hk) ks [] ks1 hm
        exact (by simpa using h1 : ScrL ks ks1).trans (matchLoop_scr _ _ _ _ hl)

/-! ## `_group` -/

/-- `post` is a script (the list is returned unchanged, or one `ttype` is assigned) -/
def PostScr (cfg : DrvCfg) : Prop := ∀ cur p t n r, cfg.post cur p t n = .ok r → ScrL cur r.1

theorem drvStep_scr {cfg : DrvCfg} (hp : PostScr cfg) {st st' : DrvSt} {idx : Nat} {token : Node}
    (h : drvStep cfg st idx token = .ok st') : ScrL st.cur st'.cur := by
  unfold drvStep at h
  simp only at h
  split at h
  · cases h; exact ScrL.refl _
  · split at h
    · cases h; exact ScrL.refl _
    · split at h
      · split at h
        · cases h; exact ScrL.refl _
        · split at h
          · split at h
            · cases h
            · rename_i cur1 fromIdx toIdx hpost
              split at h
              · cases h
              · rename_i cur2 grp hg
                injection h with h
                subst h
                exact (hp _ _ _ _ _ hpost).trans (ScrL.of_groupTokens' hg)
          · cases h; exact ScrL.refl _
      · cases h; exact ScrL.refl _

theorem drvLoop_scr {cfg : DrvCfg} (hp : PostScr cfg) :
    ∀ (snap : List Node) (idx : Nat) (st st' : DrvSt), drvLoop cfg snap idx st = .ok st' → ScrL st.cur st'.cur := by
  intro snap
  induction snap with
  | nil => intro idx st st' h; simp only [drvLoop] at h; injection h with h; subst h; exact ScrL.refl _
  | cons t snap ih =>
    intro idx st st' h
    simp only [drvLoop] at h
    split at h
    · cases h
    · rename_i st1 hs
      exact (drvStep_scr hp hs).trans (ih _ _ _ h)

theorem groupDriver_scr {cfg : DrvCfg} (hp : PostScr cfg) :
    ∀ (fuel : Nat) (rec : Bool) (ks ks' : List Node), groupDriver { cfg with recurse := rec } fuel ks = .ok ks' → ScrL ks ks' := by
  intro fuel
  induction fuel with
  | zero => intro rec ks ks' h; simp [groupDriver] at h
  | succ fuel ih =>
    intro rec ks ks' h
    have hp' : ∀ b, PostScr { cfg with recurse := b } := fun _ => hp
    simp only [groupDriver] at h
    split at h
    · split at h
      · cases h
      · rename_i dry hd
        split at h
        · cases h
        · rename_i ks1 hm
          split at h
          · cases h
          · rename_i st hl
            injection h with h
            subst h
            have h1 := mapGroupsWhere_scr
              (f := fun _ kids => groupDriver { cfg with recurse := true } fuel kids)
              (fun _ kk kk' hk => ih true kk kk' hk) ks _ [] ks1 hm
            exact (by simpa using h1 : ScrL ks ks1).trans (drvLoop_scr (hp' rec) _ _ _ _ hl)
    · split at h
      · cases h
      · rename_i st hl
        injection h with h
        subst h
        exact drvLoop_scr (hp' rec) _ _ _ _ hl

theorem driverPass_scr {cfg : DrvCfg} (hp : PostScr cfg) : PassScr (driverPass cfg) := by
  intro fuel c ks ks' h
  exact groupDriver_scr hp fuel cfg.recurse ks ks' h

/-! ### the `post` functions -/

theorem postPrevNext_scr : ∀ cur p t n r, postPrevNext cur p t n = .ok r → ScrL cur r.1 := by
  intro cur p t n r h
  unfold postPrevNext at h
  split at h
  · cases h
  · injection h with h; subst h; exact ScrL.refl _

theorem postTokNext_scr : ∀ cur p t n r, postTokNext cur p t n = .ok r → ScrL cur r.1 := by
  intro cur p t n r h
  unfold postTokNext at h
  split at h
  · cases h
  · injection h with h; subst h; exact ScrL.refl _

theorem postPrevTok_scr : ∀ cur p t n r, postPrevTok cur p t n = .ok r → ScrL cur r.1 := by
  intro cur p t n r h
  unfold postPrevTok at h
  injection h with h; subst h; exact ScrL.refl _

theorem postPeriod_scr (u : Text → Text) : ∀ cur p t n r, postPeriod u cur p t n = .ok r → ScrL cur r.1 := by
  intro cur p t n r h
  unfold postPeriod at h
  repeat' split at h
  all_goals first
    | (cases h; done)
    | (injection h with h; subst h; exact ScrL.refl _)

theorem postAssignment_scr (u : Text → Text) : ∀ cur p t n r, postAssignment u cur p t n = .ok r → ScrL cur r.1 := by
  intro cur p t n r h
  unfold postAssignment at h
  repeat' split at h
  all_goals first
    | (cases h; done)
    | (injection h with h; subst h; exact ScrL.refl _)

theorem postOperator_scr : ∀ cur p t n r, postOperator cur p t n = .ok r → ScrL cur r.1 := by
  intro cur p t n r h
  unfold postOperator at h
  split at h
  · cases h
  · rename_i tk htk
    split at h
    · cases h
    · injection h with h
      subst h
      exact ScrL.single (.setType t Gen.group_operator_ttype_set0) (by simp only [POp.run, htk])

/-! ## the loops -/

section loops
variable {u : Text → Text}

/-- closes the goals left after splitting a loop body: errors, the end of the loop, and iterations with or without a call -/
macro "loop_close" ih:ident : tactic => `(tactic| (
  all_goals first
    | (cases ‹Except.error _ = Except.ok _›; done)
    | (rename_i h; cases h; done)
    | exact (ScrL.of_groupTokens (by assumption)).trans ($ih _ _ _ (by assumption))
    | exact $ih _ _ _ (by assumption)))

theorem identifierLoop_scr : ∀ (n : Nat) (ks : List Node) (pend : Option (Nat × Node)) (ks' : List Node),
    identifierLoop u n ks pend = .ok ks' → ScrL ks ks' := by
  intro n
  induction n with
  | zero =>
    intro ks pend ks' h
    cases pend with
    | none => simp only [identifierLoop] at h; injection h with h; subst h; exact ScrL.refl _
    | some p => simp [identifierLoop] at h
  | succ n ih =>
    intro ks pend ks' h
    cases pend with
    | none => simp only [identifierLoop] at h; injection h with h; subst h; exact ScrL.refl _
    | some p =>
      obtain ⟨tidx, tok⟩ := p
      simp only [identifierLoop] at h
      split at h
      · cases h
      · rename_i ks1 hg
        exact (ScrL.of_groupTokens hg).trans (ih _ _ _ h)

theorem overLoop_scr : ∀ (n : Nat) (ks : List Node) (pend : Option (Nat × Node)) (ks' : List Node),
    overLoop u n ks pend = .ok ks' → ScrL ks ks' := by
  intro n
  induction n with
  | zero =>
    intro ks pend ks' h
    cases pend with
    | none => simp only [overLoop] at h; injection h with h; subst h; exact ScrL.refl _
    | some p => simp [overLoop] at h
  | succ n ih =>
    intro ks pend ks' h
    cases pend with
    | none => simp only [overLoop] at h; injection h with h; subst h; exact ScrL.refl _
    | some p =>
      obtain ⟨tidx, tok⟩ := p
      simp only [overLoop] at h
      split at h
      · split at h
        · split at h
          · cases h
          · rename_i ks1 hg
            exact (ScrL.of_groupTokens hg).trans (ih _ _ _ h)
        · exact ih _ _ _ h
      · exact ih _ _ _ h

theorem commentsLoop_scr : ∀ (n : Nat) (ks : List Node) (pend : Option (Nat × Node)) (ks' : List Node),
    commentsLoop u n ks pend = .ok ks' → ScrL ks ks' := by
  intro n
  induction n with
  | zero =>
    intro ks pend ks' h
    cases pend with
    | none => simp only [commentsLoop] at h; injection h with h; subst h; exact ScrL.refl _
    | some p => simp [commentsLoop] at h
  | succ n ih =>
    intro ks pend ks' h
    cases pend with
    | none => simp only [commentsLoop] at h; injection h with h; subst h; exact ScrL.refl _
    | some p =>
      obtain ⟨tidx, tok⟩ := p
      simp only [commentsLoop] at h
      split at h
      · exact ih _ _ _ h
      · split at h
        · cases h
        · split at h
          · cases h
          · rename_i ks1 hg
            exact (ScrL.of_groupTokens hg).trans (ih _ _ _ h)

theorem whereLoop_scr {c : Cls} : ∀ (n : Nat) (ks : List Node) (pend : Option (Nat × Node)) (ks' : List Node),
    whereLoop u c n ks pend = .ok ks' → ScrL ks ks' := by
  intro n
  induction n with
  | zero =>
    intro ks pend ks' h
    cases pend with
    | none => simp only [whereLoop] at h; injection h with h; subst h; exact ScrL.refl _
    | some p => simp [whereLoop] at h
  | succ n ih =>
    intro ks pend ks' h
    cases pend with
    | none => simp only [whereLoop] at h; injection h with h; subst h; exact ScrL.refl _
    | some p =>
      obtain ⟨tidx, tok⟩ := p
      simp only [whereLoop] at h
      split at h
      · cases h
      · split at h
        · cases h
        · rename_i ks1 hg
          exact (ScrL.of_groupTokens hg).trans (ih _ _ _ h)

theorem aliasedLoop_scr : ∀ (n : Nat) (ks : List Node) (pend : Option (Nat × Node)) (ks' : List Node),
    aliasedLoop u n ks pend = .ok ks' → ScrL ks ks' := by
  intro n
  induction n with
  | zero =>
    intro ks pend ks' h
    cases pend with
    | none => simp only [aliasedLoop] at h; injection h with h; subst h; exact ScrL.refl _
    | some p => simp [aliasedLoop] at h
  | succ n ih =>
    intro ks pend ks' h
    cases pend with
    | none => simp only [aliasedLoop] at h; injection h with h; subst h; exact ScrL.refl _
    | some p =>
      obtain ⟨tidx, tok⟩ := p
      simp only [aliasedLoop] at h
      split at h
      · split at h
        · split at h
          · cases h
          · rename_i ks1 hg
            exact (ScrL.of_groupTokens hg).trans (ih _ _ _ h)
        · exact ih _ _ _ h
      · exact ih _ _ _ h

theorem functionsLoop_scr : ∀ (n : Nat) (ks : List Node) (pend : Option (Nat × Node)) (ks' : List Node),
    functionsLoop u n ks pend = .ok ks' → ScrL ks ks' := by
  intro n
  induction n with
  | zero =>
    intro ks pend ks' h
    cases pend with
    | none => simp only [functionsLoop] at h; injection h with h; subst h; exact ScrL.refl _
    | some p => simp [functionsLoop] at h
  | succ n ih =>
    intro ks pend ks' h
    cases pend with
    | none => simp only [functionsLoop] at h; injection h with h; subst h; exact ScrL.refl _
    | some p =>
      obtain ⟨tidx, tok⟩ := p
      simp only [functionsLoop] at h
      split at h
      · split at h
        · split at h
          · cases h
          · rename_i ks1 hg
            exact (ScrL.of_groupTokens hg).trans (ih _ _ _ h)
        · exact ih _ _ _ h
      · exact ih _ _ _ h

theorem orderLoop_scr : ∀ (n : Nat) (ks : List Node) (pend : Option (Nat × Node)) (ks' : List Node),
    orderLoop u n ks pend = .ok ks' → ScrL ks ks' := by
  intro n
  induction n with
  | zero =>
    intro ks pend ks' h
    cases pend with
    | none => simp only [orderLoop] at h; injection h with h; subst h; exact ScrL.refl _
    | some p => simp [orderLoop] at h
  | succ n ih =>
    intro ks pend ks' h
    cases pend with
    | none => simp only [orderLoop] at h; injection h with h; subst h; exact ScrL.refl _
    | some p =>
      obtain ⟨tidx, tok⟩ := p
      simp only [orderLoop] at h
      split at h
      · split at h
        · split at h
          · cases h
          · rename_i ks1 hg
            exact (ScrL.of_groupTokens hg).trans (ih _ _ _ h)
        · exact ih _ _ _ h
      · exact ih _ _ _ h

theorem alignLoop_scr : ∀ (n : Nat) (ks : List Node) (pend : Option (Nat × Node)) (ks' : List Node),
    alignLoop u n ks pend = .ok ks' → ScrL ks ks' := by
  intro n
  induction n with
  | zero =>
    intro ks pend ks' h
    cases pend with
    | none => simp only [alignLoop] at h; injection h with h; subst h; exact ScrL.refl _
    | some p => simp [alignLoop] at h
  | succ n ih =>
    intro ks pend ks' h
    cases pend with
    | none => simp only [alignLoop] at h; injection h with h; subst h; exact ScrL.refl _
    | some p =>
      obtain ⟨tidx, tok⟩ := p
      simp only [alignLoop] at h
      split at h
      · split at h
        · split at h
          · cases h
          · rename_i ks1 hg
            exact (ScrL.of_groupTokens hg).trans (ih _ _ _ h)
        · exact ih _ _ _ h
      · exact ih _ _ _ h

theorem groupValuesBody_scr : KidsScr (groupValuesBody u) := by
  intro c ks ks' h
  unfold groupValuesBody at h
  split at h
  · injection h with h; subst h; exact ScrL.refl _
  · split at h
    · cases h
    · injection h with h; subst h; exact ScrL.refl _
    · exact ScrL.of_groupTokens h

theorem groupFunctionsBody_scr : KidsScr (groupFunctionsBody u) := by
  intro c ks ks' h
  unfold groupFunctionsBody at h
  split at h
  · injection h with h; subst h; exact ScrL.refl _
  · exact functionsLoop_scr _ _ _ _ h

end loops

/-! ## all passes -/

theorem unknownPass_scr : PassScr unknownPass := by
  intro fuel c ks ks' h
  simp [unknownPass] at h

theorem matchingPassOf_scr (u : Text → Text) (c : Cls) : PassScr (matchingPassOf u c) := by
  intro fuel
  cases c <;> first
    | exact unknownPass_scr fuel
    | exact fun _ ks ks' h => groupMatching_scr fuel ks ks' h

theorem adHocPass_scr (skip : Option (List Cls)) {body} (hb : KidsScr body) : PassScr (adHocPass skip body) := by
  unfold adHocPass
  split
  · exact recursePass_scr hb
  · exact fun _ => hb

theorem typedLiteralPass_scr (u : Text → Text) : PassScr (typedLiteralPass u) := by
  intro fuel c ks ks' h
  unfold typedLiteralPass at h
  split at h
  · cases h
  · rename_i ks1 h1
    exact (driverPass_scr (cfg := cfgTypedLiteral0 u) postTokNext_scr fuel c ks ks1 h1).trans
      (driverPass_scr (cfg := cfgTypedLiteral1 u) postTokNext_scr fuel c ks1 ks' h)

theorem PassScr.ite {c : Prop} [Decidable c] {a b : Pass} (ha : PassScr a) (hb : PassScr b) :
    PassScr (if c then a else b) := by
  by_cases h : c
  · rw [if_pos h]; exact ha
  · rw [if_neg h]; exact hb

theorem passByName_scr (u : Text → Text) (name : String) : PassScr (passByName u name) := by
  unfold passByName
  repeat' apply PassScr.ite
  all_goals first
    | exact unknownPass_scr
    | exact matchingPassOf_scr _ _
    | exact typedLiteralPass_scr _
    | exact adHocPass_scr _ (fun _ _ _ h => commentsLoop_scr _ _ _ _ h)
    | exact adHocPass_scr _ (fun _ _ _ h => overLoop_scr _ _ _ _ h)
    | exact adHocPass_scr _ groupFunctionsBody_scr
    | exact adHocPass_scr _ (fun _ _ _ h => whereLoop_scr _ _ _ _ h)
    | exact adHocPass_scr _ (fun _ _ _ h => identifierLoop_scr _ _ _ _ h)
    | exact adHocPass_scr _ (fun _ _ _ h => orderLoop_scr _ _ _ _ h)
    | exact adHocPass_scr _ (fun _ _ _ h => aliasedLoop_scr _ _ _ _ h)
    | exact adHocPass_scr _ (fun _ _ _ h => alignLoop_scr _ _ _ _ h)
    | exact adHocPass_scr _ groupValuesBody_scr
    | exact driverPass_scr (cfg := cfgPeriod u) (postPeriod_scr u)
    | exact driverPass_scr (cfg := cfgArrays u) postPrevTok_scr
    | exact driverPass_scr (cfg := cfgTypecasts u) postPrevNext_scr
    | exact driverPass_scr (cfg := cfgTzcasts u) postPrevNext_scr
    | exact driverPass_scr (cfg := cfgOperator u) postOperator_scr
    | exact driverPass_scr (cfg := cfgComparison u) postPrevNext_scr
    | exact driverPass_scr (cfg := cfgAs u) postPrevNext_scr
    | exact driverPass_scr (cfg := cfgAssignment u) (postAssignment_scr u)
    | exact driverPass_scr (cfg := cfgIdentifierList u) postPrevNext_scr

theorem runPasses_scr (u : Text → Text) (fuel : Nat) (c : Cls) :
    ∀ (ps : List String) (ks ks' : List Node), runPasses u fuel c ps ks = .ok ks' → ScrL ks ks' := by
  intro ps
  induction ps with
  | nil => intro ks ks' h; simp only [runPasses] at h; injection h with h; subst h; exact ScrL.refl _
  | cons p ps ih =>
    intro ks ks' h
    simp only [runPasses] at h
    split at h
    · cases h
    · rename_i ks1 h1
      exact (passByName_scr u p fuel c ks ks1 h1).trans (ih ks1 ks' h)

/-- **`grouping.group` is a script** of `group_tokens` calls and `ttype` assignments at paths of the tree -/
theorem groupWith_scr {u : Text → Text} {fuel : Nat} {ks ks' : List Node} (h : groupWith u fuel ks = .ok ks') : ScrL ks ks' :=
  runPasses_scr u fuel .Statement _ ks ks' h

theorem group_scr {fuel : Nat} {ks ks' : List Node} (h : group fuel ks = .ok ks') : ScrL ks ks' := groupWith_scr h

theorem groupStatement_scr {fuel : Nat} {st : List Tok} {tree : Node} (h : groupStatement fuel st = .ok tree) :
    Scr (.grp .Statement (st.map fun t => Node.tok t.tt t.val)) tree := by
  unfold groupStatement at h
  cases hg : group fuel (st.map fun t => Node.tok t.tt t.val) with
  | error e => simp [hg] at h
  | ok ks =>
    simp only [hg, Except.ok.injEq] at h
    subst h
    exact group_scr hg .Statement

end Sql
