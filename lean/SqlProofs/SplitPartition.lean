import SqlModel.Splitter
/-!
# SqlProofs.SplitPartition — the splitter only cuts: every token ends up in exactly one statement, in order;
only a trailing all-whitespace statement is dropped; no yielded statement is empty.
-/
namespace Sql

/-- invariant: yielded statements are non-empty, and `consume_ws` is only set while tokens are pending -/
def SplitInv (st : SplitState) : Prop :=
  (∀ s ∈ st.done, s ≠ []) ∧ (st.consumeWs = true → st.cur ≠ [])

theorem splitYield_spec (cfg : SplitCfg) (st : SplitState) (t : Tok) (hinv : SplitInv st) :
    (splitYield cfg st t).done.flatten ++ (splitYield cfg st t).cur = st.done.flatten ++ st.cur ∧
    (∀ s ∈ (splitYield cfg st t).done, s ≠ []) := by
  unfold splitYield
  split
  · rename_i hc
    simp only [Bool.and_eq_true] at hc
    refine ⟨by simp, ?_⟩
    intro s hs
    simp only [List.mem_append, List.mem_singleton] at hs
    rcases hs with hs | rfl
    · exact hinv.1 s hs
    · exact hinv.2 hc.1
  · exact ⟨rfl, hinv.1⟩

theorem splitAdvance_spec (cfg : SplitCfg) (st1 st' : SplitState) (t : Tok)
    (h : splitAdvance cfg st1 t = .ok st') :
    st'.done = st1.done ∧ st'.cur = st1.cur ++ [t] := by
  unfold splitAdvance at h
  simp only at h
  split at h
  · injection h with h; subst h; exact ⟨rfl, rfl⟩
  · split at h
    · split at h
      · exact absurd h (by simp)
      · injection h with h
        subst h
        split <;> exact ⟨rfl, rfl⟩
    · injection h with h; subst h; exact ⟨rfl, rfl⟩

theorem splitStep_spec (cfg : SplitCfg) (st st' : SplitState) (t : Tok) (hinv : SplitInv st)
    (h : splitStep cfg st t = .ok st') :
    st'.done.flatten ++ st'.cur = st.done.flatten ++ st.cur ++ [t] ∧ SplitInv st' := by
  unfold splitStep at h
  obtain ⟨y1, y2⟩ := splitYield_spec cfg st t hinv
  obtain ⟨a1, a2⟩ := splitAdvance_spec cfg _ st' t h
  refine ⟨?_, ?_, ?_⟩
  · rw [a1, a2, ← List.append_assoc, y1]
  · rw [a1]; exact y2
  · intro _; rw [a2]; simp

theorem splitRun_spec (cfg : SplitCfg) : ∀ (ts : List Tok) (st st' : SplitState), SplitInv st →
    splitRun cfg st ts = .ok st' →
    st'.done.flatten ++ st'.cur = st.done.flatten ++ st.cur ++ ts ∧ SplitInv st' := by
  intro ts
  induction ts with
  | nil => intro st st' hinv h; simp [splitRun] at h; subst h; simp [hinv]
  | cons t ts ih =>
    intro st st' hinv h
    simp only [splitRun] at h
    split at h
    · rename_i st1 hst1
      obtain ⟨e1, inv1⟩ := splitStep_spec cfg st st1 t hinv hst1
      obtain ⟨e2, inv2⟩ := ih st1 st' inv1 h
      refine ⟨?_, inv2⟩
      rw [e2, e1]; simp
    · exact absurd h (by simp)

/-- **partition**: the statements, concatenated, are the input tokens up to a dropped all-whitespace tail;
every statement is non-empty. -/
theorem splitProcess_partition (cfg : SplitCfg) (ts : List Tok) (sts : List (List Tok))
    (h : splitProcess cfg ts = .ok sts) :
    ∃ tail, sts.flatten ++ tail = ts ∧ tail.all Tok.isWhitespace = true ∧ ∀ s ∈ sts, s ≠ [] := by
  unfold splitProcess at h
  split at h
  · exact absurd h (by simp)
  · rename_i st hst
    have hinv0 : SplitInv ({} : SplitState) := by
      refine ⟨?_, ?_⟩
      · intro s hs; exact absurd hs (by simp)
      · intro h; exact absurd h (by simp)
    obtain ⟨e, inv⟩ := splitRun_spec cfg ts {} st hinv0 hst
    have e' : st.done.flatten ++ st.cur = ts := by
      have : ({} : SplitState).done.flatten ++ ({} : SplitState).cur ++ ts = ts := rfl
      rw [← this]; exact e
    split at h
    · rename_i hc
      injection h with h; subst h
      simp only [Bool.and_eq_true, Bool.not_eq_true', List.isEmpty_eq_false_iff] at hc
      refine ⟨[], by simpa using e', by simp, ?_⟩
      intro s hs
      simp only [List.mem_append, List.mem_singleton] at hs
      rcases hs with hs | rfl
      · exact inv.1 s hs
      · exact hc.1
    · rename_i hc
      injection h with h; subst h
      refine ⟨st.cur, e', ?_, inv.1⟩
      simp only [Bool.and_eq_true, Bool.not_eq_true', not_and, Bool.not_eq_false] at hc
      cases hcur : st.cur with
      | nil => simp
      | cons a as =>
        have : st.cur.isEmpty = false := by rw [hcur]; rfl
        have := hc (by simpa using this)
        rw [hcur] at this; exact this

end Sql
