import SqlProofs.ReindentLiftWhere
/-!
# SqlProofs.ReindentLift — C10, reindent clause, lifted to the whole tree

`ReindentBreaks` proves, list by list, that `_split_kwds` leaves every selected clause keyword directly behind an `nl()`
token, under a hypothesis about the list *on which `_split_kwds` runs*.  Here the statement is lifted through every
handler of `ReindentFilter` (`_process_where`, `_process_parenthesis`, `_process_function`, `_process_identifierlist`,
`_process_case`, `_process_values`, `_process_default`) and through the recursion, to the whole output tree of
`ReindentFilter.process`:

* `brkOK n'` (output side): in **every** group of the tree — except the sub-trees the filter never looks into — every child
  that `_next_token` selects (`split_words` search with the BETWEEN … AND exception) is directly preceded by an `nl()`
  token (a whitespace leaf whose value starts with `\n`; what follows the line break in it is indentation only), and in every
  Where group the `WHERE` keyword (not one of `split_words`; `ReindentLiftWhere.rWhere_pair`) directly follows one too.
* `liftOK n` (input side, decidable, independent of options and filter state): the side conditions the proof forces,
  group by group (`liftSide`):
  - every list: no selected keyword directly follows a child whose text ends in a line break (`noBreakBefore`, as in
    `ReindentBreaks`: exemptions (C) comment line in front of the keyword — the keyword starts a line anyway — and (D));
  - `Parenthesis` with a DML/DDL keyword inside: its first child is not a split keyword (the filter puts its own `nl()` in
    front of the first child *before* `_split_kwds` runs; with zero indentation that token is deleted and not replaced).
    In a parsed tree the first child is the `(` itself, so this never bites;
  - `IdentifierList`: no child is a split keyword.  The wrapping loops put `nl()` tokens in front of items — with
    `comma_first` in front of the token before an item — at positions that depend on the running offsets; at zero indentation
    (a list that starts the statement) `_split_kwds` deletes that token and puts nothing back.  Real code at the excluded
    point: `format('a, from t', reindent=True) == 'a, from t'`, `format('x, set y = 1', reindent=True) == 'x, set y = 1'`,
    `format('case when a then b else c end, from', reindent=True)` ends in `'end, from'` — a genuine violation of C10;
  - `Case`: formally, the children in front of which the WHEN/ELSE line breaks go are not split keywords (`caseTargetsOK`);
    `ReindentLiftCase.caseTargetsOK_true` proves that this always holds (they are the `WHEN`/`ELSE` keywords themselves), so
    the side condition of a Case group is just the list hypothesis (`liftSide_case`).
  `Where` needs nothing extra: the break goes in front of `WHERE`, which no split word matches (`rIsSplit_where`).
* exempt sub-trees (`rExempt`, read off the node itself): `Values` groups (never processed), a `Where` without a direct
  `WHERE` child and a `Parenthesis` without a direct `(` child (both return early, children included).

Main theorems: `rProcess_lift` (any node, any ancestors/state/fuel), `reindent_statement_lift` (`ReindentFilter.process` on a
statement, with the statement separator in front), `ReindentLiftCase.reindent_statement_lift_safe` (on `FilterSafe.reindent`:
RecursionError or such a tree).  Per handler: `rDefault_lift`, `rFunction_lift`, `rWhere_lift` + `rWhere_pair`,
`rParenthesis_lift`, `rIdentifierList_lift`, `rCase_lift`, `rDispatch_lift`.

Not proved: the weak form (a comment line in front of a clause keyword, `noWsBreakBefore` → `lineBreakBefore`) for the whole
tree — the recursion does not keep "the text of this child ends in a line break" (appended blanks/`nl()`s in `Values` and with
`comma_first`), so `rDefault_breaks`' transfer through the children does not go through for it.

`tools/validate_reindent_lift.py` evaluates `liftOK` / `brkOK` (these very definitions, `tools/lift_eval.lean`) on the real
filter's input and output trees: liftOK ⇒ brkOK on every sampled statement.
-/
set_option linter.unusedSimpArgs false
set_option linter.unusedVariables false
namespace Sql

/-! ## the two tree predicates -/

theorem brkOKL_iff : ∀ (l : List FNode), brkOKL l = true ↔ ∀ k ∈ l, brkOK k = true
  | [] => by simp [brkOKL]
  | k :: r => by simp [brkOKL, brkOKL_iff r]

theorem liftOKL_iff : ∀ (l : List FNode), liftOKL l = true ↔ ∀ k ∈ l, liftOK k = true
  | [] => by simp [liftOKL]
  | k :: r => by simp [liftOKL, liftOKL_iff r]

theorem brkOK_ws (tt : TType) (v : Text) : brkOK (.tok tt v) = true := by simp [brkOK]
theorem liftOK_ws (tt : TType) (v : Text) : liftOK (.tok tt v) = true := by simp [liftOK]

/-! ## membership: the list operations only add whitespace tokens and drop children -/

theorem rl_mem_insertAt {α : Type} (l : List α) (i : Nat) (x y : α) (h : y ∈ insertAt l i x) : y = x ∨ y ∈ l := by
  unfold insertAt at h
  rw [List.mem_append, List.mem_cons] at h
  rcases h with h | h | h
  · exact Or.inr (List.mem_of_mem_take h)
  · exact Or.inl h
  · exact Or.inr (List.mem_of_mem_drop h)

theorem all_insertAt {α : Type} (Q : α → Prop) (l : List α) (i : Nat) (x : α) (hx : Q x) (hl : ∀ y ∈ l, Q y) :
    ∀ y ∈ insertAt l i x, Q y := by
  intro y hy
  rcases rl_mem_insertAt l i x y hy with rfl | h
  · exact hx
  · exact hl y h

theorem all_insertAfterIdx {α : Type} (Q : α → Prop) (isWs : α → Bool) (l : List α) (i : Nat) (x : α) (hx : Q x)
    (hl : ∀ y ∈ l, Q y) : ∀ y ∈ insertAfterIdx isWs l i x, Q y := by
  unfold insertAfterIdx
  split
  · exact all_insertAt Q l _ x hx hl
  · intro y hy
    rw [List.mem_append, List.mem_singleton] at hy
    rcases hy with h | rfl
    · exact hl y h
    · exact hx

theorem rSplitStatementsGo_all (Q : FNode → Prop) (nl : FNode) (hnl : Q nl) :
    ∀ (rest done : List FNode), (∀ x ∈ done, Q x) → (∀ x ∈ rest, Q x) → ∀ x ∈ rSplitStatementsGo nl done rest, Q x
  | [], done, hd, _ => by
    intro x hx
    simp only [rSplitStatementsGo, List.mem_reverse] at hx
    exact hd x hx
  | k :: rest, done, hd, hr => by
    have hk : Q k := hr k (List.mem_cons_self ..)
    have hr' : ∀ x ∈ rest, Q x := fun x hx => hr x (List.mem_cons_of_mem _ hx)
    unfold rSplitStatementsGo
    split
    · cases done with
      | nil =>
        simp only
        exact rSplitStatementsGo_all Q nl hnl rest [k] (by intro x hx; simp at hx; rw [hx]; exact hk) hr'
      | cons p done' =>
        simp only
        apply rSplitStatementsGo_all Q nl hnl rest _ _ hr'
        intro x hx
        simp only [List.mem_cons] at hx
        rcases hx with rfl | rfl | hx
        · exact hk
        · exact hnl
        · split at hx
          · exact hd x (List.mem_cons_of_mem _ hx)
          · exact hd x hx
    · apply rSplitStatementsGo_all Q nl hnl rest (k :: done) _ hr'
      intro x hx
      simp only [List.mem_cons] at hx
      rcases hx with rfl | hx
      · exact hk
      · exact hd x hx

theorem rEmitKwd_all (Q : FNode → Prop) (nl : FNode) (hnl : Q nl) (done : List FNode) (k : FNode) (hd : ∀ x ∈ done, Q x)
    (hk : Q k) : ∀ x ∈ rEmitKwd nl done k, Q x := by
  unfold rEmitKwd
  cases done with
  | nil =>
    intro x hx
    simp only [List.mem_cons, List.mem_nil_iff, or_false] at hx
    rcases hx with rfl | rfl
    · exact hk
    · exact hnl
  | cons p done' =>
    simp only
    have hbase : ∀ x ∈ (if p.isWhitespace then done' else p :: done'), Q x := by
      intro x hx
      split at hx
      · exact hd x (List.mem_cons_of_mem _ hx)
      · exact hd x hx
    intro x hx
    split at hx
    · simp only [List.mem_cons] at hx
      rcases hx with rfl | hx
      · exact hk
      · exact hbase x hx
    · simp only [List.mem_cons] at hx
      rcases hx with rfl | rfl | hx
      · exact hk
      · exact hnl
      · exact hbase x hx

theorem splitKwdsGo_all (Q : FNode → Prop) (nl : FNode) (hnl : Q nl) :
    ∀ (rest : List FNode) (d : Nat) (done : List FNode), (∀ x ∈ done, Q x) → (∀ x ∈ rest, Q x) →
      ∀ x ∈ splitKwdsGo rIsSplit (rEmitKwd nl) d done rest, Q x
  | [], d, done, hd, _ => by
    intro x hx
    simp only [splitKwdsGo, List.mem_reverse] at hx
    exact hd x hx
  | k :: rest, d, done, hd, hr => by
    have hk : Q k := hr k (List.mem_cons_self ..)
    have hr' : ∀ x ∈ rest, Q x := fun x hx => hr x (List.mem_cons_of_mem _ hx)
    have hpush : ∀ x ∈ k :: done, Q x := by
      intro x hx
      simp only [List.mem_cons] at hx
      rcases hx with rfl | hx
      · exact hk
      · exact hd x hx
    rw [splitKwdsGo_step]
    split
    · exact splitKwdsGo_all Q nl hnl rest 0 _ (rEmitKwd_all Q nl hnl done k hd hk) hr'
    · exact splitKwdsGo_all Q nl hnl rest _ _ hpush hr'

theorem rSplitKwds_all (Q : FNode → Prop) (nl : FNode) (hnl : Q nl) (ks : List FNode) (h : ∀ x ∈ ks, Q x) :
    ∀ x ∈ rSplitKwds nl ks, Q x :=
  splitKwdsGo_all Q nl hnl ks 0 [] (by simp) h

/-! ## the recursion over the children -/

/-- what the handlers need to know about the recursive call -/
def RecLift (rec : RRec) : Prop := ∀ a p s n n' s', rec a p s n = .ok (n', s') → liftOK n = true → brkOK n' = true

theorem rMapKids_lift (rec : Text → RSt → FNode → Except PyErr (FNode × RSt))
    (hrec : ∀ p s n n' s', rec p s n = .ok (n', s') → liftOK n = true → brkOK n' = true) :
    ∀ (ks : List FNode) (pre : Text) (st : RSt) (ks' : List FNode) (st' : RSt),
      rMapKids rec pre st ks = .ok (ks', st') → (∀ k ∈ ks, liftOK k = true) → brkOKL ks' = true
  | [], pre, st, ks', st', h, _ => by
    simp only [rMapKids, Except.ok.injEq, Prod.mk.injEq] at h
    rw [← h.1]; rfl
  | k :: rest, pre, st, ks', st', h, hall => by
    unfold rMapKids at h
    cases hk : rec pre st k with
    | error e => rw [hk] at h; cases h
    | ok r =>
      obtain ⟨k', st1⟩ := r
      rw [hk] at h
      simp only at h
      cases hr : rMapKids rec (pre ++ k'.text) st1 rest with
      | error e => rw [hr] at h; cases h
      | ok r2 =>
        obtain ⟨rest', st2⟩ := r2
        rw [hr] at h
        simp only [Except.ok.injEq, Prod.mk.injEq] at h
        rw [← h.1]
        simp only [brkOKL, Bool.and_eq_true]
        exact ⟨hrec _ _ _ _ _ hk (hall k (List.mem_cons_self ..)),
          rMapKids_lift rec hrec rest _ _ _ _ hr (fun x hx => hall x (List.mem_cons_of_mem _ hx))⟩

/-- **`_process_default`, lifted.**  If the list satisfies the input hypothesis and all its children satisfy `liftOK`, the
returned list has every selected keyword behind an `nl()` token and all its children satisfy `brkOK`. -/
theorem rDefault_lift (cfg : RCfg) (rec : RRec) (hshape : RecShape rec) (hlift : RecLift rec) (anc : List Cls) (pre : Text)
    (st : RSt) (stmts : Bool) (ks ks' : List FNode) (st' : RSt) (h : rDefault cfg rec anc pre st stmts ks = .ok (ks', st'))
    (hin : selectedOK rIsSplit noBreakBefore 0 none ks = true) (hall : ∀ k ∈ ks, liftOK k = true) :
    selectedOK rIsSplit nlBefore 0 none ks' = true ∧ brkOKL ks' = true := by
  refine ⟨rDefault_breaks cfg rec hshape anc pre st stmts ks ks' st' h hin, ?_⟩
  unfold rDefault at h
  apply rMapKids_lift (rec anc) (fun p s n n' s' hh => hlift anc p s n n' s' hh) _ _ _ _ _ h
  have hnl : liftOK (rNl cfg st) = true := by simp [rNl, liftOK]
  apply rSplitKwds_all (fun k => liftOK k = true) _ hnl
  cases stmts with
  | false => exact hall
  | true => exact rSplitStatementsGo_all (fun k => liftOK k = true) _ hnl ks [] (by simp) hall

/-! ## keywords that no split word matches (`rIsSplit_where` is in `ReindentLiftWhere`) -/

theorem rIsSplit_when (k : FNode) (h : k.matchKw "WHEN" = true) : rIsSplit k = false := by
  obtain ⟨tt, v, rfl, hn⟩ := matchKw_norm k "WHEN" h
  have hu : pyUpper ("WHEN".toList.map Char.toNat) = "WHEN".toList.map Char.toNat := by decide +kernel
  rw [hu] at hn
  exact rIsSplit_of_norm tt v ("WHEN".toList.map Char.toNat) (by decide) hn

theorem rIsSplit_else (k : FNode) (h : k.matchKw "ELSE" = true) : rIsSplit k = false := by
  obtain ⟨tt, v, rfl, hn⟩ := matchKw_norm k "ELSE" h
  have hu : pyUpper ("ELSE".toList.map Char.toNat) = "ELSE".toList.map Char.toNat := by decide +kernel
  rw [hu] at hn
  exact rIsSplit_of_norm tt v ("ELSE".toList.map Char.toNat) (by decide) hn

/-! ## an `nl()` in front of a child that is not a split keyword keeps the input hypothesis -/

theorem selectedOK_nbb_insert (x : FNode) (hx : x.isWhitespace = true) : ∀ (l : List FNode) (i d : Nat) (prev : Option FNode),
    (∀ k, l[i]? = some k → rIsSplit k = false) →
    selectedOK rIsSplit noBreakBefore d prev l = true →
    selectedOK rIsSplit noBreakBefore d prev (insertAt l i x) = true
  | [], i, d, prev, _, _ => by
    have hxs := rIsSplit_ws x hx
    simp [insertAt, selectedOK, kwStep_nonsplit rIsSplit d x hxs]
  | k :: r, 0, d, prev, hk, h => by
    have hxs := rIsSplit_ws x hx
    have hks : rIsSplit k = false := hk k rfl
    simp only [selectedOK, kwStep_nonsplit rIsSplit d k hks, Bool.not_false, Bool.true_or, Bool.true_and] at h
    simp only [insertAt, List.take_zero, List.nil_append, List.drop_zero, selectedOK, kwStep_nonsplit rIsSplit d x hxs,
      kwStep_nonsplit rIsSplit d k hks, Bool.not_false, Bool.true_or, Bool.true_and]
    exact h
  | k :: r, i+1, d, prev, hk, h => by
    simp only [selectedOK, Bool.and_eq_true] at h
    have : insertAt (k :: r) (i + 1) x = k :: insertAt r i x := by simp [insertAt]
    rw [this]
    simp only [selectedOK, Bool.and_eq_true]
    exact ⟨h.1, selectedOK_nbb_insert x hx r i _ _ (fun k' hk' => hk k' (by simpa using hk')) h.2⟩

theorem rNl_ws (cfg : RCfg) (st : RSt) (off : Int) : (rNl cfg st off).isWhitespace = true := by
  simp [rNl, FNode.isWhitespace, T.Whitespace, TType.isIn]

theorem liftOK_rNl (cfg : RCfg) (st : RSt) (off : Int) : liftOK (rNl cfg st off) = true := by simp [rNl, liftOK]

/-! ## the handlers -/

theorem rFunction_lift (cfg : RCfg) (rec : RRec) (hshape : RecShape rec) (hlift : RecLift rec) (anc : List Cls) (pre : Text)
    (st : RSt) (ks ks' : List FNode) (st' : RSt) (h : rFunction cfg rec anc pre st ks = .ok (ks', st'))
    (hin : selectedOK rIsSplit noBreakBefore 0 none ks = true) (hall : ∀ k ∈ ks, liftOK k = true) :
    selectedOK rIsSplit nlBefore 0 none ks' = true ∧ brkOKL ks' = true := by
  unfold rFunction at h
  split at h
  · cases h
  · exact rDefault_lift cfg rec hshape hlift _ _ _ _ _ _ _ h hin hall

/-- `_process_where` with a direct `WHERE` child: nothing beyond the list hypothesis is needed -/
theorem rWhere_lift (cfg : RCfg) (rec : RRec) (hshape : RecShape rec) (hlift : RecLift rec) (anc : List Cls) (pre : Text)
    (st : RSt) (ks ks' : List FNode) (st' : RSt) (i : Nat) (hi : ks.findIdx? (·.matchKw "WHERE") = some i)
    (h : rWhere cfg rec anc pre st ks = .ok (ks', st'))
    (hin : selectedOK rIsSplit noBreakBefore 0 none ks = true) (hall : ∀ k ∈ ks, liftOK k = true) :
    selectedOK rIsSplit nlBefore 0 none ks' = true ∧ brkOKL ks' = true := by
  unfold rWhere at h
  rw [hi] at h
  simp only at h
  split at h
  · cases h
  · rename_i r hr
    simp only [Except.ok.injEq, Prod.mk.injEq] at h
    rw [← h.1]
    obtain ⟨hlt, hp, _⟩ := List.findIdx?_eq_some_iff_getElem.mp hi
    apply rDefault_lift cfg rec hshape hlift _ _ _ _ _ _ _ hr
    · apply selectedOK_nbb_insert _ (rNl_ws cfg st 0) ks i 0 none _ hin
      intro k hk
      rw [List.getElem?_eq_getElem hlt] at hk
      cases hk
      exact rIsSplit_where _ hp
    · exact all_insertAt (fun k => liftOK k = true) ks i _ (liftOK_rNl cfg st 0) hall

/-- `_process_parenthesis` with a direct `(` child -/
theorem rParenthesis_lift (cfg : RCfg) (rec : RRec) (hshape : RecShape rec) (hlift : RecLift rec) (anc : List Cls) (pre : Text)
    (st : RSt) (ks ks' : List FNode) (st' : RSt) (fidx : Nat)
    (hf : ks.findIdx? (·.matchAnyP Gen.Parenthesis_M_OPEN) = some fidx)
    (h : rParenthesis cfg rec anc pre st ks = .ok (ks', st'))
    (hside : liftSide .Parenthesis ks = true) (hall : ∀ k ∈ ks, liftOK k = true) :
    selectedOK rIsSplit nlBefore 0 none ks' = true ∧ brkOKL ks' = true := by
  simp only [liftSide, Bool.and_eq_true, Bool.or_eq_true, Bool.not_eq_true'] at hside
  obtain ⟨hin, hhead⟩ := hside
  unfold rParenthesis at h
  rw [hf] at h
  simp only at h
  split at h
  · cases h
  · rename_i off hoff
    split at h
    · cases h
    · rename_i r hr
      simp only [Except.ok.injEq, Prod.mk.injEq] at h
      rw [← h.1]
      apply rDefault_lift cfg rec hshape hlift _ _ _ _ _ _ _ hr
      · by_cases hd : ks.any (·.ttInArg Gen.reindentParenTTypes) = true
        · simp only [hd, if_true]
          have := selectedOK_nbb_insert (rNl cfg { st with indent := st.indent + 1 }) (rNl_ws cfg _ 0) ks 0 0 none ?_ hin
          · simpa [insertAt] using this
          · intro k hk
            rcases hhead with hh | hh
            · rw [hd] at hh; cases hh
            · cases ks with
              | nil => simp at hk
              | cons k0 r0 =>
                simp only [List.getElem?_cons_zero, Option.some.injEq] at hk
                subst hk
                simpa using hh
        · have hd' : ks.any (·.ttInArg Gen.reindentParenTTypes) = false := by simpa using hd
          simp only [hd', Bool.false_eq_true, if_false]
          exact hin
      · intro k hk
        split at hk
        · simp only [List.mem_cons] at hk
          rcases hk with rfl | hk
          · exact liftOK_rNl cfg _ 0
          · exact hall k hk
        · exact hall k hk

/-! ## `_process_identifierlist`: the wrapping loops only add whitespace tokens -/

theorem selectedOK_all_nonsplit (chk : Option FNode → Bool) : ∀ (l : List FNode) (d : Nat) (prev : Option FNode),
    (∀ k ∈ l, rIsSplit k = false) → selectedOK rIsSplit chk d prev l = true
  | [], _, _, _ => rfl
  | k :: r, d, prev, h => by
    have hk := h k (List.mem_cons_self ..)
    simp only [selectedOK, kwStep_nonsplit rIsSplit d k hk, Bool.not_false, Bool.true_or, Bool.true_and]
    exact selectedOK_all_nonsplit chk r d (some k) (fun x hx => h x (List.mem_cons_of_mem _ hx))

/-- a property of tagged children that every inserted whitespace token has -/
def WsQ (Q : Nat × FNode → Prop) : Prop := ∀ v, Q (0, FNode.tok T.Whitespace v)

theorem WsQ_rNl (Q : Nat × FNode → Prop) (hQ : WsQ Q) (cfg : RCfg) (st : RSt) (off : Int) : Q (0, rNl cfg st off) := by
  unfold rNl; exact hQ _

theorem rIdListLoopA_all (Q : Nat × FNode → Prop) (hQ : WsQ Q) (cfg : RCfg) (st : RSt) :
    ∀ (ids : TL) (pos : Int) (tl : TL), (∀ e ∈ tl, Q e) → ∀ e ∈ rIdListLoopA cfg st pos tl ids, Q e
  | [], pos, tl, h => by simpa [rIdListLoopA] using h
  | (tag, n) :: rest, pos, tl, h => by
    unfold rIdListLoopA
    simp only
    split
    · split
      · exact rIdListLoopA_all Q hQ cfg st rest _ tl h
      · rename_i idx _
        split
        · split
          · exact rIdListLoopA_all Q hQ cfg st rest _ tl h
          · rename_i cidx _
            apply rIdListLoopA_all Q hQ cfg st rest
            have h1 : ∀ e ∈ insertAt tl cidx (0, rNl cfg st (-2)), Q e :=
              all_insertAt Q tl cidx _ (WsQ_rNl Q hQ cfg st (-2)) h
            split
            · split
              · exact all_insertAfterIdx Q tlWs _ _ _ (hQ _) h1
              · exact h1
            · exact h1
        · exact rIdListLoopA_all Q hQ cfg st rest _ _ (all_insertAt Q tl idx _ (WsQ_rNl Q hQ cfg st 0) h)
    · exact rIdListLoopA_all Q hQ cfg st rest _ tl h

theorem rIdListLoopB_all (Q : Nat × FNode → Prop) (hQ : WsQ Q) (cfg : RCfg) (st : RSt) :
    ∀ (ids : TL) (pos : Int) (tl : TL), (∀ e ∈ tl, Q e) → ∀ e ∈ rIdListLoopB cfg st pos tl ids, Q e
  | [], pos, tl, h => by simpa [rIdListLoopB] using h
  | (tag, n) :: rest, pos, tl, h => by
    unfold rIdListLoopB
    simp only
    split
    · split
      · exact rIdListLoopB_all Q hQ cfg st rest _ tl h
      · rename_i idx _
        exact rIdListLoopB_all Q hQ cfg st rest _ _ (all_insertAt Q tl idx _ (WsQ_rNl Q hQ cfg st 0) h)
    · exact rIdListLoopB_all Q hQ cfg st rest _ tl h

theorem rEnsureWs_all (Q : Nat × FNode → Prop) (hQ : WsQ Q) : ∀ (tl tl' : TL), rEnsureWs tl = .ok tl' → (∀ e ∈ tl, Q e) →
    ∀ e ∈ tl', Q e
  | [], tl', h, _ => by
    simp only [rEnsureWs, Except.ok.injEq] at h
    rw [← h]; simp
  | (t, k) :: rest, tl', h, hall => by
    have hk : Q (t, k) := hall _ (List.mem_cons_self ..)
    have hr : ∀ e ∈ rest, Q e := fun e he => hall e (List.mem_cons_of_mem _ he)
    unfold rEnsureWs at h
    split at h
    · cases rest with
      | nil => cases h
      | cons e0 r0 =>
        obtain ⟨t0, n0⟩ := e0
        simp only at h
        cases hrec : rEnsureWs ((t0, n0) :: r0) with
        | error e => rw [hrec] at h; cases h
        | ok rest' =>
          rw [hrec] at h
          have ih := rEnsureWs_all Q hQ _ rest' hrec hr
          simp only [Except.ok.injEq] at h
          rw [← h]
          intro e he
          split at he
          · simp only [List.mem_cons] at he
            rcases he with rfl | he
            · exact hk
            · exact ih e he
          · simp only [List.mem_cons] at he
            rcases he with rfl | rfl | he
            · exact hk
            · exact hQ _
            · exact ih e he
    · cases hrec : rEnsureWs rest with
      | error e => rw [hrec] at h; cases h
      | ok rest' =>
        rw [hrec] at h
        simp only [Except.map, Except.ok.injEq] at h
        rw [← h]
        intro e he
        simp only [List.mem_cons] at he
        rcases he with rfl | he
        · exact hk
        · exact rEnsureWs_all Q hQ rest rest' hrec hr e he

theorem rIdListFirstBreak_all (Q : Nat × FNode → Prop) (hQ : WsQ Q) (cfg : RCfg) (st1 : RSt) (adjusted : Int) (tl1 ids' tl2 : TL)
    (h : rIdListFirstBreak cfg st1 adjusted tl1 ids' = .ok tl2) (hall : ∀ e ∈ tl1, Q e) : ∀ e ∈ tl2, Q e := by
  unfold rIdListFirstBreak at h
  split at h
  · split at h
    · cases h
    · split at h
      · simp only [Except.ok.injEq] at h
        rw [← h]
        exact all_insertAt Q tl1 _ _ (WsQ_rNl Q hQ cfg st1 0) hall
      · cases h
  · simp only [Except.ok.injEq] at h
    rw [← h]; exact hall

theorem rl_mem_tagFrom : ∀ (ks : List FNode) (i : Nat) (e : Nat × FNode), e ∈ tagFrom i ks → e.2 ∈ ks
  | [], _, e, h => by simp [tagFrom] at h
  | k :: r, i, e, h => by
    simp only [tagFrom, List.mem_cons] at h
    rcases h with rfl | h
    · exact List.mem_cons_self ..
    · exact List.mem_cons_of_mem _ (rl_mem_tagFrom r (i + 1) e h)

theorem all_untag (P : FNode → Prop) (tl : TL) (h : ∀ e ∈ tl, P e.2) : ∀ k ∈ untag tl, P k := by
  intro k hk
  simp only [untag, List.mem_map] at hk
  obtain ⟨e, he, rfl⟩ := hk
  exact h e he

/-- the list `_process_identifierlist` hands to `_process_default` consists of the children and of whitespace tokens -/
theorem rIdentifierList_list (P : FNode → Prop) (hP : ∀ v, P (.tok T.Whitespace v)) (cfg : RCfg) (rec : RRec) (anc : List Cls)
    (pre : Text) (st : RSt) (ks ks' : List FNode) (st' : RSt) (h : rIdentifierList cfg rec anc pre st ks = .ok (ks', st'))
    (hall : ∀ k ∈ ks, P k) :
    ∃ (L : List FNode) (st0 : RSt), (∀ k ∈ L, P k) ∧ rDefault cfg rec anc pre st0 true L = .ok (ks', st') := by
  have hQ : WsQ (fun e => P e.2) := fun v => hP v
  have htl : ∀ e ∈ tagAll ks, P e.2 := fun e he => hall _ (rl_mem_tagFrom ks 1 e he)
  unfold rIdentifierList at h
  simp only at h
  split at h
  · cases h
  · rename_i t0 n0 idsRest _
    split at h
    · cases h
    · split at h
      · cases h
      · rename_i ids' numOffset _
        split at h
        · exact ⟨_, _, all_untag P _ (rIdListLoopA_all _ hQ cfg _ ids' 0 _ htl), h⟩
        · split at h
          · cases h
          · rename_i tl1 h1
            have a1 := rEnsureWs_all _ hQ _ _ h1 htl
            split at h
            · cases h
            · rename_i tl2 h2
              have a2 := rIdListFirstBreak_all _ hQ cfg _ _ _ _ _ h2 a1
              exact ⟨_, _, all_untag P _ (rIdListLoopB_all _ hQ cfg _ ids' 0 _ a2), h⟩

theorem rIdentifierList_lift (cfg : RCfg) (rec : RRec) (hshape : RecShape rec) (hlift : RecLift rec) (anc : List Cls) (pre : Text)
    (st : RSt) (ks ks' : List FNode) (st' : RSt) (h : rIdentifierList cfg rec anc pre st ks = .ok (ks', st'))
    (hside : liftSide .IdentifierList ks = true) (hall : ∀ k ∈ ks, liftOK k = true) :
    selectedOK rIsSplit nlBefore 0 none ks' = true ∧ brkOKL ks' = true := by
  simp only [liftSide, List.all_eq_true, Bool.not_eq_true'] at hside
  obtain ⟨L, st0, hL, hd⟩ := rIdentifierList_list (fun k => rIsSplit k = false ∧ liftOK k = true)
    (fun v => ⟨rIsSplit_ws _ (by simp [FNode.isWhitespace, T.Whitespace, TType.isIn]), by simp [liftOK]⟩)
    cfg rec anc pre st ks ks' st' h (fun k hk => ⟨hside k hk, hall k hk⟩)
  exact rDefault_lift cfg rec hshape hlift _ _ _ _ _ _ _ hd
    (selectedOK_all_nonsplit _ L 0 none (fun k hk => (hL k hk).1)) (fun k hk => (hL k hk).2)

/-! ## `_process_case` -/

/-- no child carrying the tag `t` is a split keyword -/
def TagNonsplit (tl0 : TL) (t : Nat) : Prop := ∀ e ∈ tl0, e.1 = t → rIsSplit e.2 = false

theorem getElem?_untag (tl : TL) (i : Nat) : (untag tl)[i]? = (tl[i]?).map (·.2) := by
  simp [untag]

theorem tlIndex_get (tl : TL) (t i : Nat) (h : tlIndex tl t = some i) : ∃ e, tl[i]? = some e ∧ e ∈ tl ∧ e.1 = t := by
  unfold tlIndex at h
  obtain ⟨hlt, hp, _⟩ := List.findIdx?_eq_some_iff_getElem.mp h
  refine ⟨tl[i], List.getElem?_eq_getElem hlt, List.getElem_mem hlt, ?_⟩
  simpa using hp

/-- the loop of `_process_case`: every line break goes in front of a child that is not a split keyword, so the input
hypothesis survives; and the list still consists of the children and of whitespace tokens -/
theorem rCaseLoop_inv (cfg : RCfg) (st : RSt) (tl0 : TL) : ∀ (cases : List (Option TL × TL)) (tl tl' : TL),
    rCaseLoop cfg st tl cases = .ok tl' →
    (∀ cv ∈ cases, ∀ t, caseBreakTag cv.1 cv.2 = .ok t → TagNonsplit tl0 t) →
    (∀ e ∈ tl, e ∈ tl0 ∨ e.2.isWhitespace = true) →
    selectedOK rIsSplit noBreakBefore 0 none (untag tl) = true →
    (∀ e ∈ tl', e ∈ tl0 ∨ e.2.isWhitespace = true) ∧ selectedOK rIsSplit noBreakBefore 0 none (untag tl') = true
  | [], tl, tl', h, _, hmem, hin => by
    simp only [rCaseLoop, Except.ok.injEq] at h
    rw [← h]; exact ⟨hmem, hin⟩
  | (cond, value) :: rest, tl, tl', h, htg, hmem, hin => by
    have htg' : ∀ cv ∈ rest, ∀ t, caseBreakTag cv.1 cv.2 = .ok t → TagNonsplit tl0 t :=
      fun cv hcv => htg cv (List.mem_cons_of_mem _ hcv)
    unfold rCaseLoop at h
    split at h
    · split at h
      · cases h
      · rename_i t ht
        split at h
        · cases h
        · rename_i i hi
          obtain ⟨e, hei, hemem, het⟩ := tlIndex_get tl t i hi
          have hns : rIsSplit e.2 = false := by
            rcases hmem e hemem with h0 | hws
            · exact htg (cond, value) (List.mem_cons_self ..) t ht e h0 het
            · exact rIsSplit_ws _ hws
          apply rCaseLoop_inv cfg st tl0 rest _ tl' h htg'
          · intro x hx
            rcases rl_mem_insertAt tl i _ x hx with rfl | hx
            · exact Or.inr (rNl_ws cfg st 0)
            · exact hmem x hx
          · rw [untag_insertAt]
            apply selectedOK_nbb_insert _ (rNl_ws cfg st 0) _ i 0 none _ hin
            intro k hk
            rw [getElem?_untag, hei] at hk
            simp only [Option.map_some, Option.some.injEq] at hk
            rw [← hk]; exact hns
    · exact rCaseLoop_inv cfg st tl0 rest tl tl' h htg' hmem hin

theorem brkOKL_insertAt (l : List FNode) (i : Nat) (x : FNode) (hx : brkOK x = true) (h : brkOKL l = true) :
    brkOKL (insertAt l i x) = true := by
  rw [brkOKL_iff] at h ⊢
  exact all_insertAt (fun k => brkOK k = true) l i x hx h

theorem caseTargets_mem (ks : List FNode) (c0 : Option TL × TL) (rest : List (Option TL × TL))
    (hg : getCases false (tagAll ks) = .ok (c0 :: rest)) (cv : Option TL × TL) (hcv : cv ∈ rest) (t : Nat)
    (ht : caseBreakTag cv.1 cv.2 = .ok t) : t ∈ caseTargets ks := by
  unfold caseTargets
  rw [hg]
  simp only [List.mem_filterMap]
  exact ⟨cv, hcv, by rw [ht]; rfl⟩

theorem rCase_lift (cfg : RCfg) (rec : RRec) (hshape : RecShape rec) (hlift : RecLift rec) (anc : List Cls) (pre : Text)
    (st : RSt) (ks ks' : List FNode) (st' : RSt) (h : rCase cfg rec anc pre st ks = .ok (ks', st'))
    (hside : liftSide .Case ks = true) (hall : ∀ k ∈ ks, liftOK k = true) :
    selectedOK rIsSplit nlBefore 0 none ks' = true ∧ brkOKL ks' = true := by
  simp only [liftSide, Bool.and_eq_true] at hside
  obtain ⟨hin, htargets⟩ := hside
  unfold rCase at h
  simp only at h
  split at h
  · cases h
  · cases h
  · rename_i cond0 v0 restCases hg
    split at h
    · cases h
    · cases h
    · rename_i t0 n0 c0rest
      split at h
      · cases h
      · split at h
        · cases h
        · rename_i off1 _
          split at h
          · cases h
          · rename_i off2 _
            split at h
            · cases h
            · rename_i tl' hloop
              split at h
              · cases h
              · rename_i r hd
                simp only [Except.ok.injEq, Prod.mk.injEq] at h
                -- the list handed to `_process_default`
                have htg : ∀ cv ∈ restCases, ∀ t, caseBreakTag cv.1 cv.2 = .ok t → TagNonsplit (tagAll ks) t := by
                  intro cv hcv t ht e he het
                  have hmem := caseTargets_mem ks _ restCases hg cv hcv t ht
                  simp only [caseTargetsOK, List.all_eq_true] at htargets
                  have := htargets t hmem e he
                  simpa [het] using this
                obtain ⟨hmem', hin'⟩ := rCaseLoop_inv cfg _ (tagAll ks) restCases (tagAll ks) tl' hloop htg
                  (fun e he => Or.inl he) (by rw [untag_tagAll]; exact hin)
                have hall' : ∀ k ∈ untag tl', liftOK k = true := by
                  apply all_untag
                  intro e he
                  rcases hmem' e he with h0 | hws
                  · exact hall _ (rl_mem_tagFrom ks 1 e h0)
                  · cases hq : e.2 with
                    | tok tt v => simp [liftOK]
                    | grp c cv kk => rw [hq] at hws; cases hws
                obtain ⟨a, b⟩ := rDefault_lift cfg rec hshape hlift _ _ _ _ _ _ _ hd hin' hall'
                rw [← h.1]
                split
                · split
                  · exact ⟨selectedOK_insertAt _ (isNlTok_rNl cfg _ 0) _ _ 0 none a,
                      brkOKL_insertAt _ _ _ (by simp [rNl, brkOK]) b⟩
                  · exact ⟨a, b⟩
                · exact ⟨a, b⟩

/-! ## dispatch, recursion, `ReindentFilter.process` -/

theorem brkOK_grp (c : Cls) (cv : Text) (ks : List FNode)
    (h : selectedOK rIsSplit nlBefore 0 none ks = true ∧ brkOKL ks = true) (hw : whereClause c ks = true) :
    brkOK (.grp c cv ks) = true := by
  simp [brkOK, h.1, h.2, hw]

theorem liftOK_grp (c : Cls) (cv : Text) (ks : List FNode) (h : liftOK (.grp c cv ks) = true) (he : rExempt c ks = false) :
    liftSide c ks = true ∧ ∀ k ∈ ks, liftOK k = true := by
  simp only [liftOK, he, Bool.false_or, Bool.and_eq_true] at h
  exact ⟨h.1, (liftOKL_iff ks).mp h.2⟩

/-- `_process(tlist)`, every class -/
theorem rDispatch_lift (cfg : RCfg) (rec : RRec) (hshape : RecShape rec) (hlift : RecLift rec) (c : Cls) (cv : Text)
    (anc : List Cls) (pre : Text) (st : RSt) (ks ks' : List FNode) (st' : RSt)
    (h : rDispatch cfg rec c anc pre st ks = .ok (ks', st')) (hok : liftOK (.grp c cv ks) = true) :
    brkOK (.grp c cv ks') = true := by
  cases c with
  | Values => simp [brkOK, rExempt]
  | Where =>
    simp only [rDispatch] at h
    cases hi : ks.findIdx? (·.matchKw "WHERE") with
    | none =>
      unfold rWhere at h
      rw [hi] at h
      simp only [Except.ok.injEq, Prod.mk.injEq] at h
      rw [← h.1]
      simp [brkOK, rExempt, hi]
    | some i =>
      obtain ⟨hs, ha⟩ := liftOK_grp _ cv ks hok (by simp [rExempt, hi])
      exact brkOK_grp _ _ _ (rWhere_lift cfg rec hshape hlift anc pre st ks ks' st' i hi h (by simpa [liftSide] using hs) ha)
        (rWhere_pair cfg rec hshape anc pre st ks ks' st' i hi h)
  | Parenthesis =>
    simp only [rDispatch] at h
    cases hi : ks.findIdx? (·.matchAnyP Gen.Parenthesis_M_OPEN) with
    | none =>
      unfold rParenthesis at h
      rw [hi] at h
      simp only [Except.ok.injEq, Prod.mk.injEq] at h
      rw [← h.1]
      simp [brkOK, rExempt, hi]
    | some i =>
      obtain ⟨hs, ha⟩ := liftOK_grp _ cv ks hok (by simp [rExempt, hi])
      exact brkOK_grp _ _ _ (rParenthesis_lift cfg rec hshape hlift anc pre st ks ks' st' i hi h hs ha) rfl
  | Function =>
    simp only [rDispatch] at h
    obtain ⟨hs, ha⟩ := liftOK_grp _ cv ks hok rfl
    exact brkOK_grp _ _ _ (rFunction_lift cfg rec hshape hlift anc pre st ks ks' st' h (by simpa [liftSide] using hs) ha) rfl
  | IdentifierList =>
    simp only [rDispatch] at h
    obtain ⟨hs, ha⟩ := liftOK_grp _ cv ks hok rfl
    exact brkOK_grp _ _ _ (rIdentifierList_lift cfg rec hshape hlift anc pre st ks ks' st' h hs ha) rfl
  | Case =>
    simp only [rDispatch] at h
    obtain ⟨hs, ha⟩ := liftOK_grp _ cv ks hok rfl
    exact brkOK_grp _ _ _ (rCase_lift cfg rec hshape hlift anc pre st ks ks' st' h hs ha) rfl
  | _ =>
    simp only [rDispatch] at h
    obtain ⟨hs, ha⟩ := liftOK_grp _ cv ks hok rfl
    exact brkOK_grp _ _ _ (rDefault_lift cfg rec hshape hlift _ _ _ _ _ _ _ h (by simpa [liftSide] using hs) ha) rfl

/-- **the lift through the recursion**: `self._process(node)` for any node, ancestors, state and fuel -/
theorem rProcess_lift (cfg : RCfg) : ∀ (fuel : Nat), RecLift (fun a p s n => rProcess cfg fuel a p s n)
  | fuel, a, p, s, .tok tt v, n', s', h, _ => by
    cases fuel <;> (simp only [rProcess, Except.ok.injEq, Prod.mk.injEq] at h; rw [← h.1]; rfl)
  | 0, a, p, s, .grp c cv ks, n', s', h, _ => by simp [rProcess] at h
  | fuel+1, a, p, s, .grp c cv ks, n', s', h, hok => by
    simp only [rProcess] at h
    split at h
    · cases h
    · rename_i r hd
      simp only [Except.ok.injEq, Prod.mk.injEq] at h
      rw [← h.1]
      exact rDispatch_lift cfg _ (rProcess_shape cfg fuel) (rProcess_lift cfg fuel) c cv _ _ _ _ _ _ hd hok

/-- **C10, reindent clause, whole tree.**  `ReindentFilter.process(stmt)` on a statement whose tree satisfies the (decidable)
side conditions `liftOK`: in the returned tree, at every nesting level the filter looks into, every child that `_next_token`
selects (a keyword matched by one of `split_words`, except BETWEEN and the AND that closes it) is directly preceded by a
whitespace leaf whose value starts with a line break — for every option set, filter state, `_last_stmt` and fuel. -/
theorem reindent_statement_lift (cfg : RCfg) (fuel : Nat) (st : RSt) (last : Option Text) (cv : Text) (ks : List FNode)
    (n' : FNode) (st' : RSt) (h : reindentProcess cfg fuel st last (.grp .Statement cv ks) = .ok (n', st'))
    (hok : liftOK (.grp .Statement cv ks) = true) : brkOK n' = true := by
  unfold reindentProcess at h
  split at h
  · cases h
  · rename_i n0 st0 hr
    have hb := rProcess_lift cfg fuel [] [] st _ _ _ hr hok
    have hsh := rProcess_shape cfg fuel [] [] st _ _ _ hr
    split at h
    · rename_i c0 cv0 ks0 t0
      simp only [Except.ok.injEq, Prod.mk.injEq] at h
      rw [← h.1]
      -- the root stays a Statement: read the class off the run
      cases fuel with
      | zero => simp [rProcess] at hr
      | succ f =>
        simp only [rProcess] at hr
        split at hr
        · cases hr
        · simp only [Except.ok.injEq, Prod.mk.injEq, FNode.grp.injEq] at hr
          obtain ⟨⟨hc, _, _⟩, _⟩ := hr
          subst hc
          simp only [brkOK, rExempt, whereClause, Bool.false_or, Bool.and_eq_true, Bool.and_true] at hb ⊢
          refine ⟨?_, ?_⟩
          · have := selectedOK_insertAt (.tok T.Whitespace (if t0.getLast? == some 10 then [10] else [10, 10]))
              (by split <;> rfl) _ 0 0 none hb.1
            simpa [insertAt] using this
          · simp only [brkOKL, Bool.and_eq_true]
            exact ⟨by simp [brkOK], hb.2⟩
    · simp only [Except.ok.injEq, Prod.mk.injEq] at h
      rw [← h.1]; exact hb

end Sql
