import SqlProofs.FilterSpec
import SqlProofs.SpacesSpec
/-!
# SqlProofs.StripCommentsSpec — which comments `StripCommentsFilter` leaves behind (C08)

Level statement (`stripCommentsLevel_survivors`): in the children list a non-hint comment survives only as the *skipped
successor* of a comment that was removed without replacement; if no non-hint comment node directly follows another
non-hint comment node (`noNhPairs`), none survives.  The exact survival condition, read off `stripCommentsGo`: child `b`
survives iff it is a non-hint comment (leaf or `Comment` group), its predecessor `a` is a non-hint comment, and `a` is the
first child of the list or directly follows a `(` punctuation token (`format('/*a*//*b*/', strip_comments=True)` → `'/*b*/'`,
`format('(/*a*//*b*/', strip_comments=True)` → `'(/*b*/'`).  Directly adjacent comment siblings arise from `parse` when a
comment run reaches the end of its list (then `group_comments` does not group it).

Tree statement (`stripComments_only_hints_remain`): if every `Comment` group is flat (its children are comment- or
whitespace-typed leaves, as `group_comments` builds them) and every other group's child list satisfies `noNhPairs`, then
every comment-typed leaf of the result is a hint.
-/
namespace Sql
open FNode (leaves leavesL)

/-- a comment the filter wants to get rid of -/
def nh (k : FNode) : Bool := isCommentNode k && !isSqlHint k

/-- no non-hint comment child directly follows another one -/
def noNhPairs : List FNode → Bool
  | a :: b :: rest => !(nh a && nh b) && noNhPairs (b :: rest)
  | _ => true

theorem noNhPairs_tail (a : FNode) (l : List FNode) (h : noNhPairs (a :: l) = true) : noNhPairs l = true := by
  cases l with
  | nil => rfl
  | cons b rest => simp only [noNhPairs, Bool.and_eq_true] at h; exact h.2

theorem nh_insertTokenFor (v : Text) : nh (insertTokenFor v) = false := by
  cases h : reSearch (reEnv v.toArray) Gen.insertRe 0 with
  | none => simp only [insertTokenFor, h]; rfl
  | some p => simp only [insertTokenFor, h]; rfl

theorem mem_ite_elim {α : Type} (c : Bool) (A B : List α) (x : α) (P : Prop) (hA : x ∈ A → P) (hB : x ∈ B → P)
    (h : x ∈ if c = true then A else B) : P := by
  cases c with
  | true => exact hA (by simpa using h)
  | false => exact hB (by simpa using h)

/-- level statement: with `noNhPairs`, whatever non-hint comment is in the output was already in `done` -/
theorem stripCommentsGo_survivors : ∀ (n : Nat) (ks done : List FNode), ks.length ≤ n → noNhPairs ks = true →
    ∀ x ∈ stripCommentsGo done ks, nh x = true → x ∈ done
  | _, [], done, _, _, x, hx, _ => by simpa [stripCommentsGo] using hx
  | 0, k :: rest, done, hn, _, _, _, _ => by simp at hn
  | n+1, k :: rest, done, hn, hp, x, hx, hnx => by
    have hn' : rest.length ≤ n := by simpa using hn
    have hrest := noNhPairs_tail k rest hp
    unfold stripCommentsGo at hx
    by_cases h1 : (!isCommentNode k || isSqlHint k) = true
    · rw [if_pos h1] at hx
      have := stripCommentsGo_survivors n rest (k :: done) hn' hrest x hx hnx
      rcases List.mem_cons.mp this with rfl | h2
      · simp only [nh, Bool.and_eq_true, Bool.not_eq_true'] at hnx
        rcases Bool.or_eq_true _ _ |>.mp h1 with h3 | h3
        · simp [hnx.1] at h3
        · rw [hnx.2] at h3; cases h3
      · exact h2
    · rw [if_neg h1] at hx
      have hk : nh k = true := by
        simp only [Bool.or_eq_true, Bool.not_eq_true', not_or, Bool.not_eq_false] at h1
        simp [nh, h1.1, h1.2]
      simp only at hx
      refine mem_ite_elim _ _ _ x _ ?_ ?_ hx
      · intro hc
        have := stripCommentsGo_survivors n rest _ hn' hrest x hc hnx
        rcases List.mem_cons.mp this with rfl | h2
        · rw [nh_insertTokenFor] at hnx; cases hnx
        · exact h2
      · intro hc
        cases rest with
        | nil => simpa using hc
        | cons y rest' =>
          simp only at hc
          have hn'' : rest'.length ≤ n := by simp at hn'; omega
          have := stripCommentsGo_survivors n rest' (y :: done) hn'' (noNhPairs_tail y rest' hrest) x hc hnx
          rcases List.mem_cons.mp this with rfl | h2
          · simp only [noNhPairs, Bool.and_eq_true, Bool.not_eq_true'] at hp
            rw [hk, hnx] at hp
            simp at hp
          · exact h2

/-- if no non-hint comment directly follows another non-hint comment in the list, no non-hint comment is left in it -/
theorem stripCommentsLevel_survivors (ks : List FNode) (h : noNhPairs ks = true) :
    ∀ x ∈ stripCommentsLevel ks, nh x = false := by
  intro x hx
  cases hnx : nh x with
  | false => rfl
  | true =>
    have := stripCommentsGo_survivors ks.length ks [] (Nat.le_refl _) h x hx hnx
    simp at this

/-! ## tree level -/

theorem ite_elim {α : Type} (c : Bool) (A B : α) (P : α → Prop) (hA : P A) (hB : P B) : P (if c = true then A else B) := by
  cases c <;> simp [hA, hB]

/-- the output consists of `done`, children of the input, and inserted whitespace tokens -/
theorem stripCommentsGo_mem : ∀ (n : Nat) (ks done : List FNode), ks.length ≤ n →
    ∀ x ∈ stripCommentsGo done ks, x ∈ done ∨ x ∈ ks ∨ ∃ v, x = insertTokenFor v
  | _, [], done, _, x, hx => by left; simpa [stripCommentsGo] using hx
  | 0, k :: rest, done, hn, _, _ => by simp at hn
  | n+1, k :: rest, done, hn, x, hx => by
    have hn' : rest.length ≤ n := by simpa using hn
    unfold stripCommentsGo at hx
    have lift : (x ∈ k :: done ∨ x ∈ rest ∨ ∃ v, x = insertTokenFor v) → (x ∈ done ∨ x ∈ k :: rest ∨ ∃ v, x = insertTokenFor v) := by
      rintro (h | h | h)
      · rcases List.mem_cons.mp h with rfl | h'
        · right; left; exact List.mem_cons_self
        · left; exact h'
      · right; left; exact List.mem_cons_of_mem _ h
      · right; right; exact h
    by_cases h1 : (!isCommentNode k || isSqlHint k) = true
    · rw [if_pos h1] at hx
      exact lift (stripCommentsGo_mem n rest (k :: done) hn' x hx)
    · rw [if_neg h1] at hx
      simp only at hx
      refine mem_ite_elim _ _ _ x _ ?_ ?_ hx
      · intro hc
        rcases stripCommentsGo_mem n rest _ hn' x hc with h | h | h
        · rcases List.mem_cons.mp h with rfl | h'
          · right; right; exact ⟨_, rfl⟩
          · left; exact h'
        · right; left; exact List.mem_cons_of_mem _ h
        · right; right; exact h
      · intro hc
        cases rest with
        | nil => left; simpa using hc
        | cons y rest' =>
          simp only at hc
          have hn'' : rest'.length ≤ n := by simp at hn'; omega
          rcases stripCommentsGo_mem n rest' (y :: done) hn'' x hc with h | h | h
          · rcases List.mem_cons.mp h with rfl | h'
            · right; left; simp
            · left; exact h'
          · right; left; simp [h]
          · right; right; exact h

/-- the output starts with `done` (reversed) -/
theorem stripCommentsGo_prefix : ∀ (n : Nat) (ks done : List FNode), ks.length ≤ n →
    ∃ t, stripCommentsGo done ks = done.reverse ++ t
  | _, [], done, _ => ⟨[], by simp [stripCommentsGo]⟩
  | 0, k :: rest, done, hn => by simp at hn
  | n+1, k :: rest, done, hn => by
    have hn' : rest.length ≤ n := by simpa using hn
    unfold stripCommentsGo
    have ext : ∀ (e : FNode) (l : List FNode), (∃ t, stripCommentsGo (e :: done) l = (e :: done).reverse ++ t) →
        ∃ t, stripCommentsGo (e :: done) l = done.reverse ++ t := by
      rintro e l ⟨t, ht⟩
      exact ⟨e :: t, by rw [ht]; simp⟩
    by_cases h1 : (!isCommentNode k || isSqlHint k) = true
    · rw [if_pos h1]
      exact ext k rest (stripCommentsGo_prefix n rest (k :: done) hn')
    · rw [if_neg h1]
      simp only
      apply ite_elim _ _ _ (fun r => ∃ t, r = done.reverse ++ t)
      · exact ext _ rest (stripCommentsGo_prefix n rest _ hn')
      · cases rest with
        | nil => exact ⟨[], by simp⟩
        | cons y rest' =>
          simp only
          have hn'' : rest'.length ≤ n := by simp at hn'; omega
          exact ext y rest' (stripCommentsGo_prefix n rest' (y :: done) hn'')

/-- a comment- or whitespace-typed leaf: what `group_comments` puts into a `Comment` group -/
def isLeafCW : FNode → Bool
  | .tok tt _ => tt.isIn T.Comment || tt.isIn T.Whitespace
  | .grp .. => false

theorem matchPunct_leafCW (k : FNode) (h : isLeafCW k = true) : k.matchPunct 40 = false := by
  cases k with
  | grp c cv ks => rfl
  | tok tt v =>
    simp only [isLeafCW, Bool.or_eq_true] at h
    simp only [FNode.matchPunct, Bool.and_eq_false_iff, beq_eq_false_iff_ne, ne_eq]
    left
    rintro rfl
    rcases h with h | h <;> simp [T.Punctuation, T.Comment, T.Whitespace, TType.isIn] at h

theorem matchPunct_insertTokenFor (v : Text) : (insertTokenFor v).matchPunct 40 = false := by
  cases h : reSearch (reEnv v.toArray) Gen.insertRe 0 with
  | none => simp only [insertTokenFor, h]; rfl
  | some p => simp only [insertTokenFor, h]; rfl

/-- inside a flat comment group, once something precedes, every non-hint comment met is replaced (never just removed) -/
theorem stripCommentsGo_flat : ∀ (ks : List FNode) (p : FNode) (d' : List FNode), ks.all isLeafCW = true →
    p.matchPunct 40 = false → ∀ x ∈ stripCommentsGo (p :: d') ks, nh x = true → x ∈ p :: d'
  | [], p, d', _, _, x, hx, _ => by
    simp only [stripCommentsGo, List.mem_reverse] at hx
    exact hx
  | k :: rest, p, d', hf, hp, x, hx, hnx => by
    simp only [List.all_cons, Bool.and_eq_true] at hf
    unfold stripCommentsGo at hx
    by_cases h1 : (!isCommentNode k || isSqlHint k) = true
    · rw [if_pos h1] at hx
      have := stripCommentsGo_flat rest k (p :: d') hf.2 (matchPunct_leafCW k hf.1) x hx hnx
      rcases List.mem_cons.mp this with rfl | h2
      · simp only [nh, Bool.and_eq_true, Bool.not_eq_true'] at hnx
        rcases Bool.or_eq_true _ _ |>.mp h1 with h3 | h3
        · simp [hnx.1] at h3
        · rw [hnx.2] at h3; cases h3
      · exact h2
    · rw [if_neg h1] at hx
      simp only [List.head?_cons, hp, Bool.not_false, Bool.or_true, if_true] at hx
      have := stripCommentsGo_flat rest _ (p :: d') hf.2 (matchPunct_insertTokenFor _) x hx hnx
      rcases List.mem_cons.mp this with rfl | h2
      · rw [nh_insertTokenFor] at hnx; cases hnx
      · exact h2


/-- every comment-typed leaf is a hint -/
def cleanToks (ts : List Tok) : Bool := ts.all fun t => !t.tt.isIn T.Comment || ttInArg t.tt Gen.sqlHints

theorem cleanToks_append (a b : List Tok) : cleanToks (a ++ b) = (cleanToks a && cleanToks b) := by simp [cleanToks]

theorem cleanL (l : List FNode) (h : ∀ x ∈ l, cleanToks x.leaves = true) : cleanToks (leavesL l) = true := by
  induction l with
  | nil => rfl
  | cons k l ih =>
    simp only [leavesL, cleanToks_append, Bool.and_eq_true]
    exact ⟨h k List.mem_cons_self, ih (fun x hx => h x (List.mem_cons_of_mem _ hx))⟩

theorem clean_leaf (tt : TType) (v : Text) (h : nh (.tok tt v) = false) : cleanToks (FNode.tok tt v).leaves = true := by
  simp only [nh, isCommentNode, isSqlHint, FNode.isInst, FNode.ttIn, Bool.false_or] at h
  simp only [leaves, cleanToks, List.all_cons, List.all_nil, Bool.and_true]
  cases h1 : tt.isIn T.Comment <;> cases h2 : ttInArg tt Gen.sqlHints <;> simp [h1, h2] at h ⊢

theorem clean_insertTokenFor (v : Text) : cleanToks (insertTokenFor v).leaves = true := by
  cases h : reSearch (reEnv v.toArray) Gen.insertRe 0 with
  | none => simp only [insertTokenFor, h]; rfl
  | some p => simp only [insertTokenFor, h]; rfl

theorem clean_leafCW (x : FNode) (hl : isLeafCW x = true) (h : nh x = false) : cleanToks x.leaves = true := by
  cases x with
  | grp c cv ks => cases hl
  | tok tt v => exact clean_leaf tt v h

mutual
/-- hypothesis of the tree statement: `Comment` groups are flat, other lists have no two adjacent non-hint comments -/
def scWF : FNode → Bool
  | .tok .. => true
  | .grp c _ ks => if c == .Comment then ks.all isLeafCW else (noNhPairs ks && scWFL ks)
def scWFL : List FNode → Bool
  | [] => true
  | k :: ks => scWF k && scWFL ks
end

theorem first_step (k : FNode) (rest : List FNode) :
    stripCommentsGo [] (k :: rest) =
      if nh k = true then (match rest with
        | [] => []
        | y :: r => stripCommentsGo [y] r)
      else stripCommentsGo [k] rest := by
  conv => lhs; unfold stripCommentsGo
  by_cases h1 : (!isCommentNode k || isSqlHint k) = true
  · have : nh k = false := by
      simp only [nh]
      rcases Bool.or_eq_true _ _ |>.mp h1 with h | h
      · simp at h; simp [h]
      · simp [h]
    rw [if_pos h1, this]; simp
  · have : nh k = true := by
      simp only [Bool.or_eq_true, Bool.not_eq_true', not_or, Bool.not_eq_false] at h1
      simp [nh, h1.1, h1.2]
    rw [if_neg h1, this]
    simp only [List.head?_nil, commentAtEdge, if_true]
    cases rest <;> simp

/-- a flat comment group that is kept (its first child after processing is a hint) contains no other comment -/
theorem flat_group_clean (cv : Text) (ks : List FNode) (hf : ks.all isLeafCW = true)
    (hh : isSqlHint (.grp .Comment cv (stripCommentsLevel ks)) = true) : cleanToks (leavesL (stripCommentsLevel ks)) = true := by
  -- every element of the output is a leaf from `ks` or an inserted token
  have hmem : ∀ x ∈ stripCommentsLevel ks, isLeafCW x = true ∨ ∃ v, x = insertTokenFor v := by
    intro x hx
    rcases stripCommentsGo_mem ks.length ks [] (Nat.le_refl _) x hx with h | h | h
    · simp at h
    · left; exact List.all_eq_true.mp hf x h
    · right; exact h
  have fin : (∀ x ∈ stripCommentsLevel ks, nh x = false) → cleanToks (leavesL (stripCommentsLevel ks)) = true := by
    intro hno
    apply cleanL
    intro x hx
    rcases hmem x hx with h | ⟨v, rfl⟩
    · exact clean_leafCW x h (hno x hx)
    · exact clean_insertTokenFor v
  apply fin
  intro x hx
  cases hnx : nh x with
  | false => rfl
  | true =>
    exfalso
    unfold stripCommentsLevel at hx hh
    cases ks with
    | nil => simp [stripCommentsGo, isSqlHint] at hh
    | cons k rest =>
      simp only [List.all_cons, Bool.and_eq_true] at hf
      rw [first_step] at hx hh
      by_cases hk : nh k = true
      · rw [if_pos hk] at hx hh
        cases rest with
        | nil => simp [isSqlHint] at hh
        | cons y r =>
          simp only at hx hh
          simp only [List.all_cons, Bool.and_eq_true] at hf
          have hy := matchPunct_leafCW y hf.2.1
          have := stripCommentsGo_flat r y [] hf.2.2 hy x hx hnx
          simp only [List.mem_singleton] at this
          subst this
          obtain ⟨t, ht⟩ := stripCommentsGo_prefix r.length r [x] (Nat.le_refl _)
          rw [ht] at hh
          simp only [List.reverse_cons, List.reverse_nil, List.nil_append, List.cons_append, isSqlHint, beq_self_eq_true,
            Bool.true_and] at hh
          simp only [nh, Bool.and_eq_true, Bool.not_eq_true'] at hnx
          cases x with
          | grp c cv' gks => cases hf.2.1
          | tok tt v => simp only [isSqlHint] at hnx; simp only [FNode.ttInArg] at hh; rw [hh] at hnx; cases hnx.2
      · rw [if_neg hk] at hx
        have hkp := matchPunct_leafCW k hf.1
        have := stripCommentsGo_flat rest k [] hf.2 hkp x hx hnx
        simp only [List.mem_singleton] at this
        subst this
        exact hk hnx


/-- what processing a child guarantees: it does not become a removable comment, and unless it is one, it is clean -/
def ScRel (k k' : FNode) : Prop := (nh k' = true → nh k = true) ∧ (nh k' = false → cleanToks k'.leaves = true)

/-- `ScRel` pointwise on two lists of the same length -/
inductive ScRelL : List FNode → List FNode → Prop
  | nil : ScRelL [] []
  | cons {a b : FNode} {as bs : List FNode} : ScRel a b → ScRelL as bs → ScRelL (a :: as) (b :: bs)

theorem noNhPairs_rel : ∀ (ks ks' : List FNode), ScRelL ks ks' → noNhPairs ks = true → noNhPairs ks' = true
  | _, _, .nil, _ => rfl
  | _, _, .cons (as := []) (bs := []) _ .nil, _ => rfl
  | _, _, .cons (a := a) (b := a') hab (.cons (a := b) (b := b') (as := r) (bs := r') hb hr), hp => by
    simp only [noNhPairs, Bool.and_eq_true, Bool.not_eq_true'] at hp ⊢
    refine ⟨?_, noNhPairs_rel (b :: r) (b' :: r') (.cons hb hr) hp.2⟩
    cases h1 : nh a' with
    | false => simp
    | true =>
      cases h2 : nh b' with
      | false => simp
      | true =>
        have := hp.1
        rw [hab.1 h1, hb.1 h2] at this
        simp at this

theorem forall₂_right_clean : ∀ (ks ks' : List FNode), ScRelL ks ks' →
    ∀ x ∈ ks', nh x = false → cleanToks x.leaves = true
  | _, _, .nil, x, hx, _ => by simp at hx
  | _, _, .cons hab hr, x, hx, hnx => by
    rcases List.mem_cons.mp hx with rfl | hx'
    · exact hab.2 hnx
    · exact forall₂_right_clean _ _ hr x hx' hnx

theorem isCommentNode_grp (c : Cls) (cv : Text) (ks : List FNode) : isCommentNode (.grp c cv ks) = (c == .Comment) := by
  cases c <;> rfl

mutual
theorem sc_clean_node : ∀ (n : FNode) (fuel d : Nat) (n' : FNode), scWF n = true →
    bottomUp scLevel fuel d n = .ok n' → ScRel n n'
  | .tok tt v, fuel, d, n', _, h => by
    unfold bottomUp at h
    simp only [Except.ok.injEq] at h
    rw [← h]
    exact ⟨fun x => x, clean_leaf tt v⟩
  | .grp c cv ks, fuel, d, n', hwf, h => by
    unfold bottomUp at h
    cases fuel with
    | zero => simp at h
    | succ fuel' =>
      simp only at h
      cases hk : bottomUpL scLevel fuel' (d + 1) ks with
      | error e => rw [hk] at h; cases h
      | ok ks' =>
        rw [hk] at h
        simp only [scLevel, Except.ok.injEq] at h
        rw [← h]
        unfold scWF at hwf
        by_cases hc : c = .Comment
        · subst hc
          simp only [beq_self_eq_true, if_true] at hwf
          -- flat group: the children are leaves, the recursion does nothing
          have hfix : bottomUpL scLevel fuel' (d + 1) ks = .ok ks := by
            apply bottomUpL_fixed
            intro x hx
            have := List.all_eq_true.mp hwf x hx
            cases x with
            | grp c2 cv2 g => cases this
            | tok tt v => unfold bottomUp; rfl
          rw [hfix] at hk
          simp only [Except.ok.injEq] at hk
          subst hk
          constructor
          · -- a hint-first group stays hint-first
            intro hn'
            simp only [nh, isCommentNode_grp, beq_self_eq_true, Bool.true_and, Bool.not_eq_true'] at hn' ⊢
            cases hh : isSqlHint (.grp .Comment cv ks) with
            | false => rfl
            | true =>
              exfalso
              cases ks with
              | nil => simp [isSqlHint] at hh
              | cons k0 rest =>
                simp only [isSqlHint, beq_self_eq_true, Bool.true_and] at hh
                have hk0 : nh k0 = false := by
                  cases k0 with
                  | grp c2 cv2 g => simp only [List.all_cons, isLeafCW, Bool.false_and] at hwf; cases hwf
                  | tok tt v => simp only [FNode.ttInArg] at hh; simp [nh, isSqlHint, hh]
                unfold stripCommentsLevel at hn'
                rw [first_step, hk0] at hn'
                simp only [Bool.false_eq_true, if_false] at hn'
                obtain ⟨t, ht⟩ := stripCommentsGo_prefix rest.length rest [k0] (Nat.le_refl _)
                rw [ht] at hn'
                simp only [List.reverse_cons, List.reverse_nil, List.nil_append, List.cons_append, isSqlHint,
                  beq_self_eq_true, Bool.true_and, hh] at hn'
                cases hn'
          · intro hn'
            simp only [nh, isCommentNode_grp, beq_self_eq_true, Bool.true_and, Bool.not_eq_false'] at hn'
            exact flat_group_clean cv ks hwf hn'
        · have hcb : (c == Cls.Comment) = false := by simp [hc]
          simp only [hcb, Bool.false_eq_true, if_false, Bool.and_eq_true] at hwf
          have hrel := sc_clean_list ks fuel' (d + 1) ks' hwf.2 hk
          have hpairs := noNhPairs_rel ks ks' hrel hwf.1
          have hnh : nh (.grp c cv (stripCommentsLevel ks')) = false := by simp [nh, isCommentNode_grp, hcb]
          refine ⟨?_, fun _ => ?_⟩
          · intro x0; rw [hnh] at x0; cases x0
          show cleanToks (leavesL (stripCommentsLevel ks')) = true
          apply cleanL
          intro x hx
          have hx0 := stripCommentsLevel_survivors ks' hpairs x hx
          rcases stripCommentsGo_mem ks'.length ks' [] (Nat.le_refl _) x hx with h1 | h1 | ⟨v, rfl⟩
          · simp at h1
          · exact forall₂_right_clean ks ks' hrel x h1 hx0
          · exact clean_insertTokenFor v
theorem sc_clean_list : ∀ (ns : List FNode) (fuel d : Nat) (ns' : List FNode), scWFL ns = true →
    bottomUpL scLevel fuel d ns = .ok ns' → ScRelL ns ns'
  | [], fuel, d, ns', _, h => by
    unfold bottomUpL at h
    simp only [Except.ok.injEq] at h
    rw [← h]; exact .nil
  | k :: rest, fuel, d, ns', hwf, h => by
    unfold bottomUpL at h
    unfold scWFL at hwf
    simp only [Bool.and_eq_true] at hwf
    cases hk : bottomUp scLevel fuel d k with
    | error e => rw [hk] at h; cases h
    | ok k' =>
      rw [hk] at h
      simp only at h
      cases hr : bottomUpL scLevel fuel d rest with
      | error e => rw [hr] at h; cases h
      | ok rest' =>
        rw [hr] at h
        simp only [Except.ok.injEq] at h
        rw [← h]
        exact .cons (sc_clean_node k fuel d k' hwf.1 hk) (sc_clean_list rest fuel d rest' hwf.2 hr)
end

/-- C08, `strip_comments`: on a tree whose `Comment` groups are flat and whose other child lists have no two directly
adjacent non-hint comments, every comment-typed leaf of the result is a hint — unless the statement node itself is a
removable comment group, which `process` never is asked about (`scWF` of a `Statement` root) -/
theorem stripComments_only_hints_remain (fuel : Nat) (n n' : FNode) (hwf : scWF n = true)
    (h : stripComments fuel n = .ok n') (hroot : nh n' = false) : cleanToks n'.leaves = true :=
  (sc_clean_node n fuel 0 n' hwf h).2 hroot


end Sql
