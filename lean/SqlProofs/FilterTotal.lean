import SqlProofs.StripwsSpec
import SqlModel.Filters.Safe
/-!
# SqlProofs.FilterTotal — C07 for the statement filters: domains on which nothing but `RecursionError` is raised

The decidable domains are defined in `SqlModel/Filters/Safe.lean` (`FilterSafe.stripws`, `.aligned`, `.reindent`); the driver
command `filtersafe` evaluates them.  Theorems: `stripComments_total`, `spaces_total` (no hypothesis), `stripWhitespace_total`
(+ `stripwsParenthesis_fails`: outside the domain `_stripws_parenthesis` raises `IndexError`), `aligned_total`.
-/
set_option linter.unusedSimpArgs false
namespace Sql
open FNode (leaves leavesL)
open FilterSafe

/-! ## filters whose level function cannot fail: `StripCommentsFilter`, `SpacesAroundOperatorsFilter` -/

mutual
theorem bottomUp_err_total (f : Nat → Cls → List FNode → Except PyErr (List FNode))
    (hf : ∀ d c ks, ∃ ks', f d c ks = .ok ks') : ∀ (n : FNode) (fuel d : Nat) (e : PyErr),
    bottomUp f fuel d n = .error e → e = .recursionError
  | .tok tt v, fuel, d, e, h => by unfold bottomUp at h; cases h
  | .grp c cv ks, fuel, d, e, h => by
    unfold bottomUp at h
    cases fuel with
    | zero => simp only [Except.error.injEq] at h; exact h.symm
    | succ fuel' =>
      simp only at h
      cases hk : bottomUpL f fuel' (d + 1) ks with
      | error e2 =>
        rw [hk] at h
        simp only [Except.error.injEq] at h
        rw [← h]
        exact bottomUpL_err_total f hf ks fuel' (d + 1) e2 hk
      | ok ks' =>
        rw [hk] at h
        simp only at h
        obtain ⟨out, ho⟩ := hf d c ks'
        rw [ho] at h
        cases h
theorem bottomUpL_err_total (f : Nat → Cls → List FNode → Except PyErr (List FNode))
    (hf : ∀ d c ks, ∃ ks', f d c ks = .ok ks') : ∀ (ns : List FNode) (fuel d : Nat) (e : PyErr),
    bottomUpL f fuel d ns = .error e → e = .recursionError
  | [], fuel, d, e, h => by unfold bottomUpL at h; cases h
  | k :: rest, fuel, d, e, h => by
    unfold bottomUpL at h
    cases hk : bottomUp f fuel d k with
    | error e2 =>
      rw [hk] at h
      simp only [Except.error.injEq] at h
      rw [← h]
      exact bottomUp_err_total f hf k fuel d e2 hk
    | ok k' =>
      rw [hk] at h
      simp only at h
      cases hr : bottomUpL f fuel d rest with
      | error e2 =>
        rw [hr] at h
        simp only [Except.error.injEq] at h
        rw [← h]
        exact bottomUpL_err_total f hf rest fuel d e2 hr
      | ok rest' => rw [hr] at h; cases h
end

/-- C07: `StripCommentsFilter` raises nothing but `RecursionError`, on every tree -/
theorem stripComments_total (fuel : Nat) (n : FNode) (e : PyErr) (h : stripComments fuel n = .error e) : e = .recursionError :=
  bottomUp_err_total _ (fun _ _ _ => ⟨_, rfl⟩) n fuel 0 e h

/-- C07: `SpacesAroundOperatorsFilter` raises nothing but `RecursionError`, on every tree -/
theorem spaces_total (fuel : Nat) (n : FNode) (e : PyErr) (h : spacesAroundOperators fuel n = .error e) : e = .recursionError :=
  bottomUp_err_total _ (fun _ _ _ => ⟨_, rfl⟩) n fuel 0 e h

/-! ## `StripWhitespaceFilter` -/

theorem wsCode_zero (k : FNode) : (wsCode k == 0) = k.isWhitespace := by
  cases k with
  | tok tt v => by_cases h : tt.isIn T.Whitespace = true <;> simp [wsCode, FNode.isWhitespace, h]
  | grp c cv ks =>
    show ((if ks.any (fun k => !k.isWhitespace) = true then 1 else 2) == 0) = false
    split <;> rfl

theorem dropWhile_codes (l : List FNode) :
    (l.map wsCode).dropWhile (· == 0) = (l.dropWhile FNode.isWhitespace).map wsCode := by
  induction l with
  | nil => rfl
  | cons k l ih =>
    simp only [List.map_cons, List.dropWhile_cons, wsCode_zero]
    by_cases h : k.isWhitespace = true
    · simp [h, ih]
    · simp [h]

theorem any_nonws_codes (l : List FNode) : l.any (fun k => !k.isWhitespace) = (l.map wsCode).any (fun c => c != 0) := by
  induction l with
  | nil => rfl
  | cons k l ih =>
    simp only [List.any_cons, List.map_cons, ih]
    congr 1
    rw [← wsCode_zero]
    cases h : wsCode k == 0 <;> simp_all

theorem dropTrailingWs_ne_nil (l : List FNode) (h : l.any (fun k => !k.isWhitespace) = true) : dropTrailingWs l ≠ [] := by
  intro h0
  obtain ⟨y, hy, hws⟩ := dropTrailingWs_rest_ws l
  rw [h0] at hy
  simp only [List.nil_append] at hy
  rw [List.any_eq_true] at h
  obtain ⟨x, hx, hxn⟩ := h
  rw [hy] at hx
  rw [hws x hx] at hxn
  cases hxn

theorem any_nonws_default (l : List FNode) (a b : Bool) :
    (stripwsDefaultGo a b l).any (fun k => !k.isWhitespace) = l.any (fun k => !k.isWhitespace) := by
  have := map_ws_stripwsDefaultGo l a b
  have h1 : ∀ (m : List FNode), m.any (fun k => !k.isWhitespace) = (m.map FNode.isWhitespace).any (fun b => !b) := by
    intro m; induction m with
    | nil => rfl
    | cons k m ih => simp [ih]
  rw [h1, h1, this]


theorem revdrop_codes (l : List FNode) :
    (l.map wsCode).dropLast.reverse.dropWhile (· == 0) = ((dropTrailingWs l.dropLast).reverse).map wsCode := by
  unfold dropTrailingWs
  rw [List.reverse_reverse, ← List.map_dropLast, ← List.map_reverse, dropWhile_codes]

/-- on a child list with good codes `_stripws_parenthesis` does not raise, and what it returns has a non-whitespace child -/
theorem stripwsParenthesis_ok (ks : List FNode) (h : parenCodesOK (ks.map wsCode) = true) :
    ∃ out, stripwsParenthesis ks = .ok out ∧ out.any (fun k => !k.isWhitespace) = true := by
  unfold stripwsParenthesis
  cases ks with
  | nil => simp [parenCodesOK] at h
  | cons first tl =>
    simp only [List.map_cons, parenCodesOK, dropWhile_codes] at h
    simp only
    cases hdw : tl.dropWhile FNode.isWhitespace with
    | nil => rw [hdw] at h; simp at h
    | cons t1 tl1 =>
      rw [hdw] at h
      simp only [List.map_cons] at h
      have hrc := revdrop_codes (first :: t1 :: tl1)
      simp only [List.map_cons] at hrc
      rw [hrc] at h
      simp only
      cases hrev : (dropTrailingWs (first :: t1 :: tl1).dropLast).reverse with
      | nil => rw [hrev] at h; simp at h
      | cons pen revInit =>
        rw [hrev] at h
        simp only [List.map_cons, bne_iff_ne, ne_eq] at h
        have hpen := dropTrailingWs_last_not_ws _ pen revInit hrev
        have fin : ∀ (pen' last : FNode), pen'.isWhitespace = false →
            (stripwsDefault (revInit.reverse ++ [pen', last])).any (fun k => !k.isWhitespace) = true := by
          intro pen' last hp
          unfold stripwsDefault
          rw [any_nonws_default]
          simp [hp]
        cases pen with
        | tok tt v => exact ⟨_, rfl, fin _ _ hpen⟩
        | grp c cv gks =>
          simp only
          have hany : gks.any (fun k => !k.isWhitespace) = true := by
            simp only [wsCode] at h
            by_cases hg : gks.any (fun k => !k.isWhitespace) = true
            · exact hg
            · simp [hg] at h
          cases hg : dropTrailingWs gks with
          | nil => exact absurd hg (dropTrailingWs_ne_nil gks hany)
          | cons g0 grest => exact ⟨_, rfl, fin _ _ rfl⟩

theorem any_nonws_dropWsBeforeComma : ∀ (l : List FNode),
    (dropWsBeforeComma l).any (fun k => !k.isWhitespace) = l.any (fun k => !k.isWhitespace)
  | [] => rfl
  | a :: rest => by
    unfold dropWsBeforeComma
    have key : ∀ (c : Bool), (c = true → a.isWhitespace = true) →
        (if c = true then dropWsBeforeComma rest else a :: dropWsBeforeComma rest).any (fun k => !k.isWhitespace)
          = (a :: rest).any (fun k => !k.isWhitespace) := by
      intro c hc
      cases c with
      | true => simp [hc rfl, any_nonws_dropWsBeforeComma rest]
      | false => simp [any_nonws_dropWsBeforeComma rest]
    exact key _ (by intro h; simp only [Bool.and_eq_true] at h; exact h.1)

theorem any_nonws_popTrailingWs (l : List FNode) :
    (popTrailingWs l).any (fun k => !k.isWhitespace) = l.any (fun k => !k.isWhitespace) := by
  unfold popTrailingWs
  cases hl : l.getLast? with
  | none => rfl
  | some x =>
    simp only
    by_cases hw : x.isWhitespace = true
    · rw [if_pos hw]
      obtain ⟨ys, hys⟩ := List.getLast?_eq_some_iff.mp hl
      rw [hys]
      simp [hw]
    · rw [if_neg hw]

/-- the level function on a node with good codes: no exception, and "has a non-whitespace child" is unchanged -/
theorem stripwsLevel_ok (d : Nat) (c : Cls) (ks : List FNode)
    (h : (c != .Parenthesis || parenCodesOK (ks.map wsCode)) = true) :
    ∃ out, stripwsLevel d c ks = .ok out ∧ out.any (fun k => !k.isWhitespace) = ks.any (fun k => !k.isWhitespace) := by
  unfold stripwsLevel
  have hd : ∃ out, stripwsDispatch c ks = .ok out ∧ out.any (fun k => !k.isWhitespace) = ks.any (fun k => !k.isWhitespace) := by
    unfold stripwsDispatch
    split
    · exact ⟨_, rfl, by unfold stripwsIdentifierList stripwsDefault; rw [any_nonws_default, any_nonws_dropWsBeforeComma]⟩
    · simp only [bne_self_eq_false, Bool.false_or] at h
      obtain ⟨out, ho, ha⟩ := stripwsParenthesis_ok ks h
      refine ⟨out, ho, ?_⟩
      rw [ha]
      -- the input has a non-whitespace child as well: the codes say so
      have : ks.any (fun k => !k.isWhitespace) = true := by
        rw [any_nonws_codes]
        cases hk : ks.map wsCode with
        | nil => rw [hk] at h; simp [parenCodesOK] at h
        | cons f tl =>
          rw [hk] at h
          simp only [parenCodesOK] at h
          cases hdw : tl.dropWhile (· == 0) with
          | nil => rw [hdw] at h; simp at h
          | cons t1 tl1 =>
            have hmem : t1 ∈ tl := by
              have : t1 ∈ tl.dropWhile (· == 0) := by rw [hdw]; exact List.mem_cons_self
              exact (List.dropWhile_sublist _).subset this
            have ht1 : (t1 == 0) = false := by
              have := dropWhile_head_not (fun c : Nat => c == 0) tl t1 (by rw [hdw]; rfl)
              exact this
            simp only [List.any_cons, Bool.or_eq_true, List.any_eq_true]
            right
            exact ⟨t1, hmem, by simpa using ht1⟩
      exact this.symm
    · exact ⟨_, rfl, by unfold stripwsDefault; rw [any_nonws_default]⟩
  obtain ⟨out, ho, ha⟩ := hd
  rw [ho]
  simp only
  split
  · exact ⟨_, rfl, by rw [any_nonws_popTrailingWs, ha]⟩
  · exact ⟨_, rfl, ha⟩


theorem wsCode_grp (c : Cls) (cv : Text) (a b : List FNode)
    (h : a.any (fun k => !k.isWhitespace) = b.any (fun k => !k.isWhitespace)) :
    wsCode (.grp c cv a) = wsCode (.grp c cv b) := by
  simp only [wsCode, h]

mutual
theorem stripws_node : ∀ (n : FNode) (fuel d : Nat), stripws n = true →
    (∀ n', bottomUp stripwsLevel fuel d n = .ok n' → wsCode n' = wsCode n) ∧
    (∀ e, bottomUp stripwsLevel fuel d n = .error e → e = .recursionError)
  | .tok tt v, fuel, d, _ => by
    constructor
    · intro n' h; unfold bottomUp at h; simp only [Except.ok.injEq] at h; rw [← h]
    · intro e h; unfold bottomUp at h; cases h
  | .grp c cv ks, fuel, d, hs => by
    unfold stripws at hs
    simp only [Bool.and_eq_true] at hs
    cases fuel with
    | zero =>
      constructor
      · intro n' h; unfold bottomUp at h; cases h
      · intro e h; unfold bottomUp at h; simp only [Except.error.injEq] at h; exact h.symm
    | succ fuel' =>
      obtain ⟨ihok, iherr⟩ := stripws_list ks fuel' (d + 1) hs.2
      constructor
      · intro n' h
        unfold bottomUp at h
        simp only at h
        cases hk : bottomUpL stripwsLevel fuel' (d + 1) ks with
        | error e => rw [hk] at h; cases h
        | ok ks' =>
          rw [hk] at h
          simp only at h
          have hcodes := ihok ks' hk
          cases hl : stripwsLevel d c ks' with
          | error e => rw [hl] at h; cases h
          | ok out =>
            rw [hl] at h
            simp only [Except.ok.injEq] at h
            rw [← h]
            have hs1 : (c != .Parenthesis || parenCodesOK (ks'.map wsCode)) = true := by rw [hcodes]; exact hs.1
            obtain ⟨out2, ho2, ha2⟩ := stripwsLevel_ok d c ks' hs1
            rw [hl] at ho2
            simp only [Except.ok.injEq] at ho2
            subst ho2
            apply wsCode_grp
            rw [ha2, any_nonws_codes, any_nonws_codes, hcodes]
      · intro e h
        unfold bottomUp at h
        simp only at h
        cases hk : bottomUpL stripwsLevel fuel' (d + 1) ks with
        | error e2 =>
          rw [hk] at h
          simp only [Except.error.injEq] at h
          rw [← h]; exact iherr e2 hk
        | ok ks' =>
          rw [hk] at h
          simp only at h
          have hcodes := ihok ks' hk
          have hs1 : (c != .Parenthesis || parenCodesOK (ks'.map wsCode)) = true := by rw [hcodes]; exact hs.1
          obtain ⟨out2, ho2, _⟩ := stripwsLevel_ok d c ks' hs1
          rw [ho2] at h
          cases h
theorem stripws_list : ∀ (ns : List FNode) (fuel d : Nat), stripwsL ns = true →
    (∀ ns', bottomUpL stripwsLevel fuel d ns = .ok ns' → ns'.map wsCode = ns.map wsCode) ∧
    (∀ e, bottomUpL stripwsLevel fuel d ns = .error e → e = .recursionError)
  | [], fuel, d, _ => by
    constructor
    · intro ns' h; unfold bottomUpL at h; simp only [Except.ok.injEq] at h; rw [← h]
    · intro e h; unfold bottomUpL at h; cases h
  | k :: rest, fuel, d, hs => by
    unfold stripwsL at hs
    simp only [Bool.and_eq_true] at hs
    obtain ⟨kok, kerr⟩ := stripws_node k fuel d hs.1
    obtain ⟨rok, rerr⟩ := stripws_list rest fuel d hs.2
    constructor
    · intro ns' h
      unfold bottomUpL at h
      cases hk : bottomUp stripwsLevel fuel d k with
      | error e => rw [hk] at h; cases h
      | ok k' =>
        rw [hk] at h
        simp only at h
        cases hr : bottomUpL stripwsLevel fuel d rest with
        | error e => rw [hr] at h; cases h
        | ok rest' =>
          rw [hr] at h
          simp only [Except.ok.injEq] at h
          rw [← h, List.map_cons, List.map_cons, kok k' hk, rok rest' hr]
    · intro e h
      unfold bottomUpL at h
      cases hk : bottomUp stripwsLevel fuel d k with
      | error e2 =>
        rw [hk] at h
        simp only [Except.error.injEq] at h
        rw [← h]; exact kerr e2 hk
      | ok k' =>
        rw [hk] at h
        simp only at h
        cases hr : bottomUpL stripwsLevel fuel d rest with
        | error e2 =>
          rw [hr] at h
          simp only [Except.error.injEq] at h
          rw [← h]; exact rerr e2 hr
        | ok rest' => rw [hr] at h; cases h
end

/-- C07 / KF-C07-1 as a theorem: on the domain `FilterSafe.stripws` (every `Parenthesis` group's child list passes
`parenCodesOK`) `StripWhitespaceFilter` raises nothing but `RecursionError` -/
theorem stripWhitespace_total (fuel : Nat) (n : FNode) (hs : FilterSafe.stripws n = true) (e : PyErr)
    (h : stripWhitespace fuel n = .error e) : e = .recursionError :=
  (stripws_node n fuel 0 hs).2 e h

/-- the domain is exact at the level of one parenthesis: outside it `_stripws_parenthesis` raises `IndexError` -/
theorem stripwsParenthesis_fails (ks : List FNode) (h : parenCodesOK (ks.map wsCode) = false) :
    stripwsParenthesis ks = .error .indexError := by
  unfold stripwsParenthesis
  cases ks with
  | nil => rfl
  | cons first tl =>
    simp only [List.map_cons, parenCodesOK, dropWhile_codes] at h
    simp only
    cases hdw : tl.dropWhile FNode.isWhitespace with
    | nil => rfl
    | cons t1 tl1 =>
      rw [hdw] at h
      simp only [List.map_cons] at h
      have hrc := revdrop_codes (first :: t1 :: tl1)
      simp only [List.map_cons] at hrc
      rw [hrc] at h
      simp only
      cases hrev : (dropTrailingWs (first :: t1 :: tl1).dropLast).reverse with
      | nil => rfl
      | cons pen revInit =>
        rw [hrev] at h
        simp only [List.map_cons, bne_eq_false_iff_eq] at h
        cases pen with
        | tok tt v => simp only [wsCode] at h; split at h <;> cases h
        | grp c cv gks =>
          simp only
          have hany : gks.any (fun k => !k.isWhitespace) = false := by
            simp only [wsCode] at h
            by_cases hg : gks.any (fun k => !k.isWhitespace) = true
            · simp [hg] at h
            · simpa using hg
          have : dropTrailingWs gks = [] := by
            obtain ⟨y, hy, _⟩ := dropTrailingWs_rest_ws gks
            cases hd : dropTrailingWs gks with
            | nil => rfl
            | cons g0 gr =>
              exfalso
              have hl := dropTrailingWs_last_not_ws gks ((g0 :: gr).reverse.head (by simp)) ((g0 :: gr).reverse.tail)
                (by rw [hd]; simp)
              have hmem : (g0 :: gr).reverse.head (by simp) ∈ gks := by
                rw [hy, hd]
                apply List.mem_append_left
                exact List.mem_reverse.mp (List.head_mem _)
              have := List.any_eq_false.mp hany _ hmem
              rw [hl] at this
              simp at this
          rw [this]

end Sql
