import SqlProofs.StripwsSpec
import SqlProofs.IndentSpec
import SqlModel.Filters.Safe
/-!
# SqlProofs.FilterTotal — C07 for the statement filters: domains on which nothing but `RecursionError` is raised

The decidable domains are defined in `SqlModel/Filters/Safe.lean` (`FilterSafe.stripws`, `.aligned`, `.reindent`); the driver
command `filtersafe` evaluates them.  Theorems: `stripComments_total`, `spaces_total` (no hypothesis), `stripWhitespace_total`
(+ `stripwsParenthesis_fails`: outside the domain `_stripws_parenthesis` raises `IndexError`), `aligned_total`,
`reindent_total`, and for a whole stack `runStmtObjs_total`.
-/
set_option linter.unusedSimpArgs false
namespace Sql
open FNode (leaves leavesL)
open FilterSafe

/-! ## filters whose level function cannot fail: `StripCommentsFilter`, `SpacesAroundOperatorsFilter` -/

mutual
theorem bottomUp_err_total (f : Nat → Cls → List FNode → Except PyErr (List FNode))
    (hf : ∀ d c ks, ∃ ks', f d c ks = .ok ks') : ∀ (n : FNode) (fuel d : Nat) (e : PyErr),
    bottomUp f fuel d n = .error e → e = .recursionError
  | .tok tt v, fuel, d, e, h => by unfold bottomUp at h; cases h
  | .grp c cv ks, fuel, d, e, h => by
    unfold bottomUp at h
    cases fuel with
    | zero => simp only [Except.error.injEq] at h; exact h.symm
    | succ fuel' =>
      simp only at h
      cases hk : bottomUpL f fuel' (d + 1) ks with
      | error e2 =>
        rw [hk] at h
        simp only [Except.error.injEq] at h
        rw [← h]
        exact bottomUpL_err_total f hf ks fuel' (d + 1) e2 hk
      | ok ks' =>
        rw [hk] at h
        simp only at h
        obtain ⟨out, ho⟩ := hf d c ks'
        rw [ho] at h
        cases h
theorem bottomUpL_err_total (f : Nat → Cls → List FNode → Except PyErr (List FNode))
    (hf : ∀ d c ks, ∃ ks', f d c ks = .ok ks') : ∀ (ns : List FNode) (fuel d : Nat) (e : PyErr),
    bottomUpL f fuel d ns = .error e → e = .recursionError
  | [], fuel, d, e, h => by unfold bottomUpL at h; cases h
  | k :: rest, fuel, d, e, h => by
    unfold bottomUpL at h
    cases hk : bottomUp f fuel d k with
    | error e2 =>
      rw [hk] at h
      simp only [Except.error.injEq] at h
      rw [← h]
      exact bottomUp_err_total f hf k fuel d e2 hk
    | ok k' =>
      rw [hk] at h
      simp only at h
      cases hr : bottomUpL f fuel d rest with
      | error e2 =>
        rw [hr] at h
        simp only [Except.error.injEq] at h
        rw [← h]
        exact bottomUpL_err_total f hf rest fuel d e2 hr
      | ok rest' => rw [hr] at h; cases h
end

/-- C07: `StripCommentsFilter` raises nothing but `RecursionError`, on every tree -/
theorem stripComments_total (fuel : Nat) (n : FNode) (e : PyErr) (h : stripComments fuel n = .error e) : e = .recursionError :=
  bottomUp_err_total _ (fun _ _ _ => ⟨_, rfl⟩) n fuel 0 e h

/-- C07: `SpacesAroundOperatorsFilter` raises nothing but `RecursionError`, on every tree -/
theorem spaces_total (fuel : Nat) (n : FNode) (e : PyErr) (h : spacesAroundOperators fuel n = .error e) : e = .recursionError :=
  bottomUp_err_total _ (fun _ _ _ => ⟨_, rfl⟩) n fuel 0 e h

/-! ## `StripWhitespaceFilter` -/

theorem wsCode_zero (k : FNode) : (wsCode k == 0) = k.isWhitespace := by
  cases k with
  | tok tt v => by_cases h : tt.isIn T.Whitespace = true <;> simp [wsCode, FNode.isWhitespace, h]
  | grp c cv ks =>
    show ((if ks.any (fun k => !k.isWhitespace) = true then 1 else 2) == 0) = false
    split <;> rfl

theorem dropWhile_codes (l : List FNode) :
    (l.map wsCode).dropWhile (· == 0) = (l.dropWhile FNode.isWhitespace).map wsCode := by
  induction l with
  | nil => rfl
  | cons k l ih =>
    simp only [List.map_cons, List.dropWhile_cons, wsCode_zero]
    by_cases h : k.isWhitespace = true
    · simp [h, ih]
    · simp [h]

theorem any_nonws_codes (l : List FNode) : l.any (fun k => !k.isWhitespace) = (l.map wsCode).any (fun c => c != 0) := by
  induction l with
  | nil => rfl
  | cons k l ih =>
    simp only [List.any_cons, List.map_cons, ih]
    congr 1
    rw [← wsCode_zero]
    cases h : wsCode k == 0 <;> simp_all

theorem dropTrailingWs_ne_nil (l : List FNode) (h : l.any (fun k => !k.isWhitespace) = true) : dropTrailingWs l ≠ [] := by
  intro h0
  obtain ⟨y, hy, hws⟩ := dropTrailingWs_rest_ws l
  rw [h0] at hy
  simp only [List.nil_append] at hy
  rw [List.any_eq_true] at h
  obtain ⟨x, hx, hxn⟩ := h
  rw [hy] at hx
  rw [hws x hx] at hxn
  cases hxn

theorem any_nonws_default (l : List FNode) (a b : Bool) :
    (stripwsDefaultGo a b l).any (fun k => !k.isWhitespace) = l.any (fun k => !k.isWhitespace) := by
  have := map_ws_stripwsDefaultGo l a b
  have h1 : ∀ (m : List FNode), m.any (fun k => !k.isWhitespace) = (m.map FNode.isWhitespace).any (fun b => !b) := by
    intro m; induction m with
    | nil => rfl
    | cons k m ih => simp [ih]
  rw [h1, h1, this]


theorem map_popLeadBy {α β : Type} (f : α → β) (p : α → Bool) (q : β → Bool) (hpq : ∀ x, q (f x) = p x) :
    ∀ (l : List α), (popLeadBy p l).map f = popLeadBy q (l.map f)
  | [] => rfl
  | [b] => by simp [popLeadBy_single]
  | b :: c :: r => by
    rw [popLeadBy_cons2, List.map_cons, List.map_cons, popLeadBy_cons2, hpq]
    split
    · have := map_popLeadBy f p q hpq (c :: r)
      simpa using this
    · simp

theorem map_trimAfterFirstBy {α β : Type} (f : α → β) (p : α → Bool) (q : β → Bool) (hpq : ∀ x, q (f x) = p x) (l : List α) :
    (trimAfterFirstBy p l).map f = trimAfterFirstBy q (l.map f) := by
  cases l with
  | nil => rfl
  | cons a tl => simp [trimAfterFirstBy, map_popLeadBy f p q hpq]

theorem map_trimInsideBy {α β : Type} (f : α → β) (p : α → Bool) (q : β → Bool) (hpq : ∀ x, q (f x) = p x) (l : List α) :
    (trimInsideBy p l).map f = trimInsideBy q (l.map f) := by
  unfold trimInsideBy trimBeforeLastBy
  rw [List.map_reverse, map_trimAfterFirstBy f p q hpq, List.map_reverse, map_trimAfterFirstBy f p q hpq]

theorem any_nonws_of_del {l' l : List FNode} (h : Del FNode.isWhitespace l' l) :
    l'.any (fun k => !k.isWhitespace) = l.any (fun k => !k.isWhitespace) := by
  induction h with
  | nil => rfl
  | keep _ ih => simp [ih]
  | drop hx _ ih => simp [ih, hx]

theorem any_nonws_of_map {a b : List FNode} (h : a.map FNode.isWhitespace = b.map FNode.isWhitespace) :
    a.any (fun k => !k.isWhitespace) = b.any (fun k => !k.isWhitespace) := by
  have h1 : ∀ (m : List FNode), m.any (fun k => !k.isWhitespace) = (m.map FNode.isWhitespace).any (fun b => !b) := by
    intro m; induction m with
    | nil => rfl
    | cons k m ih => simp [ih]
  rw [h1, h1, h]

/-- the codes of the list after the two loops, reversed: what `trimPenGroup` looks at -/
theorem codes_reverse (ks : List FNode) :
    (trimInsideBy (· == 0) (ks.map wsCode)).reverse = ((trimInsideBy FNode.isWhitespace ks).reverse).map wsCode := by
  rw [List.map_reverse, map_trimInsideBy wsCode FNode.isWhitespace (· == 0) wsCode_zero]

/-- on a child list with good codes `_stripws_parenthesis` does not raise, and "has a non-whitespace child" is unchanged -/
theorem stripwsParenthesis_ok (ks : List FNode) (h : parenCodesOK (ks.map wsCode) = true) :
    ∃ out, stripwsParenthesis ks = .ok out ∧
      out.any (fun k => !k.isWhitespace) = ks.any (fun k => !k.isWhitespace) := by
  unfold parenCodesOK at h
  rw [codes_reverse] at h
  have fin : ∀ l3, trimPenGroup (trimInsideBy FNode.isWhitespace ks) = .ok l3 →
      ∃ out, stripwsParenthesis ks = .ok out ∧ out.any (fun k => !k.isWhitespace) = ks.any (fun k => !k.isWhitespace) := by
    intro l3 hl3
    refine ⟨stripwsDefault l3, by unfold stripwsParenthesis; rw [hl3], ?_⟩
    unfold stripwsDefault
    rw [any_nonws_default, any_nonws_of_map (map_ws_trimPenGroup _ _ hl3), any_nonws_of_del (trimInsideBy_del _ ks)]
  cases hr : (trimInsideBy FNode.isWhitespace ks).reverse with
  | nil => exact fin _ (by unfold trimPenGroup; rw [hr])
  | cons last r1 =>
    cases r1 with
    | nil => exact fin _ (by unfold trimPenGroup; rw [hr])
    | cons pen revInit =>
      rw [hr] at h
      simp only [List.map_cons, bne_iff_ne, ne_eq] at h
      cases pen with
      | tok tt v => exact fin _ (by unfold trimPenGroup; rw [hr])
      | grp c cv gks =>
        have hany : gks.any (fun k => !k.isWhitespace) = true := by
          simp only [wsCode] at h
          by_cases hg : gks.any (fun k => !k.isWhitespace) = true
          · exact hg
          · simp [hg] at h
        cases hg : dropTrailingWs gks with
        | nil => exact absurd hg (dropTrailingWs_ne_nil gks hany)
        | cons g0 grest =>
          exact fin (revInit.reverse ++ [.grp c cv (g0 :: grest), last]) (by unfold trimPenGroup; rw [hr]; simp only [hg])

theorem any_nonws_dropWsBeforeComma : ∀ (l : List FNode),
    (dropWsBeforeComma l).any (fun k => !k.isWhitespace) = l.any (fun k => !k.isWhitespace)
  | [] => rfl
  | a :: rest => by
    unfold dropWsBeforeComma
    have key : ∀ (c : Bool), (c = true → a.isWhitespace = true) →
        (if c = true then dropWsBeforeComma rest else a :: dropWsBeforeComma rest).any (fun k => !k.isWhitespace)
          = (a :: rest).any (fun k => !k.isWhitespace) := by
      intro c hc
      cases c with
      | true => simp [hc rfl, any_nonws_dropWsBeforeComma rest]
      | false => simp [any_nonws_dropWsBeforeComma rest]
    exact key _ (by intro h; simp only [Bool.and_eq_true] at h; exact h.1)

theorem any_nonws_popTrailingWs (l : List FNode) :
    (popTrailingWs l).any (fun k => !k.isWhitespace) = l.any (fun k => !k.isWhitespace) := by
  unfold popTrailingWs
  cases hl : l.getLast? with
  | none => rfl
  | some x =>
    simp only
    by_cases hw : x.isWhitespace = true
    · rw [if_pos hw]
      obtain ⟨ys, hys⟩ := List.getLast?_eq_some_iff.mp hl
      rw [hys]
      simp [hw]
    · rw [if_neg hw]

/-- the level function on a node with good codes: no exception, and "has a non-whitespace child" is unchanged -/
theorem stripwsLevel_ok (d : Nat) (c : Cls) (ks : List FNode)
    (h : (c != .Parenthesis || parenCodesOK (ks.map wsCode)) = true) :
    ∃ out, stripwsLevel d c ks = .ok out ∧ out.any (fun k => !k.isWhitespace) = ks.any (fun k => !k.isWhitespace) := by
  unfold stripwsLevel
  have hd : ∃ out, stripwsDispatch c ks = .ok out ∧ out.any (fun k => !k.isWhitespace) = ks.any (fun k => !k.isWhitespace) := by
    unfold stripwsDispatch
    split
    · exact ⟨_, rfl, by unfold stripwsIdentifierList stripwsDefault; rw [any_nonws_default, any_nonws_dropWsBeforeComma]⟩
    · simp only [bne_self_eq_false, Bool.false_or] at h
      exact stripwsParenthesis_ok ks h
    · exact ⟨_, rfl, by unfold stripwsDefault; rw [any_nonws_default]⟩
  obtain ⟨out, ho, ha⟩ := hd
  rw [ho]
  simp only
  split
  · exact ⟨_, rfl, by rw [any_nonws_popTrailingWs, ha]⟩
  · exact ⟨_, rfl, ha⟩


theorem wsCode_grp (c : Cls) (cv : Text) (a b : List FNode)
    (h : a.any (fun k => !k.isWhitespace) = b.any (fun k => !k.isWhitespace)) :
    wsCode (.grp c cv a) = wsCode (.grp c cv b) := by
  simp only [wsCode, h]

mutual
theorem stripws_node : ∀ (n : FNode) (fuel d : Nat), stripws n = true →
    (∀ n', bottomUp stripwsLevel fuel d n = .ok n' → wsCode n' = wsCode n) ∧
    (∀ e, bottomUp stripwsLevel fuel d n = .error e → e = .recursionError)
  | .tok tt v, fuel, d, _ => by
    constructor
    · intro n' h; unfold bottomUp at h; simp only [Except.ok.injEq] at h; rw [← h]
    · intro e h; unfold bottomUp at h; cases h
  | .grp c cv ks, fuel, d, hs => by
    unfold stripws at hs
    simp only [Bool.and_eq_true] at hs
    cases fuel with
    | zero =>
      constructor
      · intro n' h; unfold bottomUp at h; cases h
      · intro e h; unfold bottomUp at h; simp only [Except.error.injEq] at h; exact h.symm
    | succ fuel' =>
      obtain ⟨ihok, iherr⟩ := stripws_list ks fuel' (d + 1) hs.2
      constructor
      · intro n' h
        unfold bottomUp at h
        simp only at h
        cases hk : bottomUpL stripwsLevel fuel' (d + 1) ks with
        | error e => rw [hk] at h; cases h
        | ok ks' =>
          rw [hk] at h
          simp only at h
          have hcodes := ihok ks' hk
          cases hl : stripwsLevel d c ks' with
          | error e => rw [hl] at h; cases h
          | ok out =>
            rw [hl] at h
            simp only [Except.ok.injEq] at h
            rw [← h]
            have hs1 : (c != .Parenthesis || parenCodesOK (ks'.map wsCode)) = true := by rw [hcodes]; exact hs.1
            obtain ⟨out2, ho2, ha2⟩ := stripwsLevel_ok d c ks' hs1
            rw [hl] at ho2
            simp only [Except.ok.injEq] at ho2
            subst ho2
            apply wsCode_grp
            rw [ha2, any_nonws_codes, any_nonws_codes, hcodes]
      · intro e h
        unfold bottomUp at h
        simp only at h
        cases hk : bottomUpL stripwsLevel fuel' (d + 1) ks with
        | error e2 =>
          rw [hk] at h
          simp only [Except.error.injEq] at h
          rw [← h]; exact iherr e2 hk
        | ok ks' =>
          rw [hk] at h
          simp only at h
          have hcodes := ihok ks' hk
          have hs1 : (c != .Parenthesis || parenCodesOK (ks'.map wsCode)) = true := by rw [hcodes]; exact hs.1
          obtain ⟨out2, ho2, _⟩ := stripwsLevel_ok d c ks' hs1
          rw [ho2] at h
          cases h
theorem stripws_list : ∀ (ns : List FNode) (fuel d : Nat), stripwsL ns = true →
    (∀ ns', bottomUpL stripwsLevel fuel d ns = .ok ns' → ns'.map wsCode = ns.map wsCode) ∧
    (∀ e, bottomUpL stripwsLevel fuel d ns = .error e → e = .recursionError)
  | [], fuel, d, _ => by
    constructor
    · intro ns' h; unfold bottomUpL at h; simp only [Except.ok.injEq] at h; rw [← h]
    · intro e h; unfold bottomUpL at h; cases h
  | k :: rest, fuel, d, hs => by
    unfold stripwsL at hs
    simp only [Bool.and_eq_true] at hs
    obtain ⟨kok, kerr⟩ := stripws_node k fuel d hs.1
    obtain ⟨rok, rerr⟩ := stripws_list rest fuel d hs.2
    constructor
    · intro ns' h
      unfold bottomUpL at h
      cases hk : bottomUp stripwsLevel fuel d k with
      | error e => rw [hk] at h; cases h
      | ok k' =>
        rw [hk] at h
        simp only at h
        cases hr : bottomUpL stripwsLevel fuel d rest with
        | error e => rw [hr] at h; cases h
        | ok rest' =>
          rw [hr] at h
          simp only [Except.ok.injEq] at h
          rw [← h, List.map_cons, List.map_cons, kok k' hk, rok rest' hr]
    · intro e h
      unfold bottomUpL at h
      cases hk : bottomUp stripwsLevel fuel d k with
      | error e2 =>
        rw [hk] at h
        simp only [Except.error.injEq] at h
        rw [← h]; exact kerr e2 hk
      | ok k' =>
        rw [hk] at h
        simp only at h
        cases hr : bottomUpL stripwsLevel fuel d rest with
        | error e2 =>
          rw [hr] at h
          simp only [Except.error.injEq] at h
          rw [← h]; exact rerr e2 hr
        | ok rest' => rw [hr] at h; cases h
end

/-- C07 / KF-C07-1 as a theorem: on the domain `FilterSafe.stripws` (every `Parenthesis` group's child list passes
`parenCodesOK`) `StripWhitespaceFilter` raises nothing but `RecursionError` -/
theorem stripWhitespace_total (fuel : Nat) (n : FNode) (hs : FilterSafe.stripws n = true) (e : PyErr)
    (h : stripWhitespace fuel n = .error e) : e = .recursionError :=
  (stripws_node n fuel 0 hs).2 e h

/-- the domain is exact at the level of one parenthesis: outside it `_stripws_parenthesis` raises `IndexError`
(`tokens[-2].tokens[-1]` on the emptied child list of a whitespace-only group) -/
theorem stripwsParenthesis_fails (ks : List FNode) (h : parenCodesOK (ks.map wsCode) = false) :
    stripwsParenthesis ks = .error .indexError := by
  unfold parenCodesOK at h
  rw [codes_reverse] at h
  cases hr : (trimInsideBy FNode.isWhitespace ks).reverse with
  | nil => rw [hr] at h; simp at h
  | cons last r1 =>
    cases r1 with
    | nil => rw [hr] at h; simp at h
    | cons pen revInit =>
      rw [hr] at h
      simp only [List.map_cons, bne_eq_false_iff_eq] at h
      cases pen with
      | tok tt v => simp only [wsCode] at h; split at h <;> cases h
      | grp c cv gks =>
        have hany : gks.any (fun k => !k.isWhitespace) = false := by
          simp only [wsCode] at h
          by_cases hg : gks.any (fun k => !k.isWhitespace) = true
          · simp [hg] at h
          · simpa using hg
        have hd : dropTrailingWs gks = [] := by
          obtain ⟨y, hy, _⟩ := dropTrailingWs_rest_ws gks
          cases hd : dropTrailingWs gks with
          | nil => rfl
          | cons g0 gr =>
            exfalso
            have hl := dropTrailingWs_last_not_ws gks ((g0 :: gr).reverse.head (by simp)) ((g0 :: gr).reverse.tail)
              (by rw [hd]; simp)
            have hmem : (g0 :: gr).reverse.head (by simp) ∈ gks := by
              rw [hy, hd]
              apply List.mem_append_left
              exact List.mem_reverse.mp (List.head_mem _)
            have := List.any_eq_false.mp hany _ hmem
            rw [hl] at this
            simp at this
        unfold stripwsParenthesis trimPenGroup
        rw [hr]
        simp only [hd]

/-! ## `AlignedIndentFilter` -/

theorem alignedL_iff : ∀ (l : List FNode), alignedL l = true ↔ ∀ x ∈ l, aligned x = true
  | [] => by simp [alignedL]
  | k :: l => by
    simp only [alignedL, Bool.and_eq_true, List.mem_cons, forall_eq_or_imp, alignedL_iff l]

theorem aligned_tok (tt : TType) (v : Text) : aligned (.tok tt v) = true := by simp [aligned]

/-- elements of the `_split_kwds` output: the old children and inserted leaves -/
theorem mem_splitKwdsGo (isSplit : FNode → Bool) (emit : List FNode → FNode → List FNode)
    (hemit : ∀ done k x, x ∈ emit done k → x ∈ done ∨ x = k ∨ x.isGroup = false) :
    ∀ (rest : List FNode) (d : Nat) (done : List FNode) (x : FNode), x ∈ splitKwdsGo isSplit emit d done rest →
      x ∈ done ∨ x ∈ rest ∨ x.isGroup = false
  | [], d, done, x, h => by simp only [splitKwdsGo, List.mem_reverse] at h; exact Or.inl h
  | k :: rest, d, done, x, h => by
    have lift : (x ∈ k :: done ∨ x ∈ rest ∨ x.isGroup = false) → (x ∈ done ∨ x ∈ k :: rest ∨ x.isGroup = false) := by
      rintro (h1 | h1 | h1)
      · rcases List.mem_cons.mp h1 with rfl | h2
        · exact Or.inr (Or.inl List.mem_cons_self)
        · exact Or.inl h2
      · exact Or.inr (Or.inl (List.mem_cons_of_mem _ h1))
      · exact Or.inr (Or.inr h1)
    unfold splitKwdsGo at h
    split at h
    · exact lift (mem_splitKwdsGo isSplit emit hemit rest _ _ x h)
    · split at h
      · exact lift (mem_splitKwdsGo isSplit emit hemit rest _ _ x h)
      · split at h
        · exact lift (mem_splitKwdsGo isSplit emit hemit rest _ _ x h)
        · rcases mem_splitKwdsGo isSplit emit hemit rest _ _ x h with h1 | h1 | h1
          · rcases hemit done k x h1 with h2 | h2 | h2
            · exact Or.inl h2
            · exact Or.inr (Or.inl (by rw [h2]; exact List.mem_cons_self))
            · exact Or.inr (Or.inr h2)
          · exact Or.inr (Or.inl (List.mem_cons_of_mem _ h1))
          · exact Or.inr (Or.inr h1)

theorem aligned_of_leaf (x : FNode) (h : x.isGroup = false) : aligned x = true := by
  cases x with
  | tok tt v => exact aligned_tok tt v
  | grp c cv ks => cases h

theorem alignedL_aSplitKwds (ch : Text) (st : ASt) (ks : List FNode) (h : alignedL ks = true) :
    alignedL (aSplitKwds ch st ks) = true := by
  rw [alignedL_iff] at h ⊢
  intro x hx
  unfold aSplitKwds at hx
  rcases mem_splitKwdsGo _ _ (by
      intro done k x hx
      unfold aEmitKwd at hx
      simp only [List.mem_cons] at hx
      rcases hx with rfl | rfl | hx
      · exact Or.inr (Or.inl rfl)
      · exact Or.inr (Or.inr rfl)
      · exact Or.inl hx) ks 0 [] x hx with h1 | h1 | h1
  · simp at h1
  · exact h x h1
  · exact aligned_of_leaf x h1

/-- what the handlers assume about the recursive call -/
def ARecSafe (rec : ARec) : Prop := ∀ s n e, aligned n = true → rec s n = .error e → e = .recursionError

theorem aKidsGo_err (rec : ARec) (hrec : ARecSafe rec) : ∀ (rest done : List FNode) (st : ASt) (e : PyErr),
    alignedL rest = true → aKidsGo rec st done rest = .error e → e = .recursionError
  | [], done, st, e, _, h => by simp [aKidsGo] at h
  | k :: rest, done, st, e, hs, h => by
    simp only [alignedL, Bool.and_eq_true] at hs
    unfold aKidsGo at h
    split at h
    · simp only at h
      split at h
      · rename_i e2 he2
        simp only [Except.error.injEq] at h
        rw [← h]; exact hrec _ _ _ hs.1 he2
      · exact aKidsGo_err rec hrec rest _ _ e hs.2 h
    · exact aKidsGo_err rec hrec rest _ _ e hs.2 h

theorem aDefault_err (ch : Text) (rec : ARec) (hrec : ARecSafe rec) (st : ASt) (ks : List FNode) (e : PyErr)
    (hs : alignedL ks = true) (h : aDefault ch rec st ks = .error e) : e = .recursionError := by
  unfold aDefault at h
  exact aKidsGo_err rec hrec _ _ _ e (alignedL_aSplitKwds ch st ks hs) h

theorem alignedL_insertAt (l : List FNode) (i : Nat) (x : FNode) (hx : x.isGroup = false) (h : alignedL l = true) :
    alignedL (insertAt l i x) = true := by
  rw [alignedL_iff] at h ⊢
  intro y hy
  unfold insertAt at hy
  rcases List.mem_append.mp hy with h1 | h1
  · exact h y (List.mem_of_mem_take h1)
  · rcases List.mem_cons.mp h1 with rfl | h2
    · exact aligned_of_leaf _ hx
    · exact h y (List.mem_of_mem_drop h2)

theorem alignedL_insertAfterIdx (l : List FNode) (i : Nat) (x : FNode) (hx : x.isGroup = false) (h : alignedL l = true) :
    alignedL (insertAfterIdx FNode.isWhitespace l i x) = true := by
  unfold insertAfterIdx
  split
  · exact alignedL_insertAt l _ x hx h
  · rw [alignedL_iff] at h ⊢
    intro y hy
    rcases List.mem_append.mp hy with h1 | h1
    · exact h y h1
    · simp only [List.mem_singleton] at h1; rw [h1]; exact aligned_of_leaf _ hx

theorem alignedL_aBreakIdentifiers (nl : FNode) (hnl : nl.isGroup = false) : ∀ (l : List FNode) (b : Bool),
    alignedL l = true → alignedL (aBreakIdentifiers nl b l) = true
  | [], _, _ => rfl
  | k :: rest, b, h => by
    simp only [alignedL, Bool.and_eq_true] at h
    unfold aBreakIdentifiers
    split
    · split
      · simp only [alignedL, Bool.and_eq_true]
        exact ⟨aligned_of_leaf _ hnl, h.1, alignedL_aBreakIdentifiers nl hnl rest _ h.2⟩
      · simp only [alignedL, Bool.and_eq_true]
        exact ⟨h.1, alignedL_aBreakIdentifiers nl hnl rest _ h.2⟩
    · simp only [alignedL, Bool.and_eq_true]
      exact ⟨h.1, alignedL_aBreakIdentifiers nl hnl rest _ h.2⟩


/-! ### `_process_case`: the children the cases refer to stay findable -/

def tagPresent (tl : TL) (t : Nat) : Bool := (tlIndex tl t).isSome

theorem tagPresent_any (tl : TL) (t : Nat) : tagPresent tl t = tl.any (fun e => e.1 == t) := by
  simp [tagPresent, tlIndex, List.findIdx?_isSome]

theorem tagPresent_insertAt (tl : TL) (i : Nat) (e : Nat × FNode) (t : Nat) (h : tagPresent tl t = true) :
    tagPresent (insertAt tl i e) t = true := by
  rw [tagPresent_any] at h ⊢
  unfold insertAt
  have : tl.any (fun e => e.1 == t) = ((tl.take i).any (fun e => e.1 == t) || (tl.drop i).any (fun e => e.1 == t)) := by
    rw [← List.any_append, List.take_append_drop]
  rw [this] at h
  rw [List.any_append, List.any_cons]
  rcases Bool.or_eq_true _ _ |>.mp h with h1 | h1 <;> simp [h1]

theorem tagPresent_insertAfterIdx (tl : TL) (i : Nat) (e : Nat × FNode) (t : Nat) (h : tagPresent tl t = true) :
    tagPresent (insertAfterIdx tlWs tl i e) t = true := by
  unfold insertAfterIdx
  split
  · exact tagPresent_insertAt tl _ e t h
  · rw [tagPresent_any] at h ⊢
    rw [List.any_append, h]; rfl

/-- an item of the aligned case loop whose references can be resolved in `tl0` -/
def ItemOK (tl0 : TL) (it : Option TL × Option (Nat × FNode)) : Prop :=
  (∀ t n, it.2 = some (t, n) → tagPresent tl0 t = true) ∧
  (∀ c0 cr, it.1 = some (c0 :: cr) → tagPresent tl0 ((c0 :: cr).getLast?.getD c0).1 = true)

theorem aCaseLoop_ok (ch : Text) (st : ASt) (maxW : Nat) (tl0 : TL) :
    ∀ (items : List (Option TL × Option (Nat × FNode))) (i : Nat) (tl : TL),
      (∀ t, tagPresent tl0 t = true → tagPresent tl t = true) →
      (∀ it ∈ items, ItemOK tl0 it) →
      (i = 0 ∨ ∀ it ∈ items.take 1, it.2 ≠ none) → (∀ it ∈ items.drop 1, it.2 ≠ none) →
      ∃ tl', aCaseLoop ch st maxW i tl items = .ok tl'
  | [], i, tl, _, _, _, _ => ⟨tl, rfl⟩
  | (cond, stmt) :: rest, i, tl, hsup, hok, hfirst, hrest => by
    unfold aCaseLoop
    have hit := hok (cond, stmt) List.mem_cons_self
    have h1 : ∃ tl1, aCaseBreak ch st i tl stmt = .ok tl1 ∧ (∀ t, tagPresent tl0 t = true → tagPresent tl1 t = true) := by
      unfold aCaseBreak
      by_cases hi : i > 0
      · rw [if_pos hi]
        have hne : stmt ≠ none := by
          rcases hfirst with h0 | h0
          · omega
          · exact h0 (cond, stmt) (by simp)
        cases stmt with
        | none => exact absurd rfl hne
        | some tn =>
          obtain ⟨t, n⟩ := tn
          have hp := hsup t (hit.1 t n rfl)
          simp only [tagPresent] at hp
          simp only
          cases hx : tlIndex tl t with
          | none => rw [hx] at hp; cases hp
          | some idx => exact ⟨_, rfl, fun t' ht' => tagPresent_insertAt tl idx _ t' (hsup t' ht')⟩
      · rw [if_neg hi]; exact ⟨tl, rfl, hsup⟩
    obtain ⟨tl1, he1, hsup1⟩ := h1
    rw [he1]
    simp only
    have h2 : ∃ tl2, aCasePad ch maxW tl1 cond = .ok tl2 ∧ (∀ t, tagPresent tl0 t = true → tagPresent tl2 t = true) := by
      unfold aCasePad
      cases cond with
      | none => exact ⟨tl1, rfl, hsup1⟩
      | some c =>
        cases c with
        | nil => exact ⟨tl1, rfl, hsup1⟩
        | cons c0 cr =>
          simp only
          have hp := hsup1 _ (hit.2 c0 cr rfl)
          simp only [tagPresent] at hp
          cases hx : tlIndex tl1 ((c0 :: cr).getLast?.getD c0).1 with
          | none => rw [hx] at hp; cases hp
          | some idx => exact ⟨_, rfl, fun t' ht' => tagPresent_insertAfterIdx tl1 idx _ t' (hsup1 t' ht')⟩
    obtain ⟨tl2, he2, hsup2⟩ := h2
    rw [he2]
    simp only
    apply aCaseLoop_ok ch st maxW tl0 rest (i + 1) tl2 hsup2 (fun it hi => hok it (List.mem_cons_of_mem _ hi))
    · right
      intro it hi
      apply hrest it
      simp only [List.drop_one, List.tail_cons]
      exact List.mem_of_mem_take hi
    · intro it hi
      apply hrest it
      simp only [List.drop_one, List.tail_cons]
      exact List.mem_of_mem_drop hi


/-- the entry for the `END` child, if there is one -/
def endItems (endTok : Option (Nat × FNode)) : List (Option TL × Option (Nat × FNode)) :=
  (endTok.map fun e => ((none : Option TL), some e)).toList

theorem stmts_ok (endTok : Option (Nat × FNode)) :
    ∀ (cases : List (Option TL × TL)), (∀ cv ∈ cases, ∃ x, aCaseStmtOf cv = .ok x) →
      ∃ xs, aCaseStmts endTok cases = .ok (xs ++ endItems endTok) ∧ xs.length = cases.length ∧
        ∀ it ∈ xs, ∃ cv ∈ cases, aCaseStmtOf cv = .ok it
  | [], _ => ⟨[], by cases endTok <;> rfl, rfl, by simp⟩
  | cv :: rest, h => by
    obtain ⟨x, hx⟩ := h cv List.mem_cons_self
    obtain ⟨xs, hxs, hlen, hall⟩ := stmts_ok endTok rest (fun c hc => h c (List.mem_cons_of_mem _ hc))
    refine ⟨x :: xs, ?_, by simp [hlen], ?_⟩
    · simp [aCaseStmts, hx, hxs]
    · intro it hit
      rcases List.mem_cons.mp hit with rfl | h2
      · exact ⟨cv, List.mem_cons_self, hx⟩
      · obtain ⟨c, hc, hfc⟩ := hall it h2
        exact ⟨c, List.mem_cons_of_mem _ hc, hfc⟩

/-- the item `aCaseStmtOf` builds, spelled out -/
theorem aCaseStmtOf_ok (c : Option TL) (v : TL) (it : Option TL × Option (Nat × FNode)) (h : aCaseStmtOf (c, v) = .ok it) :
    it.1 = c ∧ ∃ e, it.2 = some e ∧ e ∈ (c.getD []) ++ v := by
  unfold aCaseStmtOf at h
  cases c with
  | none =>
    cases v with
    | nil => simp at h
    | cons v0 vr => simp only [Except.ok.injEq] at h; rw [← h]; exact ⟨rfl, v0, rfl, by simp⟩
  | some cl =>
    cases cl with
    | nil =>
      cases v with
      | nil => simp at h
      | cons v0 vr => simp only [Except.ok.injEq] at h; rw [← h]; exact ⟨rfl, v0, rfl, by simp⟩
    | cons c0 cr => simp only [Except.ok.injEq] at h; rw [← h]; exact ⟨rfl, c0, rfl, by simp⟩

theorem tagPresent_refl_sup (tl : TL) : ∀ t, tagPresent tl t = true → tagPresent tl t = true := fun _ h => h

/-- on the domain `alignedCaseOK` the aligned `_process_case` does not raise -/
theorem aCase_ok (ch : Text) (st : ASt) (ks : List FNode) (hs : alignedCaseOK ks = true) :
    ∃ r, aCase ch st ks = .ok r := by
  unfold alignedCaseOK at hs
  unfold aCase
  simp only
  cases hg : getCases true (tagAll ks) with
  | error e => rw [hg] at hs; cases hs
  | ok cases =>
    rw [hg] at hs
    simp only [Bool.and_eq_true] at hs
    obtain ⟨⟨hitems, htags⟩, hend⟩ := hs
    simp only
    -- `max(condition_width)` has something to work on
    have hmax : (cases.isEmpty && ((tagAll ks).find? (fun e => e.2.matchKw "END")).isNone) = false := by
      cases hce : cases.isEmpty with
      | false => rfl
      | true =>
        rw [hce] at hend
        simp only [Bool.not_true, Bool.false_or, List.any_eq_true] at hend
        obtain ⟨e, he, hm⟩ := hend
        cases hf : (tagAll ks).find? (fun e => e.2.matchKw "END") with
        | some x => rfl
        | none =>
          have := List.find?_eq_none.mp hf e he
          simp [hm] at this
    rw [hmax]
    simp only [Bool.false_eq_true, if_false]
    have hf : ∀ cv ∈ cases, ∃ x, aCaseStmtOf cv = .ok x := by
      intro cv hcv
      have := List.all_eq_true.mp hitems cv hcv
      unfold caseItemOK at this
      unfold aCaseStmtOf
      obtain ⟨c, v⟩ := cv
      cases c with
      | none =>
        cases v with
        | nil => simp at this
        | cons v0 vr => exact ⟨_, rfl⟩
      | some cl =>
        cases cl with
        | nil =>
          cases v with
          | nil => simp at this
          | cons v0 vr => exact ⟨_, rfl⟩
        | cons c0 cr => exact ⟨_, rfl⟩
    obtain ⟨xs, hxs, hlen, hall⟩ := stmts_ok ((tagAll ks).find? (fun e => e.2.matchKw "END")) cases hf
    rw [hxs]
    simp only
    have hloop : ∃ tl', aCaseLoop ch st ((cases.map fun cv => condWidth cv.1).foldl max 0) 0 (tagAll ks)
        (xs ++ endItems ((tagAll ks).find? (fun e => e.2.matchKw "END"))) = .ok tl' := by
      apply aCaseLoop_ok ch st _ (tagAll ks) _ 0 (tagAll ks) (tagPresent_refl_sup _)
      · intro it hit
        rcases List.mem_append.mp hit with h1 | h1
        · obtain ⟨cv, hcv, hfc⟩ := hall it h1
          have htg := List.all_eq_true.mp htags cv hcv
          rw [List.all_eq_true] at htg
          obtain ⟨c, v⟩ := cv
          have inAll : ∀ e, e ∈ (c.getD []) ++ v → tagPresent (tagAll ks) e.1 = true := by
            intro e he
            have := htg e he
            simp only [Bool.and_eq_true] at this
            exact this.2
          obtain ⟨h1c, e, h2e, hmem⟩ := aCaseStmtOf_ok c v it hfc
          constructor
          · intro t n h
            rw [h2e] at h
            injection h with h
            have := inAll e hmem
            rw [h] at this
            exact this
          · intro d0 dr h
            rw [h1c] at h
            apply inAll
            rw [h]
            simp only [Option.getD_some]
            apply List.mem_append_left
            have : (d0 :: dr).getLast?.getD d0 = (d0 :: dr).getLast (by simp) := by
              rw [List.getLast?_eq_some_getLast (by simp)]; rfl
            rw [this]
            exact List.getLast_mem _
        · -- the END entry
          cases hfe : (tagAll ks).find? (fun e => e.2.matchKw "END") with
          | none => rw [hfe] at h1; simp [endItems] at h1
          | some e =>
            rw [hfe] at h1
            simp only [endItems, Option.map_some, Option.toList_some, List.mem_singleton] at h1
            rw [h1]
            refine ⟨?_, by intro c0 cr h; cases h⟩
            intro t n h
            injection h with h
            have hmem := List.mem_of_find?_eq_some hfe
            rw [tagPresent_any]
            exact List.any_eq_true.mpr ⟨e, hmem, by rw [h]; simp⟩
      · left; rfl
      · -- every entry has a token now
        intro it hit
        have hit' : it ∈ xs ++ endItems ((tagAll ks).find? (fun e => e.2.matchKw "END")) := List.mem_of_mem_drop hit
        rcases List.mem_append.mp hit' with h1 | h1
        · obtain ⟨cv, hcv, hfc⟩ := hall it h1
          obtain ⟨c, v⟩ := cv
          obtain ⟨_, e, h2e, _⟩ := aCaseStmtOf_ok c v it hfc
          rw [h2e]; simp
        · cases hfe : (tagAll ks).find? (fun e => e.2.matchKw "END") with
          | none => rw [hfe] at h1; simp [endItems] at h1
          | some e =>
            rw [hfe] at h1
            simp only [endItems, Option.map_some, Option.toList_some, List.mem_singleton] at h1
            rw [h1]; simp
    obtain ⟨tl', htl'⟩ := hloop
    rw [htl']
    exact ⟨_, rfl⟩


theorem isGroup_aNl (ch : Text) (st : ASt) (off : Int) : (aNl ch st off).isGroup = false := rfl
theorem isGroup_aNlStr (ch : Text) (st : ASt) (s : Text) : (aNlStr ch st s).isGroup = false := rfl

theorem aDispatch_err (ch : Text) (rec : ARec) (hrec : ARecSafe rec) (c : Cls) (cv : Text) (st : ASt) (ks : List FNode) (e : PyErr)
    (hc : c ≠ .Statement) (hs : aligned (.grp c cv ks) = true) (h : aDispatch ch rec c st ks = .error e) : e = .recursionError := by
  unfold aDispatch at h
  unfold aligned at hs
  split at h
  · -- Parenthesis
    simp only at hs
    unfold aParenthesis at h
    split at h
    · rename_i hsel
      have hsel' : hasSelect ks = true := hsel
      simp only [hsel', Bool.not_true, Bool.false_or] at hs
      simp only at h
      split at h
      · rename_i e2 he2
        simp only [Except.error.injEq] at h
        rw [← h]
        exact aDefault_err ch rec hrec _ _ e2 (alignedL_insertAfterIdx ks 0 _ (isGroup_aNlStr ch _ _) hs) he2
      · cases h
    · cases h
  · -- IdentifierList
    simp only [Bool.and_eq_true] at hs
    unfold aIdentifierList at h
    split at h
    · exact aDefault_err ch rec hrec _ _ e (alignedL_aBreakIdentifiers _ (isGroup_aNl ch st _) ks false hs.2) h
    · rename_i hno
      exact absurd hs.1 hno
  · -- Case
    simp only at hs
    obtain ⟨r, hr⟩ := aCase_ok ch st ks hs
    rw [hr] at h; cases h
  · -- default
    rename_i h1 h2 h3
    have hs' : alignedL ks = true := by
      cases c <;> first | exact hs | exact absurd rfl h1 | exact absurd rfl h2 | exact absurd rfl h3
    exact aDefault_err ch rec hrec _ _ e hs' h

theorem alignedL_tail (k : FNode) (rest : List FNode) (h : alignedL (k :: rest) = true) : alignedL rest = true := by
  simp only [alignedL, Bool.and_eq_true] at h; exact h.2

theorem aProcess_safe (ch : Text) : ∀ (fuel : Nat), ARecSafe (fun s n => aProcess ch fuel s n)
  | fuel, s, .tok tt v, e, _, h => by cases fuel <;> simp [aProcess] at h
  | 0, s, .grp c cv ks, e, _, h => by simp only [aProcess, Except.error.injEq] at h; exact h.symm
  | fuel+1, s, .grp c cv ks, e, hs, h => by
    unfold aProcess at h
    dsimp only at h
    split at h
    · rename_i hc
      have hc' : c = .Statement := by simpa using hc
      subst hc'
      cases fuel with
      | zero => simp only [Except.error.injEq] at h; exact h.symm
      | succ fuel' =>
        simp only at h
        split at h
        · rename_i e2 he2
          simp only [Except.error.injEq] at h
          rw [← h]
          have hall : alignedL ks = true := by unfold aligned at hs; exact hs
          refine aDefault_err ch _ (aProcess_safe ch fuel') _ _ e2 ?_ he2
          split
          · rename_i k rest
            split
            · exact alignedL_tail k rest hall
            · exact hall
          · exact hall
        · cases h
    · rename_i hc
      have hc' : c ≠ .Statement := by simpa using hc
      split at h
      · rename_i e2 he2
        simp only [Except.error.injEq] at h
        rw [← h]
        exact aDispatch_err ch _ (aProcess_safe ch fuel) c cv _ ks e2 hc' hs he2
      · cases h

/-- C07 / KF-C07-2 as a theorem: on the domain `FilterSafe.aligned` `AlignedIndentFilter.process` raises nothing but
`RecursionError` — every indent character, filter state and fuel -/
theorem aligned_total (ch : Text) (fuel : Nat) (st : ASt) (n : FNode) (hs : FilterSafe.aligned n = true) (e : PyErr)
    (h : alignedProcess ch fuel st n = .error e) : e = .recursionError :=
  aProcess_safe ch fuel st n e hs h


/-! ## `ReindentFilter` -/

theorem reindentL_iff (b : Bool) : ∀ (l : List FNode), reindentL b l = true ↔ ∀ x ∈ l, reindent b x = true
  | [] => by simp [reindentL]
  | k :: l => by simp only [reindentL, Bool.and_eq_true, List.mem_cons, forall_eq_or_imp, reindentL_iff b l]

theorem reindent_of_leaf (b : Bool) (x : FNode) (h : x.isGroup = false) : reindent b x = true := by
  cases x with
  | tok tt v => simp [reindent]
  | grp c cv ks => cases h

/-- a list all of whose elements are elements of `orig` or leaves -/
def FromOrig (orig l : List FNode) : Prop := ∀ x ∈ l, x ∈ orig ∨ x.isGroup = false

theorem FromOrig.safe (b : Bool) (orig l : List FNode) (h : FromOrig orig l) (hs : reindentL b orig = true) :
    reindentL b l = true := by
  rw [reindentL_iff] at hs ⊢
  intro x hx
  rcases h x hx with h1 | h1
  · exact hs x h1
  · exact reindent_of_leaf b x h1

theorem FromOrig.refl (l : List FNode) : FromOrig l l := fun _ hx => Or.inl hx

theorem FromOrig.insertAt (orig l : List FNode) (i : Nat) (x : FNode) (hx : x.isGroup = false) (h : FromOrig orig l) :
    FromOrig orig (insertAt l i x) := by
  intro y hy
  unfold Sql.insertAt at hy
  rcases List.mem_append.mp hy with h1 | h1
  · exact h y (List.mem_of_mem_take h1)
  · rcases List.mem_cons.mp h1 with rfl | h2
    · exact Or.inr hx
    · exact h y (List.mem_of_mem_drop h2)

theorem FromOrig.insertAfterIdx (orig l : List FNode) (i : Nat) (x : FNode) (hx : x.isGroup = false) (h : FromOrig orig l) :
    FromOrig orig (insertAfterIdx FNode.isWhitespace l i x) := by
  unfold Sql.insertAfterIdx
  split
  · exact FromOrig.insertAt orig l _ x hx h
  · intro y hy
    rcases List.mem_append.mp hy with h1 | h1
    · exact h y h1
    · simp only [List.mem_singleton] at h1; rw [h1]; exact Or.inr hx

theorem FromOrig.cons (orig l : List FNode) (x : FNode) (hx : x.isGroup = false) (h : FromOrig orig l) :
    FromOrig orig (x :: l) := by
  intro y hy
  rcases List.mem_cons.mp hy with rfl | h2
  · exact Or.inr hx
  · exact h y h2

theorem mem_rSplitStatementsGo (nl : FNode) : ∀ (rest done : List FNode) (x : FNode),
    x ∈ rSplitStatementsGo nl done rest → x ∈ done ∨ x ∈ rest ∨ x = nl
  | [], done, x, h => by simp only [rSplitStatementsGo, List.mem_reverse] at h; exact Or.inl h
  | k :: rest, done, x, h => by
    unfold rSplitStatementsGo at h
    split at h
    · cases done with
      | nil =>
        simp only at h
        rcases mem_rSplitStatementsGo nl rest [k] x h with h1 | h1 | h1
        · simp only [List.mem_singleton] at h1; rw [h1]; exact Or.inr (Or.inl List.mem_cons_self)
        · exact Or.inr (Or.inl (List.mem_cons_of_mem _ h1))
        · exact Or.inr (Or.inr h1)
      | cons p done' =>
        simp only at h
        rcases mem_rSplitStatementsGo nl rest _ x h with h1 | h1 | h1
        · rcases List.mem_cons.mp h1 with rfl | h2
          · exact Or.inr (Or.inl List.mem_cons_self)
          · rcases List.mem_cons.mp h2 with rfl | h3
            · exact Or.inr (Or.inr rfl)
            · left
              by_cases hp : p.isWhitespace = true
              · simp only [hp, if_true] at h3; exact List.mem_cons_of_mem _ h3
              · simp only [hp, Bool.false_eq_true, if_false] at h3; exact h3
        · exact Or.inr (Or.inl (List.mem_cons_of_mem _ h1))
        · exact Or.inr (Or.inr h1)
    · rcases mem_rSplitStatementsGo nl rest (k :: done) x h with h1 | h1 | h1
      · rcases List.mem_cons.mp h1 with rfl | h2
        · exact Or.inr (Or.inl List.mem_cons_self)
        · exact Or.inl h2
      · exact Or.inr (Or.inl (List.mem_cons_of_mem _ h1))
      · exact Or.inr (Or.inr h1)

theorem isGroup_rNl (cfg : RCfg) (st : RSt) (off : Int) : (rNl cfg st off).isGroup = false := rfl

theorem FromOrig.rSplitStatements (orig ks : List FNode) (nl : FNode) (hnl : nl.isGroup = false) (h : FromOrig orig ks) :
    FromOrig orig (rSplitStatementsGo nl [] ks) := by
  intro x hx
  rcases mem_rSplitStatementsGo nl ks [] x hx with h1 | h1 | h1
  · simp at h1
  · exact h x h1
  · rw [h1]; exact Or.inr hnl

theorem FromOrig.rSplitKwds (orig ks : List FNode) (nl : FNode) (hnl : nl.isGroup = false) (h : FromOrig orig ks) :
    FromOrig orig (rSplitKwds nl ks) := by
  intro x hx
  unfold Sql.rSplitKwds at hx
  rcases mem_splitKwdsGo _ _ (by
      intro done k x hx
      unfold rEmitKwd at hx
      cases done with
      | nil =>
        simp only [List.mem_cons, List.mem_nil_iff, or_false] at hx
        rcases hx with rfl | rfl
        · exact Or.inr (Or.inl rfl)
        · exact Or.inr (Or.inr hnl)
      | cons p d' =>
        simp only at hx
        have sub : ∀ y, y ∈ (if p.isWhitespace = true then d' else p :: d') → y ∈ p :: d' := by
          intro y hy
          by_cases hp : p.isWhitespace = true
          · simp only [hp, if_true] at hy; exact List.mem_cons_of_mem _ hy
          · simp only [hp, Bool.false_eq_true, if_false] at hy; exact hy
        split at hx
        · rcases List.mem_cons.mp hx with rfl | h2
          · exact Or.inr (Or.inl rfl)
          · exact Or.inl (sub x h2)
        · rcases List.mem_cons.mp hx with rfl | h2
          · exact Or.inr (Or.inl rfl)
          · rcases List.mem_cons.mp h2 with rfl | h3
            · exact Or.inr (Or.inr hnl)
            · exact Or.inl (sub x h3)) ks 0 [] x hx with h1 | h1 | h1
  · simp at h1
  · exact h x h1
  · exact Or.inr h1

/-- what the handlers assume about the recursive call: safe below a node whose ancestors are `a` -/
def inFnOf (a : List Cls) : Bool := a.contains .Function || a.contains .Values

def RRecSafe (rec : RRec) : Prop :=
  ∀ a p s n e, reindent (inFnOf a) n = true → rec a p s n = .error e → e = .recursionError

theorem rMapKids_err (rec : Text → RSt → FNode → Except PyErr (FNode × RSt)) (b : Bool)
    (hrec : ∀ p s n e, reindent b n = true → rec p s n = .error e → e = .recursionError) :
    ∀ (ks : List FNode) (pre : Text) (st : RSt) (e : PyErr), reindentL b ks = true →
      rMapKids rec pre st ks = .error e → e = .recursionError
  | [], pre, st, e, _, h => by simp [rMapKids] at h
  | k :: rest, pre, st, e, hs, h => by
    simp only [reindentL, Bool.and_eq_true] at hs
    unfold rMapKids at h
    cases hk : rec pre st k with
    | error e2 =>
      rw [hk] at h
      simp only [Except.error.injEq] at h
      rw [← h]; exact hrec _ _ _ _ hs.1 hk
    | ok r =>
      obtain ⟨k', st1⟩ := r
      rw [hk] at h
      simp only at h
      cases hr : rMapKids rec (pre ++ k'.text) st1 rest with
      | error e2 =>
        rw [hr] at h
        simp only [Except.error.injEq] at h
        rw [← h]; exact rMapKids_err rec b hrec rest _ _ e2 hs.2 hr
      | ok r2 => rw [hr] at h; cases h

/-- `_process_default` raises only what the recursion raises, provided the list consists of safe children and leaves -/
theorem rDefault_err (cfg : RCfg) (rec : RRec) (hrec : RRecSafe rec) (anc : List Cls) (pre : Text) (st : RSt) (stmts : Bool)
    (orig ks : List FNode) (e : PyErr) (hfrom : FromOrig orig ks) (hs : reindentL (inFnOf anc) orig = true)
    (h : rDefault cfg rec anc pre st stmts ks = .error e) : e = .recursionError := by
  unfold rDefault at h
  apply rMapKids_err (rec anc) (inFnOf anc) (fun p s n e hn he => hrec anc p s n e hn he) _ _ _ e ?_ h
  apply FromOrig.safe _ orig _ _ hs
  apply FromOrig.rSplitKwds _ _ _ (isGroup_rNl cfg st 0)
  cases stmts with
  | false => exact hfrom
  | true => exact FromOrig.rSplitStatements _ _ _ (isGroup_rNl cfg st 0) hfrom


theorem rGetOffset_ok (cfg : RCfg) (st : RSt) (pre : Text) (ks : List FNode) (idx : Nat) (k : FNode)
    (h1 : ks[idx]? = some k) (h2 : k.hasLeaf = true) : ∃ o, rGetOffset cfg st pre ks idx = .ok o := by
  unfold rGetOffset
  rw [h1]
  simp [h2]

theorem findIdx?_get {α : Type} (p : α → Bool) (l : List α) (i : Nat) (h : l.findIdx? p = some i) :
    ∃ k, l[i]? = some k ∧ p k = true := by
  obtain ⟨hlt, hp, _⟩ := List.findIdx?_eq_some_iff_getElem.mp h
  exact ⟨l[i], by simp [hlt], hp⟩

theorem rWhere_err (cfg : RCfg) (rec : RRec) (hrec : RRecSafe rec) (anc : List Cls) (pre : Text) (st : RSt)
    (ks : List FNode) (e : PyErr) (hs : (!ks.any (·.matchKw "WHERE") || reindentL (inFnOf anc) ks) = true)
    (h : rWhere cfg rec anc pre st ks = .error e) : e = .recursionError := by
  unfold rWhere at h
  split at h
  · cases h
  · rename_i i hi
    obtain ⟨k, hk, hp⟩ := findIdx?_get _ ks i hi
    have hany : ks.any (·.matchKw "WHERE") = true := List.any_eq_true.mpr ⟨k, List.mem_of_getElem? hk, hp⟩
    simp only [hany, Bool.not_true, Bool.false_or] at hs
    split at h
    · rename_i e2 he2
      simp only [Except.error.injEq] at h
      rw [← h]
      exact rDefault_err cfg rec hrec anc pre _ true ks _ e2
        (FromOrig.insertAt ks ks i _ (isGroup_rNl cfg st 0) (FromOrig.refl ks)) hs he2
    · cases h

theorem hasLeaf_of_matchP (k : FNode) (ps : List MPat) (h : k.matchAnyP ps = true) : k.hasLeaf = true := by
  cases k with
  | tok tt v => rfl
  | grp c cv ks =>
    simp only [FNode.matchAnyP, List.any_eq_true] at h
    obtain ⟨p, _, hp⟩ := h
    simp [FNode.matchP] at hp

theorem rParenthesis_err (cfg : RCfg) (rec : RRec) (hrec : RRecSafe rec) (anc : List Cls) (pre : Text) (st : RSt)
    (ks : List FNode) (e : PyErr)
    (hs : (!ks.any (·.matchAnyP Gen.Parenthesis_M_OPEN) || reindentL (inFnOf anc) ks) = true)
    (h : rParenthesis cfg rec anc pre st ks = .error e) : e = .recursionError := by
  unfold rParenthesis at h
  simp only at h
  split at h
  · cases h
  · rename_i fidx hi
    obtain ⟨k, hk, hp⟩ := findIdx?_get _ ks fidx hi
    have hany : ks.any (·.matchAnyP Gen.Parenthesis_M_OPEN) = true :=
      List.any_eq_true.mpr ⟨k, List.mem_of_getElem? hk, hp⟩
    simp only [hany, Bool.not_true, Bool.false_or] at hs
    split at h
    · -- `_get_offset(first)` cannot fail: `first` is a leaf of the list
      rename_i e2 he2
      exfalso
      have hleaf := hasLeaf_of_matchP k _ hp
      by_cases hd : ks.any (·.ttInArg Gen.reindentParenTTypes) = true
      · simp only [hd, if_true] at he2
        obtain ⟨o, ho⟩ := rGetOffset_ok cfg _ pre (rNl cfg { st with indent := st.indent + 1 } :: ks) (fidx + 1) k
          (by simpa using hk) hleaf
        rw [ho] at he2; cases he2
      · simp only [hd, Bool.false_eq_true, if_false] at he2
        obtain ⟨o, ho⟩ := rGetOffset_ok cfg { st with indent := st.indent + 0 } pre ks fidx k hk hleaf
        rw [ho] at he2; cases he2
    · split at h
      · rename_i e2 he2
        simp only [Except.error.injEq] at h
        rw [← h]
        refine rDefault_err cfg rec hrec anc pre _ _ ks _ e2 ?_ hs he2
        split
        · exact FromOrig.cons ks ks _ (isGroup_rNl cfg _ 0) (FromOrig.refl ks)
        · exact FromOrig.refl ks
      · cases h

theorem rFunction_err (cfg : RCfg) (rec : RRec) (hrec : RRecSafe rec) (anc : List Cls) (pre : Text) (st : RSt)
    (ks : List FNode) (e : PyErr) (hs : (!ks.isEmpty && reindentL (inFnOf anc) ks) = true)
    (h : rFunction cfg rec anc pre st ks = .error e) : e = .recursionError := by
  simp only [Bool.and_eq_true] at hs
  unfold rFunction at h
  split at h
  · simp at hs
  · exact rDefault_err cfg rec hrec anc pre _ true _ _ e (FromOrig.refl _) hs.2 h


/-! ### tagged lists -/

theorem mem_tagFrom : ∀ (ks : List FNode) (i : Nat) (e : Nat × FNode), e ∈ tagFrom i ks →
    e.2 ∈ ks ∧ i ≤ e.1 ∧ ks[e.1 - i]? = some e.2
  | [], i, e, h => by simp [tagFrom] at h
  | k :: ks, i, e, h => by
    simp only [tagFrom, List.mem_cons] at h
    rcases h with rfl | h
    · simp
    · obtain ⟨h1, h2, h3⟩ := mem_tagFrom ks (i + 1) e h
      refine ⟨List.mem_cons_of_mem _ h1, by omega, ?_⟩
      have : e.1 - i = (e.1 - (i + 1)) + 1 := by omega
      rw [this, List.getElem?_cons_succ]; exact h3

theorem mem_tagAll (ks : List FNode) (e : Nat × FNode) (h : e ∈ tagAll ks) : e.2 ∈ ks ∧ ks[e.1 - 1]? = some e.2 := by
  obtain ⟨h1, _, h3⟩ := mem_tagFrom ks 1 e h
  exact ⟨h1, h3⟩

theorem filter_tagFrom (p : FNode → Bool) : ∀ (ks : List FNode) (i : Nat),
    ((tagFrom i ks).filter (fun e => p e.2)).map (·.2) = ks.filter p
  | [], _ => rfl
  | k :: ks, i => by
    simp only [tagFrom, List.filter_cons]
    by_cases hk : p k = true
    · simp [hk, filter_tagFrom p ks (i + 1)]
    · simp [hk, filter_tagFrom p ks (i + 1)]

/-- a tagged list all of whose nodes are nodes of `orig` or leaves -/
def FromOrigT (orig : List FNode) (tl : TL) : Prop := ∀ e ∈ tl, e.2 ∈ orig ∨ e.2.isGroup = false

theorem FromOrigT.untag (orig : List FNode) (tl : TL) (h : FromOrigT orig tl) : FromOrig orig (untag tl) := by
  intro x hx
  simp only [Sql.untag, List.mem_map] at hx
  obtain ⟨e, he, rfl⟩ := hx
  exact h e he

theorem FromOrigT.tagAll (ks : List FNode) : FromOrigT ks (tagAll ks) := fun e he => Or.inl (mem_tagAll ks e he).1

theorem FromOrigT.insertAt (orig : List FNode) (tl : TL) (i : Nat) (e : Nat × FNode) (he : e.2.isGroup = false)
    (h : FromOrigT orig tl) : FromOrigT orig (insertAt tl i e) := by
  intro y hy
  unfold Sql.insertAt at hy
  rcases List.mem_append.mp hy with h1 | h1
  · exact h y (List.mem_of_mem_take h1)
  · rcases List.mem_cons.mp h1 with rfl | h2
    · exact Or.inr he
    · exact h y (List.mem_of_mem_drop h2)

theorem FromOrigT.insertAfterIdx (orig : List FNode) (tl : TL) (i : Nat) (e : Nat × FNode) (he : e.2.isGroup = false)
    (h : FromOrigT orig tl) : FromOrigT orig (insertAfterIdx tlWs tl i e) := by
  unfold Sql.insertAfterIdx
  split
  · exact FromOrigT.insertAt orig tl _ e he h
  · intro y hy
    rcases List.mem_append.mp hy with h1 | h1
    · exact h y h1
    · simp only [List.mem_singleton] at h1; rw [h1]; exact Or.inr he

theorem FromOrigT.loopA (cfg : RCfg) (st : RSt) (orig : List FNode) : ∀ (ids : TL) (position : Int) (tl : TL),
    FromOrigT orig tl → FromOrigT orig (rIdListLoopA cfg st position tl ids)
  | [], _, tl, h => by simpa [rIdListLoopA] using h
  | (tag, n) :: rest, position, tl, h => by
    unfold rIdListLoopA
    simp only
    split
    · split
      · exact FromOrigT.loopA cfg st orig rest _ tl h
      · split
        · split
          · exact FromOrigT.loopA cfg st orig rest _ tl h
          · apply FromOrigT.loopA cfg st orig rest
            split
            · split
              · exact FromOrigT.insertAfterIdx orig _ _ (0, FNode.tok T.Whitespace [32]) rfl
                  (FromOrigT.insertAt orig tl _ (0, rNl cfg st (-2)) rfl h)
              · exact FromOrigT.insertAt orig tl _ (0, rNl cfg st (-2)) rfl h
            · exact FromOrigT.insertAt orig tl _ (0, rNl cfg st (-2)) rfl h
        · exact FromOrigT.loopA cfg st orig rest _ _ (FromOrigT.insertAt orig tl _ (0, rNl cfg st 0) rfl h)
    · exact FromOrigT.loopA cfg st orig rest _ tl h

theorem FromOrigT.loopB (cfg : RCfg) (st : RSt) (orig : List FNode) : ∀ (ids : TL) (position : Int) (tl : TL),
    FromOrigT orig tl → FromOrigT orig (rIdListLoopB cfg st position tl ids)
  | [], _, tl, h => by simpa [rIdListLoopB] using h
  | (tag, n) :: rest, position, tl, h => by
    unfold rIdListLoopB
    simp only
    split
    · split
      · exact FromOrigT.loopB cfg st orig rest _ tl h
      · exact FromOrigT.loopB cfg st orig rest _ _ (FromOrigT.insertAt orig tl _ (0, rNl cfg st 0) rfl h)
    · exact FromOrigT.loopB cfg st orig rest _ tl h

/-- the "ensure whitespace" loop: no exception when no comma-valued child is last; it only adds blanks -/
theorem rEnsureWs_ok (orig : List FNode) : ∀ (tl : TL), ensureWsOK (untag tl) = true → FromOrigT orig tl →
    ∃ tl1, rEnsureWs tl = .ok tl1 ∧ FromOrigT orig tl1 ∧ ∀ t, tagPresent tl t = true → tagPresent tl1 t = true
  | [], _, h => ⟨[], rfl, h, fun _ ht => ht⟩
  | (t, k) :: rest, hs, h => by
    simp only [untag, List.map_cons, ensureWsOK, Bool.and_eq_true] at hs
    have hrest : FromOrigT orig rest := fun e he => h e (List.mem_cons_of_mem _ he)
    obtain ⟨r1, hr1, hf1, ht1⟩ := rEnsureWs_ok orig rest hs.2 hrest
    have hk := h (t, k) List.mem_cons_self
    unfold rEnsureWs
    by_cases hv : (k.value == [44]) = true
    · rw [if_pos hv]
      cases rest with
      | nil =>
        have h0 := hs.1
        have hv' : k.value = [44] := by simpa using hv
        simp [hv'] at h0
      | cons n rest' =>
        simp only [hr1]
        refine ⟨_, rfl, ?_, ?_⟩
        · split
          · intro e he
            rcases List.mem_cons.mp he with rfl | h2
            · exact hk
            · exact hf1 e h2
          · intro e he
            rcases List.mem_cons.mp he with rfl | h2
            · exact hk
            · rcases List.mem_cons.mp h2 with rfl | h3
              · exact Or.inr rfl
              · exact hf1 e h3
        · intro t' ht'
          rw [tagPresent_any] at ht' ⊢
          simp only [List.any_cons, Bool.or_eq_true] at ht'
          rcases ht' with h0 | h0
          · split <;> simp [h0]
          · have := ht1 t' (by rw [tagPresent_any]; simpa using h0)
            rw [tagPresent_any] at this
            split <;> simp [this]
    · rw [if_neg hv, hr1]
      refine ⟨_, rfl, ?_, ?_⟩
      · intro e he
        rcases List.mem_cons.mp he with rfl | h2
        · exact hk
        · exact hf1 e h2
      · intro t' ht'
        rw [tagPresent_any] at ht' ⊢
        simp only [List.any_cons, Bool.or_eq_true] at ht'
        rcases ht' with h0 | h0
        · simp [h0]
        · have := ht1 t' (by rw [tagPresent_any]; exact h0)
          rw [tagPresent_any] at this
          simp [this]

theorem rIdListFirstBreak_ok (cfg : RCfg) (st1 : RSt) (adjusted : Int) (orig : List FNode) (tl1 ids' : TL)
    (hne : ids' ≠ []) (hpres : ∀ e ∈ ids', tagPresent tl1 e.1 = true) (hf : FromOrigT orig tl1) :
    ∃ tl2, rIdListFirstBreak cfg st1 adjusted tl1 ids' = .ok tl2 ∧ FromOrigT orig tl2 := by
  unfold rIdListFirstBreak
  split
  · cases ids' with
    | nil => exact absurd rfl hne
    | cons e0 r =>
      obtain ⟨tg, n⟩ := e0
      simp only
      have hp := hpres (tg, n) List.mem_cons_self
      simp only [tagPresent] at hp
      cases hx : tlIndex tl1 tg with
      | none => rw [hx] at hp; cases hp
      | some i => exact ⟨_, rfl, FromOrigT.insertAt orig tl1 i _ rfl hf⟩
  · exact ⟨tl1, rfl, hf⟩


theorem tagPresent_of_mem (tl : TL) (e : Nat × FNode) (h : e ∈ tl) : tagPresent tl e.1 = true := by
  rw [tagPresent_any]
  exact List.any_eq_true.mpr ⟨e, h, by simp⟩

theorem rIdentifierList_err (cfg : RCfg) (rec : RRec) (hrec : RRecSafe rec) (anc : List Cls) (pre : Text) (st : RSt)
    (ks : List FNode) (e : PyErr) (hs1 : idListOK (inFnOf (anc.drop 1)) ks = true) (hs2 : reindentL (inFnOf anc) ks = true)
    (h : rIdentifierList cfg rec anc pre st ks = .error e) : e = .recursionError := by
  unfold rIdentifierList at h
  simp only at h
  have hmap := filter_tagFrom isIdentifierItem ks 1
  change ((tagAll ks).filter (fun e => isIdentifierItem e.2)).map (·.2) = ks.filter isIdentifierItem at hmap
  unfold idListOK at hs1
  cases hids : (tagAll ks).filter (fun e => isIdentifierItem e.2) with
  | nil =>
    rw [hids] at hmap
    simp only [List.map_nil] at hmap
    rw [← hmap] at hs1
    cases hs1
  | cons e0 idsRest =>
    obtain ⟨t0, n0⟩ := e0
    rw [hids] at hmap h
    simp only [List.map_cons] at hmap
    rw [← hmap] at hs1
    simp only [Bool.and_eq_true] at hs1
    obtain ⟨hleaf, hfn⟩ := hs1
    have hmem0 : (t0, n0) ∈ tagAll ks := by
      have : (t0, n0) ∈ (tagAll ks).filter (fun e => isIdentifierItem e.2) := by rw [hids]; exact List.mem_cons_self
      exact (List.mem_filter.mp this).1
    have hidsMem : ∀ x ∈ (t0, n0) :: idsRest, x ∈ tagAll ks := by
      intro x hx
      have : x ∈ (tagAll ks).filter (fun e => isIdentifierItem e.2) := by rw [hids]; exact hx
      exact (List.mem_filter.mp this).1
    simp only [hleaf, Bool.not_true, Bool.false_eq_true, if_false] at h
    split at h
    · -- the first offset cannot fail
      rename_i e2 he2
      exfalso
      split at he2
      · cases he2
      · split at he2
        · cases he2
        · obtain ⟨o, ho⟩ := rGetOffset_ok cfg st pre ks (t0 - 1) n0 (mem_tagAll ks (t0, n0) hmem0).2 hleaf
          rw [ho] at he2
          cases he2
    · rename_i ids' numOffset hfo
      have hids' : ids' = (t0, n0) :: idsRest ∨ ids' = idsRest := by
        split at hfo
        · simp only [Except.ok.injEq, Prod.mk.injEq] at hfo; exact Or.inl hfo.1.symm
        · split at hfo
          · simp only [Except.ok.injEq, Prod.mk.injEq] at hfo; exact Or.inr hfo.1.symm
          · cases ho : rGetOffset cfg st pre ks (t0 - 1) with
            | error e3 => rw [ho] at hfo; cases hfo
            | ok o =>
              rw [ho] at hfo
              simp only [Except.map, Except.ok.injEq, Prod.mk.injEq] at hfo
              exact Or.inr hfo.1.symm
      have hids'Mem : ∀ x ∈ ids', x ∈ tagAll ks := by
        intro x hx
        rcases hids' with rfl | rfl
        · exact hidsMem x hx
        · exact hidsMem x (List.mem_cons_of_mem _ hx)
      split at h
      · -- outside functions / VALUES
        exact rDefault_err cfg rec hrec anc pre st true ks _ e
          (FromOrigT.untag ks _ (FromOrigT.loopA cfg _ ks ids' 0 _ (FromOrigT.tagAll ks))) hs2 h
      · rename_i hin
        have hinFn : inFnOf (anc.drop 1) = true := by
          simp only [inFnOf]
          cases h1 : (anc.drop 1).contains Cls.Function <;> cases h2 : (anc.drop 1).contains Cls.Values <;> simp_all
        simp only [hinFn, Bool.not_true, Bool.false_or, Bool.and_eq_true] at hfn
        obtain ⟨hens, hrestne⟩ := hfn
        obtain ⟨tl1, htl1, hf1, hp1⟩ := rEnsureWs_ok ks (tagAll ks) (by rw [untag_tagAll]; exact hens) (FromOrigT.tagAll ks)
        rw [htl1] at h
        simp only at h
        have hne : ids' ≠ [] := by
          rcases hids' with rfl | rfl
          · simp
          · intro h0; rw [h0] at hrestne; simp at hrestne
        have hpres : ∀ x ∈ ids', tagPresent tl1 x.1 = true :=
          fun x hx => hp1 _ (tagPresent_of_mem _ x (hids'Mem x hx))
        split at h
        · rename_i e2 he2
          obtain ⟨tl2, htl2, _⟩ := rIdListFirstBreak_ok cfg _ _ ks tl1 ids' hne hpres hf1
          rw [htl2] at he2
          cases he2
        · rename_i tl2 htl2
          obtain ⟨tl2', htl2', hf2⟩ := rIdListFirstBreak_ok cfg _ _ ks tl1 ids' hne hpres hf1
          rw [htl2'] at htl2
          simp only [Except.ok.injEq] at htl2
          subst htl2
          exact rDefault_err cfg rec hrec anc pre st true ks _ e
            (FromOrigT.untag ks _ (FromOrigT.loopB cfg _ ks ids' 0 _ hf2)) hs2 h


theorem rCaseLoop_ok (cfg : RCfg) (st : RSt) (orig : List FNode) (tl0 : TL) :
    ∀ (cases : List (Option TL × TL)) (tl : TL), FromOrigT orig tl →
      (∀ t, tagPresent tl0 t = true → tagPresent tl t = true) →
      (∀ cv ∈ cases, caseBreakOK cv = true ∧ ∀ x ∈ (cv.1.getD []) ++ cv.2, tagPresent tl0 x.1 = true) →
      ∃ tl', rCaseLoop cfg st tl cases = .ok tl' ∧ FromOrigT orig tl'
  | [], tl, hf, _, _ => ⟨tl, rfl, hf⟩
  | (cond, value) :: rest, tl, hf, hsup, hall => by
    unfold rCaseLoop
    have hrest : ∀ cv ∈ rest, caseBreakOK cv = true ∧ ∀ x ∈ (cv.1.getD []) ++ cv.2, tagPresent tl0 x.1 = true :=
      fun cv hcv => hall cv (List.mem_cons_of_mem _ hcv)
    split
    · obtain ⟨hb, htags⟩ := hall (cond, value) List.mem_cons_self
      -- the break token
      have htag : ∃ t, caseBreakTag cond value = .ok t ∧ tagPresent tl0 t = true := by
        unfold caseBreakTag
        unfold caseBreakOK at hb
        cases cond with
        | none =>
          cases value with
          | nil => simp at hb
          | cons v0 vr => exact ⟨v0.1, rfl, htags v0 (by simp)⟩
        | some c =>
          cases c with
          | nil => simp at hb
          | cons c0 cr => exact ⟨c0.1, rfl, htags c0 (by simp)⟩
      obtain ⟨t, ht, hp⟩ := htag
      rw [ht]
      simp only
      have hp' := hsup t hp
      simp only [tagPresent] at hp'
      cases hx : tlIndex tl t with
      | none => rw [hx] at hp'; cases hp'
      | some i =>
        simp only
        exact rCaseLoop_ok cfg st orig tl0 rest _ (FromOrigT.insertAt orig tl i _ rfl hf)
          (fun t' ht' => tagPresent_insertAt tl i _ t' (hsup t' ht')) hrest
    · exact rCaseLoop_ok cfg st orig tl0 rest tl hf hsup hrest

theorem rCase_err (cfg : RCfg) (rec : RRec) (hrec : RRecSafe rec) (anc : List Cls) (pre : Text) (st : RSt)
    (ks : List FNode) (e : PyErr) (hs1 : reindentCaseOK ks = true) (hs2 : reindentL (inFnOf anc) ks = true)
    (h : rCase cfg rec anc pre st ks = .error e) : e = .recursionError := by
  unfold reindentCaseOK at hs1
  unfold rCase at h
  simp only at h
  split at hs1
  · rename_i t0 n0 c0rest v0 restCases hg
    rw [hg] at h
    simp only [Bool.and_eq_true] at hs1
    obtain ⟨⟨⟨⟨hn0, hk0⟩, ht0⟩, hbreaks⟩, htags⟩ := hs1
    simp only [hn0, Bool.not_true, Bool.false_eq_true, if_false] at h
    -- `_get_offset(tlist[0])`
    cases ks with
    | nil => simp at hk0
    | cons k0 krest =>
      simp only at hk0
      obtain ⟨o1, ho1⟩ := rGetOffset_ok cfg st pre (k0 :: krest) 0 k0 rfl hk0
      rw [ho1] at h
      simp only at h
      have hk : ∃ k, (k0 :: krest)[t0 - 1]? = some k ∧ k.hasLeaf = true := by
        cases hx : (k0 :: krest)[t0 - 1]? with
        | none => rw [hx] at ht0; simp at ht0
        | some k => rw [hx] at ht0; exact ⟨k, rfl, by simpa using ht0⟩
      obtain ⟨k, hk1, hk2⟩ := hk
      obtain ⟨o2, ho2⟩ := rGetOffset_ok cfg { st with offset := st.offset + o1 } pre (k0 :: krest) (t0 - 1) k hk1 hk2
      rw [ho2] at h
      simp only at h
      have hloop := rCaseLoop_ok cfg { st with offset := st.offset + o1 + o2 } (k0 :: krest) (tagAll (k0 :: krest))
        restCases (tagAll (k0 :: krest)) (FromOrigT.tagAll _) (fun _ ht => ht) (by
          intro cv hcv
          refine ⟨List.all_eq_true.mp hbreaks cv hcv, ?_⟩
          intro x hx
          have := List.all_eq_true.mp (List.all_eq_true.mp htags cv hcv) x hx
          simp only [Bool.and_eq_true] at this
          exact this.2)
      obtain ⟨tl', htl', hf'⟩ := hloop
      rw [htl'] at h
      simp only at h
      split at h
      · rename_i e2 he2
        simp only [Except.error.injEq] at h
        rw [← h]
        exact rDefault_err cfg rec hrec anc pre _ true (k0 :: krest) _ e2 (FromOrigT.untag _ _ hf') hs2 he2
      · cases h
  · cases hs1


/-! ### `_process_values` -/

theorem nextIdxFrom_spec {α : Type} (p : α → Bool) (l : List α) (s i : Nat) (h : nextIdxFrom p l s = some i) :
    s ≤ i ∧ ∃ k, l[i]? = some k ∧ p k = true := by
  unfold nextIdxFrom at h
  cases hf : (l.drop s).findIdx? p with
  | none => rw [hf] at h; cases h
  | some j =>
    rw [hf] at h
    simp only [Option.map_some, Option.some.injEq] at h
    obtain ⟨k, hk, hp⟩ := findIdx?_get p (l.drop s) j hf
    refine ⟨by omega, k, ?_, hp⟩
    rw [← h]
    rw [List.getElem?_drop] at hk
    rw [Nat.add_comm]; exact hk

theorem getElem?_insertAt_lt {α : Type} (l : List α) (i j : Nat) (x : α) (h : j < i) (k : α) (hk : l[j]? = some k) :
    (insertAt l i x)[j]? = some k := by
  unfold insertAt
  have hjl : j < l.length := by
    rcases List.getElem?_eq_some_iff.mp hk with ⟨hlt, _⟩; exact hlt
  rw [List.getElem?_append_left (by rw [List.length_take]; omega), List.getElem?_take_of_lt h]
  exact hk

theorem getElem?_insertAfterIdx_le {α : Type} (isWs : α → Bool) (l : List α) (idx j : Nat) (x : α) (h : j ≤ idx) (k : α)
    (hk : l[j]? = some k) : (insertAfterIdx isWs l idx x)[j]? = some k := by
  unfold insertAfterIdx
  cases hn : nextIdxFrom (fun a => !isWs a) l (idx + 1) with
  | none =>
    simp only
    have hjl : j < l.length := by
      rcases List.getElem?_eq_some_iff.mp hk with ⟨hlt, _⟩; exact hlt
    rw [List.getElem?_append_left hjl]; exact hk
  | some n =>
    simp only
    have := (nextIdxFrom_spec _ l (idx + 1) n hn).1
    exact getElem?_insertAt_lt l n j x (by omega) k hk

theorem mem_insertAfterIdx {α : Type} (isWs : α → Bool) (l : List α) (idx : Nat) (x y : α)
    (h : y ∈ insertAfterIdx isWs l idx x) : y ∈ l ∨ y = x := by
  unfold insertAfterIdx at h
  split at h
  · unfold insertAt at h
    rcases List.mem_append.mp h with h1 | h1
    · exact Or.inl (List.mem_of_mem_take h1)
    · rcases List.mem_cons.mp h1 with rfl | h2
      · exact Or.inr rfl
      · exact Or.inl (List.mem_of_mem_drop h2)
  · rcases List.mem_append.mp h with h1 | h1
    · exact Or.inl h1
    · simp only [List.mem_singleton] at h1; exact Or.inr h1

theorem mem_insertAt {α : Type} (l : List α) (i : Nat) (x y : α) (h : y ∈ insertAt l i x) : y ∈ l ∨ y = x := by
  unfold insertAt at h
  rcases List.mem_append.mp h with h1 | h1
  · exact Or.inl (List.mem_of_mem_take h1)
  · rcases List.mem_cons.mp h1 with rfl | h2
    · exact Or.inr rfl
    · exact Or.inl (List.mem_of_mem_drop h2)

theorem rValuesStep_ok (cfg : RCfg) (st : RSt) (pre : Text) (fidx : Nat) (ks : List FNode) (tidx : Nat) (kf kt : FNode)
    (hall : ∀ k ∈ ks, isParenNode k = true → k.hasLeaf = true)
    (hkf : ks[fidx]? = some kf) (hkfl : kf.hasLeaf = true) (hle : fidx ≤ tidx)
    (hkt : ks[tidx]? = some kt) (hktl : kt.hasLeaf = true) :
    ∃ ks1, rValuesStep cfg st pre fidx ks tidx = .ok ks1 ∧
      (∀ k ∈ ks1, isParenNode k = true → k.hasLeaf = true) ∧ ks1[fidx]? = some kf := by
  obtain ⟨of, hof⟩ := rGetOffset_ok cfg st pre ks fidx kf hkf hkfl
  obtain ⟨ot, hot⟩ := rGetOffset_ok cfg st pre ks tidx kt hkt hktl
  unfold rValuesStep
  cases hn : nextIdxFrom (·.matchPunct 44) ks (tidx + 1) with
  | none => exact ⟨ks, rfl, hall, hkf⟩
  | some pidx =>
    have hp := (nextIdxFrom_spec _ ks (tidx + 1) pidx hn).1
    simp only
    by_cases hc : cfg.commaFirst = true
    · rw [if_pos hc, hof]
      refine ⟨_, rfl, ?_, getElem?_insertAt_lt ks pidx fidx _ (by omega) kf hkf⟩
      intro k hk hpar
      rcases mem_insertAt ks pidx _ k hk with h1 | h1
      · exact hall k h1 hpar
      · rw [h1] at hpar; cases hpar
    · rw [if_neg hc, hot]
      refine ⟨_, rfl, ?_, getElem?_insertAfterIdx_le _ ks pidx fidx _ (by omega) kf hkf⟩
      intro k hk hpar
      rcases mem_insertAfterIdx _ ks pidx _ k hk with h1 | h1
      · exact hall k h1 hpar
      · rw [h1] at hpar; cases hpar

theorem rValuesLoop_ok (cfg : RCfg) (st : RSt) (pre : Text) (fidx : Nat) (kf : FNode) (hkfl : kf.hasLeaf = true) :
    ∀ (fuel : Nat) (ks : List FNode) (tidx : Nat),
    (∀ k ∈ ks, isParenNode k = true → k.hasLeaf = true) → ks[fidx]? = some kf → fidx ≤ tidx →
    (∃ kt, ks[tidx]? = some kt ∧ kt.hasLeaf = true) →
    ∃ ks', rValuesLoop cfg st pre fidx fuel ks tidx = .ok ks'
  | 0, ks, tidx, _, _, _, _ => ⟨ks, rfl⟩
  | fuel+1, ks, tidx, hall, hkf, hle, ht => by
    obtain ⟨kt, hkt, hktl⟩ := ht
    obtain ⟨ks1, hs1, hall1, hkf1⟩ := rValuesStep_ok cfg st pre fidx ks tidx kf kt hall hkf hkfl hle hkt hktl
    unfold rValuesLoop
    rw [hs1]
    simp only
    cases hn : nextIdxFrom isParenNode ks1 (tidx + 1) with
    | none => exact ⟨ks1, rfl⟩
    | some t' =>
      simp only
      obtain ⟨hge, k', hk', hp'⟩ := nextIdxFrom_spec _ ks1 (tidx + 1) t' hn
      exact rValuesLoop_ok cfg st pre fidx kf hkfl fuel ks1 t' hall1 hkf1 (by omega)
        ⟨k', hk', hall1 k' (List.mem_of_getElem? hk') hp'⟩

theorem rValues_ok (cfg : RCfg) (pre : Text) (st : RSt) (ks : List FNode)
    (hs : (ks.all fun k => !isParenNode k || k.hasLeaf) = true) : ∃ r, rValues cfg pre st ks = .ok r := by
  unfold rValues
  simp only
  have hall : ∀ k ∈ rNl cfg st :: ks, isParenNode k = true → k.hasLeaf = true := by
    intro k hk hp
    rcases List.mem_cons.mp hk with rfl | h2
    · cases hp
    · have := List.all_eq_true.mp hs k h2
      simpa [hp] using this
  cases hn : nextIdxFrom isParenNode (rNl cfg st :: ks) 0 with
  | none => exact ⟨_, rfl⟩
  | some fidx =>
    simp only
    obtain ⟨_, kf, hkf, hpf⟩ := nextIdxFrom_spec _ _ 0 fidx hn
    have hkfl := hall kf (List.mem_of_getElem? hkf) hpf
    obtain ⟨ks', hk'⟩ := rValuesLoop_ok cfg st pre fidx kf hkfl _ _ fidx hall hkf (Nat.le_refl _) ⟨kf, hkf, hkfl⟩
    rw [hk']
    exact ⟨_, rfl⟩

/-! ### dispatch and recursion -/

theorem inFnOf_cons_other (c : Cls) (anc : List Cls) (h1 : c ≠ .Function) (h2 : c ≠ .Values) :
    inFnOf (c :: anc) = inFnOf anc := by
  simp only [inFnOf, List.contains_cons]
  have e1 : (Cls.Function == c) = false := by simp [Ne.symm h1]
  have e2 : (Cls.Values == c) = false := by simp [Ne.symm h2]
  rw [e1, e2]; simp

theorem inFnOf_cons_function (anc : List Cls) : inFnOf (Cls.Function :: anc) = true := by
  simp [inFnOf]

theorem rDispatch_err (cfg : RCfg) (rec : RRec) (hrec : RRecSafe rec) (c : Cls) (cv : Text) (anc : List Cls) (pre : Text)
    (st : RSt) (ks : List FNode) (e : PyErr) (hs : reindent (inFnOf anc) (.grp c cv ks) = true)
    (h : rDispatch cfg rec c (c :: anc) pre st ks = .error e) : e = .recursionError := by
  unfold rDispatch at h
  unfold reindent at hs
  split at h
  · simp only at hs
    exact rWhere_err cfg rec hrec _ pre st ks e (by rw [inFnOf_cons_other _ _ (by decide) (by decide)]; exact hs) h
  · simp only at hs
    exact rParenthesis_err cfg rec hrec _ pre st ks e (by rw [inFnOf_cons_other _ _ (by decide) (by decide)]; exact hs) h
  · simp only at hs
    exact rFunction_err cfg rec hrec _ pre st ks e (by rw [inFnOf_cons_function]; exact hs) h
  · simp only [Bool.and_eq_true] at hs
    exact rIdentifierList_err cfg rec hrec _ pre st ks e (by simpa using hs.1)
      (by rw [inFnOf_cons_other _ _ (by decide) (by decide)]; exact hs.2) h
  · simp only [Bool.and_eq_true] at hs
    exact rCase_err cfg rec hrec _ pre st ks e hs.1 (by rw [inFnOf_cons_other _ _ (by decide) (by decide)]; exact hs.2) h
  · simp only at hs
    obtain ⟨r, hr⟩ := rValues_ok cfg pre st ks hs
    rw [hr] at h; cases h
  · rename_i h1 h2 h3 h4 h5 h6
    have hs' : reindentL (inFnOf (c :: anc)) ks = true := by
      rw [inFnOf_cons_other c anc (fun hc => h3 hc) (fun hc => h6 hc)]
      cases c <;> first
        | exact hs
        | exact absurd rfl h1
        | exact absurd rfl h2
        | exact absurd rfl h3
        | exact absurd rfl h4
        | exact absurd rfl h5
        | exact absurd rfl h6
    exact rDefault_err cfg rec hrec _ pre st true ks ks e (FromOrig.refl ks) hs' h

theorem rProcess_safe (cfg : RCfg) : ∀ (fuel : Nat), RRecSafe (fun a p s n => rProcess cfg fuel a p s n)
  | fuel, a, p, s, .tok tt v, e, _, h => by cases fuel <;> simp [rProcess] at h
  | 0, a, p, s, .grp c cv ks, e, _, h => by simp only [rProcess, Except.error.injEq] at h; exact h.symm
  | fuel+1, a, p, s, .grp c cv ks, e, hs, h => by
    simp only [rProcess] at h
    split at h
    · rename_i e2 he2
      simp only [Except.error.injEq] at h
      rw [← h]
      exact rDispatch_err cfg _ (rProcess_safe cfg fuel) c cv a p s ks e2 hs he2
    · cases h

/-- C07: on the domain `FilterSafe.reindent false` `ReindentFilter.process` raises nothing but `RecursionError` — every option
set, filter state, `_last_stmt` and fuel -/
theorem reindent_total (cfg : RCfg) (fuel : Nat) (st : RSt) (last : Option Text) (n : FNode)
    (hs : FilterSafe.reindent false n = true) (e : PyErr) (h : reindentProcess cfg fuel st last n = .error e) :
    e = .recursionError := by
  unfold reindentProcess at h
  split at h
  · rename_i e2 he2
    simp only [Except.error.injEq] at h
    rw [← h]
    exact rProcess_safe cfg fuel [] [] st n e2 (by simpa [inFnOf] using hs) he2
  · split at h <;> cases h


/-! ## a whole stack of statement filters (`for filter_ in self.stmtprocess: filter_.process(stmt)`) -/

/-- the domain of one filter object on the tree it is about to process (`RightMarginFilter.process` always raises) -/
def StmtObj.safe (n : FNode) : StmtObj → Bool
  | .stripWs => FilterSafe.stripws n
  | .reindent .. => FilterSafe.reindent false n
  | .aligned .. => FilterSafe.aligned n
  | .rightMargin => false
  | .spaces => true
  | .stripComments => true

theorem StmtObj.process_total (fuel : Nat) (n : FNode) (f : StmtObj) (hs : f.safe n = true) (e : PyErr)
    (h : f.process fuel n = .error e) : e = .recursionError := by
  cases f with
  | spaces =>
    simp only [StmtObj.process] at h
    cases hp : Sql.spacesAroundOperators fuel n with
    | error e2 => rw [hp] at h; simp only [Except.map, Except.error.injEq] at h; rw [← h]; exact spaces_total fuel n e2 hp
    | ok r => rw [hp] at h; simp [Except.map] at h
  | stripComments =>
    simp only [StmtObj.process] at h
    cases hp : Sql.stripComments fuel n with
    | error e2 => rw [hp] at h; simp only [Except.map, Except.error.injEq] at h; rw [← h]; exact stripComments_total fuel n e2 hp
    | ok r => rw [hp] at h; simp [Except.map] at h
  | stripWs =>
    simp only [StmtObj.process] at h
    cases hp : Sql.stripWhitespace fuel n with
    | error e2 =>
      rw [hp] at h; simp only [Except.map, Except.error.injEq] at h; rw [← h]
      exact stripWhitespace_total fuel n hs e2 hp
    | ok r => rw [hp] at h; simp [Except.map] at h
  | rightMargin => cases hs
  | reindent cfg st last =>
    simp only [StmtObj.process] at h
    cases hp : reindentProcess cfg fuel st last n with
    | error e2 =>
      rw [hp] at h; simp only [Except.map, Except.error.injEq] at h; rw [← h]
      exact reindent_total cfg fuel st last n hs e2 hp
    | ok r => rw [hp] at h; simp [Except.map] at h
  | aligned ch st =>
    simp only [StmtObj.process] at h
    cases hp : alignedProcess ch fuel st n with
    | error e2 =>
      rw [hp] at h; simp only [Except.map, Except.error.injEq] at h; rw [← h]
      exact aligned_total ch fuel st n hs e2 hp
    | ok r => rw [hp] at h; simp [Except.map] at h

/-- every stage finds the tree it receives inside its domain -/
def SafeRun (fuel : Nat) : List StmtObj → FNode → Prop
  | [], _ => True
  | f :: fs, n => f.safe n = true ∧ ∀ n' f', f.process fuel n = .ok (n', f') → SafeRun fuel fs n'

/-- C07 for the statement stage of `FilterStack.run`: if every filter of the stack receives a tree of its domain, the stage
raises nothing but `RecursionError` (which `run` turns into `SQLParseError`) -/
theorem runStmtObjs_total (fuel : Nat) : ∀ (objs : List StmtObj) (n : FNode) (e : PyErr), SafeRun fuel objs n →
    runStmtObjs fuel objs n = .error e → e = .recursionError
  | [], n, e, _, h => by simp [runStmtObjs] at h
  | f :: fs, n, e, hs, h => by
    obtain ⟨h1, h2⟩ := hs
    unfold runStmtObjs at h
    cases hp : f.process fuel n with
    | error e2 =>
      rw [hp] at h
      simp only [Except.error.injEq] at h
      rw [← h]; exact StmtObj.process_total fuel n f h1 e2 hp
    | ok r =>
      obtain ⟨n', f'⟩ := r
      rw [hp] at h
      simp only at h
      cases hr : runStmtObjs fuel fs n' with
      | error e2 =>
        rw [hr] at h
        simp only [Except.error.injEq] at h
        rw [← h]; exact runStmtObjs_total fuel fs n' e2 (h2 n' f' hp) hr
      | ok r2 => rw [hr] at h; cases h

/-! ## bridge to the grouping model -/

/-- after repo commit 4e9e704 the only remaining way for `_stripws_parenthesis` to raise is a last-but-one child that is a
group consisting of whitespace only; so a parenthesis none of whose children is such a group (code 2) is inside the domain.
Bridging obligation for the grouping model: *no pass builds a group without a non-whitespace child*. -/
theorem parenCodesOK_of_no2 (codes : List Nat) (h : ∀ x ∈ codes, x ≠ 2) : parenCodesOK codes = true := by
  unfold parenCodesOK
  have hmem : ∀ x ∈ (trimInsideBy (· == 0) codes).reverse, x ∈ codes :=
    fun x hx => (trimInsideBy_del (· == 0) codes).mem x (List.mem_reverse.mp hx)
  cases hr : (trimInsideBy (· == 0) codes).reverse with
  | nil => rfl
  | cons last r1 =>
    cases r1 with
    | nil => rfl
    | cons pen rest =>
      simp only [bne_iff_ne, ne_eq]
      exact h pen (hmem pen (by rw [hr]; simp))

end Sql
