import SqlModel.RegexCost
import SqlProofs.RegexCost
import SqlProofs.Lex.Quoted
/-!
# SqlProofs.StrTemplate — the quoted-string shape `q(qq|\q|[^q])*q` has linearly many derivations

`cert` gives no certificate for this shape because after a backslash two alternatives of the starred unit apply (`\q` and `[^q]`).
The shape is nevertheless unambiguous enough: writing F(p) for the number of derivations of the star from position `p`,
* F(p) ≤ (n − p) + 1, and
* if the character before `p` is a quote, F(p − 1) + F(p) ≤ (n − p) + 2
(the second clause is the parity argument: of two readings that enter a run of quotes one position apart, only one can leave it).
Both are proved together by induction on the fuel of the repetition loop.  The search tree of the star has exactly one node per
derivation, so the work is linear as well.
-/
namespace Sql

/-- the repeated unit `(qq|\q|[^q])` of a quoted-string rule with quote `x` -/
def strUnit (g : Nat) (x : Nat) : Re :=
  .grp g (.alt (.cat (.set (cs x)) (.set (cs x))) (.alt (.cat (.set (cs 92)) (.set (cs x))) (.set (csNot x))))

theorem strRe_unit (g x : Nat) :
    strRe g (cs x) (cs 92) (csNot x) = .cat (.set (cs x)) (.cat (.rep 0 none true (strUnit g x)) (.set (cs x))) := rfl

/-- what `isStrTemplate` recognises -/
theorem isStrTemplate_shape (r : Re) (h : isStrTemplate r = true) :
    ∃ g x, 1 ≤ x ∧ x ≠ 92 ∧ r = strRe g (cs x) (cs 92) (csNot x) := by
  unfold isStrTemplate at h
  split at h
  · rename_i q0 g q1 q2 bs q3 nq q4
    split at h
    · rename_i x y hq0
      simp only [Bool.and_eq_true, beq_iff_eq, decide_eq_true_eq, bne_iff_ne, ne_eq] at h
      obtain ⟨⟨⟨⟨⟨⟨⟨⟨hxy, hx1⟩, h1⟩, h2⟩, h3⟩, h4⟩, hbs⟩, hx92⟩, hnq⟩ := h
      subst hxy
      have e0 : q0 = cs x := by cases q0; simp only [cs] at *; simp_all
      have eb : bs = cs 92 := by cases bs; simp only [cs] at *; simp_all
      have en : nq = csNot x := by cases nq; simp only [csNot] at *; simp_all
      subst h1 h2 h3 h4
      exact ⟨g, x, hx1, hx92, by rw [e0, eb, en]; rfl⟩
    · simp at h
  · simp at h

/-! ## what one unit can do, by the next two characters -/

theorem cs_mem_eq (a c : Nat) : (cs a).mem c = decide (c = a) := by
  rw [Bool.eq_iff_iff]; simp [cs_mem]

theorem csNot_self (x : Nat) (hx : 1 ≤ x) : (csNot x).mem x = false := by
  simp only [csNot, mem_cons', mem_nil', Bool.or_false]
  have h1 : ¬ x ≤ x - 1 := by omega
  have h2 : ¬ x + 1 ≤ x := by omega
  simp [h1, h2]

theorem csNot_92 (x : Nat) (hx : x ≠ 92) : (csNot x).mem 92 = true := by
  simp only [csNot, mem_cons', mem_nil', Bool.or_false, Bool.or_eq_true, Bool.and_eq_true, decide_eq_true_eq]
  omega

theorem derivs_set_get (E : Env) (S : CpSet) (st : St) (c : Cp) (h : E.s[st.pos]? = some c) :
    derivs E (.set S) st = if S.mem c then [{ st with pos := st.pos + 1 }] else [] := by
  simp only [derivs, h]

theorem derivs_set_getNone (E : Env) (S : CpSet) (st : St) (h : E.s[st.pos]? = none) :
    derivs E (.set S) st = [] := by
  simp only [derivs, h]

/-- the five facts about the unit that the counting argument uses -/
structure UnitFacts (E : Env) (x : Nat) (step : St → List St) : Prop where
  s1 : ∀ st, E.s[st.pos]? = none → step st = []
  s2 : ∀ st, E.s[st.pos]? = some x → E.s[st.pos + 1]? = some x → ∃ a, step st = [a] ∧ a.pos = st.pos + 2
  s3 : ∀ st, E.s[st.pos]? = some x → E.s[st.pos + 1]? ≠ some x → step st = []
  s4 : ∀ st, E.s[st.pos]? = some 92 → E.s[st.pos + 1]? = some x →
    ∃ a b, step st = [a, b] ∧ a.pos = st.pos + 2 ∧ b.pos = st.pos + 1
  s5 : ∀ st c, E.s[st.pos]? = some c → c ≠ x → ¬ (c = 92 ∧ E.s[st.pos + 1]? = some x) →
    step st = [] ∨ ∃ a, step st = [a] ∧ a.pos = st.pos + 1

theorem strUnit_facts (E : Env) (g x : Nat) (hx1 : 1 ≤ x) (hx92 : x ≠ 92) : UnitFacts E x (derivs E (strUnit g x)) := by
  have hx92' : ¬ x = 92 := hx92
  have h92x : ¬ 92 = x := fun h => hx92 h.symm
  refine ⟨?_, ?_, ?_, ?_, ?_⟩
  · intro st h
    simp only [strUnit, derivs_grp, derivs_alt, derivs_cat, derivs_set_getNone E _ st h, List.flatMap_nil, List.append_nil,
      List.map_nil]
  · intro st h h'
    simp only [strUnit, derivs_grp, derivs_alt, derivs_cat, derivs_set_get E _ st x h, cs_mem_eq, csNot_self x hx1,
      derivs_set_get E _ ⟨st.pos + 1, st.caps⟩ x h', decide_true, hx92', decide_false,
      if_true, Bool.false_eq_true, if_false, List.flatMap_cons, List.flatMap_nil, List.append_nil, List.map_cons, List.map_nil]
    exact ⟨_, rfl, rfl⟩
  · intro st h h'
    have hsecond : derivs E (.set (cs x)) ⟨st.pos + 1, st.caps⟩ = [] := by
      cases hd : E.s[st.pos + 1]? with
      | none => exact derivs_set_getNone E _ _ hd
      | some d =>
        rw [derivs_set_get E _ ⟨st.pos + 1, st.caps⟩ d hd, cs_mem_eq]
        have : ¬ d = x := by intro e; subst e; exact h' hd
        simp [this]
    simp only [strUnit, derivs_grp, derivs_alt, derivs_cat, derivs_set_get E _ st x h, cs_mem_eq, csNot_self x hx1,
      hsecond, decide_true, hx92', decide_false,
      if_true, Bool.false_eq_true, if_false, List.flatMap_cons, List.flatMap_nil, List.append_nil, List.map_nil]
  · intro st h h'
    simp only [strUnit, derivs_grp, derivs_alt, derivs_cat, derivs_set_get E _ st 92 h, cs_mem_eq, csNot_92 x hx92,
      derivs_set_get E _ ⟨st.pos + 1, st.caps⟩ x h', decide_true, h92x, decide_false,
      if_true, Bool.false_eq_true, if_false, List.flatMap_cons, List.flatMap_nil, List.append_nil, List.nil_append,
      List.cons_append, List.map_cons, List.map_nil]
    exact ⟨_, _, rfl, rfl, rfl⟩
  · intro st c h hcx hnot
    have hcx' : ¬ c = x := hcx
    have hB : derivs E (.cat (.set (cs 92)) (.set (cs x))) st = [] := by
      rw [derivs_cat, derivs_set_get E _ st c h, cs_mem_eq]
      by_cases hc : c = 92
      · have hd' : E.s[st.pos + 1]? ≠ some x := fun e => hnot ⟨hc, e⟩
        have hsecond : derivs E (.set (cs x)) ⟨st.pos + 1, st.caps⟩ = [] := by
          cases hd : E.s[st.pos + 1]? with
          | none => exact derivs_set_getNone E _ _ hd
          | some d =>
            rw [derivs_set_get E _ ⟨st.pos + 1, st.caps⟩ d hd, cs_mem_eq]
            have : ¬ d = x := by intro e; subst e; exact hd' hd
            simp [this]
        simp [hc, hsecond]
      · simp [hc]
    simp only [strUnit, derivs_grp, derivs_alt, hB, List.nil_append]
    simp only [derivs_cat, derivs_set_get E _ st c h, cs_mem_eq, hcx', decide_false, Bool.false_eq_true, if_false,
      List.flatMap_nil, List.nil_append]
    cases (csNot x).mem c with
    | false => left; simp
    | true =>
      simp only [if_true, List.map_cons, List.map_nil]
      right; exact ⟨_, rfl, rfl⟩

/-! ## one unfolding of the greedy loop, by the shape of the step -/

theorem rep_len_nil (step : St → List St) (fuel : Nat) (st : St) (h : step st = []) :
    (repAux step true (fuel + 1) 0 none st).length = 1 := by
  rw [repAux_greedy0, h]; simp

theorem rep_len_one (step : St → List St) (fuel : Nat) (st a : St) (h : step st = [a]) (ha : st.pos < a.pos) :
    (repAux step true (fuel + 1) 0 none st).length = (repAux step true fuel 0 none a).length + 1 := by
  rw [repAux_greedy0, h]; simp [ha]

theorem rep_len_two (step : St → List St) (fuel : Nat) (st a b : St) (h : step st = [a, b]) (ha : st.pos < a.pos)
    (hb : st.pos < b.pos) :
    (repAux step true (fuel + 1) 0 none st).length
      = (repAux step true fuel 0 none a).length + (repAux step true fuel 0 none b).length + 1 := by
  rw [repAux_greedy0, h]; simp [ha, hb, Nat.add_assoc]

theorem lt_size_of_get (E : Env) (i : Nat) (c : Cp) (h : E.s[i]? = some c) : i < E.s.size :=
  (Array.getElem?_eq_some_iff.mp h).1

/-- **the counting argument** -/
theorem strStar_len (E : Env) (x : Nat) (step : St → List St) (U : UnitFacts E x step) : ∀ fuel,
    (∀ st, (repAux step true fuel 0 none st).length ≤ E.s.size - st.pos + 1) ∧
    (∀ st st', st'.pos + 1 = st.pos → E.s[st'.pos]? = some x →
      (repAux step true fuel 0 none st').length + (repAux step true fuel 0 none st).length ≤ E.s.size - st.pos + 2) := by
  intro fuel
  induction fuel with
  | zero =>
    refine ⟨fun st => by simp [repAux_zero0], fun st st' _ _ => by simp [repAux_zero0]⟩
  | succ fuel ih =>
    obtain ⟨ih1, ih2⟩ := ih
    have p1 : ∀ st, (repAux step true (fuel + 1) 0 none st).length ≤ E.s.size - st.pos + 1 := by
      intro st
      cases hc : E.s[st.pos]? with
      | none => rw [rep_len_nil step fuel st (U.s1 st hc)]; omega
      | some c =>
        have hlt := lt_size_of_get E _ _ hc
        by_cases hcx : c = x
        · subst hcx
          by_cases hd : E.s[st.pos + 1]? = some c
          · obtain ⟨a, ha, hap⟩ := U.s2 st hc hd
            have hlt2 := lt_size_of_get E _ _ hd
            rw [rep_len_one step fuel st a ha (by omega)]
            have := ih1 a
            omega
          · rw [rep_len_nil step fuel st (U.s3 st hc hd)]; omega
        · by_cases hbs : c = 92 ∧ E.s[st.pos + 1]? = some x
          · obtain ⟨hc92, hd⟩ := hbs
            subst hc92
            obtain ⟨a, b, hab, hap, hbp⟩ := U.s4 st hc hd
            have hlt2 := lt_size_of_get E _ _ hd
            rw [rep_len_two step fuel st a b hab (by omega) (by omega)]
            have := ih2 a b (by omega) (by rw [hbp]; exact hd)
            omega
          · rcases U.s5 st c hc hcx hbs with h0 | ⟨a, ha, hap⟩
            · rw [rep_len_nil step fuel st h0]; omega
            · rw [rep_len_one step fuel st a ha (by omega)]
              have := ih1 a
              omega
    refine ⟨p1, ?_⟩
    intro st st' hpos hq
    by_cases hd : E.s[st'.pos + 1]? = some x
    · obtain ⟨a', ha', hap'⟩ := U.s2 st' hq hd
      rw [rep_len_one step fuel st' a' ha' (by omega)]
      have hc : E.s[st.pos]? = some x := by rw [← hpos]; exact hd
      have hlt := lt_size_of_get E _ _ hc
      by_cases hd2 : E.s[st.pos + 1]? = some x
      · obtain ⟨a, ha, hap⟩ := U.s2 st hc hd2
        have hlt2 := lt_size_of_get E _ _ hd2
        rw [rep_len_one step fuel st a ha (by omega)]
        have hap2 : a'.pos = st.pos + 1 := by omega
        have := ih2 a a' (by omega) (by rw [hap2]; exact hd2)
        omega
      · rw [rep_len_nil step fuel st (U.s3 st hc hd2)]
        have := ih1 a'
        omega
    · rw [rep_len_nil step fuel st' (U.s3 st' hq hd)]
      have := p1 st
      omega

/-! ## work: one node of the search tree per derivation -/

theorem sum_le_mul_flatMap {α β : Type} (l : List α) (w : α → Nat) (f : α → List β) (K : Nat)
    (h : ∀ a ∈ l, w a ≤ K * (f a).length) : (l.map w).sum ≤ K * (l.flatMap f).length := by
  induction l with
  | nil => simp
  | cons a t ih =>
    simp only [List.map_cons, List.sum_cons, List.flatMap_cons, List.length_append, Nat.mul_add]
    have h1 := h a (by simp)
    have h2 := ih (fun b hb => h b (by simp [hb]))
    omega

theorem workRep_le_len (step : St → List St) (wstep : St → Nat) (W : Nat) (hw : ∀ st, wstep st ≤ W) :
    ∀ fuel st, workRep step wstep fuel 0 none st ≤ (1 + W) * (repAux step true fuel 0 none st).length := by
  intro fuel
  induction fuel with
  | zero => intro st; simp [workRep, repAux_zero0]
  | succ fuel ih =>
    intro st
    rw [repAux_greedy0, workRep]
    simp only [reduceCtorEq, if_false, Option.map_none, Nat.zero_sub, List.length_append, List.length_cons, List.length_nil,
      Nat.mul_add]
    have hs := sum_le_mul_flatMap ((step st).filter (fun st' => st.pos < st'.pos))
      (fun st' => workRep step wstep fuel 0 none st') (fun st' => repAux step true fuel 0 none st') (1 + W)
      (fun a _ => ih a)
    have := hw st
    omega

/-! ## the bound -/

theorem set_len_le (E : Env) (S : CpSet) (st : St) : (derivs E (.set S) st).length ≤ 1 := by
  simp only [derivs]; split
  · split <;> simp
  · simp

theorem work_cat_set_set (E : Env) (S T : CpSet) (st : St) : work E (.cat (.set S) (.set T)) st ≤ 3 := by
  simp only [work]
  have h := sum_map_le (derivs E (.set S) st) (fun _ => 1) 1 (fun _ _ => Nat.le_refl 1)
  have := set_len_le E S st
  omega

theorem work_strUnit (E : Env) (g x : Nat) (st : St) : work E (strUnit g x) st ≤ 10 := by
  simp only [strUnit, work]
  have h1 := work_cat_set_set E (cs x) (cs x) st
  have h2 := work_cat_set_set E (cs 92) (cs x) st
  simp only [work] at h1 h2
  omega

/-- **linear bound for the quoted-string shape**: at most `|s| + 1` derivations and a search tree of at most `12·(|s|+1) + 4` nodes,
for every subject and every start state -/
theorem strRe_linear (E : Env) (g x : Nat) (hx1 : 1 ≤ x) (hx92 : x ≠ 92) (st : St) :
    (derivs E (strRe g (cs x) (cs 92) (csNot x)) st).length ≤ E.s.size + 1 ∧
    work E (strRe g (cs x) (cs 92) (csNot x)) st ≤ 12 * (E.s.size + 1) + 4 := by
  have U := strUnit_facts E g x hx1 hx92
  have hF : ∀ st1 : St, (repAux (derivs E (strUnit g x)) true (E.s.size - st1.pos + 1) 0 none st1).length ≤ E.s.size + 1 := by
    intro st1
    have := (strStar_len E x _ U (E.s.size - st1.pos + 1)).1 st1
    omega
  -- the part after the opening quote
  have hX : ∀ st1 : St,
      (derivs E (.cat (.rep 0 none true (strUnit g x)) (.set (cs x))) st1).length ≤ E.s.size + 1 ∧
      work E (.cat (.rep 0 none true (strUnit g x)) (.set (cs x))) st1 ≤ 12 * (E.s.size + 1) + 2 := by
    intro st1
    have hlen := length_flatMap_le (derivs E (.rep 0 none true (strUnit g x)) st1) (derivs E (.set (cs x))) 1
      (fun y _ => set_len_le E _ y)
    have hrep : (derivs E (.rep 0 none true (strUnit g x)) st1).length ≤ E.s.size + 1 := by
      rw [derivs_rep]; exact hF st1
    refine ⟨by rw [derivs_cat]; omega, ?_⟩
    simp only [work]
    have hw := workRep_le_len (derivs E (strUnit g x)) (work E (strUnit g x)) 10 (fun y => work_strUnit E g x y)
      (E.s.size - st1.pos + 1) st1
    have hsum := sum_map_le (derivs E (.rep 0 none true (strUnit g x)) st1) (work E (.set (cs x))) 1
      (fun y _ => by simp [work])
    have hF1 := hF st1
    have : (1 + 10) * (repAux (derivs E (strUnit g x)) true (E.s.size - st1.pos + 1) 0 none st1).length
        ≤ 11 * (E.s.size + 1) := Nat.mul_le_mul_left _ hF1
    simp only [work] at hsum
    omega
  rw [strRe_unit]
  have h1 := set_len_le E (cs x) st
  refine ⟨?_, ?_⟩
  · rw [derivs_cat]
    have := length_flatMap_le (derivs E (.set (cs x)) st) (derivs E (.cat (.rep 0 none true (strUnit g x)) (.set (cs x))))
      (E.s.size + 1) (fun y _ => (hX y).1)
    have h2 : (derivs E (.set (cs x)) st).length * (E.s.size + 1) ≤ 1 * (E.s.size + 1) := Nat.mul_le_mul_right _ h1
    omega
  · have hcat : ∀ (a b : Re), work E (.cat a b) st = 1 + work E a st + ((derivs E a st).map (work E b)).sum := by
      intro a b; simp [work]
    have hset : work E (.set (cs x)) st = 1 := by simp [work]
    rw [hcat, hset]
    have := sum_map_le (derivs E (.set (cs x)) st) (work E (.cat (.rep 0 none true (strUnit g x)) (.set (cs x))))
      (12 * (E.s.size + 1) + 2) (fun y _ => (hX y).2)
    have h2 : (derivs E (.set (cs x)) st).length * (12 * (E.s.size + 1) + 2) ≤ 1 * (12 * (E.s.size + 1) + 2) :=
      Nat.mul_le_mul_right _ h1
    omega

/-- every expression recognised by `isStrTemplate` has linearly many derivations and a linear search tree -/
theorem isStrTemplate_linear (E : Env) (r : Re) (h : isStrTemplate r = true) (st : St) :
    (derivs E r st).length ≤ E.s.size + 1 ∧ work E r st ≤ 12 * (E.s.size + 1) + 4 := by
  obtain ⟨g, x, hx1, hx92, rfl⟩ := isStrTemplate_shape r h
  exact strRe_linear E g x hx1 hx92 st

end Sql
