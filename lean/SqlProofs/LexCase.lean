import SqlProofs.LexWordsCase
import SqlProofs.LexShift
/-!
# SqlProofs.LexCase — changing the case of ASCII letters anywhere in a text changes no token boundary and no token type

Every character class of the generated table is closed under ASCII case (`rules_case_closed`), `\b` uses `\w` (closed), back-references
compare through `_sre.unicode_tolower` (equal on the two cases of an ASCII letter, `sreLower_fold`), `$` looks for U+000A (not a letter):
so the derivations of every rule at every position are literally the same in two texts that agree up to ASCII case (`derivs_case`), hence
so is every scan step (`firstMatch_case`), and `is_keyword` of the two values is the same (`isKeyword_case_invariant`).
`lex_ascii_case_invariant`: the token list of the re-cased text is the token list of the original with each value replaced by the
corresponding slice of the re-cased text (`reslice`): same boundaries, same types.
-/
namespace Sql

theorem fold_eq_10 (a b : Nat) (h : asciiFold a = asciiFold b) : (a = 10 ↔ b = 10) := by
  unfold asciiFold at h
  split at h <;> split at h <;> omega

/-- on ASCII, `_sre.unicode_tolower` does not distinguish the two cases of a letter (checked over the generated table) -/
theorem sreLower_ascii : ∀ c, c < 128 → sreLower (asciiFold c) = sreLower c := by decide +kernel

theorem sreLower_fold (a b : Nat) (h : asciiFold a = asciiFold b) : sreLower a = sreLower b := by
  rcases fold_eq_cases a b h with rfl | ⟨ha, hb⟩
  · rfl
  · rw [← sreLower_ascii a ha, ← sreLower_ascii b hb, h]

/-- two subjects equal up to the case of ASCII letters -/
structure CaseEq (E' E : Env) : Prop where
  text : E'.s.toList.map asciiFold = E.s.toList.map asciiFold
  word : E'.word = E.word
  lower : E'.lower = E.lower
  wordClosed : caseClosedSet E.word = true
  lowerFold : ∀ a b, asciiFold a = asciiFold b → E.lower a = E.lower b

theorem CaseEq.size {E' E : Env} (H : CaseEq E' E) : E'.s.size = E.s.size := by
  have := congrArg List.length H.text
  simpa using this

theorem CaseEq.get {E' E : Env} (H : CaseEq E' E) (i : Nat) :
    (E'.s[i]?).map asciiFold = (E.s[i]?).map asciiFold := by
  have := congrArg (fun l => l[i]?) H.text
  simpa [List.getElem?_map] using this

/-- corresponding characters: both absent, or both present with the same fold -/
theorem CaseEq.cases {E' E : Env} (H : CaseEq E' E) (i : Nat) :
    (E'.s[i]? = none ∧ E.s[i]? = none) ∨ ∃ a b, E'.s[i]? = some a ∧ E.s[i]? = some b ∧ asciiFold a = asciiFold b := by
  have := H.get i
  cases h1 : E'.s[i]? with
  | none =>
    cases h2 : E.s[i]? with
    | none => exact Or.inl ⟨rfl, rfl⟩
    | some b => rw [h1, h2] at this; simp at this
  | some a =>
    cases h2 : E.s[i]? with
    | none => rw [h1, h2] at this; simp at this
    | some b =>
      rw [h1, h2] at this
      simp only [Option.map_some, Option.some.injEq] at this
      exact Or.inr ⟨a, b, rfl, rfl, this⟩

theorem mem_fold_eq (S : CpSet) (hS : caseClosedSet S = true) (a b : Nat) (h : asciiFold a = asciiFold b) : S.mem a = S.mem b := by
  rw [← caseClosedSet_fold S hS a, h, caseClosedSet_fold S hS]

theorem isWordAt_case {E' E : Env} (H : CaseEq E' E) (i : Nat) : isWordAt E' i = isWordAt E i := by
  unfold isWordAt
  rcases H.cases i with ⟨h1, h2⟩ | ⟨a, b, h1, h2, hf⟩
  · rw [h1, h2]
  · rw [h1, h2, H.word]; exact mem_fold_eq _ H.wordClosed a b hf

theorem sameFold_case {E' E : Env} (H : CaseEq E' E) (a p len : Nat) : sameFold E' a p len = sameFold E a p len := by
  unfold sameFold
  congr 1
  funext k
  rcases H.cases (a + k) with ⟨h1, h2⟩ | ⟨x', x, h1, h2, hfx⟩
  · rw [h1, h2]
  · rcases H.cases (p + k) with ⟨g1, g2⟩ | ⟨y', y, g1, g2, hfy⟩
    · simp only [h1, h2, g1, g2]
    · simp only [h1, h2, g1, g2, H.lower, H.lowerFold x' x hfx, H.lowerFold y' y hfy]

/-- **the derivations of a case-closed expression are the same in both subjects** -/
theorem derivs_case {E' E : Env} (H : CaseEq E' E) : ∀ r : Re, caseClosedRe r = true → derivs E' r = derivs E r := by
  have hsz := H.size
  intro r
  induction r with
  | eps => intro _; funext st; rfl
  | set S =>
    intro hr; funext st
    simp only [derivs]
    rcases H.cases st.pos with ⟨h1, h2⟩ | ⟨a, b, h1, h2, hf⟩
    · rw [h1, h2]
    · simp only [h1, h2, mem_fold_eq S hr a b hf]
  | cat a b iha ihb =>
    intro hr; funext st
    simp only [caseClosedRe, Bool.and_eq_true] at hr
    simp only [derivs, iha hr.1, ihb hr.2]
  | alt a b iha ihb =>
    intro hr; funext st
    simp only [caseClosedRe, Bool.and_eq_true] at hr
    simp only [derivs, iha hr.1, ihb hr.2]
  | rep lo hi g r ih =>
    intro hr; funext st
    simp only [derivs, ih hr, hsz]
  | grp n r ih =>
    intro hr; funext st
    simp only [derivs, ih hr]
  | bref n =>
    intro _; funext st
    simp only [derivs, hsz, sameFold_case H]
  | look ahead neg w r ih =>
    intro hr; funext st
    simp only [derivs, ih hr]
  | atEnd =>
    intro _; funext st
    simp only [derivs, hsz]
    have : (E'.s[st.pos]? == some 10) = (E.s[st.pos]? == some 10) := by
      rcases H.cases st.pos with ⟨h1, h2⟩ | ⟨a, b, h1, h2, hf⟩
      · rw [h1, h2]
      · rw [h1, h2]
        have := fold_eq_10 a b hf
        rw [Bool.eq_iff_iff]
        simp only [beq_iff_eq, Option.some.injEq]
        exact this
    rw [this]
  | wordB =>
    intro _; funext st
    simp only [derivs, isWordAt_case H]

theorem firstMatch_case {E' E : Env} (H : CaseEq E' E) : ∀ (rules : List Rule),
    (rules.all fun r => caseClosedRe r.re) = true → ∀ p, firstMatch E' rules p = firstMatch E rules p := by
  intro rules
  induction rules with
  | nil => intro _ p; rfl
  | cons r rs ih =>
    intro hall p
    simp only [List.all_cons, Bool.and_eq_true] at hall
    simp only [firstMatch, matchAt, derivs_case H r.re hall.1, ih hall.2 p]

/-! ## the token list -/

/-- the same token types and lengths, with the values read from the text `l` -/
def reslice : List Cp → List Tok → List Tok
  | _, [] => []
  | l, t :: ts => ⟨t.tt, l.take t.val.length⟩ :: reslice (l.drop t.val.length) ts

theorem reslice_types : ∀ (ts : List Tok) (l : List Cp), (reslice l ts).map (·.tt) = ts.map (·.tt) := by
  intro ts
  induction ts with
  | nil => intro l; rfl
  | cons t ts ih => intro l; simp only [reslice, List.map_cons, ih]

theorem caseEq_default (s s' : Array Cp) (h : s'.toList.map asciiFold = s.toList.map asciiFold) :
    CaseEq (defaultCfg.env s') (defaultCfg.env s) := by
  refine ⟨h, rfl, rfl, ?_, ?_⟩
  · have := wordSets_case_closed
    simp only [Bool.and_eq_true] at this
    have e : (defaultCfg.env s).word = Gen.wordSet := by simp [LexCfg.env, defaultCfg]
    rw [e]; exact this.1
  · intro a b hab
    have e : (defaultCfg.env s).lower = sreLower := by simp [LexCfg.env, defaultCfg]
    rw [e]; exact sreLower_fold a b hab

theorem scan_case (s s' : Array Cp) (h : s'.toList.map asciiFold = s.toList.map asciiFold) :
    ∀ (p : Nat) (ts : List Tok), Scan defaultCfg (defaultCfg.env s) p ts →
      Scan defaultCfg (defaultCfg.env s') p (reslice (s'.toList.drop p) ts) := by
  have H := caseEq_default s s' h
  have hsz : s'.size = s.size := H.size
  have hfm := firstMatch_case H defaultCfg.rules rules_case_closed
  intro p ts hs
  induction hs with
  | done p hp => exact Scan.done p (by show s'.size ≤ p; rw [hsz]; exact hp)
  | err p c ts hc hfm' _ ih =>
    have hlt : p < s.size := (Array.getElem?_eq_some_iff.mp hc).1
    have hlt' : p < s'.toList.length := by simp; omega
    have hd : s'.toList.drop p = s'.toList[p] :: s'.toList.drop (p + 1) := List.drop_eq_getElem_cons hlt'
    have hg : (defaultCfg.env s').s[p]? = some (s'.toList[p]) := by
      show s'[p]? = _
      rw [← Array.getElem?_toList, List.getElem?_eq_getElem hlt']
    have := Scan.err (cfg := defaultCfg) (E := defaultCfg.env s') p _ _ hg (by rw [hfm p]; exact hfm') ih
    simp only [reslice, List.length_singleton]
    rw [hd]
    simpa using this
  | tok p act e ts hpe hes hfm' hact _ ih =>
    have hes' : e ≤ s.size := hes
    have hlen : ((defaultCfg.env s).s.extract p e).toList.length = e - p := extract_length _ p e (by omega) hes
    have hv' : (s'.toList.drop p).take (e - p) = ((defaultCfg.env s').s.extract p e).toList := by
      rw [extract_toList]; rfl
    have hdrop : (s'.toList.drop p).drop (e - p) = s'.toList.drop e := by
      rw [List.drop_drop]; congr 1; omega
    have hfoldv : ((defaultCfg.env s').s.extract p e).toList.map asciiFold
        = ((defaultCfg.env s).s.extract p e).toList.map asciiFold := by
      rw [extract_toList, extract_toList]
      show ((s'.toList.drop p).take (e - p)).map asciiFold = ((s.toList.drop p).take (e - p)).map asciiFold
      rw [List.map_take, List.map_drop, List.map_take, List.map_drop, h]
    have hty : tokType defaultCfg act ((defaultCfg.env s').s.extract p e).toList
        = tokType defaultCfg act ((defaultCfg.env s).s.extract p e).toList := by
      cases act with
      | tok tt => rfl
      | other => rfl
      | kw => exact isKeyword_case_invariant _ _ hfoldv
    have := Scan.tok (cfg := defaultCfg) (E := defaultCfg.env s') p act e _ hpe (by show e ≤ s'.size; omega)
      (by rw [hfm p]; exact hfm') hact ih
    simp only [reslice]
    rw [hlen, hv', hdrop, ← hty]
    exact this

/-- **`lex` is invariant under re-casing ASCII letters**: same token boundaries, same token types; the values are the corresponding
slices of the re-cased text -/
theorem lex_ascii_case_invariant (s s' : Array Cp) (h : s'.toList.map asciiFold = s.toList.map asciiFold)
    (ts : List Tok) (hl : lex defaultCfg s = .ok ts) :
    lex defaultCfg s' = .ok (reslice s'.toList ts) := by
  have hsc := scan_case s s' h 0 ts (lex_default_scan s ts hl)
  obtain ⟨ts', hl', hsc'⟩ := lex_scan defaultCfg defaultRulesOK s'
  rw [hl', scan_unique _ _ _ _ hsc' _ (by simpa using hsc)]

/-! ## re-lexing a case-mapped token list -/

/-- same types; values equal up to ASCII case -/
def CaseRel : List Tok → List Tok → Prop
  | [], [] => True
  | t' :: ts', t :: ts => t'.tt = t.tt ∧ t'.val.map asciiFold = t.val.map asciiFold ∧ CaseRel ts' ts
  | _, _ => False

theorem caseRel_text : ∀ (ts' ts : List Tok), CaseRel ts' ts →
    ((ts'.map (·.val)).flatten).map asciiFold = ((ts.map (·.val)).flatten).map asciiFold := by
  intro ts'
  induction ts' with
  | nil => intro ts h; cases ts with
    | nil => rfl
    | cons _ _ => exact absurd h (by simp [CaseRel])
  | cons t' ts' ih =>
    intro ts h
    cases ts with
    | nil => exact absurd h (by simp [CaseRel])
    | cons t ts =>
      obtain ⟨_, h2, h3⟩ := h
      simp only [List.map_cons, List.flatten_cons, List.map_append, h2, ih ts h3]

theorem caseRel_reslice : ∀ (ts' ts : List Tok), CaseRel ts' ts → reslice ((ts'.map (·.val)).flatten) ts = ts' := by
  intro ts'
  induction ts' with
  | nil => intro ts h; cases ts with
    | nil => rfl
    | cons _ _ => exact absurd h (by simp [CaseRel])
  | cons t' ts' ih =>
    intro ts h
    cases ts with
    | nil => exact absurd h (by simp [CaseRel])
    | cons t ts =>
      obtain ⟨h1, h2, h3⟩ := h
      have hlen : t.val.length = t'.val.length := by
        have := congrArg List.length h2; simpa using this.symm
      simp only [reslice, List.map_cons, List.flatten_cons, hlen, List.take_left', List.drop_left', ih ts h3, ← h1]

/-- **lexing the text of a case-mapped token list gives that token list back**: if `ts` is the lexer's output for some text and `ts'`
has the same types and values equal up to ASCII case, then `lex (text of ts') = ts'` — no token is fused, split or re-typed. -/
theorem relex_case_mapped (s : Array Cp) (ts ts' : List Tok) (hl : lex defaultCfg s = .ok ts) (hrel : CaseRel ts' ts) :
    lex defaultCfg ((ts'.map (·.val)).flatten).toArray = .ok ts' := by
  obtain ⟨ts0, h0, hflat, _⟩ := lex_ok defaultCfg defaultRulesOK (by decide +kernel) s
  rw [hl] at h0; injection h0 with h0; subst h0
  have := lex_ascii_case_invariant s ((ts'.map (·.val)).flatten).toArray
    (by rw [caseRel_text ts' ts hrel, hflat]) ts hl
  rw [this]
  simp only [caseRel_reslice ts' ts hrel]

end Sql
