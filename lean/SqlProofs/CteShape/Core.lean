import SqlProofs.CteShape.Skeletons
import SqlProofs.ClauseShape.Core
/-!
# SqlProofs.CteShape.Core — `get_type()` does not see an admissible re-spelling; from a checked WITH skeleton to every spelling

`getType_respell`: `Statement.get_type()` on the re-spelled children equals `get_type()` on the original children (the
first-token search, the CTE walk and the keyword's normalised value are all invariant).  Hence, for a skeleton `sk` with
`cteCanonical sk = true` and every `f` with `AdmissibleNames kwNorm f` (names, literal values, comment texts, keyword
letter case and inner whitespace, whitespace values), `get_type()` of the grouped re-spelled statement is `sk.want`.
-/
namespace Sql
namespace Acc

variable {upper : Text → Text} {f : TType → Text → Text}

/-- a keyword leaf keeps its normalised value -/
theorem normalized_respell_of_keyword (ha : AdmissibleNames upper f) (k : Node) (hk : k.isKeyword = true) :
    (respell f k).normalized upper = k.normalized upper := by
  cases k with
  | grp c ks => simp [Node.isKeyword] at hk
  | tok t v =>
    simp only [Node.isKeyword] at hk
    simp only [respell_tok, Node.normalized, hk, if_true]
    exact ha.kw t v hk

theorem isKeyword_of_ttEqAny {k : Node} {tts : List TType} (h : k.ttEqAny tts = true)
    (hall : ∀ t ∈ tts, TType.isIn t T.Keyword = true) : k.isKeyword = true := by
  cases k with
  | grp c ks => simp [Node.ttEqAny] at h
  | tok t v =>
    simp only [Node.ttEqAny] at h
    exact hall t (by simpa using h)

theorem cteWalk_respell (ha : AdmissibleNames upper f) (ks : List Node) (fuel : Nat) (tidx : Option Nat) :
    cteWalk upper (ks.map (respell f)) fuel tidx = cteWalk upper ks fuel tidx := by
  induction fuel generalizing tidx with
  | zero => rfl
  | succ n ih =>
    cases tidx with
    | none => rfl
    | some t =>
      simp only [cteWalk, tokenNext_respell]
      cases tokenNext ks t with
      | none => rfl
      | some q =>
        obtain ⟨i, tok⟩ := q
        simp only [Option.map_some, rp, respell_isInstAny]
        split
        · cases tokenNext ks i with
          | none => rfl
          | some q2 =>
            obtain ⟨j, tok2⟩ := q2
            simp only [Option.map_some, rp, respell_ttEqAny]
            split
            · rename_i hd
              exact normalized_respell_of_keyword ha tok2 (isKeyword_of_ttEqAny hd (by decide))
            · exact ih (some j)
        · exact ih (some i)

/-- **`get_type()` does not see an admissible re-spelling** -/
theorem getType_respell (ha : AdmissibleNames upper f) (ks : List Node) :
    getType upper (ks.map (respell f)) = getType upper ks := by
  unfold getType tokenFirstIdx
  rw [tokenMatchingFwd_respell (f := f) _ _ (skipMatcher_respell true true) ks 0 none]
  cases tokenMatchingFwd ks (skipMatcher true true) 0 with
  | none => rfl
  | some q =>
    obtain ⟨i, tok⟩ := q
    simp only [Option.map_some, rp, respell_ttEqAny, List.length_map]
    split
    · rename_i hd
      exact normalized_respell_of_keyword ha tok (isKeyword_of_ttEqAny hd (by decide))
    · split
      · exact cteWalk_respell ha ks _ _
      · rfl

/-- the statement of `cte_get_type_in_context` -/
def CteInContext (f : TType → Text → Text) (sk : CteSkel) (fuel : Nat) : Prop :=
  ∃ (ts : List Tok) (ks' : List Node),
    cteTokens sk = .ok ts ∧
    groupStatement fuel (ts.map (respellTok f)) = .ok (.grp .Statement ks') ∧
    getType kwNorm ks' = sk.want

/-- **C18, CTE clause, in context**: for a checked WITH skeleton, every admissible re-spelling of its tokens and every
fuel `≥ cteFuel`, `get_type()` of the grouped statement is the DML keyword that follows the CTE definitions. -/
theorem cte_get_type_of_check (sk : CteSkel) (h : cteCanonical sk = true) (ha : AdmissibleNames kwNorm f) (fuel : Nat)
    (hfuel : cteFuel ≤ fuel) : CteInContext f sk fuel := by
  unfold cteCanonical at h
  cases htree : cteTree sk with
  | error e => simp [htree] at h
  | ok tree0 =>
    have htree' := htree
    unfold cteTree at htree'
    cases hts : cteTokens sk with
    | error e => simp [hts] at htree'
    | ok ts =>
      simp only [hts] at htree'
      obtain ⟨ks0, rfl⟩ := groupStatement_shape htree'
      have hg : groupStatement fuel (ts.map (respellTok f)) = .ok (.grp .Statement (ks0.map (respell f))) := by
        have := respell_groupStatement_names ha fuel ts
        rw [groupStatement_mono hfuel htree'] at this
        have e : ts.map (respellTok f) = ts.map fun t => (⟨t.tt, f t.tt t.val⟩ : Tok) := rfl
        rw [e, this]; simp
      have hty : getType kwNorm ks0 = sk.want := by
        simpa [htree] using h
      exact ⟨ts, ks0.map (respell f), hts, hg, by rw [getType_respell ha, hty]⟩

end Acc
end Sql
