import SqlProofs.CteShape.Table.T00
import SqlProofs.CteShape.Table.T01
import SqlProofs.CteShape.Table.T02
import SqlProofs.CteShape.Table.T03
import SqlProofs.CteShape.Table.T04
import SqlProofs.CteShape.Table.T05
import SqlProofs.CteShape.Table.T06
import SqlProofs.CteShape.Table.T07
import SqlProofs.CteShape.Table.T08
import SqlProofs.CteShape.Table.T09
import SqlProofs.CteShape.Table.T10
import SqlProofs.CteShape.Table.T11
import SqlProofs.CteShape.Table.T12
import SqlProofs.CteShape.Table.T13
import SqlProofs.CteShape.Table.T14
import SqlProofs.CteShape.Table.T15
import SqlProofs.CteShape.Table.T16
import SqlProofs.CteShape.Table.T17
import SqlProofs.CteShape.Table.T18
import SqlProofs.CteShape.Table.T19
import SqlProofs.CteShape.Table.T20
import SqlProofs.CteShape.Table.T21
import SqlProofs.CteShape.Table.T22
import SqlProofs.CteShape.Table.T23
import SqlProofs.CteShape.Table.T24
import SqlProofs.CteShape.Table.T25
import SqlProofs.CteShape.Table.T26
import SqlProofs.CteShape.Table.T27
import SqlProofs.CteShape.Table.T28
import SqlProofs.CteShape.Table.T29
import SqlProofs.CteShape.Table.T30
import SqlProofs.CteShape.Table.T31
import SqlProofs.CteShape.Table.T32
import SqlProofs.CteShape.Table.T33
import SqlProofs.CteShape.Table.T34
import SqlProofs.CteShape.Table.T35
import SqlProofs.CteShape.Table.T36
import SqlProofs.CteShape.Table.T37
import SqlProofs.CteShape.Table.T38
import SqlProofs.CteShape.Table.T39
/-!
# SqlProofs.CteShape.Table — every skeleton of the CTE table passes `cteCheck`
-/
namespace Sql
namespace Acc

theorem cte_all_drop_take {α : Type} (p : α → Bool) (l : List α) (k : Nat) (h1 : ((l.drop k).take 5).all p = true)
    (h2 : (l.drop (k + 5)).all p = true) : (l.drop k).all p = true := by
  have e : l.drop k = (l.drop k).take 5 ++ l.drop (k + 5) := by
    rw [show l.drop (k + 5) = (l.drop k).drop 5 by rw [List.drop_drop, Nat.add_comm]]
    exact (List.take_append_drop 5 _).symm
  rw [e, List.all_append, h1, h2]; rfl

theorem cteTable_tail : (cteSkels.drop 200).all cteCheck = true := by
  have : cteSkels.length = 196 := by decide +kernel
  rw [List.drop_of_length_le (by omega)]; rfl

/-- **the decided table**: `get_type()` is the demanded keyword on every skeleton, and is decided *not* to be on the pinned ones -/
theorem cteTable_ok : ∀ sk ∈ cteSkels, cteCheck sk = true := by
  have h : (cteSkels.drop 0).all cteCheck = true := by
    apply cte_all_drop_take _ _ _ cte_000
    apply cte_all_drop_take _ _ _ cte_005
    apply cte_all_drop_take _ _ _ cte_010
    apply cte_all_drop_take _ _ _ cte_015
    apply cte_all_drop_take _ _ _ cte_020
    apply cte_all_drop_take _ _ _ cte_025
    apply cte_all_drop_take _ _ _ cte_030
    apply cte_all_drop_take _ _ _ cte_035
    apply cte_all_drop_take _ _ _ cte_040
    apply cte_all_drop_take _ _ _ cte_045
    apply cte_all_drop_take _ _ _ cte_050
    apply cte_all_drop_take _ _ _ cte_055
    apply cte_all_drop_take _ _ _ cte_060
    apply cte_all_drop_take _ _ _ cte_065
    apply cte_all_drop_take _ _ _ cte_070
    apply cte_all_drop_take _ _ _ cte_075
    apply cte_all_drop_take _ _ _ cte_080
    apply cte_all_drop_take _ _ _ cte_085
    apply cte_all_drop_take _ _ _ cte_090
    apply cte_all_drop_take _ _ _ cte_095
    apply cte_all_drop_take _ _ _ cte_100
    apply cte_all_drop_take _ _ _ cte_105
    apply cte_all_drop_take _ _ _ cte_110
    apply cte_all_drop_take _ _ _ cte_115
    apply cte_all_drop_take _ _ _ cte_120
    apply cte_all_drop_take _ _ _ cte_125
    apply cte_all_drop_take _ _ _ cte_130
    apply cte_all_drop_take _ _ _ cte_135
    apply cte_all_drop_take _ _ _ cte_140
    apply cte_all_drop_take _ _ _ cte_145
    apply cte_all_drop_take _ _ _ cte_150
    apply cte_all_drop_take _ _ _ cte_155
    apply cte_all_drop_take _ _ _ cte_160
    apply cte_all_drop_take _ _ _ cte_165
    apply cte_all_drop_take _ _ _ cte_170
    apply cte_all_drop_take _ _ _ cte_175
    apply cte_all_drop_take _ _ _ cte_180
    apply cte_all_drop_take _ _ _ cte_185
    apply cte_all_drop_take _ _ _ cte_190
    apply cte_all_drop_take _ _ _ cte_195
    exact cteTable_tail
  exact fun sk hsk => List.all_eq_true.1 (by simpa using h) sk hsk

end Acc
end Sql
