import SqlProofs.CteShape.Table.T00
import SqlProofs.CteShape.Table.T01
import SqlProofs.CteShape.Table.T02
import SqlProofs.CteShape.Table.T03
import SqlProofs.CteShape.Table.T04
import SqlProofs.CteShape.Table.T05
import SqlProofs.CteShape.Table.T06
import SqlProofs.CteShape.Table.T07
import SqlProofs.CteShape.Table.T08
import SqlProofs.CteShape.Table.T09
import SqlProofs.CteShape.Table.T10
import SqlProofs.CteShape.Table.T11
import SqlProofs.CteShape.Table.T12
import SqlProofs.CteShape.Table.T13
import SqlProofs.CteShape.Table.T14
import SqlProofs.CteShape.Table.T15
import SqlProofs.CteShape.Table.T16
import SqlProofs.CteShape.Table.T17
import SqlProofs.CteShape.Table.T18
import SqlProofs.CteShape.Table.T19
/-!
# SqlProofs.CteShape.Table — every skeleton of the CTE table passes `cteCheck`
-/
namespace Sql
namespace Acc

theorem cte_all_drop_take {α : Type} (p : α → Bool) (l : List α) (k : Nat) (h1 : ((l.drop k).take 10).all p = true)
    (h2 : (l.drop (k + 10)).all p = true) : (l.drop k).all p = true := by
  have e : l.drop k = (l.drop k).take 10 ++ l.drop (k + 10) := by
    rw [show l.drop (k + 10) = (l.drop k).drop 10 by rw [List.drop_drop, Nat.add_comm]]
    exact (List.take_append_drop 10 _).symm
  rw [e, List.all_append, h1, h2]; rfl

theorem cteTable_tail : (cteSkels.drop 200).all cteCheck = true := by
  have : cteSkels.length = 196 := by decide +kernel
  rw [List.drop_of_length_le (by omega)]; rfl

/-- **the decided table**: `get_type()` is the demanded keyword on every skeleton, and is decided *not* to be on the pinned ones -/
theorem cteTable_ok : ∀ sk ∈ cteSkels, cteCheck sk = true := by
  have h : (cteSkels.drop 0).all cteCheck = true := by
    apply cte_all_drop_take _ _ _ cte_000
    apply cte_all_drop_take _ _ _ cte_010
    apply cte_all_drop_take _ _ _ cte_020
    apply cte_all_drop_take _ _ _ cte_030
    apply cte_all_drop_take _ _ _ cte_040
    apply cte_all_drop_take _ _ _ cte_050
    apply cte_all_drop_take _ _ _ cte_060
    apply cte_all_drop_take _ _ _ cte_070
    apply cte_all_drop_take _ _ _ cte_080
    apply cte_all_drop_take _ _ _ cte_090
    apply cte_all_drop_take _ _ _ cte_100
    apply cte_all_drop_take _ _ _ cte_110
    apply cte_all_drop_take _ _ _ cte_120
    apply cte_all_drop_take _ _ _ cte_130
    apply cte_all_drop_take _ _ _ cte_140
    apply cte_all_drop_take _ _ _ cte_150
    apply cte_all_drop_take _ _ _ cte_160
    apply cte_all_drop_take _ _ _ cte_170
    apply cte_all_drop_take _ _ _ cte_180
    apply cte_all_drop_take _ _ _ cte_190
    exact cteTable_tail
  exact fun sk hsk => List.all_eq_true.1 (by simpa using h) sk hsk

end Acc
end Sql
