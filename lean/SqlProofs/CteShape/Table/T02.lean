import SqlProofs.CteShape.Skeletons
/-! CTE skeleton table, entries 10 … 14: kernel evaluation of the real lexer rules, `groupStatement` and `getType` -/
namespace Sql
namespace Acc

set_option maxRecDepth 1000000 in
theorem cte_010 : ((cteSkels.drop 10).take 5).all cteCheck = true := by decide +kernel

end Acc
end Sql
