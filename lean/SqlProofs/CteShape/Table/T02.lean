import SqlProofs.CteShape.Skeletons
/-! CTE skeleton table, entries 20 … 29: kernel evaluation of the real lexer rules, `groupStatement` and `getType` -/
namespace Sql
namespace Acc

set_option maxRecDepth 1000000 in
theorem cte_020 : ((cteSkels.drop 20).take 10).all cteCheck = true := by decide +kernel

end Acc
end Sql
