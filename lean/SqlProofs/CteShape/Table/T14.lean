import SqlProofs.CteShape.Skeletons
import SqlProofs.CteShape.Table.T11  -- build-order only (three lanes: a decided lemma of five WITH statements needs about 5 GB)
/-! CTE skeleton table, entries 70 … 74: kernel evaluation of the real lexer rules, `groupStatement` and `getType` -/
namespace Sql
namespace Acc

set_option maxRecDepth 1000000 in
theorem cte_070 : ((cteSkels.drop 70).take 5).all cteCheck = true := by decide +kernel

end Acc
end Sql
