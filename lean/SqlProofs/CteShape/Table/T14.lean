import SqlProofs.CteShape.Skeletons
import SqlProofs.CteShape.Table.T11  -- build-order only (three lanes: a decided lemma of ten WITH statements needs 5-6 GB)
/-! CTE skeleton table, entries 140 … 149: kernel evaluation of the real lexer rules, `groupStatement` and `getType` -/
namespace Sql
namespace Acc

set_option maxRecDepth 1000000 in
theorem cte_140 : ((cteSkels.drop 140).take 10).all cteCheck = true := by decide +kernel

end Acc
end Sql
