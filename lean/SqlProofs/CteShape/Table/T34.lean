import SqlProofs.CteShape.Skeletons
import SqlProofs.CteShape.Table.T31  -- build-order only (three lanes: a decided lemma of five WITH statements needs about 5 GB)
/-! CTE skeleton table, entries 170 … 174: kernel evaluation of the real lexer rules, `groupStatement` and `getType` -/
namespace Sql
namespace Acc

set_option maxRecDepth 1000000 in
theorem cte_170 : ((cteSkels.drop 170).take 5).all cteCheck = true := by decide +kernel

end Acc
end Sql
