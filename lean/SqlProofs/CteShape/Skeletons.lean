import SqlModel.Accessors
import SqlModel.Grouping
/-!
# SqlProofs.CteShape.Skeletons — WITH statements for the CTE clause of property C18, and their check

A skeleton is a statement text `WITH [RECURSIVE] d1 [, d2 [, d3]] <statement>` over placeholder names, with what
`Statement.get_type()` has to return: the upper-cased DML keyword that follows the CTE definitions (`UNKNOWN` when no DML
keyword follows).  `cteCheck` lexes the text with the real rule table, groups it and evaluates `getType`.
`pinned` skeletons are the shapes for which the real answer is *not* the demanded one (decided negatives).

No proofs here: the file is imported by the decided tables and by the driver (`cteSkels`, `cteCheck`).
-/
namespace Sql
namespace Acc

structure CteSkel where
  text : Text
  want : Text
  pinned : Bool := false
  note : String := ""
deriving Repr

def cteFuel : Nat := 10

def cteTokens (sk : CteSkel) : Except PyErr (List Tok) := lex defaultCfg sk.text.toArray

def cteTree (sk : CteSkel) : Except PyErr Node :=
  match cteTokens sk with
  | .error e => .error e
  | .ok ts => groupStatement cteFuel ts

/-- `get_type()` of the grouped statement is the demanded keyword -/
def cteCanonical (sk : CteSkel) : Bool :=
  match cteTree sk with
  | .ok (.grp _ ks) => getType kwNorm ks == sk.want
  | _ => false

def cteCheck (sk : CteSkel) : Bool := cteCanonical sk != sk.pinned

/-! ## the table -/

def cteJoin (sep : Text) : List Text → Text
  | [] => []
  | [a] => a
  | a :: rest => a ++ sep ++ cteJoin sep rest

/-- CTE definitions: plain, with a column list, with a WHERE, a set operation, a data-modifying body -/
def cteDefs : List Text :=
  [txt "c1 as (select 1)", txt "c2(x1, y1) as (select 1, 2)", txt "c3 as (select a1 from t1 where a1 = 1)",
   txt "c4 (z1) as (select 1 union all select 2)", txt "c5 as (insert into t2 values (1) returning a2)"]

/-- lists of one, two and three definitions -/
def cteDefLists : List (List Text) :=
  let d (i : Nat) : Text := (cteDefs.drop i).headD []
  [[d 0], [d 1], [d 2], [d 0, d 1], [d 1, d 0], [d 3, d 2], [d 4, d 0], [d 0, d 1, d 2], [d 1, d 3, d 0], [d 2, d 4, d 1]]

/-- what follows the definitions: (text, demanded type) -/
def cteTails : List (Text × Text) :=
  [(txt "select * from c1", txt "SELECT"), (txt "insert into t3 select * from c1", txt "INSERT"),
   (txt "update t3 set a3 = 1 where a3 in (select x1 from c2)", txt "UPDATE"), (txt "delete from t3 where a3 = 1", txt "DELETE"),
   (txt "merge into t3 using c1 on a3 = b3", txt "MERGE"), (txt "replace into t3 select * from c1", txt "REPLACE"),
   (txt "upsert into t3 select * from c1", txt "UPSERT")]

def mkCte (recursive : Bool) (defs : List Text) (sep : Text) (gap : Text) (tail : Text × Text) : CteSkel :=
  { text := txt "with " ++ (if recursive then txt "recursive " else []) ++ cteJoin sep defs ++ gap ++ tail.1, want := tail.2 }

/-- every definition list × every DML verb (WITH and WITH RECURSIVE alternate) -/
def cteBasic : List CteSkel :=
  (List.range cteDefLists.length).flatMap fun i =>
    cteTails.map fun t => mkCte (i % 2 == 1) ((cteDefLists.drop i).headD []) (txt ", ") [32] t

/-- comments between the definitions (issue632 shape) and before the DML keyword -/
def cteSeps : List Text := [txt " /* k */ , ", txt ",\n-- k\n", txt ", /* k */ ", txt " -- k\n, "]
def cteGaps : List Text := [txt " /* k */ ", txt " -- k\n", txt "\n/* k */\n-- k2\n", txt " /*+ hint */ "]

def cteCommented : List CteSkel :=
  let two := (cteDefLists.drop 3).headD []
  let three := (cteDefLists.drop 7).headD []
  (cteSeps.flatMap fun s => cteTails.flatMap fun t => [mkCte false two s [32] t, mkCte true three s [32] t]) ++
  (cteGaps.flatMap fun g => cteTails.flatMap fun t => [mkCte false ((cteDefLists.drop 0).headD []) [] g t, mkCte true two (txt ", ") g t])

/-- no DML keyword follows: `UNKNOWN` -/
def cteUnknown : List CteSkel :=
  [{ text := txt "with c1 as (select 1) (select 2)", want := txt "UNKNOWN" },
   { text := txt "with c1 as (select 1) values (1)", want := txt "UNKNOWN" },
   { text := txt "with c1 as (select 1), c2(x1, y1) as (select 1, 2) table c1", want := txt "UNKNOWN" }]

/-- decided negatives: `AS [NOT] MATERIALIZED` (PostgreSQL 12) — the walk does not see an Identifier/IdentifierList and returns
`UNKNOWN`, or walks on into the statement and returns a later DML keyword -/
def ctePinned : List CteSkel :=
  [{ text := txt "with c1 as not materialized (select 1) select * from c1", want := txt "SELECT", pinned := true, note := "AS NOT MATERIALIZED" },
   { text := txt "with c1 as not materialized (select 1) insert into t3 select * from c1", want := txt "INSERT", pinned := true,
     note := "AS NOT MATERIALIZED" },
   { text := txt "with c1 as not materialized (select 1) update t3 set a3 = 1", want := txt "UPDATE", pinned := true, note := "AS NOT MATERIALIZED" },
   { text := txt "with c1 as (select 1), c2 as not materialized (select 2) delete from t3", want := txt "DELETE", pinned := true,
     note := "AS NOT MATERIALIZED" }]

/-- `AS MATERIALIZED` is fine -/
def cteMaterialized : List CteSkel :=
  cteTails.map fun t => { text := txt "with c1 as materialized (select 1) " ++ t.1, want := t.2 }

/-- the whole table, in the order it is decided -/
def cteSkels : List CteSkel := cteBasic ++ cteCommented ++ cteUnknown ++ cteMaterialized ++ ctePinned

end Acc
end Sql
