import SqlProofs.CteShape.Table
import SqlProofs.CteShape.Core
/-!
# SqlProofs.CteShape.Main — C18, CTE clause: `get_type()` of a WITH statement, in context

**Enumerated** (`cteSkels`, decided in `Table/*.lean`): 196 statements — ten lists of one to three CTE definitions (plain,
with a column list, with WHERE, a set operation, a data-modifying body) × seven DML verbs, `WITH` and `WITH RECURSIVE`;
comments between the definitions and before the DML keyword (eight placements × two lists × seven verbs); `AS MATERIALIZED`;
three statements without a DML keyword after the definitions (`UNKNOWN`); four pinned `AS NOT MATERIALIZED` negatives.
**Universal** (`respell_group_names`, `getType_respell`): every name, literal and comment text, keyword letter case and inner
whitespace, whitespace values; the fuel.
-/
namespace Sql
namespace Acc

theorem cteCanonical_of_table {sk : CteSkel} (hsk : sk ∈ cteSkels) (hp : sk.pinned = false) : cteCanonical sk = true := by
  have := cteTable_ok sk hsk
  unfold cteCheck at this
  rw [hp] at this
  cases hc : cteCanonical sk with
  | true => rfl
  | false => rw [hc] at this; cases this

/-- the pinned WITH statements (`AS NOT MATERIALIZED`) are decided *not* to be typed by the DML keyword after the definitions -/
theorem cte_pinned_not_canonical {sk : CteSkel} (hsk : sk ∈ cteSkels) (hp : sk.pinned = true) : cteCanonical sk = false := by
  have := cteTable_ok sk hsk
  unfold cteCheck at this
  rw [hp] at this
  cases hc : cteCanonical sk with
  | false => rfl
  | true => rw [hc] at this; cases this

/-- **C18, CTE clause**: every skeleton of the table, every admissible re-spelling, every sufficient fuel -/
theorem cte_get_type_in_context (sk : CteSkel) (hsk : sk ∈ cteSkels) (hp : sk.pinned = false) {f : TType → Text → Text}
    (ha : AdmissibleNames kwNorm f) (fuel : Nat) (hfuel : cteFuel ≤ fuel) : CteInContext f sk fuel :=
  cte_get_type_of_check sk (cteCanonical_of_table hsk hp) ha fuel hfuel

end Acc
end Sql
