import SqlProofs.LexDedicated
import SqlProofs.LexDictWords
import SqlProofs.LexRule16
/-!
# SqlProofs.LexDedicatedWords — the dictionary words that a dedicated rule takes (and `WITH`), in every casing

`dedicated_cert` (kernel evaluation over the generated table) computes, for each of the fourteen single-word entries of `uncertified`,
the action of the first matching rule and that its first match is the whole word.  With `ded_word_token` and `dedCert_case`:
`dedicated_word_any_casing` — universal in the text, the position, the delimiter and the casing.
-/
namespace Sql

/-- word, action of the rule that takes it -/
def dedicatedWords : List (String × Action) :=
  [("CREATE", .tok T.DDL), ("FROM", .tok T.Keyword), ("JOIN", .tok T.Keyword), ("LIKE", .tok T.Comparison),
   ("IN", .tok T.Keyword), ("END", .tok T.Keyword), ("AS", .tok T.Keyword), ("CASE", .tok T.Keyword),
   ("REGEXP", .tok T.Comparison), ("RLIKE", .tok T.Comparison), ("ILIKE", .tok T.Comparison),
   ("USING", .tok T.Keyword), ("VALUES", .tok T.Keyword), ("WITH", .kw)]

/-- table obligation (evaluated): for each listed word the first rule that can match it before a delimiter has the listed action, and
its first derivation covers exactly the word -/
theorem dedicated_cert :
    (dedicatedWords.all fun e => wordShape (txt e.1) && (dedCert (txt e.1) == some (e.2, (txt e.1).length))) = true := by
  decide +kernel

/-- every single-word entry of `uncertified` is in the table -/
theorem dedicated_covers_uncertified :
    (uncertified.all fun w => (dedicatedWords.any fun e => txt e.1 == w) || w.any (fun c => c == 32 || c == 45)) = true := by
  decide +kernel

/-- **the dedicated-rule words, in every casing.**  For a listed word `name` with action `act` and any spelling `w'` equal to it up to the
case of ASCII letters: in any text, at any position not right after a `.`, before a delimiter (not `[$#\\w]`, not whitespace, not `(`, `.`
or `'`), the scan step yields `act` over exactly `w'`. -/
theorem dedicated_word_any_casing (name : String) (act : Action) (hmem : (name, act) ∈ dedicatedWords)
    (s : Array Cp) (p : Nat) (pre w' rest : List Cp) (c : Cp)
    (hcase : w'.map asciiFold = (txt name).map asciiFold)
    (h : s.toList = pre ++ w' ++ c :: rest) (hp : pre.length = p) (hprev : pre.getLast? ≠ some 46) (hc : WordDelim2 c) :
    firstMatch (defaultCfg.env s) defaultCfg.rules p = some (act, p + w'.length) := by
  have hall := dedicated_cert
  simp only [List.all_eq_true, Bool.and_eq_true, beq_iff_eq] at hall
  obtain ⟨hshape, hcert⟩ := hall (name, act) hmem
  have hlen : w'.length = (txt name).length := SameFold.length hcase
  have := ded_word_token s p pre w' rest c act (txt name).length h hp hprev hc
    (by rw [wordShape_case (w' := w') (w := txt name) hcase]; exact hshape)
    (by rw [dedCert_case w' (txt name) hcase]; exact hcert)
  rw [this, hlen]

/-- the type of the emitted token: the dedicated rule's type, or — for `WITH`, which the generic word rule takes — `is_keyword` of the
upper-case spelling -/
theorem dedicated_word_type (name : String) (act : Action) (hmem : (name, act) ∈ dedicatedWords) (w' : Text)
    (hcase : w'.map asciiFold = (txt name).map asciiFold) :
    tokType defaultCfg act w' = tokType defaultCfg act (txt name) := by
  cases act with
  | tok ty => rfl
  | other => rfl
  | kw =>
    simp only [tokType]
    exact isKeyword_case_invariant (txt name) w' hcase

/-- **which type each word gets** (evaluated): `(word, type of the emitted token, type the dictionaries would give)`.  For `LIKE`,
`ILIKE`, `RLIKE`, `REGEXP` the dedicated rule's type `Operator.Comparison` differs from the dictionary's `Keyword` — there the property's
clause "or by an earlier dedicated lexical rule" applies; for all others the two agree (`WITH` is classified by the dictionary itself). -/
theorem dedicated_vs_dictionary :
    dedicatedWords.map (fun e => (e.1, tokType defaultCfg e.2 (txt e.1), isKeyword defaultCfg (txt e.1))) =
      [("CREATE", T.DDL, T.DDL), ("FROM", T.Keyword, T.Keyword), ("JOIN", T.Keyword, T.Keyword),
       ("LIKE", T.Comparison, T.Keyword), ("IN", T.Keyword, T.Keyword), ("END", T.Keyword, T.Keyword),
       ("AS", T.Keyword, T.Keyword), ("CASE", T.Keyword, T.Keyword), ("REGEXP", T.Comparison, T.Keyword),
       ("RLIKE", T.Comparison, T.Keyword), ("ILIKE", T.Comparison, T.Keyword), ("USING", T.Keyword, T.Keyword),
       ("VALUES", T.Keyword, T.Keyword), ("WITH", T.CTE, T.CTE)] := by decide +kernel

/-- … and at a scan position the output of `lex` contains that one token -/
theorem dedicated_word_in_output (name : String) (act : Action) (hmem : (name, act) ∈ dedicatedWords)
    (s : Array Cp) (p : Nat) (pre w' rest : List Cp) (c : Cp)
    (hcase : w'.map asciiFold = (txt name).map asciiFold)
    (h : s.toList = pre ++ w' ++ c :: rest) (hp : pre.length = p) (hprev : pre.getLast? ≠ some 46) (hc : WordDelim2 c)
    (hb : ScanBoundary defaultCfg (defaultCfg.env s) p) :
    ∃ ts before after, lex defaultCfg s = .ok ts ∧
      ts = before ++ ⟨tokType defaultCfg act (txt name), w'⟩ :: after ∧
      textLen before = p ∧ ScanBoundary defaultCfg (defaultCfg.env s) (p + w'.length) := by
  have hfm := dedicated_word_any_casing name act hmem s p pre w' rest c hcase h hp hprev hc
  obtain ⟨ts, before, after, h1, h2, h3, h4⟩ := lex_emits_act s p act _ hb hfm
  have hv : (s.extract p (p + w'.length)).toList = w' :=
    extract_region s pre w' (c :: rest) p (by simpa using h) hp
  rw [hv, dedicated_word_type name act hmem w' hcase] at h2
  exact ⟨ts, before, after, h1, h2, h3, h4⟩

/-! ## without the restriction on `'` (everything except `WITH`) -/

/-- `dedCert` with the plain delimiter condition `WordDelim` (no assumption about `'`) -/
def dedCert1 (w : Text) : Option (Action × Nat) :=
  match w with
  | c0 :: _ => dedFrom (wordK w) defaultCfg.rules (maskOf c0 defaultCfg.rules) (skipMask defaultCfg.rules)
  | [] => none

theorem ded_word_token1 (s : Array Cp) (p : Nat) (pre w rest : List Cp) (c : Cp) (act : Action) (e : Nat)
    (h : s.toList = pre ++ w ++ c :: rest) (hp : pre.length = p) (hprev : pre.getLast? ≠ some 46)
    (hc : WordDelim c) (hshape : wordShape w = true) (hcert : dedCert1 w = some (act, e)) :
    firstMatch (defaultCfg.env s) defaultCfg.rules p = some (act, p + e) := by
  cases w with
  | nil => simp [wordShape] at hshape
  | cons c0 run =>
    simp only [wordShape, Bool.and_eq_true, List.all_eq_true] at hshape
    simp only [dedCert1] at hcert
    obtain ⟨front, r, back, l, hrules, hact, hex, hfront⟩ := dedFrom_spec _ c0 _ act e hcert
    have hplain := plain_of_delim c hc
    obtain ⟨H, hdead⟩ := window_ctx s p pre run rest c0 c (wordK (c0 :: run)) rfl rfl rfl (by
      intro X hX
      simp only [wordK, List.mem_cons, List.not_mem_nil, or_false] at hX
      rcases hX with rfl | rfl | rfl | rfl
      · exact hplain.2.1
      · exact hplain.2.2
      · exact hc.2.1
      · exact hc.1) h hp hprev hc hshape.2
    obtain ⟨st, more, hd, hpos⟩ := aexact_head _ _ p c H r.re e l hex
    rw [hrules, firstMatch_split _ _ r back p (fun x hx => hdead x.re (hfront x hx)) st more hd, hact, hpos]

theorem dedCert1_case (w' w : Text) (h : w'.map asciiFold = w.map asciiFold) : dedCert1 w' = dedCert1 w := by
  have hs : SameFold w' w := h
  unfold dedCert1
  cases w' with
  | nil =>
    cases w with
    | nil => rfl
    | cons c t => simp at h
  | cons c' t' =>
    cases w with
    | nil => simp at h
    | cons c t =>
      have hc : asciiFold c' = asciiFold c := by
        simp only [List.map_cons, List.cons.injEq] at h; exact h.1
      simp only
      rw [maskOf_case c c' hc _ rules_case_closed]
      exact dedFrom_case_mk [cs 40, cs 46, Gen.spaceSet, wordTailSet] [cs 46] hs _ _ _ rules_case_closed

/-- table obligation (evaluated): the same results without excluding `'` as delimiter, for every listed word except `WITH` -/
theorem dedicated_cert1 :
    ((dedicatedWords.filter fun e => e.1 != "WITH").all fun e => dedCert1 (txt e.1) == some (e.2, (txt e.1).length)) = true := by
  decide +kernel

/-- `dedicated_word_any_casing` with the delimiter condition `WordDelim` only, for every listed word except `WITH` -/
theorem dedicated_word_any_casing1 (name : String) (act : Action) (hmem : (name, act) ∈ dedicatedWords) (hne : name ≠ "WITH")
    (s : Array Cp) (p : Nat) (pre w' rest : List Cp) (c : Cp)
    (hcase : w'.map asciiFold = (txt name).map asciiFold)
    (h : s.toList = pre ++ w' ++ c :: rest) (hp : pre.length = p) (hprev : pre.getLast? ≠ some 46) (hc : WordDelim c) :
    firstMatch (defaultCfg.env s) defaultCfg.rules p = some (act, p + w'.length) := by
  have hall := dedicated_cert
  simp only [List.all_eq_true, Bool.and_eq_true, beq_iff_eq] at hall
  obtain ⟨hshape, _⟩ := hall (name, act) hmem
  have hall1 := dedicated_cert1
  simp only [List.all_eq_true, beq_iff_eq, List.mem_filter, bne_iff_ne, ne_eq, and_imp] at hall1
  have hcert := hall1 (name, act) hmem hne
  have hlen : w'.length = (txt name).length := SameFold.length hcase
  have := ded_word_token1 s p pre w' rest c act (txt name).length h hp hprev hc
    (by rw [wordShape_case (w' := w') (w := txt name) hcase]; exact hshape)
    (by rw [dedCert1_case w' (txt name) hcase]; exact hcert)
  rw [this, hlen]

end Sql
