import SqlProofs.ClauseShape.Nodes
import SqlModel.Grouping
/-!
# SqlProofs.ClauseShape.Skeletons — statement skeletons for the clause nodes of property C13, and their checks

A skeleton is a statement text (placeholder names, single blanks) with the clause it is about and what the accessor of
the clause node has to return, as *texts* of the returned nodes.  `clauseCheck` lexes the text with the real rule
table, groups it and evaluates the accessor; `pinned` skeletons are the known non-canonical shapes (KF-C13-1/2 and what
the table found): for them the check of `pinnedAs` holds instead of the canonical one, so that the finding is
recorded as a decided fact.

No proofs here: the file is imported by the decided tables and by the driver (`clauseSkels`, `clauseCheck`).
-/
namespace Sql
namespace Acc

inductive ClauseKind where
  /-- the statement has exactly one top-level `IdentifierList`; `get_identifiers()` = `items` -/
  | identList
  /-- a `Function` with text `target`; `get_parameters()` = `items` -/
  | params
  /-- a `Case` with text `target`; `get_cases(skip_ws=True)` = `cases` -/
  | cases
  /-- a `Comparison` with text `target`; `left`, `right` = `items` -/
  | comparison
  /-- exactly one `TypedLiteral` with text `target`, all of whose children are leaves -/
  | typedLiteral
deriving Repr, DecidableEq

structure ClauseSkel where
  kind : ClauseKind
  text : Text
  target : Text := []
  items : List Text := []
  cases : List (Option (List Text) × List Text) := []
  /-- a known non-canonical shape: `clauseCheck` is then *required to fail* for the canonical expectation -/
  pinned : Bool := false
  note : String := ""
deriving Repr

def clauseFuel : Nat := 10

def clauseTokens (sk : ClauseSkel) : Except PyErr (List Tok) := lex defaultCfg sk.text.toArray

def clauseTree (sk : ClauseSkel) : Except PyErr Node :=
  match clauseTokens sk with
  | .error e => .error e
  | .ok ts => groupStatement clauseFuel ts

def nodesTexts (l : List (Nat × Node)) : List Text := l.map (fun p => p.2.text)

def identListOk (sk : ClauseSkel) (K : List Node) : Bool :=
  nodesTexts (getIdentifiers kwNorm K) == sk.items

def paramsOk (sk : ClauseSkel) (K : List Node) : Bool :=
  Node.textL K == sk.target &&
  match getParameters kwNorm K with
  | .ok ps => ps.map (fun p => p.2.text) == sk.items
  | .error _ => false

def caseEntryTexts (e : CaseEntry) : Option (List Text) × List Text := (e.cond.map nodesTexts, nodesTexts e.val)

def casesOk (sk : ClauseSkel) (K : List Node) : Bool :=
  Node.textL K == sk.target &&
  match getCases kwNorm K true with
  | .ok es => es.map caseEntryTexts == sk.cases
  | .error _ => false

def comparisonOk (sk : ClauseSkel) (K : List Node) : Bool :=
  Node.textL K == sk.target &&
  match comparisonLeft K, comparisonRight K with
  | .ok l, .ok r => [l.2.text, r.2.text] == sk.items
  | _, _ => false

def typedLiteralOk (sk : ClauseSkel) (K : List Node) : Bool :=
  Node.textL K == sk.target && K.all (fun k => !k.isGroup)

/-- the canonical expectation of the skeleton's kind, on a grouped statement -/
def canonicalOn (sk : ClauseSkel) (tree : Node) : Bool :=
  match sk.kind with
  | .identList =>
    (match tree with
     | .grp _ ks =>
       (match topKidsOfCls .IdentifierList ks with
        | [K] => identListOk sk K
        | _ => false)
     | .tok .. => false)
  | .params => (kidsOfCls .Function tree).any (paramsOk sk)
  | .cases => (kidsOfCls .Case tree).any (casesOk sk)
  | .comparison => (kidsOfCls .Comparison tree).any (comparisonOk sk)
  | .typedLiteral =>
    (match (kidsOfCls .TypedLiteral tree).filter (fun K => Node.textL K == sk.target) with
     | [K] => typedLiteralOk sk K
     | _ => false)

def canonical (sk : ClauseSkel) : Bool :=
  match clauseTree sk with
  | .ok tree => canonicalOn sk tree
  | .error _ => false

/-- canonical skeletons pass, pinned ones are decided *not* to be canonical -/
def clauseCheck (sk : ClauseSkel) : Bool := canonical sk != sk.pinned

/-! ## the table -/

def joinWith (sep : Text) : List Text → Text
  | [] => []
  | [a] => a
  | a :: rest => a ++ sep ++ joinWith sep rest

def commaList (items : List Text) : Text := joinWith (txt ", ") items

/-- select-list / FROM-list items -/
def selItems : List Text :=
  [txt "x1", txt "y1.z1", txt "u1 as w1", txt "f(p1)", txt "g(p1, q1)", txt "1", txt "'str'", txt "a1 + b1",
   txt "(c1) d1"]

def fromItems : List Text := [txt "t1", txt "s1.t2", txt "t3 as w3", txt "t4 w4"]

def rot {α : Type} (l : List α) (k : Nat) : List α := l.drop (k % l.length) ++ l.take (k % l.length)

def pairsOf (l : List Text) : List (List Text) := l.flatMap fun a => l.map fun b => [a, b]

/-- cyclic triples `(i, i+1, i+2)` and `(i+2, i+1, i)` -/
def triplesOf (l : List Text) : List (List Text) :=
  (List.range l.length).flatMap fun i =>
    let t := (rot l i).take 3
    [t, t.reverse]

def selListSkel (items : List Text) : ClauseSkel :=
  { kind := .identList, text := txt "select " ++ commaList items ++ txt " from v", items := items }

def fromListSkel (items : List Text) : ClauseSkel :=
  { kind := .identList, text := txt "select x from " ++ commaList items, items := items }

def pin (sk : ClauseSkel) (why : String) : ClauseSkel := { sk with pinned := true, note := why }

def selListSkels : List ClauseSkel := (pairsOf selItems ++ triplesOf selItems).map selListSkel

def fromListSkels : List ClauseSkel := (pairsOf fromItems ++ triplesOf fromItems).map fromListSkel

/-- further item forms, each in one list -/
def extraListSkels : List ClauseSkel :=
  [[txt "a1", txt "case when c1 then v1 end", txt "b1"], [txt "case when c1 then v1 end k1", txt "b1"],
   [txt "*", txt "y1"], [txt "x1.*", txt "y1"], [txt "x1", txt "count(*)", txt "y1"], [txt "x1", txt "y1::int"],
   [txt "x1 y1", txt "f(p1) q1"], [txt "2 n2", txt "x1"], [txt "a1 = b1", txt "c1"], [txt "x1", txt "?"],
   [txt "x1", txt "-1"], [txt "x1", txt "a1 || b1 c1"]].map selListSkel

/-- the shapes that are *not* one `IdentifierList` with the written items (decided negatives):
KF-C13-2 — a string literal or `NULL` with an implicit alias, a bare parenthesis — in any position, not only the first;
and a typed literal as a list item (it is not among the classes `group_identifier_list` accepts, so the list is not
built at all, or is cut at the literal) -/
def pinnedListSkels : List ClauseSkel :=
  ([[txt "'lit' l1", txt "x1"], [txt "x1", txt "'lit' l1"], [txt "(c1)", txt "x1"], [txt "x1", txt "(c1)", txt "y1"],
    [txt "null n3", txt "x1"], [txt "x1", txt "null n3"]].map fun l => pin (selListSkel l) "KF-C13-2") ++
  ([[txt "a1", txt "date '2020-01-01'", txt "b1"], [txt "date '2020-01-01'", txt "b1"],
    [txt "a1", txt "date '2020-01-01'"], [txt "date '2020-01-01' d1", txt "b1"]].map fun l =>
      pin (selListSkel l) "typed literal as list item")

/-- contexts of an expression `C` -/
def exprCtxs : List (Text × Text) :=
  [(txt "select ", txt " from v"), (txt "select x from v where ", txt " = 1"), (txt "select h(", txt ") from v")]

structure CallSpec where
  args : List Text
  /-- what `get_parameters()` returns: `args`, or `[]` for the KF-C13-1 shapes (a decided *positive* fact: the accessor
  returns the empty list on them) -/
  params : List Text
  kf1 : Bool := false

def callSpecs : List CallSpec :=
  let ok (a : List Text) : CallSpec := { args := a, params := a }
  let kf (a : Text) : CallSpec := { args := [a], params := [], kf1 := true }
  [ok [txt "a1", txt "b1"], ok [txt "a1", txt "b1", txt "c1"], ok [txt "g(a1)", txt "b1"], ok [txt "1", txt "'x'"],
   ok [txt "date '2020-01-01'", txt "c1"], ok [txt "a1.b1", txt "2.5"], ok [txt "a1 + b1", txt "c1"],
   ok [txt "a1", txt "date '2020-01-01'", txt "3"], ok [txt "g(a1, b1)", txt "k(c1)", txt "'z'"],
   ok [txt "a1"], ok [txt "1"], ok [txt "'x'"], ok [txt "g(a1)"], ok [txt "date '2020-01-01'"], ok [txt "a1.b1"],
   kf (txt "a1 + b1"), kf (txt "(a1)"), kf (txt "case when a1 then b1 end"), kf (txt "a1 = b1"), kf (txt "?"),
   kf (txt "*"), kf (txt "null")]

def callSkels : List ClauseSkel :=
  exprCtxs.flatMap fun (pre, post) =>
    callSpecs.map fun c =>
      let call := txt "f(" ++ commaList c.args ++ txt ")"
      { kind := .params, text := pre ++ call ++ post, target := call, items := c.params,
        note := if c.kf1 then "KF-C13-1: a single argument of this form is not returned" else "" }

structure CaseSpec where
  whens : List (Text × Text)
  els : Option Text

def caseSpecs : List CaseSpec :=
  let s1 := (txt "c1", txt "v1")
  let k1 := (txt "c1 = 1", txt "v1")
  let s2 := (txt "c2", txt "'v2'")
  let k2 := (txt "c2 > d2", txt "v2")
  [⟨[s1], none⟩, ⟨[k1], none⟩, ⟨[s1], some (txt "v3")⟩, ⟨[k1], some (txt "3")⟩,
   ⟨[s1, k2], none⟩, ⟨[k1, s2], none⟩, ⟨[s1, k2], some (txt "v3")⟩, ⟨[k1, s2], some (txt "f(v3)")⟩]

def CaseSpec.text (c : CaseSpec) : Text :=
  txt "case" ++ (c.whens.flatMap fun (cd, v) => txt " when " ++ cd ++ txt " then " ++ v) ++
    (match c.els with | none => [] | some v => txt " else " ++ v) ++ txt " end"

def CaseSpec.expect (c : CaseSpec) : List (Option (List Text) × List Text) :=
  (c.whens.map fun (cd, v) => (some [txt "when", cd], [txt "then", v])) ++
    (match c.els with | none => [] | some v => [(none, [txt "else", v])])

def caseSkels : List ClauseSkel :=
  exprCtxs.flatMap fun (pre, post) =>
    caseSpecs.map fun c =>
      { kind := .cases, text := pre ++ c.text ++ post, target := c.text, cases := c.expect }

structure CmpSpec where
  left : Text
  op : Text
  right : Text

def cmpSpecs : List CmpSpec :=
  [⟨txt "a1", txt "=", txt "b1"⟩, ⟨txt "a1.b1", txt "<>", txt "1"⟩, ⟨txt "f(x1)", txt ">=", txt "'y'"⟩,
   ⟨txt "a1", txt "like", txt "'x%'"⟩, ⟨txt "a1", txt "not like", txt "b1"⟩, ⟨txt "a1", txt "<", txt "2.5"⟩,
   ⟨txt "a1 + 1", txt "!=", txt "(b1)"⟩]

def CmpSpec.text (c : CmpSpec) : Text := c.left ++ [32] ++ c.op ++ [32] ++ c.right

def cmpCtxs : List (Text × Text) :=
  [(txt "select x from v where ", []), (txt "select x from v where y = 2 and ", txt " or z"),
   (txt "select case when ", txt " then y end from v"), (txt "select x from v join w on ", [])]

def cmpSkels : List ClauseSkel :=
  cmpCtxs.flatMap fun (pre, post) =>
    cmpSpecs.map fun c =>
      { kind := .comparison, text := pre ++ c.text ++ post, target := c.text, items := [c.left, c.right] }

/-- predicates that are *not* `Comparison` nodes in the real code (decided negatives; not findings: `IS`, `IN`,
`BETWEEN` are plain keywords for the grouping engine) -/
def pinnedCmpSkels : List ClauseSkel :=
  [(txt "a1 is null", txt "a1", txt "null"), (txt "a1 in (1, 2)", txt "a1", txt "(1, 2)"),
   (txt "a1 between 1 and 2", txt "a1", txt "2")].map fun (t, l, r) =>
    pin { kind := .comparison, text := txt "select x from v where " ++ t, target := t, items := [l, r] }
      "not a Comparison node"

def typedLits : List Text :=
  [txt "date '2020-01-01'", txt "timestamp '2020-01-01 10:00'", txt "interval '1' day", txt "interval '2' hour",
   txt "interval '3' minute", txt "interval '4' month", txt "interval '5' second", txt "interval '6' year"]

def litCtxs : List (Text × Text) :=
  [(txt "select ", txt " from v"), (txt "select x from v where d1 > ", []), (txt "select f(", txt ") from v")]

def litSkels : List ClauseSkel :=
  litCtxs.flatMap fun (pre, post) =>
    typedLits.map fun l => { kind := .typedLiteral, text := pre ++ l ++ post, target := l }

/-- the whole table, in the order it is decided -/
def clauseSkels : List ClauseSkel :=
  selListSkels ++ fromListSkels ++ extraListSkels ++ pinnedListSkels ++ callSkels ++ caseSkels ++ cmpSkels ++
    pinnedCmpSkels ++ litSkels

end Acc
end Sql
