import SqlProofs.ClauseShape.Skeletons
import SqlProofs.ClauseShape.Commute
import SqlProofs.IdentShape.Context
/-!
# SqlProofs.ClauseShape.Core — from a checked clause skeleton to every re-spelling of it (table-independent)

For a skeleton `sk` with `canonical sk = true` and any re-spelling `f` with `AdmissibleNames kwNorm f` — the value of
every leaf except `Punctuation`, `Operator`, `Wildcard`, `Assignment` tokens: names, literals, built-in type names,
comparison operators, comments; keyword letter case and inner whitespace; whitespace values (`Respell/Basic.lean`) —
and any fuel `≥ clauseFuel`, the grouped tree of the re-spelled tokens is the re-spelling of the skeleton's tree, the
clause node is the re-spelled clause node, and its accessor returns the re-spelled items, whose texts in the skeleton
are the written items.
-/
namespace Sql
namespace Acc

variable {f : TType → Text → Text}

/-- re-spell a token -/
def respellTok (f : TType → Text → Text) (t : Tok) : Tok := ⟨t.tt, f t.tt t.val⟩

theorem groupStatement_shape {fuel : Nat} {st : List Tok} {n : Node} (h : groupStatement fuel st = .ok n) :
    ∃ ks, n = .grp .Statement ks := by
  unfold groupStatement at h
  split at h
  · cases h
  · cases h; exact ⟨_, rfl⟩

/-- the tree of the re-spelled tokens is the re-spelled tree of the skeleton -/
theorem clauseTree_respell (sk : ClauseSkel) {tree0 : Node} (h : clauseTree sk = .ok tree0)
    (ha : AdmissibleNames kwNorm f) (fuel : Nat) (hfuel : clauseFuel ≤ fuel) :
    ∃ ts ks0, clauseTokens sk = .ok ts ∧ tree0 = .grp .Statement ks0 ∧
      groupStatement fuel (ts.map (respellTok f)) = .ok (.grp .Statement (ks0.map (respell f))) := by
  unfold clauseTree at h
  cases hts : clauseTokens sk with
  | error e => simp [hts] at h
  | ok ts =>
    simp only [hts] at h
    obtain ⟨ks0, rfl⟩ := groupStatement_shape h
    refine ⟨ts, ks0, rfl, rfl, ?_⟩
    have := respell_groupStatement_names ha fuel ts
    rw [groupStatement_mono hfuel h] at this
    have e : ts.map (respellTok f) = ts.map fun t => (⟨t.tt, f t.tt t.val⟩ : Tok) := rfl
    rw [e, this]; simp

theorem canonical_tree {sk : ClauseSkel} (h : canonical sk = true) :
    ∃ tree0, clauseTree sk = .ok tree0 ∧ canonicalOn sk tree0 = true := by
  unfold canonical at h
  cases ht : clauseTree sk with
  | error e => simp [ht] at h
  | ok t => exact ⟨t, rfl, by simpa [ht] using h⟩

theorem mem_kidsOfCls_respell {c : Cls} {K : List Node} {n : Node} (h : K ∈ kidsOfCls c n) :
    K.map (respell f) ∈ kidsOfCls c (respell f n) := by
  rw [kidsOfCls_respell]; exact List.mem_map.2 ⟨K, h, rfl⟩

/-! ### (a) comma-separated lists -/

/-- the statement of `identList_in_context` -/
def IdentListInContext (f : TType → Text → Text) (sk : ClauseSkel) (fuel : Nat) : Prop :=
    ∃ (ts : List Tok) (ks' K' : List Node) (items : List Node),
      clauseTokens sk = .ok ts ∧
      groupStatement fuel (ts.map (respellTok f)) = .ok (.grp .Statement ks') ∧
      topKidsOfCls .IdentifierList ks' = [K'] ∧
      (getIdentifiers kwNorm K').map (·.2) = items.map (respell f) ∧
      items.map Node.text = sk.items

/-- **IdentifierList in context**: exactly one top-level `IdentifierList`, and `get_identifiers()` yields the re-spelled
items in order; in the skeleton their texts are the written items. -/
theorem identList_in_context (sk : ClauseSkel) (hk : sk.kind = .identList) (h : canonical sk = true)
    (ha : AdmissibleNames kwNorm f) (fuel : Nat) (hfuel : clauseFuel ≤ fuel) :
    IdentListInContext f sk fuel := by
  unfold IdentListInContext
  obtain ⟨tree0, htree, hc⟩ := canonical_tree h
  obtain ⟨ts, ks0, hts, rfl, hg⟩ := clauseTree_respell sk htree ha fuel hfuel
  simp only [canonicalOn, hk] at hc
  cases htop : topKidsOfCls .IdentifierList ks0 with
  | nil => simp [htop] at hc
  | cons K rest =>
    cases rest with
    | cons _ _ => simp [htop] at hc
    | nil =>
      simp only [htop, identListOk, beq_iff_eq] at hc
      refine ⟨ts, ks0.map (respell f), K.map (respell f), (getIdentifiers kwNorm K).map (·.2), hts, hg, ?_, ?_, ?_⟩
      · rw [topKidsOfCls_respell, htop]; rfl
      · rw [getIdentifiers_respell ha]; simp [rpi, List.map_map, Function.comp_def]
      · simpa [nodesTexts, List.map_map, Function.comp_def] using hc

/-! ### (b) calls -/

/-- the statement of `parameters_in_context` -/
def ParametersInContext (f : TType → Text → Text) (sk : ClauseSkel) (fuel : Nat) : Prop :=
    ∃ (ts : List Tok) (tree' : Node) (K : List Node) (args : List Node),
      clauseTokens sk = .ok ts ∧
      groupStatement fuel (ts.map (respellTok f)) = .ok tree' ∧
      K.map (respell f) ∈ kidsOfCls .Function tree' ∧ Node.textL K = sk.target ∧
      (getParameters kwNorm (K.map (respell f))).map (List.map (·.2)) = .ok (args.map (respell f)) ∧
      args.map Node.text = sk.items

/-- **Function in context**: a `Function` node whose `get_parameters()` yields the re-spelled arguments in order (for
the KF-C13-1 skeletons `sk.items = []`: the accessor returns nothing). -/
theorem parameters_in_context (sk : ClauseSkel) (hk : sk.kind = .params) (h : canonical sk = true)
    (ha : AdmissibleNames kwNorm f) (fuel : Nat) (hfuel : clauseFuel ≤ fuel) :
    ParametersInContext f sk fuel := by
  unfold ParametersInContext
  obtain ⟨tree0, htree, hc⟩ := canonical_tree h
  obtain ⟨ts, ks0, hts, rfl, hg⟩ := clauseTree_respell sk htree ha fuel hfuel
  simp only [canonicalOn, hk, List.any_eq_true] at hc
  obtain ⟨K, hK, hok⟩ := hc
  simp only [paramsOk, Bool.and_eq_true, beq_iff_eq] at hok
  obtain ⟨htext, hp⟩ := hok
  cases hps : getParameters kwNorm K with
  | error e => simp [hps] at hp
  | ok ps =>
    simp only [hps, beq_iff_eq] at hp
    refine ⟨ts, _, K, ps.map (·.2), hts, hg, ?_, htext, ?_, ?_⟩
    · have := mem_kidsOfCls_respell (f := f) hK
      simpa using this
    · rw [getParameters_respell ha, hps]
      simp [rpp, List.map_map, Function.comp_def]
    · simpa [List.map_map, Function.comp_def] using hp

/-! ### (c) CASE -/

/-- the nodes of a `get_cases` entry -/
def caseEntryNodes (e : CaseEntry) : Option (List Node) × List Node := (e.cond.map (List.map (·.2)), e.val.map (·.2))

/-- the statement of `cases_in_context` -/
def CasesInContext (f : TType → Text → Text) (sk : ClauseSkel) (fuel : Nat) : Prop :=
    ∃ (ts : List Tok) (tree' : Node) (K : List Node) (entries : List CaseEntry),
      clauseTokens sk = .ok ts ∧
      groupStatement fuel (ts.map (respellTok f)) = .ok tree' ∧
      K.map (respell f) ∈ kidsOfCls .Case tree' ∧ Node.textL K = sk.target ∧
      getCases kwNorm (K.map (respell f)) true = .ok (entries.map (CaseEntry.respell f)) ∧
      entries.map caseEntryTexts = sk.cases

/-- **Case in context**: a `Case` node whose `get_cases(skip_ws=True)` yields, per WHEN, `([WHEN, condition…],
[THEN, value…])` and for ELSE `(None, [ELSE, value…])`, as re-spelled nodes; in the skeleton their texts are the written
parts. -/
theorem cases_in_context (sk : ClauseSkel) (hk : sk.kind = .cases) (h : canonical sk = true)
    (ha : AdmissibleNames kwNorm f) (fuel : Nat) (hfuel : clauseFuel ≤ fuel) :
    CasesInContext f sk fuel := by
  unfold CasesInContext
  obtain ⟨tree0, htree, hc⟩ := canonical_tree h
  obtain ⟨ts, ks0, hts, rfl, hg⟩ := clauseTree_respell sk htree ha fuel hfuel
  simp only [canonicalOn, hk, List.any_eq_true] at hc
  obtain ⟨K, hK, hok⟩ := hc
  simp only [casesOk, Bool.and_eq_true, beq_iff_eq] at hok
  obtain ⟨htext, hp⟩ := hok
  cases hes : getCases kwNorm K true with
  | error e => simp [hes] at hp
  | ok es =>
    simp only [hes, beq_iff_eq] at hp
    refine ⟨ts, _, K, es, hts, hg, ?_, htext, ?_, hp⟩
    · have := mem_kidsOfCls_respell (f := f) hK
      simpa using this
    · rw [getCases_respell ha, hes]; rfl

/-! ### (d) comparisons -/

/-- the statement of `comparison_in_context` -/
def ComparisonInContext (f : TType → Text → Text) (sk : ClauseSkel) (fuel : Nat) : Prop :=
    ∃ (ts : List Tok) (tree' : Node) (K : List Node) (l r : Nat × Node),
      clauseTokens sk = .ok ts ∧
      groupStatement fuel (ts.map (respellTok f)) = .ok tree' ∧
      K.map (respell f) ∈ kidsOfCls .Comparison tree' ∧ Node.textL K = sk.target ∧
      comparisonLeft (K.map (respell f)) = .ok (l.1, respell f l.2) ∧
      comparisonRight (K.map (respell f)) = .ok (r.1, respell f r.2) ∧
      [l.2.text, r.2.text] = sk.items

/-- **Comparison in context**: a `Comparison` node whose `left`/`right` are the re-spelled operands. -/
theorem comparison_in_context (sk : ClauseSkel) (hk : sk.kind = .comparison) (h : canonical sk = true)
    (ha : AdmissibleNames kwNorm f) (fuel : Nat) (hfuel : clauseFuel ≤ fuel) :
    ComparisonInContext f sk fuel := by
  unfold ComparisonInContext
  obtain ⟨tree0, htree, hc⟩ := canonical_tree h
  obtain ⟨ts, ks0, hts, rfl, hg⟩ := clauseTree_respell sk htree ha fuel hfuel
  simp only [canonicalOn, hk, List.any_eq_true] at hc
  obtain ⟨K, hK, hok⟩ := hc
  simp only [comparisonOk, Bool.and_eq_true, beq_iff_eq] at hok
  obtain ⟨htext, hp⟩ := hok
  cases hl : comparisonLeft K with
  | error e => simp [hl] at hp
  | ok l =>
    cases hr : comparisonRight K with
    | error e => simp [hl, hr] at hp
    | ok r =>
      simp only [hl, hr, beq_iff_eq] at hp
      refine ⟨ts, _, K, l, r, hts, hg, ?_, htext, ?_, ?_, hp⟩
      · have := mem_kidsOfCls_respell (f := f) hK
        simpa using this
      · rw [comparisonLeft_respell, hl]; rfl
      · rw [comparisonRight_respell, hr]; rfl

/-! ### (e) typed literals -/

/-- the statement of `typedLiteral_in_context` -/
def TypedLiteralInContext (f : TType → Text → Text) (sk : ClauseSkel) (fuel : Nat) : Prop :=
    ∃ (ts : List Tok) (tree' : Node) (K : List Node),
      clauseTokens sk = .ok ts ∧
      groupStatement fuel (ts.map (respellTok f)) = .ok tree' ∧
      K.map (respell f) ∈ kidsOfCls .TypedLiteral tree' ∧ Node.textL K = sk.target ∧
      (∀ k ∈ K.map (respell f), k.isGroup = false)

/-- **TypedLiteral in context**: exactly one `TypedLiteral` node carries the literal's text, its children are leaves,
and it is the re-spelling of the skeleton's node (same leaf types, values re-spelled). -/
theorem typedLiteral_in_context (sk : ClauseSkel) (hk : sk.kind = .typedLiteral) (h : canonical sk = true)
    (ha : AdmissibleNames kwNorm f) (fuel : Nat) (hfuel : clauseFuel ≤ fuel) :
    TypedLiteralInContext f sk fuel := by
  unfold TypedLiteralInContext
  obtain ⟨tree0, htree, hc⟩ := canonical_tree h
  obtain ⟨ts, ks0, hts, rfl, hg⟩ := clauseTree_respell sk htree ha fuel hfuel
  simp only [canonicalOn, hk] at hc
  cases hfl : (kidsOfCls .TypedLiteral (.grp .Statement ks0)).filter (fun K => Node.textL K == sk.target) with
  | nil => simp [hfl] at hc
  | cons K rest =>
    cases rest with
    | cons _ _ => simp [hfl] at hc
    | nil =>
      simp only [hfl, typedLiteralOk, Bool.and_eq_true, beq_iff_eq, List.all_eq_true, Bool.not_eq_true'] at hc
      have hmem : K ∈ (kidsOfCls .TypedLiteral (.grp .Statement ks0)).filter (fun K => Node.textL K == sk.target) := by
        rw [hfl]; simp
      have hK := (List.mem_filter.1 hmem).1
      refine ⟨ts, _, K, hts, hg, ?_, hc.1, ?_⟩
      · have := mem_kidsOfCls_respell (f := f) hK
        simpa using this
      · intro k hk'
        obtain ⟨k0, hk0, rfl⟩ := List.mem_map.1 hk'
        rw [respell_isGroup]; exact hc.2 k0 hk0

end Acc
end Sql
