import SqlProofs.ClauseShape.Table.T00
import SqlProofs.ClauseShape.Table.T01
import SqlProofs.ClauseShape.Table.T02
import SqlProofs.ClauseShape.Table.T03
import SqlProofs.ClauseShape.Table.T04
import SqlProofs.ClauseShape.Table.T05
import SqlProofs.ClauseShape.Table.T06
import SqlProofs.ClauseShape.Table.T07
import SqlProofs.ClauseShape.Table.T08
import SqlProofs.ClauseShape.Table.T09
/-!
# SqlProofs.ClauseShape.Table — every skeleton of the C13 table passes `clauseCheck`
-/
namespace Sql
namespace Acc

theorem all_drop_take {α : Type} (p : α → Bool) (l : List α) (k : Nat) (h1 : ((l.drop k).take 10).all p = true)
    (h2 : (l.drop (k + 10)).all p = true) : (l.drop k).all p = true := by
  have e : l.drop k = (l.drop k).take 10 ++ l.drop (k + 10) := by
    rw [show l.drop (k + 10) = (l.drop k).drop 10 by rw [List.drop_drop, Nat.add_comm]]
    exact (List.take_append_drop 10 _).symm
  rw [e, List.all_append, h1, h2]; rfl

theorem clauseTable_tail : (clauseSkels.drop 290).all clauseCheck = true := by
  have : clauseSkels.length = 290 := by decide +kernel
  rw [List.drop_of_length_le (by omega)]; rfl

/-- **the decided table**: canonical skeletons are canonical, pinned ones are decided not to be -/
theorem clauseTable_ok : ∀ sk ∈ clauseSkels, clauseCheck sk = true := by
  have h : (clauseSkels.drop 0).all clauseCheck = true := by
    apply all_drop_take _ _ _ clause_000
    apply all_drop_take _ _ _ clause_010
    apply all_drop_take _ _ _ clause_020
    apply all_drop_take _ _ _ clause_030
    apply all_drop_take _ _ _ clause_040
    apply all_drop_take _ _ _ clause_050
    apply all_drop_take _ _ _ clause_060
    apply all_drop_take _ _ _ clause_070
    apply all_drop_take _ _ _ clause_080
    apply all_drop_take _ _ _ clause_090
    apply all_drop_take _ _ _ clause_100
    apply all_drop_take _ _ _ clause_110
    apply all_drop_take _ _ _ clause_120
    apply all_drop_take _ _ _ clause_130
    apply all_drop_take _ _ _ clause_140
    apply all_drop_take _ _ _ clause_150
    apply all_drop_take _ _ _ clause_160
    apply all_drop_take _ _ _ clause_170
    apply all_drop_take _ _ _ clause_180
    apply all_drop_take _ _ _ clause_190
    apply all_drop_take _ _ _ clause_200
    apply all_drop_take _ _ _ clause_210
    apply all_drop_take _ _ _ clause_220
    apply all_drop_take _ _ _ clause_230
    apply all_drop_take _ _ _ clause_240
    apply all_drop_take _ _ _ clause_250
    apply all_drop_take _ _ _ clause_260
    apply all_drop_take _ _ _ clause_270
    apply all_drop_take _ _ _ clause_280
    exact clauseTable_tail
  exact fun sk hsk => List.all_eq_true.1 (by simpa using h) sk hsk

end Acc
end Sql
