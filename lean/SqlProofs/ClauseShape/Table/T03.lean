import SqlProofs.ClauseShape.Skeletons
/-! clause skeleton table, entries 90 … 119: kernel evaluation of the real lexer rules, `groupStatement` and the clause
accessor, ten skeletons per lemma -/
namespace Sql
namespace Acc

set_option maxRecDepth 1000000 in
theorem clause_090 : ((clauseSkels.drop 90).take 10).all clauseCheck = true := by decide +kernel
set_option maxRecDepth 1000000 in
theorem clause_100 : ((clauseSkels.drop 100).take 10).all clauseCheck = true := by decide +kernel
set_option maxRecDepth 1000000 in
theorem clause_110 : ((clauseSkels.drop 110).take 10).all clauseCheck = true := by decide +kernel

end Acc
end Sql
