import SqlProofs.ClauseShape.Skeletons
import SqlProofs.ClauseShape.Table.T03  -- build-order only (four lanes: each decided lemma needs ~4 GB)
/-! clause skeleton table, entries 210 … 239: kernel evaluation of the real lexer rules, `groupStatement` and the clause
accessor, ten skeletons per lemma -/
namespace Sql
namespace Acc

set_option maxRecDepth 1000000 in
theorem clause_210 : ((clauseSkels.drop 210).take 10).all clauseCheck = true := by decide +kernel
set_option maxRecDepth 1000000 in
theorem clause_220 : ((clauseSkels.drop 220).take 10).all clauseCheck = true := by decide +kernel
set_option maxRecDepth 1000000 in
theorem clause_230 : ((clauseSkels.drop 230).take 10).all clauseCheck = true := by decide +kernel

end Acc
end Sql
