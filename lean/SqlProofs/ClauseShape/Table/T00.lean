import SqlProofs.ClauseShape.Skeletons
/-! clause skeleton table, entries 0 … 29: kernel evaluation of the real lexer rules, `groupStatement` and the clause
accessor, ten skeletons per lemma -/
namespace Sql
namespace Acc

set_option maxRecDepth 1000000 in
theorem clause_000 : ((clauseSkels.drop 0).take 10).all clauseCheck = true := by decide +kernel
set_option maxRecDepth 1000000 in
theorem clause_010 : ((clauseSkels.drop 10).take 10).all clauseCheck = true := by decide +kernel
set_option maxRecDepth 1000000 in
theorem clause_020 : ((clauseSkels.drop 20).take 10).all clauseCheck = true := by decide +kernel

end Acc
end Sql
