import SqlProofs.ClauseShape.Skeletons
import SqlProofs.ClauseShape.Table.T05  -- build-order only (four lanes: each decided lemma needs ~4 GB)
/-! clause skeleton table, entries 270 … 289: kernel evaluation of the real lexer rules, `groupStatement` and the clause
accessor, ten skeletons per lemma -/
namespace Sql
namespace Acc

set_option maxRecDepth 1000000 in
theorem clause_270 : ((clauseSkels.drop 270).take 10).all clauseCheck = true := by decide +kernel
set_option maxRecDepth 1000000 in
theorem clause_280 : ((clauseSkels.drop 280).take 10).all clauseCheck = true := by decide +kernel

end Acc
end Sql
