import SqlProofs.ClauseShape.Skeletons
/-! clause skeleton table, entries 60 … 89: kernel evaluation of the real lexer rules, `groupStatement` and the clause
accessor, ten skeletons per lemma -/
namespace Sql
namespace Acc

set_option maxRecDepth 1000000 in
theorem clause_060 : ((clauseSkels.drop 60).take 10).all clauseCheck = true := by decide +kernel
set_option maxRecDepth 1000000 in
theorem clause_070 : ((clauseSkels.drop 70).take 10).all clauseCheck = true := by decide +kernel
set_option maxRecDepth 1000000 in
theorem clause_080 : ((clauseSkels.drop 80).take 10).all clauseCheck = true := by decide +kernel

end Acc
end Sql
