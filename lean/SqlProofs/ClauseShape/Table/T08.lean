import SqlProofs.ClauseShape.Skeletons
import SqlProofs.ClauseShape.Table.T04  -- build-order only (four lanes: each decided lemma needs ~4 GB)
/-! clause skeleton table, entries 240 … 269: kernel evaluation of the real lexer rules, `groupStatement` and the clause
accessor, ten skeletons per lemma -/
namespace Sql
namespace Acc

set_option maxRecDepth 1000000 in
theorem clause_240 : ((clauseSkels.drop 240).take 10).all clauseCheck = true := by decide +kernel
set_option maxRecDepth 1000000 in
theorem clause_250 : ((clauseSkels.drop 250).take 10).all clauseCheck = true := by decide +kernel
set_option maxRecDepth 1000000 in
theorem clause_260 : ((clauseSkels.drop 260).take 10).all clauseCheck = true := by decide +kernel

end Acc
end Sql
