import SqlProofs.ClauseShape.Skeletons
import SqlProofs.ClauseShape.Table.T02  -- build-order only (four lanes: each decided lemma needs ~4 GB)
/-! clause skeleton table, entries 180 … 209: kernel evaluation of the real lexer rules, `groupStatement` and the clause
accessor, ten skeletons per lemma -/
namespace Sql
namespace Acc

set_option maxRecDepth 1000000 in
theorem clause_180 : ((clauseSkels.drop 180).take 10).all clauseCheck = true := by decide +kernel
set_option maxRecDepth 1000000 in
theorem clause_190 : ((clauseSkels.drop 190).take 10).all clauseCheck = true := by decide +kernel
set_option maxRecDepth 1000000 in
theorem clause_200 : ((clauseSkels.drop 200).take 10).all clauseCheck = true := by decide +kernel

end Acc
end Sql
