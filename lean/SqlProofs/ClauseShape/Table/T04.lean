import SqlProofs.ClauseShape.Skeletons
import SqlProofs.ClauseShape.Table.T00  -- build-order only (four lanes: each decided lemma needs ~4 GB)
/-! clause skeleton table, entries 120 … 149: kernel evaluation of the real lexer rules, `groupStatement` and the clause
accessor, ten skeletons per lemma -/
namespace Sql
namespace Acc

set_option maxRecDepth 1000000 in
theorem clause_120 : ((clauseSkels.drop 120).take 10).all clauseCheck = true := by decide +kernel
set_option maxRecDepth 1000000 in
theorem clause_130 : ((clauseSkels.drop 130).take 10).all clauseCheck = true := by decide +kernel
set_option maxRecDepth 1000000 in
theorem clause_140 : ((clauseSkels.drop 140).take 10).all clauseCheck = true := by decide +kernel

end Acc
end Sql
