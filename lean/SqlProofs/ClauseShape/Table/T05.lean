import SqlProofs.ClauseShape.Skeletons
import SqlProofs.ClauseShape.Table.T01  -- build-order only (four lanes: each decided lemma needs ~4 GB)
/-! clause skeleton table, entries 150 … 179: kernel evaluation of the real lexer rules, `groupStatement` and the clause
accessor, ten skeletons per lemma -/
namespace Sql
namespace Acc

set_option maxRecDepth 1000000 in
theorem clause_150 : ((clauseSkels.drop 150).take 10).all clauseCheck = true := by decide +kernel
set_option maxRecDepth 1000000 in
theorem clause_160 : ((clauseSkels.drop 160).take 10).all clauseCheck = true := by decide +kernel
set_option maxRecDepth 1000000 in
theorem clause_170 : ((clauseSkels.drop 170).take 10).all clauseCheck = true := by decide +kernel

end Acc
end Sql
