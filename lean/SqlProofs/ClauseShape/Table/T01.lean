import SqlProofs.ClauseShape.Skeletons
/-! clause skeleton table, entries 30 … 59: kernel evaluation of the real lexer rules, `groupStatement` and the clause
accessor, ten skeletons per lemma -/
namespace Sql
namespace Acc

set_option maxRecDepth 1000000 in
theorem clause_030 : ((clauseSkels.drop 30).take 10).all clauseCheck = true := by decide +kernel
set_option maxRecDepth 1000000 in
theorem clause_040 : ((clauseSkels.drop 40).take 10).all clauseCheck = true := by decide +kernel
set_option maxRecDepth 1000000 in
theorem clause_050 : ((clauseSkels.drop 50).take 10).all clauseCheck = true := by decide +kernel

end Acc
end Sql
