import SqlProofs.ClauseShape.Table
import SqlProofs.ClauseShape.Core
import SqlProofs.IdentShape.Names
/-!
# SqlProofs.ClauseShape.Main — the clause nodes of property C13, in context

**Enumerated** (`clauseSkels`, decided in `Table/*.lean`): 290 statement skeletons —
lists: all 81 ordered pairs and 18 cyclic triples of the select-list items `x1 · y1.z1 · u1 as w1 · f(p1) · g(p1, q1) ·
1 · 'str' · a1 + b1 · (c1) d1`, 16 pairs + 8 triples of FROM items, 12 further item forms; calls: 22 argument lists × 3
contexts (15 canonical, 7 KF-C13-1 shapes for which the decided fact is "returns []"); CASE: 8 shapes × 3 contexts;
comparisons: 7 forms × 4 contexts; typed literals: 8 × 3 contexts; 13 pinned non-canonical shapes.
**Universal** (`respell_group_names`): the value of every leaf other than `Punctuation`/`Operator`/`Wildcard`/`Assignment`
(names, numbers, strings, built-in type names such as `date`, comparison operators, comments), keyword letter case and
inner whitespace, whitespace values; the fuel.
-/
namespace Sql
namespace Acc

theorem canonical_of_table {sk : ClauseSkel} (hsk : sk ∈ clauseSkels) (hp : sk.pinned = false) : canonical sk = true := by
  have := clauseTable_ok sk hsk
  unfold clauseCheck at this
  rw [hp] at this
  cases hc : canonical sk with
  | true => rfl
  | false => rw [hc] at this; cases this

/-- the pinned skeletons (KF-C13-2 shapes in any position, typed literal as a list item, `IS`/`IN`/`BETWEEN`
predicates) are decided *not* to have the canonical clause node -/
theorem pinned_not_canonical {sk : ClauseSkel} (hsk : sk ∈ clauseSkels) (hp : sk.pinned = true) : canonical sk = false := by
  have := clauseTable_ok sk hsk
  unfold clauseCheck at this
  rw [hp] at this
  cases hc : canonical sk with
  | false => rfl
  | true => rw [hc] at this; cases this

variable {f : TType → Text → Text}

/-- **C13 (a)** -/
theorem clause_identList_in_context (sk : ClauseSkel) (hsk : sk ∈ clauseSkels) (hp : sk.pinned = false)
    (hk : sk.kind = .identList) (ha : AdmissibleNames kwNorm f) (fuel : Nat) (hfuel : clauseFuel ≤ fuel) :
    IdentListInContext f sk fuel :=
  identList_in_context sk hk (canonical_of_table hsk hp) ha fuel hfuel

/-- **C13 (b)** -/
theorem clause_parameters_in_context (sk : ClauseSkel) (hsk : sk ∈ clauseSkels) (hp : sk.pinned = false)
    (hk : sk.kind = .params) (ha : AdmissibleNames kwNorm f) (fuel : Nat) (hfuel : clauseFuel ≤ fuel) :
    ParametersInContext f sk fuel :=
  parameters_in_context sk hk (canonical_of_table hsk hp) ha fuel hfuel

/-- **C13 (c)** -/
theorem clause_cases_in_context (sk : ClauseSkel) (hsk : sk ∈ clauseSkels) (hp : sk.pinned = false)
    (hk : sk.kind = .cases) (ha : AdmissibleNames kwNorm f) (fuel : Nat) (hfuel : clauseFuel ≤ fuel) :
    CasesInContext f sk fuel :=
  cases_in_context sk hk (canonical_of_table hsk hp) ha fuel hfuel

/-- **C13 (d)** -/
theorem clause_comparison_in_context (sk : ClauseSkel) (hsk : sk ∈ clauseSkels) (hp : sk.pinned = false)
    (hk : sk.kind = .comparison) (ha : AdmissibleNames kwNorm f) (fuel : Nat) (hfuel : clauseFuel ≤ fuel) :
    ComparisonInContext f sk fuel :=
  comparison_in_context sk hk (canonical_of_table hsk hp) ha fuel hfuel

/-- **C13 (e)** -/
theorem clause_typedLiteral_in_context (sk : ClauseSkel) (hsk : sk ∈ clauseSkels) (hp : sk.pinned = false)
    (hk : sk.kind = .typedLiteral) (ha : AdmissibleNames kwNorm f) (fuel : Nat) (hfuel : clauseFuel ≤ fuel) :
    TypedLiteralInContext f sk fuel :=
  typedLiteral_in_context sk hk (canonical_of_table hsk hp) ha fuel hfuel

end Acc
end Sql
