import SqlModel.Accessors
/-!
# SqlProofs.ClauseShape.Nodes — the nodes of a given class in a tree (no proofs about grouping here: this file is
imported by the decided tables and by the driver)
-/
namespace Sql
namespace Acc

mutual
/-- the children lists of all nodes of class `c` below (and including) a node, in pre-order -/
def kidsOfCls (c : Cls) : Node → List (List Node)
  | .tok .. => []
  | .grp c' ks => (if c' == c then [ks] else []) ++ kidsOfClsL c ks
def kidsOfClsL (c : Cls) : List Node → List (List Node)
  | [] => []
  | k :: ks => kidsOfCls c k ++ kidsOfClsL c ks
end

/-- the children lists of the *direct* children of class `c` -/
def topKidsOfCls (c : Cls) : List Node → List (List Node)
  | [] => []
  | .tok .. :: ks => topKidsOfCls c ks
  | .grp c' sub :: ks => if c' == c then sub :: topKidsOfCls c ks else topKidsOfCls c ks

/-- texts of a list of nodes -/
def textsOf (ns : List Node) : List Text := ns.map Node.text

end Acc
end Sql
