import SqlProofs.ClauseShape.Nodes
import SqlProofs.AccessorSpec
import SqlProofs.Respell.Group
/-!
# SqlProofs.ClauseShape.Commute — the clause accessors commute with re-spelling

`get_identifiers`, `get_parameters`, `get_cases`, `left`/`right` return the re-spelled nodes (same positions) on the
re-spelled children; so does the search for the nodes of a class.
-/
namespace Sql
namespace Acc

variable {upper : Text → Text} {f : TType → Text → Text}

/-- an `(index, node)` / `(path, node)` result under re-spelling -/
def rpi {α : Type} (f : TType → Text → Text) (p : α × Node) : α × Node := (p.1, respell f p.2)

mutual
theorem kidsOfCls_respell (c : Cls) : (n : Node) →
    kidsOfCls c (respell f n) = (kidsOfCls c n).map (List.map (respell f))
  | .tok t v => by simp [kidsOfCls]
  | .grp c' ks => by
    have := kidsOfClsL_respell c ks
    by_cases hc : (c' == c) = true
    · simp [kidsOfCls, hc, this]
    · simp [kidsOfCls, hc, this]
theorem kidsOfClsL_respell (c : Cls) : (ks : List Node) →
    kidsOfClsL c (ks.map (respell f)) = (kidsOfClsL c ks).map (List.map (respell f))
  | [] => rfl
  | k :: ks => by
    simp only [List.map_cons, kidsOfClsL, List.map_append]
    rw [kidsOfCls_respell c k, kidsOfClsL_respell c ks]
end

theorem topKidsOfCls_respell (c : Cls) (ks : List Node) :
    topKidsOfCls c (ks.map (respell f)) = (topKidsOfCls c ks).map (List.map (respell f)) := by
  induction ks with
  | nil => rfl
  | cons k ks ih =>
    cases k with
    | tok t v => simpa [topKidsOfCls] using ih
    | grp c' sub =>
      by_cases hc : (c' == c) = true
      · simp [topKidsOfCls, hc, ih]
      · simp [topKidsOfCls, hc, ih]

theorem indexed_respell (ks : List Node) (s : Nat) :
    indexed (ks.map (respell f)) s = (indexed ks s).map (rpi f) := by
  induction ks generalizing s with
  | nil => rfl
  | cons k ks ih => simp [indexed, ih, rpi]

theorem filter_map_comm {α β : Type} (g : α → β) (p : β → Bool) (q : α → Bool) (h : ∀ a, p (g a) = q a) (l : List α) :
    (l.map g).filter p = (l.filter q).map g := by
  induction l with
  | nil => rfl
  | cons a l ih =>
    simp only [List.map_cons, List.filter_cons, h]
    split <;> simp [ih]

/-! ### `get_identifiers` -/

theorem isIdentifierItem_respell (ha : AdmissibleNames upper f) (k : Node) :
    isIdentifierItem upper (respell f k) = isIdentifierItem upper k := by
  simp only [isIdentifierItem, respell_isWhitespace, respell_matchP ha k mComma (by decide)]

theorem getIdentifiers_respell (ha : AdmissibleNames upper f) (ks : List Node) :
    getIdentifiers upper (ks.map (respell f)) = (getIdentifiers upper ks).map (rpi f) := by
  unfold getIdentifiers
  rw [indexed_respell]
  exact filter_map_comm (rpi f) _ _ (fun a => isIdentifierItem_respell ha a.2) _

/-! ### `get_parameters` -/

def rpp (f : TType → Text → Text) (p : Path × Node) : Path × Node := (p.1, respell f p.2)

theorem paramLoop_respell (ha : AdmissibleNames upper f) (pi : Nat) (l : List (Nat × Node))
    (acc : List (Path × Node)) :
    paramLoop upper pi (l.map (rpi f)) (acc.map (rpp f)) = (paramLoop upper pi l acc).map (rpp f) := by
  induction l generalizing acc with
  | nil => simp [paramLoop]
  | cons x l ih =>
    obtain ⟨j, k⟩ := x
    cases k with
    | tok t v =>
      simp only [List.map_cons, rpi, respell_tok, paramLoop]
      have := respell_imt ha (.tok t v) [.Function, .Identifier, .TypedLiteral] [] (.hier [T.Literal]) rfl
      simp only [respell_tok] at this
      rw [this]
      split
      · have := ih (([pi, j], Node.tok t v) :: acc)
        simpa [rpp] using this
      · exact ih acc
    | grp c sub =>
      by_cases hc : c = .IdentifierList
      · subst hc
        simp only [List.map_cons, rpi, respell_grp, paramLoop, getIdentifiers_respell ha]
        have := ih (((getIdentifiers upper sub).map fun (x : Nat × Node) => (([pi, j, x.1] : Path), x.2)).reverse ++ acc)
        simpa [rpp, rpi, List.map_map, Function.comp_def, List.map_reverse] using this
      · have hstep : ∀ (sub' : List Node) (l' : List (Nat × Node)) (acc' : List (Path × Node)),
            paramLoop upper pi ((j, Node.grp c sub') :: l') acc' =
              if imt upper (.grp c sub') [.Function, .Identifier, .TypedLiteral] [] (.hier [T.Literal]) then
                paramLoop upper pi l' (([pi, j], .grp c sub') :: acc')
              else paramLoop upper pi l' acc' := by
          intro sub' l' acc'
          cases c <;> first | exact absurd rfl hc | rfl
        simp only [List.map_cons, rpi, respell_grp]
        rw [hstep, hstep]
        have := respell_imt ha (.grp c sub) [.Function, .Identifier, .TypedLiteral] [] (.hier [T.Literal]) rfl
        simp only [respell_grp] at this
        rw [this]
        split
        · have := ih (([pi, j], Node.grp c sub) :: acc)
          simpa [rpp] using this
        · exact ih acc

theorem getParameters_respell (ha : AdmissibleNames upper f) (ks : List Node) :
    getParameters upper (ks.map (respell f)) = (getParameters upper ks).map (List.map (rpp f)) := by
  unfold getParameters
  rw [tokenNextBy_respell ha ks [.Parenthesis] [] .none rfl]
  cases tokenNextBy upper ks [.Parenthesis] [] .none with
  | none => rfl
  | some q =>
    obtain ⟨pi, k⟩ := q
    cases k with
    | tok t v => rfl
    | grp c sub =>
      simp only [Option.map_some, rp, respell_grp, indexed_respell]
      have := paramLoop_respell ha pi (indexed sub 0) []
      simp only [List.map_nil] at this
      rw [this]
      rfl

/-! ### `get_cases` -/

def CaseEntry.respell (f : TType → Text → Text) (e : CaseEntry) : CaseEntry :=
  { cond := e.cond.map (List.map (rpi f)), val := e.val.map (rpi f) }

def caseStRespell (f : TType → Text → Text) (st : CaseMode × List CaseEntry) : CaseMode × List CaseEntry :=
  (st.1, st.2.map (CaseEntry.respell f))

theorem appendCond_respell (ret : List CaseEntry) (x : Nat × Node) :
    appendCond (ret.map (CaseEntry.respell f)) (rpi f x) = (appendCond ret x).map (List.map (CaseEntry.respell f)) := by
  unfold appendCond
  rw [List.getLast?_map]
  cases ret.getLast? with
  | none => rfl
  | some e =>
    obtain ⟨c, v⟩ := e
    cases c with
    | none => rfl
    | some c =>
      simp [CaseEntry.respell, rpi, List.map_dropLast]

theorem appendVal_respell (ret : List CaseEntry) (x : Nat × Node) :
    appendVal (ret.map (CaseEntry.respell f)) (rpi f x) = (appendVal ret x).map (List.map (CaseEntry.respell f)) := by
  unfold appendVal
  rw [List.getLast?_map]
  cases ret.getLast? with
  | none => rfl
  | some e =>
    simp [CaseEntry.respell, rpi, List.map_dropLast]

theorem caseStep_respell (ha : AdmissibleNames upper f) (sw : Bool) (st : CaseMode × List CaseEntry)
    (x : Nat × Node) :
    caseStep upper sw (caseStRespell f st) (rpi f x) = (caseStep upper sw st x).map (caseStRespell f) := by
  obtain ⟨mode, ret⟩ := st
  obtain ⟨i, k⟩ := x
  have hC := respell_matchP ha k mCASE (by decide)
  have hW := respell_matchP ha k mWHEN (by decide)
  have hT := respell_matchP ha k mTHEN (by decide)
  have hE := respell_matchP ha k mELSE (by decide)
  have hN := respell_matchP ha k mEND (by decide)
  simp only [caseStep, caseStRespell, rpi, hC, hW, hT, hE, hN, respell_ttIn]
  by_cases h1 : k.matchP upper mCASE = true
  · simp [h1, caseStRespell]
  simp only [h1]
  by_cases h2 : (sw && k.ttIn T.Whitespace) = true
  · simp [h2, caseStRespell]
  simp only [h2]
  have hnew : ∀ (ret : List CaseEntry) (e : CaseEntry) (h : e = ⟨some [], []⟩ ∨ e = ⟨none, []⟩),
      (ret ++ [e]).map (CaseEntry.respell f) = ret.map (CaseEntry.respell f) ++ [e] := by
    intro ret e h
    rcases h with rfl | rfl <;> simp [CaseEntry.respell]
  -- the keyword part of the step yields a state of the same form on both sides
  have key : ∀ (m : CaseMode) (r : List CaseEntry),
      (match m with
        | .cond => (appendCond (if (m != .off && (r.map (CaseEntry.respell f)).isEmpty) = true then
              r.map (CaseEntry.respell f) ++ [⟨some [], []⟩] else r.map (CaseEntry.respell f)) (i, respell f k)).map
              (fun x => (m, x))
        | .val => (appendVal (if (m != .off && (r.map (CaseEntry.respell f)).isEmpty) = true then
              r.map (CaseEntry.respell f) ++ [⟨some [], []⟩] else r.map (CaseEntry.respell f)) (i, respell f k)).map
              (fun x => (m, x))
        | .off => .ok (m, if (m != .off && (r.map (CaseEntry.respell f)).isEmpty) = true then
              r.map (CaseEntry.respell f) ++ [⟨some [], []⟩] else r.map (CaseEntry.respell f))) =
      Except.map (fun st : CaseMode × List CaseEntry => (st.1, st.2.map (CaseEntry.respell f)))
        (match m with
        | .cond => (appendCond (if (m != .off && r.isEmpty) = true then r ++ [⟨some [], []⟩] else r) (i, k)).map
              (fun x => (m, x))
        | .val => (appendVal (if (m != .off && r.isEmpty) = true then r ++ [⟨some [], []⟩] else r) (i, k)).map
              (fun x => (m, x))
        | .off => .ok (m, if (m != .off && r.isEmpty) = true then r ++ [⟨some [], []⟩] else r)) := by
    intro m r
    have hemp : (r.map (CaseEntry.respell f)).isEmpty = r.isEmpty := by cases r <;> rfl
    rw [hemp]
    have hif : (if (m != .off && r.isEmpty) = true then r.map (CaseEntry.respell f) ++ [⟨some [], []⟩]
          else r.map (CaseEntry.respell f)) =
        (if (m != .off && r.isEmpty) = true then r ++ [⟨some [], []⟩] else r).map (CaseEntry.respell f) := by
      split
      · exact (hnew r _ (Or.inl rfl)).symm
      · rfl
    rw [hif]
    cases m with
    | cond =>
      have := appendCond_respell (f := f) (if (CaseMode.cond != .off && r.isEmpty) = true then r ++ [⟨some [], []⟩] else r) (i, k)
      simp only [rpi] at this
      simp only [this]
      cases appendCond (if (CaseMode.cond != .off && r.isEmpty) = true then r ++ [⟨some [], []⟩] else r) (i, k) <;> rfl
    | val =>
      have := appendVal_respell (f := f) (if (CaseMode.val != .off && r.isEmpty) = true then r ++ [⟨some [], []⟩] else r) (i, k)
      simp only [rpi] at this
      simp only [this]
      cases appendVal (if (CaseMode.val != .off && r.isEmpty) = true then r ++ [⟨some [], []⟩] else r) (i, k) <;> rfl
    | off => rfl
  by_cases h3 : k.matchP upper mWHEN = true
  · simp only [h3, if_true]
    rw [← hnew ret _ (Or.inl rfl)]
    exact key .cond (ret ++ [⟨some [], []⟩])
  simp only [h3]
  by_cases h4 : k.matchP upper mTHEN = true
  · simp only [h4, if_true]; exact key .val ret
  simp only [h4]
  by_cases h5 : k.matchP upper mELSE = true
  · simp only [h5, if_true]
    rw [← hnew ret _ (Or.inr rfl)]
    exact key .val (ret ++ [⟨none, []⟩])
  simp only [h5]
  by_cases h6 : k.matchP upper mEND = true
  · simp only [h6, if_true]; exact key .off ret
  simp only [h6]
  exact key mode ret

theorem caseLoop_respell (ha : AdmissibleNames upper f) (sw : Bool) (l : List (Nat × Node))
    (st : CaseMode × List CaseEntry) :
    caseLoop upper sw (l.map (rpi f)) (caseStRespell f st) = (caseLoop upper sw l st).map (caseStRespell f) := by
  induction l generalizing st with
  | nil => rfl
  | cons x l ih =>
    simp only [List.map_cons, caseLoop, caseStep_respell ha]
    cases caseStep upper sw st x with
    | error e => rfl
    | ok st' => exact ih st'

theorem getCases_respell (ha : AdmissibleNames upper f) (ks : List Node) (sw : Bool) :
    getCases upper (ks.map (respell f)) sw = (getCases upper ks sw).map (List.map (CaseEntry.respell f)) := by
  unfold getCases
  rw [indexed_respell]
  have := caseLoop_respell ha sw (indexed ks 0) (.cond, [])
  simp only [caseStRespell, List.map_nil] at this
  rw [this]
  cases caseLoop upper sw (indexed ks 0) (.cond, []) <;> rfl

/-! ### `Comparison.left/right` -/

theorem comparisonLeft_respell (ks : List Node) :
    comparisonLeft (ks.map (respell f)) = (comparisonLeft ks).map (rpi f) := by
  cases ks <;> rfl

theorem comparisonRight_respell (ks : List Node) :
    comparisonRight (ks.map (respell f)) = (comparisonRight ks).map (rpi f) := by
  unfold comparisonRight
  rw [List.getLast?_map]
  cases ks.getLast? <;> simp [rpi]

end Acc
end Sql
