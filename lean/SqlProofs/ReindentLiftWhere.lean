import SqlProofs.ReindentBreaks
/-!
# SqlProofs.ReindentLiftWhere — the `WHERE` of a Where group keeps the `nl()` that `_process_where` puts in front of it

`WHERE` is not one of `split_words`; `_process_where` inserts `self.nl()` directly in front of the (first) direct `WHERE`
child and then calls `_process_default`.  `_split_statements` and `_split_kwds` only ever touch the *top* of their zipper
(they drop a whitespace child directly in front of a DML/DDL keyword resp. a selected split keyword, and push), so a pair
`nl(), WHERE` that lies deeper — `WHERE` is neither whitespace nor DML nor a split word — is never separated, and the recursion
over the children leaves leaves alone.  `rWhere_pair`: the list `_process_where` returns is `A ++ nl :: WHERE :: B`.
-/
set_option linter.unusedSimpArgs false
set_option linter.unusedVariables false
namespace Sql

theorem wherePaired_mid (x W : FNode) (hx : isNlTok x = true) (hW : W.matchKw "WHERE" = true) :
    ∀ (A B : List FNode), wherePaired (A ++ x :: W :: B) = true
  | [], B => by simp [wherePaired, hx, hW]
  | [a], B => by
    simp only [List.cons_append, List.nil_append, wherePaired, Bool.or_eq_true]
    right; left; simp [hx, hW]
  | a :: b :: A, B => by
    have := wherePaired_mid x W hx hW (b :: A) B
    simp only [List.cons_append] at this ⊢
    simp only [wherePaired, Bool.or_eq_true]
    right; exact this

/-! ## `_split_statements` -/

/-- one step of `_split_statements` on the zipper -/
def ssStep (nl : FNode) (done : List FNode) (k : FNode) : List FNode :=
  if k.ttInArg Gen.reindentStmtTTypes then
    match done with
    | [] => [k]
    | p :: d => k :: nl :: (if p.isWhitespace then d else p :: d)
  else k :: done

theorem rSS_step (nl : FNode) (done : List FNode) (k : FNode) (rest : List FNode) :
    rSplitStatementsGo nl done (k :: rest) = rSplitStatementsGo nl (ssStep nl done k) rest := by
  conv => lhs; unfold rSplitStatementsGo
  unfold ssStep
  split
  · cases done <;> rfl
  · rfl

theorem rSplitStatementsGo_prefix (nl : FNode) : ∀ (A done rest : List FNode),
    ∃ done', rSplitStatementsGo nl done (A ++ rest) = rSplitStatementsGo nl done' rest
  | [], done, rest => ⟨done, rfl⟩
  | k :: A, done, rest => by
    simp only [List.cons_append, rSS_step]
    exact rSplitStatementsGo_prefix nl A _ rest

theorem ssStep_deep (nl x W : FNode) (hW : W.isWhitespace = false) (base d : List FNode) (k : FNode) :
    ∃ d', ssStep nl (d ++ W :: x :: base) k = d' ++ W :: x :: base := by
  unfold ssStep
  split
  · cases d with
    | nil => exact ⟨[k, nl], by simp [hW]⟩
    | cons p d' =>
      by_cases hp : p.isWhitespace = true
      · exact ⟨k :: nl :: d', by simp [hp]⟩
      · exact ⟨k :: nl :: p :: d', by simp [hp]⟩
  · exact ⟨k :: d, rfl⟩

theorem rSplitStatementsGo_deep (nl x W : FNode) (hW : W.isWhitespace = false) (base : List FNode) :
    ∀ (rest d : List FNode), ∃ B, rSplitStatementsGo nl (d ++ W :: x :: base) rest = base.reverse ++ x :: W :: B
  | [], d => by
    refine ⟨d.reverse, ?_⟩
    simp [rSplitStatementsGo, List.reverse_append]
  | k :: rest, d => by
    rw [rSS_step]
    obtain ⟨d', hd'⟩ := ssStep_deep nl x W hW base d k
    rw [hd']
    exact rSplitStatementsGo_deep nl x W hW base rest d'

theorem notStmt_of_ws (x : FNode) (h : isNlTok x = true) : x.ttInArg Gen.reindentStmtTTypes = false := by
  cases x with
  | grp c cv ks => rfl
  | tok tt v =>
    cases hq : (FNode.tok tt v).ttInArg Gen.reindentStmtTTypes with
    | false => rfl
    | true =>
      have h1 := rIsSplit_dml _ hq
      simp only [isNlTok, Bool.and_eq_true] at h
      simp only [FNode.ttInArg, Sql.ttInArg, Gen.reindentStmtTTypes, List.contains_cons, List.contains_nil, Bool.or_false,
        Bool.or_eq_true, beq_iff_eq] at hq
      rcases hq with rfl | rfl <;> simp [T.Whitespace, TType.isIn] at h

theorem where_is_keyword (W : FNode) (h : W.matchKw "WHERE" = true) : ∃ v, W = .tok T.Keyword v := by
  cases W with
  | grp c cv ks => simp [FNode.matchKw, FNode.matchP] at h
  | tok tt v =>
    simp only [FNode.matchKw, FNode.matchP] at h
    split at h
    · cases h
    · rename_i hne
      have : tt = T.Keyword := by simpa using hne
      exact ⟨v, by rw [this]⟩

theorem notStmt_of_where (W : FNode) (h : W.matchKw "WHERE" = true) : W.ttInArg Gen.reindentStmtTTypes = false := by
  obtain ⟨v, rfl⟩ := where_is_keyword W h
  show Sql.ttInArg T.Keyword Gen.reindentStmtTTypes = false
  decide

theorem notWs_of_where (W : FNode) (h : W.matchKw "WHERE" = true) : W.isWhitespace = false := by
  obtain ⟨v, rfl⟩ := where_is_keyword W h
  show T.Keyword.isIn T.Whitespace = false
  decide

/-- `_split_statements` keeps the pair -/
theorem rSplitStatementsGo_pair (nl x W : FNode) (hx : isNlTok x = true) (hW : W.matchKw "WHERE" = true) (A B : List FNode) :
    ∃ A' B', rSplitStatementsGo nl [] (A ++ x :: W :: B) = A' ++ x :: W :: B' := by
  obtain ⟨done', h1⟩ := rSplitStatementsGo_prefix nl A [] (x :: W :: B)
  rw [h1]
  have h2 : rSplitStatementsGo nl done' (x :: W :: B) = rSplitStatementsGo nl (W :: x :: done') B := by
    rw [rSS_step, rSS_step]
    simp [ssStep, notStmt_of_ws x hx, notStmt_of_where W hW]
  rw [h2]
  obtain ⟨B', h3⟩ := rSplitStatementsGo_deep nl x W (notWs_of_where W hW) done' B []
  exact ⟨done'.reverse, B', by simpa using h3⟩

/-! ## keywords that no split word matches -/

theorem rIsSplit_of_norm (tt : TType) (v : Text) (w : Text)
    (hw : (let E := reEnv w.toArray; Gen.reindentSplitRes.any fun r => (reSearch E r 0).isSome) = false)
    (h : (FNode.tok tt v).normalized = w) : rIsSplit (.tok tt v) = false := by
  simp only [rIsSplit, FNode.matchKwRe, h]
  simp only [hw, Bool.and_false]

theorem matchKw_norm (k : FNode) (w : String) (h : k.matchKw w = true) :
    ∃ tt v, k = .tok tt v ∧ (FNode.tok tt v).normalized = pyUpper (w.toList.map Char.toNat) := by
  cases k with
  | grp c cv ks => simp [FNode.matchKw, FNode.matchP] at h
  | tok tt v =>
    refine ⟨tt, v, rfl, ?_⟩
    simp only [FNode.matchKw, FNode.matchP] at h
    split at h
    · cases h
    · rename_i hne
      have htt : tt = T.Keyword := by simpa using hne
      subst htt
      have hin : T.Keyword.isIn T.Keyword = true := by decide
      simp only [hin, if_true, List.map_cons, List.map_nil, List.contains_cons, List.contains_nil, Bool.or_false, beq_iff_eq] at h
      simp only [FNode.normalized, hin, if_true]
      exact h

/-- `WHERE` is not a split word (`_process_where` puts its line break in front of it) -/
theorem rIsSplit_where (k : FNode) (h : k.matchKw "WHERE" = true) : rIsSplit k = false := by
  obtain ⟨tt, v, rfl, hn⟩ := matchKw_norm k "WHERE" h
  have hu : pyUpper ("WHERE".toList.map Char.toNat) = "WHERE".toList.map Char.toNat := by decide +kernel
  rw [hu] at hn
  exact rIsSplit_of_norm tt v ("WHERE".toList.map Char.toNat) (by decide) hn


/-! ## `_split_kwds` -/

theorem splitKwdsGo_prefix (nl : FNode) : ∀ (A : List FNode) (d : Nat) (done rest : List FNode),
    ∃ d' done', splitKwdsGo rIsSplit (rEmitKwd nl) d done (A ++ rest) = splitKwdsGo rIsSplit (rEmitKwd nl) d' done' rest
  | [], d, done, rest => ⟨d, done, rfl⟩
  | k :: A, d, done, rest => by
    simp only [List.cons_append]
    rw [splitKwdsGo_step]
    split
    · exact splitKwdsGo_prefix nl A _ _ rest
    · exact splitKwdsGo_prefix nl A _ _ rest

theorem rEmitKwd_deep (nl x W : FNode) (hW : W.isWhitespace = false) (base d : List FNode) (k : FNode) :
    ∃ d', rEmitKwd nl (d ++ W :: x :: base) k = d' ++ W :: x :: base := by
  unfold rEmitKwd
  cases d with
  | nil =>
    simp only [List.nil_append, hW, Bool.false_eq_true, if_false]
    split
    · exact ⟨[k], rfl⟩
    · exact ⟨[k, nl], rfl⟩
  | cons p d' =>
    simp only [List.cons_append]
    by_cases hp : p.isWhitespace = true
    · simp only [hp, if_true]
      split
      · exact ⟨k :: d', rfl⟩
      · exact ⟨k :: nl :: d', rfl⟩
    · simp only [hp, Bool.false_eq_true, if_false]
      split
      · exact ⟨k :: p :: d', rfl⟩
      · exact ⟨k :: nl :: p :: d', rfl⟩

theorem splitKwdsGo_deep (nl x W : FNode) (hW : W.isWhitespace = false) (base : List FNode) :
    ∀ (rest : List FNode) (d0 : Nat) (d : List FNode),
      ∃ B, splitKwdsGo rIsSplit (rEmitKwd nl) d0 (d ++ W :: x :: base) rest = base.reverse ++ x :: W :: B
  | [], d0, d => by
    refine ⟨d.reverse, ?_⟩
    simp [splitKwdsGo, List.reverse_append]
  | k :: rest, d0, d => by
    rw [splitKwdsGo_step]
    split
    · obtain ⟨d', hd'⟩ := rEmitKwd_deep nl x W hW base d k
      rw [hd']
      exact splitKwdsGo_deep nl x W hW base rest 0 d'
    · exact splitKwdsGo_deep nl x W hW base rest _ (k :: d)

/-- `_split_kwds` keeps the pair -/
theorem rSplitKwds_pair (nl x W : FNode) (hx : isNlTok x = true) (hW : W.matchKw "WHERE" = true) (A B : List FNode) :
    ∃ A' B', rSplitKwds nl (A ++ x :: W :: B) = A' ++ x :: W :: B' := by
  unfold rSplitKwds
  obtain ⟨d', done', h1⟩ := splitKwdsGo_prefix nl A 0 [] (x :: W :: B)
  rw [h1]
  have hxs : rIsSplit x = false := rIsSplit_ws x (isNlTok_ws x hx)
  have hWs : rIsSplit W = false := rIsSplit_where W hW
  have h2 : splitKwdsGo rIsSplit (rEmitKwd nl) d' done' (x :: W :: B) =
      splitKwdsGo rIsSplit (rEmitKwd nl) d' (W :: x :: done') B := by
    rw [splitKwdsGo_step, kwStep_nonsplit rIsSplit d' x hxs]
    simp only [Bool.false_eq_true, if_false]
    rw [splitKwdsGo_step, kwStep_nonsplit rIsSplit d' W hWs]
    simp only [Bool.false_eq_true, if_false]
  rw [h2]
  obtain ⟨B', h3⟩ := splitKwdsGo_deep nl x W (notWs_of_where W hW) done' B d' []
  exact ⟨done'.reverse, B', by simpa using h3⟩

/-! ## the recursion over the children, `_process_default`, `_process_where` -/

theorem sameShapeL_pair (x W : FNode) (hx : isNlTok x = true) (hW : W.matchKw "WHERE" = true) :
    ∀ (A B l' : List FNode), SameShapeL (A ++ x :: W :: B) l' → ∃ A' B', l' = A' ++ x :: W :: B'
  | [], B, l', h => by
    cases h with
    | cons h1 h2 =>
      cases h2 with
      | cons h3 h4 =>
        obtain ⟨v, rfl⟩ := where_is_keyword W hW
        cases x with
        | grp c cv ks => cases hx
        | tok tt v0 =>
          simp only [SameShape] at h1 h3
          subst h1 h3
          exact ⟨[], _, rfl⟩
  | a :: A, B, l', h => by
    cases h with
    | cons h1 h2 =>
      obtain ⟨A', B', rfl⟩ := sameShapeL_pair x W hx hW A B _ h2
      exact ⟨_ :: A', B', rfl⟩

theorem rDefault_pair (cfg : RCfg) (rec : RRec) (hrec : RecShape rec) (anc : List Cls) (pre : Text) (st : RSt) (stmts : Bool)
    (x W : FNode) (hx : isNlTok x = true) (hW : W.matchKw "WHERE" = true) (A B ks' : List FNode) (st' : RSt)
    (h : rDefault cfg rec anc pre st stmts (A ++ x :: W :: B) = .ok (ks', st')) :
    ∃ A' B', ks' = A' ++ x :: W :: B' := by
  unfold rDefault at h
  have hshape := rMapKids_shape (rec anc) (fun p s n n' s' hh => hrec anc p s n n' s' hh) _ _ _ _ _ h
  have h1 : ∃ A1 B1, (if stmts = true then rSplitStatementsGo (rNl cfg st) [] (A ++ x :: W :: B) else A ++ x :: W :: B) =
      A1 ++ x :: W :: B1 := by
    cases stmts with
    | false => exact ⟨A, B, rfl⟩
    | true => simpa using rSplitStatementsGo_pair (rNl cfg st) x W hx hW A B
  obtain ⟨A1, B1, e1⟩ := h1
  rw [e1] at hshape
  obtain ⟨A2, B2, e2⟩ := rSplitKwds_pair (rNl cfg st) x W hx hW A1 B1
  rw [e2] at hshape
  exact sameShapeL_pair x W hx hW A2 B2 ks' hshape

/-- **`_process_where`**: in the list it returns, the `WHERE` keyword directly follows an `nl()` token -/
theorem rWhere_pair (cfg : RCfg) (rec : RRec) (hrec : RecShape rec) (anc : List Cls) (pre : Text) (st : RSt)
    (ks ks' : List FNode) (st' : RSt) (i : Nat) (hi : ks.findIdx? (·.matchKw "WHERE") = some i)
    (h : rWhere cfg rec anc pre st ks = .ok (ks', st')) : wherePaired ks' = true := by
  unfold rWhere at h
  rw [hi] at h
  simp only at h
  split at h
  · cases h
  · rename_i r hr
    simp only [Except.ok.injEq, Prod.mk.injEq] at h
    rw [← h.1]
    obtain ⟨hlt, hp, _⟩ := List.findIdx?_eq_some_iff_getElem.mp hi
    have hsplit : insertAt ks i (rNl cfg st) = ks.take i ++ rNl cfg st :: ks[i] :: ks.drop (i + 1) := by
      unfold insertAt
      rw [List.drop_eq_getElem_cons hlt]
    rw [hsplit] at hr
    obtain ⟨A', B', e⟩ := rDefault_pair cfg rec hrec _ _ _ _ _ _ (isNlTok_rNl cfg st 0) hp _ _ _ _ hr
    rw [e]
    exact wherePaired_mid _ _ (isNlTok_rNl cfg st 0) hp A' B'

end Sql
