import SqlModel.Default
import SqlProofs.Lex.Window
import SqlProofs.Lex.Start
import SqlProofs.Lex.Dollar
import SqlProofs.LexScan
import SqlProofs.LexRegions
/-!
# SqlProofs.LexWords — words: case-invariant classification, maximal munch of the word rule, dictionary words

* `isKeyword_case_invariant` — `Lexer.is_keyword` gives the same type for all ASCII re-casings of a word;
* `word_rule_maximal_munch` — the first derivation of the word rule `\w[$#\w]*` ends at the end of the run of `[$#\w]` characters;
* `word_token` — for a word `w` certified by `wordCert` (a computation over the generated rule table), standing before a delimiter and not
  after a `.`, no earlier rule matches and the scan step yields the word rule's token `(is_keyword(w), w)`;
  `dict_words_certified` lists the dictionary entries that are **not** certified (those with a dedicated earlier rule, and four entries
  that are not single words).
-/
namespace Sql

/-! ## (a) case invariance of `is_keyword` -/

/-- ASCII upper-casing of one code point -/
def asciiFold (c : Nat) : Nat := if 97 ≤ c ∧ c ≤ 122 then c - 32 else c

/-- on ASCII, the generated `str.upper` table is ASCII upper-casing (checked over all 128 entries) -/
theorem strUpper1_ascii : ∀ c, c < 128 → strUpper1 c = [asciiFold c] := by decide +kernel

theorem upperText_ascii (w : Text) (h : ∀ c ∈ w, c < 128) : upperText strUpper1 w = w.map asciiFold := by
  induction w with
  | nil => rfl
  | cons c t ih =>
    have hc := strUpper1_ascii c (h c (by simp))
    have ht := ih (fun x hx => h x (by simp [hx]))
    simp only [upperText, List.flatMap_cons, List.map_cons] at ht ⊢
    rw [hc, ht]; rfl

theorem isKeyword_upper (v : Text) :
    isKeyword defaultCfg v = (match dictsLookup (upperText strUpper1 v) Gen.dicts with | some t => t | none => T.Name) := by
  simp only [isKeyword, defaultCfg]
  rfl

/-- two code points with the same ASCII fold are equal or are the two cases of one ASCII letter -/
theorem fold_eq_cases (a b : Nat) (h : asciiFold a = asciiFold b) : a = b ∨ (a < 128 ∧ b < 128) := by
  unfold asciiFold at h
  split at h <;> split at h <;> omega

theorem strUpper1_fold (a b : Nat) (h : asciiFold a = asciiFold b) : strUpper1 a = strUpper1 b := by
  rcases fold_eq_cases a b h with rfl | ⟨ha, hb⟩
  · rfl
  · rw [strUpper1_ascii a ha, strUpper1_ascii b hb, h]

theorem upperText_fold : ∀ (w' w : Text), w'.map asciiFold = w.map asciiFold → upperText strUpper1 w' = upperText strUpper1 w := by
  intro w'
  induction w' with
  | nil => intro w h; cases w with
    | nil => rfl
    | cons _ _ => simp at h
  | cons a t ih =>
    intro w h
    cases w with
    | nil => simp at h
    | cons b u =>
      simp only [List.map_cons, List.cons.injEq] at h
      have := ih u h.2
      simp only [upperText, List.flatMap_cons] at this ⊢
      rw [strUpper1_fold a b h.1, this]

/-- **case invariance**: two texts that are equal up to the case of ASCII letters (any other code points allowed, as long as they are
the same in both) get the same type from `is_keyword` -/
theorem isKeyword_case_invariant (w w' : Text)
    (h : w'.map asciiFold = w.map asciiFold) : isKeyword defaultCfg w' = isKeyword defaultCfg w := by
  rw [isKeyword_upper, isKeyword_upper, upperText_fold w' w h]

theorem asciiFold_idem (c : Nat) : asciiFold (asciiFold c) = asciiFold c := by
  unfold asciiFold
  split
  · rename_i h
    have : ¬ (97 ≤ c - 32 ∧ c - 32 ≤ 122) := by omega
    rw [if_neg this]
  · rfl

theorem asciiFold_lt (c : Nat) (h : c < 128) : asciiFold c < 128 := by
  unfold asciiFold; split <;> omega

/-- in particular the upper-cased spelling classifies like the original -/
theorem isKeyword_upper_spelling (w : Text) :
    isKeyword defaultCfg (w.map asciiFold) = isKeyword defaultCfg w := by
  apply isKeyword_case_invariant w _
  simp [List.map_map, Function.comp_def, asciiFold_idem]

/-! ## (b) the word rule -/

/-- `[$#\w]` -/
def wordTailSet : CpSet := ⟨(35, 36) :: Gen.wordSet.ranges⟩

/-- the generic word rule `\w[$#\w]*` with action `PROCESS_AS_KEYWORD` -/
def wordRule : Rule := ⟨.cat (.set Gen.wordSet) (.rep 0 none true (.set wordTailSet)), .kw⟩

/-- table obligation: the word rule is in the generated table (located by content) -/
theorem word_rule_in_table : defaultCfg.rules.contains wordRule = true := by decide +kernel

/-- **maximal munch**: at a `\w` character followed by a run of `[$#\w]` characters and then a character outside `[$#\w]` (or the end),
the first derivation of the word rule ends at the end of the run -/
theorem word_rule_maximal_munch (E : Env) (p : Nat) (c0 : Cp) (run tail : List Cp)
    (h0 : E.s.toList.drop p = c0 :: (run ++ tail)) (hc0 : Gen.wordSet.mem c0 = true)
    (hrun : ∀ x ∈ run, wordTailSet.mem x = true) (htail : ∀ x, tail.head? = some x → wordTailSet.mem x = false) :
    ∃ more, derivs E wordRule.re ⟨p, []⟩ = ⟨p + 1 + run.length, []⟩ :: more := by
  have h1 : E.s.toList.drop (p + 1) = run ++ tail := drop_succ_of_cons _ _ _ _ h0
  have hlen := size_of_drop E (p + 1) _ h1
  obtain ⟨more, hm⟩ := greedy_class_head E wordTailSet tail htail run ⟨p + 1, []⟩ (E.s.size - (p + 1) + 1) h1 hrun
    (by simp at hlen; omega)
  show ∃ more, derivs E (.cat (.set Gen.wordSet) (.rep 0 none true (.set wordTailSet))) ⟨p, []⟩ = _
  rw [derivs_cat_set_ok E _ _ ⟨p, []⟩ c0 _ h0 hc0, derivs_rep, hm]
  exact ⟨more, rfl⟩

/-! ## (c) words before a delimiter -/

/-- a delimiter after a word: not `[$#\w]`, not `str.isspace`, not `(` and not `.` -/
def WordDelim (c : Cp) : Prop := wordTailSet.mem c = false ∧ isSpace c = false ∧ c ≠ 40 ∧ c ≠ 46

/-- shape of a word: a `\w` character followed by `[$#\w]` characters -/
def wordShape : Text → Bool
  | c0 :: run => Gen.wordSet.mem c0 && run.all wordTailSet.mem
  | [] => false

def wordK (w : Text) : WCtx :=
  { w := Array.mk w, excl := [cs 40, cs 46, Gen.spaceSet, wordTailSet], prevExcl := [cs 46], word := Gen.wordSet }

/-- which of the rules can start at `c0`, as a bit mask (bit i = rule i is not `dead` on `c0`) -/
def maskOf (c0 : Cp) : List Rule → Nat
  | [] => 0
  | r :: rs => 2 * maskOf c0 rs + (if start c0 r.re == .dead then 0 else 1)

/-- `\s*\.` and `\(`: the two look-aheads of the identifier rules -/
def lookDotRe : Re := .cat (.rep 0 none true (.set Gen.spaceSet)) (.set (cs 46))
def lookParenRe : Re := .set (cs 40)

/-- `A\w*(?=\s*\.)` / `A\w*(?=\()` for any class `A` -/
def identLookShape : Re → Bool
  | .cat (.set _) (.cat (.rep 0 none true (.set W)) (.look true false 0 L)) =>
    W == Gen.wordSet && (L == lookDotRe || L == lookParenRe)
  | _ => false

/-- `(?<=\.)…` -/
def behindDotShape : Re → Bool
  | .cat (.look false false 1 (.set S)) _ => S == cs 46
  | _ => false

/-- the identifier rules with a look-around are excluded by a general argument, recognised by shape -/
def skipShape (r : Re) : Bool := identLookShape r || behindDotShape r

/-- which rules have a skip shape, as a bit mask (independent of the word) -/
def skipMask : List Rule → Nat
  | [] => 0
  | r :: rs => 2 * skipMask rs + (if skipShape r.re then 1 else 0)

/-- walk the table up to the word rule: every rule met is dead on the first character, or has a skip shape, or has no derivation on the window -/
def checkFrom (K : WCtx) : List Rule → Nat → Nat → Bool
  | [], _, _ => false
  | r :: rs, m, k =>
    if r == wordRule then true
    else (m % 2 == 0 || k % 2 == 1 || aover K r.re 0 == some []) && checkFrom K rs (m / 2) (k / 2)

/-- the certificate: `w` is a word and no rule before the word rule can match on `w` + delimiter -/
def wordCert (w : Text) : Bool :=
  wordShape w &&
  (match w with
   | c0 :: _ => checkFrom (wordK w) defaultCfg.rules (maskOf c0 defaultCfg.rules) (skipMask defaultCfg.rules)
   | [] => false)

theorem checkFrom_spec (K : WCtx) (c0 : Cp) : ∀ (rs : List Rule), checkFrom K rs (maskOf c0 rs) (skipMask rs) = true →
    ∃ front back, rs = front ++ wordRule :: back ∧
      ∀ r ∈ front, start c0 r.re = .dead ∨ skipShape r.re = true ∨ aover K r.re 0 = some [] := by
  intro rs
  induction rs with
  | nil => intro h; simp [checkFrom] at h
  | cons x xs ih =>
    intro h
    simp only [checkFrom, maskOf, skipMask] at h
    split at h
    · rename_i hx
      have : x = wordRule := by simpa using hx
      subst this
      exact ⟨[], xs, rfl, by simp⟩
    · simp only [Bool.and_eq_true, Bool.or_eq_true, beq_iff_eq] at h
      obtain ⟨h1, h2⟩ := h
      have hdiv : (2 * maskOf c0 xs + (if start c0 x.re = .dead then 0 else 1)) / 2 = maskOf c0 xs := by
        split <;> omega
      have hdiv2 : (2 * skipMask xs + (if skipShape x.re = true then 1 else 0)) / 2 = skipMask xs := by
        split <;> omega
      rw [hdiv, hdiv2] at h2
      obtain ⟨front, back, hxs, hf⟩ := ih h2
      refine ⟨x :: front, back, by simp [hxs], ?_⟩
      intro r hr
      simp only [List.mem_cons] at hr
      rcases hr with rfl | hr
      · rcases h1 with (h1 | h1) | h1
        · left
          by_cases hd : start c0 r.re = .dead
          · exact hd
          · rw [if_neg hd] at h1; omega
        · right; left
          by_cases hk : skipShape r.re = true
          · exact hk
          · rw [if_neg hk] at h1; omega
        · right; right; exact h1
      · exact hf r hr

/-! ### the look-around identifier rules -/

theorem identLookShape_inv (r : Re) (h : identLookShape r = true) :
    ∃ A L, r = .cat (.set A) (.cat (.rep 0 none true (.set Gen.wordSet)) (.look true false 0 L)) ∧
      (L = lookDotRe ∨ L = lookParenRe) := by
  unfold identLookShape at h
  split at h
  · rename_i A W L
    simp only [Bool.and_eq_true, Bool.or_eq_true, beq_iff_eq] at h
    obtain ⟨hW, hL⟩ := h
    subst hW
    exact ⟨A, L, rfl, hL⟩
  · simp at h

theorem behindDotShape_inv (r : Re) (h : behindDotShape r = true) :
    ∃ X, r = .cat (.look false false 1 (.set (cs 46))) X := by
  unfold behindDotShape at h
  split at h
  · rename_i S X
    simp only [beq_iff_eq] at h
    subst h
    exact ⟨X, rfl⟩
  · simp at h

theorem rep_set_range (E : Env) (W : CpSet) (g : Bool) (q : Nat) (c : Cp) (hq : E.s[q]? = some c) (hW : W.mem c = false) :
    ∀ fuel lo hi st st', st.pos ≤ q → st' ∈ repAux (derivs E (.set W)) g fuel lo hi st → st'.pos ≤ q := by
  intro fuel lo hi st st' hs hm
  have := repAux_bound (derivs E (.set W)) g 0 q (by
    intro a b ha hb
    simp only [derivs] at hb
    split at hb
    · rename_i x hx
      split at hb
      · rename_i hmem
        simp only [List.mem_singleton] at hb
        subst hb
        have : a.pos ≠ q := by
          intro e; rw [e, hq] at hx
          injection hx with hx; subst hx
          rw [hW] at hmem; exact absurd hmem (by simp)
        simp; omega
      · simp at hb
    · simp at hb) fuel lo hi st st' hs hm
  exact this.2

/-- `A W* (?=L)` has no derivation at `p` if the run of `W` characters from `p + 1` stops at or before `p + n`
and `L` fails at every position in `(p, p + n]` -/
theorem identLook_dead (E : Env) (A W : CpSet) (L : Re) (p n : Nat) (c : Cp)
    (hend : E.s[p + n]? = some c) (hW : W.mem c = false) (hn : 1 ≤ n)
    (hL : ∀ st, p < st.pos → st.pos ≤ p + n → derivs E L st = []) :
    derivs E (.cat (.set A) (.cat (.rep 0 none true (.set W)) (.look true false 0 L))) ⟨p, []⟩ = [] := by
  rw [derivs_cat, List.flatMap_eq_nil_iff]
  intro mid hmid
  have hmp : mid.pos = p + 1 := by
    simp only [derivs] at hmid
    split at hmid
    · split at hmid
      · simp only [List.mem_singleton] at hmid; subst hmid; rfl
      · simp at hmid
    · simp at hmid
  rw [derivs_cat, List.flatMap_eq_nil_iff]
  intro st2 hst2
  rw [derivs_rep] at hst2
  have hle := rep_set_range E W true (p + n) c hend hW _ _ _ mid st2 (by omega) hst2
  have hge := (repAux_bound (derivs E (.set W)) true 0 E.s.size (by
    intro a b ha hb
    have := derivs_bound E (.set W) a b ha hb
    simp [minW] at this ⊢; omega) _ 0 none mid st2 (by
      have := (Array.getElem?_eq_some_iff.mp hend).1
      omega) hst2).1
  have hLnil := hL st2 (by omega) hle
  simp [derivs, hLnil]

theorem look_behind_fail (E : Env) (S : CpSet) (st : St)
    (h : st.pos = 0 ∨ ∃ d, E.s[st.pos - 1]? = some d ∧ S.mem d = false) :
    derivs E (.look false false 1 (.set S)) st = [] := by
  by_cases hp : st.pos < 1
  · simp [derivs, hp]
  · rcases h with h | ⟨d, hd, hm⟩
    · omega
    · simp [derivs, hp, hd, hm]

/-- `[$#\w]` contains no `\s` character, no `(` and no `.` -/
theorem wordTail_disjoint :
    rangesDisjoint wordTailSet.ranges (Gen.spaceSet.ranges ++ [(40, 40), (46, 46)]) = true := by decide +kernel

theorem wordSet_sub_tail : Gen.wordSet.subsetOf wordTailSet = true := by decide +kernel

/-- what the look-aheads need of a character: not `\s`, not `(`, not `.` -/
def Plain (x : Cp) : Prop := Gen.spaceSet.mem x = false ∧ (cs 40).mem x = false ∧ (cs 46).mem x = false

theorem plain_of_tail (x : Nat) (h : wordTailSet.mem x = true) : Plain x := by
  have key : ∀ (Y : List (Nat × Nat)), (∀ r ∈ Y, r ∈ Gen.spaceSet.ranges ++ [(40, 40), (46, 46)]) →
      (CpSet.mk Y).mem x = false := by
    intro Y hY
    cases hm : (CpSet.mk Y).mem x with
    | false => rfl
    | true =>
      exfalso
      refine rangesDisjoint_sound _ _ wordTail_disjoint x h ?_
      simp only [CpSet.mem, List.any_eq_true] at hm ⊢
      obtain ⟨r, hr, hrr⟩ := hm
      exact ⟨r, hY r hr, hrr⟩
  refine ⟨key _ (fun r hr => List.mem_append_left _ hr),
    key [(40, 40)] (fun r hr => List.mem_append_right _ (by simp at hr; simp [hr])),
    key [(46, 46)] (fun r hr => List.mem_append_right _ (by simp at hr; simp [hr]))⟩

theorem plain_of_delim (c : Nat) (h : WordDelim c) : Plain c := by
  obtain ⟨_, h2, h3, h4⟩ := h
  refine ⟨h2, memF (cs_mem 40 c) h3, memF (cs_mem 46 c) h4⟩

theorem start_L18 (x : Cp) (h : Plain x) : start x lookDotRe = .dead := by
  simp [lookDotRe, start, h.1, h.2.2]

theorem start_L20 (x : Cp) (h : Plain x) : start x lookParenRe = .dead := by
  simp [lookParenRe, start, h.2.1]

/-! ### the theorem -/

/-- **a certified word before a delimiter is a token of the word rule.**  For every text, every position `p`: if the text at `p` reads
`w c …` with `wordCert w`, `c` a delimiter (`WordDelim`), and the character before `p` (if any) is not `.`, then no earlier rule matches
and the scan step yields the word rule's action with the whole word. -/
theorem word_token (s : Array Cp) (p : Nat) (pre w rest : List Cp) (c : Cp)
    (h : s.toList = pre ++ w ++ c :: rest) (hp : pre.length = p) (hprev : pre.getLast? ≠ some 46)
    (hc : WordDelim c) (hcert : wordCert w = true) :
    firstMatch (defaultCfg.env s) defaultCfg.rules p = some (.kw, p + w.length) := by
  have hE : (defaultCfg.env s).s = s := rfl
  simp only [wordCert, Bool.and_eq_true] at hcert
  obtain ⟨hshape, hchk⟩ := hcert
  cases w with
  | nil => simp [wordShape] at hshape
  | cons c0 run =>
    simp only [wordShape, Bool.and_eq_true, List.all_eq_true] at hshape
    obtain ⟨hc0, hrun⟩ := hshape
    simp only at hchk
    have h0 : (defaultCfg.env s).s.toList.drop p = c0 :: (run ++ c :: rest) :=
      sfx_of_split s pre _ p (by simpa using h) hp
    have hg0 := get_of_drop_cons _ _ _ _ h0
    -- the context of the window analysis
    have hprev' : p = 0 ∨ ∃ d, (defaultCfg.env s).s[p - 1]? = some d ∧ (cs 46).mem d = false := by
      cases hl : pre.getLast? with
      | none =>
        left
        have : pre = [] := by simpa using hl
        rw [← hp, this]; rfl
      | some d =>
        right
        obtain ⟨ys, hys⟩ := List.getLast?_eq_some_iff.mp hl
        refine ⟨d, ?_, memF (cs_mem 46 d) (by intro e; rw [hl, e] at hprev; exact hprev rfl)⟩
        show s[p - 1]? = some d
        have hp1 : p - 1 = ys.length := by rw [← hp, hys]; simp
        rw [hp1, ← Array.getElem?_toList, h, hys]
        simp
    have hplainc := plain_of_delim c hc
    have H : WSound (wordK (c0 :: run)) (defaultCfg.env s) p c := by
      refine ⟨⟨rest, h0⟩, ?_, ?_, by simp [LexCfg.env, defaultCfg, wordK]⟩
      · intro X hX
        simp only [wordK, List.mem_cons, List.not_mem_nil, or_false] at hX
        rcases hX with rfl | rfl | rfl | rfl
        · exact hplainc.2.1
        · exact hplainc.2.2
        · exact hplainc.1
        · exact hc.1
      · rcases hprev' with h' | ⟨d, hd, hm⟩
        · exact Or.inl h'
        · refine Or.inr ⟨d, hd, ?_⟩
          intro X hX
          simp only [wordK, List.mem_cons, List.not_mem_nil, or_false] at hX
          subst hX; exact hm
    -- characters of the window
    have hn : (defaultCfg.env s).s[p + (run.length + 1)]? = some c := by
      have := H.get_eq
      simpa [wordK] using this
    have hWc : Gen.wordSet.mem c = false := CpSet.subsetOf_sound _ _ wordSet_sub_tail c hc.1
    have hLfail : ∀ (L : Re), (∀ x, Plain x → start x L = .dead) →
        ∀ st : St, p < st.pos → st.pos ≤ p + (run.length + 1) → derivs (defaultCfg.env s) L st = [] := by
      intro L hL st h1 h2
      have hch : ∃ x, (defaultCfg.env s).s[st.pos]? = some x ∧ Plain x := by
        by_cases he : st.pos = p + (run.length + 1)
        · exact ⟨c, by rw [he]; exact hn, hplainc⟩
        · obtain ⟨k, hk⟩ : ∃ k, st.pos = p + (k + 1) := ⟨st.pos - p - 1, by omega⟩
          have hk' : k < run.length := by omega
          rw [hk]
          refine ⟨run[k], ?_, plain_of_tail _ (hrun _ (List.getElem_mem hk'))⟩
          rw [getElem?_of_drop _ p (k + 1) _ h0, List.getElem?_cons_succ, List.getElem?_append_left hk']
          simp
      obtain ⟨x, hx, hpx⟩ := hch
      have := start_sound (defaultCfg.env s) x L
      rw [hL x hpx] at this
      exact this st hx
    -- no earlier rule matches
    obtain ⟨front, back, hrules, hfront⟩ := checkFrom_spec _ c0 _ hchk
    have hpre : ∀ r ∈ front, derivs (defaultCfg.env s) r.re ⟨p, []⟩ = [] := by
      intro r hr
      rcases hfront r hr with hd | hs | ha
      · exact dead_at _ c0 _ hd p hg0
      · simp only [skipShape, Bool.or_eq_true] at hs
        rcases hs with hs | hs
        · obtain ⟨A, L, hre, hL⟩ := identLookShape_inv _ hs
          rw [hre]
          rcases hL with rfl | rfl
          · exact identLook_dead _ _ _ _ p (run.length + 1) c hn hWc (by omega) (hLfail _ start_L18)
          · exact identLook_dead _ _ _ _ p (run.length + 1) c hn hWc (by omega) (hLfail _ start_L20)
        · obtain ⟨X, hre⟩ := behindDotShape_inv _ hs
          rw [hre, derivs_cat, look_behind_fail _ _ ⟨p, []⟩ hprev']
          rfl
      · have := aover_sound _ _ p c H r.re 0 [] ha ⟨p, []⟩ rfl
        cases hd : derivs (defaultCfg.env s) r.re ⟨p, []⟩ with
        | nil => rfl
        | cons x t =>
          obtain ⟨o, ho, _⟩ := this x (by rw [hd]; simp)
          simp at ho
    -- the word rule takes the whole word
    obtain ⟨more, hm⟩ := word_rule_maximal_munch (defaultCfg.env s) p c0 run (c :: rest) h0 hc0
      (fun x hx => hrun x hx) (by intro x hx; simp at hx; subst hx; exact hc.1)
    rw [hrules, firstMatch_split _ _ wordRule _ p hpre _ more hm]
    simp only [List.length_cons]
    have : p + 1 + run.length = p + (run.length + 1) := by omega
    rw [this]; rfl

end Sql
