import SqlModel.Lexer
import SqlProofs.RegexBound
/-!
# SqlProofs.LexerTotal — the scan loop is total and lossless for any table whose rules all have
minimal width ≥ 1 and whose actions all yield a token.
-/
namespace Sql

/-- table hypothesis of C01: every rule consumes at least one character and yields a token -/
def RulesOK (rules : List Rule) : Bool :=
  rules.all fun r => decide (1 ≤ minW r.re) && (r.act != .other)

theorem firstMatch_some (E : Env) (rules : List Rule) (p : Nat) (act : Action) (e : Nat)
    (h : firstMatch E rules p = some (act, e)) :
    ∃ r ∈ rules, act = r.act ∧ ∃ st ∈ derivs E r.re ⟨p, []⟩, st.pos = e := by
  induction rules with
  | nil => simp [firstMatch] at h
  | cons r rs ih =>
    simp only [firstMatch, matchAt] at h
    split at h
    · rename_i st hst
      simp at h
      refine ⟨r, by simp, h.1.symm, st, ?_, h.2⟩
      exact List.mem_of_head? hst
    · obtain ⟨r', hr', rest⟩ := ih h
      exact ⟨r', by simp [hr'], rest⟩

theorem firstMatch_none (E : Env) (rules : List Rule) (p : Nat)
    (h : firstMatch E rules p = none) : ∀ r ∈ rules, derivs E r.re ⟨p, []⟩ = [] := by
  induction rules with
  | nil => simp
  | cons r rs ih =>
    simp only [firstMatch, matchAt] at h
    split at h
    · simp at h
    · rename_i hnone
      intro r' hr'
      simp at hr'
      rcases hr' with rfl | hr'
      · simpa using hnone
      · exact ih h r' hr'

/-- under `RulesOK`, a first match ends strictly after `p`, inside the string, and its action is not `.other` -/
theorem firstMatch_progress (E : Env) (rules : List Rule) (hok : RulesOK rules = true) (p : Nat) (hp : p ≤ E.s.size)
    (act : Action) (e : Nat) (h : firstMatch E rules p = some (act, e)) :
    p < e ∧ e ≤ E.s.size ∧ act ≠ .other := by
  obtain ⟨r, hr, hact, st, hst, hpos⟩ := firstMatch_some E rules p act e h
  have hb := derivs_bound E r.re ⟨p, []⟩ st hp hst
  simp only [RulesOK, List.all_eq_true, Bool.and_eq_true, decide_eq_true_eq, bne_iff_ne] at hok
  have := hok r hr
  subst hpos
  refine ⟨?_, hb.2, ?_⟩
  · have h1 := hb.1; simp only at h1; omega
  · rw [hact]; exact this.2

theorem extract_toList (s : Array Cp) (p e : Nat) :
    (s.extract p e).toList = (s.toList.drop p).take (e - p) := by
  simp [Array.toList_extract, List.extract_eq_take_drop]

theorem drop_split (l : List Cp) (p e : Nat) (h1 : p ≤ e) :
    (l.drop p).take (e - p) ++ l.drop e = l.drop p := by
  have : l.drop e = (l.drop p).drop (e - p) := by
    rw [List.drop_drop]; congr 1; omega
  rw [this, List.take_append_drop]

/-- offsets-and-values reading of a token list, used to state where Error tokens may occur -/
def ErrorsOK (cfg : LexCfg) (E : Env) : Nat → List Tok → Prop
  | _, [] => True
  | p, t :: ts =>
    (t.tt = T.Error → t.val.length = 1 ∧ ∀ r ∈ cfg.rules, derivs E r.re ⟨p, []⟩ = []) ∧
    ErrorsOK cfg E (p + t.val.length) ts

/-- no rule action and no dictionary entry produces the `Error` type -/
def NoErrorType (cfg : LexCfg) : Bool :=
  (cfg.rules.all fun r => r.act != .tok T.Error) &&
  (cfg.dicts.all fun d => d.all fun e => e.2 != T.Error)

theorem dictLookup_mem (u : Text) (d : List (Text × TType)) (t : TType) (h : dictLookup u d = some t) :
    ∃ e ∈ d, e.2 = t := by
  induction d with
  | nil => simp [dictLookup] at h
  | cons x xs ih =>
    obtain ⟨w, t'⟩ := x
    simp only [dictLookup] at h
    split at h
    · simp at h; exact ⟨(w, t'), by simp, h⟩
    · obtain ⟨e, he, ht⟩ := ih h
      exact ⟨e, by simp [he], ht⟩

theorem dictsLookup_mem (u : Text) (ds : List (List (Text × TType))) (t : TType) (h : dictsLookup u ds = some t) :
    ∃ d ∈ ds, ∃ e ∈ d, e.2 = t := by
  induction ds with
  | nil => simp [dictsLookup] at h
  | cons d ds ih =>
    simp only [dictsLookup] at h
    split at h
    · rename_i t' ht'
      simp at h; subst h
      exact ⟨d, by simp, dictLookup_mem u d _ ht'⟩
    · obtain ⟨d', hd', rest⟩ := ih h
      exact ⟨d', by simp [hd'], rest⟩

theorem isKeyword_ne_error (cfg : LexCfg) (hne : NoErrorType cfg = true) (v : Text) : isKeyword cfg v ≠ T.Error := by
  unfold isKeyword
  split
  · rename_i t ht
    obtain ⟨d, hd, e, he, het⟩ := dictsLookup_mem _ _ _ ht
    simp only [NoErrorType, Bool.and_eq_true, List.all_eq_true, bne_iff_ne] at hne
    rw [← het]; exact hne.2 d hd e he
  · decide

/-- main lemma: from any position `pos ≤ size` with enough fuel the loop returns tokens that spell the
rest of the input, all non-empty, with Error tokens only where no rule matches -/
theorem lexLoop_ok (cfg : LexCfg) (s : Array Cp) (hok : RulesOK cfg.rules = true) (hne : NoErrorType cfg = true) :
    ∀ (fuel pos : Nat), pos ≤ s.size → s.size - pos < fuel →
    ∃ ts, lexLoop cfg (cfg.env s) fuel pos = .ok ts ∧
      (ts.map (·.val)).flatten = s.toList.drop pos ∧ (∀ t ∈ ts, t.val ≠ []) ∧
      ErrorsOK cfg (cfg.env s) pos ts := by
  intro fuel
  induction fuel with
  | zero => intro pos _ h; omega
  | succ fuel ih =>
    intro pos hpos hfuel
    have hsz : (cfg.env s).s.size = s.size := rfl
    unfold lexLoop
    cases hget : (cfg.env s).s[pos]? with
    | none =>
      simp only
      have hge : s.size ≤ pos := by
        simpa [LexCfg.env] using hget
      refine ⟨[], rfl, ?_, by simp, trivial⟩
      simp [List.drop_eq_nil_of_le (show s.toList.length ≤ pos by simpa using hge)]
    | some c =>
      have hlt : pos < s.size := by
        have := Array.getElem?_eq_some_iff.mp hget
        obtain ⟨h, _⟩ := this
        simpa [LexCfg.env] using h
      have hc : s.toList.drop pos = c :: s.toList.drop (pos + 1) := by
        have := Array.getElem?_eq_some_iff.mp hget
        obtain ⟨h, hv⟩ := this
        have h' : pos < s.toList.length := by simpa using hlt
        rw [List.drop_eq_getElem_cons h']
        simpa [LexCfg.env] using hv
      simp only
      cases hfm : firstMatch (cfg.env s) cfg.rules pos with
      | none =>
        simp only
        obtain ⟨ts, hts, hflat, hnonempty, herr⟩ := ih (pos + 1) (by omega) (by omega)
        refine ⟨⟨T.Error, [c]⟩ :: ts, by simp [hts, Except.map], ?_, ?_, ?_⟩
        · simp [hflat, hc]
        · intro t ht
          simp at ht
          rcases ht with rfl | ht
          · simp
          · exact hnonempty t ht
        · refine ⟨fun _ => ⟨rfl, firstMatch_none _ _ _ hfm⟩, ?_⟩
          simpa using herr
      | some ae =>
        obtain ⟨act, e⟩ := ae
        simp only
        obtain ⟨hpe, hes, hact⟩ := firstMatch_progress (cfg.env s) cfg.rules hok pos (by rw [hsz]; exact hpos) act e hfm
        rw [hsz] at hes
        have hnle : ¬ e ≤ pos := by omega
        simp only [hnle, if_false]
        obtain ⟨ts, hts, hflat, hnonempty, herr⟩ := ih e hes (by omega)
        have hval : ((cfg.env s).s.extract pos e).toList ++ s.toList.drop e = s.toList.drop pos := by
          show (s.extract pos e).toList ++ _ = _
          rw [extract_toList]; exact drop_split _ _ _ (by omega)
        have hvne : ((cfg.env s).s.extract pos e).toList ≠ [] := by
          show (s.extract pos e).toList ≠ []
          intro h
          have : (s.extract pos e).toList.length = 0 := by rw [h]; rfl
          simp at this
          omega
        have hvlen : ((cfg.env s).s.extract pos e).toList.length = e - pos := by
          show (s.extract pos e).toList.length = e - pos
          simp; omega
        obtain ⟨r, hr, hract, _⟩ := firstMatch_some _ _ _ _ _ hfm
        have hruleNoErr : act ≠ .tok T.Error := by
          simp only [NoErrorType, Bool.and_eq_true, List.all_eq_true, bne_iff_ne] at hne
          rw [hract]; exact hne.1 r hr
        have herr' : ErrorsOK cfg (cfg.env s) (pos + ((cfg.env s).s.extract pos e).toList.length) ts := by
          rw [hvlen]; have : pos + (e - pos) = e := by omega
          rw [this]; exact herr
        generalize ((cfg.env s).s.extract pos e).toList = v at hval hvne herr'
        cases act with
        | tok tt =>
          refine ⟨⟨tt, v⟩ :: ts, by simp [hts, Except.map], ?_, ?_, ?_⟩
          · simp only [List.map_cons, List.flatten_cons, hflat]; exact hval
          · intro t ht
            simp at ht
            rcases ht with rfl | ht
            · exact hvne
            · exact hnonempty t ht
          · refine ⟨fun h => absurd (by simp at h; rw [h]) hruleNoErr, herr'⟩
        | kw =>
          refine ⟨⟨isKeyword cfg v, v⟩ :: ts, by simp [hts, Except.map], ?_, ?_, ?_⟩
          · simp only [List.map_cons, List.flatten_cons, hflat]; exact hval
          · intro t ht
            simp at ht
            rcases ht with rfl | ht
            · exact hvne
            · exact hnonempty t ht
          · refine ⟨fun h => absurd h (isKeyword_ne_error cfg hne _), herr'⟩
        | other => exact absurd rfl hact

theorem lex_ok (cfg : LexCfg) (hok : RulesOK cfg.rules = true) (hne : NoErrorType cfg = true) (s : Array Cp) :
    ∃ ts, lex cfg s = .ok ts ∧ (ts.map (·.val)).flatten = s.toList ∧ (∀ t ∈ ts, t.val ≠ []) ∧
      ErrorsOK cfg (cfg.env s) 0 ts := by
  have := lexLoop_ok cfg s hok hne (s.size + 1) 0 (by omega) (by omega)
  simpa [lex] using this

end Sql
