import SqlModel.Pipeline
import SqlProofs.LexRegions
import SqlProofs.LexDollar
import SqlProofs.LexScan
import SqlProofs.SplitPartition
import SqlProofs.SplitValue
import SqlProofs.LexShift
/-!
# SqlProofs.RegionSplit — an opaque region lies inside one statement (C05, character level)

`Region pre post region ty` bundles, for the nine region kinds of C14, the hypotheses under which the scan step at `|pre|` in any text
`pre ++ region ++ post` emits `region` as one token of type `ty` (`Region.step`).  `region_in_one_statement` combines this with the
splitter's partition: the region token is a member of exactly one returned statement (it cannot be in the dropped tail, whose tokens are
Whitespace-typed), so the character span of the region lies inside the span of that statement — a `;` inside it ended nothing.
-/
namespace Sql

/-- the nine kinds of opaque regions, each with the hypotheses of its C14 theorem; `pre`/`post` are the text before and after -/
inductive Region (pre post : List Cp) : List Cp → TType → Prop
  | block (body : List Cp) (hplus : body.head? ≠ some 43) (hno : ¬ [42, 47] <:+: body) (hle : ∀ c ∈ body, c ≤ 1114111) :
      Region pre post ([47, 42] ++ body ++ [42, 47]) T.CommentMultiline
  | blockHint (body : List Cp) (hno : ¬ [42, 47] <:+: body) (hle : ∀ c ∈ body, c ≤ 1114111) :
      Region pre post ([47, 42, 43] ++ body ++ [42, 47]) hintBlockTy
  | line (op body close : List Cp) (hop : LineOpen op) (hplus : body.head? ≠ some 43)
      (hbody : ∀ c ∈ body, c ≠ 13 ∧ c ≠ 10 ∧ c ≤ 1114111) (hctx : EolCtx close post) :
      Region pre post (op ++ body ++ close) T.CommentSingle
  | lineHint (op body close : List Cp) (hop : LineOpen op)
      (hbody : ∀ c ∈ body, c ≠ 13 ∧ c ≠ 10 ∧ c ≤ 1114111) (hctx : EolCtx close post) :
      Region pre post (op ++ [43] ++ body ++ close) hintLineTy
  | squote (body : List Cp) (hb : QBody 39 true body) (hr : post.head? ≠ some 39) :
      Region pre post ([39] ++ body ++ [39]) T.StringSingle
  | dquote (body : List Cp) (hb : QBody 34 true body) (hr : post.head? ≠ some 34) :
      Region pre post ([34] ++ body ++ [34]) T.StringSymbol
  | backtick (body : List Cp) (hb : QBody 96 false body) (hr : post.head? ≠ some 96) :
      Region pre post ([96] ++ body ++ [96]) T.Name
  | acute (body : List Cp) (hb : QBody 180 false body) (hr : post.head? ≠ some 180) :
      Region pre post ([180] ++ body ++ [180]) T.Name
  | dollar (tag body : List Cp)
      (hlb : ∀ c, pre.getLast? = some c → Gen.wordSet.mem c = false ∧ c ≠ 34 ∧ c ≠ 36)
      (htag : DollarTag tag) (hle : ∀ c ∈ body, c ≤ 1114111)
      (hbody : ∀ i, i < body.length →
        (((body ++ ([36] ++ tag ++ [36] ++ post)).drop i).take (tag.length + 2)).map sreLower
          ≠ ([36] ++ tag ++ [36]).map sreLower) :
      Region pre post ([36] ++ tag ++ [36] ++ body ++ [36] ++ tag ++ [36]) T.Literal

/-- the scan step at the region's opener emits the whole region as one token of the region's type -/
theorem Region.step {pre post region : List Cp} {ty : TType} (hr : Region pre post region ty) (s : Array Cp)
    (h : s.toList = pre ++ region ++ post) :
    firstMatch (defaultCfg.env s) defaultCfg.rules pre.length = some (.tok ty, pre.length + region.length) := by
  cases hr with
  | block body hplus hno hle =>
    rw [block_comment_token s _ pre body post (by simpa using h) rfl hplus hno hle]
    simp; omega
  | blockHint body hno hle =>
    rw [block_hint_token s _ pre body post (by simpa using h) rfl hno hle]
    simp [hintBlockTy]; omega
  | line op body close hop hplus hbody hctx =>
    rw [line_comment_token s _ pre op body close post hop (by simpa using h) rfl hplus hbody hctx]
    simp [lineOpen_length op hop]; omega
  | lineHint op body close hop hbody hctx =>
    rw [line_hint_token s _ pre op body close post hop (by simpa using h) rfl hbody hctx]
    simp [lineOpen_length op hop, hintLineTy]; omega
  | squote body hb hr' =>
    rw [single_quoted_token s _ pre body post (by simpa using h) rfl hb hr']
    simp; omega
  | dquote body hb hr' =>
    rw [double_quoted_token s _ pre body post (by simpa using h) rfl hb hr']
    simp; omega
  | backtick body hb hr' =>
    rw [backtick_name_token s _ pre body post (by simpa using h) rfl hb hr']
    simp; omega
  | acute body hb hr' =>
    rw [acute_name_token s _ pre body post (by simpa using h) rfl hb hr']
    simp; omega
  | dollar tag body hlb htag hle hbody =>
    rw [dollar_quoted_token s _ pre tag body post (by simpa using h) rfl hlb htag hle hbody]
    simp; omega

/-- the nine region types are not Whitespace types, and the splitter never reads the value of a token of such a type -/
theorem Region.ty_facts {pre post region : List Cp} {ty : TType} (hr : Region pre post region ty) :
    ty.isIn T.Whitespace = false ∧ valueBlind ty = true := by
  cases hr <;> exact ⟨by decide, by decide⟩

theorem Region.nonempty {pre post region : List Cp} {ty : TType} (hr : Region pre post region ty) : region ≠ [] := by
  cases hr with
  | line op body close hop _ _ _ => rcases hop with rfl | rfl <;> simp
  | lineHint op body close hop _ _ => rcases hop with rfl | rfl <;> simp
  | _ => simp

/-! ## where a token of the stream sits in the partition -/

theorem flatten_split {α : Type} : ∀ (L : List (List α)) (before : List α) (x : α) (after : List α),
    L.flatten = before ++ x :: after →
    ∃ A st B l r, L = A ++ st :: B ∧ st = l ++ x :: r ∧ before = A.flatten ++ l ∧ after = r ++ B.flatten := by
  intro L
  induction L with
  | nil => intro before x after h; simp at h
  | cons s L ih =>
    intro before x after h
    simp only [List.flatten_cons] at h
    rcases List.append_eq_append_iff.mp h with ⟨a', h1, h2⟩ | ⟨c', h1, h2⟩
    · -- before = s ++ a'
      obtain ⟨A, st, B, l, r, e1, e2, e3, e4⟩ := ih a' x after h2
      exact ⟨s :: A, st, B, l, r, by simp [e1], e2, by simp [h1, e3], e4⟩
    · -- s = before ++ c'
      cases c' with
      | nil =>
        simp only [List.append_nil, List.nil_append] at h1 h2
        obtain ⟨A, st, B, l, r, e1, e2, e3, e4⟩ := ih [] x after h2.symm
        exact ⟨s :: A, st, B, l, r, by simp [e1], e2, by simp [h1, ← e3], e4⟩
      | cons y c'' =>
        simp only [List.cons_append, List.cons.injEq] at h2
        obtain ⟨rfl, h2⟩ := h2
        exact ⟨[], s, L, before, c'', rfl, h1, by simp, h2⟩

/-- a token of the stream that is not Whitespace-typed is a member of exactly one returned statement, at its offset -/
theorem token_in_one_statement (cfg : SplitCfg) (ts : List Tok) (sts : List (List Tok)) (h : splitProcess cfg ts = .ok sts)
    (before : List Tok) (x : Tok) (after : List Tok) (hts : ts = before ++ x :: after) (hx : x.isWhitespace = false) :
    ∃ A st B l r, sts = A ++ st :: B ∧ st = l ++ x :: r ∧ before = A.flatten ++ l := by
  obtain ⟨tail, hcat, hws, _⟩ := splitProcess_partition cfg ts sts h
  rw [hts] at hcat
  rcases List.append_eq_append_iff.mp hcat with ⟨a', h1, h2⟩ | ⟨c', h1, h2⟩
  · -- the token would be in the dropped tail: impossible, the tail is Whitespace-typed
    exfalso
    have : x ∈ tail := by rw [h2]; simp
    have := (List.all_eq_true.mp hws) x this
    rw [hx] at this; exact absurd this (by simp)
  · cases c' with
    | nil =>
      exfalso
      simp only [List.nil_append] at h2
      have : x ∈ tail := by rw [← h2]; simp
      have := (List.all_eq_true.mp hws) x this
      rw [hx] at this; exact absurd this (by simp)
    | cons y c'' =>
      simp only [List.cons_append, List.cons.injEq] at h2
      obtain ⟨rfl, _⟩ := h2
      obtain ⟨A, st, B, l, r, e1, e2, e3, _⟩ := flatten_split sts before x c'' h1
      exact ⟨A, st, B, l, r, e1, e2, e3⟩

/-- **an opaque region lies inside one statement.**  If the text is `pre ++ region ++ post` with `region` one of the nine region kinds,
`|pre|` is a scan position of the lexer, and lexing + splitting returns `sts`, then one statement `st` of `sts` contains the region as one
token; with `A` the statements before it and `l` the tokens of `st` before the region token, the region starts at text offset
`|text A| + |text l| = |pre|` — so the span `[|pre|, |pre| + |region|)` is inside the span of `st`, whatever the region contains. -/
theorem region_in_one_statement (s : Array Cp) (pre region post : List Cp) (ty : TType)
    (h : s.toList = pre ++ region ++ post) (hreg : Region pre post region ty)
    (hb : ScanBoundary defaultCfg (defaultCfg.env s) pre.length)
    (sts : List (List Tok)) (hs : lexSplit s = .ok sts) :
    ∃ A st B l r, sts = A ++ st :: B ∧ st = l ++ ⟨ty, region⟩ :: r ∧ textLen (A.flatten ++ l) = pre.length := by
  obtain ⟨ts, before, after, hlex, hts, hlen, _⟩ := region_in_lex s _ pre region post ty h rfl hb (hreg.step s h)
  unfold lexSplit at hs
  rw [hlex] at hs
  obtain ⟨A, st, B, l, r, e1, e2, e3⟩ := token_in_one_statement defaultSplitCfg ts sts hs before ⟨ty, region⟩ after hts
    (by simp only [Tok.isWhitespace]; exact hreg.ty_facts.1)
  exact ⟨A, st, B, l, r, e1, e2, by rw [← e3]; exact hlen⟩

/-- the same as an inequality between character offsets: statement `st` starts at `|text A| ≤ |pre|` and ends at or after the end of the region -/
theorem region_span_in_statement (s : Array Cp) (pre region post : List Cp) (ty : TType)
    (h : s.toList = pre ++ region ++ post) (hreg : Region pre post region ty)
    (hb : ScanBoundary defaultCfg (defaultCfg.env s) pre.length)
    (sts : List (List Tok)) (hs : lexSplit s = .ok sts) :
    ∃ A st B, sts = A ++ st :: B ∧ textLen A.flatten ≤ pre.length ∧
      pre.length + region.length ≤ textLen A.flatten + textLen st := by
  obtain ⟨A, st, B, l, r, e1, e2, e3⟩ := region_in_one_statement s pre region post ty h hreg hb sts hs
  refine ⟨A, st, B, e1, ?_, ?_⟩
  · rw [textLen_append] at e3; omega
  · rw [e2, textLen_append, textLen_cons]
    rw [textLen_append] at e3
    simp only
    omega

/-! ## the body of a region is irrelevant for everything after it, and for the partition -/

/-- the chain of scan steps at the start of a region: the region token, then the chain from the end of the region -/
theorem scan_region (s : Array Cp) (pre region post : List Cp) (ty : TType)
    (h : s.toList = pre ++ region ++ post) (hreg : Region pre post region ty)
    (rest : List Tok) (hsc : Scan defaultCfg (defaultCfg.env s) pre.length rest) :
    ∃ after, rest = ⟨ty, region⟩ :: after ∧ Scan defaultCfg (defaultCfg.env s) (pre.length + region.length) after := by
  have hfm := hreg.step s h
  have hsz : pre.length ≤ (defaultCfg.env s).s.size := by
    show pre.length ≤ s.size
    have := congrArg List.length h
    simp at this; omega
  cases hsc with
  | done _ hge =>
    have := firstMatch_progress _ _ defaultRulesOK _ hsz _ _ hfm
    omega
  | err _ c ts' hc hfm' _ => rw [hfm] at hfm'; exact absurd hfm' (by simp)
  | tok _ act e ts' hpe hes hfm' hact hs' =>
    rw [hfm] at hfm'
    simp only [Option.some.injEq, Prod.mk.injEq] at hfm'
    obtain ⟨rfl, rfl⟩ := hfm'
    refine ⟨ts', ?_, hs'⟩
    have hv : ((defaultCfg.env s).s.extract pre.length (pre.length + region.length)).toList = region :=
      extract_region s pre region post _ h rfl
    rw [hv]; rfl

theorem sameView_refl : ∀ l : List Tok, SameSplitView l l := by
  intro l
  induction l with
  | nil => trivial
  | cons a t ih => exact ⟨rfl, Or.inr rfl, ih⟩

theorem sameView_mid (a b : Tok) (htt : a.tt = b.tt) (hbl : valueBlind a.tt = true) (after : List Tok) :
    ∀ before : List Tok, SameSplitView (before ++ a :: after) (before ++ b :: after) := by
  intro before
  induction before with
  | nil => exact ⟨htt, Or.inl hbl, sameView_refl after⟩
  | cons x t ih => exact ⟨rfl, Or.inr rfl, ih⟩

/-- two regions of the same kind in the same context, ending with the same character (what a one-character look-behind of the next
token can see) -/
theorem suffixEq_after_region (s s' : Array Cp) (pre region region' post : List Cp)
    (h : s.toList = pre ++ region ++ post) (h' : s'.toList = pre ++ region' ++ post)
    (hne : region ≠ []) (hne' : region' ≠ []) (hlast : region.getLast? = region'.getLast?) :
    SuffixEq (defaultCfg.env s) (defaultCfg.env s') (pre.length + region.length) (pre.length + region'.length) := by
  have key : ∀ (t : Array Cp) (r : List Cp) (hr : r ≠ []), t.toList = pre ++ r ++ post →
      (defaultCfg.env t).s.toList.drop (pre.length + r.length - 1) = r.getLast hr :: post := by
    intro t r hr ht
    show t.toList.drop _ = _
    have hsplit : r = r.dropLast ++ [r.getLast hr] := (List.dropLast_concat_getLast hr).symm
    have hlen : pre.length + r.length - 1 = (pre ++ r.dropLast).length := by
      have := congrArg List.length hsplit
      simp at this ⊢; omega
    rw [hlen, ht]
    conv => lhs; rw [hsplit]
    simp [List.append_assoc]
  have hl1 : 1 ≤ region.length := List.length_pos_iff.mpr hne
  have hl2 : 1 ≤ region'.length := List.length_pos_iff.mpr hne'
  refine ⟨by omega, by omega, ?_, rfl, rfl⟩
  rw [key s region hne h, key s' region' hne' h']
  have e1 := List.getLast?_eq_some_getLast hne
  have e2 := List.getLast?_eq_some_getLast hne'
  rw [e1, e2] at hlast
  injection hlast with hlast
  rw [hlast]

/-- **the region's body does not influence any other token.**  Two texts `pre ++ region ++ post` and `pre ++ region' ++ post` with regions
of the same kind (same token type) that end with the same character; if the tokens before the region are the same in both (`before`,
spelling `pre`) — which can only fail when an unterminated construct in `pre` swallows part of the region — then the two token lists are
`before ++ [region token] ++ after` with the *same* `after`: lexing restarts at the end of the region and sees, by look-behind, only its
last character. -/
theorem region_body_irrelevant (s s' : Array Cp) (pre region region' post : List Cp) (ty : TType)
    (h : s.toList = pre ++ region ++ post) (h' : s'.toList = pre ++ region' ++ post)
    (hreg : Region pre post region ty) (hreg' : Region pre post region' ty)
    (hlast : region.getLast? = region'.getLast?)
    (ts ts' : List Tok) (hl : lex defaultCfg s = .ok ts) (hl' : lex defaultCfg s' = .ok ts')
    (before : List Tok) (hb : before <+: ts) (hb' : before <+: ts') (hlen : textLen before = pre.length) :
    ∃ after, ts = before ++ ⟨ty, region⟩ :: after ∧ ts' = before ++ ⟨ty, region'⟩ :: after := by
  obtain ⟨rest, hrest⟩ := hb
  obtain ⟨rest', hrest'⟩ := hb'
  have hsc := lex_default_scan s ts hl
  have hsc' := lex_default_scan s' ts' hl'
  rw [← hrest] at hsc
  rw [← hrest'] at hsc'
  have h1 := scan_append _ _ before 0 rest hsc
  have h1' := scan_append _ _ before 0 rest' hsc'
  rw [Nat.zero_add, hlen] at h1 h1'
  obtain ⟨after, ha, hsa⟩ := scan_region s pre region post ty h hreg rest h1
  obtain ⟨after', ha', hsa'⟩ := scan_region s' pre region' post ty h' hreg' rest' h1'
  have H := suffixEq_after_region s s' pre region region' post h h' hreg.nonempty hreg'.nonempty hlast
  have hshift := scan_shift defaultCfg H rules_lb1 _ after hsa (Nat.le_refl _)
  have hsh : shp (pre.length + region.length) (pre.length + region'.length) (pre.length + region.length)
      = pre.length + region'.length := by unfold shp; omega
  rw [hsh] at hshift
  have := scan_unique _ _ _ _ hshift after' hsa'
  subst this
  exact ⟨after, by rw [← hrest, ha], by rw [← hrest', ha']⟩

/-- **a `;` (or anything else) inside a region does not change the partition.**  Under the hypotheses of `region_body_irrelevant`, the
statements of the two texts have identical extents (token counts): in particular the same number of statements, and the region token sits
in the statement with the same index. -/
theorem semicolon_in_region_does_not_split (s s' : Array Cp) (pre region region' post : List Cp) (ty : TType)
    (h : s.toList = pre ++ region ++ post) (h' : s'.toList = pre ++ region' ++ post)
    (hreg : Region pre post region ty) (hreg' : Region pre post region' ty)
    (hlast : region.getLast? = region'.getLast?)
    (ts ts' : List Tok) (hl : lex defaultCfg s = .ok ts) (hl' : lex defaultCfg s' = .ok ts')
    (before : List Tok) (hb : before <+: ts) (hb' : before <+: ts') (hlen : textLen before = pre.length) :
    partitionLens (lexSplit s) = partitionLens (lexSplit s') := by
  obtain ⟨after, e1, e2⟩ := region_body_irrelevant s s' pre region region' post ty h h' hreg hreg' hlast ts ts' hl hl'
    before hb hb' hlen
  unfold lexSplit
  rw [hl, hl', e1, e2]
  exact split_value_irrelevant defaultSplitCfg _ _ (sameView_mid ⟨ty, region⟩ ⟨ty, region'⟩ rfl hreg.ty_facts.2 after before)

/-- the case of a region at the very start of the text needs no hypothesis about the tokens before it -/
theorem semicolon_in_leading_region_does_not_split (s s' : Array Cp) (region region' post : List Cp) (ty : TType)
    (h : s.toList = region ++ post) (h' : s'.toList = region' ++ post)
    (hreg : Region [] post region ty) (hreg' : Region [] post region' ty)
    (hlast : region.getLast? = region'.getLast?) :
    partitionLens (lexSplit s) = partitionLens (lexSplit s') := by
  obtain ⟨ts, hl, _⟩ := lex_scan defaultCfg defaultRulesOK s
  obtain ⟨ts', hl', _⟩ := lex_scan defaultCfg defaultRulesOK s'
  exact semicolon_in_region_does_not_split s s' [] region region' post ty (by simpa using h) (by simpa using h') hreg hreg'
    hlast ts ts' hl hl' [] (List.nil_prefix) (List.nil_prefix) rfl

end Sql
