import SqlProofs.ReindentLift
import SqlProofs.FilterTotal
/-!
# SqlProofs.ReindentLiftCase — the `Case` side condition of `ReindentLift` always holds

`_process_case` puts its line breaks in front of `cond[0]` (or `value[0]` when `cond is None`) of every case but the first.
`Case.get_cases` opens a new case only at a `WHEN` (condition list starts with that keyword) or an `ELSE` (no condition,
value list starts with that keyword); everything else is appended at the END of the lists of the last case.  So those
children are `WHEN`/`ELSE` keywords, which no split word matches: `caseTargetsOK_true`, and `liftSide_case`:
the side condition of a `Case` group is just the list hypothesis.
-/
set_option linter.unusedSimpArgs false
set_option linter.unusedVariables false
namespace Sql

/-- a case that was opened by `WHEN` / `ELSE`: its first condition (value) child is that keyword, a child of `tl0` -/
def Headed (tl0 : TL) (cv : Option TL × TL) : Prop :=
  (∃ x r, cv.1 = some (x :: r) ∧ x ∈ tl0 ∧ x.2.matchKw "WHEN" = true) ∨
  (cv.1 = none ∧ ∃ x r, cv.2 = x :: r ∧ x ∈ tl0 ∧ x.2.matchKw "ELSE" = true)

def TailHeaded (tl0 : TL) (ret : List (Option TL × TL)) : Prop := ∀ cv ∈ ret.tail, Headed tl0 cv

theorem caseAppend_snoc_val (x : Nat × FNode) (c : Option TL) (v : TL) :
    ∀ (ret : List (Option TL × TL)), caseAppend false x (ret ++ [(c, v)]) = .ok (ret ++ [(c, v ++ [x])])
  | [] => by simp [caseAppend]
  | e :: ret => by
    have ih := caseAppend_snoc_val x c v ret
    cases hr : ret ++ [(c, v)] with
    | nil => simp at hr
    | cons e2 r2 =>
      rw [hr] at ih
      simp only [List.cons_append, hr, caseAppend, ih, Except.map]

theorem caseAppend_snoc_cond (x : Nat × FNode) (cl v : TL) :
    ∀ (ret : List (Option TL × TL)), caseAppend true x (ret ++ [(some cl, v)]) = .ok (ret ++ [(some (cl ++ [x]), v)])
  | [] => by simp [caseAppend]
  | e :: ret => by
    have ih := caseAppend_snoc_cond x cl v ret
    cases hr : ret ++ [(some cl, v)] with
    | nil => simp at hr
    | cons e2 r2 =>
      rw [hr] at ih
      simp only [List.cons_append, hr, caseAppend, ih, Except.map]

theorem caseAppend_snoc_none (x : Nat × FNode) (v : TL) :
    ∀ (ret : List (Option TL × TL)), caseAppend true x (ret ++ [(none, v)]) = .error .attributeError
  | [] => by simp [caseAppend]
  | e :: ret => by
    have ih := caseAppend_snoc_none x v ret
    cases hr : ret ++ [(none, v)] with
    | nil => simp at hr
    | cons e2 r2 =>
      rw [hr] at ih
      simp only [List.cons_append, hr, caseAppend, ih, Except.map]

theorem tail_snoc {α : Type} (l : List α) (a : α) (h : l ≠ []) : (l ++ [a]).tail = l.tail ++ [a] := by
  cases l with
  | nil => exact absurd rfl h
  | cons b r => rfl

theorem tailHeaded_snoc (tl0 : TL) (ret : List (Option TL × TL)) (cv : Option TL × TL) (h : TailHeaded tl0 ret)
    (hcv : ret ≠ [] → Headed tl0 cv) : TailHeaded tl0 (ret ++ [cv]) := by
  intro e he
  cases ret with
  | nil => simp at he
  | cons b r =>
    rw [tail_snoc _ _ (by simp)] at he
    rw [List.mem_append, List.mem_singleton] at he
    rcases he with he | rfl
    · exact h e he
    · exact hcv (by simp)

theorem tailHeaded_init (tl0 : TL) (ret : List (Option TL × TL)) (cv : Option TL × TL) (h : TailHeaded tl0 (ret ++ [cv])) :
    TailHeaded tl0 ret ∧ (ret ≠ [] → Headed tl0 cv) := by
  cases ret with
  | nil => exact ⟨by intro e he; simp at he, fun h0 => absurd rfl h0⟩
  | cons b r =>
    constructor
    · intro e he
      apply h e
      rw [tail_snoc _ _ (by simp)]
      exact List.mem_append_left _ he
    · intro _
      apply h cv
      rw [tail_snoc _ _ (by simp)]
      exact List.mem_append_right _ (List.mem_singleton.mpr rfl)

/-- appending a child at the end of the last case keeps all the heads -/
theorem caseAppend_keep (tl0 : TL) (toCond : Bool) (x : Nat × FNode) (ret r : List (Option TL × TL))
    (h : caseAppend toCond x ret = .ok r) (ht : TailHeaded tl0 ret) : TailHeaded tl0 r := by
  rcases List.eq_nil_or_concat ret with rfl | ⟨init, last, rfl⟩
  · simp [caseAppend] at h
  · obtain ⟨c, v⟩ := last
    rw [List.concat_eq_append] at h ht
    obtain ⟨hi, hl⟩ := tailHeaded_init tl0 init (c, v) ht
    cases toCond with
    | false =>
      rw [caseAppend_snoc_val] at h
      simp only [Except.ok.injEq] at h
      rw [← h]
      apply tailHeaded_snoc tl0 init _ hi
      intro hne
      rcases hl hne with ⟨y, r', h1, h2, h3⟩ | ⟨h1, y, r', h2, h3, h4⟩
      · exact Or.inl ⟨y, r', h1, h2, h3⟩
      · refine Or.inr ⟨h1, y, r' ++ [x], ?_, h3, h4⟩
        simp only at h2 ⊢
        rw [h2]; rfl
    | true =>
      cases c with
      | none => rw [caseAppend_snoc_none] at h; cases h
      | some cl =>
        rw [caseAppend_snoc_cond] at h
        simp only [Except.ok.injEq] at h
        rw [← h]
        apply tailHeaded_snoc tl0 init _ hi
        intro hne
        rcases hl hne with ⟨y, r', h1, h2, h3⟩ | ⟨h1, _⟩
        · refine Or.inl ⟨y, r' ++ [x], ?_, h2, h3⟩
          simp only [Option.some.injEq] at h1 ⊢
          rw [h1]; rfl
        · cases h1

theorem tailHeaded_single (tl0 : TL) (cv : Option TL × TL) : TailHeaded tl0 [cv] := by
  intro e he; simp at he

theorem tailHeaded_nil (tl0 : TL) : TailHeaded tl0 [] := by
  intro e he; simp at he

/-- `ret2` of the loop body -/
theorem tailHeaded_ret2 (tl0 : TL) (b : Bool) (ret : List (Option TL × TL)) (h : TailHeaded tl0 ret) :
    TailHeaded tl0 (if b && ret.isEmpty then [(some [], [])] else ret) := by
  split
  · exact tailHeaded_single tl0 _
  · exact h

/-- the loop of `get_cases` keeps the heads of all cases but the first -/
theorem getCasesGo_tailHeaded (tl0 : TL) : ∀ (rest : TL) (mode : Nat) (ret out : List (Option TL × TL)),
    (∀ e ∈ rest, e ∈ tl0) → TailHeaded tl0 ret → getCasesGo false mode ret rest = .ok out → TailHeaded tl0 out
  | [], mode, ret, out, _, ht, h => by
    simp only [getCasesGo, Except.ok.injEq] at h
    rw [← h]; exact ht
  | x :: rest, mode, ret, out, hmem, ht, h => by
    have hx : x ∈ tl0 := hmem x (List.mem_cons_self ..)
    have hrest : ∀ e ∈ rest, e ∈ tl0 := fun e he => hmem e (List.mem_cons_of_mem _ he)
    have he : ∀ (a : Option TL × TL), (ret ++ [a]).isEmpty = false := by intro a; cases ret <;> rfl
    unfold getCasesGo at h
    simp only [Bool.false_and, Bool.false_eq_true, if_false] at h
    by_cases hcase : x.2.matchKw "CASE" = true
    · simp only [hcase, if_true] at h
      exact getCasesGo_tailHeaded tl0 rest mode ret out hrest ht h
    · simp only [hcase, Bool.false_eq_true, if_false] at h
      by_cases hwhen : x.2.matchKw "WHEN" = true
      · -- a new case headed by WHEN
        simp only [hwhen, if_true, he, Bool.and_false, Bool.false_eq_true, if_false, beq_self_eq_true] at h
        rw [caseAppend_snoc_cond] at h
        simp only [List.nil_append] at h
        apply getCasesGo_tailHeaded tl0 rest 1 _ out hrest _ h
        exact tailHeaded_snoc tl0 ret _ ht (fun _ => Or.inl ⟨x, [], rfl, hx, hwhen⟩)
      · simp only [hwhen, Bool.false_eq_true, if_false] at h
        by_cases hthen : x.2.matchKw "THEN" = true
        · simp only [hthen, if_true] at h
          have ht2 := tailHeaded_ret2 tl0 true ret ht
          simp only [Bool.true_and] at ht2
          have h20 : ((2 : Nat) != 0) = true := by decide
          have h21 : ((2 : Nat) == 1) = false := by decide
          simp only [h20, Bool.true_and, h21, Bool.false_eq_true, if_false, beq_self_eq_true, if_true] at h
          split at h
          · cases h
          · rename_i r hr
            exact getCasesGo_tailHeaded tl0 rest 2 r out hrest (caseAppend_keep tl0 false x _ r hr ht2) h
        · simp only [hthen, Bool.false_eq_true, if_false] at h
          by_cases helse : x.2.matchKw "ELSE" = true
          · have h21 : ((2 : Nat) == 1) = false := by decide
            simp only [helse, if_true, he, Bool.and_false, Bool.false_eq_true, if_false, h21, beq_self_eq_true] at h
            rw [caseAppend_snoc_val] at h
            simp only [List.nil_append] at h
            apply getCasesGo_tailHeaded tl0 rest 2 _ out hrest _ h
            exact tailHeaded_snoc tl0 ret _ ht (fun _ => Or.inr ⟨rfl, x, [], rfl, hx, helse⟩)
          · simp only [helse, Bool.false_eq_true, if_false] at h
            by_cases hend : x.2.matchKw "END" = true
            · simp only [hend, if_true, bne_self_eq_false, Bool.false_and, Bool.false_eq_true, if_false] at h
              have h01 : ((0 : Nat) == 1) = false := by decide
              have h02 : ((0 : Nat) == 2) = false := by decide
              simp only [h01, h02, Bool.false_eq_true, if_false] at h
              exact getCasesGo_tailHeaded tl0 rest 0 ret out hrest ht h
            · simp only [hend, Bool.false_eq_true, if_false] at h
              have ht2 := tailHeaded_ret2 tl0 (mode != 0) ret ht
              split at h
              · split at h
                · cases h
                · rename_i r hr
                  exact getCasesGo_tailHeaded tl0 rest mode r out hrest (caseAppend_keep tl0 true x _ r hr ht2) h
              · split at h
                · split at h
                  · cases h
                  · rename_i r hr
                    exact getCasesGo_tailHeaded tl0 rest mode r out hrest (caseAppend_keep tl0 false x _ r hr ht2) h
                · exact getCasesGo_tailHeaded tl0 rest mode _ out hrest ht2 h

/-! ## tags are unique -/

theorem tagFrom_ge : ∀ (ks : List FNode) (i : Nat) (e : Nat × FNode), e ∈ tagFrom i ks → i ≤ e.1
  | [], _, e, h => by simp [tagFrom] at h
  | k :: r, i, e, h => by
    simp only [tagFrom, List.mem_cons] at h
    rcases h with rfl | h
    · exact Nat.le_refl _
    · exact Nat.le_of_succ_le (tagFrom_ge r (i + 1) e h)

theorem tagFrom_unique : ∀ (ks : List FNode) (i : Nat) (e e' : Nat × FNode), e ∈ tagFrom i ks → e' ∈ tagFrom i ks →
    e.1 = e'.1 → e = e'
  | [], _, e, _, h, _, _ => by simp [tagFrom] at h
  | k :: r, i, e, e', h, h', ht => by
    simp only [tagFrom, List.mem_cons] at h h'
    rcases h with rfl | h <;> rcases h' with rfl | h'
    · rfl
    · have := tagFrom_ge r (i + 1) e' h'
      simp only at ht
      omega
    · have := tagFrom_ge r (i + 1) e h
      simp only at ht
      omega
    · exact tagFrom_unique r (i + 1) e e' h h' ht

theorem toOption_some {ε α : Type} (x : Except ε α) (a : α) (h : x.toOption = some a) : x = .ok a := by
  cases x with
  | error e => simp [Except.toOption] at h
  | ok b => simp only [Except.toOption, Option.some.injEq] at h; rw [h]

/-- **the `Case` side condition always holds**: the children in front of which `_process_case` breaks the line are `WHEN` /
`ELSE` keywords -/
theorem caseTargetsOK_true (ks : List FNode) : caseTargetsOK ks = true := by
  unfold caseTargetsOK caseTargets
  cases hg : getCases false (tagAll ks) with
  | error e => simp
  | ok cs =>
    cases cs with
    | nil => simp
    | cons c0 rest =>
      simp only [List.all_eq_true, List.mem_filterMap, Bool.or_eq_true, Bool.not_eq_true', beq_eq_false_iff_ne, ne_eq]
      rintro t ⟨cv, hcv, hto⟩ e he
      have hb := toOption_some _ _ hto
      have hth : TailHeaded (tagAll ks) (c0 :: rest) :=
        getCasesGo_tailHeaded (tagAll ks) (tagAll ks) 1 [] _ (fun _ h => h) (tailHeaded_nil _) hg
      have hh : Headed (tagAll ks) cv := hth cv hcv
      by_cases het : e.1 = t
      · right
        rcases hh with ⟨x, r, h1, h2, h3⟩ | ⟨h1, x, r, h2, h3, h4⟩
        · have : t = x.1 := by
            obtain ⟨c, v⟩ := cv
            simp only at h1
            subst h1
            simp only [caseBreakTag, Except.ok.injEq] at hb
            exact hb.symm
          have hex : e = x := tagFrom_unique ks 1 e x he h2 (by rw [het, this])
          rw [hex]; exact rIsSplit_when _ h3
        · have : t = x.1 := by
            obtain ⟨c, v⟩ := cv
            simp only at h1 h2
            subst h1 h2
            simp only [caseBreakTag, Except.ok.injEq] at hb
            exact hb.symm
          have hex : e = x := tagFrom_unique ks 1 e x he h3 (by rw [het, this])
          rw [hex]; exact rIsSplit_else _ h4
      · left; exact het

/-- the side condition of a `Case` group is just the list hypothesis -/
theorem liftSide_case (ks : List FNode) : liftSide .Case ks = selectedOK rIsSplit noBreakBefore 0 none ks := by
  simp [liftSide, caseTargetsOK_true]

/-- **C10, reindent clause, on the filter's domain.**  For a statement in `FilterSafe.reindent` that satisfies the side
conditions, `ReindentFilter.process` either runs out of stack (`RecursionError`, translated to SQLParseError by the caller) or
returns a tree in which, at every nesting level it looks into, every selected clause keyword directly follows an `nl()` token. -/
theorem reindent_statement_lift_safe (cfg : RCfg) (fuel : Nat) (st : RSt) (last : Option Text) (cv : Text) (ks : List FNode)
    (hs : FilterSafe.reindent false (.grp .Statement cv ks) = true) (hok : liftOK (.grp .Statement cv ks) = true) :
    reindentProcess cfg fuel st last (.grp .Statement cv ks) = .error .recursionError ∨
      ∃ n' st', reindentProcess cfg fuel st last (.grp .Statement cv ks) = .ok (n', st') ∧ brkOK n' = true := by
  cases h : reindentProcess cfg fuel st last (.grp .Statement cv ks) with
  | error e =>
    left
    rw [reindent_total cfg fuel st last _ hs e h]
  | ok r =>
    right
    exact ⟨r.1, r.2, rfl, reindent_statement_lift cfg fuel st last cv ks r.1 r.2 h hok⟩

end Sql
