import SqlProofs.LexScan
import SqlProofs.Lex.Shift
/-!
# SqlProofs.LexShift — the tokens after a scan position depend only on the text from one character before it

`scan_shift`: if two texts agree from `x1 - 1` resp. `x2 - 1` on, the scan chain from any position `q ≥ x1` of the first text is also the
scan chain from the corresponding position of the second (same token types, same values).  The one character of look-behind is what the
table's `(?<![\w"$])`, `(?<!\w)`, `(?<![\w\])])`, `(?<=\.)` and `\b` can see (`rules_lb1`).
-/
namespace Sql

/-- table obligation: every look-behind of the generated table is a one-character class -/
theorem rules_lb1 : (defaultCfg.rules.all fun r => lb1 r.re) = true := by decide +kernel

theorem drop_shift {E1 E2 : Env} {x1 x2 : Nat} (H : SuffixEq E1 E2 x1 x2) (q : Nat) (hq : x1 ≤ q) :
    E2.s.toList.drop (shp x1 x2 q) = E1.s.toList.drop q := by
  have h1 : E1.s.toList.drop q = (E1.s.toList.drop (x1 - 1)).drop (q - x1 + 1) := by
    rw [List.drop_drop]; congr 1; have := H.x1pos; omega
  have h2 : E2.s.toList.drop (shp x1 x2 q) = (E2.s.toList.drop (x2 - 1)).drop (q - x1 + 1) := by
    rw [List.drop_drop]; congr 1; have := H.x2pos; unfold shp; omega
  rw [h1, h2, H.text]

theorem scan_shift (cfg : LexCfg) {E1 E2 : Env} {x1 x2 : Nat} (H : SuffixEq E1 E2 x1 x2)
    (hlb : (cfg.rules.all fun r => lb1 r.re) = true) :
    ∀ (q : Nat) (ts : List Tok), Scan cfg E1 q ts → x1 ≤ q → Scan cfg E2 (shp x1 x2 q) ts := by
  have hsz := H.size
  have hx1 := H.x1pos
  have hx2 := H.x2pos
  intro q ts h
  induction h with
  | done p hp =>
    intro hq
    exact Scan.done _ (by unfold shp; omega)
  | err p c ts hc hfm _ ih =>
    intro hq
    have h1 : E2.s[shp x1 x2 p]? = some c := by rw [H.get p hq]; exact hc
    have h2 : firstMatch E2 cfg.rules (shp x1 x2 p) = none := by
      rw [firstMatch_shift H cfg.rules hlb p hq, hfm]; rfl
    have h3 := ih (by omega)
    have e : shp x1 x2 (p + 1) = shp x1 x2 p + 1 := by unfold shp; omega
    rw [e] at h3
    exact Scan.err _ c ts h1 h2 h3
  | tok p act e ts hpe hes hfm hact _ ih =>
    intro hq
    have h2 : firstMatch E2 cfg.rules (shp x1 x2 p) = some (act, shp x1 x2 e) := by
      rw [firstMatch_shift H cfg.rules hlb p hq, hfm]; rfl
    have hv : (E2.s.extract (shp x1 x2 p) (shp x1 x2 e)).toList = (E1.s.extract p e).toList := by
      rw [extract_toList, extract_toList, drop_shift H p hq]
      congr 1
      unfold shp; omega
    have h3 := Scan.tok (cfg := cfg) (E := E2) (shp x1 x2 p) act (shp x1 x2 e) ts (by unfold shp; omega) (by unfold shp; omega)
      h2 hact (ih (by omega))
    rw [hv] at h3
    exact h3

/-- the chain of scan steps from a position is unique -/
theorem scan_unique (cfg : LexCfg) (E : Env) : ∀ (q : Nat) (ts : List Tok), Scan cfg E q ts →
    ∀ ts', Scan cfg E q ts' → ts = ts' := by
  intro q ts h
  induction h with
  | done p hp =>
    intro ts' h'
    cases h' with
    | done _ _ => rfl
    | err _ c _ hc _ _ => have := (Array.getElem?_eq_some_iff.mp hc).1; omega
    | tok _ _ _ _ hpe hes _ _ _ => omega
  | err p c ts hc hfm _ ih =>
    intro ts' h'
    cases h' with
    | done _ hp => have := (Array.getElem?_eq_some_iff.mp hc).1; omega
    | err _ c' ts'' hc' _ hs' =>
      rw [hc] at hc'; injection hc' with hc'; subst hc'
      rw [ih ts'' hs']
    | tok _ _ _ _ _ _ hfm' _ _ => rw [hfm] at hfm'; simp at hfm'
  | tok p act e ts hpe hes hfm hact _ ih =>
    intro ts' h'
    cases h' with
    | done _ hp => omega
    | err _ _ _ _ hfm' _ => rw [hfm] at hfm'; simp at hfm'
    | tok _ act' e' ts'' _ _ hfm' _ hs' =>
      rw [hfm] at hfm'
      simp only [Option.some.injEq, Prod.mk.injEq] at hfm'
      obtain ⟨rfl, rfl⟩ := hfm'
      rw [ih ts'' hs']

/-- dropping a prefix of the chain moves the start by the length of the text it spells -/
theorem scan_append (cfg : LexCfg) (E : Env) : ∀ (a : List Tok) (q : Nat) (b : List Tok), Scan cfg E q (a ++ b) →
    Scan cfg E (q + textLen a) b := by
  intro a
  induction a with
  | nil => intro q b h; simpa [textLen] using h
  | cons t a ih =>
    intro q b h
    simp only [List.cons_append] at h
    cases h with
    | err _ c _ hc hfm hs =>
      have := ih (q + 1) b hs
      rw [textLen_cons]
      simpa [Nat.add_assoc] using this
    | tok _ act e _ hpe hes hfm hact hs =>
      have := ih e b hs
      rw [textLen_cons]
      simp only
      rw [extract_length E q e (by omega) hes]
      have he : q + (e - q + textLen a) = e + textLen a := by omega
      rw [he]; exact this

end Sql
