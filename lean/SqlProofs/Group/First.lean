import SqlProofs.Group.RwPasses
import SqlProofs.Group.GoodMatching
import SqlProofs.MatchSpec
/-!
# SqlProofs.Group.First — the first child of a bracket group is never a `Keyword` leaf

The companion of `lastOk` (Good.lean): `fgoodL` says that every Parenthesis/SquareBrackets group is non-empty and
its first child is not a leaf of type exactly `Keyword` (it is the opening bracket, or a group).  Together with
`lastOk` this is what makes `group_where` total: inside brackets it indexes `tokens[1:-1][-1]`, which exists as soon
as the WHERE keyword is neither the first nor the last child.
The invariant is preserved by every `Rw` step (hence by all passes other than `_group_matching`) and by the
textbook matcher (hence by the six matching passes).
-/
namespace Sql

/-- the first element, if any, is not a `Keyword` leaf -/
def firstOk (ks : List Node) : Bool :=
  match ks.head? with
  | some x => !x.isKwTok
  | none => true

mutual
def Node.fgood : Node → Bool
  | .tok _ _ => true
  | .grp c ks => (!innerCls c || (!ks.isEmpty && firstOk ks)) && fgoodL ks
def fgoodL : List Node → Bool
  | [] => true
  | k :: ks => k.fgood && fgoodL ks
end

/-- the children `ks` of a node of class `c` satisfy the first-child invariant -/
def FKids (c : Cls) (ks : List Node) : Prop := fgoodL ks = true ∧ (innerCls c = true → ks ≠ [] ∧ firstOk ks = true)

@[simp] theorem fgoodL_nil : fgoodL [] = true := by simp [fgoodL]
@[simp] theorem fgoodL_cons (k : Node) (ks : List Node) : fgoodL (k :: ks) = (k.fgood && fgoodL ks) := by simp [fgoodL]
@[simp] theorem fgood_tok (tt : TType) (v : Text) : (Node.tok tt v).fgood = true := by simp [Node.fgood]
theorem fgood_grp (c : Cls) (ks : List Node) :
    (Node.grp c ks).fgood = ((!innerCls c || (!ks.isEmpty && firstOk ks)) && fgoodL ks) := by simp [Node.fgood]

theorem fgood_grp_iff (c : Cls) (ks : List Node) :
    (Node.grp c ks).fgood = true ↔ FKids c ks := by
  simp only [fgood_grp, FKids, Bool.and_eq_true, Bool.or_eq_true, Bool.not_eq_true', List.isEmpty_eq_false_iff]
  constructor
  · rintro ⟨h1, h2⟩
    refine ⟨h2, fun hi => ?_⟩
    rcases h1 with h1 | h1
    · rw [h1] at hi; cases hi
    · exact h1
  · rintro ⟨h1, h2⟩
    refine ⟨?_, h1⟩
    cases hi : innerCls c with
    | false => exact Or.inl rfl
    | true => exact Or.inr (h2 hi)

theorem fgoodL_append (a b : List Node) : fgoodL (a ++ b) = (fgoodL a && fgoodL b) := by
  induction a with
  | nil => simp
  | cons k a ih => simp [ih, Bool.and_assoc]

theorem fgoodL_iff {ks : List Node} : fgoodL ks = true ↔ ∀ k ∈ ks, k.fgood = true := by
  induction ks with
  | nil => simp
  | cons x xs ih => simp [ih]

theorem fgoodL_take {ks : List Node} (h : fgoodL ks = true) (n : Nat) : fgoodL (ks.take n) = true :=
  fgoodL_iff.2 fun _ hk => fgoodL_iff.1 h _ (List.mem_of_mem_take hk)

theorem fgoodL_drop {ks : List Node} (h : fgoodL ks = true) (n : Nat) : fgoodL (ks.drop n) = true :=
  fgoodL_iff.2 fun _ hk => fgoodL_iff.1 h _ (List.mem_of_mem_drop hk)

theorem fgoodL_pySlice {ks : List Node} (h : fgoodL ks = true) (a b : Nat) : fgoodL (pySlice ks a b) = true := by
  unfold pySlice; exact fgoodL_drop (fgoodL_take h b) a

@[simp] theorem firstOk_nil : firstOk [] = true := by simp [firstOk]
@[simp] theorem firstOk_cons (x : Node) (xs : List Node) : firstOk (x :: xs) = !x.isKwTok := by simp [firstOk]

theorem firstOk_append_of_ne {a : List Node} (b : List Node) (ha : a ≠ []) : firstOk (a ++ b) = firstOk a := by
  cases a with
  | nil => exact absurd rfl ha
  | cons x xs => simp

theorem inner_six {c : Cls} (h : innerCls c = true) : sixCls c = true := by
  cases c <;> first | rfl | (exfalso; revert h; decide)

theorem inner_of_plain {c : Cls} (h : plainCls c = true) : innerCls c = false := by
  cases hi : innerCls c with
  | false => rfl
  | true =>
    have := inner_six hi
    simp [plainCls, this] at h

/-- the top-level facts about a list that an `Rw` step keeps -/
structure FStep (a b : List Node) : Prop where
  good : fgoodL a = true → fgoodL b = true
  first : a ≠ [] → firstOk a = true → b ≠ [] ∧ firstOk b = true
  nil : a = [] → b = []

theorem FStep.refl (a : List Node) : FStep a a := ⟨id, fun h1 h2 => ⟨h1, h2⟩, id⟩

theorem FStep.trans {a b c : List Node} (h1 : FStep a b) (h2 : FStep b c) : FStep a c :=
  ⟨fun h => h2.good (h1.good h), fun hn hf => let ⟨x, y⟩ := h1.first hn hf; h2.first x y, fun h => h2.nil (h1.nil h)⟩

theorem FStep.fkids {c : Cls} {a b : List Node} (h : FStep a b) (hk : FKids c a) : FKids c b :=
  ⟨h.good hk.1, fun hi => let ⟨x, y⟩ := hk.2 hi; h.first x y⟩

theorem first_splice {ks : List Node} {a : Nat} (e : Nat) (c : Cls) (kids : List Node)
    (hne : ks ≠ []) (hf : firstOk ks = true) :
    (ks.take a ++ Node.grp c kids :: ks.drop e) ≠ [] ∧ firstOk (ks.take a ++ Node.grp c kids :: ks.drop e) = true := by
  refine ⟨by simp, ?_⟩
  cases a with
  | zero => simp [Node.isKwTok]
  | succ a =>
    cases ks with
    | nil => exact absurd rfl hne
    | cons x xs => simpa using hf

/-- splicing a group into the list at a position in range -/
theorem fstep_splice {ks : List Node} {a e : Nat} {c : Cls} {kids : List Node} (ha : a < ks.length)
    (hg : fgoodL ks = true → (Node.grp c kids).fgood = true) :
    FStep ks (ks.take a ++ Node.grp c kids :: ks.drop e) := by
  refine ⟨?_, ?_, ?_⟩
  · intro h
    simp [fgoodL_append, fgoodL_take h, fgoodL_drop h, hg h]
  · intro hne hf
    refine ⟨by simp, ?_⟩
    cases a with
    | zero => simp [Node.isKwTok]
    | succ a =>
      cases ks with
      | nil => exact absurd rfl hne
      | cons x xs => simpa using hf
  · intro h; subst h; simp at ha

theorem groupTokens'_fstep {ks : List Node} {cls : Cls} {a b : Nat} {ie ext : Bool} {r : List Node × Node}
    (h : groupTokens' ks cls a b ie ext = .ok r)
    (hcls : innerCls cls = false) : FStep ks r.1 := by
  rcases groupTokens'_cases h with ⟨c, kids, _, hst, hinst, rfl⟩ | ⟨hlt, _, rfl⟩
  · have hlt : a < ks.length := (List.getElem?_eq_some_iff.1 hst).1
    refine fstep_splice hlt ?_
    intro hg
    have hk := fgoodL_iff.1 hg _ (List.mem_of_getElem? hst)
    rw [fgood_grp_iff] at hk ⊢
    refine ⟨by simp [fgoodL_append, hk.1, fgoodL_pySlice hg], fun hi => ?_⟩
    obtain ⟨hne, hf⟩ := hk.2 hi
    exact ⟨by simp [hne], by rw [firstOk_append_of_ne _ hne]; exact hf⟩
  · refine fstep_splice hlt ?_
    intro hg
    rw [fgood_grp_iff]
    exact ⟨fgoodL_pySlice hg _ _, fun hi => by rw [hcls] at hi; cases hi⟩

/-- **every `Rw` sequence keeps the first-child invariant** -/
theorem Rw.fstep {al : Bool} {ks ks' : List Node} (h : Rw al ks ks') : FStep ks ks' := by
  induction h with
  | refl ks => exact FStep.refl ks
  | trans _ _ ih1 ih2 => exact ih1.trans ih2
  | group h hp => exact groupTokens'_fstep h (inner_of_plain hp)
  | align _ h => exact groupTokens'_fstep h (by decide)
  | @retype ks i x hx =>
    have hlt : i < ks.length := (List.getElem?_eq_some_iff.1 hx).1
    have hset : ks.set i (x.setTType T.Operator) = ks.take i ++ x.setTType T.Operator :: ks.drop (i + 1) :=
      List.set_eq_take_append_cons_drop.trans (by simp [hlt])
    rw [hset]
    cases x with
    | tok tt v =>
      refine ⟨?_, ?_, ?_⟩
      · intro h; simp [fgoodL_append, fgoodL_take h, fgoodL_drop h, Node.setTType]
      · intro hne hf
        refine ⟨by simp, ?_⟩
        cases i with
        | zero => simp [Node.setTType, Node.isKwTok]; decide
        | succ i =>
          cases ks with
          | nil => exact absurd rfl hne
          | cons y ys => simpa using hf
      · intro h; subst h; simp at hlt
    | grp c kids =>
      exact fstep_splice hlt (fun hg => fgoodL_iff.1 hg _ (List.mem_of_getElem? hx))
  | @inside c kids kids' _ ih =>
    refine ⟨?_, fun _ _ => ⟨by simp, by simp [Node.isKwTok]⟩, fun h => by simp at h⟩
    intro h
    simp only [fgoodL_cons, fgoodL_nil, Bool.and_true] at h ⊢
    rw [fgood_grp_iff] at h ⊢
    exact ih.fkids h
  | @ctx a b pre post _ ih =>
    refine ⟨?_, ?_, ?_⟩
    · intro h
      simp only [fgoodL_append, Bool.and_eq_true] at h ⊢
      exact ⟨⟨h.1.1, ih.good h.1.2⟩, h.2⟩
    · intro hne hf
      cases pre with
      | cons p ps => exact ⟨by simp, by simpa using hf⟩
      | nil =>
        simp only [List.nil_append] at hne hf ⊢
        by_cases ha : a = []
        · have hb := ih.nil ha
          subst ha; subst hb
          exact ⟨hne, hf⟩
        · rw [firstOk_append_of_ne _ ha] at hf
          obtain ⟨hb, hfb⟩ := ih.first ha hf
          exact ⟨by simp [hb], by rw [firstOk_append_of_ne _ hb]; exact hfb⟩
    · intro h
      simp only [List.append_eq_nil_iff] at h ⊢
      exact ⟨⟨h.1.1, ih.nil h.1.2⟩, h.2⟩

/-- a pass keeps the first-child invariant -/
def PassF (p : Pass) : Prop := ∀ fuel c ks ks', p fuel c ks = .ok ks' → FKids c ks → FKids c ks'

theorem passF_of_rw {al : Bool} {p : Pass} (h : PassRw al p) : PassF p :=
  fun fuel c ks ks' hk hf => (h fuel c ks ks' hk).fstep.fkids hf

/-! ### the matching passes, through the textbook matcher -/
theorem matchStep_fstep {upper : Text → Text} {cls : Cls} {mOpen mClose : List MPat} {st st' : MatchSt} {idx : Nat}
    {token : Node} (h : matchStep upper cls mOpen mClose st idx token = .ok st') :
    (st.cur ≠ [] → firstOk st.cur = true → st'.cur ≠ [] ∧ firstOk st'.cur = true) := by
  intro hne hf
  unfold matchStep at h
  simp only at h
  split at h
  · cases h; exact ⟨hne, hf⟩
  · split at h
    · cases h; exact ⟨hne, hf⟩
    · split at h
      · cases h; exact ⟨hne, hf⟩
      · split at h
        · split at h
          · cases h; exact ⟨hne, hf⟩
          · split at h
            · cases h
            · rename_i cur' hg
              cases h
              obtain ⟨r, hr, rfl⟩ := groupTokens_eq hg
              rcases groupTokens'_cases hr with ⟨c, kids, _, hst, _, rfl⟩ | ⟨hlt, _, rfl⟩
              · exact first_splice _ _ _ hne hf
              · exact first_splice _ _ _ hne hf
        · cases h; exact ⟨hne, hf⟩

theorem matchLoop_first {upper : Text → Text} {cls : Cls} {mOpen mClose : List MPat} :
    ∀ (snap : List Node) (idx : Nat) (st st' : MatchSt), matchLoop upper cls mOpen mClose snap idx st = .ok st' →
      st.cur ≠ [] → firstOk st.cur = true → st'.cur ≠ [] ∧ firstOk st'.cur = true := by
  intro snap
  induction snap with
  | nil => intro idx st st' h hne hf; simp [matchLoop] at h; subst h; exact ⟨hne, hf⟩
  | cons token snap ih =>
    intro idx st st' h hne hf
    simp only [matchLoop] at h
    cases hs : matchStep upper cls mOpen mClose st idx token with
    | error e => simp [hs] at h
    | ok st1 =>
      simp only [hs] at h
      obtain ⟨h1, h2⟩ := matchStep_fstep hs hne hf
      exact ih _ _ _ h h1 h2

theorem specMatch_first {upper : Text → Text} {cls : Cls} {mOpen mClose : List MPat} {ts : List Node}
    (hne : ts ≠ []) (hf : firstOk ts = true) :
    specMatch (isOpenTok upper cls mOpen) (isCloseTok upper cls mOpen mClose) cls ts ≠ [] ∧
      firstOk (specMatch (isOpenTok upper cls mOpen) (isCloseTok upper cls mOpen mClose) cls ts) = true := by
  obtain ⟨st, hst⟩ := matchLoop_total upper cls mOpen mClose ts
  rw [← matchLoop_eq_spec hst]
  exact matchLoop_first _ _ _ _ hst hne hf

/-- a node of the matcher's result is good when the input elements are -/
theorem Shape.fgood {upper : Text → Text} {cls : Cls} {mOpen mClose : List MPat}
    (hopen : innerCls cls = true → ∀ p ∈ mOpen, p.tt ≠ T.Keyword) {ts : List Node}
    (hts : fgoodL ts = true) {g : Node}
    (h : Shape (isOpenTok upper cls mOpen) (isCloseTok upper cls mOpen mClose) cls ts g) : g.fgood = true := by
  induction h with
  | old hk => exact fgoodL_iff.1 hts _ hk
  | @new o c mid ho hc hoo hcc _ ih =>
    rw [fgood_grp_iff]
    refine ⟨?_, fun hi => ⟨by simp, ?_⟩⟩
    · rw [fgoodL_iff]
      intro k hk
      simp only [List.mem_cons, List.mem_append, List.not_mem_nil, or_false] at hk
      rcases hk with rfl | hk | rfl
      · exact fgoodL_iff.1 hts _ ho
      · exact ih k hk
      · exact fgoodL_iff.1 hts _ hc
    · simp only [firstOk_cons, Bool.not_eq_true']
      obtain ⟨tt, v, rfl, hm⟩ := isOpenTok_leaf hoo
      exact not_isKwTok_of_match (hopen hi) hm

theorem specMatch_fkids {upper : Text → Text} {cls : Cls} {mOpen mClose : List MPat}
    (hopen : innerCls cls = true → ∀ p ∈ mOpen, p.tt ≠ T.Keyword) {c : Cls} {ts : List Node} (h : FKids c ts) :
    FKids c (specMatch (isOpenTok upper cls mOpen) (isCloseTok upper cls mOpen mClose) cls ts) := by
  refine ⟨?_, fun hi => ?_⟩
  · rw [fgoodL_iff]
    intro g hg
    exact Shape.fgood hopen h.1 (specMatch_shape hg)
  · obtain ⟨hne, hf⟩ := h.2 hi
    exact specMatch_first hne hf

mutual
theorem specRecNode_fgood {upper : Text → Text} {cls : Cls} {mOpen mClose : List MPat}
    (hopen : innerCls cls = true → ∀ p ∈ mOpen, p.tt ≠ T.Keyword) :
    (k : Node) → k.fgood = true →
      (specRecNode (isOpenTok upper cls mOpen) (isCloseTok upper cls mOpen mClose) cls k).fgood = true ∧
      (specRecNode (isOpenTok upper cls mOpen) (isCloseTok upper cls mOpen mClose) cls k).isKwTok = k.isKwTok
  | .tok tt v, _ => by simp [specRecNode]
  | .grp c ks, h => by
    simp only [specRecNode]
    split
    · exact ⟨h, rfl⟩
    · refine ⟨?_, rfl⟩
      rw [fgood_grp_iff] at h ⊢
      exact specMatch_fkids hopen (specRecList_fkids hopen ks c h)
theorem specRecList_fkids {upper : Text → Text} {cls : Cls} {mOpen mClose : List MPat}
    (hopen : innerCls cls = true → ∀ p ∈ mOpen, p.tt ≠ T.Keyword) :
    (ks : List Node) → (c : Cls) → FKids c ks →
      FKids c (specRecList (isOpenTok upper cls mOpen) (isCloseTok upper cls mOpen mClose) cls ks)
  | [], _, h => by simpa [specRecList] using h
  | k :: ks, c, h => by
    obtain ⟨hg, hfirst⟩ := h
    simp only [fgoodL_cons, Bool.and_eq_true] at hg
    obtain ⟨h1, h2⟩ := specRecNode_fgood (upper := upper) (mClose := mClose) hopen k hg.1
    have h3 := specRecList_fkids (upper := upper) (mClose := mClose) hopen ks .Statement ⟨hg.2, fun hi => by cases hi⟩
    refine ⟨by simp [specRecList, h1, h3.1], fun hi => ⟨by simp [specRecList], ?_⟩⟩
    have := (hfirst hi).2
    simp only [firstOk_cons] at this
    simp [specRecList, h2, this]
end

/-- the six matching passes keep the first-child invariant -/
theorem groupMatching_passF {upper : Text → Text} {cls : Cls} {mOpen mClose : List MPat}
    (hopen : innerCls cls = true → ∀ p ∈ mOpen, p.tt ≠ T.Keyword) {fuel : Nat} {c : Cls} {ks ks' : List Node}
    (h : groupMatching upper cls mOpen mClose fuel ks = .ok ks') (hk : FKids c ks) : FKids c ks' := by
  rw [groupMatching_eq_spec fuel ks ks' h, specMatchRec]
  exact specMatch_fkids hopen (specRecList_fkids hopen ks c hk)

end Sql
