import SqlModel.Grouping
import SqlProofs.Group.Basic
/-!
# SqlProofs.Group.Rw — every pass other than the six `_group_matching` passes is a sequence of elementary rewrites

`Rw al ks ks'`: `ks'` is obtained from the child list `ks` by finitely many steps, each of which is
* `group`  — one `group_tokens` call whose class is neither one of the six bracket/block classes nor `TokenList`
             (any indexes, either branch);
* `align`  — one `group_tokens(TokenList, …, extend=True)` call (only `align_comments`; allowed iff `al`);
* `retype` — `tlist[i].ttype = T.Operator`;
* `inside` — steps on the children of a group child;
* `ctx`    — steps on a segment of the list.
Properties that every elementary step preserves (leaves up to `LeafRel`, the first-child invariant of
`GroupTotal`, the bracket/block groups of `BracketsKept`) are then proved once, by induction on `Rw`.
-/
namespace Sql

/-- the six classes built by `_group_matching` (from the generated wrappers) -/
def sixCls (c : Cls) : Bool :=
  [Gen.group_brackets_matchingCls, Gen.group_parenthesis_matchingCls, Gen.group_case_matchingCls,
   Gen.group_if_matchingCls, Gen.group_for_matchingCls, Gen.group_begin_matchingCls].contains c

/-- a class whose `group_tokens` calls can neither create nor extend a bracket/block group -/
def plainCls (c : Cls) : Bool := !sixCls c && c != .TokenList

inductive Rw (al : Bool) : List Node → List Node → Prop
  | refl (ks : List Node) : Rw al ks ks
  | trans {a b c : List Node} : Rw al a b → Rw al b c → Rw al a c
  | group {ks : List Node} {cls : Cls} {a b : Nat} {ie ext : Bool} {r : List Node × Node} :
      groupTokens' ks cls a b ie ext = .ok r → plainCls cls = true → Rw al ks r.1
  | align {ks : List Node} {a b : Nat} {ie : Bool} {r : List Node × Node} :
      al = true → groupTokens' ks .TokenList a b ie true = .ok r → Rw al ks r.1
  | retype {ks : List Node} {i : Nat} {x : Node} : ks[i]? = some x → Rw al ks (ks.set i (x.setTType T.Operator))
  | inside {c : Cls} {kids kids' : List Node} : Rw al kids kids' → Rw al [Node.grp c kids] [Node.grp c kids']
  | ctx {a b : List Node} (pre post : List Node) : Rw al a b → Rw al (pre ++ a ++ post) (pre ++ b ++ post)

theorem Rw.mono {ks ks' : List Node} (h : Rw false ks ks') : Rw true ks ks' := by
  induction h with
  | refl ks => exact .refl ks
  | trans _ _ ih1 ih2 => exact .trans ih1 ih2
  | group h hp => exact .group h hp
  | align hal _ => cases hal
  | retype h => exact .retype h
  | inside _ ih => exact .inside ih
  | ctx pre post _ ih => exact .ctx pre post ih

theorem Rw.cons {al : Bool} {a b : List Node} (k : Node) (h : Rw al a b) : Rw al (k :: a) (k :: b) := by
  have := Rw.ctx (al := al) [k] [] h
  simpa using this

theorem Rw.head {al : Bool} {c : Cls} {kids kids' : List Node} (rest : List Node) (h : Rw al kids kids') :
    Rw al (Node.grp c kids :: rest) (Node.grp c kids' :: rest) := by
  have := Rw.ctx (al := al) [] rest (Rw.inside (c := c) h)
  simpa using this

theorem groupTokens_rw {al : Bool} {ks ks' : List Node} {cls : Cls} {a b : Nat} {ie ext : Bool}
    (h : groupTokens ks cls a b ie ext = .ok ks') (hp : plainCls cls = true) : Rw al ks ks' := by
  unfold groupTokens at h
  split at h
  · rename_i r hr; cases h; exact .group hr hp
  · cases h

theorem groupTokens_rw_align {ks ks' : List Node} {a b : Nat} {ie : Bool}
    (h : groupTokens ks .TokenList a b ie true = .ok ks') : Rw true ks ks' := by
  unfold groupTokens at h
  split at h
  · rename_i r hr; cases h; exact .align rfl hr
  · cases h

/-! ### recursion into sub-groups -/
def KidsRw (al : Bool) (f : Cls → List Node → Except PyErr (List Node)) : Prop :=
  ∀ c ks ks', f c ks = .ok ks' → Rw al ks ks'

def PassRw (al : Bool) (p : Pass) : Prop := ∀ fuel, KidsRw al (p fuel)

theorem mapGroups_rw {al : Bool} {elig : Node → Bool} {f} (hf : KidsRw al f) :
    ∀ ks ks', mapGroups elig f ks = .ok ks' → Rw al ks ks' := by
  intro ks
  induction ks with
  | nil => intro ks' h; simp [mapGroups] at h; subst h; exact .refl _
  | cons k rest ih =>
    intro ks' h
    cases k with
    | tok tt v =>
      simp only [mapGroups] at h
      cases hr : mapGroups elig f rest with
      | error e => simp [hr] at h
      | ok rest' =>
        simp only [hr, Except.ok.injEq] at h
        subst h
        exact (ih _ hr).cons _
    | grp c kids =>
      simp only [mapGroups] at h
      by_cases he : elig (.grp c kids) = true
      · rw [if_pos he] at h
        cases hk : f c kids with
        | error e => simp [hk] at h
        | ok kids' =>
          simp only [hk] at h
          cases hr : mapGroups elig f rest with
          | error e => simp [hr] at h
          | ok rest' =>
            simp only [hr, Except.ok.injEq] at h
            subst h
            exact .trans (Rw.head rest (hf _ _ _ hk)) ((ih _ hr).cons _)
      · rw [if_neg he] at h
        cases hr : mapGroups elig f rest with
        | error e => simp [hr] at h
        | ok rest' =>
          simp only [hr, Except.ok.injEq] at h
          subst h
          exact (ih _ hr).cons _

theorem mapGroupsWhere_rw {al : Bool} {f} (hf : KidsRw al f) :
    ∀ bs ks ks', mapGroupsWhere f bs ks = .ok ks' → Rw al ks ks' := by
  intro bs ks
  induction ks generalizing bs with
  | nil => intro ks' h; simp [mapGroupsWhere] at h; subst h; exact .refl _
  | cons k rest ih =>
    intro ks' h
    cases bs with
    | nil => simp [mapGroupsWhere] at h; subst h; exact .refl _
    | cons b bs =>
      cases k with
      | tok tt v =>
        simp only [mapGroupsWhere] at h
        cases hr : mapGroupsWhere f bs rest with
        | error e => simp [hr] at h
        | ok rest' =>
          simp only [hr, Except.ok.injEq] at h
          subst h
          exact (ih _ _ hr).cons _
      | grp c kids =>
        simp only [mapGroupsWhere] at h
        by_cases hb : b = true
        · rw [if_pos hb] at h
          cases hk : f c kids with
          | error e => simp [hk] at h
          | ok kids' =>
            simp only [hk] at h
            cases hr : mapGroupsWhere f bs rest with
            | error e => simp [hr] at h
            | ok rest' =>
              simp only [hr, Except.ok.injEq] at h
              subst h
              exact .trans (Rw.head rest (hf _ _ _ hk)) ((ih _ _ hr).cons _)
        · rw [if_neg hb] at h
          cases hr : mapGroupsWhere f bs rest with
          | error e => simp [hr] at h
          | ok rest' =>
            simp only [hr, Except.ok.injEq] at h
            subst h
            exact (ih _ _ hr).cons _

theorem recursePass_rw {al : Bool} {skip : List Cls} {f} (hf : KidsRw al f) : PassRw al (recursePass skip f) := by
  intro fuel
  induction fuel with
  | zero => intro c ks ks' h; simp [recursePass] at h
  | succ n ih =>
    intro c ks ks' h
    simp only [recursePass] at h
    cases hm : mapGroups (fun k => !k.isInstAny skip) (recursePass skip f n) ks with
    | error e => simp [hm] at h
    | ok ks1 =>
      simp only [hm] at h
      exact .trans (mapGroups_rw ih _ _ hm) (hf _ _ _ h)

/-! ### the nine loop passes -/
/-- after unfolding one iteration into `h`: each branch is an error, the recursive call on the same list, or the
recursive call after one `groupTokens` (whose class is read off the generated constant) -/
macro "rw_step" h:ident ih:ident : tactic => `(tactic| (
  repeat' (split at $h:ident)
  all_goals first
    | (cases $h:ident; done)
    | (cases $h:ident; exact Rw.refl _)
    | exact $ih _ _ _ $h
    | (refine Rw.trans (groupTokens_rw ‹_› (by decide)) ($ih _ _ _ $h))
    | (refine Rw.trans (groupTokens_rw_align ‹_›) ($ih _ _ _ $h))))

macro "loop_rw" f:ident : tactic => `(tactic| (
  intro n
  induction n with
  | zero =>
    intro ks pend ks' h
    cases pend with
    | none => simp [$f:ident] at h; subst h; exact Rw.refl _
    | some p => simp [$f:ident] at h
  | succ n ih =>
    intro ks pend ks' h
    cases pend with
    | none => simp [$f:ident] at h; subst h; exact Rw.refl _
    | some p =>
      obtain ⟨tidx, tok⟩ := p
      simp only [$f:ident] at h
      rw_step h ih))

theorem identifierLoop_rw {u : Text → Text} : ∀ (n : Nat) (ks : List Node) (pend : Option (Nat × Node))
    (ks' : List Node), identifierLoop u n ks pend = .ok ks' → Rw false ks ks' := by
  loop_rw identifierLoop

theorem overLoop_rw {u : Text → Text} : ∀ (n : Nat) (ks : List Node) (pend : Option (Nat × Node))
    (ks' : List Node), overLoop u n ks pend = .ok ks' → Rw false ks ks' := by
  loop_rw overLoop

theorem commentsLoop_rw {u : Text → Text} : ∀ (n : Nat) (ks : List Node) (pend : Option (Nat × Node))
    (ks' : List Node), commentsLoop u n ks pend = .ok ks' → Rw false ks ks' := by
  loop_rw commentsLoop

theorem whereLoop_rw {u : Text → Text} {c : Cls} : ∀ (n : Nat) (ks : List Node) (pend : Option (Nat × Node))
    (ks' : List Node), whereLoop u c n ks pend = .ok ks' → Rw false ks ks' := by
  loop_rw whereLoop

theorem aliasedLoop_rw {u : Text → Text} : ∀ (n : Nat) (ks : List Node) (pend : Option (Nat × Node))
    (ks' : List Node), aliasedLoop u n ks pend = .ok ks' → Rw false ks ks' := by
  loop_rw aliasedLoop

theorem functionsLoop_rw {u : Text → Text} : ∀ (n : Nat) (ks : List Node) (pend : Option (Nat × Node))
    (ks' : List Node), functionsLoop u n ks pend = .ok ks' → Rw false ks ks' := by
  loop_rw functionsLoop

theorem orderLoop_rw {u : Text → Text} : ∀ (n : Nat) (ks : List Node) (pend : Option (Nat × Node))
    (ks' : List Node), orderLoop u n ks pend = .ok ks' → Rw false ks ks' := by
  loop_rw orderLoop

theorem alignLoop_rw {u : Text → Text} : ∀ (n : Nat) (ks : List Node) (pend : Option (Nat × Node))
    (ks' : List Node), alignLoop u n ks pend = .ok ks' → Rw true ks ks' := by
  loop_rw alignLoop

theorem groupFunctionsBody_rw (u : Text → Text) : KidsRw false (groupFunctionsBody u) := by
  intro c ks ks' h
  unfold groupFunctionsBody at h
  split at h
  · cases h; exact .refl _
  · exact functionsLoop_rw _ _ _ _ h

theorem groupValuesBody_rw (u : Text → Text) : KidsRw false (groupValuesBody u) := by
  intro c ks ks' h
  unfold groupValuesBody at h
  split at h
  · cases h; exact .refl _
  · split at h
    · cases h
    · cases h; exact .refl _
    · exact groupTokens_rw h (by decide)

end Sql
