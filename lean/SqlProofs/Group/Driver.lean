import SqlModel.Grouping.Driver
import SqlProofs.Group.Lift
/-!
# SqlProofs.Group.Driver — `_group` keeps the leaves up to `LeafRel`, for every configuration whose `post`
does (`PostLeaf`): `post` may rewrite the list, but only so that the leaves stay related — in the library the one
rewriting `post` is `group_operator`'s `tlist[tidx].ttype = T.Operator`.
-/
namespace Sql

/-- the hypothesis on a configuration: its `post` relates the leaves of the list it gets and the list it returns -/
def PostLeaf (cfg : DrvCfg) : Prop :=
  ∀ cur p t n cur' f t', cfg.post cur p t n = .ok (cur', f, t') → LeafRel (Node.leavesL cur) (Node.leavesL cur')

theorem drvStep_leaves {cfg : DrvCfg} (hp : PostLeaf cfg) {st st' : DrvSt} {idx : Nat} {token : Node}
    (h : drvStep cfg st idx token = .ok st') : LeafRel (Node.leavesL st.cur) (Node.leavesL st'.cur) := by
  unfold drvStep at h
  split at h
  · cases h; exact LeafRel.refl _
  · simp only at h
    split at h
    · cases h; exact LeafRel.refl _
    · split at h
      · split at h
        · cases h; exact LeafRel.refl _
        · rename_i pidx prev hprev
          split at h
          · split at h
            · cases h
            · rename_i cur1 fromIdx toIdx hpost
              split at h
              · cases h
              · rename_i cur2 grp hg
                cases h
                simp only
                have h1 := hp _ _ _ _ _ _ _ hpost
                have h2 := groupTokens'_leaves hg
                simp only at h2
                exact h1.trans (LeafRel.of_eq h2.symm)
          · cases h; exact LeafRel.refl _
      · cases h; exact LeafRel.refl _

theorem drvLoop_leaves {cfg : DrvCfg} (hp : PostLeaf cfg) :
    ∀ (snap : List Node) (idx : Nat) (st st' : DrvSt),
      drvLoop cfg snap idx st = .ok st' → LeafRel (Node.leavesL st.cur) (Node.leavesL st'.cur) := by
  intro snap
  induction snap with
  | nil => intro idx st st' h; simp [drvLoop] at h; subst h; exact LeafRel.refl _
  | cons token snap ih =>
    intro idx st st' h
    simp only [drvLoop] at h
    cases hs : drvStep cfg st idx token with
    | error e => simp [hs] at h
    | ok st1 =>
      simp only [hs] at h
      exact (drvStep_leaves hp hs).trans (ih _ _ _ h)

theorem groupDriver_leaves_aux :
    ∀ (fuel : Nat) (cfg : DrvCfg), PostLeaf cfg → ∀ (ks ks' : List Node),
      groupDriver cfg fuel ks = .ok ks' → LeafRel (Node.leavesL ks) (Node.leavesL ks') := by
  intro fuel
  induction fuel with
  | zero => intro cfg _ ks ks' h; simp [groupDriver] at h
  | succ n ih =>
    intro cfg hp ks ks' h
    simp only [groupDriver] at h
    split at h
    · cases hd : drvLoop cfg ks 0 (drvInit ks) with
      | error e => simp [hd] at h
      | ok dry =>
        simp only [hd] at h
        cases hm : mapGroupsWhere (fun _ kids => groupDriver { cfg with recurse := true } n kids)
            (drvEligible cfg.cls dry.reached.reverse ks) ks with
        | error e => simp [hm] at h
        | ok ks1 =>
          simp only [hm] at h
          cases hl : drvLoop cfg ks1 0 (drvInit ks1) with
          | error e => simp [hl] at h
          | ok st =>
            simp only [hl, Except.ok.injEq] at h
            subst h
            have hp' : PostLeaf { cfg with recurse := true } := hp
            have h1 := mapGroupsWhere_leaves
              (f := fun _ kids => groupDriver { cfg with recurse := true } n kids)
              (fun _ ks ks' h => ih _ hp' ks ks' h) hm
            have h2 := drvLoop_leaves hp _ _ _ _ hl
            exact h1.trans h2
    · cases hl : drvLoop cfg ks 0 (drvInit ks) with
      | error e => simp [hl] at h
      | ok st =>
        simp only [hl, Except.ok.injEq] at h
        subst h
        exact drvLoop_leaves hp _ _ _ _ hl

theorem groupDriver_leaves {cfg : DrvCfg} (hp : PostLeaf cfg) {fuel : Nat} {ks ks' : List Node}
    (h : groupDriver cfg fuel ks = .ok ks') : LeafRel (Node.leavesL ks) (Node.leavesL ks') :=
  groupDriver_leaves_aux fuel cfg hp ks ks' h

end Sql
