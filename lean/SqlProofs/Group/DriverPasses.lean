import SqlModel.Grouping.DriverPasses
import SqlProofs.Group.Driver
/-!
# SqlProofs.Group.DriverPasses — `PostLeaf` for the eleven `_group` configurations of grouping.py
-/
namespace Sql

theorem postPrevNext_id {cur : List Node} {p t : Nat} {n : Option Nat} {r}
    (h : postPrevNext cur p t n = .ok r) : r.1 = cur := by
  unfold postPrevNext at h
  split at h
  · cases h
  · cases h; rfl

theorem postTokNext_id {cur : List Node} {p t : Nat} {n : Option Nat} {r}
    (h : postTokNext cur p t n = .ok r) : r.1 = cur := by
  unfold postTokNext at h
  split at h
  · cases h
  · cases h; rfl

theorem postPrevTok_id {cur : List Node} {p t : Nat} {n : Option Nat} {r}
    (h : postPrevTok cur p t n = .ok r) : r.1 = cur := by
  unfold postPrevTok at h
  cases h; rfl

theorem postPeriod_id {upper : Text → Text} {cur : List Node} {p t : Nat} {n : Option Nat} {r}
    (h : postPeriod upper cur p t n = .ok r) : r.1 = cur := by
  unfold postPeriod at h
  split at h
  · cases h; rfl
  · split at h
    · cases h
    · split at h <;> (cases h; rfl)

theorem postAssignment_id {upper : Text → Text} {cur : List Node} {p t : Nat} {n : Option Nat} {r}
    (h : postAssignment upper cur p t n = .ok r) : r.1 = cur := by
  unfold postAssignment at h
  split at h
  · cases h
  · split at h <;> (cases h; rfl)

/-- re-typing one leaf to Operator relates the leaves; on a group it changes nothing -/
theorem setTType_leaves (n : Node) : LeafRel n.leaves (n.setTType T.Operator).leaves := by
  cases n with
  | tok tt v => simp only [Node.setTType, leaves_tok]; exact .cons ⟨rfl, Or.inr rfl⟩ .nil
  | grp c ks => exact LeafRel.refl _

theorem set_setTType_leaves : ∀ (cur : List Node) (i : Nat) (t : Node), cur[i]? = some t →
    LeafRel (Node.leavesL cur) (Node.leavesL (cur.set i (t.setTType T.Operator))) := by
  intro cur
  induction cur with
  | nil => intro i t h; simp at h
  | cons k rest ih =>
    intro i t h
    cases i with
    | zero =>
      simp only [List.getElem?_cons_zero, Option.some.injEq] at h
      subst h
      simp only [List.set_cons_zero, leavesL_cons]
      exact (setTType_leaves k).append (LeafRel.refl _)
    | succ i =>
      simp only [List.getElem?_cons_succ] at h
      simp only [List.set_cons_succ, leavesL_cons]
      exact (LeafRel.refl _).append (ih i t h)

theorem postOperator_leaves {cur : List Node} {p t : Nat} {n : Option Nat} {r}
    (h : postOperator cur p t n = .ok r) : LeafRel (Node.leavesL cur) (Node.leavesL r.1) := by
  unfold postOperator at h
  split at h
  · cases h
  · rename_i tok htok
    split at h
    · cases h
    · cases h
      exact set_setTType_leaves cur t tok htok

theorem PostLeaf.of_id {cfg : DrvCfg}
    (h : ∀ cur p t n r, cfg.post cur p t n = .ok r → r.1 = cur) : PostLeaf cfg := by
  intro cur p t n cur' f t' hp
  have := h _ _ _ _ _ hp
  simp only at this
  exact LeafRel.of_eq (congrArg Node.leavesL this.symm)

theorem postLeaf_typecasts (u) : PostLeaf (cfgTypecasts u) := PostLeaf.of_id fun _ _ t _ _ h => postPrevNext_id (t := t) h
theorem postLeaf_tzcasts (u) : PostLeaf (cfgTzcasts u) := PostLeaf.of_id fun _ _ t _ _ h => postPrevNext_id (t := t) h
theorem postLeaf_typedLiteral0 (u) : PostLeaf (cfgTypedLiteral0 u) := PostLeaf.of_id fun _ p _ _ _ h => postTokNext_id (p := p) h
theorem postLeaf_typedLiteral1 (u) : PostLeaf (cfgTypedLiteral1 u) := PostLeaf.of_id fun _ p _ _ _ h => postTokNext_id (p := p) h
theorem postLeaf_period (u) : PostLeaf (cfgPeriod u) := PostLeaf.of_id fun _ _ _ _ _ h => postPeriod_id h
theorem postLeaf_as (u) : PostLeaf (cfgAs u) := PostLeaf.of_id fun _ _ t _ _ h => postPrevNext_id (t := t) h
theorem postLeaf_assignment (u) : PostLeaf (cfgAssignment u) := PostLeaf.of_id fun _ _ t _ _ h => postAssignment_id (t := t) h
theorem postLeaf_comparison (u) : PostLeaf (cfgComparison u) := PostLeaf.of_id fun _ _ t _ _ h => postPrevNext_id (t := t) h
theorem postLeaf_arrays (u) : PostLeaf (cfgArrays u) := PostLeaf.of_id fun _ _ _ n _ h => postPrevTok_id (n := n) h
theorem postLeaf_identifierList (u) : PostLeaf (cfgIdentifierList u) :=
  PostLeaf.of_id fun _ _ t _ _ h => postPrevNext_id (t := t) h

theorem postLeaf_operator (u) : PostLeaf (cfgOperator u) := by
  intro cur p t n cur' f t' hp
  exact postOperator_leaves (r := (cur', f, t')) hp

end Sql
