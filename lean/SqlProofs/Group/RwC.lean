import SqlProofs.AlignComments
import SqlProofs.Respell.Operator
/-!
# SqlProofs.Group.RwC — the passes other than `group_comments`/`align_comments`, as *strict* rewrite sequences

`RwC mt ks ks'`: finitely many steps, each one
* `group`  — a `group_tokens` call whose class is neither `Comment` nor `TokenList` (and, unless `mt`, none of the
             six bracket/block classes);
* `retype` — re-typing of a leaf of type exactly `Operator` or `Wildcard` to `Operator` (the only re-typing in the
             library: `group_operator`'s `tlist[tidx].ttype = T.Operator`, and `tlist[tidx]` *is* the matched token —
             `MatchAligned` of `Respell/Operator.lean`);
* `inside`, `ctx` — steps on the children of a group child / on a segment.
Consequences: the leaves are related by `LeafRelS` (only `Wildcard → Operator` changes a type), `clL` is kept (no
step touches the leaves of a `Comment` group), and for `mt = false` the bracket/block groups are kept strictly.
-/
namespace Sql

/-! ### the strict leaf relation -/
/-- one leaf: same value; same type, or `Wildcard` re-typed to `Operator` -/
def LeafRel1S (a b : Tok) : Prop := a.val = b.val ∧ (a.tt = b.tt ∨ (a.tt = T.Wildcard ∧ b.tt = T.Operator))

inductive LeafRelS : List Tok → List Tok → Prop
  | nil : LeafRelS [] []
  | cons {a b : Tok} {as bs : List Tok} : LeafRel1S a b → LeafRelS as bs → LeafRelS (a :: as) (b :: bs)

theorem LeafRel1S.refl (a : Tok) : LeafRel1S a a := ⟨rfl, Or.inl rfl⟩

theorem LeafRel1S.trans {a b c : Tok} (h1 : LeafRel1S a b) (h2 : LeafRel1S b c) : LeafRel1S a c := by
  refine ⟨h1.1.trans h2.1, ?_⟩
  rcases h1.2 with h | ⟨ha, hb⟩
  · rcases h2.2 with h' | ⟨hb', hc⟩
    · exact Or.inl (h.trans h')
    · exact Or.inr ⟨h ▸ hb', hc⟩
  · rcases h2.2 with h' | ⟨hb', hc⟩
    · exact Or.inr ⟨ha, h' ▸ hb⟩
    · rw [hb] at hb'; exact absurd hb' (by decide)

theorem LeafRelS.refl (a : List Tok) : LeafRelS a a := by
  induction a with
  | nil => exact .nil
  | cons x a ih => exact .cons (LeafRel1S.refl x) ih

theorem LeafRelS.of_eq {a b : List Tok} (h : a = b) : LeafRelS a b := h ▸ LeafRelS.refl a

theorem LeafRelS.trans {a b c : List Tok} (h1 : LeafRelS a b) (h2 : LeafRelS b c) : LeafRelS a c := by
  induction h1 generalizing c with
  | nil => cases h2; exact .nil
  | cons hab _ ih => cases h2 with | cons hbc h2' => exact .cons (hab.trans hbc) (ih h2')

theorem LeafRelS.append {a a' b b' : List Tok} (h1 : LeafRelS a a') (h2 : LeafRelS b b') :
    LeafRelS (a ++ b) (a' ++ b') := by
  induction h1 with
  | nil => simpa using h2
  | cons hx _ ih => exact .cons hx ih

theorem LeafRelS.split_left {a b c : List Tok} (h : LeafRelS (a ++ b) c) :
    ∃ c1 c2, c = c1 ++ c2 ∧ LeafRelS a c1 ∧ LeafRelS b c2 := by
  induction a generalizing c with
  | nil => exact ⟨[], c, rfl, .nil, h⟩
  | cons x a ih =>
    cases h with
    | cons hx hrest =>
      obtain ⟨c1, c2, rfl, h1, h2⟩ := ih hrest
      exact ⟨_ :: c1, c2, rfl, .cons hx h1, h2⟩

/-- the strict relation implies the one of `GroupLeaves.lean` -/
theorem LeafRelS.weaken {a b : List Tok} (h : LeafRelS a b) : LeafRel a b := by
  induction h with
  | nil => exact .nil
  | cons hx _ ih =>
    refine .cons ⟨hx.1, ?_⟩ ih
    rcases hx.2 with h1 | ⟨_, h2⟩
    · exact Or.inl h1
    · exact Or.inr h2

/-- comment/whitespace leaves are never re-typed -/
theorem LeafRelS.cmt {a b : List Tok} (h : LeafRelS a b) (ha : a.all cmtLeaf = true) : b.all cmtLeaf = true := by
  induction h with
  | nil => rfl
  | @cons x y xs ys hxy _ ih =>
    simp only [List.all_cons, Bool.and_eq_true] at ha ⊢
    refine ⟨?_, ih ha.2⟩
    rcases hxy.2 with h1 | ⟨h1, _⟩
    · simpa [cmtLeaf, ← h1] using ha.1
    · have := ha.1
      simp (config := { decide := true }) [cmtLeaf, h1, TType.isIn, T.Wildcard, T.Comment, T.Whitespace] at this

theorem appRel_leafRelS : AppRel LeafRelS := ⟨LeafRelS.refl, LeafRelS.append⟩

/-! ### the relation -/
inductive RwC (mt : Bool) : List Node → List Node → Prop
  | refl (ks : List Node) : RwC mt ks ks
  | trans {a b c : List Node} : RwC mt a b → RwC mt b c → RwC mt a c
  | group {ks : List Node} {cls : Cls} {a b : Nat} {ie ext : Bool} {r : List Node × Node} :
      groupTokens' ks cls a b ie ext = .ok r → cls ≠ .Comment → cls ≠ .TokenList →
      (mt = true ∨ sixCls cls = false) → RwC mt ks r.1
  | retype {ks : List Node} {i : Nat} {v : Text} :
      (ks[i]? = some (Node.tok ["Operator"] v) ∨ ks[i]? = some (Node.tok ["Wildcard"] v)) →
      RwC mt ks (ks.set i (Node.tok T.Operator v))
  | inside {c : Cls} {kids kids' : List Node} : RwC mt kids kids' → RwC mt [Node.grp c kids] [Node.grp c kids']
  | ctx {a b : List Node} (pre post : List Node) : RwC mt a b → RwC mt (pre ++ a ++ post) (pre ++ b ++ post)

theorem RwC.mono {ks ks' : List Node} (h : RwC false ks ks') : RwC true ks ks' := by
  induction h with
  | refl ks => exact .refl ks
  | trans _ _ ih1 ih2 => exact .trans ih1 ih2
  | group h h1 h2 _ => exact .group h h1 h2 (Or.inl rfl)
  | retype h => exact .retype h
  | inside _ ih => exact .inside ih
  | ctx pre post _ ih => exact .ctx pre post ih

theorem RwC.cons {mt : Bool} {a b : List Node} (k : Node) (h : RwC mt a b) : RwC mt (k :: a) (k :: b) := by
  have := RwC.ctx (mt := mt) [k] [] h
  simpa using this

theorem RwC.head {mt : Bool} {c : Cls} {kids kids' : List Node} (rest : List Node) (h : RwC mt kids kids') :
    RwC mt (Node.grp c kids :: rest) (Node.grp c kids' :: rest) := by
  have := RwC.ctx (mt := mt) [] rest (RwC.inside (c := c) h)
  simpa using this

theorem leavesL_set_tok {ks : List Node} {i : Nat} {tt tt' : TType} {v : Text} (hx : ks[i]? = some (Node.tok tt v))
    (hr : LeafRel1S ⟨tt, v⟩ ⟨tt', v⟩) : LeafRelS (Node.leavesL ks) (Node.leavesL (ks.set i (Node.tok tt' v))) := by
  induction ks generalizing i with
  | nil => simp at hx
  | cons k rest ih =>
    cases i with
    | zero =>
      simp only [List.getElem?_cons_zero, Option.some.injEq] at hx
      subst hx
      simp only [List.set_cons_zero, leavesL_cons, leaves_tok]
      exact (LeafRelS.cons hr .nil).append (LeafRelS.refl _)
    | succ i =>
      simp only [List.getElem?_cons_succ] at hx
      simp only [List.set_cons_succ, leavesL_cons]
      exact (LeafRelS.refl _).append (ih hx)

theorem clL_set_tok {ks : List Node} (h : clL ks = true) (i : Nat) (tt : TType) (v : Text) :
    clL (ks.set i (Node.tok tt v)) = true := by
  rw [clL_iff] at h ⊢
  intro k hk
  rcases List.mem_or_eq_of_mem_set hk with h1 | h1
  · exact h k h1
  · rw [h1]; simp

/-- **every strict sequence relates the leaves by `LeafRelS` and keeps `CL`** -/
theorem RwC.leaves_cl {mt : Bool} {ks ks' : List Node} (h : RwC mt ks ks') :
    LeafRelS (Node.leavesL ks) (Node.leavesL ks') ∧ (clL ks = true → clL ks' = true) := by
  induction h with
  | refl ks => exact ⟨LeafRelS.refl _, id⟩
  | trans _ _ ih1 ih2 => exact ⟨ih1.1.trans ih2.1, fun h => ih2.2 (ih1.2 h)⟩
  | @group ks cls a b ie ext r hg hc htl _ =>
    refine ⟨LeafRelS.of_eq (groupTokens'_leaves hg).symm, fun hcl => ?_⟩
    rcases groupTokens'_cases hg with ⟨c, kids, _, hst, hinst, rfl⟩ | ⟨_, _, rfl⟩
    · have hcc : c = cls := by
        simp only [Node.isInst, Bool.or_eq_true, beq_iff_eq] at hinst
        rcases hinst with h1 | h1
        · exact absurd h1 htl
        · exact h1
      have hk := clL_iff.1 hcl _ (List.mem_of_getElem? hst)
      simp only [cl_grp, Bool.and_eq_true] at hk
      simp only [clL_append, clL_cons, Bool.and_eq_true, cl_grp, Bool.or_eq_true, bne_iff_ne, ne_eq]
      exact ⟨clL_take hcl _, ⟨Or.inl (hcc ▸ hc), hk.2, clL_pySlice hcl _ _⟩, clL_drop hcl _⟩
    · simp only [clL_append, clL_cons, Bool.and_eq_true, cl_grp, Bool.or_eq_true, bne_iff_ne, ne_eq]
      exact ⟨clL_take hcl _, ⟨Or.inl hc, clL_pySlice hcl _ _⟩, clL_drop hcl _⟩
  | @retype ks i v hx =>
    refine ⟨?_, fun hcl => clL_set_tok hcl _ _ _⟩
    rcases hx with hx | hx
    · exact leavesL_set_tok hx ⟨rfl, Or.inl rfl⟩
    · exact leavesL_set_tok hx ⟨rfl, Or.inr ⟨rfl, rfl⟩⟩
  | @inside c kids kids' _ ih =>
    refine ⟨by simpa using ih.1, fun hcl => ?_⟩
    simp only [clL_cons, clL_nil, Bool.and_true, cl_grp, Bool.and_eq_true, Bool.or_eq_true, bne_iff_ne, ne_eq] at hcl ⊢
    refine ⟨?_, ih.2 hcl.2⟩
    rcases hcl.1 with h1 | h1
    · exact Or.inl h1
    · exact Or.inr (ih.1.cmt h1)
  | ctx pre post _ ih =>
    refine ⟨?_, fun hcl => ?_⟩
    · simp only [leavesL_append]
      exact ((LeafRelS.refl _).append ih.1).append (LeafRelS.refl _)
    · simp only [clL_append, Bool.and_eq_true] at hcl ⊢
      exact ⟨⟨hcl.1.1, ih.2 hcl.1.2⟩, hcl.2⟩

/-! ### bracket/block groups under strict sequences -/
def BrRelS (e e' : Cls × List Tok) : Prop := e.1 = e'.1 ∧ LeafRelS e.2 e'.2

inductive BrAllS : List (Cls × List Tok) → List (Cls × List Tok) → Prop
  | nil : BrAllS [] []
  | cons {e e' : Cls × List Tok} {es es' : List (Cls × List Tok)} :
      BrRelS e e' → BrAllS es es' → BrAllS (e :: es) (e' :: es')

theorem BrAllS.refl (es : List (Cls × List Tok)) : BrAllS es es := by
  induction es with
  | nil => exact .nil
  | cons e es ih => exact .cons ⟨rfl, LeafRelS.refl _⟩ ih
theorem BrAllS.of_eq {a b : List (Cls × List Tok)} (h : a = b) : BrAllS a b := h ▸ BrAllS.refl a
theorem BrAllS.trans {a b c : List (Cls × List Tok)} (h1 : BrAllS a b) (h2 : BrAllS b c) : BrAllS a c := by
  induction h1 generalizing c with
  | nil => cases h2; exact .nil
  | cons hab _ ih =>
    cases h2 with
    | cons hbc h2' => exact .cons ⟨hab.1.trans hbc.1, hab.2.trans hbc.2⟩ (ih h2')
theorem BrAllS.append {a a' b b' : List (Cls × List Tok)} (h1 : BrAllS a a') (h2 : BrAllS b b') :
    BrAllS (a ++ b) (a' ++ b') := by
  induction h1 with
  | nil => simpa using h2
  | cons hx _ ih => exact .cons hx ih

theorem RwC.brackets {ks ks' : List Node} (h : RwC false ks ks') : BrAllS (bracketsL ks) (bracketsL ks') := by
  induction h with
  | refl ks => exact BrAllS.refl _
  | trans _ _ ih1 ih2 => exact ih1.trans ih2
  | @group ks cls a b ie ext r hg _ htl hsix =>
    have hp : plainCls cls = true := by
      rcases hsix with h | h
      · cases h
      · simp [plainCls, h, htl]
    exact BrAllS.of_eq (groupTokens'_brackets hg hp).symm
  | @retype ks i v hx =>
    rcases hx with hx | hx
    · exact BrAllS.of_eq (bracketsL_set hx (by simp)).symm
    · exact BrAllS.of_eq (bracketsL_set hx (by simp)).symm
  | @inside c kids kids' hk ih =>
    simp only [bracketsL_cons, bracketsL_nil, List.append_nil, brackets_grp]
    refine BrAllS.append ?_ ih
    by_cases hc : sixCls c = true
    · simp only [hc, ↓reduceIte]
      exact .cons ⟨rfl, hk.leaves_cl.1⟩ .nil
    · simp only [hc, Bool.false_eq_true, ↓reduceIte]
      exact .nil
  | ctx pre post _ ih =>
    simp only [bracketsL_append]
    exact ((BrAllS.refl _).append ih).append (BrAllS.refl _)

end Sql
