import SqlModel.Grouping.Matching
import SqlProofs.Group.Lift
/-!
# SqlProofs.Group.Matching — `_group_matching` keeps the leaves (exactly: no re-typing)
-/
namespace Sql

theorem matchStep_leaves {upper : Text → Text} {cls : Cls} {mOpen mClose : List MPat} {st st' : MatchSt} {idx : Nat}
    {token : Node} (h : matchStep upper cls mOpen mClose st idx token = .ok st') :
    Node.leavesL st'.cur = Node.leavesL st.cur := by
  unfold matchStep at h
  simp only at h
  split at h
  · cases h; rfl
  · split at h
    · cases h; rfl
    · split at h
      · cases h; rfl
      · split at h
        · split at h
          · cases h; rfl
          · rename_i o rest
            split at h
            · cases h
            · rename_i cur' hg
              cases h
              exact groupTokens_leaves hg
        · cases h; rfl

theorem matchLoop_leaves {upper : Text → Text} {cls : Cls} {mOpen mClose : List MPat} :
    ∀ (snap : List Node) (idx : Nat) (st st' : MatchSt),
      matchLoop upper cls mOpen mClose snap idx st = .ok st' → Node.leavesL st'.cur = Node.leavesL st.cur := by
  intro snap
  induction snap with
  | nil => intro idx st st' h; simp [matchLoop] at h; subst h; rfl
  | cons token snap ih =>
    intro idx st st' h
    simp only [matchLoop] at h
    cases hs : matchStep upper cls mOpen mClose st idx token with
    | error e => simp [hs] at h
    | ok st1 =>
      simp only [hs] at h
      rw [ih _ _ _ h, matchStep_leaves hs]

theorem groupMatching_leaves_eq {upper : Text → Text} {cls : Cls} {mOpen mClose : List MPat} :
    ∀ (fuel : Nat) (ks ks' : List Node),
      groupMatching upper cls mOpen mClose fuel ks = .ok ks' → Node.leavesL ks' = Node.leavesL ks := by
  intro fuel
  induction fuel with
  | zero => intro ks ks' h; simp [groupMatching] at h
  | succ n ih =>
    intro ks ks' h
    simp only [groupMatching] at h
    cases hm : mapGroups (fun k => !k.isInst cls) (fun _ kids => groupMatching upper cls mOpen mClose n kids) ks with
    | error e => simp [hm] at h
    | ok ks1 =>
      simp only [hm] at h
      cases hl : matchLoop upper cls mOpen mClose ks1 0 { cur := ks1, opens := [], off := 0 } with
      | error e => simp [hl] at h
      | ok st =>
        simp only [hl, Except.ok.injEq] at h
        subst h
        have h1 := mapGroups_rel appRel_eq (f := fun _ kids => groupMatching upper cls mOpen mClose n kids)
          (fun _ ks ks' h => ih ks ks' h) _ _ hm
        have h2 := matchLoop_leaves _ _ _ _ hl
        simp only at h2
        rw [h2, h1]

theorem groupMatching_leaves {upper : Text → Text} {cls : Cls} {mOpen mClose : List MPat} {fuel : Nat}
    {ks ks' : List Node} (h : groupMatching upper cls mOpen mClose fuel ks = .ok ks') :
    LeafRel (Node.leavesL ks) (Node.leavesL ks') :=
  LeafRel.of_eq (groupMatching_leaves_eq fuel ks ks' h).symm

end Sql
