import SqlModel.GroupTokens
import SqlModel.Generated.Tables
/-!
# SqlProofs.Group.Good — the well-formedness invariant behind `group_nonempty`

`Node.good`: no group has an empty child list, and the last child of a group whose `_groupable_tokens` are
`tokens[1:-1]` (Parenthesis, SquareBrackets) is not a token of type exactly `Keyword`.  The second clause is what
`group_where` needs: inside brackets it groups up to `tokens[len−2]`, which is at or after the WHERE keyword only
because the WHERE keyword is not the last child (the last child is the closing bracket, or a group appended later).
-/
namespace Sql

/-- a leaf whose type is exactly `Keyword` -/
def Node.isKwTok : Node → Bool
  | .tok tt _ => tt == T.Keyword
  | .grp .. => false

/-- the last element, if any, is not a `Keyword` leaf -/
def lastOk (ks : List Node) : Bool :=
  match ks.getLast? with
  | some x => !x.isKwTok
  | none => true

/-- classes whose `_groupable_tokens` exclude the first and last child -/
def innerCls (c : Cls) : Bool := Gen.groupableInner.contains c

mutual
def Node.good : Node → Bool
  | .tok _ _ => true
  | .grp c ks => !ks.isEmpty && (!innerCls c || lastOk ks) && goodL ks
def goodL : List Node → Bool
  | [] => true
  | k :: ks => k.good && goodL ks
end

/-- the children `ks` of a node of class `c` are well-formed -/
def GoodKids (c : Cls) (ks : List Node) : Prop := goodL ks = true ∧ (innerCls c = true → lastOk ks = true)

@[simp] theorem goodL_nil : goodL [] = true := by simp [goodL]
@[simp] theorem goodL_cons (k : Node) (ks : List Node) : goodL (k :: ks) = (k.good && goodL ks) := by simp [goodL]
@[simp] theorem good_tok (tt : TType) (v : Text) : (Node.tok tt v).good = true := by simp [Node.good]
theorem good_grp (c : Cls) (ks : List Node) :
    (Node.grp c ks).good = (!ks.isEmpty && (!innerCls c || lastOk ks) && goodL ks) := by simp [Node.good]

theorem goodL_append (a b : List Node) : goodL (a ++ b) = (goodL a && goodL b) := by
  induction a with
  | nil => simp
  | cons k a ih => simp [ih, Bool.and_assoc]

theorem goodL_of_mem {ks : List Node} (h : goodL ks = true) {k : Node} (hk : k ∈ ks) : k.good = true := by
  induction ks with
  | nil => cases hk
  | cons x xs ih =>
    simp only [goodL_cons, Bool.and_eq_true] at h
    cases hk with
    | head => exact h.1
    | tail _ hk => exact ih h.2 hk

theorem goodL_iff {ks : List Node} : goodL ks = true ↔ ∀ k ∈ ks, k.good = true := by
  constructor
  · intro h k hk; exact goodL_of_mem h hk
  · intro h
    induction ks with
    | nil => simp
    | cons x xs ih =>
      simp only [goodL_cons, Bool.and_eq_true]
      exact ⟨h x (List.mem_cons_self), ih (fun k hk => h k (List.mem_cons_of_mem _ hk))⟩

theorem goodL_take {ks : List Node} (h : goodL ks = true) (n : Nat) : goodL (ks.take n) = true :=
  goodL_iff.2 fun _ hk => goodL_of_mem h (List.mem_of_mem_take hk)

theorem goodL_drop {ks : List Node} (h : goodL ks = true) (n : Nat) : goodL (ks.drop n) = true :=
  goodL_iff.2 fun _ hk => goodL_of_mem h (List.mem_of_mem_drop hk)

theorem goodL_pySlice {ks : List Node} (h : goodL ks = true) (a b : Nat) : goodL (pySlice ks a b) = true := by
  unfold pySlice
  exact goodL_drop (goodL_take h b) a

theorem good_of_getElem? {ks : List Node} (h : goodL ks = true) {i : Nat} {k : Node} (hk : ks[i]? = some k) :
    k.good = true := goodL_of_mem h (List.mem_of_getElem? hk)

/-! ### `lastOk` -/
@[simp] theorem lastOk_nil : lastOk [] = true := by simp [lastOk]

theorem lastOk_append_cons (a : List Node) (x : Node) (b : List Node) : lastOk (a ++ x :: b) = lastOk (x :: b) := by
  have : (a ++ x :: b).getLast? = (x :: b).getLast? := by
    rw [List.getLast?_append]
    cases h : (x :: b).getLast? with
    | none => simp at h
    | some y => simp
  simp [lastOk, this]

theorem lastOk_cons_cons (x y : Node) (b : List Node) : lastOk (x :: y :: b) = lastOk (y :: b) := by
  simp [lastOk, List.getLast?_cons_cons]

theorem lastOk_singleton (x : Node) : lastOk [x] = !x.isKwTok := by simp [lastOk]

theorem lastOk_grp_singleton (c : Cls) (ks : List Node) : lastOk [Node.grp c ks] = true := by
  simp [lastOk, Node.isKwTok]

/-- if the tail `b` is non-empty, the last of `x :: b` is the last of `b` -/
theorem lastOk_cons_of_ne {x : Node} {b : List Node} (hb : b ≠ []) : lastOk (x :: b) = lastOk b := by
  cases b with
  | nil => exact absurd rfl hb
  | cons y b => exact lastOk_cons_cons x y b

theorem lastOk_append_of_ne (a : List Node) {b : List Node} (hb : b ≠ []) : lastOk (a ++ b) = lastOk b := by
  cases b with
  | nil => exact absurd rfl hb
  | cons y b => exact lastOk_append_cons a y b

theorem lastOk_drop {ks : List Node} (h : lastOk ks = true) (n : Nat) : lastOk (ks.drop n) = true := by
  by_cases hd : ks.drop n = []
  · rw [hd]; simp
  · have : ks = ks.take n ++ ks.drop n := (List.take_append_drop n ks).symm
    rw [this, lastOk_append_of_ne _ hd] at h
    exact h

/-- the last element of a non-empty Python slice `l[a:e]` with `e ≤ len` is `l[e-1]` -/
theorem lastOk_pySlice {ks : List Node} {a e : Nat} {x : Node} (hae : a < e) (hx : ks[e - 1]? = some x)
    (hk : x.isKwTok = false) : lastOk (pySlice ks a e) = true := by
  have hlen : e - 1 < ks.length := by
    rcases List.getElem?_eq_some_iff.1 hx with ⟨h, _⟩; exact h
  unfold pySlice lastOk
  have : ((ks.take e).drop a).getLast? = some x := by
    rw [List.getLast?_drop]
    have hl : (ks.take e).length = e := by simp [List.length_take]; omega
    rw [if_neg (by omega)]
    rw [List.getLast?_eq_getElem?, hl, List.getElem?_take]
    simp [hx]
    omega
  rw [this]
  simp [hk]

end Sql
