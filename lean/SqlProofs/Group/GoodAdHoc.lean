import SqlModel.Grouping.AdHoc
import SqlProofs.Group.GoodMatching
import SqlProofs.Group.Nav
/-!
# SqlProofs.Group.GoodAdHoc — the nine loop passes keep the tree well-formed

Per pass the index fact that makes the new group non-empty:
`group_identifier` (tidx, tidx); `group_over`, `group_aliased`, `group_functions` (tidx, n) with `n > tidx` from
`token_next`; `group_order`, `align_comments` (pidx, tidx) with `pidx < tidx` from `token_prev`; `group_comments`
(tidx, eidx−1) where `eidx > tidx` because the token at `tidx` is a comment and the one at `eidx` is not;
`group_where` (tidx, e) with `e ≥ tidx` — inside brackets because the last child is not a keyword leaf (`lastOk`);
`group_values` (start, end) where `end` is one of the visited indexes `≥ start`.
-/
namespace Sql

/-- what one step (or a whole loop) guarantees about the child list -/
structure Tri (ks ks' : List Node) : Prop where
  good : goodL ks = true → goodL ks' = true
  last : lastOk ks = true → lastOk ks' = true
  ne : ks ≠ [] → ks' ≠ []

theorem Tri.refl (ks : List Node) : Tri ks ks := ⟨id, id, id⟩

theorem Tri.trans {a b c : List Node} (h1 : Tri a b) (h2 : Tri b c) : Tri a c :=
  ⟨fun h => h2.good (h1.good h), fun h => h2.last (h1.last h), fun h => h2.ne (h1.ne h)⟩

theorem Tri.goodKids {c : Cls} {ks ks' : List Node} (h : Tri ks ks') (hk : GoodKids c ks) :
    GoodKids c ks' ∧ (ks ≠ [] → ks' ≠ []) :=
  ⟨⟨h.good hk.1, fun hi => h.last (hk.2 hi)⟩, h.ne⟩

/-- a `group_tokens` call with a class that is neither a bracket class nor `TokenList`, and `start ≤ end` -/
theorem groupTokens_tri_plain {ks ks' : List Node} {cls : Cls} {a b : Nat} {ext : Bool}
    (h : groupTokens ks cls a b true ext = .ok ks') (hinner : innerCls cls = false) (htl : cls ≠ .TokenList)
    (hab : a ≤ b) : Tri ks ks' := by
  obtain ⟨r, hr, rfl⟩ := groupTokens_eq h
  exact ⟨fun hg => groupTokens'_goodL hr hg (groupTokens'_good_plain hr hg hinner htl (Or.inl hab)),
    groupTokens'_lastOk hr, fun _ => groupTokens'_ne_nil hr⟩

/-! ### group_identifier -/
theorem identifierLoop_tri {upper : Text → Text} : ∀ (n : Nat) (ks : List Node) (pend : Option (Nat × Node))
    (ks' : List Node), identifierLoop upper n ks pend = .ok ks' → Tri ks ks' := by
  intro n
  induction n with
  | zero =>
    intro ks pend ks' h
    cases pend with
    | none => simp [identifierLoop] at h; subst h; exact Tri.refl _
    | some p => simp [identifierLoop] at h
  | succ n ih =>
    intro ks pend ks' h
    cases pend with
    | none => simp [identifierLoop] at h; subst h; exact Tri.refl _
    | some p =>
      obtain ⟨tidx, tok⟩ := p
      simp only [identifierLoop] at h
      cases hg : groupTokens ks Gen.group_identifier_group_tokens0_cls tidx tidx true
          Gen.group_identifier_group_tokens0_extend with
      | error e => simp [hg] at h
      | ok ks1 =>
        simp only [hg] at h
        exact (groupTokens_tri_plain hg rfl (by decide) (Nat.le_refl _)).trans (ih _ _ _ h)

/-! ### group_over -/
theorem overLoop_tri {upper : Text → Text} : ∀ (n : Nat) (ks : List Node) (pend : Option (Nat × Node))
    (ks' : List Node), overLoop upper n ks pend = .ok ks' → Tri ks ks' := by
  intro n
  induction n with
  | zero =>
    intro ks pend ks' h
    cases pend with
    | none => simp [overLoop] at h; subst h; exact Tri.refl _
    | some p => simp [overLoop] at h
  | succ n ih =>
    intro ks pend ks' h
    cases pend with
    | none => simp [overLoop] at h; subst h; exact Tri.refl _
    | some p =>
      obtain ⟨tidx, tok⟩ := p
      simp only [overLoop] at h
      cases hnx : tokenNext ks tidx with
      | none => simp only [hnx] at h; exact ih _ _ _ h
      | some q =>
        obtain ⟨nidx, next⟩ := q
        simp only [hnx] at h
        split at h
        · cases hg : groupTokens ks Gen.group_over_group_tokens0_cls tidx nidx true
              Gen.group_over_group_tokens0_extend with
          | error e => simp [hg] at h
          | ok ks1 =>
            simp only [hg] at h
            exact (groupTokens_tri_plain hg rfl (by decide) (Nat.le_of_lt (tokenNext_hit hnx).1)).trans (ih _ _ _ h)
        · exact ih _ _ _ h

/-! ### group_aliased -/
theorem aliasedLoop_tri {upper : Text → Text} : ∀ (n : Nat) (ks : List Node) (pend : Option (Nat × Node))
    (ks' : List Node), aliasedLoop upper n ks pend = .ok ks' → Tri ks ks' := by
  intro n
  induction n with
  | zero =>
    intro ks pend ks' h
    cases pend with
    | none => simp [aliasedLoop] at h; subst h; exact Tri.refl _
    | some p => simp [aliasedLoop] at h
  | succ n ih =>
    intro ks pend ks' h
    cases pend with
    | none => simp [aliasedLoop] at h; subst h; exact Tri.refl _
    | some p =>
      obtain ⟨tidx, tok⟩ := p
      simp only [aliasedLoop] at h
      cases hnx : tokenNext ks tidx with
      | none => simp only [hnx] at h; exact ih _ _ _ h
      | some q =>
        obtain ⟨nidx, next⟩ := q
        simp only [hnx] at h
        split at h
        · cases hg : groupTokens ks Gen.group_aliased_group_tokens0_cls tidx nidx true
              Gen.group_aliased_group_tokens0_extend with
          | error e => simp [hg] at h
          | ok ks1 =>
            simp only [hg] at h
            exact (groupTokens_tri_plain hg rfl (by decide) (Nat.le_of_lt (tokenNext_hit hnx).1)).trans (ih _ _ _ h)
        · exact ih _ _ _ h

/-! ### group_functions -/
theorem functionsLoop_tri {upper : Text → Text} : ∀ (n : Nat) (ks : List Node) (pend : Option (Nat × Node))
    (ks' : List Node), functionsLoop upper n ks pend = .ok ks' → Tri ks ks' := by
  intro n
  induction n with
  | zero =>
    intro ks pend ks' h
    cases pend with
    | none => simp [functionsLoop] at h; subst h; exact Tri.refl _
    | some p => simp [functionsLoop] at h
  | succ n ih =>
    intro ks pend ks' h
    cases pend with
    | none => simp [functionsLoop] at h; subst h; exact Tri.refl _
    | some p =>
      obtain ⟨tidx, tok⟩ := p
      simp only [functionsLoop] at h
      cases hnx : tokenNext ks tidx with
      | none => simp only [hnx] at h; exact ih _ _ _ h
      | some q =>
        obtain ⟨nidx, next⟩ := q
        simp only [hnx] at h
        split at h
        · have hlt := (tokenNext_hit hnx).1
          have fin : ∀ eidx, tidx ≤ eidx →
              (match groupTokens ks Gen.group_functions_group_tokens0_cls tidx eidx true
                  Gen.group_functions_group_tokens0_extend with
                | Except.error e => Except.error e
                | Except.ok ks1 => functionsLoop upper n ks1
                    (tokenNextBy upper ks1 [] [] Gen.group_functions_token_next_by1_t (tidx + 1))) = Except.ok ks' →
              Tri ks ks' := by
            intro eidx hle h
            cases hg : groupTokens ks Gen.group_functions_group_tokens0_cls tidx eidx true
                Gen.group_functions_group_tokens0_extend with
            | error e => simp [hg] at h
            | ok ks1 =>
              simp only [hg] at h
              exact (groupTokens_tri_plain hg rfl (by decide) hle).trans (ih _ _ _ h)
          cases hov : tokenNext ks nidx with
          | none =>
            simp only [hov] at h
            exact fin nidx (Nat.le_of_lt hlt) h
          | some q2 =>
            obtain ⟨oidx, over⟩ := q2
            have := (tokenNext_hit hov).1
            simp only [hov] at h
            by_cases hover : over.isInstAny Gen.group_functions_isinstance1 = true
            · rw [if_pos hover] at h; exact fin oidx (by omega) h
            · rw [if_neg hover] at h; exact fin nidx (by omega) h
        · exact ih _ _ _ h

theorem groupFunctionsBody_tri {upper : Text → Text} {c : Cls} {ks ks' : List Node}
    (h : groupFunctionsBody upper c ks = .ok ks') : Tri ks ks' := by
  unfold groupFunctionsBody at h
  split at h
  · cases h; exact Tri.refl _
  · exact functionsLoop_tri _ _ _ _ h

/-! ### group_order -/
theorem orderLoop_tri {upper : Text → Text} : ∀ (n : Nat) (ks : List Node) (pend : Option (Nat × Node))
    (ks' : List Node), orderLoop upper n ks pend = .ok ks' → Tri ks ks' := by
  intro n
  induction n with
  | zero =>
    intro ks pend ks' h
    cases pend with
    | none => simp [orderLoop] at h; subst h; exact Tri.refl _
    | some p => simp [orderLoop] at h
  | succ n ih =>
    intro ks pend ks' h
    cases pend with
    | none => simp [orderLoop] at h; subst h; exact Tri.refl _
    | some p =>
      obtain ⟨tidx, tok⟩ := p
      simp only [orderLoop] at h
      cases hpv : tokenPrev ks tidx with
      | none => simp only [hpv] at h; exact ih _ _ _ h
      | some q =>
        obtain ⟨pidx, prev⟩ := q
        simp only [hpv] at h
        split at h
        · cases hg : groupTokens ks Gen.group_order_group_tokens0_cls pidx tidx true
              Gen.group_order_group_tokens0_extend with
          | error e => simp [hg] at h
          | ok ks1 =>
            simp only [hg] at h
            exact (groupTokens_tri_plain hg rfl (by decide) (Nat.le_of_lt (tokenPrev_hit hpv).1)).trans (ih _ _ _ h)
        · exact ih _ _ _ h

/-! ### facts about what `token_next_by` found -/
theorem pend_of_nextBy {upper : Text → Text} {ks : List Node} {i : List Cls} {m : List MPat} {t : TArg} {start : Nat} :
    ∀ tidx tok, tokenNextBy upper ks i m t start = some (tidx, tok) →
      ks[tidx]? = some tok ∧ imt upper tok i m t = true :=
  fun _ _ h => (tokenNextBy_spec h).2

theorem isGroup_of_isInstAny {n : Node} {cs : List Cls} (h : n.isInstAny cs = true) : n.isGroup = true := by
  cases n with
  | tok tt v => simp [Node.isInstAny, Node.isInst] at h
  | grp c ks => rfl

theorem isKwTok_of_group {n : Node} (h : n.isGroup = true) : n.isKwTok = false := by
  cases n with
  | tok tt v => cases h
  | grp c ks => rfl

/-- a node found by `m=` patterns that all have type `Keyword` is a keyword leaf -/
theorem isKwTok_of_imt_m {upper : Text → Text} {k : Node} {m : List MPat} (hm : ∀ p ∈ m, p.tt = T.Keyword)
    (h : imt upper k [] m .none = true) : k.isKwTok = true := by
  simp only [imt, Node.isInstAny, List.any_nil, Bool.false_or, Bool.or_false, List.any_eq_true] at h
  obtain ⟨p, hp, hmatch⟩ := h
  cases k with
  | grp c ks => simp [Node.matchP, Node.match] at hmatch
  | tok t v =>
    simp only [Node.matchP, Node.match] at hmatch
    split at hmatch
    · cases hmatch
    · rename_i hne
      simp only [bne_iff_ne, ne_eq, Decidable.not_not] at hne
      simp [Node.isKwTok, hne, hm p hp]

/-! ### group_comments -/
theorem commentsLoop_tri {upper : Text → Text} : ∀ (n : Nat) (ks : List Node) (pend : Option (Nat × Node))
    (ks' : List Node), commentsLoop upper n ks pend = .ok ks' →
      (∀ tidx tok, pend = some (tidx, tok) →
        ks[tidx]? = some tok ∧ imt upper tok [] [] Gen.group_comments_imt0_t = true) → Tri ks ks' := by
  intro n
  induction n with
  | zero =>
    intro ks pend ks' h _
    cases pend with
    | none => simp [commentsLoop] at h; subst h; exact Tri.refl _
    | some p => simp [commentsLoop] at h
  | succ n ih =>
    intro ks pend ks' h hp
    cases pend with
    | none => simp [commentsLoop] at h; subst h; exact Tri.refl _
    | some p =>
      obtain ⟨tidx, tok⟩ := p
      obtain ⟨htok, hcm⟩ := hp tidx tok rfl
      simp only [commentsLoop] at h
      generalize hm : tokenMatchingFwd ks _ tidx = m at h
      cases m with
      | none => exact ih _ _ _ h (fun _ _ hq => pend_of_nextBy _ _ hq)
      | some q =>
        obtain ⟨eidx, e⟩ := q
        simp only at h
        cases hpv : tokenPrev ks eidx false with
        | none => simp [hpv] at h
        | some q2 =>
          obtain ⟨pe, pk⟩ := q2
          simp only [hpv] at h
          cases hg : groupTokens ks Gen.group_comments_group_tokens0_cls tidx pe true
              Gen.group_comments_group_tokens0_extend with
          | error e => simp [hg] at h
          | ok ks1 =>
            simp only [hg] at h
            obtain ⟨h1, h2, h3, _⟩ := tokenMatchingFwd_hit hm
            have hne : eidx ≠ tidx := by
              intro heq
              subst heq
              rw [htok] at h2
              cases h2
              simp [hcm] at h3
            have hlen : eidx < ks.length := (List.getElem?_eq_some_iff.1 h2).1
            have hpe := tokenPrev_noskip hpv (Nat.le_of_lt hlen) (by omega)
            exact (groupTokens_tri_plain hg rfl (by decide) (by omega)).trans
              (ih _ _ _ h (fun _ _ hq => pend_of_nextBy _ _ hq))

theorem groupCommentsBody_tri {upper : Text → Text} {c : Cls} {ks ks' : List Node}
    (h : groupCommentsBody upper c ks = .ok ks') : Tri ks ks' :=
  commentsLoop_tri _ _ _ _ h (fun _ _ hq => pend_of_nextBy _ _ hq)

/-! ### group_where -/
theorem whereEnd_ge {upper : Text → Text} {c : Cls} {ks : List Node} {tidx e : Nat} {tok : Node}
    (h : whereEnd upper c ks tidx = .ok e) (htok : ks[tidx]? = some tok) (hkw : tok.isKwTok = true)
    (hl : innerCls c = true → lastOk ks = true) : tidx ≤ e := by
  have hlen : tidx < ks.length := (List.getElem?_eq_some_iff.1 htok).1
  unfold whereEnd at h
  cases hnb : tokenNextBy upper ks [] Gen.group_where_token_next_by1_m .none (tidx + 1) with
  | none =>
    simp only [hnb] at h
    unfold groupableLastIdx at h
    by_cases hi : innerCls c = true
    · have hi' : Gen.groupableInner.contains c = true := hi
      rw [if_pos hi'] at h
      split at h
      · cases h
        have hlast := hl hi
        by_cases hx : tidx = ks.length - 1
        · exfalso
          have : ks.getLast? = some tok := by rw [List.getLast?_eq_getElem?, ← hx]; exact htok
          simp [lastOk, this, hkw] at hlast
        · omega
      · cases h
    · have hi' : ¬ Gen.groupableInner.contains c = true := hi
      rw [if_neg hi'] at h
      split at h
      · cases h; omega
      · cases h
  | some q =>
    obtain ⟨eidx, ek⟩ := q
    have := (tokenNextBy_spec hnb).1
    simp only [hnb] at h
    split at h
    · cases h; omega
    · omega

theorem whereLoop_tri {upper : Text → Text} {c : Cls} : ∀ (n : Nat) (ks : List Node) (pend : Option (Nat × Node))
    (ks' : List Node), whereLoop upper c n ks pend = .ok ks' →
      (∀ tidx tok, pend = some (tidx, tok) → ks[tidx]? = some tok ∧ tok.isKwTok = true) →
      (innerCls c = true → lastOk ks = true) → Tri ks ks' := by
  intro n
  induction n with
  | zero =>
    intro ks pend ks' h _ _
    cases pend with
    | none => simp [whereLoop] at h; subst h; exact Tri.refl _
    | some p => simp [whereLoop] at h
  | succ n ih =>
    intro ks pend ks' h hp hl
    cases pend with
    | none => simp [whereLoop] at h; subst h; exact Tri.refl _
    | some p =>
      obtain ⟨tidx, tok⟩ := p
      obtain ⟨htok, hkw⟩ := hp tidx tok rfl
      simp only [whereLoop] at h
      cases he : whereEnd upper c ks tidx with
      | error e => simp [he] at h
      | ok eidx =>
        simp only [he] at h
        cases hg : groupTokens ks Gen.group_where_group_tokens0_cls tidx eidx true
            Gen.group_where_group_tokens0_extend with
        | error e => simp [hg] at h
        | ok ks1 =>
          simp only [hg] at h
          have t1 := groupTokens_tri_plain hg rfl (by decide) (whereEnd_ge he htok hkw hl)
          refine t1.trans (ih _ _ _ h ?_ (fun hi => t1.last (hl hi)))
          intro t k hq
          obtain ⟨h1, h2⟩ := pend_of_nextBy _ _ hq
          exact ⟨h1, isKwTok_of_imt_m (by decide) h2⟩

theorem groupWhereBody_tri {upper : Text → Text} {c : Cls} {ks ks' : List Node}
    (h : groupWhereBody upper c ks = .ok ks') (hl : innerCls c = true → lastOk ks = true) : Tri ks ks' := by
  refine whereLoop_tri _ _ _ _ h ?_ hl
  intro t k hq
  obtain ⟨h1, h2⟩ := pend_of_nextBy _ _ hq
  exact ⟨h1, isKwTok_of_imt_m (by decide) h2⟩

/-! ### align_comments -/
theorem groupTokens_tri_tokenList {ks ks' : List Node} {a b : Nat} {st x : Node}
    (h : groupTokens ks .TokenList a b true true = .ok ks') (hst : ks[a]? = some st) (hgrp : st.isGroup = true)
    (hab : a < b) (hx : ks[b]? = some x) (hkw : x.isKwTok = false) : Tri ks ks' := by
  obtain ⟨r, hr, rfl⟩ := groupTokens_eq h
  refine ⟨fun hg => groupTokens'_goodL hr hg (groupTokens'_good_tokenList hr hg hst hgrp ?_),
    groupTokens'_lastOk hr, fun _ => groupTokens'_ne_nil hr⟩
  exact lastOk_pySlice (x := x) (by omega) (by simpa using hx) hkw

theorem alignLoop_tri {upper : Text → Text} : ∀ (n : Nat) (ks : List Node) (pend : Option (Nat × Node))
    (ks' : List Node), alignLoop upper n ks pend = .ok ks' →
      (∀ tidx tok, pend = some (tidx, tok) → ks[tidx]? = some tok ∧ tok.isGroup = true) → Tri ks ks' := by
  intro n
  induction n with
  | zero =>
    intro ks pend ks' h _
    cases pend with
    | none => simp [alignLoop] at h; subst h; exact Tri.refl _
    | some p => simp [alignLoop] at h
  | succ n ih =>
    intro ks pend ks' h hp
    have hpend : ∀ (ks1 : List Node) (start : Nat) t k,
        tokenNextBy upper ks1 Gen.align_comments_token_next_by1_i [] .none start = some (t, k) →
        ks1[t]? = some k ∧ k.isGroup = true := by
      intro ks1 start t k hq
      obtain ⟨h1, h2⟩ := pend_of_nextBy _ _ hq
      refine ⟨h1, isGroup_of_isInstAny (cs := Gen.align_comments_token_next_by1_i) ?_⟩
      simpa [imt] using h2
    cases pend with
    | none => simp [alignLoop] at h; subst h; exact Tri.refl _
    | some p =>
      obtain ⟨tidx, tok⟩ := p
      obtain ⟨htok, hgrp⟩ := hp tidx tok rfl
      simp only [alignLoop] at h
      cases hpv : tokenPrev ks tidx with
      | none => simp only [hpv] at h; exact ih _ _ _ h (hpend _ _)
      | some q =>
        obtain ⟨pidx, prev⟩ := q
        simp only [hpv] at h
        obtain ⟨hlt, hprev⟩ := tokenPrev_hit hpv
        by_cases hinst : prev.isInstAny Gen.align_comments_isinstance0 = true
        · rw [if_pos hinst] at h
          cases hg : groupTokens ks Gen.align_comments_group_tokens0_cls pidx tidx true
              Gen.align_comments_group_tokens0_extend with
          | error e => simp [hg] at h
          | ok ks1 =>
            simp only [hg] at h
            have t1 : Tri ks ks1 :=
              groupTokens_tri_tokenList hg hprev (isGroup_of_isInstAny hinst) hlt htok (isKwTok_of_group hgrp)
            exact t1.trans (ih _ _ _ h (hpend _ _))
        · rw [if_neg hinst] at h
          exact ih _ _ _ h (hpend _ _)

theorem alignCommentsBody_tri {upper : Text → Text} {c : Cls} {ks ks' : List Node}
    (h : alignCommentsBody upper c ks = .ok ks') : Tri ks ks' := by
  refine alignLoop_tri _ _ _ _ h ?_
  intro t k hq
  obtain ⟨h1, h2⟩ := pend_of_nextBy _ _ hq
  refine ⟨h1, isGroup_of_isInstAny (cs := Gen.align_comments_token_next_by0_i) ?_⟩
  simpa [imt] using h2

/-! ### group_values -/
theorem valuesLoop_ge {s : Nat} : ∀ (n : Nat) (ks : List Node) (pend : Option (Nat × Node)) (e : Option Nat)
    (endIdx : Nat), valuesLoop n ks pend e = .ok (some endIdx) →
      (∀ t k, pend = some (t, k) → s ≤ t) → (∀ x, e = some x → s ≤ x) → s ≤ endIdx := by
  intro n
  induction n with
  | zero =>
    intro ks pend e endIdx h _ he
    cases pend with
    | none => simp [valuesLoop] at h; exact he _ h
    | some p => simp [valuesLoop] at h
  | succ n ih =>
    intro ks pend e endIdx h hp he
    cases pend with
    | none => simp [valuesLoop] at h; exact he _ h
    | some p =>
      obtain ⟨tidx, tok⟩ := p
      simp only [valuesLoop] at h
      have hs := hp tidx tok rfl
      refine ih _ _ _ _ h ?_ ?_
      · intro t k hq
        have := (tokenNext_hit hq).1
        omega
      · intro x hx
        split at hx
        · cases hx; exact hs
        · exact he x hx

theorem groupValuesBody_tri {upper : Text → Text} {c : Cls} {ks ks' : List Node}
    (h : groupValuesBody upper c ks = .ok ks') : Tri ks ks' := by
  unfold groupValuesBody at h
  cases hnb : tokenNextBy upper ks [] Gen.group_values_token_next_by0_m .none 0 with
  | none => simp only [hnb] at h; cases h; exact Tri.refl _
  | some q =>
    obtain ⟨startIdx, token⟩ := q
    simp only [hnb] at h
    cases hv : valuesLoop (loopBound ks) ks (some (startIdx, token)) none with
    | error e => simp [hv] at h
    | ok r =>
      cases r with
      | none => simp only [hv] at h; cases h; exact Tri.refl _
      | some endIdx =>
        simp only [hv] at h
        have hle : startIdx ≤ endIdx := by
          refine valuesLoop_ge _ _ _ _ _ hv ?_ ?_
          · intro t k hq; cases hq; exact Nat.le_refl _
          · intro x hx; cases hx
        exact groupTokens_tri_plain h rfl (by decide) hle

end Sql
