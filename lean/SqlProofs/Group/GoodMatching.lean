import SqlModel.Grouping.Matching
import SqlProofs.Group.GoodLift
/-!
# SqlProofs.Group.GoodMatching — `_group_matching` keeps the tree well-formed

Loop invariant (`MInv`): the unvisited part of the snapshot is exactly `cur.drop (idx − off)` (no stale visits in
this driver), `off ≤ idx`, and the stack `opens` is strictly decreasing from the top and below the current index —
hence `open_idx < close_idx` at every grouping: a matched pair always has at least two children.
-/
namespace Sql

theorem groupTokens_eq {ks ks' : List Node} {cls : Cls} {a b : Nat} {ie ext : Bool}
    (h : groupTokens ks cls a b ie ext = .ok ks') : ∃ r, groupTokens' ks cls a b ie ext = .ok r ∧ r.1 = ks' := by
  unfold groupTokens at h
  split at h
  · rename_i r hr; cases h; exact ⟨r, hr, rfl⟩
  · cases h

theorem groupTokens'_ne_nil {ks : List Node} {cls : Cls} {a b : Nat} {ie ext : Bool} {r : List Node × Node}
    (h : groupTokens' ks cls a b ie ext = .ok r) : r.1 ≠ [] := by
  rcases groupTokens'_cases h with ⟨c, kids, _, _, _, rfl⟩ | ⟨_, _, rfl⟩ <;> simp

theorem drop_splice {α : Type} (l : List α) (a : Nat) (ha : a ≤ l.length) (g : α) (tl : List α) :
    (l.take a ++ g :: tl).drop (a + 1) = tl := by
  have h2 : (l.take a).length = a := by simp [List.length_take]; omega
  have : (l.take a ++ g :: tl).drop ((l.take a).length + 1) = tl := by
    rw [List.drop_append, List.drop_eq_nil_of_le (by omega)]
    simp
  rwa [h2] at this

/-- the stack of open positions: strictly decreasing from the top, all below `b` -/
def OpensOk : List Nat → Nat → Prop
  | [], _ => True
  | o :: r, b => o < b ∧ OpensOk r o

theorem OpensOk.mono {l : List Nat} {b b' : Nat} (h : OpensOk l b) (hb : b ≤ b') : OpensOk l b' := by
  cases l with
  | nil => trivial
  | cons o r => exact ⟨Nat.lt_of_lt_of_le h.1 hb, h.2⟩

structure MInv (snap : List Node) (idx : Nat) (st : MatchSt) : Prop where
  off_le : st.off ≤ idx
  aligned : snap = st.cur.drop (idx - st.off)
  opens : OpensOk st.opens (idx - st.off)
  good : goodL st.cur = true

/-- a leaf matching a pattern whose type is not `Keyword` is not a keyword leaf -/
theorem not_isKwTok_of_match {upper : Text → Text} {ps : List MPat} (hps : ∀ p ∈ ps, p.tt ≠ T.Keyword) {x : Node}
    (hx : ps.any (x.matchP upper) = true) : x.isKwTok = false := by
  simp only [List.any_eq_true] at hx
  obtain ⟨p, hp, hm⟩ := hx
  cases x with
  | grp c ks => rfl
  | tok t v =>
    simp only [Node.matchP, Node.match] at hm
    simp only [Node.isKwTok, beq_eq_false_iff_ne, ne_eq]
    intro ht
    split at hm
    · cases hm
    · rename_i hne
      simp only [bne_iff_ne, ne_eq, Decidable.not_not] at hne
      exact hps p hp (hne ▸ ht)

theorem matchStep_inv {upper : Text → Text} {cls : Cls} {mOpen mClose : List MPat}
    (hclose : innerCls cls = true → ∀ p ∈ mClose, p.tt ≠ T.Keyword)
    {st st' : MatchSt} {idx : Nat} {token : Node} {snap : List Node}
    (hinv : MInv (token :: snap) idx st) (h : matchStep upper cls mOpen mClose st idx token = .ok st') :
    MInv snap (idx + 1) st' ∧ (lastOk st.cur = true → lastOk st'.cur = true) ∧ (st.cur ≠ [] → st'.cur ≠ []) := by
  obtain ⟨hoff, hal, hop, hg⟩ := hinv
  have htail : snap = st.cur.drop (idx + 1 - st.off) := by
    have := congrArg List.tail hal
    simp only [List.tail_cons, List.tail_drop] at this
    rw [this, show idx + 1 - st.off = idx - st.off + 1 by omega]
  have hsame : MInv snap (idx + 1) st := ⟨by omega, htail, hop.mono (by omega), hg⟩
  unfold matchStep at h
  simp only at h
  split at h
  · cases h; exact ⟨hsame, id, id⟩
  · split at h
    · cases h; exact ⟨hsame, id, id⟩
    · split at h
      · cases h
        refine ⟨⟨by simpa using (by omega : st.off ≤ idx + 1), htail, ?_, hg⟩, id, id⟩
        exact ⟨by simp only; omega, hop⟩
      · split at h
        · rename_i hcl
          split at h
          · cases h; exact ⟨hsame, id, id⟩
          · rename_i o rest hopens
            split at h
            · cases h
            · rename_i cur' hgt
              cases h
              rw [hopens] at hop
              obtain ⟨hlt, hrest⟩ := hop
              obtain ⟨r, hr, rfl⟩ := groupTokens_eq hgt
              have htok : st.cur[idx - st.off]? = some token := by
                have : (st.cur.drop (idx - st.off))[0]? = some token := by rw [← hal]; rfl
                simpa [List.getElem?_drop] using this
              have hlen : idx - st.off < st.cur.length := (List.getElem?_eq_some_iff.1 htok).1
              have hgood2 : r.2.good = true := by
                apply groupTokens'_good_new hr hg (Nat.le_of_lt hlt)
                intro hi
                exact lastOk_pySlice (x := token) (by omega) (by simpa using htok)
                  (not_isKwTok_of_match (hclose hi) hcl)
              have hshape : r.1 = st.cur.take o ++ r.2 :: st.cur.drop (idx - st.off + 1) := by
                have hc := groupTokens'_cases hr
                simp only [↓reduceIte] at hc
                rcases hc with ⟨c, kids, hext, _⟩ | ⟨_, _, rfl⟩
                · cases hext
                · simp only
                  rw [Nat.max_eq_right (by omega)]
              refine ⟨⟨?_, ?_, ?_, groupTokens'_goodL hr hg hgood2⟩, groupTokens'_lastOk hr, fun _ => groupTokens'_ne_nil hr⟩
              · simp only; omega
              · simp only
                rw [htail, hshape]
                have h1 : idx + 1 - (st.off + (idx - st.off - o)) = o + 1 := by omega
                rw [h1, drop_splice _ _ (by omega)]
                congr 1
                omega
              · simp only
                have h1 : idx + 1 - (st.off + (idx - st.off - o)) = o + 1 := by omega
                rw [h1]
                exact hrest.mono (by omega)
        · cases h; exact ⟨hsame, id, id⟩

theorem matchLoop_inv {upper : Text → Text} {cls : Cls} {mOpen mClose : List MPat}
    (hclose : innerCls cls = true → ∀ p ∈ mClose, p.tt ≠ T.Keyword) :
    ∀ (snap : List Node) (idx : Nat) (st st' : MatchSt), MInv snap idx st →
      matchLoop upper cls mOpen mClose snap idx st = .ok st' →
      goodL st'.cur = true ∧ (lastOk st.cur = true → lastOk st'.cur = true) ∧ (st.cur ≠ [] → st'.cur ≠ []) := by
  intro snap
  induction snap with
  | nil => intro idx st st' hinv h; simp [matchLoop] at h; subst h; exact ⟨hinv.good, id, id⟩
  | cons token snap ih =>
    intro idx st st' hinv h
    simp only [matchLoop] at h
    cases hs : matchStep upper cls mOpen mClose st idx token with
    | error e => simp [hs] at h
    | ok st1 =>
      simp only [hs] at h
      obtain ⟨hinv1, hl1, hn1⟩ := matchStep_inv hclose hinv hs
      obtain ⟨hg2, hl2, hn2⟩ := ih _ _ _ hinv1 h
      exact ⟨hg2, fun hl => hl2 (hl1 hl), fun hn => hn2 (hn1 hn)⟩

theorem groupMatching_good {upper : Text → Text} {cls : Cls} {mOpen mClose : List MPat}
    (hclose : innerCls cls = true → ∀ p ∈ mClose, p.tt ≠ T.Keyword) :
    ∀ (fuel : Nat), KidsGood (fun _ ks => groupMatching upper cls mOpen mClose fuel ks) := by
  intro fuel
  induction fuel with
  | zero => intro c ks ks' h; simp [groupMatching] at h
  | succ n ih =>
    intro c ks ks' h hk
    simp only [groupMatching] at h
    cases hm : mapGroups (fun k => !k.isInst cls) (fun _ kids => groupMatching upper cls mOpen mClose n kids) ks with
    | error e => simp [hm] at h
    | ok ks1 =>
      simp only [hm] at h
      cases hl : matchLoop upper cls mOpen mClose ks1 0 { cur := ks1, opens := [], off := 0 } with
      | error e => simp [hl] at h
      | ok st =>
        simp only [hl, Except.ok.injEq] at h
        subst h
        obtain ⟨h1, h1'⟩ := hk.of_map (mapGroups_good ih _ _ hm hk.1)
        have hinv : MInv ks1 0 { cur := ks1, opens := [], off := 0 } :=
          ⟨Nat.le_refl _, by simp, trivial, h1.1⟩
        obtain ⟨hg, hlast, hne⟩ := matchLoop_inv hclose _ _ _ _ hinv hl
        exact ⟨⟨hg, fun hi => hlast (h1.2 hi)⟩, fun hn => hne (h1' hn)⟩

end Sql
