import SqlModel.Grouping.AdHoc
import SqlProofs.Group.Lift
/-!
# SqlProofs.Group.AdHoc — the nine loop passes keep the leaves exactly

Every iteration of every loop either leaves the list alone or replaces it by a `groupTokens` result.
-/
namespace Sql

/-- after unfolding one iteration into `h`: split every `match`/`if`, then each branch is an error (impossible),
the recursive call on the same list, or the recursive call after one `groupTokens` -/
macro "loop_step" h:ident ih:ident : tactic => `(tactic| (
  repeat' (split at $h:ident)
  all_goals first
    | (cases $h:ident; done)
    | (cases $h:ident; rfl)
    | exact $ih _ _ _ $h
    | (rw [$ih _ _ _ $h]; apply groupTokens_leaves; assumption)))

/-- the whole induction for a loop `f : Nat → List Node → Option (Nat × Node) → Except PyErr (List Node)` -/
macro "loop_leaves" f:ident : tactic => `(tactic| (
  intro n
  induction n with
  | zero =>
    intro ks pend ks' h
    cases pend with
    | none => simp [$f:ident] at h; subst h; rfl
    | some p => simp [$f:ident] at h
  | succ n ih =>
    intro ks pend ks' h
    cases pend with
    | none => simp [$f:ident] at h; subst h; rfl
    | some p =>
      obtain ⟨tidx, tok⟩ := p
      simp only [$f:ident] at h
      loop_step h ih))

theorem identifierLoop_leaves {upper : Text → Text} : ∀ (n : Nat) (ks : List Node) (pend : Option (Nat × Node))
    (ks' : List Node), identifierLoop upper n ks pend = .ok ks' → Node.leavesL ks' = Node.leavesL ks := by
  loop_leaves identifierLoop

theorem overLoop_leaves {upper : Text → Text} : ∀ (n : Nat) (ks : List Node) (pend : Option (Nat × Node))
    (ks' : List Node), overLoop upper n ks pend = .ok ks' → Node.leavesL ks' = Node.leavesL ks := by
  loop_leaves overLoop

theorem commentsLoop_leaves {upper : Text → Text} : ∀ (n : Nat) (ks : List Node) (pend : Option (Nat × Node))
    (ks' : List Node), commentsLoop upper n ks pend = .ok ks' → Node.leavesL ks' = Node.leavesL ks := by
  loop_leaves commentsLoop

theorem whereLoop_leaves {upper : Text → Text} {c : Cls} : ∀ (n : Nat) (ks : List Node) (pend : Option (Nat × Node))
    (ks' : List Node), whereLoop upper c n ks pend = .ok ks' → Node.leavesL ks' = Node.leavesL ks := by
  loop_leaves whereLoop

theorem aliasedLoop_leaves {upper : Text → Text} : ∀ (n : Nat) (ks : List Node) (pend : Option (Nat × Node))
    (ks' : List Node), aliasedLoop upper n ks pend = .ok ks' → Node.leavesL ks' = Node.leavesL ks := by
  loop_leaves aliasedLoop

theorem functionsLoop_leaves {upper : Text → Text} : ∀ (n : Nat) (ks : List Node) (pend : Option (Nat × Node))
    (ks' : List Node), functionsLoop upper n ks pend = .ok ks' → Node.leavesL ks' = Node.leavesL ks := by
  loop_leaves functionsLoop

theorem orderLoop_leaves {upper : Text → Text} : ∀ (n : Nat) (ks : List Node) (pend : Option (Nat × Node))
    (ks' : List Node), orderLoop upper n ks pend = .ok ks' → Node.leavesL ks' = Node.leavesL ks := by
  loop_leaves orderLoop

theorem alignLoop_leaves {upper : Text → Text} : ∀ (n : Nat) (ks : List Node) (pend : Option (Nat × Node))
    (ks' : List Node), alignLoop upper n ks pend = .ok ks' → Node.leavesL ks' = Node.leavesL ks := by
  loop_leaves alignLoop

/-! ### the pass bodies (`KidsRel (· = ·)`: exact preservation) -/
abbrev KidsEq := KidsRel (fun a b => b = a)

theorem groupIdentifierBody_leaves (u) : KidsEq (groupIdentifierBody u) :=
  fun _ _ _ h => identifierLoop_leaves _ _ _ _ h

theorem groupOverBody_leaves (u) : KidsEq (groupOverBody u) :=
  fun _ _ _ h => overLoop_leaves _ _ _ _ h

theorem groupCommentsBody_leaves (u) : KidsEq (groupCommentsBody u) :=
  fun _ _ _ h => commentsLoop_leaves _ _ _ _ h

theorem groupWhereBody_leaves (u) : KidsEq (groupWhereBody u) :=
  fun _ _ _ h => whereLoop_leaves _ _ _ _ h

theorem groupAliasedBody_leaves (u) : KidsEq (groupAliasedBody u) :=
  fun _ _ _ h => aliasedLoop_leaves _ _ _ _ h

theorem groupFunctionsBody_leaves (u) : KidsEq (groupFunctionsBody u) := by
  intro c ks ks' h
  unfold groupFunctionsBody at h
  split at h
  · cases h; rfl
  · exact functionsLoop_leaves _ _ _ _ h

theorem groupOrderBody_leaves (u) : KidsEq (groupOrderBody u) :=
  fun _ _ _ h => orderLoop_leaves _ _ _ _ h

theorem alignCommentsBody_leaves (u) : KidsEq (alignCommentsBody u) :=
  fun _ _ _ h => alignLoop_leaves _ _ _ _ h

theorem groupValuesBody_leaves (u) : KidsEq (groupValuesBody u) := by
  intro c ks ks' h
  unfold groupValuesBody at h
  split at h
  · cases h; rfl
  · split at h
    · cases h
    · cases h; rfl
    · exact groupTokens_leaves h

end Sql
