import SqlProofs.Group.LeadDriver
/-!
# SqlProofs.Group.LeadShape — the shape `skippable* K whitespace* tail` of a child list and what keeps it

`LeadAt bad K L pre ws tail`: `L = pre ++ K :: ws ++ tail`, the children in `pre` are skipped by
`token_first(skip_ws=True, skip_cm=True)`, `ws` are whitespace leaves, and the first child of `tail` (if any) is not
whitespace and not `bad`.  Kept by `PrefRel (|pre| + 1 + |ws|)`, by recursion into sub-groups (`mapGroups`), and by
the parent-level loop of `_group` when `K` is inert for the configuration.
-/
namespace Sql

/-- skipped by `token_first(skip_ws=True, skip_cm=True)`: whitespace, a comment leaf, or a `Comment` group -/
def Node.skippable (x : Node) : Bool := !skipMatcher true true x

structure LeadAt (bad : Node → Bool) (K : Node) (L pre ws tail : List Node) : Prop where
  eq : L = pre ++ K :: ws ++ tail
  pre : ∀ x ∈ pre, x.skippable = true
  ws : ∀ x ∈ ws, x.isWhitespace = true
  tail : ∀ h, tail.head? = some h → h.isWhitespace = false ∧ bad h = false

def Lead (bad : Node → Bool) (K : Node) (L : List Node) : Prop := ∃ pre ws tail, LeadAt bad K L pre ws tail

/-- `bad` is stable under what can happen to the head of the tail -/
def BadStable (bad : Node → Bool) : Prop :=
  ∀ x x', HeadRel x x' → x.isWhitespace = false → bad x = false → x'.isWhitespace = false ∧ bad x' = false

theorem leadAt_of_prefRel {bad : Node → Bool} (hb : BadStable bad) {K : Node} {L L' pre ws tail : List Node}
    (h : LeadAt bad K L pre ws tail) (hr : PrefRel (pre.length + 1 + ws.length) L L') :
    ∃ tail', LeadAt bad K L' pre ws tail' := by
  obtain ⟨heq, hpre, hws, htail⟩ := h
  have hlen : (pre ++ K :: ws).length = pre.length + 1 + ws.length := by simp; omega
  have hassoc : pre ++ K :: ws ++ tail = (pre ++ K :: ws) ++ tail := by simp
  have htake : L.take (pre.length + 1 + ws.length) = pre ++ K :: ws := by
    rw [heq, ← hlen, hassoc, List.take_left' rfl]
  have hLs : L[pre.length + 1 + ws.length]? = tail.head? := by
    rw [heq, hassoc, List.getElem?_append_right (by rw [hlen]; exact Nat.le_refl _), hlen]
    simp [List.head?_eq_getElem?]
  refine ⟨L'.drop (pre.length + 1 + ws.length), ?_, hpre, hws, ?_⟩
  · have := (List.take_append_drop (pre.length + 1 + ws.length) L').symm
    rw [hr.pre, htake] at this
    simpa [List.append_assoc] using this
  · intro h' hh'
    rw [List.head?_drop] at hh'
    cases htl : tail.head? with
    | none =>
      rw [htl] at hLs
      rw [hr.none hLs] at hh'
      cases hh'
    | some h0 =>
      rw [htl] at hLs
      obtain ⟨x', hx', hrel⟩ := hr.head h0 hLs
      rw [hx'] at hh'
      cases hh'
      obtain ⟨h1, h2⟩ := htail h0 htl
      exact hb _ _ hrel h1 h2

/-! ### recursion into sub-groups keeps the top-level shape -/
theorem mapGroups_append {elig : Node → Bool} {f : Cls → List Node → Except PyErr (List Node)} :
    ∀ (a b r : List Node), mapGroups elig f (a ++ b) = .ok r →
      ∃ ra rb, mapGroups elig f a = .ok ra ∧ mapGroups elig f b = .ok rb ∧ r = ra ++ rb := by
  intro a
  induction a with
  | nil => intro b r h; exact ⟨[], r, by simp [mapGroups], by simpa using h, rfl⟩
  | cons k rest ih =>
    intro b r h
    cases k with
    | tok tt v =>
      simp only [List.cons_append, mapGroups] at h ⊢
      cases hr : mapGroups elig f (rest ++ b) with
      | error e => simp [hr] at h
      | ok r1 =>
        simp only [hr, Except.ok.injEq] at h
        subst h
        obtain ⟨ra, rb, h1, h2, rfl⟩ := ih _ _ hr
        exact ⟨_ :: ra, rb, by simp [h1], h2, rfl⟩
    | grp c kids =>
      simp only [List.cons_append, mapGroups] at h ⊢
      by_cases he : elig (.grp c kids) = true
      · rw [if_pos he] at h ⊢
        cases hk : f c kids with
        | error e => simp [hk] at h
        | ok kids' =>
          simp only [hk] at h ⊢
          cases hr : mapGroups elig f (rest ++ b) with
          | error e => simp [hr] at h
          | ok r1 =>
            simp only [hr, Except.ok.injEq] at h
            subst h
            obtain ⟨ra, rb, h1, h2, rfl⟩ := ih _ _ hr
            exact ⟨_ :: ra, rb, by simp [h1], h2, rfl⟩
      · rw [if_neg he] at h ⊢
        cases hr : mapGroups elig f (rest ++ b) with
        | error e => simp [hr] at h
        | ok r1 =>
          simp only [hr, Except.ok.injEq] at h
          subst h
          obtain ⟨ra, rb, h1, h2, rfl⟩ := ih _ _ hr
          exact ⟨_ :: ra, rb, by simp [h1], h2, rfl⟩

/-- a property of nodes that only looks at leaf-ness and class -/
def ClassOnly (P : Node → Prop) : Prop := ∀ c k k', P (Node.grp c k) → P (Node.grp c k')

theorem mapGroups_forall {elig : Node → Bool} {f : Cls → List Node → Except PyErr (List Node)} {P : Node → Prop}
    (hP : ClassOnly P) : ∀ (a r : List Node), mapGroups elig f a = .ok r → (∀ x ∈ a, P x) → ∀ x ∈ r, P x := by
  intro a
  induction a with
  | nil => intro r h _; simp [mapGroups] at h; subst h; intro x hx; cases hx
  | cons k rest ih =>
    intro r h ha
    have hk := ha k List.mem_cons_self
    have hrest := fun x hx => ha x (List.mem_cons_of_mem _ hx)
    cases k with
    | tok tt v =>
      simp only [mapGroups] at h
      cases hr : mapGroups elig f rest with
      | error e => simp [hr] at h
      | ok r1 =>
        simp only [hr, Except.ok.injEq] at h
        subst h
        intro x hx
        cases hx with
        | head => exact hk
        | tail _ hx => exact ih _ hr hrest x hx
    | grp c kids =>
      simp only [mapGroups] at h
      by_cases he : elig (.grp c kids) = true
      · rw [if_pos he] at h
        cases hkk : f c kids with
        | error e => simp [hkk] at h
        | ok kids' =>
          simp only [hkk] at h
          cases hr : mapGroups elig f rest with
          | error e => simp [hr] at h
          | ok r1 =>
            simp only [hr, Except.ok.injEq] at h
            subst h
            intro x hx
            cases hx with
            | head => exact hP _ _ _ hk
            | tail _ hx => exact ih _ hr hrest x hx
      · rw [if_neg he] at h
        cases hr : mapGroups elig f rest with
        | error e => simp [hr] at h
        | ok r1 =>
          simp only [hr, Except.ok.injEq] at h
          subst h
          intro x hx
          cases hx with
          | head => exact hk
          | tail _ hx => exact ih _ hr hrest x hx

theorem mapGroups_leaves_only {elig : Node → Bool} {f : Cls → List Node → Except PyErr (List Node)} :
    ∀ (a r : List Node), mapGroups elig f a = .ok r → (∀ x ∈ a, x.isGroup = false) → r = a := by
  intro a
  induction a with
  | nil => intro r h _; simpa [mapGroups] using h.symm
  | cons k rest ih =>
    intro r h ha
    cases k with
    | tok tt v =>
      simp only [mapGroups] at h
      cases hr : mapGroups elig f rest with
      | error e => simp [hr] at h
      | ok r1 =>
        simp only [hr, Except.ok.injEq] at h
        subst h
        rw [ih _ hr (fun x hx => ha x (List.mem_cons_of_mem _ hx))]
    | grp c kids => have := ha _ List.mem_cons_self; cases this

theorem mapGroups_head {elig : Node → Bool} {f : Cls → List Node → Except PyErr (List Node)} {P : Node → Prop}
    (hP : ClassOnly P) {a r : List Node} (h : mapGroups elig f a = .ok r) :
    ∀ x', r.head? = some x' → ∃ x, a.head? = some x ∧ (P x → P x') := by
  intro x' hx'
  cases a with
  | nil => simp [mapGroups] at h; subst h; cases hx'
  | cons k rest =>
    refine ⟨k, rfl, ?_⟩
    cases k with
    | tok tt v =>
      simp only [mapGroups] at h
      cases hr : mapGroups elig f rest with
      | error e => simp [hr] at h
      | ok r1 =>
        simp only [hr, Except.ok.injEq] at h
        subst h
        simp only [List.head?_cons, Option.some.injEq] at hx'
        subst hx'
        exact id
    | grp c kids =>
      simp only [mapGroups] at h
      by_cases he : elig (.grp c kids) = true
      · rw [if_pos he] at h
        cases hkk : f c kids with
        | error e => simp [hkk] at h
        | ok kids' =>
          simp only [hkk] at h
          cases hr : mapGroups elig f rest with
          | error e => simp [hr] at h
          | ok r1 =>
            simp only [hr, Except.ok.injEq] at h
            subst h
            simp only [List.head?_cons, Option.some.injEq] at hx'
            subst hx'
            exact hP _ _ _
      · rw [if_neg he] at h
        cases hr : mapGroups elig f rest with
        | error e => simp [hr] at h
        | ok r1 =>
          simp only [hr, Except.ok.injEq] at h
          subst h
          simp only [List.head?_cons, Option.some.injEq] at hx'
          subst hx'
          exact id

theorem classOnly_skippable : ClassOnly (fun x => x.skippable = true) := by
  intro c k k' h
  simpa [Node.skippable, skipMatcher, Node.isWhitespace, Node.ttIn, Node.isInst] using h

/-- `bad` never holds of a group -/
def BadLeaf (bad : Node → Bool) : Prop := ∀ c k, bad (Node.grp c k) = false

theorem lead_mapGroups {bad : Node → Bool} (hb : BadLeaf bad) {K : Node} (hK : K.isGroup = false)
    {elig : Node → Bool} {f : Cls → List Node → Except PyErr (List Node)} {L L' : List Node}
    (h : mapGroups elig f L = .ok L') (hl : Lead bad K L) : Lead bad K L' := by
  obtain ⟨pre, ws, tail, heq, hpre, hws, htail⟩ := hl
  rw [heq] at h
  obtain ⟨pre', r2, h1, h2, rfl⟩ := mapGroups_append _ _ _ (by simpa [List.append_assoc] using h)
  obtain ⟨mid', tail', h3, h4, rfl⟩ := mapGroups_append (K :: ws) tail _ (by simpa using h2)
  have hmid : mid' = K :: ws := mapGroups_leaves_only _ _ h3 (by
    intro x hx
    cases hx with
    | head => exact hK
    | tail _ hx =>
      have := hws x hx
      cases x with
      | tok _ _ => rfl
      | grp _ _ => simp [Node.isWhitespace] at this)
  subst hmid
  refine ⟨pre', ws, tail', by simp, mapGroups_forall classOnly_skippable _ _ h1 hpre, hws, ?_⟩
  intro h' hh'
  obtain ⟨x, hx, himp⟩ := mapGroups_head (P := fun y => y.isWhitespace = false ∧ bad y = false)
    (by intro c k k' _; exact ⟨rfl, hb c k'⟩) h4 h' hh'
  exact himp (htail x hx)

/-! ### the same for any elementwise, class-preserving map (`mapGroupsWhere`) -/
def SameTop (x x' : Node) : Prop := x' = x ∨ ∃ c k k', x = Node.grp c k ∧ x' = Node.grp c k'

inductive EltMap : List Node → List Node → Prop
  | nil : EltMap [] []
  | cons {x x' : Node} {xs xs' : List Node} : SameTop x x' → EltMap xs xs' → EltMap (x :: xs) (x' :: xs')

theorem EltMap.refl (l : List Node) : EltMap l l := by
  induction l with
  | nil => exact .nil
  | cons x xs ih => exact .cons (Or.inl rfl) ih

theorem EltMap.split {a b r : List Node} (h : EltMap (a ++ b) r) :
    ∃ ra rb, r = ra ++ rb ∧ EltMap a ra ∧ EltMap b rb := by
  induction a generalizing r with
  | nil => exact ⟨[], r, rfl, .nil, h⟩
  | cons x a ih =>
    cases h with
    | cons hx hrest =>
      obtain ⟨ra, rb, rfl, h1, h2⟩ := ih hrest
      exact ⟨_ :: ra, rb, rfl, .cons hx h1, h2⟩

theorem EltMap.forall {P : Node → Prop} (hP : ClassOnly P) {a r : List Node} (h : EltMap a r)
    (ha : ∀ x ∈ a, P x) : ∀ x ∈ r, P x := by
  induction h with
  | nil => intro x hx; cases hx
  | @cons x x' xs xs' hx _ ih =>
    intro y hy
    cases hy with
    | head =>
      rcases hx with rfl | ⟨c, k, k', rfl, rfl⟩
      · exact ha _ List.mem_cons_self
      · exact hP _ _ _ (ha _ List.mem_cons_self)
    | tail _ hy => exact ih (fun z hz => ha z (List.mem_cons_of_mem _ hz)) y hy

theorem EltMap.leaves_only {a r : List Node} (h : EltMap a r) (ha : ∀ x ∈ a, x.isGroup = false) : r = a := by
  induction h with
  | nil => rfl
  | @cons x x' xs xs' hx _ ih =>
    rcases hx with rfl | ⟨c, k, k', rfl, rfl⟩
    · rw [ih (fun z hz => ha z (List.mem_cons_of_mem _ hz))]
    · have := ha _ List.mem_cons_self; cases this

theorem lead_eltMap {bad : Node → Bool} (hb : BadLeaf bad) {K : Node} (hK : K.isGroup = false)
    {L L' : List Node} (h : EltMap L L') (hl : Lead bad K L) : Lead bad K L' := by
  obtain ⟨pre, ws, tail, heq, hpre, hws, htail⟩ := hl
  rw [heq] at h
  obtain ⟨r1, tail', rfl, h12, h4⟩ := h.split
  obtain ⟨pre', mid', rfl, h1, h3⟩ := h12.split
  have hmid : mid' = K :: ws := h3.leaves_only (by
    intro x hx
    cases hx with
    | head => exact hK
    | tail _ hx =>
      have := hws x hx
      cases x with
      | tok _ _ => rfl
      | grp _ _ => simp [Node.isWhitespace] at this)
  subst hmid
  refine ⟨pre', ws, tail', rfl, h1.forall classOnly_skippable hpre, hws, ?_⟩
  intro h' hh'
  cases h4 with
  | nil => cases hh'
  | @cons x x' xs xs' hx _ =>
    simp only [List.head?_cons, Option.some.injEq] at hh'
    subst hh'
    have := htail x rfl
    rcases hx with rfl | ⟨c, k, k', rfl, rfl⟩
    · exact this
    · exact ⟨rfl, hb c k'⟩

theorem mapGroupsWhere_eltMap {f : Cls → List Node → Except PyErr (List Node)} :
    ∀ (bs : List Bool) (ks r : List Node), mapGroupsWhere f bs ks = .ok r → EltMap ks r := by
  intro bs ks
  induction ks generalizing bs with
  | nil => intro r h; simp [mapGroupsWhere] at h; subst h; exact .nil
  | cons k rest ih =>
    intro r h
    cases bs with
    | nil => simp [mapGroupsWhere] at h; subst h; exact EltMap.refl _
    | cons b bs =>
      cases k with
      | tok tt v =>
        simp only [mapGroupsWhere] at h
        cases hr : mapGroupsWhere f bs rest with
        | error e => simp [hr] at h
        | ok r1 =>
          simp only [hr, Except.ok.injEq] at h
          subst h
          exact .cons (Or.inl rfl) (ih _ _ hr)
      | grp c kids =>
        simp only [mapGroupsWhere] at h
        by_cases hb : b = true
        · rw [if_pos hb] at h
          cases hk : f c kids with
          | error e => simp [hk] at h
          | ok kids' =>
            simp only [hk] at h
            cases hr : mapGroupsWhere f bs rest with
            | error e => simp [hr] at h
            | ok r1 =>
              simp only [hr, Except.ok.injEq] at h
              subst h
              exact .cons (Or.inr ⟨c, kids, kids', rfl, rfl⟩) (ih _ _ hr)
        · rw [if_neg hb] at h
          cases hr : mapGroupsWhere f bs rest with
          | error e => simp [hr] at h
          | ok r1 =>
            simp only [hr, Except.ok.injEq] at h
            subst h
            exact .cons (Or.inl rfl) (ih _ _ hr)

end Sql
