import SqlProofs.Group.Good
/-!
# SqlProofs.Group.GoodTokens — when `group_tokens` keeps the tree well-formed (`goodL`, `lastOk`)
-/
namespace Sql

/-- the two branches of `group_tokens`, with everything they determine -/
theorem groupTokens'_cases {ks : List Node} {cls : Cls} {a b : Nat} {ie ext : Bool} {r : List Node × Node}
    (h : groupTokens' ks cls a b ie ext = .ok r) :
    (∃ c kids, ext = true ∧ ks[a]? = some (Node.grp c kids) ∧ (Node.grp c kids).isInst cls = true ∧
        r = (ks.take a ++ Node.grp c (kids ++ pySlice ks (a + 1) (b + if ie = true then 1 else 0)) ::
               ks.drop (max (a + 1) (b + if ie = true then 1 else 0)),
             Node.grp c (kids ++ pySlice ks (a + 1) (b + if ie = true then 1 else 0)))) ∨
    (a < ks.length ∧ (ext = false ∨ ∀ st, ks[a]? = some st → st.isInst cls = false) ∧
        r = (ks.take a ++ Node.grp cls (pySlice ks a (b + if ie = true then 1 else 0)) ::
               ks.drop (max a (b + if ie = true then 1 else 0)),
             Node.grp cls (pySlice ks a (b + if ie = true then 1 else 0)))) := by
  unfold groupTokens' at h
  cases hst : ks[a]? with
  | none => simp [hst] at h
  | some st =>
    have hlt : a < ks.length := (List.getElem?_eq_some_iff.1 hst).1
    simp only [hst] at h
    cases st with
    | tok tt v =>
      simp only [Except.ok.injEq] at h
      subst h
      exact Or.inr ⟨hlt, Or.inr (by intro st hs; cases hs; rfl), rfl⟩
    | grp c kids =>
      simp only at h
      by_cases hc : (ext && (Node.grp c kids).isInst cls) = true
      · rw [if_pos hc] at h
        simp only [Except.ok.injEq] at h
        subst h
        simp only [Bool.and_eq_true] at hc
        exact Or.inl ⟨c, kids, hc.1, rfl, hc.2, rfl⟩
      · rw [if_neg hc] at h
        simp only [Except.ok.injEq] at h
        subst h
        refine Or.inr ⟨hlt, ?_, rfl⟩
        simp only [Bool.and_eq_true, not_and, Bool.not_eq_true] at hc
        cases ext with
        | false => exact Or.inl rfl
        | true => exact Or.inr (by intro st hs; cases hs; exact hc rfl)

/-- the returned group sits at index `start` of the new list, is a group and an instance of `cls` -/
theorem groupTokens'_at {ks : List Node} {cls : Cls} {a b : Nat} {ie ext : Bool} {r : List Node × Node}
    (h : groupTokens' ks cls a b ie ext = .ok r) :
    r.1[a]? = some r.2 ∧ r.2.isInst cls = true ∧ a < ks.length := by
  have hat : ∀ (g : Node) (tl : List Node), a < ks.length → (ks.take a ++ g :: tl)[a]? = some g := by
    intro g tl hlt
    rw [List.getElem?_append_right (by simp [List.length_take]; omega)]
    simp [List.length_take, Nat.min_eq_left (Nat.le_of_lt hlt)]
  rcases groupTokens'_cases h with ⟨c, kids, _, hst, hinst, rfl⟩ | ⟨hlt, _, rfl⟩
  · have hlt : a < ks.length := (List.getElem?_eq_some_iff.1 hst).1
    refine ⟨hat _ _ hlt, ?_, hlt⟩
    simpa [Node.isInst] using hinst
  · exact ⟨hat _ _ hlt, by simp [Node.isInst], hlt⟩

/-- placing a good group between a prefix and a suffix of a good list -/
theorem good_splice {ks : List Node} (hg : goodL ks = true) (a e : Nat) {g : Node} (hgood : g.good = true) :
    goodL (ks.take a ++ g :: ks.drop e) = true := by
  simp [goodL_append, goodL_take hg, goodL_drop hg, hgood]

theorem lastOk_splice {ks : List Node} (hl : lastOk ks = true) (a e : Nat) (c : Cls) (kids : List Node) :
    lastOk (ks.take a ++ Node.grp c kids :: ks.drop e) = true := by
  rw [lastOk_append_cons]
  by_cases hd : ks.drop e = []
  · rw [hd]; exact lastOk_grp_singleton c kids
  · rw [lastOk_cons_of_ne hd]; exact lastOk_drop hl e

/-- `group_tokens` never changes whether the last child is a keyword leaf to "yes" -/
theorem groupTokens'_lastOk {ks : List Node} {cls : Cls} {a b : Nat} {ie ext : Bool} {r : List Node × Node}
    (h : groupTokens' ks cls a b ie ext = .ok r) (hl : lastOk ks = true) : lastOk r.1 = true := by
  rcases groupTokens'_cases h with ⟨c, kids, _, _, _, rfl⟩ | ⟨_, _, rfl⟩
  · exact lastOk_splice hl _ _ _ _
  · exact lastOk_splice hl _ _ _ _

/-- the general statement: the new list is good as soon as the returned group is -/
theorem groupTokens'_goodL {ks : List Node} {cls : Cls} {a b : Nat} {ie ext : Bool} {r : List Node × Node}
    (h : groupTokens' ks cls a b ie ext = .ok r) (hg : goodL ks = true) (hr : r.2.good = true) :
    goodL r.1 = true := by
  rcases groupTokens'_cases h with ⟨c, kids, _, _, _, rfl⟩ | ⟨_, _, rfl⟩
  · exact good_splice hg _ _ hr
  · exact good_splice hg _ _ hr

theorem pySlice_ne_nil {α : Type} {l : List α} {a e : Nat} (ha : a < l.length) (hae : a < e) : pySlice l a e ≠ [] := by
  unfold pySlice
  intro h
  have := congrArg List.length h
  simp only [List.length_drop, List.length_take, List.length_nil] at this
  omega

/-- **classes other than the bracket classes and `TokenList`** (every call except those of `_group_matching` for
brackets and of `align_comments`): the returned group is good when `start ≤ end`, or when the extend branch is taken -/
theorem groupTokens'_good_plain {ks : List Node} {cls : Cls} {a b : Nat} {ext : Bool} {r : List Node × Node}
    (h : groupTokens' ks cls a b true ext = .ok r) (hg : goodL ks = true)
    (hinner : innerCls cls = false) (htl : cls ≠ .TokenList)
    (hidx : a ≤ b ∨ (ext = true ∧ ∃ st, ks[a]? = some st ∧ st.isInst cls = true)) :
    r.2.good = true := by
  have hcases := groupTokens'_cases h
  simp only [↓reduceIte] at hcases
  rcases hcases with ⟨c, kids, _, hst, hinst, rfl⟩ | ⟨hlt, hno, rfl⟩
  · have hk := good_of_getElem? hg hst
    simp only [good_grp, Bool.and_eq_true, Bool.or_eq_true, Bool.not_eq_true'] at hk
    have hc : c = cls := by
      simp only [Node.isInst, Bool.or_eq_true, beq_iff_eq] at hinst
      rcases hinst with h1 | h1
      · exact absurd h1 htl
      · exact h1
    subst hc
    simp only [good_grp, Bool.and_eq_true, Bool.or_eq_true, Bool.not_eq_true', goodL_append]
    refine ⟨⟨?_, Or.inl hinner⟩, hk.2, goodL_pySlice hg _ _⟩
    have := hk.1.1
    simp only [List.isEmpty_eq_false_iff] at this ⊢
    simp [this]
  · have hab : a ≤ b := by
      rcases hidx with h1 | ⟨hext, st, hst, hinst⟩
      · exact h1
      · rcases hno with h2 | h2
        · rw [h2] at hext; cases hext
        · rw [h2 st hst] at hinst; cases hinst
    simp only [good_grp, Bool.and_eq_true, Bool.or_eq_true, Bool.not_eq_true']
    refine ⟨⟨?_, Or.inl hinner⟩, goodL_pySlice hg _ _⟩
    simp only [List.isEmpty_eq_false_iff]
    exact pySlice_ne_nil hlt (by omega)

/-- **bracket classes** (`_group_matching` with Parenthesis/SquareBrackets, never extending): needs the last grouped
element not to be a keyword leaf -/
theorem groupTokens'_good_new {ks : List Node} {cls : Cls} {a b : Nat} {r : List Node × Node}
    (h : groupTokens' ks cls a b true false = .ok r) (hg : goodL ks = true) (hab : a ≤ b)
    (hlast : innerCls cls = true → lastOk (pySlice ks a (b + 1)) = true) :
    r.2.good = true := by
  have hcases := groupTokens'_cases h
  simp only [↓reduceIte] at hcases
  rcases hcases with ⟨c, kids, hext, _, _, _⟩ | ⟨hlt, _, rfl⟩
  · cases hext
  · simp only [good_grp, Bool.and_eq_true, Bool.or_eq_true, Bool.not_eq_true']
    refine ⟨⟨?_, ?_⟩, goodL_pySlice hg _ _⟩
    · simp only [List.isEmpty_eq_false_iff]
      exact pySlice_ne_nil hlt (by omega)
    · cases hi : innerCls cls with
      | false => exact Or.inl rfl
      | true => exact Or.inr (by simpa using hlast hi)

/-- **`align_comments`** (`cls = TokenList`, extending whatever group precedes): the appended slice must not end in
a keyword leaf -/
theorem groupTokens'_good_tokenList {ks : List Node} {a b : Nat} {r : List Node × Node} {st : Node}
    (h : groupTokens' ks .TokenList a b true true = .ok r) (hg : goodL ks = true)
    (hst : ks[a]? = some st) (hgrp : st.isGroup = true)
    (hlast : lastOk (pySlice ks (a + 1) (b + 1)) = true) :
    r.2.good = true := by
  have hcases := groupTokens'_cases h
  simp only [↓reduceIte] at hcases
  rcases hcases with ⟨c, kids, _, hst', _, rfl⟩ | ⟨_, hno, _⟩
  · have hk := good_of_getElem? hg hst'
    simp only [good_grp, Bool.and_eq_true, Bool.or_eq_true, Bool.not_eq_true'] at hk
    simp only [good_grp, Bool.and_eq_true, Bool.or_eq_true, Bool.not_eq_true', goodL_append]
    have hne : kids ≠ [] := by
      have := hk.1.1
      simpa [List.isEmpty_eq_false_iff] using this
    refine ⟨⟨?_, ?_⟩, hk.2, goodL_pySlice hg _ _⟩
    · simp [hne]
    · rcases hk.1.2 with h1 | h1
      · exact Or.inl h1
      · right
        by_cases hs : pySlice ks (a + 1) (b + 1) = []
        · rw [hs, List.append_nil]; exact h1
        · rw [lastOk_append_of_ne _ hs]; exact hlast
  · rcases hno with h1 | h1
    · cases h1
    · have := h1 st hst
      cases st with
      | tok tt v => cases hgrp
      | grp c kids => simp [Node.isInst] at this

end Sql
