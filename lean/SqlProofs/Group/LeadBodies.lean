import SqlProofs.Group.LeadPasses
import SqlProofs.GroupLeaves
/-!
# SqlProofs.Group.LeadBodies — per pass: the shape `skippable* K whitespace* tail` is kept
(`group_comments` and `align_comments`, which rewrite the skippable prefix itself, are in `LeadingKeyword.lean`)
-/
namespace Sql

variable {u : Text → Text}

/-- the hypotheses on the leading keyword `K = tok tt v` -/
structure KOk (u : Text → Text) (tt : TType) (v : Text) : Prop where
  ty : tt = T.DML ∨ tt = T.DDL
  notNull : u v ≠ txt "NULL"
  notAs : u v ≠ txt "AS"

theorem KOk.elt {tt : TType} {v : Text} (h : KOk u tt v) : LeadElt u (Node.tok tt v) := .kw h.ty h.notNull h.notAs

theorem KOk.notWs {tt : TType} {v : Text} (h : KOk u tt v) : (Node.tok tt v).isWhitespace = false := by
  rcases h.ty with rfl | rfl <;> simp (config := { decide := true }) [Node.isWhitespace, TType.isIn, T.DML, T.DDL, T.Whitespace]

abbrev LeadK (u : Text → Text) (tt : TType) (v : Text) (L pre ws tail : List Node) : Prop :=
  LeadAt (badSecond u) (Node.tok tt v) L pre ws tail

/-- every child of the protected prefix is whitespace or a `LeadElt` -/
theorem leadK_elts {tt : TType} {v : Text} (hk : KOk u tt v) {L pre ws tail : List Node} (h : LeadK u tt v L pre ws tail) :
    ∀ x ∈ pre ++ Node.tok tt v :: ws, x.isWhitespace = true ∨ LeadElt u x := by
  intro x hx
  simp only [List.mem_append, List.mem_cons] at hx
  rcases hx with hx | rfl | hx
  · exact skippable_cases (h.pre x hx)
  · exact Or.inr hk.elt
  · exact Or.inl (h.ws x hx)

theorem leadK_get {tt : TType} {v : Text} (hk : KOk u tt v) {L pre ws tail : List Node} (h : LeadK u tt v L pre ws tail) :
    ∀ j x, j < pre.length + 1 + ws.length → L[j]? = some x → x.isWhitespace = true ∨ LeadElt u x := by
  intro j x hj hx
  have hlen : (pre ++ Node.tok tt v :: ws).length = pre.length + 1 + ws.length := by simp; omega
  rw [h.eq, List.getElem?_append_left (by omega)] at hx
  exact leadK_elts hk h x (List.mem_of_getElem? hx)

/-- a search whose predicate fails on the whole protected prefix starts after it -/
theorem pend_after {tt : TType} {v : Text} (hk : KOk u tt v) {L pre ws tail : List Node} (h : LeadK u tt v L pre ws tail)
    {i : List Cls} {m : List MPat} {t : TArg}
    (htrig : ∀ x, x.isWhitespace = true ∨ LeadElt u x → imt u x i m t = false) :
    ∀ t0 tok, tokenNextBy u L i m t 0 = some (t0, tok) → pre.length + 1 + ws.length ≤ t0 := by
  intro t0 tok hq
  obtain ⟨_, h2, h3⟩ := tokenNextBy_spec hq
  by_cases hlt : t0 < pre.length + 1 + ws.length
  · have := htrig tok (leadK_get hk h t0 tok hlt h2)
    rw [this] at h3; cases h3
  · omega

/-- a body that keeps the protected prefix keeps the shape -/
theorem leadK_of_pref {tt : TType} {v : Text} {L L' pre ws tail : List Node} (h : LeadK u tt v L pre ws tail)
    (hr : PrefRel (pre.length + 1 + ws.length) L L') : ∃ tail', LeadK u tt v L' pre ws tail' :=
  leadAt_of_prefRel (badSecond_stable u) h hr

/-- the bodies of the loop passes as functions that keep the shape -/
def BodyLead (u : Text → Text) (body : Cls → List Node → Except PyErr (List Node)) : Prop :=
  ∀ tt v, KOk u tt v → ∀ c L L' pre ws tail, body c L = .ok L' → LeadK u tt v L pre ws tail →
    ∃ pre' tail', LeadK u tt v L' pre' ws tail'

theorem bodyLead_identifier : BodyLead u (groupIdentifierBody u) := by
  intro tt v hk c L L' pre ws tail h hl
  obtain ⟨tail', h'⟩ := leadK_of_pref hl (identifierLoop_pref _ _ _ _ h (pend_after hk hl (fun x hx => trig_identifier hx)))
  exact ⟨pre, tail', h'⟩

theorem bodyLead_over : BodyLead u (groupOverBody u) := by
  intro tt v hk c L L' pre ws tail h hl
  obtain ⟨tail', h'⟩ := leadK_of_pref hl (overLoop_pref _ _ _ _ h (pend_after hk hl (fun x hx => trig_over hx)))
  exact ⟨pre, tail', h'⟩

theorem bodyLead_where : BodyLead u (groupWhereBody u) := by
  intro tt v hk c L L' pre ws tail h hl
  obtain ⟨tail', h'⟩ := leadK_of_pref hl (whereLoop_pref _ _ _ _ h (pend_after hk hl (fun x hx => trig_where hx)))
  exact ⟨pre, tail', h'⟩

theorem bodyLead_aliased : BodyLead u (groupAliasedBody u) := by
  intro tt v hk c L L' pre ws tail h hl
  obtain ⟨tail', h'⟩ := leadK_of_pref hl (aliasedLoop_pref _ _ _ _ h (pend_after hk hl (fun x hx => trig_aliased hx)))
  exact ⟨pre, tail', h'⟩

theorem bodyLead_functions : BodyLead u (groupFunctionsBody u) := by
  intro tt v hk c L L' pre ws tail h hl
  unfold groupFunctionsBody at h
  split at h
  · cases h; exact ⟨pre, tail, hl⟩
  · obtain ⟨tail', h'⟩ := leadK_of_pref hl
      (functionsLoop_pref _ _ _ _ h (pend_after hk hl (fun x hx => trig_functions hx)))
    exact ⟨pre, tail', h'⟩

theorem bodyLead_values : BodyLead u (groupValuesBody u) := by
  intro tt v hk c L L' pre ws tail h hl
  unfold groupValuesBody at h
  cases hnb : tokenNextBy u L [] Gen.group_values_token_next_by0_m .none 0 with
  | none => simp only [hnb] at h; cases h; exact ⟨pre, tail, hl⟩
  | some q =>
    obtain ⟨startIdx, token⟩ := q
    have hs := pend_after hk hl (fun x hx => trig_values hx) _ _ hnb
    simp only [hnb] at h
    split at h
    · cases h
    · cases h; exact ⟨pre, tail, hl⟩
    · obtain ⟨tail', h'⟩ := leadK_of_pref hl (groupTokens_prefRel h hs)
      exact ⟨pre, tail', h'⟩

/-! ### group_order: groups `[pidx, tidx]` backwards, but `prev_` must be an Identifier or a number -/
theorem tokenPrev_nonws {ks : List Node} {idx p : Nat} {k : Node} (h : tokenPrev ks idx = some (p, k)) :
    k.isWhitespace = false := by
  unfold tokenPrev at h
  have := (tokenMatchingRev_spec h).2.2
  simpa [skipMatcher] using this

theorem orderLoop_pref {s : Nat} : ∀ (n : Nat) (ks : List Node) (pend : Option (Nat × Node)) (ks' : List Node),
    orderLoop u n ks pend = .ok ks' → (∀ t tok, pend = some (t, tok) → s ≤ t) →
    (∀ j x, j < s → ks[j]? = some x → x.isWhitespace = true ∨
      imt u x Gen.group_order_imt0_i [] Gen.group_order_imt0_t = false) → PrefRel s ks ks' := by
  intro n
  induction n with
  | zero =>
    intro ks pend ks' h _ _
    cases pend with
    | none => simp [orderLoop] at h; subst h; exact PrefRel.refl _ _
    | some p => simp [orderLoop] at h
  | succ n ih =>
    intro ks pend ks' h hp hlow
    cases pend with
    | none => simp [orderLoop] at h; subst h; exact PrefRel.refl _ _
    | some p =>
      obtain ⟨tidx, tok⟩ := p
      have hst := hp tidx tok rfl
      have hnext : ∀ t2 tok2, tokenNextBy u ks [] [] Gen.group_order_token_next_by1_t (tidx + 1) = some (t2, tok2) →
          s ≤ t2 := by
        intro t2 tok2 hq
        have := (tokenNextBy_spec hq).1
        omega
      simp only [orderLoop] at h
      cases hpv : tokenPrev ks tidx with
      | none => simp only [hpv] at h; exact ih _ _ _ h hnext hlow
      | some q =>
        obtain ⟨pidx, prev⟩ := q
        simp only [hpv] at h
        split at h
        · rename_i hcond
          have hps : s ≤ pidx := by
            by_cases hlt : pidx < s
            · rcases hlow pidx prev hlt (tokenPrev_hit hpv).2 with h1 | h1
              · rw [tokenPrev_nonws hpv] at h1; cases h1
              · rw [h1] at hcond; cases hcond
            · omega
          cases hg : groupTokens ks Gen.group_order_group_tokens0_cls pidx tidx true
              Gen.group_order_group_tokens0_extend with
          | error e => simp [hg] at h
          | ok ks1 =>
            simp only [hg] at h
            have hr := groupTokens_prefRel hg hps
            refine hr.trans (ih _ _ _ h ?_ ?_)
            · intro t2 tok2 hq
              have := (tokenNextBy_spec hq).1
              omega
            · intro j x hj hx
              have : ks1[j]? = ks[j]? := by
                have h1 : (ks1.take s)[j]? = ks1[j]? := by rw [List.getElem?_take]; simp [hj]
                have h2 : (ks.take s)[j]? = ks[j]? := by rw [List.getElem?_take]; simp [hj]
                rw [← h1, hr.pre, h2]
              rw [this] at hx
              exact hlow j x hj hx
        · exact ih _ _ _ h hnext hlow

theorem bodyLead_order : BodyLead u (groupOrderBody u) := by
  intro tt v hk c L L' pre ws tail h hl
  have hr := orderLoop_pref (s := pre.length + 1 + ws.length) _ _ _ _ h
    (pend_after hk hl (fun x hx => trig_order hx))
    (fun j x hj hx => by
      rcases leadK_get hk hl j x hj hx with h1 | h1
      · exact Or.inl h1
      · exact Or.inr (trig_order_prev (Or.inr h1)))
  obtain ⟨tail', h'⟩ := leadK_of_pref hl hr
  exact ⟨pre, tail', h'⟩

end Sql
