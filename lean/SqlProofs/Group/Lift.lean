import SqlModel.Grouping.Basic
import SqlProofs.Group.Basic
/-!
# SqlProofs.Group.Lift — recursion into sub-groups lifts a per-level leaf relation to the whole tree

Stated once for an arbitrary relation `R` on leaf lists that is reflexive and compatible with `++`
(`AppRel`), then instantiated for `=` and for `LeafRel`.
-/
namespace Sql

/-- a reflexive relation on leaf lists that is compatible with concatenation -/
structure AppRel (R : List Tok → List Tok → Prop) : Prop where
  refl : ∀ a, R a a
  app : ∀ {a a' b b'}, R a a' → R b b' → R (a ++ b) (a' ++ b')

theorem appRel_eq : AppRel (fun a b => b = a) :=
  ⟨fun _ => rfl, fun h1 h2 => by rw [h1, h2]⟩

theorem appRel_leafRel : AppRel LeafRel := ⟨LeafRel.refl, LeafRel.append⟩

/-- a function on child lists relates input and output leaves by `R` -/
def KidsRel (R : List Tok → List Tok → Prop) (f : Cls → List Node → Except PyErr (List Node)) : Prop :=
  ∀ c ks ks', f c ks = .ok ks' → R (Node.leavesL ks) (Node.leavesL ks')

theorem mapGroups_rel {R} (hR : AppRel R) {elig : Node → Bool} {f} (hf : KidsRel R f) :
    ∀ ks ks', mapGroups elig f ks = .ok ks' → R (Node.leavesL ks) (Node.leavesL ks') := by
  intro ks
  induction ks with
  | nil => intro ks' h; simp [mapGroups] at h; subst h; exact hR.refl _
  | cons k rest ih =>
    intro ks' h
    cases k with
    | tok tt v =>
      simp only [mapGroups] at h
      cases hr : mapGroups elig f rest with
      | error e => simp [hr] at h
      | ok rest' =>
        simp only [hr, Except.ok.injEq] at h
        subst h
        simp only [leavesL_cons]
        exact hR.app (hR.refl _) (ih _ hr)
    | grp c kids =>
      simp only [mapGroups] at h
      by_cases he : elig (.grp c kids) = true
      · rw [if_pos he] at h
        cases hk : f c kids with
        | error e => simp [hk] at h
        | ok kids' =>
          simp only [hk] at h
          cases hr : mapGroups elig f rest with
          | error e => simp [hr] at h
          | ok rest' =>
            simp only [hr, Except.ok.injEq] at h
            subst h
            simp only [leavesL_cons, leaves_grp]
            exact hR.app (hf _ _ _ hk) (ih _ hr)
      · rw [if_neg he] at h
        cases hr : mapGroups elig f rest with
        | error e => simp [hr] at h
        | ok rest' =>
          simp only [hr, Except.ok.injEq] at h
          subst h
          simp only [leavesL_cons]
          exact hR.app (hR.refl _) (ih _ hr)

theorem mapGroupsWhere_rel {R} (hR : AppRel R) {f} (hf : KidsRel R f) :
    ∀ bs ks ks', mapGroupsWhere f bs ks = .ok ks' → R (Node.leavesL ks) (Node.leavesL ks') := by
  intro bs ks
  induction ks generalizing bs with
  | nil => intro ks' h; simp [mapGroupsWhere] at h; subst h; exact hR.refl _
  | cons k rest ih =>
    intro ks' h
    cases bs with
    | nil => simp [mapGroupsWhere] at h; subst h; exact hR.refl _
    | cons b bs =>
      cases k with
      | tok tt v =>
        simp only [mapGroupsWhere] at h
        cases hr : mapGroupsWhere f bs rest with
        | error e => simp [hr] at h
        | ok rest' =>
          simp only [hr, Except.ok.injEq] at h
          subst h
          simp only [leavesL_cons]
          exact hR.app (hR.refl _) (ih _ _ hr)
      | grp c kids =>
        simp only [mapGroupsWhere] at h
        by_cases hb : b = true
        · rw [if_pos hb] at h
          cases hk : f c kids with
          | error e => simp [hk] at h
          | ok kids' =>
            simp only [hk] at h
            cases hr : mapGroupsWhere f bs rest with
            | error e => simp [hr] at h
            | ok rest' =>
              simp only [hr, Except.ok.injEq] at h
              subst h
              simp only [leavesL_cons, leaves_grp]
              exact hR.app (hf _ _ _ hk) (ih _ _ hr)
        · rw [if_neg hb] at h
          cases hr : mapGroupsWhere f bs rest with
          | error e => simp [hr] at h
          | ok rest' =>
            simp only [hr, Except.ok.injEq] at h
            subst h
            simp only [leavesL_cons]
            exact hR.app (hR.refl _) (ih _ _ hr)

/-- a pass relates input and output leaves by `R`, for every fuel and owner class -/
def PassRel (R : List Tok → List Tok → Prop) (p : Pass) : Prop :=
  ∀ fuel c ks ks', p fuel c ks = .ok ks' → R (Node.leavesL ks) (Node.leavesL ks')

theorem recursePass_rel {R} (hR : AppRel R) (htrans : ∀ {a b c}, R a b → R b c → R a c)
    {skip : List Cls} {f} (hf : KidsRel R f) : PassRel R (recursePass skip f) := by
  intro fuel
  induction fuel with
  | zero => intro c ks ks' h; simp [recursePass] at h
  | succ n ih =>
    intro c ks ks' h
    simp only [recursePass] at h
    cases hm : mapGroups (fun k => !k.isInstAny skip) (recursePass skip f n) ks with
    | error e => simp [hm] at h
    | ok ks1 =>
      simp only [hm] at h
      exact htrans (mapGroups_rel hR (fun c ks ks' h => ih c ks ks' h) _ _ hm) (hf _ _ _ h)

/-! ### the instances used below -/
theorem mapGroups_leaves {elig : Node → Bool} {f} (hf : KidsRel LeafRel f) {ks ks'}
    (h : mapGroups elig f ks = .ok ks') : LeafRel (Node.leavesL ks) (Node.leavesL ks') :=
  mapGroups_rel appRel_leafRel hf _ _ h

theorem mapGroupsWhere_leaves {f} (hf : KidsRel LeafRel f) {bs ks ks'}
    (h : mapGroupsWhere f bs ks = .ok ks') : LeafRel (Node.leavesL ks) (Node.leavesL ks') :=
  mapGroupsWhere_rel appRel_leafRel hf _ _ _ h

theorem recursePass_leaves {skip : List Cls} {f} (hf : KidsRel LeafRel f) :
    PassRel LeafRel (recursePass skip f) :=
  recursePass_rel appRel_leafRel LeafRel.trans hf

theorem recursePass_leaves_eq {skip : List Cls} {f} (hf : KidsRel (fun a b => b = a) f) :
    PassRel (fun a b => b = a) (recursePass skip f) :=
  recursePass_rel appRel_eq (fun h1 h2 => h2.trans h1) hf

theorem KidsRel.toLeafRel {f} (hf : KidsRel (fun a b => b = a) f) : KidsRel LeafRel f :=
  fun c ks ks' h => LeafRel.of_eq (hf c ks ks' h).symm

theorem PassRel.toLeafRel {p} (hp : PassRel (fun a b => b = a) p) : PassRel LeafRel p :=
  fun fuel c ks ks' h => LeafRel.of_eq (hp fuel c ks ks' h).symm

end Sql
