import SqlModel.Grouping.MatchSpec
import SqlProofs.Group.Basic
/-!
# SqlProofs.Group.SpecShape — what the textbook matcher `specMatch` produces (facts about the spec alone)

* `specMatch_shape`: every element of the result is an element of the input, or a *matched group*
  `grp cls (o :: mid ++ [c])` — at least two children, the first an opener of the input, the last a closer of the
  input, the children in between again of this shape (`Shape`).
* `specFrames_heads`: the frames left open at the end (all but the base frame) each start with an opener of the
  input; `specMatch` concatenates them in order, so unmatched openers stay top-level elements.
* `specMatch_leaves`: the leaves are unchanged (hence nothing is reordered, dropped or duplicated).
-/
namespace Sql

/-- an element of the input, or a matched group over such things -/
inductive Shape (isOpen isClose : Node → Bool) (cls : Cls) (ts : List Node) : Node → Prop
  | old {k : Node} : k ∈ ts → Shape isOpen isClose cls ts k
  | new {o c : Node} {mid : List Node} : o ∈ ts → c ∈ ts → isOpen o = true → isClose c = true →
      (∀ x ∈ mid, Shape isOpen isClose cls ts x) → Shape isOpen isClose cls ts (Node.grp cls (o :: (mid ++ [c])))

/-- every frame above the base frame starts with an opener of the input -/
def HeadsOk (isOpen : Node → Bool) (ts : List Node) : List (List Node) → Prop
  | [] => True
  | [_] => True
  | fr :: rest => (∃ o tl, fr = o :: tl ∧ o ∈ ts ∧ isOpen o = true) ∧ HeadsOk isOpen ts rest

structure FramesOk (isOpen isClose : Node → Bool) (cls : Cls) (ts : List Node) (frames : List (List Node)) : Prop where
  elems : ∀ fr ∈ frames, ∀ x ∈ fr, Shape isOpen isClose cls ts x
  heads : HeadsOk isOpen ts frames

/-- appending to the innermost frame keeps the heads -/
theorem HeadsOk.snoc_top {isOpen : Node → Bool} {ts : List Node} {top : List Node} {rest : List (List Node)}
    (h : HeadsOk isOpen ts (top :: rest)) (x : Node) : HeadsOk isOpen ts ((top ++ [x]) :: rest) := by
  cases rest with
  | nil => trivial
  | cons r rs =>
    obtain ⟨⟨o, tl, rfl, ho, hoo⟩, hr⟩ := h
    exact ⟨⟨o, tl ++ [x], rfl, ho, hoo⟩, hr⟩

theorem HeadsOk.tail {isOpen : Node → Bool} {ts : List Node} {fr : List Node} {rest : List (List Node)}
    (h : HeadsOk isOpen ts (fr :: rest)) : HeadsOk isOpen ts rest := by
  cases rest with
  | nil => trivial
  | cons r rs => exact h.2

theorem specStep_framesOk {isOpen isClose : Node → Bool} {cls : Cls} {ts : List Node} {frames : List (List Node)}
    {t : Node} (ht : t ∈ ts) (h : FramesOk isOpen isClose cls ts frames) :
    FramesOk isOpen isClose cls ts (specStep isOpen isClose cls frames t) := by
  obtain ⟨hel, hh⟩ := h
  have hsnoc : ∀ (top : List Node) (rest : List (List Node)) (x : Node), Shape isOpen isClose cls ts x →
      (∀ fr ∈ top :: rest, ∀ y ∈ fr, Shape isOpen isClose cls ts y) →
      ∀ fr ∈ (top ++ [x]) :: rest, ∀ y ∈ fr, Shape isOpen isClose cls ts y := by
    intro top rest x hx hall fr hfr y hy
    cases hfr with
    | head =>
      rcases List.mem_append.1 hy with h1 | h1
      · exact hall top (List.mem_cons_self) y h1
      · simp only [List.mem_singleton] at h1; subst h1; exact hx
    | tail _ hfr => exact hall fr (List.mem_cons_of_mem _ hfr) y hy
  unfold specStep
  by_cases ho : isOpen t = true
  · rw [if_pos ho]
    refine ⟨?_, ?_⟩
    · intro fr hfr x hx
      cases hfr with
      | head => simp only [List.mem_singleton] at hx; subst hx; exact Shape.old ht
      | tail _ hfr => exact hel fr hfr x hx
    · cases frames with
      | nil => trivial
      | cons a as => exact ⟨⟨t, [], rfl, ht, ho⟩, hh⟩
  · rw [if_neg ho]
    by_cases hc : isClose t = true
    · rw [if_pos hc]
      match frames, hel, hh with
      | [], _, _ =>
        refine ⟨?_, trivial⟩
        intro fr hfr x hx
        simp only [List.mem_singleton] at hfr; subst hfr
        simp only [List.mem_singleton] at hx; subst hx
        exact Shape.old ht
      | [base], hel, _ =>
        exact ⟨hsnoc base [] t (Shape.old ht) hel, trivial⟩
      | fr :: parent :: rest, hel, hh =>
        obtain ⟨⟨o, tl, rfl, hots, hoo⟩, hrest⟩ := hh
        have hg : Shape isOpen isClose cls ts (Node.grp cls ((o :: tl) ++ [t])) := by
          refine Shape.new hots ht hoo hc ?_
          intro x hx
          exact hel (o :: tl) (List.mem_cons_self) x (List.mem_cons_of_mem _ hx)
        refine ⟨hsnoc parent rest _ hg ?_, HeadsOk.snoc_top hrest _⟩
        intro f hf y hy
        exact hel f (List.mem_cons_of_mem _ hf) y hy
    · rw [if_neg hc]
      match frames, hel, hh with
      | [], _, _ =>
        refine ⟨?_, trivial⟩
        intro fr hfr x hx
        simp only [List.mem_singleton] at hfr; subst hfr
        simp only [List.mem_singleton] at hx; subst hx
        exact Shape.old ht
      | top :: rest, hel, hh =>
        exact ⟨hsnoc top rest t (Shape.old ht) hel, HeadsOk.snoc_top hh _⟩

theorem specFrames_framesOk {isOpen isClose : Node → Bool} {cls : Cls} {ts : List Node} :
    ∀ (rest : List Node) (frames : List (List Node)), (∀ t ∈ rest, t ∈ ts) →
      FramesOk isOpen isClose cls ts frames → FramesOk isOpen isClose cls ts (specFrames isOpen isClose cls frames rest) := by
  intro rest
  induction rest with
  | nil => intro frames _ h; simpa [specFrames] using h
  | cons t rest ih =>
    intro frames hts h
    simp only [specFrames, List.foldl_cons]
    exact ih _ (fun x hx => hts x (List.mem_cons_of_mem _ hx)) (specStep_framesOk (hts t List.mem_cons_self) h)

theorem framesOk_init {isOpen isClose : Node → Bool} {cls : Cls} {ts : List Node} :
    FramesOk isOpen isClose cls ts [[]] :=
  ⟨(by intro fr hfr x hx; simp only [List.mem_singleton] at hfr; subst hfr; cases hx), trivial⟩

/-- **shape of the result**: every element is an input element or a matched group `[opener, …, closer]` -/
theorem specMatch_shape {isOpen isClose : Node → Bool} {cls : Cls} {ts : List Node} {g : Node}
    (h : g ∈ specMatch isOpen isClose cls ts) : Shape isOpen isClose cls ts g := by
  unfold specMatch at h
  simp only [List.mem_flatten, List.mem_reverse] at h
  obtain ⟨fr, hfr, hg⟩ := h
  exact (specFrames_framesOk ts [[]] (fun _ h => h) framesOk_init).elems fr hfr g hg

/-- a matched group has at least two children, starts with an opener and ends with a closer -/
theorem Shape.new_spec {isOpen isClose : Node → Bool} {cls : Cls} {ts : List Node} {g : Node}
    (h : Shape isOpen isClose cls ts g) (hnot : g ∉ ts) :
    ∃ o mid c, g = Node.grp cls (o :: (mid ++ [c])) ∧ isOpen o = true ∧ isClose c = true ∧
      2 ≤ (o :: (mid ++ [c])).length ∧ (o :: (mid ++ [c])).head? = some o ∧ (o :: (mid ++ [c])).getLast? = some c := by
  cases h with
  | old hk => exact absurd hk hnot
  | @new o c mid ho hc hoo hcc hmid =>
    refine ⟨o, mid, c, rfl, hoo, hcc, ?_, rfl, ?_⟩
    · simp only [List.length_cons, List.length_append, List.length_nil]; omega
    · have : o :: (mid ++ [c]) = (o :: mid) ++ [c] := rfl
      rw [this, List.getLast?_append]
      rfl

/-- **unmatched openers**: the frames still open at the end each start with an opener of the input;
`specMatch` is their concatenation, bottom-up, so these openers are top-level elements of the result -/
theorem specFrames_heads {isOpen isClose : Node → Bool} {cls : Cls} (ts : List Node) :
    HeadsOk isOpen ts (specFrames isOpen isClose cls [[]] ts) :=
  (specFrames_framesOk (isClose := isClose) (cls := cls) ts [[]] (fun _ h => h) framesOk_init).heads

/-! ### leaves -/
theorem specStep_leaves {isOpen isClose : Node → Bool} {cls : Cls} (frames : List (List Node)) (t : Node) :
    Node.leavesL (specStep isOpen isClose cls frames t).reverse.flatten =
      Node.leavesL frames.reverse.flatten ++ t.leaves := by
  unfold specStep
  split
  · simp [leavesL_append]
  · split
    · split <;> simp [leavesL_append]
    · split <;> simp [leavesL_append]

theorem specFrames_leaves {isOpen isClose : Node → Bool} {cls : Cls} :
    ∀ (rest : List Node) (frames : List (List Node)),
      Node.leavesL (specFrames isOpen isClose cls frames rest).reverse.flatten =
        Node.leavesL frames.reverse.flatten ++ Node.leavesL rest := by
  intro rest
  induction rest with
  | nil => intro frames; simp [specFrames]
  | cons t rest ih =>
    intro frames
    simp only [specFrames, List.foldl_cons]
    have := ih (specStep isOpen isClose cls frames t)
    simp only [specFrames] at this
    rw [this, specStep_leaves]
    simp

/-- **the matcher only adds structure**: same leaves, same order -/
theorem specMatch_leaves (isOpen isClose : Node → Bool) (cls : Cls) (ts : List Node) :
    Node.leavesL (specMatch isOpen isClose cls ts) = Node.leavesL ts := by
  unfold specMatch
  rw [specFrames_leaves]
  simp

end Sql
