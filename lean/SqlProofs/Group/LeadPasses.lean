import SqlProofs.Group.LeadCfg
import SqlProofs.MatchSpec
/-!
# SqlProofs.Group.LeadPasses — matching passes and loop passes keep the shape `skippable* K whitespace* tail`
-/
namespace Sql

/-! ### `_group_matching` -/
theorem matchLoop_inert {u : Text → Text} {cls : Cls} {mOpen mClose : List MPat} :
    ∀ (A snap : List Node) (i : Nat) (st : MatchSt), st.opens = [] →
      (∀ x ∈ A, isOpenTok u cls mOpen x = false) →
      matchLoop u cls mOpen mClose (A ++ snap) i st = matchLoop u cls mOpen mClose snap (i + A.length) st := by
  intro A
  induction A with
  | nil => intro snap i st _ _; simp
  | cons x A ih =>
    intro snap i st hop hA
    have hx := hA x List.mem_cons_self
    have hstep : matchStep u cls mOpen mClose st i x = .ok st := by
      by_cases hc : isCloseTok u cls mOpen mClose x = true
      · rw [matchStep_close hc, hop]
      · exact matchStep_other hx (by simpa using hc)
    simp only [List.cons_append, matchLoop, hstep]
    rw [ih snap (i + 1) st hop (fun y hy => hA y (List.mem_cons_of_mem _ hy))]
    simp only [List.length_cons]
    congr 1
    omega

structure MPref (s : Nat) (idx : Nat) (st : MatchSt) : Prop where
  off : st.off ≤ idx
  ok : OpensOk st.opens (idx - st.off)
  low : ∀ o ∈ st.opens, s ≤ o
  pos : s ≤ idx - st.off

theorem matchStep_pref {u : Text → Text} {cls : Cls} {mOpen mClose : List MPat} {s : Nat} {st st' : MatchSt}
    {idx : Nat} {t : Node} (hinv : MPref s idx st) (h : matchStep u cls mOpen mClose st idx t = .ok st') :
    PrefRel s st.cur st'.cur ∧ MPref s (idx + 1) st' := by
  obtain ⟨hoff, hok, hlow, hpos⟩ := hinv
  have hsame : MPref s (idx + 1) st := ⟨by omega, hok.mono (by omega), hlow, by omega⟩
  by_cases ho : isOpenTok u cls mOpen t = true
  · rw [matchStep_open ho] at h
    cases h
    refine ⟨PrefRel.refl _ _, by simp only; omega, ?_, ?_, by simp only; omega⟩
    · exact ⟨by simp only; omega, hok⟩
    · intro o hm
      simp only [List.mem_cons] at hm
      rcases hm with rfl | hm
      · exact hpos
      · exact hlow o hm
  · have ho' : isOpenTok u cls mOpen t = false := by simpa using ho
    by_cases hc : isCloseTok u cls mOpen mClose t = true
    · rw [matchStep_close hc] at h
      cases hop : st.opens with
      | nil => simp only [hop] at h; cases h; exact ⟨PrefRel.refl _ _, hsame⟩
      | cons o rest =>
        simp only [hop] at h
        rw [hop] at hok hlow
        cases hg : groupTokens st.cur cls o (idx - st.off) with
        | error e => simp [hg] at h
        | ok cur' =>
          simp only [hg, Except.ok.injEq] at h
          subst h
          have hso := hlow o List.mem_cons_self
          refine ⟨groupTokens_prefRel hg hso, by simp only; omega, ?_, ?_, by simp only; omega⟩
          · simp only
            have e : idx + 1 - (st.off + (idx - st.off - o)) = o + 1 := by have := hok.1; omega
            rw [e]
            exact hok.2.mono (by omega)
          · intro o' hm
            exact hlow o' (List.mem_cons_of_mem _ hm)
    · rw [matchStep_other ho' (by simpa using hc)] at h
      cases h
      exact ⟨PrefRel.refl _ _, hsame⟩

theorem matchLoop_pref {u : Text → Text} {cls : Cls} {mOpen mClose : List MPat} {s : Nat} :
    ∀ (snap : List Node) (idx : Nat) (st st' : MatchSt), MPref s idx st →
      matchLoop u cls mOpen mClose snap idx st = .ok st' → PrefRel s st.cur st'.cur := by
  intro snap
  induction snap with
  | nil => intro idx st st' _ h; simp [matchLoop] at h; subst h; exact PrefRel.refl _ _
  | cons t rest ih =>
    intro idx st st' hinv h
    simp only [matchLoop] at h
    cases hs : matchStep u cls mOpen mClose st idx t with
    | error e => simp [hs] at h
    | ok st1 =>
      simp only [hs] at h
      obtain ⟨h1, h2⟩ := matchStep_pref hinv hs
      exact h1.trans (ih _ _ _ h2 h)

/-- the parent-level loop of `_group_matching` leaves a prefix without openers alone -/
theorem matchLoop_protect {u : Text → Text} {cls : Cls} {mOpen mClose : List MPat} {A tail : List Node}
    (hA : ∀ x ∈ A, isOpenTok u cls mOpen x = false) {st' : MatchSt}
    (h : matchLoop u cls mOpen mClose (A ++ tail) 0 { cur := A ++ tail, opens := [], off := 0 } = .ok st') :
    PrefRel A.length (A ++ tail) st'.cur := by
  rw [matchLoop_inert A tail 0 _ rfl hA] at h
  simp only [Nat.zero_add] at h
  refine matchLoop_pref _ _ _ _ ?_ h
  refine ⟨Nat.zero_le _, ?_, ?_, ?_⟩
  · exact (trivial : OpensOk [] _)
  · intro o ho; cases ho
  · exact Nat.le_refl _

/-- openers are leaves of the pattern types: nothing in the protected prefix is one -/
theorem isOpenTok_leadElt {u : Text → Text} {cls : Cls} {mOpen : List MPat} {x : Node}
    (hm : ∀ p ∈ mOpen, p.tt ≠ T.DML ∧ p.tt ≠ T.DDL ∧ p.tt.head? ≠ some "Comment" ∧ p.tt.head? ≠ some "Text")
    (hx : x.isWhitespace = true ∨ LeadElt u x) : isOpenTok u cls mOpen x = false := by
  rcases hx with hw | hx
  · simp [isOpenTok, hw]
  · have key : mOpen.any (x.matchP u) = false := by
      cases hx with
      | @cmt tt v hc =>
        exact matchAny_false_of_tt (fun p hp => ne_of_comment hc (hm p hp).2.2.1)
      | grp => simp [Node.matchP, Node.match]
      | @kw tt v ht _ _ =>
        apply matchAny_false_of_tt
        intro p hp
        rcases ht with rfl | rfl
        · exact (hm p hp).1
        · exact (hm p hp).2.1
    simp [isOpenTok, key]

/-! ### the loop passes: nothing in the protected prefix triggers them -/
theorem isIn_ws {tt : TType} (h : tt.isIn T.Whitespace = true) : ∃ r, tt = "Text" :: "Whitespace" :: r := by
  cases tt with
  | nil => simp [TType.isIn, T.Whitespace] at h
  | cons a r =>
    cases r with
    | nil => simp [TType.isIn, T.Whitespace, List.isPrefixOf] at h
    | cons b r =>
      simp only [TType.isIn, T.Whitespace, List.isPrefixOf, Bool.and_eq_true, beq_iff_eq] at h
      exact ⟨r, by rw [h.1, h.2.1]⟩

macro "trig_simp" : tactic => `(tactic| simp (config := { decide := true }) [Node.matchAny, Node.matchP, Node.match, imt,
  Node.isInstAny, Node.isInst, Node.ttEqAny, Node.ttIn, TType.isIn, T.DML, T.DDL, T.Keyword, T.Comment,
  Gen.group_identifier_ttypes, Gen.group_over_token_next_by0_m, Gen.group_over_token_next_by1_m,
  Gen.group_functions_token_next_by0_t, Gen.group_functions_token_next_by1_t, Gen.group_where_token_next_by0_m,
  Gen.group_where_token_next_by2_m, Gen.group_aliased_I_ALIAS, Gen.group_aliased_token_next_by0_t,
  Gen.group_aliased_token_next_by1_t, Gen.group_order_token_next_by0_t, Gen.group_order_token_next_by1_t,
  Gen.group_order_imt0_i, Gen.group_order_imt0_t, Gen.group_values_token_next_by0_m, List.isPrefixOf])

/-- `imt … x = false` for a child `x` of the protected prefix, by cases on what `x` is -/
macro "aelt_cases" h:ident x:ident : tactic => `(tactic| (
  rcases $h:ident with hw | hx
  · cases $x:ident with
    | grp c k => simp [Node.isWhitespace] at hw
    | tok tt v =>
      obtain ⟨r, hr⟩ := isIn_ws (by simpa [Node.isWhitespace] using hw)
      subst hr; trig_simp
  · cases hx with
    | cmt hc => obtain ⟨r, hr⟩ := isIn_comment hc; subst hr; trig_simp
    | grp => trig_simp
    | kw ht h1 h2 => rcases ht with ht | ht <;> subst ht <;> trig_simp))

theorem trig_identifier {u : Text → Text} {x : Node} (h : x.isWhitespace = true ∨ LeadElt u x) :
    imt u x [] [] Gen.group_identifier_ttypes = false := by aelt_cases h x
theorem trig_over {u : Text → Text} {x : Node} (h : x.isWhitespace = true ∨ LeadElt u x) :
    imt u x [] Gen.group_over_token_next_by0_m .none = false := by aelt_cases h x
theorem trig_functions {u : Text → Text} {x : Node} (h : x.isWhitespace = true ∨ LeadElt u x) :
    imt u x [] [] Gen.group_functions_token_next_by0_t = false := by aelt_cases h x
theorem trig_where {u : Text → Text} {x : Node} (h : x.isWhitespace = true ∨ LeadElt u x) :
    imt u x [] Gen.group_where_token_next_by0_m .none = false := by aelt_cases h x
theorem trig_aliased {u : Text → Text} {x : Node} (h : x.isWhitespace = true ∨ LeadElt u x) :
    imt u x Gen.group_aliased_I_ALIAS [] Gen.group_aliased_token_next_by0_t = false := by aelt_cases h x
theorem trig_order {u : Text → Text} {x : Node} (h : x.isWhitespace = true ∨ LeadElt u x) :
    imt u x [] [] Gen.group_order_token_next_by0_t = false := by aelt_cases h x
theorem trig_order_prev {u : Text → Text} {x : Node} (h : x.isWhitespace = true ∨ LeadElt u x) :
    imt u x Gen.group_order_imt0_i [] Gen.group_order_imt0_t = false := by aelt_cases h x
theorem trig_values {u : Text → Text} {x : Node} (h : x.isWhitespace = true ∨ LeadElt u x) :
    imt u x [] Gen.group_values_token_next_by0_m .none = false := by aelt_cases h x

end Sql
